import GeomV.C17.Dec
import Mathlib.Tactic.Linarith
import Mathlib.Tactic.Ring
import Mathlib.Tactic.Positivity
import Mathlib.Tactic.FieldSimp
import Mathlib.Algebra.Order.Field.Power
/-!
# Correctness of the exact decimal → binary64 converter `Dec.roundPos` / `Dec.litToBits` / `Dec.toBits`

`Dec.toBits` is the spec-side component that decides "the text parses to exactly this float64" for C17
(OGC `<signed numeric literal>`) and C06 (RFC 8259 number).  Here it is proved to be IEEE 754
`roundTiesToEven` over an exact rational reading of bit patterns (`valPos`), so the per-coordinate
run-time check of the `NumFmt` contract is a *proved-sound certificate check*: when `toBits tok = some u`
the rational denoted by the literal rounds (nearest, ties to even, overflow to ±Inf) to exactly `u`.
-/
namespace GeomV.Dec

/-! ## round half even on naturals -/


def rhe (a b : Nat) : Nat :=
  if 2 * (a % b) > b || (2 * (a % b) == b && (a / b) % 2 == 1) then a / b + 1 else a / b

/-- integer form: `a - m*b` is within `b/2`, and exactly `b/2` away only if `m` is even -/
theorem rhe_int (a b : Nat) (hb : 0 < b) :
    2 * |(a : ℤ) - rhe a b * b| ≤ b ∧ (2 * |(a : ℤ) - rhe a b * b| = b → rhe a b % 2 = 0) := by
  have h1 : (a : ℤ) = b * (a / b : ℕ) + (a % b : ℕ) := by
    exact_mod_cast (Nat.div_add_mod a b).symm
  have h2 : a % b < b := Nat.mod_lt _ hb
  generalize hq : a / b = q at *
  generalize hr : a % b = r at *
  unfold rhe
  rw [hq, hr]
  have hqb : (b : ℤ) * (q : ℕ) = q * b := by ring
  split
  · rename_i h
    simp only [Bool.or_eq_true, decide_eq_true_eq, Bool.and_eq_true, beq_iff_eq] at h
    have e : (a : ℤ) - ((q + 1 : ℕ) : ℤ) * b = r - b := by push_cast; rw [h1]; ring
    rw [e]
    have : (r : ℤ) - b < 0 := by omega
    rw [abs_of_neg this]
    constructor
    · omega
    · intro h3; omega
  · rename_i h
    simp only [Bool.or_eq_true, decide_eq_true_eq, Bool.and_eq_true, beq_iff_eq, not_or, not_and] at h
    have e : (a : ℤ) - (q : ℤ) * b = r := by rw [h1]; ring
    rw [e, abs_of_nonneg (by omega)]
    constructor
    · omega
    · intro h3; omega

theorem rhe_half (a b : Nat) (hb : 0 < b) :
    |(a : ℚ) / b - rhe a b| ≤ 1 / 2 ∧ (|(a : ℚ) / b - rhe a b| = 1 / 2 → rhe a b % 2 = 0) := by
  obtain ⟨h1, h2⟩ := rhe_int a b hb
  have hbq : (0 : ℚ) < b := by exact_mod_cast hb
  have e : |(a : ℚ) / b - rhe a b| = ((|(a : ℤ) - rhe a b * b| : ℤ) : ℚ) / b := by
    rw [Int.cast_abs, eq_div_iff hbq.ne', ← abs_of_pos hbq, ← abs_mul, abs_of_pos hbq]
    push_cast
    congr 1
    field_simp
  rw [e]
  constructor
  · rw [div_le_iff₀ hbq]
    have : ((2 * |(a : ℤ) - rhe a b * b| : ℤ) : ℚ) ≤ ((b : ℤ) : ℚ) := by exact_mod_cast h1
    push_cast at this ⊢
    linarith
  · intro h
    apply h2
    rw [div_eq_iff hbq.ne'] at h
    have : ((2 * |(a : ℤ) - rhe a b * b| : ℤ) : ℚ) = ((b : ℤ) : ℚ) := by
      push_cast at h ⊢; linarith
    exact_mod_cast this

theorem rhe_nearest (a b : Nat) (hb : 0 < b) (k : ℤ) :
    |(a : ℚ) / b - rhe a b| ≤ |(a : ℚ) / b - k| ∧
    (|(a : ℚ) / b - rhe a b| = |(a : ℚ) / b - k| → k ≠ rhe a b → rhe a b % 2 = 0) := by
  obtain ⟨h1, h2⟩ := rhe_half a b hb
  by_cases hk : k = rhe a b
  · subst hk; simp
  · have h3 : (1 : ℚ) ≤ |(rhe a b : ℚ) - k| := by
      have : (1 : ℤ) ≤ |(rhe a b : ℤ) - k| := by
        have : (rhe a b : ℤ) - k ≠ 0 := by omega
        exact Int.one_le_abs this
      have := (Int.cast_le (R := ℚ)).mpr this
      simpa using this
    have h4 : |(rhe a b : ℚ) - k| ≤ |(a : ℚ) / b - rhe a b| + |(a : ℚ) / b - k| := by
      have := abs_sub_le (rhe a b : ℚ) ((a : ℚ) / b) k
      rwa [abs_sub_comm (rhe a b : ℚ) ((a : ℚ) / b)] at this
    constructor
    · linarith
    · intro h5 _
      apply h2
      linarith

/-! ## `scaled` -/


theorem scaled_pos (n d : Nat) (e : Int) (hd : 0 < d) : 0 < (scaled n d e).2 := by
  unfold scaled; split
  · exact Nat.mul_pos hd (Nat.pow_pos (by norm_num))
  · exact hd

theorem scaled_ratio (n d : Nat) (e : Int) (hd : 0 < d) :
    ((scaled n d e).1 : ℚ) / (scaled n d e).2 = (n : ℚ) / d * (2 : ℚ) ^ (-e) := by
  have hdq : (d : ℚ) ≠ 0 := by exact_mod_cast hd.ne'
  unfold scaled; split
  · rename_i h
    obtain ⟨k, rfl⟩ := Int.eq_ofNat_of_zero_le h
    simp only [Int.toNat_natCast, zpow_neg, zpow_natCast]
    push_cast
    field_simp
  · rename_i h
    obtain ⟨k, hk⟩ := Int.eq_ofNat_of_zero_le (show 0 ≤ -e by omega)
    rw [hk]
    simp only [Int.toNat_natCast, zpow_natCast]
    push_cast
    field_simp

/-! ## choice of the exponent -/
def expOf (n d : Nat) : Int :=
  let e0 : Int := (Nat.log2 n : Int) - (Nat.log2 d : Int) - 52
  let e : Int := if (scaled n d e0).1 < 2 ^ 52 * (scaled n d e0).2 then e0 - 1 else e0
  if e < -1074 then -1074 else e

theorem log2_bounds (n : Nat) (hn : 0 < n) :
    (2 : ℚ) ^ (Nat.log2 n : ℤ) ≤ n ∧ (n : ℚ) < (2 : ℚ) ^ ((Nat.log2 n : ℤ) + 1) := by
  constructor
  · rw [zpow_natCast]; exact_mod_cast Nat.log2_self_le hn.ne'
  · have : ((Nat.log2 n : ℤ) + 1) = ((Nat.log2 n + 1 : ℕ) : ℤ) := by push_cast; ring
    rw [this, zpow_natCast]; exact_mod_cast Nat.lt_log2_self

theorem two_zpow_pos (e : ℤ) : (0 : ℚ) < (2 : ℚ) ^ e := by positivity

theorem expOf_spec (n d : Nat) (hn : 0 < n) (hd : 0 < d) :
    -1074 ≤ expOf n d ∧ (n : ℚ) / d * (2 : ℚ) ^ (-(expOf n d)) < 2 ^ 53 ∧
    (2 ^ 52 ≤ (n : ℚ) / d * (2 : ℚ) ^ (-(expOf n d)) ∨
      (expOf n d = -1074 ∧ (n : ℚ) / d * (2 : ℚ) ^ (-(expOf n d)) < 2 ^ 52)) := by
  obtain ⟨n1, n2⟩ := log2_bounds n hn
  obtain ⟨d1, d2⟩ := log2_bounds d hd
  have hdq : (0 : ℚ) < d := by exact_mod_cast hd
  have hnq : (0 : ℚ) < n := by exact_mod_cast hn
  set ln : ℤ := (Nat.log2 n : ℤ) with hln
  set ld : ℤ := (Nat.log2 d : ℤ) with hld
  set q : ℚ := (n : ℚ) / d with hq
  have hqpos : 0 < q := div_pos hnq hdq
  -- q ∈ (2^(ln-ld-1), 2^(ln-ld+1))
  have q1 : (2 : ℚ) ^ (ln - ld - 1) < q := by
    rw [hq, lt_div_iff₀ hdq]
    have : (2 : ℚ) ^ (ln - ld - 1) * (2 : ℚ) ^ (ld + 1) = (2 : ℚ) ^ ln := by
      rw [← zpow_add₀ (by norm_num : (2 : ℚ) ≠ 0)]; congr 1; ring
    calc (2 : ℚ) ^ (ln - ld - 1) * d < (2 : ℚ) ^ (ln - ld - 1) * (2 : ℚ) ^ (ld + 1) :=
          mul_lt_mul_of_pos_left d2 (two_zpow_pos _)
      _ = (2 : ℚ) ^ ln := this
      _ ≤ n := n1
  have q2 : q < (2 : ℚ) ^ (ln - ld + 1) := by
    rw [hq, div_lt_iff₀ hdq]
    have : (2 : ℚ) ^ (ln - ld + 1) * (2 : ℚ) ^ ld = (2 : ℚ) ^ (ln + 1) := by
      rw [← zpow_add₀ (by norm_num : (2 : ℚ) ≠ 0)]; congr 1; ring
    calc (n : ℚ) < (2 : ℚ) ^ (ln + 1) := n2
      _ = (2 : ℚ) ^ (ln - ld + 1) * (2 : ℚ) ^ ld := this.symm
      _ ≤ (2 : ℚ) ^ (ln - ld + 1) * d := mul_le_mul_of_nonneg_left d1 (two_zpow_pos _).le
  -- x e := q * 2^(-e)
  have shift : ∀ e k : ℤ, q * (2 : ℚ) ^ (-(e - k)) = q * (2 : ℚ) ^ (-e) * (2 : ℚ) ^ k := by
    intro e k
    rw [mul_assoc, ← zpow_add₀ (by norm_num : (2 : ℚ) ≠ 0)]; congr 2; ring
  set e0 : ℤ := ln - ld - 52 with he0
  have x0lo : (2 : ℚ) ^ (51 : ℤ) < q * (2 : ℚ) ^ (-e0) := by
    have : (2 : ℚ) ^ (51 : ℤ) = (2 : ℚ) ^ (ln - ld - 1) * (2 : ℚ) ^ (-e0) := by
      rw [← zpow_add₀ (by norm_num : (2 : ℚ) ≠ 0)]; congr 1; rw [he0]; ring
    rw [this]; exact mul_lt_mul_of_pos_right q1 (two_zpow_pos _)
  have x0hi : q * (2 : ℚ) ^ (-e0) < (2 : ℚ) ^ (53 : ℤ) := by
    have : (2 : ℚ) ^ (53 : ℤ) = (2 : ℚ) ^ (ln - ld + 1) * (2 : ℚ) ^ (-e0) := by
      rw [← zpow_add₀ (by norm_num : (2 : ℚ) ≠ 0)]; congr 1; rw [he0]; ring
    rw [this]; exact mul_lt_mul_of_pos_right q2 (two_zpow_pos _)
  -- the test
  have test : ((scaled n d e0).1 < 2 ^ 52 * (scaled n d e0).2) ↔ q * (2 : ℚ) ^ (-e0) < 2 ^ 52 := by
    rw [← scaled_ratio n d e0 hd]
    have hb : (0 : ℚ) < (scaled n d e0).2 := by exact_mod_cast scaled_pos n d e0 hd
    rw [div_lt_iff₀ hb]
    constructor
    · intro h; exact_mod_cast h
    · intro h; exact_mod_cast h
  -- e1
  set e1 : ℤ := if (scaled n d e0).1 < 2 ^ 52 * (scaled n d e0).2 then e0 - 1 else e0 with he1
  have x1 : (2 : ℚ) ^ 52 ≤ q * (2 : ℚ) ^ (-e1) ∧ q * (2 : ℚ) ^ (-e1) < 2 ^ 53 := by
    rw [he1]; split
    · rename_i h
      rw [test] at h
      rw [shift e0 1]
      norm_num at x0lo x0hi h ⊢
      constructor <;> linarith
    · rename_i h
      rw [test] at h
      norm_num at x0lo x0hi h ⊢
      constructor <;> linarith
  have hexp : expOf n d = if e1 < -1074 then -1074 else e1 := rfl
  rw [hexp]
  split
  · rename_i h
    refine ⟨le_refl _, ?_, ?_⟩
    all_goals
      have hs : q * (2 : ℚ) ^ (-(-1074 : ℤ)) = q * (2 : ℚ) ^ (-e1) * (2 : ℚ) ^ (e1 + 1074) := by
        rw [mul_assoc, ← zpow_add₀ (by norm_num : (2 : ℚ) ≠ 0)]; congr 2; ring
      have hp : (2 : ℚ) ^ (e1 + 1074) ≤ (2 : ℚ) ^ (-1 : ℤ) :=
        zpow_le_zpow_right₀ (by norm_num) (by omega)
      have hp' : (2 : ℚ) ^ (-1 : ℤ) = 1 / 2 := by norm_num
      have hx : q * (2 : ℚ) ^ (-(-1074 : ℤ)) < 2 ^ 52 := by
        rw [hs]
        calc q * (2 : ℚ) ^ (-e1) * (2 : ℚ) ^ (e1 + 1074)
            ≤ q * (2 : ℚ) ^ (-e1) * (1 / 2) := by
              rw [← hp']; exact mul_le_mul_of_nonneg_left hp (by positivity)
          _ < 2 ^ 53 * (1 / 2) := by linarith [x1.2]
          _ = 2 ^ 52 := by norm_num
    · linarith
    · right; exact ⟨rfl, hx⟩
  · rename_i h
    exact ⟨by omega, x1.2, Or.inl x1.1⟩

/-! ## bit patterns and their values -/


def infBits : Nat := 2047 * 2 ^ 52

def valPos (b : Nat) : ℚ :=
  if b / 2 ^ 52 = 0 then ((b % 2 ^ 52 : ℕ) : ℚ) * (2 : ℚ) ^ (-1074 : ℤ)
  else ((2 ^ 52 + b % 2 ^ 52 : ℕ) : ℚ) * (2 : ℚ) ^ (((b / 2 ^ 52 : ℕ) : ℤ) - 1075)

def packCore (m : Nat) (e : Int) : Nat :=
  if m < 2 ^ 52 then m
  else if (e + 1075).toNat ≥ 2047 then 2047 * 2 ^ 52 else (e + 1075).toNat * 2 ^ 52 + (m - 2 ^ 52)

def pack (m : Nat) (e : Int) : Nat :=
  let me : Nat × Int := if m = 2 ^ 53 then (2 ^ 52, e + 1) else (m, e)
  packCore me.1 me.2

theorem valPos_sub (m : Nat) (h : m < 2 ^ 52) : valPos m = (m : ℚ) * (2 : ℚ) ^ (-1074 : ℤ) := by
  unfold valPos
  rw [if_pos (Nat.div_eq_of_lt h), Nat.mod_eq_of_lt h]

theorem valPos_norm (k r : Nat) (hk : 1 ≤ k) (hr : r < 2 ^ 52) :
    valPos (k * 2 ^ 52 + r) = ((2 ^ 52 + r : ℕ) : ℚ) * (2 : ℚ) ^ ((k : ℤ) - 1075) := by
  unfold valPos
  have d1 : (k * 2 ^ 52 + r) / 2 ^ 52 = k := by omega
  have d2 : (k * 2 ^ 52 + r) % 2 ^ 52 = r := by omega
  rw [d1, d2, if_neg (by omega)]

theorem packCore_spec (m : Nat) (e : Int) (hm : m < 2 ^ 53) (he : -1074 ≤ e)
    (hme : 2 ^ 52 ≤ m ∨ e = -1074) :
    packCore m e ≤ infBits ∧ (packCore m e = infBits ↔ (2 ^ 52 ≤ m ∧ 972 ≤ e)) ∧
    (packCore m e < infBits →
      valPos (packCore m e) = (m : ℚ) * (2 : ℚ) ^ e ∧ packCore m e % 2 = m % 2) := by
  unfold infBits packCore
  by_cases h1 : m < 2 ^ 52
  · have he' : e = -1074 := by omega
    subst he'
    rw [if_pos h1]
    exact ⟨by omega, by omega, fun _ => ⟨valPos_sub m h1, rfl⟩⟩
  · rw [if_neg h1]
    obtain ⟨k, hk⟩ := Int.eq_ofNat_of_zero_le (show 0 ≤ e + 1075 by omega)
    rw [hk, Int.toNat_natCast]
    by_cases h2 : k ≥ 2047
    · rw [if_pos h2]
      refine ⟨le_refl _, ?_, fun h => absurd h (lt_irrefl _)⟩
      constructor
      · intro _; constructor <;> omega
      · intro _; rfl
    · rw [if_neg h2]
      refine ⟨by omega, ?_, fun _ => ⟨?_, by omega⟩⟩
      · constructor
        · intro h; omega
        · intro h; omega
      · rw [valPos_norm k (m - 2 ^ 52) (by omega) (by omega)]
        have h3 : 2 ^ 52 + (m - 2 ^ 52) = m := by omega
        have h4 : (k : ℤ) - 1075 = e := by omega
        rw [h3, h4]


theorem roundPos_eq (n d : Nat) (hn : n ≠ 0) :
    roundPos n d = pack (rhe (scaled n d (expOf n d)).1 (scaled n d (expOf n d)).2) (expOf n d) := by
  unfold roundPos
  rw [if_neg hn]
  rfl

theorem pack_spec (m : Nat) (e : Int) (hm : m ≤ 2 ^ 53) (he : -1074 ≤ e)
    (hme : 2 ^ 52 ≤ m ∨ e = -1074) :
    pack m e ≤ infBits ∧
    (pack m e = infBits ↔ ((m = 2 ^ 53 ∧ 971 ≤ e) ∨ (2 ^ 52 ≤ m ∧ 972 ≤ e))) ∧
    (pack m e < infBits →
      valPos (pack m e) = (m : ℚ) * (2 : ℚ) ^ e ∧ pack m e % 2 = m % 2) := by
  unfold pack
  by_cases h : m = 2 ^ 53
  · subst h
    rw [if_pos rfl]
    obtain ⟨a, b, c⟩ := packCore_spec (2 ^ 52) (e + 1) (by norm_num) (by omega) (Or.inl (le_refl _))
    refine ⟨a, ?_, fun hlt => ?_⟩
    · rw [b]; constructor
      · intro h; left; exact ⟨rfl, by omega⟩
      · intro h; constructor
        · exact le_refl _
        · omega
    · obtain ⟨c1, c2⟩ := c hlt
      refine ⟨?_, by rw [c2]; norm_num⟩
      rw [c1, zpow_add₀ (by norm_num : (2 : ℚ) ≠ 0)]
      norm_num
      ring
  · rw [if_neg h]
    obtain ⟨a, b, c⟩ := packCore_spec m e (by omega) he hme
    refine ⟨a, ?_, c⟩
    rw [b]; constructor
    · intro h; right; exact h
    · intro h'; omega

/-- every finite pattern is a multiple of `2^e`, or lies below `2^52·2^e` (a lower binade) -/
theorem grid (c : Nat) (e : Int) (he : -1074 ≤ e) :
    (∃ k : ℕ, valPos c = (k : ℚ) * (2 : ℚ) ^ e) ∨ (valPos c < 2 ^ 52 * (2 : ℚ) ^ e ∧ -1074 < e) := by
  have hdm : c = (c / 2 ^ 52) * 2 ^ 52 + c % 2 ^ 52 := by omega
  have hr : c % 2 ^ 52 < 2 ^ 52 := Nat.mod_lt _ (by norm_num)
  generalize hkc : c / 2 ^ 52 = kc at *
  generalize hrr : c % 2 ^ 52 = r at *
  have hrq : (r : ℚ) < 2 ^ 52 := by exact_mod_cast hr
  by_cases hk0 : kc = 0
  · subst hk0
    have : c < 2 ^ 52 := by omega
    have hv := valPos_sub c this
    have hcr : c = r := by omega
    by_cases he' : e = -1074
    · left; exact ⟨c, by rw [hv, he']⟩
    · right
      refine ⟨?_, by omega⟩
      rw [hv, hcr]
      have : (2 : ℚ) ^ (-1074 : ℤ) ≤ (2 : ℚ) ^ e := zpow_le_zpow_right₀ (by norm_num) he
      calc (r : ℚ) * (2 : ℚ) ^ (-1074 : ℤ) ≤ r * (2 : ℚ) ^ e :=
            mul_le_mul_of_nonneg_left this (by positivity)
        _ < 2 ^ 52 * (2 : ℚ) ^ e := mul_lt_mul_of_pos_right hrq (two_zpow_pos _)
  · have hv := valPos_norm kc r (by omega) hr
    rw [← hdm] at hv
    by_cases hge : e ≤ (kc : ℤ) - 1075
    · left
      obtain ⟨j, hj⟩ := Int.eq_ofNat_of_zero_le (show 0 ≤ (kc : ℤ) - 1075 - e by omega)
      refine ⟨(2 ^ 52 + r) * 2 ^ j, ?_⟩
      rw [hv]
      have : (kc : ℤ) - 1075 = (j : ℤ) + e := by omega
      rw [this, zpow_add₀ (by norm_num : (2 : ℚ) ≠ 0), zpow_natCast]
      push_cast
      ring
    · right
      refine ⟨?_, by omega⟩
      rw [hv]
      have h1 : (2 : ℚ) ^ ((kc : ℤ) - 1075) ≤ (2 : ℚ) ^ (e - 1) :=
        zpow_le_zpow_right₀ (by norm_num) (by omega)
      have h2 : (2 : ℚ) ^ (e - 1) = (2 : ℚ) ^ e / 2 := by
        rw [zpow_sub₀ (by norm_num : (2 : ℚ) ≠ 0)]; norm_num
      have h3 : ((2 ^ 52 + r : ℕ) : ℚ) < 2 ^ 53 := by push_cast; linarith
      calc ((2 ^ 52 + r : ℕ) : ℚ) * (2 : ℚ) ^ ((kc : ℤ) - 1075)
          ≤ ((2 ^ 52 + r : ℕ) : ℚ) * (2 : ℚ) ^ (e - 1) := mul_le_mul_of_nonneg_left h1 (by positivity)
        _ < 2 ^ 53 * (2 : ℚ) ^ (e - 1) := mul_lt_mul_of_pos_right h3 (two_zpow_pos _)
        _ = 2 ^ 52 * (2 : ℚ) ^ e := by rw [h2]; ring


/-! ## IEEE 754 roundTiesToEven as a specification, and the theorem -/

/-- the overflow threshold `maxFloat64 + ulp/2 = 2^1024 − 2^970` -/
def overflowAt : ℚ := 2 ^ 1024 - 2 ^ 970

theorem z970 : (2 : ℚ) ^ (970 : ℤ) = 2 ^ 970 := zpow_ofNat 2 970
theorem z971 : (2 : ℚ) ^ (971 : ℤ) = 2 * 2 ^ 970 := by
  rw [show (971 : ℤ) = 970 + 1 by norm_num, zpow_add_one₀ (by norm_num), z970]
  generalize (2 : ℚ) ^ 970 = P; ring
theorem z972 : (2 : ℚ) ^ (972 : ℤ) = 4 * 2 ^ 970 := by
  rw [show (972 : ℤ) = 971 + 1 by norm_num, zpow_add_one₀ (by norm_num), z971]
  generalize (2 : ℚ) ^ 970 = P; ring
theorem p1024 : (2 : ℚ) ^ 1024 = 2 ^ 54 * 2 ^ 970 := by rw [← pow_add]
theorem ov1 : overflowAt = (2 ^ 53 - 1 / 2) * (2 : ℚ) ^ (971 : ℤ) := by
  unfold overflowAt; rw [z971, p1024]; generalize (2 : ℚ) ^ 970 = P; ring
theorem ov2 : overflowAt ≤ 2 ^ 52 * (2 : ℚ) ^ (972 : ℤ) := by
  unfold overflowAt; rw [z972, p1024]
  have : (0 : ℚ) < 2 ^ 970 := by positivity
  generalize (2 : ℚ) ^ 970 = P at *; norm_num; linarith
theorem ov3 : 2 ^ 53 * (2 : ℚ) ^ (970 : ℤ) < overflowAt := by
  unfold overflowAt; rw [z970, p1024]
  have : (0 : ℚ) < 2 ^ 970 := by positivity
  generalize (2 : ℚ) ^ 970 = P at *; norm_num; linarith

/-- `b` (sign bit clear, `≤ infBits`) is the IEEE 754 binary64 `roundTiesToEven` of the positive
rational `q`: `+Inf` exactly from the overflow threshold on; otherwise no finite pattern is nearer, and
if another value is equally near then `b`'s last mantissa bit is 0. -/
structure IsRNE (q : ℚ) (b : Nat) : Prop where
  le_inf : b ≤ infBits
  overflow : b = infBits ↔ overflowAt ≤ q
  nearest : b < infBits → ∀ c, c < infBits → |q - valPos b| ≤ |q - valPos c|
  ties_even : b < infBits → ∀ c, c < infBits → |q - valPos b| = |q - valPos c| →
    valPos c ≠ valPos b → b % 2 = 0

theorem roundPos_isRNE (n d : Nat) (hn : 0 < n) (hd : 0 < d) : IsRNE ((n : ℚ) / d) (roundPos n d) := by
  rw [roundPos_eq n d hn.ne']
  obtain ⟨he, hx53, hx52⟩ := expOf_spec n d hn hd
  set e := expOf n d with hedef
  have hb := scaled_pos n d e hd
  have hrat := scaled_ratio n d e hd
  set a := (scaled n d e).1
  set b := (scaled n d e).2
  set q : ℚ := (n : ℚ) / d with hq
  set x : ℚ := (a : ℚ) / b with hxdef
  rw [← hrat] at hx53 hx52
  set m := rhe a b with hmdef
  have hhalf : |x - m| ≤ 1 / 2 := (rhe_half a b hb).1
  have heven : |x - m| = 1 / 2 → m % 2 = 0 := (rhe_half a b hb).2
  have hnear : ∀ k : ℤ, |x - m| ≤ |x - k| ∧ (|x - m| = |x - k| → k ≠ m → m % 2 = 0) :=
    rhe_nearest a b hb
  have h2e : (0 : ℚ) < (2 : ℚ) ^ e := two_zpow_pos e
  have hqx : q = x * (2 : ℚ) ^ e := by
    rw [hrat, mul_assoc, ← zpow_add₀ (by norm_num : (2 : ℚ) ≠ 0)]; simp
  have habs := abs_le.mp hhalf
  -- m ≤ 2^53
  have hm53 : m ≤ 2 ^ 53 := by
    have : (m : ℚ) < 2 ^ 53 + 1 := by linarith [habs.1]
    have : m < 2 ^ 53 + 1 := by exact_mod_cast this
    omega
  have hm52 : 2 ^ 52 ≤ x → 2 ^ 52 ≤ m := by
    intro h
    have : ((2 ^ 52 - 1 : ℕ) : ℚ) < m := by push_cast; linarith [habs.2]
    have : 2 ^ 52 - 1 < m := by exact_mod_cast this
    omega
  have hme : 2 ^ 52 ≤ m ∨ e = -1074 := by
    rcases hx52 with h | h
    · exact Or.inl (hm52 h)
    · exact Or.inr h.1
  obtain ⟨p1, p2, p3⟩ := pack_spec m e hm53 he hme
  have dist : ∀ k : ℚ, |q - k * (2 : ℚ) ^ e| = |x - k| * (2 : ℚ) ^ e := by
    intro k
    rw [hqx, ← sub_mul, abs_mul, abs_of_pos h2e]
  refine ⟨p1, ?_, ?_, ?_⟩
  · -- overflow
    rw [p2]
    constructor
    · rintro (⟨h1, h2⟩ | ⟨h1, h2⟩)
      · have hx : (2 : ℚ) ^ 53 - 1 / 2 ≤ x := by
          have : (m : ℚ) = 2 ^ 53 := by rw [h1]; norm_num
          linarith [habs.2]
        have hp : (2 : ℚ) ^ (971 : ℤ) ≤ (2 : ℚ) ^ e := zpow_le_zpow_right₀ (by norm_num) h2
        rw [hqx]
        calc overflowAt = (2 ^ 53 - 1 / 2) * (2 : ℚ) ^ (971 : ℤ) := ov1
          _ ≤ (2 ^ 53 - 1 / 2) * (2 : ℚ) ^ e := mul_le_mul_of_nonneg_left hp (by norm_num)
          _ ≤ x * (2 : ℚ) ^ e := mul_le_mul_of_nonneg_right hx h2e.le
      · have hx : (2 : ℚ) ^ 52 ≤ x := by
          rcases hx52 with h | h
          · exact h
          · omega
        have hp : (2 : ℚ) ^ (972 : ℤ) ≤ (2 : ℚ) ^ e := zpow_le_zpow_right₀ (by norm_num) h2
        rw [hqx]
        calc overflowAt ≤ 2 ^ 52 * (2 : ℚ) ^ (972 : ℤ) := ov2
          _ ≤ 2 ^ 52 * (2 : ℚ) ^ e := mul_le_mul_of_nonneg_left hp (by norm_num)
          _ ≤ x * (2 : ℚ) ^ e := mul_le_mul_of_nonneg_right hx h2e.le
    · intro hT
      by_contra hcon
      rw [not_or] at hcon
      obtain ⟨c1, c2⟩ := hcon
      have hxpos : 0 ≤ x := by rw [hxdef]; positivity
      rcases lt_trichotomy e 971 with h | h | h
      · -- e ≤ 970
        have hp : (2 : ℚ) ^ e ≤ (2 : ℚ) ^ (970 : ℤ) := zpow_le_zpow_right₀ (by norm_num) (by omega)
        have : q < 2 ^ 53 * (2 : ℚ) ^ (970 : ℤ) := by
          rw [hqx]
          calc x * (2 : ℚ) ^ e ≤ x * (2 : ℚ) ^ (970 : ℤ) := mul_le_mul_of_nonneg_left hp hxpos
            _ < 2 ^ 53 * (2 : ℚ) ^ (970 : ℤ) := mul_lt_mul_of_pos_right hx53 (two_zpow_pos _)
        linarith [ov3]
      · -- e = 971, m ≠ 2^53
        have hmne : m ≠ 2 ^ 53 := fun hm => c1 ⟨hm, by omega⟩
        have hmle : m ≤ 2 ^ 53 - 1 := by omega
        have hmq : (m : ℚ) ≤ 2 ^ 53 - 1 := by
          have : (m : ℚ) ≤ ((2 ^ 53 - 1 : ℕ) : ℚ) := by exact_mod_cast hmle
          push_cast at this; linarith
        have hxlt : x < 2 ^ 53 - 1 / 2 := by
          rcases lt_or_eq_of_le (show x ≤ 2 ^ 53 - 1 / 2 by linarith [habs.2]) with h' | h'
          · exact h'
          · exfalso
            have hmeq : (m : ℚ) = 2 ^ 53 - 1 := by linarith [habs.2]
            have : |x - m| = 1 / 2 := by rw [h', hmeq]; norm_num
            have hev := heven this
            have : m = 2 ^ 53 - 1 := by
              have : (m : ℚ) = ((2 ^ 53 - 1 : ℕ) : ℚ) := by rw [hmeq]; push_cast; norm_num
              exact_mod_cast this
            omega
        have : q < (2 ^ 53 - 1 / 2) * (2 : ℚ) ^ (971 : ℤ) := by
          rw [hqx, h]; exact mul_lt_mul_of_pos_right hxlt (two_zpow_pos _)
        rw [← ov1] at this
        linarith
      · -- e ≥ 972
        have hx : (2 : ℚ) ^ 52 ≤ x := by
          rcases hx52 with h' | h'
          · exact h'
          · omega
        exact c2 ⟨hm52 hx, by omega⟩
  · -- nearest
    intro hlt c hc
    rw [(p3 hlt).1, dist]
    rcases grid c e he with ⟨k, hk⟩ | ⟨hk, hne⟩
    · rw [hk, dist]
      have := (hnear (k : ℤ)).1
      push_cast at this
      exact mul_le_mul_of_nonneg_right this h2e.le
    · have hx : (2 : ℚ) ^ 52 ≤ x := by
        rcases hx52 with h' | h'
        · exact h'
        · omega
      have h1 : |x - m| ≤ x - 2 ^ 52 := by
        have h0 := (hnear ((2 ^ 52 : ℕ) : ℤ)).1
        have hc : (((2 ^ 52 : ℕ) : ℤ) : ℚ) = 2 ^ 52 := by norm_num
        rw [hc, abs_of_nonneg (show 0 ≤ x - 2 ^ 52 by linarith)] at h0
        exact h0
      have h2 : valPos c < q := by
        rw [hqx]; exact lt_of_lt_of_le hk (mul_le_mul_of_nonneg_right hx h2e.le)
      rw [abs_of_pos (show 0 < q - valPos c by linarith)]
      calc |x - m| * (2 : ℚ) ^ e ≤ (x - 2 ^ 52) * (2 : ℚ) ^ e := mul_le_mul_of_nonneg_right h1 h2e.le
        _ = q - 2 ^ 52 * (2 : ℚ) ^ e := by rw [hqx]; ring
        _ ≤ q - valPos c := by linarith
  · -- ties to even
    intro hlt c hc heq hne
    rw [(p3 hlt).2]
    rw [(p3 hlt).1] at heq hne
    rw [dist] at heq
    rcases grid c e he with ⟨k, hk⟩ | ⟨hk, hne'⟩
    · rw [hk, dist] at heq
      have heq' : |x - m| = |x - ((k : ℤ) : ℚ)| := by
        push_cast; exact mul_right_cancel₀ h2e.ne' heq
      apply (hnear (k : ℤ)).2 heq'
      intro hkm
      apply hne
      have : k = m := by exact_mod_cast hkm
      rw [hk, this]
    · exfalso
      have hx : (2 : ℚ) ^ 52 ≤ x := by
        rcases hx52 with h' | h'
        · exact h'
        · omega
      have h1 : |x - m| ≤ x - 2 ^ 52 := by
        have h0 := (hnear ((2 ^ 52 : ℕ) : ℤ)).1
        have hc : (((2 ^ 52 : ℕ) : ℤ) : ℚ) = 2 ^ 52 := by norm_num
        rw [hc, abs_of_nonneg (show 0 ≤ x - 2 ^ 52 by linarith)] at h0
        exact h0
      have h2 : valPos c < q := by
        rw [hqx]; exact lt_of_lt_of_le hk (mul_le_mul_of_nonneg_right hx h2e.le)
      rw [abs_of_pos (show 0 < q - valPos c by linarith)] at heq
      have : |x - m| * (2 : ℚ) ^ e ≤ q - 2 ^ 52 * (2 : ℚ) ^ e := by
        calc |x - m| * (2 : ℚ) ^ e ≤ (x - 2 ^ 52) * (2 : ℚ) ^ e := mul_le_mul_of_nonneg_right h1 h2e.le
          _ = q - 2 ^ 52 * (2 : ℚ) ^ e := by rw [hqx]; ring
      linarith


/-! ## literals -/


/-- magnitude of the rational denoted by a literal: `mant · 10^scale` -/
def magVal (l : Lit) : ℚ := (l.mant : ℚ) * (10 : ℚ) ^ l.scale

/-- the rational denoted by a literal -/
def litVal (l : Lit) : ℚ := if l.neg then -magVal l else magVal l

theorem infBits_lt : infBits < 2 ^ 63 := by unfold infBits; norm_num

theorem roundPos_le (n d : Nat) (hd : 0 < d) : roundPos n d ≤ infBits := by
  by_cases hn : n = 0
  · subst hn; unfold roundPos; simp [infBits]
  · exact (roundPos_isRNE n d (Nat.pos_of_ne_zero hn) hd).le_inf

theorem roundPos_zero (d : Nat) : roundPos 0 d = 0 := by unfold roundPos; simp

/-- `litToBits` is sign-and-magnitude IEEE rounding of the literal's rational value -/
theorem litToBits_sound (l : Lit) (u : UInt64) (h : litToBits l = some u) :
    (u.toNat / 2 ^ 63 = if l.neg then 1 else 0) ∧
    (l.mant = 0 → u.toNat % 2 ^ 63 = 0) ∧
    (l.mant ≠ 0 → IsRNE (magVal l) (u.toNat % 2 ^ 63)) := by
  unfold litToBits at h
  split at h
  · exact absurd h (by simp)
  · set nd : Nat × Nat := if l.scale ≥ 0 then (l.mant * 10 ^ l.scale.toNat, 1) else (l.mant, 10 ^ (-l.scale).toNat) with hnd
    have hd : 0 < nd.2 := by
      rw [hnd]; split
      · exact Nat.one_pos
      · exact Nat.pow_pos (by norm_num)
    have hratio : (nd.1 : ℚ) / nd.2 = magVal l := by
      unfold magVal
      rw [hnd]; split
      · rename_i hs
        obtain ⟨k, hk⟩ := Int.eq_ofNat_of_zero_le hs
        rw [hk]; simp
      · rename_i hs
        obtain ⟨k, hk⟩ := Int.eq_ofNat_of_zero_le (show 0 ≤ -l.scale by omega)
        have : l.scale = -(k : ℤ) := by omega
        rw [hk, this]; simp [zpow_neg, div_eq_mul_inv]
    have hn0 : nd.1 = 0 ↔ l.mant = 0 := by
      rw [hnd]; split
      · simp
      · simp
    have hb := roundPos_le nd.1 nd.2 hd
    have hlt := infBits_lt
    have hu : u = UInt64.ofNat (if l.neg then roundPos nd.1 nd.2 + 2 ^ 63 else roundPos nd.1 nd.2) := by
      have h' : some (UInt64.ofNat (if l.neg then roundPos nd.1 nd.2 + 2 ^ 63 else roundPos nd.1 nd.2)) = some u := h
      exact (Option.some.inj h').symm
    have hun : u.toNat = (if l.neg then roundPos nd.1 nd.2 + 2 ^ 63 else roundPos nd.1 nd.2) := by
      rw [hu, UInt64.toNat_ofNat']
      apply Nat.mod_eq_of_lt
      split <;> omega
    refine ⟨?_, ?_, ?_⟩
    · rw [hun]; split <;> omega
    · intro hm
      rw [hun, hn0.mpr hm, roundPos_zero]; split <;> omega
    · intro hm
      have hpos : 0 < nd.1 := Nat.pos_of_ne_zero (fun h0 => hm (hn0.mp h0))
      have := roundPos_isRNE nd.1 nd.2 hpos hd
      rw [hratio] at this
      have hmod : u.toNat % 2 ^ 63 = roundPos nd.1 nd.2 := by rw [hun]; split <;> omega
      rw [hmod]; exact this

/-- the rational denoted by a finite binary64 pattern (sign and magnitude) -/
def val64 (u : UInt64) : ℚ :=
  if u.toNat / 2 ^ 63 = 1 then -valPos (u.toNat % 2 ^ 63) else valPos (u.toNat % 2 ^ 63)

/-- `toBits tok = some u`: `tok` is a `<signed numeric literal>` (`parseLit`), and `u` is the
sign-and-magnitude IEEE 754 roundTiesToEven of the rational it denotes. -/
theorem toBits_sound (s : List Char) (u : UInt64) (h : toBits s = some u) :
    ∃ l, parseLit s = some l ∧
      (u.toNat / 2 ^ 63 = if l.neg then 1 else 0) ∧
      (l.mant = 0 → u.toNat % 2 ^ 63 = 0) ∧
      (l.mant ≠ 0 → IsRNE (magVal l) (u.toNat % 2 ^ 63)) := by
  unfold toBits at h
  cases hp : parseLit s with
  | none => rw [hp] at h; exact absurd h (by simp)
  | some l => rw [hp] at h; exact ⟨l, rfl, litToBits_sound l u h⟩

end GeomV.Dec
