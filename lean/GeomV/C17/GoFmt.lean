import GeomV.C17.IntFmt
/-!
# Model of the LAYOUT half of `strconv.AppendFloat(dst, x, 'g', -1, 64)` (Go 1.23 `strconv/ftoa.go`)

`AppendFloat(…,'g',-1,64)` = digit generation (`ryuFtoaShortest`: decimal digits `d[0..nd)` without trailing
zeros and the position `dp` of the decimal point, value `0.d₀d₁… · 10^dp`) followed by `formatDigits(dst,
shortest=true, neg, digs, prec=nd, 'g')`.  This file transcribes the second half:

* `formatDigits`, case `'g'` with `shortest`: `eprec = 6`, `exp = dp-1`, `%e` iff `exp < -4 || exp >= 6`
  (`1e-05`, `0.0001`, `999999`, `1e+06`), else `%f` with `prec = max(nd-dp, 0)`;
* `fmtE` with `prec = nd-1`: sign, first digit, `.` + remaining digits if any, `e`, `+`/`-`, at least two exponent digits;
* `fmtF`: sign, integer part (`d[:min(nd,dp)]` padded with zeros up to `dp`, or `0`), `.` + fraction (`-dp` zeros, then
  `d[dp:]`) if `nd > dp`.

Zero is `nd = 0, dp = 0` (`0`, `-0`).  Core Lean only: the driver lays the digits of every rendering Go
produced out again with this model and compares (class `DIFF … strconv-layout`), so the transcription is tied to the
real `strconv` on every coordinate of every run; `ProofsFmt.lean` proves that ANY digit generator that
returns a shortest round-tripping decimal passes the per-coordinate test under this layout.
-/
namespace GeomV.C17
open GeomV

/-- `fmtE`: `dd` or `ddd` -/
def expDigits (e : Nat) : List Char :=
  if e < 10 then ['0', digitChar e]
  else if e < 100 then [digitChar (e / 10), digitChar (e % 10)]
  else [digitChar (e / 100), digitChar (e / 10 % 10), digitChar (e % 10)]

def signChars (neg : Bool) : List Char := if neg then ['-'] else []

/-- `fmtE(dst, neg, digs, nd-1, 'e')` -/
def goFmtE (neg : Bool) (ds : List Char) (dp : Int) : List Char :=
  match ds with
  | [] => signChars neg ++ '0' :: 'e' :: '+' :: expDigits 0
  | d0 :: rest =>
    let exp : Int := dp - 1
    signChars neg ++ d0 :: (if rest.isEmpty then [] else '.' :: rest) ++
      'e' :: (if exp < 0 then '-' else '+') :: expDigits exp.natAbs

/-- `fmtF(dst, neg, digs, max(nd-dp, 0))` -/
def goFmtF (neg : Bool) (ds : List Char) (dp : Int) : List Char :=
  let ip : List Char :=
    if dp > 0 then ds.take dp.toNat ++ List.replicate (dp.toNat - ds.length) '0' else ['0']
  let frac : List Char :=
    if (ds.length : Int) - dp > 0 then '.' :: (List.replicate (-dp).toNat '0' ++ ds.drop dp.toNat) else []
  signChars neg ++ ip ++ frac

/-- `formatDigits(dst, shortest=true, neg, digs, nd, 'g')` -/
def goFmtG (neg : Bool) (ds : List Char) (dp : Int) : List Char :=
  let exp := dp - 1
  if exp < -4 || exp ≥ 6 then goFmtE neg ds dp else goFmtF neg ds dp

/-- the digits Go must have generated for a rendering: mantissa without trailing zeros and `dp`
(`[]`, 0 for a zero) -/
def digitsOfLit (l : Dec.Lit) : List Char × Int :=
  let L := Dec.normLit l
  if L.mant = 0 then ([], 0) else
    let ds := natDigits L.mant
    (ds, L.scale + ds.length)

/-- the rendering is the `'g'`/shortest layout of its own digits -/
def isGoLayout (r : List Char) : Bool :=
  match Dec.parseLit r with
  | none => false
  | some l => let (ds, dp) := digitsOfLit l; goFmtG l.neg ds dp == r

end GeomV.C17
