import GeomV.C17.Model
import GeomV.C17.Spec
/-!
Helper lemmas for C17. Core Lean only.

Part 1: normal form of the Go builders (accumulator loops = `dst ++ items …`).
Part 2: the OGC parser reads back what the normal form denotes.
-/
set_option linter.unusedSimpArgs false
set_option linter.unusedVariables false
namespace GeomV.C17
open GeomV GeomV.C17.Ogc

variable {F : Type}

/-! ## Part 1: normal form of the encoder -/

/-- `x y` -/
def coords (fmt : F → List Char) (p : Pt F) : List Char := fmt p.x ++ ' ' :: fmt p.y

/-- comma-separated sequence -/
def items : List (List Char) → List Char
  | [] => []
  | x :: xs => x ++ xs.flatMap (fun y => ',' :: y)

def paren (x : List Char) : List Char := '(' :: x ++ [')']

def pointsText (fmt : F → List Char) (ps : List (Pt F)) : List Char := items (ps.map (coords fmt))
def ringText (fmt : F → List Char) (ps : List (Pt F)) : List Char := paren (pointsText fmt ps)
def ringsText (fmt : F → List Char) (rs : List (List (Pt F))) : List Char := items (rs.map (ringText fmt))
def polyText (fmt : F → List Char) (rs : List (List (Pt F))) : List Char := paren (ringsText fmt rs)

theorem appendPointCoords_eq (fmt : F → List Char) (dst : List Char) (p : Pt F) :
    appendPointCoords fmt dst p = dst ++ coords fmt p := by
  simp [appendPointCoords, coords, List.append_assoc]

theorem appendPointsCoordsFrom_succ (fmt : F → List Char) (i : Nat) (dst : List Char) (ps : List (Pt F)) :
    appendPointsCoordsFrom fmt (i+1) dst ps = dst ++ ps.flatMap (fun p => ',' :: coords fmt p) := by
  induction ps generalizing i dst with
  | nil => simp [appendPointsCoordsFrom]
  | cons p ps ih => simp [appendPointsCoordsFrom, ih, appendPointCoords_eq, List.append_assoc]

theorem appendPointsCoords_eq (fmt : F → List Char) (dst : List Char) (ps : List (Pt F)) :
    appendPointsCoords fmt dst ps = dst ++ pointsText fmt ps := by
  cases ps with
  | nil => simp [appendPointsCoords, appendPointsCoordsFrom, pointsText, items]
  | cons p ps =>
    simp [appendPointsCoords, appendPointsCoordsFrom, appendPointsCoordsFrom_succ, pointsText, items,
      appendPointCoords_eq, List.append_assoc, List.flatMap_map]

theorem appendPointssCoordsFrom_succ (fmt : F → List Char) (i : Nat) (dst : List Char)
    (pss : List (List (Pt F))) :
    appendPointssCoordsFrom fmt (i+1) dst pss = dst ++ pss.flatMap (fun ps => ',' :: ringText fmt ps) := by
  induction pss generalizing i dst with
  | nil => simp [appendPointssCoordsFrom]
  | cons p ps ih =>
    simp [appendPointssCoordsFrom, ih, appendPointsCoords_eq, ringText, paren, List.append_assoc]

theorem appendPointssCoords_eq (fmt : F → List Char) (dst : List Char) (pss : List (List (Pt F))) :
    appendPointssCoords fmt dst pss = dst ++ ringsText fmt pss := by
  cases pss with
  | nil => simp [appendPointssCoords, appendPointssCoordsFrom, ringsText, items]
  | cons p ps =>
    simp [appendPointssCoords, appendPointssCoordsFrom, appendPointssCoordsFrom_succ, ringsText, items,
      appendPointsCoords_eq, ringText, paren, List.append_assoc, List.flatMap_map]

/-- the hand-assembled `),(` separators of the Multi* builders, as a loop invariant:
with `n = i + length` the loop appends the members separated by `),(` -/
theorem appendMLSFrom_eq (fmt : F → List Char) (n i : Nat) (dst : List Char) (l : List (Pt F))
    (ls : List (List (Pt F))) (hn : n = i + (ls.length + 1)) :
    appendMLSFrom fmt n i dst (l :: ls) =
      dst ++ pointsText fmt l ++ ls.flatMap (fun m => ')' :: ',' :: '(' :: pointsText fmt m) := by
  induction ls generalizing i dst l with
  | nil =>
    have : i + 1 = n := by simp at hn; omega
    simp [appendMLSFrom, appendPointsCoords_eq, this]
  | cons m ms ih =>
    have h1 : i + 1 ≠ n := by simp at hn; omega
    have := ih (i+1) (dst ++ pointsText fmt l ++ [')'] ++ [','] ++ ['(']) m (by simp at hn ⊢; omega)
    rw [appendMLSFrom]
    simp only [appendPointsCoords_eq, h1, ne_eq, not_false_eq_true, if_true]
    rw [this]
    simp [List.append_assoc]

theorem appendMPGFrom_eq (fmt : F → List Char) (n i : Nat) (dst : List Char) (l : List (List (Pt F)))
    (ls : List (List (List (Pt F)))) (hn : n = i + (ls.length + 1)) :
    appendMPGFrom fmt n i dst (l :: ls) =
      dst ++ ringsText fmt l ++ ls.flatMap (fun m => ')' :: ',' :: '(' :: ringsText fmt m) := by
  induction ls generalizing i dst l with
  | nil =>
    have : i + 1 = n := by simp at hn; omega
    simp [appendMPGFrom, appendPointssCoords_eq, this]
  | cons m ms ih =>
    have h1 : i + 1 ≠ n := by simp at hn; omega
    have := ih (i+1) (dst ++ ringsText fmt l ++ [')'] ++ [','] ++ ['(']) m (by simp at hn ⊢; omega)
    rw [appendMPGFrom]
    simp only [appendPointssCoords_eq, h1, ne_eq, not_false_eq_true, if_true]
    rw [this]
    simp [List.append_assoc]

/-- moving the parentheses: `x ),( y ),( z` closed by `)` is the comma-separated list of
parenthesised members -/
theorem reparen {β : Type} (f : β → List Char) (x : List Char) (ms : List β) (tail : List Char) :
    x ++ ms.flatMap (fun m => ')' :: ',' :: '(' :: f m) ++ ')' :: tail =
      x ++ ')' :: (ms.flatMap (fun m => ',' :: paren (f m)) ++ tail) := by
  induction ms generalizing x with
  | nil => simp
  | cons m ms ih =>
    have := ih (x ++ ')' :: ',' :: '(' :: f m)
    simp [List.append_assoc, paren] at this ⊢
    exact this

theorem encode_point (fmt : F → List Char) (p : Pt F) :
    encode fmt (.point p) = .ok ("POINT".toList ++ paren (coords fmt p)) := by
  simp [encode, appendPointWKT, appendPointCoords_eq, paren]

theorem encode_lineString (fmt : F → List Char) (ps : List (Pt F)) :
    encode fmt (.lineString ps) = .ok ("LINESTRING".toList ++ ringText fmt ps) := by
  simp [encode, appendLineStringWKT, appendPointsCoords_eq, ringText, paren]

theorem encode_polygon (fmt : F → List Char) (rs : List (List (Pt F))) :
    encode fmt (.polygon rs) = .ok ("POLYGON".toList ++ polyText fmt rs) := by
  simp [encode, appendPolygonWKT, appendPointssCoords_eq, polyText, paren]

theorem encode_multiLineString (fmt : F → List Char) (l : List (Pt F)) (ls : List (List (Pt F))) :
    encode fmt (.multiLineString (l :: ls)) =
      .ok ("MULTILINESTRING".toList ++ paren (items ((l :: ls).map (ringText fmt)))) := by
  have h := appendMLSFrom_eq fmt (ls.length + 1) 0 "MULTILINESTRING((".toList l ls (by simp)
  have r := reparen (pointsText fmt) ("MULTILINESTRING((".toList ++ pointsText fmt l) ls [')']
  simp only [encode, appendMultiLineStringWKT, List.length_cons, List.nil_append, h]
  simp [items, ringText, paren, List.flatMap_map, List.append_assoc] at r ⊢
  exact r

theorem encode_multiPolygon (fmt : F → List Char) (l : List (List (Pt F))) (ls : List (List (List (Pt F)))) :
    encode fmt (.multiPolygon (l :: ls)) =
      .ok ("MULTIPOLYGON".toList ++ paren (items ((l :: ls).map (polyText fmt)))) := by
  have h := appendMPGFrom_eq fmt (ls.length + 1) 0 "MULTIPOLYGON((".toList l ls (by simp)
  have r := reparen (ringsText fmt) ("MULTIPOLYGON((".toList ++ ringsText fmt l) ls [')']
  simp only [encode, appendMultiPolygonWKT, List.length_cons, List.nil_append, h]
  simp [items, polyText, paren, List.flatMap_map, List.append_assoc] at r ⊢
  exact r

theorem encode_multiLineString_nil (fmt : F → List Char) :
    encode fmt (.multiLineString []) = .ok "MULTILINESTRING(())".toList := by
  simp [encode, appendMultiLineStringWKT, appendMLSFrom]

theorem encode_multiPolygon_nil (fmt : F → List Char) :
    encode fmt (.multiPolygon []) = .ok "MULTIPOLYGON(())".toList := by
  simp [encode, appendMultiPolygonWKT, appendMPGFrom]

/-! ## Part 2: the parser on encoder output -/

theorem takeWhile_stop {α : Type} (p : α → Bool) (a : List α) (d : α) (r : List α)
    (ha : ∀ c ∈ a, p c = true) (hd : p d = false) : (a ++ d :: r).takeWhile p = a := by
  induction a with
  | nil => simp [List.takeWhile, hd]
  | cons c a ih =>
    simp [List.takeWhile, ha c (by simp), ih (fun x hx => ha x (by simp [hx]))]

theorem dropWhile_stop {α : Type} (p : α → Bool) (a : List α) (d : α) (r : List α)
    (ha : ∀ c ∈ a, p c = true) (hd : p d = false) : (a ++ d :: r).dropWhile p = d :: r := by
  induction a with
  | nil => simp [List.dropWhile, hd]
  | cons c a ih =>
    simp [List.dropWhile, ha c (by simp), ih (fun x hx => ha x (by simp [hx]))]

theorem isWs_of_true (c : Char) (h : isWs c = true) : c = ' ' ∨ c = '\t' ∨ c = '\n' ∨ c = '\r' := by
  simpa [isWs, or_assoc] using h

theorem numChar_not_ws (c : Char) (h : isNumChar c = true) : isWs c = false := by
  cases hw : isWs c with
  | false => rfl
  | true =>
    rcases isWs_of_true c hw with rfl | rfl | rfl | rfl <;> simp [isNumChar] at h

theorem skipWs_cons (c : Char) (r : List Char) (h : isWs c = false) : skipWs (c :: r) = c :: r := by
  simp [skipWs, List.dropWhile, h]

theorem skipWs_lparen (r : List Char) : skipWs ('(' :: r) = '(' :: r := skipWs_cons _ _ (by decide)
theorem skipWs_rparen (r : List Char) : skipWs (')' :: r) = ')' :: r := skipWs_cons _ _ (by decide)
theorem skipWs_comma (r : List Char) : skipWs (',' :: r) = ',' :: r := skipWs_cons _ _ (by decide)

/-- a delimiter the encoder puts after a number -/
def isDelim (d : Char) : Prop := d = ' ' ∨ d = ',' ∨ d = ')'

theorem delim_not_num (d : Char) (h : isDelim d) : isNumChar d = false := by
  rcases h with rfl | rfl | rfl <;> decide

section
variable {fin : F → Bool} {fmt : F → List Char} {parseNum : List Char → Option F}

theorem skipWs_fmt (h : NumFmt fin fmt parseNum) (x : F) (hx : fin x = true) (r : List Char) :
    skipWs (fmt x ++ r) = fmt x ++ r := by
  have hne := h.nonempty x hx
  cases hf : fmt x with
  | nil => exact absurd hf hne
  | cons c cs =>
    have : isNumChar c = true := h.alphabet x hx c (by simp [hf])
    simp [skipWs_cons _ _ (numChar_not_ws c this)]

theorem number_fmt (h : NumFmt fin fmt parseNum) (x : F) (hx : fin x = true) (d : Char) (r : List Char)
    (hd : isDelim d) : number parseNum (fmt x ++ d :: r) = .ok (x, d :: r) := by
  have hne := h.nonempty x hx
  have ht := takeWhile_stop isNumChar (fmt x) d r (h.alphabet x hx) (delim_not_num d hd)
  have hdW := dropWhile_stop isNumChar (fmt x) d r (h.alphabet x hx) (delim_not_num d hd)
  have he : (fmt x).isEmpty = false := by cases hf : fmt x <;> simp_all
  simp [number, skipWs_fmt h x hx, ht, hdW, he, h.roundtrip x hx]

theorem number_sp_fmt (h : NumFmt fin fmt parseNum) (x : F) (hx : fin x = true) (d : Char) (r : List Char)
    (hd : isDelim d) : number parseNum (' ' :: (fmt x ++ d :: r)) = .ok (x, d :: r) := by
  have h0 := number_fmt h x hx d r hd
  have : skipWs (' ' :: (fmt x ++ d :: r)) = skipWs (fmt x ++ d :: r) := by
    simp [skipWs, List.dropWhile, isWs]
  unfold number at h0 ⊢
  rw [this]; exact h0

theorem point_coords (h : NumFmt fin fmt parseNum) (p : Pt F) (hp : ptFinite fin p = true)
    (d : Char) (r : List Char) (hd : d = ',' ∨ d = ')') :
    point parseNum (coords fmt p ++ d :: r) = .ok (p, d :: r) := by
  simp [ptFinite] at hp
  have h1 := number_fmt h p.x hp.1 ' ' (fmt p.y ++ d :: r) (Or.inl rfl)
  have h2 := number_sp_fmt h p.y hp.2 d r (Or.inr hd)
  simp [point, coords, List.append_assoc, h1, h2, bind, Except.bind, pure, Except.pure]

end

/-- the generic list production on a comma-separated encoding -/
theorem sepTail_items {β : Type} (item : List Char → Except PErr (β × List Char)) (enc : β → List Char)
    (b : β) (bs : List β) (rest : List Char) (fuel : Nat) (hf : bs.length + 1 ≤ fuel)
    (h : ∀ x ∈ b :: bs, ∀ d r, (d = ',' ∨ d = ')') → item (enc x ++ d :: r) = .ok (x, d :: r)) :
    sepTail item fuel (items ((b :: bs).map enc) ++ ')' :: rest) = .ok (b :: bs, rest) := by
  induction bs generalizing b fuel with
  | nil =>
    obtain ⟨f, rfl⟩ : ∃ f, fuel = f + 1 := ⟨fuel - 1, by simp at hf; omega⟩
    have := h b (by simp) ')' rest (Or.inr rfl)
    simp [items, sepTail, this, skipWs_rparen, bind, Except.bind, pure, Except.pure]
  | cons c cs ih =>
    obtain ⟨f, rfl⟩ : ∃ f, fuel = f + 1 := ⟨fuel - 1, by simp at hf; omega⟩
    have hb := h b (by simp) ',' (items ((c :: cs).map enc) ++ ')' :: rest) (Or.inl rfl)
    have ih' := ih c f (by simp at hf ⊢; omega) (fun x hx => h x (by simp at hx ⊢; exact Or.inr hx))
    simp [items, List.append_assoc] at hb ih' ⊢
    simp [sepTail, hb, skipWs_comma, ih', bind, Except.bind, pure, Except.pure]

theorem word_lparen (r : List Char) : word ('(' :: r) = ([], '(' :: r) := by
  simp [word, skipWs_lparen, List.takeWhile, List.dropWhile, isLetter]

theorem listText_paren {β : Type} (item : List Char → Except PErr (β × List Char)) (fuel : Nat)
    (body : List Char) : listText item fuel ('(' :: body) = sepTail item fuel body := by
  simp [listText, word_lparen, lit, skipWs_lparen, bind, Except.bind]

/-! ### length bookkeeping for the fuel (`fuel = length of the whole text`) -/

theorem flatMap_count_le {β : Type} (enc : β → List Char) (bs : List β) :
    bs.length ≤ (bs.flatMap (fun y => ',' :: enc y)).length := by
  induction bs with
  | nil => simp
  | cons c cs ih =>
    simp only [List.flatMap_cons, List.length_append, List.length_cons]; omega

theorem flatMap_mem_le {β : Type} (enc : β → List Char) (bs : List β) (x : β) (hx : x ∈ bs) :
    (enc x).length ≤ (bs.flatMap (fun y => ',' :: enc y)).length := by
  induction bs with
  | nil => simp at hx
  | cons c cs ih =>
    simp only [List.flatMap_cons, List.length_append, List.length_cons]
    rcases List.mem_cons.mp hx with rfl | hm
    · omega
    · have := ih hm; omega

theorem items_count_le {β : Type} (enc : β → List Char) (bs : List β) (h : ∀ x ∈ bs, enc x ≠ []) :
    bs.length ≤ (items (bs.map enc)).length := by
  cases bs with
  | nil => simp
  | cons b bs =>
    have hb : 1 ≤ (enc b).length := by
      have := h b (by simp); cases he : enc b <;> simp_all
    have := flatMap_count_le enc bs
    simp only [items, List.map_cons, List.flatMap_map, List.length_append, List.length_cons]; omega

theorem items_mem_le {β : Type} (enc : β → List Char) (bs : List β) (x : β) (hx : x ∈ bs) :
    (enc x).length ≤ (items (bs.map enc)).length := by
  cases bs with
  | nil => simp at hx
  | cons b bs =>
    simp only [items, List.map_cons, List.flatMap_map, List.length_append]
    rcases List.mem_cons.mp hx with rfl | hm
    · omega
    · have := flatMap_mem_le enc bs x hm; omega

end GeomV.C17
