import GeomV.C17.Gen
import GeomV.C17.Proofs
/-!
# C17 — T1 tie: the definitions regenerated from the Go source equal the hand-written model

`Gen.lean` is rewritten from /repo/encoding/wkt/*.go by checks/c17_go2lean.py before every build.
Each lemma below ties one Go function; `C17_tie_encode` ties `wkt.Encode` as a whole, and the main
theorems are restated for the regenerated definition, so a source change either leaves the translatable
subset (reported), breaks a tie lemma (reported by name), or flows into the theorems.
-/
set_option linter.unusedSimpArgs false
set_option linter.unusedVariables false
namespace GeomV.C17
open GeomV GeomV.C17.Ogc

variable {F : Type} (fmt : F → List Char)

theorem tie_appendPointCoords (dst : List Char) (p : Pt F) :
    Gen.appendPointCoords fmt dst p = appendPointCoords fmt dst p := rfl

theorem tie_appendPointsCoords_loop (n i : Nat) (dst : List Char) (ps : List (Pt F)) :
    Gen.appendPointsCoords_loop1 fmt n i dst ps = appendPointsCoordsFrom fmt i dst ps := by
  induction ps generalizing i dst with
  | nil => rfl
  | cons p ps ih =>
    simp only [Gen.appendPointsCoords_loop1, appendPointsCoordsFrom, tie_appendPointCoords, ih]

theorem tie_appendPointsCoords (dst : List Char) (ps : List (Pt F)) :
    Gen.appendPointsCoords fmt dst ps = appendPointsCoords fmt dst ps := by
  simp only [Gen.appendPointsCoords, appendPointsCoords, tie_appendPointsCoords_loop]

theorem tie_appendPointssCoords_loop (n i : Nat) (dst : List Char) (pss : List (List (Pt F))) :
    Gen.appendPointssCoords_loop1 fmt n i dst pss = appendPointssCoordsFrom fmt i dst pss := by
  induction pss generalizing i dst with
  | nil => rfl
  | cons p ps ih =>
    simp only [Gen.appendPointssCoords_loop1, appendPointssCoordsFrom, tie_appendPointsCoords, ih]

theorem tie_appendPointssCoords (dst : List Char) (pss : List (List (Pt F))) :
    Gen.appendPointssCoords fmt dst pss = appendPointssCoords fmt dst pss := by
  simp only [Gen.appendPointssCoords, appendPointssCoords, tie_appendPointssCoords_loop]

theorem tie_appendPointWKT (dst : List Char) (p : Pt F) :
    Gen.appendPointWKT fmt dst p = appendPointWKT fmt dst p := by
  simp only [Gen.appendPointWKT, appendPointWKT, tie_appendPointCoords]

theorem tie_appendLineStringWKT (dst : List Char) (ps : List (Pt F)) :
    Gen.appendLineStringWKT fmt dst ps = appendLineStringWKT fmt dst ps := by
  simp only [Gen.appendLineStringWKT, appendLineStringWKT, tie_appendPointsCoords]

theorem tie_appendPolygonWKT (dst : List Char) (rs : List (List (Pt F))) :
    Gen.appendPolygonWKT fmt dst rs = appendPolygonWKT fmt dst rs := by
  simp only [Gen.appendPolygonWKT, appendPolygonWKT, tie_appendPointssCoords]

theorem tie_appendMLS_loop (n i : Nat) (dst : List Char) (ls : List (List (Pt F))) :
    Gen.appendMultiLineStringWKT_loop1 fmt n i dst ls = appendMLSFrom fmt n i dst ls := by
  induction ls generalizing i dst with
  | nil => rfl
  | cons l ls ih =>
    simp only [Gen.appendMultiLineStringWKT_loop1, appendMLSFrom, tie_appendPointsCoords, ih]

theorem tie_appendMultiLineStringWKT (dst : List Char) (ls : List (List (Pt F))) :
    Gen.appendMultiLineStringWKT fmt dst ls = appendMultiLineStringWKT fmt dst ls := by
  simp only [Gen.appendMultiLineStringWKT, appendMultiLineStringWKT, tie_appendMLS_loop, List.append_assoc]

theorem tie_appendMPG_loop (n i : Nat) (dst : List Char) (ps : List (List (List (Pt F)))) :
    Gen.appendMultiPolygonWKT_loop1 fmt n i dst ps = appendMPGFrom fmt n i dst ps := by
  induction ps generalizing i dst with
  | nil => rfl
  | cons p ps ih =>
    simp only [Gen.appendMultiPolygonWKT_loop1, appendMPGFrom, tie_appendPointssCoords, ih]

theorem tie_appendMultiPolygonWKT (dst : List Char) (ps : List (List (List (Pt F)))) :
    Gen.appendMultiPolygonWKT fmt dst ps = appendMultiPolygonWKT fmt dst ps := by
  simp only [Gen.appendMultiPolygonWKT, appendMultiPolygonWKT, tie_appendMPG_loop, List.append_assoc]

/-- **C17_tie_encode**: `wkt.Encode` as regenerated from the current Go source is the model. -/
theorem C17_tie_encode (g : Geom F) : Gen.encode fmt g = encode fmt g := by
  cases g <;>
    simp only [Gen.encode, encode, tie_appendPointWKT, tie_appendLineStringWKT, tie_appendPolygonWKT,
      tie_appendMultiLineStringWKT, tie_appendMultiPolygonWKT]

variable {fin : F → Bool} {fmt} {parseNum : List Char → Option F}

/-- **C17_roundtrip_src**: `C17_roundtrip` for the definition regenerated from the source. -/
theorem C17_roundtrip_src (h : NumFmt fin fmt parseNum) (g : Geom F) (hs : supported g = true)
    (hne : everyMemberNonEmpty g = true) (hf : allFinite fin g = true) :
    ∃ txt, Gen.encode fmt g = .ok txt ∧ parse parseNum txt = .ok g := by
  rw [C17_tie_encode]; exact C17_roundtrip h g hs hne hf

/-- **C17_unsupported_src**: `C17_unsupported` for the regenerated definition. -/
theorem C17_unsupported_src (fmt : F → List Char) (g : Geom F) (hs : supported g = false) :
    Gen.encode fmt g = .error .unsupported := by
  rw [C17_tie_encode]; exact C17_unsupported fmt g hs

/-- `UnsupportedGeometryError.Error()` as regenerated from wkt.go is the model's message -/
theorem tie_errorText (t : String) : Gen.errorText t = errorText t := rfl

/-- **C17_unsupported_error_src**: what the caller gets for a type outside the five — no bytes (the
regenerated `Encode` returns the error value), an `UnsupportedGeometryError` whose `Type` is the dynamic
type of the argument, and the message of the regenerated `Error()` names that type. -/
theorem C17_unsupported_error_src (fmt : F → List Char) (g : Geom F) (hs : supported g = false) :
    Gen.encode fmt g = .error .unsupported ∧ encodeErrType g = some (goTypeName g) ∧
    Gen.errorText (goTypeName g) = "wkt: unsupported geometry type: " ++ goTypeName g := by
  refine ⟨C17_unsupported_src fmt g hs, ?_, rfl⟩
  cases g <;> first | rfl | (simp [supported] at hs)

/-- and on the five supported types no error is reported -/
theorem C17_supported_no_error (g : Geom F) (hs : supported g = true) : encodeErrType g = none := by
  cases g <;> first | rfl | (simp [supported] at hs)

end GeomV.C17
