import GeomV.C17.GoFmt
import GeomV.C17.DecShortest
set_option linter.unusedSimpArgs false
set_option linter.unusedVariables false
namespace GeomV.C17
open GeomV GeomV.C17.Ogc GeomV.Dec

def AllDigits (a : List Char) : Prop := ∀ c ∈ a, isDigit c = true
/-- the list is empty or starts with a non-digit -/
def NoDigitHead (t : List Char) : Prop := ∀ c r, t = c :: r → isDigit c = false

theorem tw_app (a t : List Char) (ha : AllDigits a) (ht : NoDigitHead t) :
    (a ++ t).takeWhile isDigit = a ∧ (a ++ t).dropWhile isDigit = t := by
  induction a with
  | nil =>
    cases t with
    | nil => simp
    | cons c r => have := ht c r rfl; simp [List.takeWhile, List.dropWhile, this]
  | cons x a ih =>
    have hx := ha x (by simp)
    have := ih (fun c hc => ha c (by simp [hc]))
    simp [List.takeWhile, List.dropWhile, hx, this]

theorem foldl_dv (b : List Char) (acc : Nat) :
    b.foldl (fun a c => a * 10 + (c.toNat - 48)) acc =
      acc * 10 ^ b.length + b.foldl (fun a c => a * 10 + (c.toNat - 48)) 0 := by
  induction b generalizing acc with
  | nil => simp
  | cons c b ih =>
    simp only [List.foldl_cons, List.length_cons]
    rw [ih (acc * 10 + _), ih (0 * 10 + _)]; ring

theorem digitsVal_app (a b : List Char) :
    digitsVal (a ++ b) = digitsVal a * 10 ^ b.length + digitsVal b := by
  unfold digitsVal; rw [List.foldl_append, foldl_dv]

theorem digitsVal_zeros (k : Nat) : digitsVal (List.replicate k '0') = 0 := by
  induction k with
  | zero => rfl
  | succ k ih =>
    rw [List.replicate_succ, show ('0' :: List.replicate k '0') = ['0'] ++ List.replicate k '0' from rfl,
      digitsVal_app, ih]; simp [digitsVal]

theorem allDigits_zeros (k : Nat) : AllDigits (List.replicate k '0') := by
  intro c hc; rw [List.mem_replicate] at hc; rw [hc.2]; decide

theorem digit_not_sign (c : Char) (h : isDigit c = true) : c ≠ '-' ∧ c ≠ '+' ∧ c ≠ '.' ∧ c ≠ 'e' := by
  refine ⟨?_, ?_, ?_, ?_⟩ <;> (rintro rfl; revert h; decide)

theorem takeSign_digit (neg : Bool) (c : Char) (cs : List Char) (h : isDigit c = true) :
    takeSign (signChars neg ++ c :: cs) = (neg, c :: cs) := by
  obtain ⟨h1, h2, _, _⟩ := digit_not_sign c h
  cases neg
  · simp [signChars, takeSign]; split <;> simp_all
  · simp [signChars, takeSign]

/-- tails of a literal after the mantissa: nothing, or an exponent part -/
def ETail (t : List Char) : Prop := t = [] ∨ ∃ r, t = 'e' :: r

theorem ETail.noDigitHead {t : List Char} (h : ETail t) : NoDigitHead t := by
  rcases h with rfl | ⟨r, rfl⟩
  · intro c r h; cases h
  · intro c r' h; cases h; decide

/-- literal without a fraction: `sign digits tail` -/
theorem parseLit_nodot (neg : Bool) (ip tail : List Char) (hip : AllDigits ip) (hne : ip ≠ [])
    (ht : ETail tail) :
    parseLit (signChars neg ++ ip ++ tail) = (parseExp tail).map (fun e => ⟨neg, digitsVal ip, e⟩) := by
  obtain ⟨c, cs, rfl⟩ := List.exists_cons_of_ne_nil hne
  have hs := takeSign_digit neg c (cs ++ tail) (hip c (by simp))
  obtain ⟨h1, h2⟩ := tw_app (c :: cs) tail hip ht.noDigitHead
  simp only [List.append_assoc, List.cons_append] at hs h1 h2 ⊢
  unfold parseLit
  simp only [hs, h1, h2]
  rcases ht with rfl | ⟨r, rfl⟩
  · simp [parseExp]
  · simp only [List.isEmpty_cons, Bool.false_and, List.append_nil, List.length_nil]
    rcases h : parseExp ('e' :: r) with _ | e <;> simp [h]

/-- literal with a fraction: `sign digits . digits tail` -/
theorem parseLit_dot (neg : Bool) (ip fp tail : List Char) (hip : AllDigits ip) (hne : ip ≠ [])
    (hfp : AllDigits fp) (ht : ETail tail) :
    parseLit (signChars neg ++ ip ++ '.' :: fp ++ tail) =
      (parseExp tail).map (fun e => ⟨neg, digitsVal (ip ++ fp), e - (fp.length : Int)⟩) := by
  obtain ⟨c, cs, rfl⟩ := List.exists_cons_of_ne_nil hne
  have hs := takeSign_digit neg c (cs ++ '.' :: fp ++ tail) (hip c (by simp))
  have hdot : NoDigitHead ('.' :: fp ++ tail) := by intro c r h; cases h; decide
  obtain ⟨h1, h2⟩ := tw_app (c :: cs) ('.' :: fp ++ tail) hip hdot
  obtain ⟨h3, h4⟩ := tw_app fp tail hfp ht.noDigitHead
  simp only [List.append_assoc, List.cons_append] at hs h1 h2 ⊢
  unfold parseLit
  simp only [hs, h1, h2, h3, h4]
  simp only [List.isEmpty_cons, Bool.false_and]
  rcases h : parseExp tail with _ | e <;> simp [h]

theorem expDigits_props (n : Nat) (hn : n < 1000) :
    AllDigits (expDigits n) ∧ digitsVal (expDigits n) = n ∧ ∃ c cs, expDigits n = c :: cs := by
  have P := digitChar_props
  unfold expDigits
  split
  · rename_i h
    refine ⟨?_, ?_, _, _, rfl⟩
    · intro c hc; simp at hc; rcases hc with rfl | rfl
      · decide
      · exact (P n (by omega)).1
    · simp [digitsVal, (P n (by omega)).2.1]
  · split
    · rename_i h1 h2
      have a := P (n / 10) (by omega); have b := P (n % 10) (by omega)
      refine ⟨?_, ?_, _, _, rfl⟩
      · intro c hc; simp at hc; rcases hc with rfl | rfl
        · exact a.1
        · exact b.1
      · simp [digitsVal, a.2.1, b.2.1]; omega
    · rename_i h1 h2
      have a := P (n / 100) (by omega); have b := P (n / 10 % 10) (by omega); have c := P (n % 10) (by omega)
      refine ⟨?_, ?_, _, _, rfl⟩
      · intro x hx; simp at hx; rcases hx with rfl | rfl | rfl
        · exact a.1
        · exact b.1
        · exact c.1
      · simp [digitsVal, a.2.1, b.2.1, c.2.1]; omega

theorem parseExp_e (e : Int) (he : e.natAbs < 1000) :
    parseExp ('e' :: (if e < 0 then '-' else '+') :: expDigits e.natAbs) = some e := by
  obtain ⟨hd, hv, c, cs, hc⟩ := expDigits_props e.natAbs he
  have ht := tw_app (expDigits e.natAbs) [] hd (by intro c r h; cases h)
  simp only [List.append_nil] at ht
  unfold parseExp
  by_cases hneg : e < 0
  · simp only [hneg, if_true, takeSign, ht.1, ht.2, hv]
    simp [hc]; have := abs_of_neg hneg; omega
  · simp only [hneg, if_false, takeSign, ht.1, ht.2, hv]
    simp [hc]; have := abs_of_nonneg (not_lt.mp hneg); omega

theorem goFmtE_parse (neg : Bool) (d0 : Char) (rest : List Char) (dp : Int) (hd : AllDigits (d0 :: rest))
    (hdp : (dp - 1).natAbs < 1000) :
    parseLit (goFmtE neg (d0 :: rest) dp) = some ⟨neg, digitsVal (d0 :: rest), dp - 1 - (rest.length : Int)⟩ := by
  have hE := parseExp_e (dp - 1) hdp
  have het : ETail ('e' :: (if dp - 1 < 0 then '-' else '+') :: expDigits (dp - 1).natAbs) := Or.inr ⟨_, rfl⟩
  have h0 : AllDigits [d0] := by intro c hc; simp at hc; subst hc; exact hd _ (by simp)
  have hr : AllDigits rest := fun c hc => hd c (by simp [hc])
  unfold goFmtE
  cases rest with
  | nil =>
    have := parseLit_nodot neg [d0] _ h0 (by simp) het
    rw [hE] at this
    simp only [List.isEmpty_nil, if_true, List.append_nil, List.length_nil] at this ⊢
    simpa using this
  | cons r1 rs =>
    have := parseLit_dot neg [d0] (r1 :: rs) _ h0 (by simp) hr het
    rw [hE] at this
    simp only [List.isEmpty_cons] at this ⊢
    simpa using this

theorem goFmtF_parse_small (neg : Bool) (ds : List Char) (dp : Int) (hd : AllDigits ds) (hne : ds ≠ [])
    (hdp : dp ≤ 0) :
    parseLit (goFmtF neg ds dp) = some ⟨neg, digitsVal ds, dp - (ds.length : Int)⟩ := by
  have hlen : 0 < ds.length := List.length_pos_iff.mpr hne
  have h0 : AllDigits ['0'] := by intro c hc; simp at hc; subst hc; decide
  have hfp : AllDigits (List.replicate (-dp).toNat '0' ++ ds) := by
    intro c hc; rcases List.mem_append.mp hc with h | h
    · exact allDigits_zeros _ c h
    · exact hd c h
  have := parseLit_dot neg ['0'] (List.replicate (-dp).toNat '0' ++ ds) [] h0 (by simp) hfp (Or.inl rfl)
  unfold goFmtF
  have e1 : ¬ dp > 0 := by omega
  have e2 : (ds.length : Int) - dp > 0 := by omega
  have e3 : dp.toNat = 0 := by omega
  simp only [e1, e2, e3, if_true, if_false, List.drop_zero]
  simp only [List.append_nil, parseExp, Option.map_some] at this
  rw [this]
  congr 1
  have dv : digitsVal (['0'] ++ (List.replicate (-dp).toNat '0' ++ ds)) = digitsVal ds := by
    rw [digitsVal_app, digitsVal_app, digitsVal_zeros]; simp [digitsVal]
  rw [dv]
  congr 1
  simp only [List.length_append, List.length_replicate]
  push_cast
  omega

theorem goFmtF_parse_mid (neg : Bool) (ds : List Char) (dp : Int) (hd : AllDigits ds)
    (h1 : 0 < dp) (h2 : dp < ds.length) :
    parseLit (goFmtF neg ds dp) = some ⟨neg, digitsVal ds, dp - (ds.length : Int)⟩ := by
  have hip : AllDigits (ds.take dp.toNat) := fun c hc => hd c (List.mem_of_mem_take hc)
  have hfp : AllDigits (ds.drop dp.toNat) := fun c hc => hd c (List.mem_of_mem_drop hc)
  have hne : ds.take dp.toNat ≠ [] := by
    intro h
    have hl : (ds.take dp.toNat).length = min dp.toNat ds.length := List.length_take
    rw [h] at hl; simp only [List.length_nil] at hl; omega
  have := parseLit_dot neg (ds.take dp.toNat) (ds.drop dp.toNat) [] hip hne hfp (Or.inl rfl)
  unfold goFmtF
  have e2 : (ds.length : Int) - dp > 0 := by omega
  have e3 : dp.toNat - ds.length = 0 := by omega
  have e4 : (-dp).toNat = 0 := by omega
  simp only [h1, e2, e3, e4, if_true, List.replicate_zero, List.append_nil, List.nil_append]
  simp only [List.append_nil, parseExp, Option.map_some, List.take_append_drop] at this
  rw [this]
  congr 2
  simp only [List.length_drop]
  omega

theorem goFmtF_parse_big (neg : Bool) (ds : List Char) (dp : Int) (hd : AllDigits ds) (hne : ds ≠ [])
    (h2 : (ds.length : Int) ≤ dp) :
    parseLit (goFmtF neg ds dp) = some ⟨neg, digitsVal ds * 10 ^ (dp.toNat - ds.length), 0⟩ := by
  have hlen : 0 < ds.length := List.length_pos_iff.mpr hne
  have hip : AllDigits (ds ++ List.replicate (dp.toNat - ds.length) '0') := by
    intro c hc; rcases List.mem_append.mp hc with h | h
    · exact hd c h
    · exact allDigits_zeros _ c h
  have := parseLit_nodot neg (ds ++ List.replicate (dp.toNat - ds.length) '0') [] hip (by simp [hne]) (Or.inl rfl)
  unfold goFmtF
  have e1 : dp > 0 := by omega
  have e2 : ¬ (ds.length : Int) - dp > 0 := by omega
  have e3 : ds.take dp.toNat = ds := List.take_of_length_le (by omega)
  simp only [e1, e2, e3, if_true, if_false, List.append_nil]
  simp only [List.append_nil, parseExp, Option.map_some] at this
  rw [this, digitsVal_app, digitsVal_zeros, List.length_replicate]
  simp

theorem isDigit_numChar (c : Char) (h : isDigit c = true) : isNumChar c = true := by
  simp only [isDigit, Bool.and_eq_true, decide_eq_true_eq] at h
  simp [isNumChar, h.1, h.2]

/-- the literal that Go's `'g'`/shortest layout of the digits `ds`, point position `dp`, denotes -/
theorem goFmtG_parse (neg : Bool) (ds : List Char) (dp : Int) (hd : AllDigits ds) (hne : ds ≠ [])
    (hdp : dp.natAbs ≤ 900) (hnd : ds.length ≤ 900) :
    ∃ l, parseLit (goFmtG neg ds dp) = some l ∧ l.neg = neg ∧
      magVal l = (digitsVal ds : ℚ) * (10 : ℚ) ^ (dp - (ds.length : Int)) ∧ l.scale.natAbs ≤ 2000 ∧
      (l = ⟨neg, digitsVal ds, dp - (ds.length : Int)⟩ ∨
        ((ds.length : Int) ≤ dp ∧ dp ≤ 6 ∧ l = ⟨neg, digitsVal ds * 10 ^ (dp.toNat - ds.length), 0⟩)) := by
  unfold goFmtG
  by_cases hE : (decide (dp - 1 < -4) || decide (dp - 1 ≥ 6)) = true
  · rw [if_pos hE]
    obtain ⟨d0, rest, rfl⟩ := List.exists_cons_of_ne_nil hne
    have hexp : dp - 1 - (rest.length : Int) = dp - ((d0 :: rest).length : Int) := by
      simp only [List.length_cons]; push_cast; ring
    refine ⟨_, goFmtE_parse neg d0 rest dp hd (by omega), rfl, ?_, ?_, Or.inl ?_⟩
    · simp only [magVal, hexp]
    · simp only [List.length_cons] at hnd ⊢; omega
    · rw [hexp]
  · rw [if_neg hE]
    simp only [Bool.or_eq_true, decide_eq_true_eq, not_or, not_lt, not_le] at hE
    by_cases h0 : dp ≤ 0
    · refine ⟨_, goFmtF_parse_small neg ds dp hd hne h0, rfl, rfl, ?_, Or.inl rfl⟩
      simp only; omega
    · by_cases h1 : dp < ds.length
      · refine ⟨_, goFmtF_parse_mid neg ds dp hd (by omega) h1, rfl, rfl, ?_, Or.inl rfl⟩
        simp only; omega
      · refine ⟨_, goFmtF_parse_big neg ds dp hd hne (by omega), rfl, ?_, by simp, Or.inr ⟨by omega, by omega, rfl⟩⟩
        simp only [magVal, zpow_zero, mul_one]
        have : dp - (ds.length : Int) = ((dp.toNat - ds.length : ℕ) : Int) := by omega
        rw [this, zpow_natCast]; push_cast; ring

/-- every byte of the layout is of the numeric alphabet -/
theorem goFmtG_alphabet (neg : Bool) (ds : List Char) (dp : Int) (hd : AllDigits ds) (hdp : dp.natAbs ≤ 900) :
    ∀ c ∈ goFmtG neg ds dp, isNumChar c = true := by
  have hsign : ∀ c ∈ signChars neg, isNumChar c = true := by
    intro c hc; unfold signChars at hc; split at hc
    · simp at hc; subst hc; decide
    · simp at hc
  have hdig : ∀ c ∈ ds, isNumChar c = true := fun c hc => isDigit_numChar c (hd c hc)
  have hz : ∀ k, ∀ c ∈ List.replicate k '0', isNumChar c = true := fun k c hc =>
    isDigit_numChar c (allDigits_zeros k c hc)
  have hexp : ∀ n, n < 1000 → ∀ c ∈ expDigits n, isNumChar c = true := fun n hn c hc =>
    isDigit_numChar c ((expDigits_props n hn).1 c hc)
  intro c hc
  unfold goFmtG at hc
  dsimp only at hc
  split at hc
  · unfold goFmtE at hc
    split at hc
    · simp only [List.mem_append, List.mem_cons] at hc
      rcases hc with h | rfl | rfl | rfl | h
      · exact hsign c h
      · decide
      · decide
      · decide
      · exact hexp 0 (by omega) c h
    · rename_i d0 rest
      simp only [List.mem_append, List.mem_cons] at hc
      rcases hc with (h | rfl | h) | rfl | h | h
      · exact hsign c h
      · exact hdig c (by simp)
      · split at h
        · simp at h
        · rcases List.mem_cons.mp h with rfl | h
          · decide
          · exact hdig c (by simp [h])
      · decide
      · split at h <;> (subst h; decide)
      · exact hexp _ (by omega) c h
  · unfold goFmtF at hc
    dsimp only at hc
    simp only [List.mem_append] at hc
    rcases hc with (h | h) | h
    · exact hsign c h
    · split at h
      · rcases List.mem_append.mp h with h | h
        · exact hdig c (List.mem_of_mem_take h)
        · exact hz _ c h
      · simp at h; subst h; decide
    · split at h
      · rcases List.mem_cons.mp h with rfl | h
        · decide
        · rcases List.mem_append.mp h with h | h
          · exact hz _ c h
          · exact hdig c (List.mem_of_mem_drop h)
      · simp at h

/-! ## from the literal to the bit pattern, and completeness of the shortest-form test -/

/-- `litToBits` depends only on the sign and the rational value -/
theorem litToBits_congr (l l' : Lit) (x : UInt64) (hneg : l.neg = l'.neg) (hv : magVal l = magVal l')
    (hm : l.mant ≠ 0) (hm' : l'.mant ≠ 0) (hs : l.scale.natAbs ≤ 5000) (h : litToBits l' = some x) :
    litToBits l = some x := by
  obtain ⟨u, hu⟩ := litToBits_some l hs
  have r := litToBits_mag l u hu hm
  have r' := litToBits_mag l' x h hm'
  rw [hv] at r
  have e := r.unique r'
  have s1 := litToBits_sign l u hu
  have s2 := litToBits_sign l' x h
  rw [hu]; congr 1
  exact u64_eq_of_parts (by rw [s1, s2, hneg]) e

theorem normLit_go_nz (f m : Nat) (s : Int) (h : m % 10 ≠ 0) : normLit.go f m s = (m, s) := by
  cases f with
  | zero => rfl
  | succ f => unfold normLit.go; simp [h]

theorem normLit_go_pow (k : Nat) : ∀ (f m : Nat) (s : Int), m % 10 ≠ 0 → k ≤ f →
    normLit.go f (m * 10 ^ k) s = (m, s + k) := by
  induction k with
  | zero => intro f m s h _; simpa using normLit_go_nz f m s h
  | succ k ih =>
    intro f m s h hk
    obtain ⟨f', rfl⟩ : ∃ f', f = f' + 1 := ⟨f - 1, by omega⟩
    have hm : m ≠ 0 := by rintro rfl; simp at h
    have h1 : m * 10 ^ (k + 1) ≠ 0 := Nat.mul_ne_zero hm (by positivity)
    have h2 : m * 10 ^ (k + 1) % 10 = 0 := by rw [pow_succ, ← mul_assoc]; simp
    have h3 : m * 10 ^ (k + 1) / 10 = m * 10 ^ k := by rw [pow_succ, ← mul_assoc]; simp
    unfold normLit.go
    simp only [h1, h2, ne_eq, not_false_eq_true, decide_true, Bool.and_self, if_true, h3]
    rw [ih f' m (s + 1) h (by omega)]
    congr 1; push_cast; ring

theorem ndigits_small (m : Nat) (h : m < 10) : ndigits m ≤ 1 := by
  unfold ndigits
  split
  · omega
  · exact (Nat.length_toDigits_le_iff (b := 10) (n := m) (k := 1) (by norm_num) (by norm_num)).mpr (by simpa using h)

/-- **completeness of `isShortest`**: a literal whose normal form has at most `p+1` significant digits while no
decimal with at most `p` digits converts to the same binary64 is accepted by the run-time test -/
theorem isShortest_of_minimal (l : Lit) (x : UInt64) (p : Nat) (hp : p ≤ 900)
    (hx : litToBits (normLit l) = some x) (hs : (normLit l).scale.natAbs ≤ 3000)
    (hlt : (normLit l).mant < 10 ^ (p + 1))
    (hmin : ∀ (m' : Nat) (s' : Int), 0 < m' → m' < 10 ^ p → s'.natAbs ≤ 5000 →
      litToBits ⟨(normLit l).neg, m', s'⟩ ≠ some x) :
    isShortest l = true := by
  unfold isShortest
  set L := normLit l with hL
  by_cases hnd : ndigits L.mant ≤ 1
  · simp [hnd]
  · have hM : 10 ≤ L.mant := by
      by_contra hc; exact hnd (ndigits_small _ (by omega))
    have hdiv : L.mant / 10 < 10 ^ p := by
      apply Nat.div_lt_of_lt_mul; rw [pow_succ] at hlt; omega
    simp only [hnd, if_false, hx, Bool.and_eq_true, bne_iff_ne, ne_eq]
    refine ⟨hmin (L.mant / 10) (L.scale + 1) (by omega) hdiv (by omega), ?_⟩
    rcases Nat.lt_or_ge (L.mant / 10 + 1) (10 ^ p) with hlt' | hge
    · exact hmin (L.mant / 10 + 1) (L.scale + 1) (by omega) hlt' (by omega)
    · have heq : L.mant / 10 + 1 = 10 ^ p := by omega
      have hp1 : 1 ≤ p := by
        rcases Nat.eq_zero_or_pos p with h0 | h0
        · subst h0; simp at heq; omega
        · exact h0
      have h1 : 1 < 10 ^ p := Nat.one_lt_pow (by omega) (by norm_num)
      intro hc
      rw [heq] at hc
      refine hmin 1 (L.scale + 1 + p) Nat.one_pos h1 (by omega) ?_
      refine litToBits_congr ⟨L.neg, 1, L.scale + 1 + p⟩ ⟨L.neg, 10 ^ p, L.scale + 1⟩ x rfl ?_ (by simp)
        (by simp) (by simp only; omega) hc
      simp only [magVal]
      rw [zpow_add₀ (by norm_num : (10 : ℚ) ≠ 0) (L.scale + 1) p, zpow_natCast]; push_cast; ring

/-! ## the property-level statements -/

/-- **C17_goG_passes** (number clause, the stdlib assumption reduced to digit generation): let `x` be a
binary64 pattern and `m`, `dp` ANY decimal digits (`m > 0`, value `0.m · 10^dp = m · 10^(dp − nd)`) that
round-trip (`Dec.litToBits`, proved = IEEE roundTiesToEven).  Then the text `strconv`'s `%e`/`%f` layout
(`goFmtG`, model of `formatDigits(…,'g')` with `shortest`) makes of them passes the per-coordinate test of the
driver: non-empty, numeric alphabet, and the OGC literal parser reads exactly `x` back.  Together with
`C17_roundtrip_checked` this gives the round trip for every formatter of that shape — closeness of the digits to
`x` or minimality is not needed for this clause. -/
theorem C17_goG_passes (fmt : UInt64 → List Char) (x : UInt64) (neg : Bool) (m : Nat) (dp : Int)
    (hfmt : fmt x = goFmtG neg (natDigits m) dp) (hm : 0 < m) (hdp : dp.natAbs ≤ 900)
    (hnd : (natDigits m).length ≤ 900)
    (hrt : litToBits ⟨neg, m, dp - ((natDigits m).length : Int)⟩ = some x) :
    numFmtHolds fmt toBits x = true := by
  have hd : AllDigits (natDigits m) := fun c hc => (natDigits_digits m c hc).1
  obtain ⟨l, hl, hneg, hval, hsc, _⟩ := goFmtG_parse neg (natDigits m) dp hd (natDigits_ne_nil m) hdp hnd
  rw [digitsVal_natDigits] at hval
  have hmq : (0 : ℚ) < m := by exact_mod_cast hm
  have hlm : l.mant ≠ 0 := by
    intro h0
    have : magVal l = 0 := by simp [magVal, h0]
    rw [this] at hval
    have : (0 : ℚ) < (m : ℚ) * (10 : ℚ) ^ (dp - ((natDigits m).length : Int)) :=
      mul_pos hmq (ten_zpow_pos _)
    linarith
  have hb : litToBits l = some x :=
    litToBits_congr l ⟨neg, m, dp - ((natDigits m).length : Int)⟩ x hneg (by rw [hval]; rfl) hlm
      (by simp only; omega) (by omega) hrt
  have hne : fmt x ≠ [] := by
    intro h; rw [hfmt] at h; rw [h] at hl
    have hn : parseLit [] = none := by decide
    rw [hn] at hl; cases hl
  unfold numFmtHolds
  simp only [Bool.and_eq_true, Bool.not_eq_true', List.isEmpty_eq_false_iff, List.all_eq_true, beq_iff_eq]
  refine ⟨⟨hne, ?_⟩, ?_⟩
  · rw [hfmt]; exact goFmtG_alphabet neg _ dp hd hdp
  · rw [hfmt]; unfold toBits; rw [hl]; exact hb

/-- **C17_goG_shortest** ("(shortest round-trip decimal form)", completeness of the run-time test): if moreover the
digits have no trailing zero, are at most `p+1` and no decimal with at most `p` significant digits converts to
`x`, then the number token passes the shortest-form test `Dec.isShortest` the driver applies to every number token
(whose soundness is `C17_shortest_sound`).  So ANY formatter that lays a shortest round-tripping decimal out like
`strconv` passes both per-coordinate tests: what is still assumed of `strconv.AppendFloat(·,'g',-1,64)` is that
`ryuFtoaShortest` returns such digits. -/
theorem C17_goG_shortest (fmt : UInt64 → List Char) (x : UInt64) (neg : Bool) (m : Nat) (dp : Int)
    (hfmt : fmt x = goFmtG neg (natDigits m) dp) (hm10 : m % 10 ≠ 0) (hdp : dp.natAbs ≤ 900)
    (hnd : (natDigits m).length ≤ 900)
    (hrt : litToBits ⟨neg, m, dp - ((natDigits m).length : Int)⟩ = some x)
    (p : Nat) (hp : p ≤ 900) (hlt : m < 10 ^ (p + 1))
    (hmin : ∀ (m' : Nat) (s' : Int), 0 < m' → m' < 10 ^ p → s'.natAbs ≤ 5000 →
      litToBits ⟨neg, m', s'⟩ ≠ some x) :
    ∃ l, parseLit (fmt x) = some l ∧ isShortest l = true := by
  have hd : AllDigits (natDigits m) := fun c hc => (natDigits_digits m c hc).1
  obtain ⟨l, hl, hneg, hval, hsc, hshape⟩ := goFmtG_parse neg (natDigits m) dp hd (natDigits_ne_nil m) hdp hnd
  rw [digitsVal_natDigits] at hshape
  have hnorm : normLit l = ⟨neg, m, dp - ((natDigits m).length : Int)⟩ := by
    rcases hshape with rfl | ⟨h1, h2, rfl⟩
    · simp only [normLit, normLit_go_nz 400 m _ hm10]
    · simp only [normLit, normLit_go_pow (dp.toNat - (natDigits m).length) 400 m 0 hm10 (by omega)]
      congr 1; omega
  refine ⟨l, by rw [hfmt]; exact hl, ?_⟩
  apply isShortest_of_minimal l x p hp
  · rw [hnorm]; exact hrt
  · rw [hnorm]; simp only; omega
  · rw [hnorm]; exact hlt
  · rw [hnorm]; exact hmin

/-- zero: `ryuFtoaShortest` is not called, `nd = 0`, `dp = 0`: `0` and `-0` -/
theorem C17_goG_zero :
    goFmtG false [] 0 = "0".toList ∧ goFmtG true [] 0 = "-0".toList ∧
    numFmtHolds (fun _ => goFmtG false [] 0) toBits (0 : UInt64) = true ∧
    numFmtHolds (fun _ => goFmtG true [] 0) toBits (0x8000000000000000 : UInt64) = true := by
  decide +kernel

/-! non-vacuity: 0.30000000000000004 (17 digits; hypotheses of both theorems, the minimality excepted, decided) -/
example : goFmtG false (natDigits 30000000000000004) 0 = "0.30000000000000004".toList := by decide +kernel
example : litToBits ⟨false, 30000000000000004, 0 - ((natDigits 30000000000000004).length : Int)⟩ =
    some 0x3fd3333333333334 := by decide +kernel
example : numFmtHolds (fun _ => goFmtG false (natDigits 30000000000000004) 0) toBits 0x3fd3333333333334 = true :=
  C17_goG_passes _ _ false 30000000000000004 0 rfl (by norm_num) (by decide) (by decide +kernel) (by decide +kernel)
/-- the minimality hypothesis of `C17_goG_shortest` is satisfiable on a 17-digit value (discharged through the
soundness theorem of the decidable test) -/
example : ∃ l, parseLit (goFmtG false (natDigits 30000000000000004) 0) = some l ∧ isShortest l = true :=
  C17_goG_shortest (fun _ => goFmtG false (natDigits 30000000000000004) 0) 0x3fd3333333333334 false
    30000000000000004 0 rfl (by decide) (by decide) (by decide +kernel) (by decide +kernel) 16 (by decide) (by norm_num)
    (fun m' s' hpos hlt _ h => isShortest_sound ⟨false, 30000000000000004, -17⟩ (by decide +kernel)
      (by decide +kernel) ⟨false, m', s'⟩ 16 hpos hlt (by decide +kernel) _ h (by decide +kernel))
example : goFmtG true (natDigits 1234567) 7 = "-1.234567e+06".toList := by decide +kernel
example : goFmtG false (natDigits 5) (-323) = "5e-324".toList := by decide +kernel
example : goFmtG false (natDigits 12) 5 = "12000".toList := by decide +kernel


/-- **C17_goG_layout_fixpoint** (completeness of the layout tie `isGoLayout` the judge applies to every rendering): the
`'g'`/shortest layout of digits without trailing zero is recognised as the layout of its own digits — the test raises no
false alarm on any text `formatDigits` can produce from `ryuFtoaShortest` digits (soundness is by definition: an accepted
text IS `goFmtG` of the digits read from it). -/
theorem C17_goG_layout_fixpoint (neg : Bool) (m : Nat) (dp : Int) (hm10 : m % 10 ≠ 0) (hdp : dp.natAbs ≤ 900)
    (hnd : (natDigits m).length ≤ 900) : isGoLayout (goFmtG neg (natDigits m) dp) = true := by
  have hd : AllDigits (natDigits m) := fun c hc => (natDigits_digits m c hc).1
  obtain ⟨l, hl, hneg, hval, hsc, hshape⟩ := goFmtG_parse neg (natDigits m) dp hd (natDigits_ne_nil m) hdp hnd
  rw [digitsVal_natDigits] at hshape
  have hnorm : normLit l = ⟨neg, m, dp - ((natDigits m).length : Int)⟩ := by
    rcases hshape with rfl | ⟨h1, h2, rfl⟩
    · simp only [normLit, normLit_go_nz 400 m _ hm10]
    · simp only [normLit, normLit_go_pow (dp.toNat - (natDigits m).length) 400 m 0 hm10 (by omega)]
      congr 1; omega
  have hm0 : m ≠ 0 := by rintro rfl; simp at hm10
  unfold isGoLayout
  rw [hl]
  simp only [digitsOfLit, hnorm, hm0, if_false, hneg]
  have : dp - ((natDigits m).length : Int) + ((natDigits m).length : Int) = dp := by omega
  rw [this]
  simp

example : isGoLayout "1.7976931348623157e+308".toList = true := by decide +kernel
example : isGoLayout "1e+6".toList = false := by decide +kernel
example : isGoLayout "0.10".toList = false := by decide +kernel

end GeomV.C17
