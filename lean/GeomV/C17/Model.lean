import GeomV.Common.Geom
/-!
# C17 model: encoding/wkt (Encode and the `append*` byte-slice builders)

Text is `List Char` (the Go code appends ASCII bytes).  Every builder is generic in the number
formatter `fmt : F → List Char` (Go: `strconv.AppendFloat(dst, x, 'g', -1, 64)`), so the model
captures exactly the *structure* the Go code assembles by hand: keyword, parentheses, commas and the
single blank between x and y.  The functions follow the Go source one by one, including the
accumulator `dst`, the loop index tests `i != 0` (comma before every element but the first) and
`i != len(x)-1` (`),(` after every member but the last).  Core Lean only.
-/
namespace GeomV.C17

inductive Err
  | unsupported   -- *wkt.UnsupportedGeometryError
deriving DecidableEq, Repr, Inhabited

section
variable {F : Type} (fmt : F → List Char)

/-- `appendPointCoords` (point.go) -/
def appendPointCoords (dst : List Char) (p : Pt F) : List Char :=
  let dst := dst ++ fmt p.x
  let dst := dst ++ [' ']
  let dst := dst ++ fmt p.y
  dst

/-- loop of `appendPointsCoords`: `for i, point := range points { if i != 0 { ',' }; coords }` -/
def appendPointsCoordsFrom (i : Nat) (dst : List Char) : List (Pt F) → List Char
  | [] => dst
  | p :: ps =>
    let dst := if i ≠ 0 then dst ++ [','] else dst
    let dst := appendPointCoords fmt dst p
    appendPointsCoordsFrom (i+1) dst ps

/-- `appendPointsCoords` (point.go) -/
def appendPointsCoords (dst : List Char) (ps : List (Pt F)) : List Char :=
  appendPointsCoordsFrom fmt 0 dst ps

/-- loop of `appendPointssCoords`: `if i != 0 { ',' }; '('; points; ')'` -/
def appendPointssCoordsFrom (i : Nat) (dst : List Char) : List (List (Pt F)) → List Char
  | [] => dst
  | ps :: pss =>
    let dst := if i ≠ 0 then dst ++ [','] else dst
    let dst := dst ++ ['(']
    let dst := appendPointsCoords fmt dst ps
    let dst := dst ++ [')']
    appendPointssCoordsFrom (i+1) dst pss

/-- `appendPointssCoords` (point.go) -/
def appendPointssCoords (dst : List Char) (pss : List (List (Pt F))) : List Char :=
  appendPointssCoordsFrom fmt 0 dst pss

/-- `appendPointWKT` (point.go) -/
def appendPointWKT (dst : List Char) (p : Pt F) : List Char :=
  let dst := dst ++ "POINT(".toList
  let dst := appendPointCoords fmt dst p
  dst ++ [')']

/-- `appendLineStringWKT` (linestring.go) -/
def appendLineStringWKT (dst : List Char) (ls : List (Pt F)) : List Char :=
  let dst := dst ++ "LINESTRING(".toList
  let dst := appendPointsCoords fmt dst ls
  dst ++ [')']

/-- `appendPolygonWKT` (polygon.go) -/
def appendPolygonWKT (dst : List Char) (pg : List (List (Pt F))) : List Char :=
  let dst := dst ++ "POLYGON(".toList
  let dst := appendPointssCoords fmt dst pg
  dst ++ [')']

/-- loop of `appendMultiLineStringWKT`; `n` is `len(multiLineString)`:
`dst = appendPointsCoords(dst, ls); if i != n-1 { ')' ',' '(' }` -/
def appendMLSFrom (n i : Nat) (dst : List Char) : List (List (Pt F)) → List Char
  | [] => dst
  | ls :: rest =>
    let dst := appendPointsCoords fmt dst ls
    let dst := if i + 1 ≠ n then dst ++ [')'] ++ [','] ++ ['('] else dst
    appendMLSFrom n (i+1) dst rest

/-- `appendMultiLineStringWKT` (multilinestring.go) -/
def appendMultiLineStringWKT (dst : List Char) (mls : List (List (Pt F))) : List Char :=
  let dst := dst ++ "MULTILINESTRING((".toList
  let dst := appendMLSFrom fmt mls.length 0 dst mls
  dst ++ [')'] ++ [')']

/-- loop of `appendMultiPolygonWKT`: `dst = appendPointssCoords(dst, pg); if i != n-1 { ')' ',' '(' }` -/
def appendMPGFrom (n i : Nat) (dst : List Char) : List (List (List (Pt F))) → List Char
  | [] => dst
  | pg :: rest =>
    let dst := appendPointssCoords fmt dst pg
    let dst := if i + 1 ≠ n then dst ++ [')'] ++ [','] ++ ['('] else dst
    appendMPGFrom n (i+1) dst rest

/-- `appendMultiPolygonWKT` (multipolygon.go) -/
def appendMultiPolygonWKT (dst : List Char) (mpg : List (List (List (Pt F)))) : List Char :=
  let dst := dst ++ "MULTIPOLYGON((".toList
  let dst := appendMPGFrom fmt mpg.length 0 dst mpg
  dst ++ [')'] ++ [')']

/-- `wkt.Encode` (encode.go): five supported types, everything else `UnsupportedGeometryError`.
(The Go loop test is `i != len-1` on ints; `i + 1 ≠ n` is the same test without Nat subtraction —
for `n = 0` the loop body never runs.) -/
def encode : Geom F → Except Err (List Char)
  | .point p => .ok (appendPointWKT fmt [] p)
  | .lineString ps => .ok (appendLineStringWKT fmt [] ps)
  | .multiLineString ls => .ok (appendMultiLineStringWKT fmt [] ls)
  | .polygon rs => .ok (appendPolygonWKT fmt [] rs)
  | .multiPolygon ps => .ok (appendMultiPolygonWKT fmt [] ps)
  | .multiPoint _ => .error .unsupported
  | .collection _ => .error .unsupported
  | .bounds _ _ => .error .unsupported
  | .nil => .error .unsupported

end

/-- Go's `reflect.TypeOf(g).String()` for the geometry types of package geom (the `Type` field of the
`UnsupportedGeometryError` that `Encode`'s default arm builds) -/
def goTypeName {F : Type} : Geom F → String
  | .point _ => "geom.Point" | .multiPoint _ => "geom.MultiPoint" | .lineString _ => "geom.LineString"
  | .multiLineString _ => "geom.MultiLineString" | .polygon _ => "geom.Polygon"
  | .multiPolygon _ => "geom.MultiPolygon" | .collection _ => "geom.GeometryCollection"
  | .bounds _ _ => "*geom.Bounds" | .nil => "nil"

/-- `UnsupportedGeometryError.Error()` (wkt.go): `"wkt: unsupported geometry type: " + e.Type.String()` -/
def errorText (typeName : String) : String := "wkt: unsupported geometry type: " ++ typeName

/-- what `Encode` reports for `g` besides the bytes: `none` = no error, `some t` = an
`*UnsupportedGeometryError` whose `Type` prints as `t` -/
def encodeErrType {F : Type} (g : Geom F) : Option String :=
  match g with
  | .point _ | .lineString _ | .multiLineString _ | .polygon _ | .multiPolygon _ => none
  | g => some (goTypeName g)

end GeomV.C17
