import GeomV.C17.Model
import GeomV.C17.Spec
namespace GeomV.C17
end GeomV.C17
