import GeomV.C17.Lemmas
import GeomV.C17.IntFmt
/-!
# C17 — property theorems (model of encoding/wkt vs. the independent OGC 06-103r4 parser)

* `C17_roundtrip`    for the five supported types with at least one member and one vertex per member
                     and finite coordinates, the encoder's text is accepted by the OGC parser and
                     parses to the same geometry (type, nesting, coordinates), under the `strconv`
                     contract `NumFmt` (hypothesis, with a proved instance `C17_numfmt_int`).
* `C17_unsupported`  MultiPoint, GeometryCollection, *Bounds (and nil) are rejected with an error.
* `C17_guard_exact`  the guard is exact: a supported finite geometry that violates it is still encoded
                     (e.g. `LINESTRING()`, `POLYGON(())`, `MULTILINESTRING(())`) and the OGC parser rejects
                     that text.
No bound on member counts, ring counts or vertex counts.
-/
set_option linter.unusedSimpArgs false
set_option linter.unusedVariables false
namespace GeomV.C17
open GeomV GeomV.C17.Ogc

variable {F : Type} {fin : F → Bool} {fmt : F → List Char} {parseNum : List Char → Option F}

theorem coords_ne_nil (fmt : F → List Char) (p : Pt F) : coords fmt p ≠ [] := by
  simp [coords]

theorem ringText_ne_nil (fmt : F → List Char) (ps : List (Pt F)) : ringText fmt ps ≠ [] := by
  simp [ringText, paren]

theorem polyText_ne_nil (fmt : F → List Char) (rs : List (List (Pt F))) : polyText fmt rs ≠ [] := by
  simp [polyText, paren]

/-- `<linestring text>` reads a parenthesised non-empty point list back -/
theorem lineStringText_ring (h : NumFmt fin fmt parseNum) (ps : List (Pt F)) (hne : ps ≠ [])
    (hfin : ps.all (ptFinite fin) = true) (fuel : Nat) (hfuel : (ringText fmt ps).length ≤ fuel)
    (rest : List Char) :
    lineStringText parseNum fuel (ringText fmt ps ++ rest) = .ok (ps, rest) := by
  cases ps with
  | nil => exact absurd rfl hne
  | cons b bs =>
    have hc := items_count_le (coords fmt) (b :: bs) (fun x _ => coords_ne_nil fmt x)
    have hf : bs.length + 1 ≤ fuel := by
      simp [ringText, paren, pointsText] at hfuel hc; omega
    have := sepTail_items (point parseNum) (coords fmt) b bs rest fuel hf
      (fun x hx d r hd => point_coords h x (List.all_eq_true.mp hfin x hx) d r hd)
    simp [lineStringText, ringText, paren, pointsText, List.append_assoc] at this ⊢
    rw [listText_paren]; exact this

/-- `<polygon text>` reads a parenthesised non-empty list of non-empty rings back -/
theorem polygonText_poly (h : NumFmt fin fmt parseNum) (rs : List (List (Pt F))) (hne : rs ≠ [])
    (hmem : ∀ r ∈ rs, r ≠ []) (hfin : rs.all (·.all (ptFinite fin)) = true) (fuel : Nat)
    (hfuel : (polyText fmt rs).length ≤ fuel) (rest : List Char) :
    polygonText parseNum fuel (polyText fmt rs ++ rest) = .ok (rs, rest) := by
  cases rs with
  | nil => exact absurd rfl hne
  | cons b bs =>
    have hc := items_count_le (ringText fmt) (b :: bs) (fun x _ => ringText_ne_nil fmt x)
    have hf : bs.length + 1 ≤ fuel := by
      simp [polyText, paren, ringsText] at hfuel hc; omega
    have := sepTail_items (lineStringText parseNum fuel) (ringText fmt) b bs rest fuel hf
      (fun x hx d r _ => lineStringText_ring h x (hmem x hx) (List.all_eq_true.mp hfin x hx) fuel
        (by
          have := items_mem_le (ringText fmt) (b :: bs) x hx
          simp [polyText, paren, ringsText] at hfuel this ⊢; omega) (d :: r))
    simp [polygonText, polyText, paren, ringsText, List.append_assoc] at this ⊢
    rw [listText_paren]; exact this

theorem word_kw (kw : List Char) (hk : ∀ c ∈ kw, isLetter c = true ∧ upper c = c ∧ isWs c = false)
    (hne : kw ≠ []) (r : List Char) : word (kw ++ '(' :: r) = (kw, '(' :: r) := by
  have h1 : skipWs (kw ++ '(' :: r) = kw ++ '(' :: r := by
    cases kw with
    | nil => exact absurd rfl hne
    | cons c cs => exact skipWs_cons _ _ (hk c (by simp)).2.2
  have h2 := takeWhile_stop isLetter kw '(' r (fun c hc => (hk c hc).1) (by decide)
  have h3 := dropWhile_stop isLetter kw '(' r (fun c hc => (hk c hc).1) (by decide)
  have h4 : kw.map upper = kw := by
    have : ∀ l : List Char, (∀ c ∈ l, upper c = c) → l.map upper = l := by
      intro l; induction l with
      | nil => simp
      | cons a l ih => intro h; simp [h a (by simp), ih (fun c hc => h c (by simp [hc]))]
    exact this kw (fun c hc => (hk c hc).2.1)
  simp [word, h1, h2, h3, h4]

theorem parse_tail_nil {g : Geom F} {s : List Char}
    (h : ∀ fuel, s.length ≤ fuel → tagged parseNum fuel s = .ok (g, [])) : parse parseNum s = .ok g := by
  simp [parse, h s.length (Nat.le_refl _), skipWs, bind, Except.bind, pure, Except.pure]

/-- **C17_roundtrip** (the statement's main clause). For every formatter/literal-parser pair that
satisfies the `strconv` contract `NumFmt`, and every Point, LineString, MultiLineString, Polygon or
MultiPolygon with at least one member, at least one vertex per member and finite coordinates, the text
produced by the encoder is accepted by the independent OGC parser and parses to the *same* geometry
(same constructor, same nesting, same coordinates). -/
theorem C17_roundtrip (h : NumFmt fin fmt parseNum) (g : Geom F) (hs : supported g = true)
    (hne : everyMemberNonEmpty g = true) (hf : allFinite fin g = true) :
    ∃ txt, encode fmt g = .ok txt ∧ parse parseNum txt = .ok g := by
  cases g with
  | point p =>
    refine ⟨_, encode_point fmt p, parse_tail_nil ?_⟩
    intro fuel _
    have hw := word_kw "POINT".toList (by decide) (by decide) (coords fmt p ++ [')'])
    have hp := point_coords h p (by simpa [allFinite] using hf) ')' [] (Or.inr rfl)
    simp [paren] at hw ⊢
    simp [tagged, hw, pointText, word_lparen, lit, skipWs_lparen, skipWs_rparen, hp,
      bind, Except.bind, pure, Except.pure]
  | lineString ps =>
    refine ⟨_, encode_lineString fmt ps, parse_tail_nil ?_⟩
    intro fuel hfuel
    have hps : ps ≠ [] := by intro e; simp [everyMemberNonEmpty, e] at hne
    have hw := word_kw "LINESTRING".toList (by decide) (by decide) (pointsText fmt ps ++ [')'])
    have hl := lineStringText_ring h ps hps (by simpa [allFinite] using hf)
      fuel (by simp at hfuel ⊢; omega) []
    simp [ringText, paren] at hw hl ⊢
    simp [tagged, hw, hl, bind, Except.bind, pure, Except.pure]
  | polygon rs =>
    refine ⟨_, encode_polygon fmt rs, parse_tail_nil ?_⟩
    intro fuel hfuel
    simp [everyMemberNonEmpty] at hne
    have hrs : rs ≠ [] := by intro e; simp [e] at hne
    have hw := word_kw "POLYGON".toList (by decide) (by decide) (ringsText fmt rs ++ [')'])
    have hl := polygonText_poly h rs hrs (fun r hr e => by have := hne.2 r hr; simp [e] at this)
      (by simpa [allFinite] using hf) fuel (by simp at hfuel ⊢; omega) []
    simp [polyText, paren] at hw hl ⊢
    simp [tagged, hw, hl, bind, Except.bind, pure, Except.pure]
  | multiLineString ls =>
    simp [everyMemberNonEmpty] at hne
    cases ls with
    | nil => simp at hne
    | cons l ls =>
      refine ⟨_, encode_multiLineString fmt l ls, parse_tail_nil ?_⟩
      intro fuel hfuel
      -- a MultiLineString text has the shape of a polygon text
      have hw := word_kw "MULTILINESTRING".toList (by decide) (by decide) (ringsText fmt (l :: ls) ++ [')'])
      have hl := polygonText_poly h (l :: ls) (by simp)
        (fun r hr e => by have := hne.2 r hr; simp [e] at this)
        (by simpa [allFinite] using hf) fuel
        (by simp [polyText, ringsText, paren] at hfuel ⊢; omega) []
      simp [polyText, ringsText, paren, polygonText] at hw hl ⊢
      simp [tagged, multiLineStringText, hw, hl, bind, Except.bind, pure, Except.pure]
  | multiPolygon ps =>
    simp [everyMemberNonEmpty] at hne
    cases ps with
    | nil => simp at hne
    | cons p ps =>
      refine ⟨_, encode_multiPolygon fmt p ps, parse_tail_nil ?_⟩
      intro fuel hfuel
      have hw := word_kw "MULTIPOLYGON".toList (by decide) (by decide)
        (items ((p :: ps).map (polyText fmt)) ++ [')'])
      have hfin : ∀ x ∈ p :: ps, x.all (·.all (ptFinite fin)) = true := by
        simpa [allFinite] using hf
      have hc := items_count_le (polyText fmt) (p :: ps) (fun x _ => polyText_ne_nil fmt x)
      have hfu : ps.length + 1 ≤ fuel := by
        simp [paren] at hc hfuel ⊢; omega
      have hl := sepTail_items (polygonText parseNum fuel) (polyText fmt) p ps [] fuel hfu
        (fun x hx d r _ => polygonText_poly h x
          (by intro e; have := (hne.2 x hx).1; simp [e] at this)
          (fun r hr e => by have := (hne.2 x hx).2 r hr; simp [e] at this)
          (hfin x hx) fuel
          (by
            have := items_mem_le (polyText fmt) (p :: ps) x hx
            simp [paren] at this hfuel ⊢; omega) (d :: r))
      simp [paren] at hw hl ⊢
      simp [tagged, multiPolygonText, hw, listText_paren, hl, bind, Except.bind, pure, Except.pure]
  | multiPoint _ => simp [supported] at hs
  | collection _ => simp [supported] at hs
  | bounds _ _ => simp [supported] at hs
  | nil => simp [supported] at hs

/-- **C17_unsupported** ("other geometry types are rejected with an error rather than mis-encoded"). -/
theorem C17_unsupported (fmt : F → List Char) (g : Geom F) (hs : supported g = false) :
    encode fmt g = .error .unsupported := by
  cases g <;> simp [supported] at hs <;> rfl

/-! ### The guard is exact -/

/-- an empty `()` is not a `<linestring text>` -/
theorem lineStringText_empty (fuel : Nat) (r : List Char) :
    ∃ e, lineStringText parseNum fuel ('(' :: ')' :: r) = .error e := by
  cases fuel with
  | zero => exact ⟨.fuel, by simp [lineStringText, listText_paren, sepTail]⟩
  | succ f =>
    refine ⟨.expected "number", ?_⟩
    simp [lineStringText, listText_paren, sepTail, point, number, skipWs_rparen, List.takeWhile,
      isNumChar, bind, Except.bind]

/-- an empty `()` is not a `<polygon text>` -/
theorem polygonText_empty (fuel : Nat) (r : List Char) :
    ∃ e, polygonText parseNum fuel ('(' :: ')' :: r) = .error e := by
  cases fuel with
  | zero => exact ⟨.fuel, by simp [polygonText, listText_paren, sepTail]⟩
  | succ f =>
    refine ⟨.expected "(", ?_⟩
    have hw : word (')' :: r) = ([], ')' :: r) := by
      simp [word, skipWs_rparen, List.takeWhile, List.dropWhile, isLetter]
    rw [polygonText, listText_paren]
    simp [sepTail, lineStringText, listText, hw, lit, skipWs_rparen, bind, Except.bind]

/-- the list production fails as soon as one member's text is rejected by the item parser -/
theorem sepTail_bad {β : Type} (item : List Char → Except PErr (β × List Char)) (enc : β → List Char)
    (good : β → Prop) (b : β) (bs : List β)
    (hg : ∀ x ∈ b :: bs, good x → ∀ d r, (d = ',' ∨ d = ')') → item (enc x ++ d :: r) = .ok (x, d :: r))
    (hb : ∀ x ∈ b :: bs, ¬ good x → ∀ d r, (d = ',' ∨ d = ')') → ∃ e, item (enc x ++ d :: r) = .error e)
    (hex : ∃ x ∈ b :: bs, ¬ good x) (rest : List Char) (fuel : Nat) :
    ∃ e, sepTail item fuel (items ((b :: bs).map enc) ++ ')' :: rest) = .error e := by
  induction bs generalizing b fuel with
  | nil =>
    cases fuel with
    | zero => exact ⟨_, rfl⟩
    | succ f =>
      obtain ⟨x, hx, hbad⟩ := hex
      simp at hx; subst hx
      obtain ⟨e, he⟩ := hb x (by simp) hbad ')' rest (Or.inr rfl)
      exact ⟨e, by simp [items, sepTail, he, bind, Except.bind]⟩
  | cons c cs ih =>
    cases fuel with
    | zero => exact ⟨_, rfl⟩
    | succ f =>
      by_cases hgb : good b
      · have hbk := hg b (by simp) hgb ',' (items ((c :: cs).map enc) ++ ')' :: rest) (Or.inl rfl)
        have hex' : ∃ x ∈ c :: cs, ¬ good x := by
          obtain ⟨x, hx, hbad⟩ := hex
          rcases List.mem_cons.mp hx with rfl | hx'
          · exact absurd hgb hbad
          · exact ⟨x, hx', hbad⟩
        obtain ⟨e, he⟩ := ih c (fun x hx => hg x (by simp at hx ⊢; exact Or.inr hx))
          (fun x hx => hb x (by simp at hx ⊢; exact Or.inr hx)) hex' f
        refine ⟨e, ?_⟩
        simp [items, List.append_assoc] at hbk he ⊢
        simp [sepTail, hbk, skipWs_comma, he, bind, Except.bind]
      · obtain ⟨e, he⟩ := hb b (by simp) hgb ',' (items ((c :: cs).map enc) ++ ')' :: rest) (Or.inl rfl)
        refine ⟨e, ?_⟩
        simp [items, List.append_assoc] at he ⊢
        simp [sepTail, he, bind, Except.bind]

/-- a ring list with no ring or with an empty ring is rejected as `<polygon text>` -/
theorem polygonText_bad (h : NumFmt fin fmt parseNum) (rs : List (List (Pt F)))
    (hbad : rs = [] ∨ ∃ r ∈ rs, r = []) (hfin : rs.all (·.all (ptFinite fin)) = true) (fuel : Nat)
    (hfuel : (polyText fmt rs).length ≤ fuel) (rest : List Char) :
    ∃ e, polygonText parseNum fuel (polyText fmt rs ++ rest) = .error e := by
  cases rs with
  | nil => simpa [polyText, ringsText, items, paren] using polygonText_empty (parseNum := parseNum) fuel rest
  | cons b bs =>
    have hex : ∃ x ∈ b :: bs, ¬ (x ≠ []) := by
      rcases hbad with hb | ⟨r, hr, he⟩
      · simp at hb
      · exact ⟨r, hr, by simp [he]⟩
    have := sepTail_bad (lineStringText parseNum fuel) (ringText fmt) (fun x => x ≠ []) b bs
      (fun x hx hgx d r _ => lineStringText_ring h x hgx (List.all_eq_true.mp hfin x hx) fuel
        (by
          have := items_mem_le (ringText fmt) (b :: bs) x hx
          simp [polyText, paren, ringsText] at hfuel this ⊢; omega) (d :: r))
      (fun x hx hbx d r _ => by
        have : x = [] := by simpa using hbx
        subst this
        simpa [ringText, pointsText, items, paren] using
          lineStringText_empty (parseNum := parseNum) fuel (d :: r))
      hex rest fuel
    simp [polygonText, polyText, paren, ringsText, List.append_assoc] at this ⊢
    rw [listText_paren]; exact this

theorem parse_err {s : List Char}
    (h : ∀ fuel, s.length ≤ fuel → ∃ e, tagged parseNum fuel s = .error e) :
    ∀ g' : Geom F, parse parseNum s ≠ .ok g' := by
  obtain ⟨e, he⟩ := h s.length (Nat.le_refl _)
  intro g'
  simp [parse, he, bind, Except.bind]

/-- **C17_guard_exact** (the guard "at least one vertex per member" hides nothing). A supported, finite
geometry that violates the guard — no member, or a member without vertices — is still encoded without
error, and the independent OGC parser rejects the text (e.g. `LINESTRING()`, `POLYGON(())`,
`MULTILINESTRING((1 2),())`); together with `C17_roundtrip` the guard is exactly the set of supported
finite geometries whose output is well-formed. The minimal emitted texts are listed in
`C17_guard_emitted`. -/
theorem C17_guard_exact (h : NumFmt fin fmt parseNum) (g : Geom F) (hs : supported g = true)
    (hf : allFinite fin g = true) (hne : everyMemberNonEmpty g = false) :
    ∃ txt, encode fmt g = .ok txt ∧ ∀ g', parse parseNum txt ≠ .ok g' := by
  cases g with
  | point p => simp [everyMemberNonEmpty] at hne
  | lineString ps =>
    have : ps = [] := by simpa [everyMemberNonEmpty] using hne
    subst this
    refine ⟨_, encode_lineString fmt [], parse_err ?_⟩
    intro fuel _
    have hw := word_kw "LINESTRING".toList (by decide) (by decide) [')']
    obtain ⟨e, he⟩ := lineStringText_empty (parseNum := parseNum) fuel []
    refine ⟨e, ?_⟩
    simp [ringText, pointsText, items, paren] at hw he ⊢
    simp [tagged, hw, he, bind, Except.bind]
  | polygon rs =>
    refine ⟨_, encode_polygon fmt rs, parse_err ?_⟩
    intro fuel hfuel
    have hbad : rs = [] ∨ ∃ r ∈ rs, r = [] := by
      simp [everyMemberNonEmpty] at hne
      by_cases hr : rs = []
      · exact Or.inl hr
      · exact Or.inr (by simpa using hne hr)
    have hw := word_kw "POLYGON".toList (by decide) (by decide) (ringsText fmt rs ++ [')'])
    obtain ⟨e, he⟩ := polygonText_bad h rs hbad (by simpa [allFinite] using hf) fuel
      (by simp at hfuel ⊢; omega) []
    refine ⟨e, ?_⟩
    simp [polyText, paren] at hw he ⊢
    simp [tagged, hw, he, bind, Except.bind]
  | multiLineString ls =>
    cases ls with
    | nil =>
      refine ⟨_, encode_multiLineString_nil fmt, parse_err ?_⟩
      intro fuel hfuel
      have hlen : "MULTILINESTRING(())".toList.length = 19 := by decide
      rw [hlen] at hfuel
      have hw := word_kw "MULTILINESTRING".toList (by decide) (by decide) ['(', ')', ')']
      obtain ⟨e, he⟩ := polygonText_bad h [[]] (Or.inr ⟨[], by simp, rfl⟩) (by simp) fuel
        (by simp [polyText, ringsText, ringText, pointsText, items, paren]; omega) []
      refine ⟨e, ?_⟩
      simp [polyText, ringsText, ringText, pointsText, items, paren, polygonText] at hw he ⊢
      simp [tagged, multiLineStringText, hw, he, bind, Except.bind]
    | cons l ls =>
      refine ⟨_, encode_multiLineString fmt l ls, parse_err ?_⟩
      intro fuel hfuel
      have hbad : (l :: ls) = [] ∨ ∃ r ∈ l :: ls, r = [] := by
        simp [everyMemberNonEmpty] at hne
        by_cases hl : l = []
        · exact Or.inr ⟨l, by simp, hl⟩
        · exact Or.inr ⟨[], by simp [hne hl], rfl⟩
      have hw := word_kw "MULTILINESTRING".toList (by decide) (by decide) (ringsText fmt (l :: ls) ++ [')'])
      obtain ⟨e, he⟩ := polygonText_bad h (l :: ls) hbad (by simpa [allFinite] using hf) fuel
        (by simp [polyText, ringsText, paren] at hfuel ⊢; omega) []
      refine ⟨e, ?_⟩
      simp [polyText, ringsText, paren, polygonText] at hw he ⊢
      simp [tagged, multiLineStringText, hw, he, bind, Except.bind]
  | multiPolygon ps =>
    cases ps with
    | nil =>
      refine ⟨_, encode_multiPolygon_nil fmt, parse_err ?_⟩
      intro fuel _
      have hw := word_kw "MULTIPOLYGON".toList (by decide) (by decide) ['(', ')', ')']
      obtain ⟨e, he⟩ := polygonText_empty (parseNum := parseNum) fuel [')']
      cases fuel with
      | zero => exact ⟨.fuel, by simp at hw ⊢; simp [tagged, hw, multiPolygonText, listText_paren, sepTail, bind, Except.bind]⟩
      | succ f =>
        obtain ⟨e, he⟩ := polygonText_empty (parseNum := parseNum) (f+1) [')']
        refine ⟨e, ?_⟩
        simp at hw he ⊢
        simp [tagged, multiPolygonText, hw, listText_paren, sepTail, he, bind, Except.bind]
    | cons p ps =>
      refine ⟨_, encode_multiPolygon fmt p ps, parse_err ?_⟩
      intro fuel hfuel
      have hfin : ∀ x ∈ p :: ps, x.all (·.all (ptFinite fin)) = true := by
        simpa [allFinite] using hf
      let good : List (List (Pt F)) → Prop := fun rs => rs ≠ [] ∧ ∀ r ∈ rs, r ≠ []
      have hex : ∃ x ∈ p :: ps, ¬ good x := by
        simp [everyMemberNonEmpty] at hne
        by_cases hp : good p
        · obtain ⟨x, hx, hxx⟩ := hne hp.1 (fun r hr => hp.2 r hr)
          exact ⟨x, by simp [hx], fun hgx => hgx.2 [] (hxx hgx.1) rfl⟩
        · exact ⟨p, by simp, hp⟩
      have hw := word_kw "MULTIPOLYGON".toList (by decide) (by decide)
        (items ((p :: ps).map (polyText fmt)) ++ [')'])
      have hlen : ∀ x ∈ p :: ps, (polyText fmt x).length ≤ fuel := by
        intro x hx
        have := items_mem_le (polyText fmt) (p :: ps) x hx
        simp [paren] at this hfuel ⊢; omega
      obtain ⟨e, he⟩ := sepTail_bad (polygonText parseNum fuel) (polyText fmt) good p ps
        (fun x hx hgx d r _ => polygonText_poly h x hgx.1 hgx.2 (hfin x hx) fuel (hlen x hx) (d :: r))
        (fun x hx hbx d r _ => polygonText_bad h x
          (by
            by_cases hx0 : x = []
            · exact Or.inl hx0
            · refine Or.inr ?_
              have : ¬ ∀ r ∈ x, r ≠ [] := fun hall => hbx ⟨hx0, hall⟩
              simpa using this)
          (hfin x hx) fuel (hlen x hx) (d :: r))
        hex [] fuel
      refine ⟨e, ?_⟩
      simp [paren] at hw he ⊢
      simp [tagged, multiPolygonText, hw, listText_paren, he, bind, Except.bind]
  | multiPoint _ => simp [supported] at hs
  | collection _ => simp [supported] at hs
  | bounds _ _ => simp [supported] at hs
  | nil => simp [supported] at hs

/-- **C17_guard_emitted**: what the encoder emits on the boundary of the guard (none of these is
OGC text by `C17_guard_exact`; note that an empty Multi* and a Multi* holding one empty member are
even mapped to the *same* text). -/
theorem C17_guard_emitted (fmt : F → List Char) :
    encode fmt (.lineString []) = .ok "LINESTRING()".toList ∧
    encode fmt (.polygon []) = .ok "POLYGON()".toList ∧
    encode fmt (.polygon [[]]) = .ok "POLYGON(())".toList ∧
    encode fmt (.multiLineString []) = .ok "MULTILINESTRING(())".toList ∧
    encode fmt (.multiLineString [[]]) = .ok "MULTILINESTRING(())".toList ∧
    encode fmt (.multiPolygon []) = .ok "MULTIPOLYGON(())".toList ∧
    encode fmt (.multiPolygon [[]]) = .ok "MULTIPOLYGON(())".toList ∧
    encode fmt (.multiPolygon [[[]]]) = .ok "MULTIPOLYGON((()))".toList := by
  refine ⟨rfl, rfl, rfl, rfl, rfl, rfl, rfl, rfl⟩

/-- **C17_injective** (corollary of `C17_roundtrip`): on the guarded domain the text determines the
geometry — two supported, finite geometries with at least one vertex per member and the same WKT text
are equal (type, nesting and coordinates), whatever formatter satisfies the contract. -/
theorem C17_injective (h : NumFmt fin fmt parseNum) (g₁ g₂ : Geom F)
    (hs₁ : supported g₁ = true) (hne₁ : everyMemberNonEmpty g₁ = true) (hf₁ : allFinite fin g₁ = true)
    (hs₂ : supported g₂ = true) (hne₂ : everyMemberNonEmpty g₂ = true) (hf₂ : allFinite fin g₂ = true)
    (he : encode fmt g₁ = encode fmt g₂) : g₁ = g₂ := by
  obtain ⟨t₁, e₁, p₁⟩ := C17_roundtrip h g₁ hs₁ hne₁ hf₁
  obtain ⟨t₂, e₂, p₂⟩ := C17_roundtrip h g₂ hs₂ hne₂ hf₂
  rw [e₁, e₂] at he
  have : t₁ = t₂ := by injection he
  subst this
  rw [p₁] at p₂
  injection p₂

/-! ### Non-vacuity -/

/-- the contract is satisfiable (`C17_numfmt_int`), so `C17_roundtrip` is not vacuous: an instance -/
example : ∃ txt, encode intFmt (.multiPolygon [[[⟨0, -12⟩, ⟨305, 7⟩], [⟨1, 1⟩]], [[⟨-40, 5⟩]]]) = .ok txt ∧
    parse intOfLit txt = .ok (.multiPolygon [[[⟨0, -12⟩, ⟨305, 7⟩], [⟨1, 1⟩]], [[⟨-40, 5⟩]]]) :=
  C17_roundtrip C17_numfmt_int _ rfl rfl rfl

/-- the guard hypotheses are satisfiable and refutable -/
example : everyMemberNonEmpty (.multiLineString [[(⟨1, 2⟩ : Pt Int)], []]) = false := rfl
example : ∃ txt, encode intFmt (.multiLineString [[⟨1, 2⟩], []]) = .ok txt ∧
    ∀ g', parse intOfLit txt ≠ .ok g' :=
  C17_guard_exact C17_numfmt_int _ rfl rfl rfl

end GeomV.C17
