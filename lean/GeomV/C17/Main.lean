import GeomV.C17.Model
import GeomV.C17.Spec
import GeomV.C17.GoFmt
import Std.Data.HashMap
/-!
Driver for C17.  `geomv_c17 judge` reads lines

  enc <geom tokens> => ok x<hex of the bytes wkt.Encode returned> | <bits> <'g' rendering> ...
  enc <geom tokens> => err | ...

(the pairs after `|` are Go's own `strconv.AppendFloat(x,'g',-1,64)` rendering of every coordinate,
so that the model's `fmt` is Go's and the byte comparison isolates the *structure*) and prints

  OK <class>            model, spec and implementation agree
  DIFF <class> <why>    implementation's bytes differ from the model's
  SPEC <class> <why>    the independent OGC parser (numbers by exact round-to-nearest-even) does not
                        return the input geometry from the REAL output / wrong error behaviour
-/
namespace GeomV.C17
open GeomV GeomV.C17.Ogc

def geomClass : BGeom → String
  | .point _ => "point" | .multiPoint _ => "multipoint" | .lineString _ => "linestring"
  | .multiLineString _ => "multilinestring" | .polygon _ => "polygon" | .multiPolygon _ => "multipolygon"
  | .collection _ => "collection" | .bounds _ _ => "bounds" | .nil => "nil"

def pairsOf : Tok → List (UInt64 × List Char)
  | b :: r :: t => match parseU64 b with
    | some u => (u, r.toList) :: pairsOf t
    | none => pairsOf t
  | _ => []

def hexToChars (h : String) : Option (List Char) :=
  (hexToBytes h).map fun bs => bs.map fun b => Char.ofNat b.toNat

def showErr : PErr → String
  | .expected w => "expected-" ++ (if w = ", or )" then "comma-or-rparen" else if w = "(" then "lparen" else if w = ")" then "rparen" else w)
  | .badNumber => "bad-number" | .unknownKeyword => "unknown-keyword" | .emptyPoint => "empty-point"
  | .trailing => "trailing-text" | .fuel => "fuel"

/-- split a token list at the separator `;` -/
def splitSemi (t : Tok) : List Tok :=
  let rec go : Tok → Tok → List Tok → List Tok
    | [], cur, acc => (cur.reverse :: acc).reverse
    | x :: r, cur, acc => if x = ";" then go r [] (cur.reverse :: acc) else go r (x :: cur) acc
  go t [] []

def pGeoms : Nat → Tok → Option (List BGeom)
  | 0, _ => some []
  | n+1, t => do let (g, t) ← Proto.pGeom 64 t; let gs ← pGeoms n t; pure (g :: gs)

/-- one element of a batch: the immediate copy and the kept slice after the whole batch -/
def judgeKept (g : BGeom) (res : Tok) : Option String :=
  let inGuard := supported g && everyMemberNonEmpty g && allFinite Dec.isFiniteBits g
  match res with
  | ["err"] => if supported g && inGuard then some "encoder-rejected-supported-type" else none
  | ["ok", c, k] =>
    match hexToChars ((c.drop 1).toString), hexToChars ((k.drop 1).toString) with
    | some ctxt, some ktxt =>
      if !supported g then some "unsupported-type-was-encoded"
      else if ctxt != ktxt then
        some s!"encode-result-aliased: returned={String.ofList ctxt} after-later-calls={String.ofList ktxt}"
      else if inGuard then
        match parse Dec.toBits ktxt with
        | .error e => some s!"kept-result-rejected-by-OGC-parser:{showErr e}"
        | .ok g' => if Geom.beq g' g then none else some "kept-result-parses-to-different-geometry"
      else none
    | _, _ => some "bad-hex"
  | _ => some ("encoder-" ++ " ".intercalate res)

/-- the error report `<kind> <Type.String()> x<hex of Error()> <len of returned bytes>` against the model:
an `*UnsupportedGeometryError` naming the dynamic type, message per wkt.go, no bytes returned -/
def errInfoDiff (typeName : String) (einfo : Tok) : Option String :=
  match einfo with
  | [kind, ty, msg, nbuf] =>
    if kind != "unsupported" then some s!"error-is-not-UnsupportedGeometryError:{kind}"
    else if ty != typeName then some s!"error-names-type {ty} want {typeName}"
    else if nbuf != "0" then some s!"bytes-returned-together-with-the-error:{nbuf}"
    else if typeName == "nil" then none
    else match hexToChars ((msg.drop 1).toString) with
      | some t => if String.ofList t == errorText typeName then none
                  else some s!"error-text {String.ofList t} want {errorText typeName}"
      | none => some "bad-hex-in-error-text"
  | _ => some ("error-report-" ++ " ".intercalate einfo)

def judgeSeq (line : String) : String :=
  let (lhs, rhs) := splitArrow (tokens line)
  match lhs with
  | "enc" :: gt =>
    match Proto.pGeom 64 gt with
    | none => "BAD parse"
    | some (g, _) =>
      let res := rhs.takeWhile (· ≠ "|")
      let table := pairsOf (rhs.drop (res.length + 1))
      let hm : Std.HashMap UInt64 (List Char) := Std.HashMap.ofList table
      let fmt : UInt64 → List Char := fun b => (hm.get? b).getD ['?']
      let fin := allFinite Dec.isFiniteBits g
      let guard := everyMemberNonEmpty g
      let cls := "enc-" ++ geomClass g ++ (if !guard then "-emptymember" else "") ++ (if !fin then "-nonfinite" else "")
      let m := encode fmt g
      match res with
      | "err" :: einfo =>
        if supported g && guard && fin then s!"SPEC {cls} encoder-rejected-supported-type"
        else if supported g then s!"DIFF {cls} model-encodes-impl-errs (outside the statement: empty member / non-finite)"
        else if m.isOk then s!"DIFF {cls} model-encodes-impl-errs"
        else match errInfoDiff (goTypeName g) einfo with
          | some why => s!"DIFF {cls} {why}"
          | none => s!"OK {cls}-unsupported"
      | "inputmodified" :: _ => s!"DIFF {cls} encode-modified-its-argument"
      | ["ok", h] =>
        match hexToChars ((h.drop 1).toString) with
        | none => "BAD hex"
        | some txt =>
          if !supported g then s!"SPEC {cls} unsupported-type-was-encoded-as {String.ofList txt}"
          else
            -- the strconv contract, checked on every finite coordinate that occurs
            let contractBad := table.filter fun (b, _) => Dec.isFiniteBits b && !numFmtHolds fmt Dec.toBits b
            -- T2 tie of the layout model `goFmtG` (GoFmt.lean, hypotheses of C17_goG_passes/_shortest): Go's own
            -- rendering of every finite coordinate is the 'g'/shortest layout of its own digits
            let layoutBad := table.filter fun (b, r) => Dec.isFiniteBits b && !isGoLayout r
            let specVerdict : Option String :=
              if guard && fin then
                match parse Dec.toBits txt with
                | .error e => some s!"OGC-parser-rejects-output:{showErr e}"
                | .ok g' =>
                  if !(Geom.beq g' g) then some s!"parses-to-different-geometry got={Proto.geomStr g'}"
                  else if (numTokens txt).any (fun t => match Dec.parseLit t with | some l => !Dec.isShortest l | none => true)
                  then some "number-not-shortest-round-trip-form"
                  else none
              else none
            match specVerdict with
            | some why => s!"SPEC {cls} {why}"
            | none =>
              if !contractBad.isEmpty then s!"DIFF {cls} strconv-contract-NumFmt-fails-on {u64Hex (contractBad.headD (0, [])).1}"
              else if !layoutBad.isEmpty then s!"DIFF {cls} strconv-rendering-is-not-the-formatDigits-layout-goFmtG-of-its-digits {u64Hex (layoutBad.headD (0, [])).1}"
              else match m with
              | .ok mt =>
                if mt == txt then s!"OK {cls}"
                else s!"DIFF {cls} model-text-differs want={String.ofList mt} got={String.ofList txt}"
              | .error _ => s!"DIFF {cls} model-errs-impl-encodes"
      | _ => s!"SPEC {cls} encoder-{" ".intercalate res}"
  | "encp" :: gt =>
    -- a pointer to a geometry value (`*geom.Point`, …): a type `Encode` does not list.  The statement
    -- demands "rejected with an error rather than mis-encoded": an error is right (compared with the
    -- model: `*T` named), a text must at least be the pointee's (SPEC otherwise) and differs from the model.
    match Proto.pGeom 64 gt with
    | none => "BAD parse"
    | some (g, _) =>
      let res := rhs.takeWhile (· ≠ "|")
      let cls := "encptr-" ++ geomClass g
      match res with
      | "err" :: einfo =>
        match errInfoDiff ("*" ++ goTypeName g) einfo with
        | some why => s!"DIFF {cls} {why}"
        | none => s!"OK {cls}-unsupported"
      | ["ok", h] =>
        match hexToChars ((h.drop 1).toString) with
        | none => "BAD hex"
        | some txt =>
          match parse Dec.toBits txt with
          | .ok g' => if Geom.beq g' g then s!"DIFF {cls} model-errs-impl-encodes-the-pointee"
                      else s!"SPEC {cls} unlisted-type-mis-encoded-as {String.ofList txt}"
          | .error _ => s!"SPEC {cls} unlisted-type-mis-encoded-as {String.ofList txt}"
      | "inputmodified" :: _ => s!"DIFF {cls} encode-modified-its-argument"
      | _ => s!"SPEC {cls} encoder-{" ".intercalate res}"
  | "batch" :: n :: gt =>
    match n.toNat? with
    | none => "BAD batch"
    | some k =>
      match pGeoms k gt with
      | none => "BAD parse"
      | some gs =>
        let rs := splitSemi (rhs.takeWhile (· ≠ "|"))
        if rs.length != gs.length then s!"SPEC batch harness-result-{" ".intercalate rhs}"
        else
          let bad := (gs.zip rs).zipIdx.filterMap fun ((g, r), i) => (judgeKept g r).map fun w => s!"call#{i}({geomClass g}):{w}"
          match bad with
          | [] => s!"OK batch"
          | w :: _ => s!"SPEC batch {w}"
  | ["num", t] =>
    -- cross-validation of the spec-side decimal conversion against strconv.ParseFloat
    let mine := match Dec.toBits t.toList with | some b => "ok " ++ u64Hex b | none => "err"
    let theirs := " ".intercalate (rhs.takeWhile (· ≠ "|"))
    if mine == theirs then "OK numconv" else s!"DIFF numconv driver={mine} strconv={theirs}"
  | "skip" :: _ => "OK skipped"
  | _ => "BAD line"

/-- `cc <rounds> <seed> <geom> => same|differs|argument-modified <answer> | table`: the answer of concurrent
callers (the first one that differs from the answer computed alone, else that answer) is judged exactly
like a sequential `enc` line; class prefix `conc-`. -/
def judgeLine (line : String) : String :=
  let (lhs, rhs) := splitArrow (tokens line)
  match lhs with
  | "cc" :: _ :: _ :: gt =>
    match rhs with
    | status :: ans =>
      if status == "crash" || status == "timeout" then
        s!"SPEC conc-enc the-process-died-or-hung-during-concurrent-calls {" ".intercalate (rhs.takeWhile (· ≠ "|"))}"
      else if status == "panic" then s!"SPEC conc-enc harness-{" ".intercalate (rhs.takeWhile (· ≠ "|"))}"
      else
        let v := judgeSeq (" ".intercalate ("enc" :: gt ++ ["=>"] ++ ans))
        match v.splitOn " " with
        | k :: cls :: why =>
          let why := " ".intercalate why
          if status == "argument-modified" then s!"DIFF conc-{cls} argument-modified-by-a-concurrent-call"
          else if status == "differs" then
            (if k == "OK" then s!"DIFF conc-{cls} concurrent-answer-differs-from-the-answer-computed-alone"
             else s!"{k} conc-{cls} concurrent-callers: {why}")
          else s!"{k} conc-{cls} {why}"
        | _ => s!"BAD cc {v}"
    | [] => "BAD cc"
  | op :: gt =>
    match rhs with
    | "inputmodified" :: ans =>
      -- the text is judged against the argument as it was given; an otherwise right answer is a
      -- correspondence difference (the model's Encode does not write to its argument)
      let v := judgeSeq (" ".intercalate (op :: gt ++ ["=>"] ++ ans))
      match v.splitOn " " with
      | "OK" :: cls :: _ => s!"DIFF {cls} encode-modified-its-argument"
      | _ => v
    | _ => judgeSeq line
  | _ => judgeSeq line

end GeomV.C17

open GeomV GeomV.C17 in
def main (args : List String) : IO Unit := do
  let out ← IO.getStdout
  match args with
  | ["judge"] => forEachLine fun l =>   -- one verdict per line: control characters in quoted texts become blanks
      out.putStrLn (String.ofList ((judgeLine l).toList.map fun c => if c.toNat < 32 then ' ' else c))
  | ["parse"] => forEachLine fun l =>   -- debugging aid: parse a WKT text given as a line
      out.putStrLn (match Ogc.parse Dec.toBits l.toList with
        | .ok g => "ok " ++ Proto.geomStr g
        | .error e => "error " ++ showErr e)
  | _ => IO.eprintln "usage: geomv_c17 judge|parse"
