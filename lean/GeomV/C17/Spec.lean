import GeomV.C17.Dec
/-!
# C17 specification: an independent recursive-descent parser of OGC 06-103r4 well-known text

Written from the grammar (06-103r4 §7.2.2, 2-D productions of the five types the encoder supports),
production by production, not from the Go functions:

  <point tagged text>           ::= POINT <point text>
  <linestring tagged text>      ::= LINESTRING <linestring text>
  <polygon tagged text>         ::= POLYGON <polygon text>
  <multilinestring tagged text> ::= MULTILINESTRING <multilinestring text>
  <multipolygon tagged text>    ::= MULTIPOLYGON <multipolygon text>
  <point text>           ::= <empty set> | <left paren> <point> <right paren>
  <linestring text>      ::= <empty set> | <left paren> <point> {<comma> <point>}* <right paren>
  <polygon text>         ::= <empty set> | <left paren> <linestring text> {<comma> <linestring text>}* <right paren>
  <multilinestring text> ::= <empty set> | <left paren> <linestring text> {<comma> <linestring text>}* <right paren>
  <multipolygon text>    ::= <empty set> | <left paren> <polygon text> {<comma> <polygon text>}* <right paren>
  <point>     ::= <x> <y>            <x>, <y> ::= <signed numeric literal>
  <empty set> ::= EMPTY

Tokens may be separated by white space; keywords and the exponent letter are case-insensitive (the
grammar is SQL-derived).  A number token is the maximal run of characters of the numeric alphabet
`[0-9+-.eE]`; it is handed to `parseNum` (parameter), which decides whether it is a
`<signed numeric literal>` and what it denotes.  The concrete instance used on the real encoder
output is `Dec.toBits` (exact round-to-nearest-even to binary64).  Core Lean only.
-/
namespace GeomV.C17.Ogc
open GeomV

inductive PErr
  | expected (what : String)
  | badNumber
  | unknownKeyword
  | emptyPoint     -- `POINT EMPTY` is grammatical but is not a value of the Go type geom.Point
  | trailing
  | fuel
deriving DecidableEq, Repr, Inhabited

def isWs (c : Char) : Bool := c = ' ' || c = '\t' || c = '\n' || c = '\r'
def isNumChar (c : Char) : Bool :=
  ('0' ≤ c && c ≤ '9') || c = '+' || c = '-' || c = '.' || c = 'e' || c = 'E'
def isLetter (c : Char) : Bool := ('a' ≤ c && c ≤ 'z') || ('A' ≤ c && c ≤ 'Z')
def upper (c : Char) : Char := if 'a' ≤ c && c ≤ 'z' then Char.ofNat (c.toNat - 32) else c

def skipWs (s : List Char) : List Char := s.dropWhile isWs

/-- one punctuation token -/
def lit (c : Char) (s : List Char) : Except PErr (List Char) :=
  match skipWs s with
  | d :: r => if d = c then .ok r else .error (.expected (String.singleton c))
  | [] => .error (.expected (String.singleton c))

/-- a (possibly empty) run of letters, upper-cased, and the rest -/
def word (s : List Char) : List Char × List Char :=
  let s := skipWs s
  ((s.takeWhile isLetter).map upper, s.dropWhile isLetter)

section
variable {F : Type} (parseNum : List Char → Option F)

/-- `<signed numeric literal>` -/
def number (s : List Char) : Except PErr (F × List Char) :=
  let s := skipWs s
  let tok := s.takeWhile isNumChar
  if tok.isEmpty then .error (.expected "number")
  else match parseNum tok with
    | some x => .ok (x, s.dropWhile isNumChar)
    | none => .error .badNumber

/-- `<point> ::= <x> <y>` -/
def point (s : List Char) : Except PErr (Pt F × List Char) := do
  let (x, s) ← number parseNum s
  let (y, s) ← number parseNum s
  pure (⟨x, y⟩, s)

/-- `item {<comma> item}* <right paren>` (the left parenthesis has been consumed).
`fuel` bounds the number of items (the input length always suffices). -/
def sepTail {β : Type} (item : List Char → Except PErr (β × List Char)) :
    Nat → List Char → Except PErr (List β × List Char)
  | 0, _ => .error .fuel
  | n+1, s => do
    let (a, s) ← item s
    match skipWs s with
    | ',' :: r => do
      let (as, r) ← sepTail item n r
      pure (a :: as, r)
    | ')' :: r => pure ([a], r)
    | _ => .error (.expected ", or )")

/-- `<empty set> | <left paren> item {<comma> item}* <right paren>` -/
def listText {β : Type} (item : List Char → Except PErr (β × List Char)) (fuel : Nat)
    (s : List Char) : Except PErr (List β × List Char) :=
  let (w, r) := word s
  if w = "EMPTY".toList then .ok ([], r)
  else do
    let s ← lit '(' s
    sepTail item fuel s

def lineStringText (fuel : Nat) := listText (point parseNum) fuel
def polygonText (fuel : Nat) := listText (lineStringText parseNum fuel) fuel
def multiLineStringText (fuel : Nat) := listText (lineStringText parseNum fuel) fuel
def multiPolygonText (fuel : Nat) := listText (polygonText parseNum fuel) fuel

/-- `<point text>` -/
def pointText (s : List Char) : Except PErr (Pt F × List Char) :=
  let (w, _) := word s
  if w = "EMPTY".toList then .error .emptyPoint
  else do
    let s ← lit '(' s
    let (p, s) ← point parseNum s
    let s ← lit ')' s
    pure (p, s)

/-- `<geometry tagged text>` restricted to the five types -/
def tagged (fuel : Nat) (s : List Char) : Except PErr (Geom F × List Char) :=
  let (kw, r) := word s
  if kw = "POINT".toList then do
    let (p, r) ← pointText parseNum r; pure (.point p, r)
  else if kw = "LINESTRING".toList then do
    let (p, r) ← lineStringText parseNum fuel r; pure (.lineString p, r)
  else if kw = "POLYGON".toList then do
    let (p, r) ← polygonText parseNum fuel r; pure (.polygon p, r)
  else if kw = "MULTILINESTRING".toList then do
    let (p, r) ← multiLineStringText parseNum fuel r; pure (.multiLineString p, r)
  else if kw = "MULTIPOLYGON".toList then do
    let (p, r) ← multiPolygonText parseNum fuel r; pure (.multiPolygon p, r)
  else .error .unknownKeyword

/-- a complete WKT document: one tagged text, nothing but white space after it -/
def parse (s : List Char) : Except PErr (Geom F) := do
  let (g, r) ← tagged parseNum s.length s
  if (skipWs r).isEmpty then pure g else .error .trailing

end

/-! ## The statement's guard and the `strconv` contract -/

/-- the five types `wkt.Encode` supports -/
def supported {F : Type} : Geom F → Bool
  | .point _ | .lineString _ | .multiLineString _ | .polygon _ | .multiPolygon _ => true
  | _ => false

/-- "member counts ≥ 1 and at least one vertex per member" -/
def everyMemberNonEmpty {F : Type} : Geom F → Bool
  | .point _ => true
  | .lineString ps => !ps.isEmpty
  | .multiLineString ls => !ls.isEmpty && ls.all (fun l => !l.isEmpty)
  | .polygon rs => !rs.isEmpty && rs.all (fun r => !r.isEmpty)
  | .multiPolygon ps => !ps.isEmpty && ps.all (fun p => !p.isEmpty && p.all (fun r => !r.isEmpty))
  | _ => true

def ptFinite {F : Type} (fin : F → Bool) (p : Pt F) : Bool := fin p.x && fin p.y

/-- every coordinate of a (non-collection) geometry satisfies `fin` -/
def allFinite {F : Type} (fin : F → Bool) : Geom F → Bool
  | .point p => ptFinite fin p
  | .multiPoint ps | .lineString ps => ps.all (ptFinite fin)
  | .multiLineString ls | .polygon ls => ls.all (·.all (ptFinite fin))
  | .multiPolygon ps => ps.all (·.all (·.all (ptFinite fin)))
  | .bounds a b => ptFinite fin a && ptFinite fin b
  | _ => true

/-- The contract of the number formatter relative to the literal parser, i.e. what C17 assumes of
`strconv.AppendFloat(…, 'g', -1, 64)` (shortest decimal that round-trips): for every finite value the
rendering is a non-empty token over the numeric alphabet (so it is delimited by the blank, comma and
parentheses the encoder puts around it) and denotes exactly that value. -/
structure NumFmt {F : Type} (fin : F → Bool) (fmt : F → List Char)
    (parseNum : List Char → Option F) : Prop where
  nonempty : ∀ x, fin x = true → fmt x ≠ []
  alphabet : ∀ x, fin x = true → ∀ c ∈ fmt x, isNumChar c = true
  roundtrip : ∀ x, fin x = true → parseNum (fmt x) = some x

/-- run-time check of the `NumFmt` fields on one value (used by the driver on every coordinate) -/
def numFmtHolds {F : Type} [DecidableEq F] (fmt : F → List Char) (parseNum : List Char → Option F)
    (x : F) : Bool :=
  !(fmt x).isEmpty && (fmt x).all isNumChar && parseNum (fmt x) == some x

/-- the number tokens of a WKT text (maximal numeric-alphabet runs after the keyword) -/
def numTokens (s : List Char) : List (List Char) :=
  let body := s.dropWhile (fun c => c != '(')
  let rec go : List Char → List Char → List (List Char) → List (List Char)
    | [], cur, acc => (if cur.isEmpty then acc else cur.reverse :: acc).reverse
    | c :: r, cur, acc =>
      if isNumChar c then go r (c :: cur) acc
      else go r [] (if cur.isEmpty then acc else cur.reverse :: acc)
  go body [] []

end GeomV.C17.Ogc
