import GeomV.C17.Proofs
import GeomV.C17.DecMono
import GeomV.C17.DecShortest
/-!
# C17 — the number clause: "exactly the same float64 coordinates"

* `C17_roundtrip_checked`  the `strconv` contract is no longer a universally quantified hypothesis: the
                     decidable per-coordinate test `numFmtHolds` (the one the driver evaluates on every
                     coordinate of every case, with Go's own rendering as `fmt`) on the coordinates that occur
                     in `g` suffices for the round trip — a proved-sound certificate check.
* `C17_roundPos_rne` the spec-side decimal→binary64 converter is IEEE 754 roundTiesToEven (nearest, ties to
                     even, `+Inf` exactly from `2^1024 − 2^970`) of the exact rational, for all `n/d > 0`.
* `C17_toBits_sound` "parses to exactly float64 `u`" means: the token is an OGC `<signed numeric literal>`
                     and `u` is the sign-and-magnitude roundTiesToEven of the rational it denotes.
* `C17_shortest_sound` "(shortest round-trip decimal form)": when the run-time test `Dec.isShortest` accepts a
                     number token, no literal with fewer significant digits converts to the same binary64.
* `C17_rne_unique`, `C17_rne_mono`  that specification determines the bit pattern, and is monotone.
-/
namespace GeomV.C17
open GeomV GeomV.C17.Ogc

variable {F : Type} [DecidableEq F] {fmt : F → List Char} {parseNum : List Char → Option F}

/-- the per-value run-time test implies the contract on the values that pass it -/
theorem numFmt_of_check (fmt : F → List Char) (parseNum : List Char → Option F) :
    NumFmt (numFmtHolds fmt parseNum) fmt parseNum where
  nonempty x h := by
    simp only [numFmtHolds, Bool.and_eq_true, Bool.not_eq_true', List.isEmpty_eq_false_iff] at h
    exact h.1.1
  alphabet x h := by
    simp only [numFmtHolds, Bool.and_eq_true, List.all_eq_true] at h
    exact h.1.2
  roundtrip x h := by
    simp only [numFmtHolds, Bool.and_eq_true, beq_iff_eq] at h
    exact h.2

/-- Round trip with the number contract discharged by the decidable per-coordinate check on the
coordinates of `g` itself (no hypothesis about `fmt`/`parseNum` on other values). -/
theorem C17_roundtrip_checked (g : Geom F) (hs : supported g = true)
    (hg : everyMemberNonEmpty g = true) (hc : allFinite (numFmtHolds fmt parseNum) g = true) :
    ∃ txt, encode fmt g = .ok txt ∧ parse parseNum txt = .ok g :=
  C17_roundtrip (numFmt_of_check fmt parseNum) g hs hg hc

/-- `Dec.roundPos` is IEEE 754 roundTiesToEven -/
theorem C17_roundPos_rne (n d : Nat) (hn : 0 < n) (hd : 0 < d) :
    Dec.IsRNE ((n : ℚ) / d) (Dec.roundPos n d) := Dec.roundPos_isRNE n d hn hd

/-- meaning of a successful `Dec.toBits` -/
theorem C17_toBits_sound (s : List Char) (u : UInt64) (h : Dec.toBits s = some u) :
    ∃ l, Dec.parseLit s = some l ∧
      (u.toNat / 2 ^ 63 = if l.neg then 1 else 0) ∧
      (l.mant = 0 → u.toNat % 2 ^ 63 = 0) ∧
      (l.mant ≠ 0 → Dec.IsRNE (Dec.magVal l) (u.toNat % 2 ^ 63)) := Dec.toBits_sound s u h

theorem C17_rne_unique {q : ℚ} {b b' : Nat} (h : Dec.IsRNE q b) (h' : Dec.IsRNE q b') : b = b' :=
  h.unique h'

theorem C17_rne_mono {q q' : ℚ} {b b' : Nat} (hq : q ≤ q') (h : Dec.IsRNE q b) (h' : Dec.IsRNE q' b') :
    b ≤ b' := Dec.IsRNE.mono hq h h'

/-- soundness of the shortest-form test applied to every number token of every encoder output -/
theorem C17_shortest_sound (l : Dec.Lit) (h : Dec.isShortest l = true)
    (hs : (Dec.normLit l).scale.natAbs < 5000) (l' : Dec.Lit) (p : ℕ) (hpos : 0 < l'.mant)
    (hlt : l'.mant < 10 ^ p) (hle : 10 ^ p ≤ (Dec.normLit l).mant) (u : UInt64)
    (hu' : Dec.litToBits l' = some u) :
    Dec.litToBits (Dec.normLit l) ≠ some u ∧ Dec.magVal (Dec.normLit l) = Dec.magVal l :=
  ⟨Dec.isShortest_sound l h hs l' p hpos hlt hle u hu', (Dec.magVal_normLit l).1⟩

/-! non-vacuity: concrete instances -/
example : (Dec.parseLit "0.30000000000000004".toList).map Dec.isShortest = some true := by decide +kernel
example : (Dec.parseLit "0.10000000000000001".toList).map Dec.isShortest = some false := by decide +kernel
example : (Dec.parseLit "0.30000000000000004".toList).map (fun l => decide ((Dec.normLit l).scale.natAbs < 5000)) = some true := by
  decide +kernel
example : Dec.toBits "0.1".toList = some 0x3fb999999999999a := by decide +kernel
example : Dec.toBits "1e+21".toList = some 0x444b1ae4d6e2ef50 := by decide +kernel
example : Dec.toBits "-5e-324".toList = some 0x8000000000000001 := by decide +kernel
example : Dec.toBits "1.7976931348623159e308".toList = some 0x7ff0000000000000 := by decide +kernel
example : numFmtHolds (fun _ : UInt64 => "0.1".toList) Dec.toBits 0x3fb999999999999a = true := by
  decide +kernel
example : ∃ txt, encode (fun _ : UInt64 => "0.1".toList) (.point ⟨0x3fb999999999999a, 0x3fb999999999999a⟩) = .ok txt ∧
    parse Dec.toBits txt = .ok (.point ⟨0x3fb999999999999a, 0x3fb999999999999a⟩) :=
  C17_roundtrip_checked _ rfl rfl (by decide +kernel)

end GeomV.C17
