import GeomV.C17.DecProofs
import Mathlib.Order.Monotone.Basic
/-!
# `valPos` is strictly increasing; roundTiesToEven is unique and monotone

Consequences of `DecProofs`: the specification `IsRNE q ·` determines the pattern (so `roundPos` is *the*
IEEE rounding, not merely *a* nearest value), and rounding is monotone in the rational — the fact behind
the shortest-literal test `Dec.isShortest`.
-/
namespace GeomV.Dec

/-- unit in the last place of pattern `b` -/
def ulp (b : Nat) : ℚ := (2 : ℚ) ^ ((max (b / 2 ^ 52) 1 : ℕ) - 1075 : ℤ)

theorem ulp_pos (b : Nat) : 0 < ulp b := two_zpow_pos _

theorem valPos_succ (b : Nat) : valPos (b + 1) = valPos b + ulp b := by
  have hdm : b = (b / 2 ^ 52) * 2 ^ 52 + b % 2 ^ 52 := by omega
  have hr : b % 2 ^ 52 < 2 ^ 52 := Nat.mod_lt _ (by norm_num)
  unfold ulp
  generalize hkc : b / 2 ^ 52 = k at *
  generalize hrr : b % 2 ^ 52 = r at *
  by_cases hk : k = 0
  · subst hk
    have hb : b = r := by omega
    have hexp : (((max 0 1 : ℕ) : ℤ) - 1075) = -1074 := by norm_num
    rw [hb, valPos_sub r hr, hexp]
    by_cases hr1 : r + 1 < 2 ^ 52
    · rw [valPos_sub (r + 1) hr1]; generalize (2 : ℚ) ^ (-1074 : ℤ) = P; push_cast; ring
    · have : r + 1 = 1 * 2 ^ 52 + 0 := by omega
      rw [this, valPos_norm 1 0 (le_refl _) (by norm_num)]
      have hrq : (r : ℚ) = 2 ^ 52 - 1 := by
        have : r = 2 ^ 52 - 1 := by omega
        rw [this]; norm_num
      have hexp' : (((1 : ℕ) : ℤ) - 1075) = -1074 := by norm_num
      rw [hrq, hexp']; generalize (2 : ℚ) ^ (-1074 : ℤ) = P; push_cast; ring
  · have hk1 : 1 ≤ k := by omega
    have hmax : max k 1 = k := by omega
    rw [hmax, hdm, valPos_norm k r hk1 hr]
    by_cases hr1 : r + 1 < 2 ^ 52
    · rw [show k * 2 ^ 52 + r + 1 = k * 2 ^ 52 + (r + 1) by ring, valPos_norm k (r + 1) hk1 hr1]
      push_cast; ring
    · have : k * 2 ^ 52 + r + 1 = (k + 1) * 2 ^ 52 + 0 := by omega
      rw [this, valPos_norm (k + 1) 0 (by omega) (by norm_num)]
      have hrq : (r : ℚ) = 2 ^ 52 - 1 := by
        have : r = 2 ^ 52 - 1 := by omega
        rw [this]; norm_num
      have hz : (2 : ℚ) ^ (((k + 1 : ℕ) : ℤ) - 1075) = 2 * (2 : ℚ) ^ ((k : ℤ) - 1075) := by
        rw [show (((k + 1 : ℕ) : ℤ) - 1075) = ((k : ℤ) - 1075) + 1 by push_cast; ring,
          zpow_add_one₀ (by norm_num)]; ring
      rw [hz]; push_cast; rw [hrq]; ring

theorem valPos_strictMono : StrictMono valPos :=
  strictMono_nat_of_lt_succ fun b => by rw [valPos_succ]; linarith [ulp_pos b]

theorem valPos_injective : Function.Injective valPos := valPos_strictMono.injective

theorem valPos_nonneg (b : Nat) : 0 ≤ valPos b := by
  unfold valPos; split <;> positivity

/-- IEEE roundTiesToEven is a function: the specification determines the pattern -/
theorem IsRNE.unique {q : ℚ} {b b' : Nat} (h : IsRNE q b) (h' : IsRNE q b') : b = b' := by
  by_cases hi : b = infBits
  · rw [hi]; exact (h'.overflow.mpr (h.overflow.mp hi)).symm
  by_cases hi' : b' = infBits
  · exact absurd (h.overflow.mpr (h'.overflow.mp hi')) hi
  have hf : b < infBits := lt_of_le_of_ne h.le_inf hi
  have hf' : b' < infBits := lt_of_le_of_ne h'.le_inf hi'
  have e : |q - valPos b| = |q - valPos b'| :=
    le_antisymm (h.nearest hf b' hf') (h'.nearest hf' b hf)
  by_contra hne
  have hvne : valPos b' ≠ valPos b := fun hv => hne (valPos_injective hv).symm
  have ev := h.ties_even hf b' hf' e hvne
  have ev' := h'.ties_even hf' b hf e.symm hvne.symm
  -- two distinct even patterns: the odd one between them is strictly nearer
  wlog hlt : b < b' generalizing b b'
  · exact this h' h hi' hi hf' hf e.symm (Ne.symm hne) hvne.symm ev' ev (by omega)
  have h1 : b < b + 1 := Nat.lt_succ_self b
  have h2 : b + 1 < b' := by omega
  have v1 := valPos_strictMono h1
  have v2 := valPos_strictMono h2
  have n1 := h.nearest hf (b + 1) (by omega)
  -- q is the midpoint of valPos b and valPos b'
  have hmid : q - valPos b = valPos b' - q := by
    rcases abs_eq_abs.mp e with h3 | h3
    · exfalso; apply hvne; linarith
    · linarith
  rw [abs_of_nonneg (show 0 ≤ q - valPos b by linarith)] at n1
  have : |q - valPos (b + 1)| < q - valPos b := by
    rw [abs_lt]; constructor <;> linarith
  linarith

/-- rounding is monotone -/
theorem IsRNE.mono {q q' : ℚ} {b b' : Nat} (hq : q ≤ q') (h : IsRNE q b) (h' : IsRNE q' b') : b ≤ b' := by
  by_contra hlt
  have hlt := not_le.mp hlt
  by_cases hi : b = infBits
  · have := h'.overflow.mpr (le_trans (h.overflow.mp hi) hq)
    omega
  have hf : b < infBits := lt_of_le_of_ne h.le_inf hi
  have hf' : b' < infBits := lt_trans hlt hf
  have hv := valPos_strictMono hlt
  have n1 := h.nearest hf b' hf'
  have n2 := h'.nearest hf' b hf
  -- q ≥ midpoint ≥ q'
  have m1 : valPos b + valPos b' ≤ 2 * q := by
    by_contra hc; have hc := not_le.mp hc
    have : |q - valPos b'| < |q - valPos b| := by
      rcases le_total (valPos b') q with hle | hle
      · rw [abs_of_nonneg (by linarith), abs_of_nonpos (by linarith)]; linarith
      · rw [abs_of_nonpos (by linarith), abs_of_nonpos (by linarith)]; linarith
    linarith
  have m2 : 2 * q' ≤ valPos b + valPos b' := by
    by_contra hc; have hc := not_le.mp hc
    have : |q' - valPos b| < |q' - valPos b'| := by
      rcases le_total q' (valPos b) with hle | hle
      · rw [abs_of_nonpos (by linarith), abs_of_nonneg (by linarith)]; linarith
      · rw [abs_of_nonneg (by linarith), abs_of_nonneg (by linarith)]; linarith
    linarith
  have : q = q' := by linarith
  subst this
  have := h.unique h'
  omega

end GeomV.Dec
