import GeomV.C17.Model
/-!
REGENERATED on every run of `bin/check C17` by checks/c17_go2lean.py from
/repo/encoding/wkt/{point,linestring,polygon,multilinestring,multipolygon,encode,wkt}.go — do not edit.
`GeomV/C17/Tie.lean` proves these definitions equal to the hand-written model, so the C17 theorems
are re-checked against what the source says now.
-/
namespace GeomV.C17.Gen
open GeomV
variable {F : Type}

def appendPointCoords (fmt : F → List Char) (dst : List Char) (point : Pt F) : List Char :=
  let dst := dst ++ fmt point.x
  let dst := dst ++ [' ']
  let dst := dst ++ fmt point.y
  dst

def appendPointsCoords_loop1 (fmt : F → List Char) (n : Nat) : Nat → List Char → List (Pt F) → List Char
  | _, dst, [] => dst
  | i, dst, point :: rest =>
    let dst := if i ≠ 0 then (let dst := dst ++ [',']; dst) else dst
    let dst := appendPointCoords fmt dst point
    appendPointsCoords_loop1 fmt n (i+1) dst rest

def appendPointsCoords (fmt : F → List Char) (dst : List Char) (points : List (Pt F)) : List Char :=
  let dst := appendPointsCoords_loop1 fmt points.length 0 dst points
  dst

def appendPointssCoords_loop1 (fmt : F → List Char) (n : Nat) : Nat → List Char → List (List (Pt F)) → List Char
  | _, dst, [] => dst
  | i, dst, points :: rest =>
    let dst := if i ≠ 0 then (let dst := dst ++ [',']; dst) else dst
    let dst := dst ++ ['(']
    let dst := appendPointsCoords fmt dst points
    let dst := dst ++ [')']
    appendPointssCoords_loop1 fmt n (i+1) dst rest

def appendPointssCoords (fmt : F → List Char) (dst : List Char) (pointss : List (List (Pt F))) : List Char :=
  let dst := appendPointssCoords_loop1 fmt pointss.length 0 dst pointss
  dst

def appendPointWKT (fmt : F → List Char) (dst : List Char) (point : Pt F) : List Char :=
  let dst := dst ++ "POINT(".toList
  let dst := appendPointCoords fmt dst point
  let dst := dst ++ [')']
  dst

def appendLineStringWKT (fmt : F → List Char) (dst : List Char) (lineString : List (Pt F)) : List Char :=
  let dst := dst ++ "LINESTRING(".toList
  let dst := appendPointsCoords fmt dst lineString
  let dst := dst ++ [')']
  dst

def appendPolygonWKT (fmt : F → List Char) (dst : List Char) (polygon : List (List (Pt F))) : List Char :=
  let dst := dst ++ "POLYGON(".toList
  let dst := appendPointssCoords fmt dst polygon
  let dst := dst ++ [')']
  dst

def appendMultiLineStringWKT_loop1 (fmt : F → List Char) (n : Nat) : Nat → List Char → List (List (Pt F)) → List Char
  | _, dst, [] => dst
  | i, dst, ls :: rest =>
    let dst := appendPointsCoords fmt dst ls
    let dst := if i + 1 ≠ n then (let dst := dst ++ [')']; let dst := dst ++ [',']; let dst := dst ++ ['(']; dst) else dst
    appendMultiLineStringWKT_loop1 fmt n (i+1) dst rest

def appendMultiLineStringWKT (fmt : F → List Char) (dst : List Char) (multiLineString : List (List (Pt F))) : List Char :=
  let dst := dst ++ "MULTILINESTRING((".toList
  let dst := appendMultiLineStringWKT_loop1 fmt multiLineString.length 0 dst multiLineString
  let dst := dst ++ [')']
  let dst := dst ++ [')']
  dst

def appendMultiPolygonWKT_loop1 (fmt : F → List Char) (n : Nat) : Nat → List Char → List (List (List (Pt F))) → List Char
  | _, dst, [] => dst
  | i, dst, pg :: rest =>
    let dst := appendPointssCoords fmt dst pg
    let dst := if i + 1 ≠ n then (let dst := dst ++ [')']; let dst := dst ++ [',']; let dst := dst ++ ['(']; dst) else dst
    appendMultiPolygonWKT_loop1 fmt n (i+1) dst rest

def appendMultiPolygonWKT (fmt : F → List Char) (dst : List Char) (multiPolygon : List (List (List (Pt F)))) : List Char :=
  let dst := dst ++ "MULTIPOLYGON((".toList
  let dst := appendMultiPolygonWKT_loop1 fmt multiPolygon.length 0 dst multiPolygon
  let dst := dst ++ [')']
  let dst := dst ++ [')']
  dst

def encode (fmt : F → List Char) : Geom F → Except Err (List Char)
  | .point v => .ok (appendPointWKT fmt [] v)
  | .lineString v => .ok (appendLineStringWKT fmt [] v)
  | .multiLineString v => .ok (appendMultiLineStringWKT fmt [] v)
  | .polygon v => .ok (appendPolygonWKT fmt [] v)
  | .multiPolygon v => .ok (appendMultiPolygonWKT fmt [] v)
  | _ => .error .unsupported

def errorText (typeName : String) : String := "wkt: unsupported geometry type: " ++ typeName

end GeomV.C17.Gen
