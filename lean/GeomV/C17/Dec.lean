import GeomV.Common.Geom
/-!
# Exact decimal literal → IEEE-754 binary64 (round to nearest, ties to even)

Spec-side component shared by C17 (OGC WKT `<signed numeric literal>`) and C06 (RFC 8259 `number`):
the literal grammar is checked character by character and the value `±m·10^s` is rounded with exact
natural-number arithmetic, so "parses to exactly the same float64" is decided by the Lean driver
itself, independently of Go's `strconv.ParseFloat`.  Core Lean only.
-/
namespace GeomV.Dec

def isDigit (c : Char) : Bool := '0' ≤ c && c ≤ '9'

def digitsVal (ds : List Char) : Nat := ds.foldl (fun a c => a * 10 + (c.toNat - 48)) 0

/-- a decimal literal `(-1)^neg · mant · 10^scale`; `ndigits` = number of mantissa digits written -/
structure Lit where
  neg : Bool
  mant : Nat
  scale : Int
deriving Repr, DecidableEq, Inhabited

def takeSign : List Char → Bool × List Char
  | '-' :: r => (true, r)
  | '+' :: r => (false, r)
  | s => (false, s)

/-- exponent part `[eE] sign? digits` (whole rest of the token) -/
def parseExp : List Char → Option Int
  | [] => some 0
  | e :: r =>
    if e = 'e' || e = 'E' then
      let (eneg, r) := takeSign r
      let ed := r.takeWhile isDigit
      if ed.isEmpty || !(r.dropWhile isDigit).isEmpty then none
      else some (if eneg then - (digitsVal ed : Int) else (digitsVal ed : Int))
    else none

/-- OGC 06-103r4 `<signed numeric literal>`:
`{sign} ( digits {'.' {digits}} | '.' digits ) { E {sign} digits }`, letters case-insensitive.
`none` when the token is not a literal of that grammar. -/
def parseLit (s : List Char) : Option Lit :=
  let (neg, s) := takeSign s
  let ip := s.takeWhile isDigit
  let s := s.dropWhile isDigit
  let (fp, s) : List Char × List Char := match s with
    | '.' :: r => (r.takeWhile isDigit, r.dropWhile isDigit)
    | _ => ([], s)
  if ip.isEmpty && fp.isEmpty then none
  else match parseExp s with
    | none => none
    | some e => some ⟨neg, digitsVal (ip ++ fp), e - (fp.length : Int)⟩

/-- RFC 8259 `number = [ "-" ] int [ frac ] [ exp ]`, `int = "0" / digit1-9 *DIGIT`,
`frac = "." 1*DIGIT` — stricter than the OGC literal (no `+`, no leading zeros, no bare `.`) -/
def jsonNumberOk (s : List Char) : Bool :=
  let s := match s with | '-' :: r => r | _ => s
  let ip := s.takeWhile isDigit
  let s := s.dropWhile isDigit
  let intOk := match ip with | [] => false | ['0'] => true | '0' :: _ => false | _ => true
  let (fracOk, s) : Bool × List Char := match s with
    | '.' :: r => (!(r.takeWhile isDigit).isEmpty, r.dropWhile isDigit)
    | _ => (true, s)
  intOk && fracOk && (parseExp s).isSome

/-- the pair `(a, b)` with `a / b = n / d / 2^e` -/
def scaled (n d : Nat) (e : Int) : Nat × Nat :=
  if e ≥ 0 then (n, d * 2 ^ e.toNat) else (n * 2 ^ (-e).toNat, d)

/-- nearest binary64 (ties to even) of the positive rational `n / d`, as bits without sign;
overflow gives the `+Inf` pattern -/
def roundPos (n d : Nat) : Nat :=
  if n = 0 then 0 else
  let e0 : Int := (Nat.log2 n : Int) - (Nat.log2 d : Int) - 52
  let (a, b) := scaled n d e0
  let e : Int := if a < 2 ^ 52 * b then e0 - 1 else e0
  let e : Int := if e < -1074 then -1074 else e
  let (a, b) := scaled n d e
  let m := a / b
  let r := a % b
  let m := if 2 * r > b || (2 * r == b && m % 2 == 1) then m + 1 else m
  let (m, e) : Nat × Int := if m = 2 ^ 53 then (2 ^ 52, e + 1) else (m, e)
  if m < 2 ^ 52 then m
  else
    let biased := (e + 1075).toNat
    if biased ≥ 2047 then 2047 * 2 ^ 52 else biased * 2 ^ 52 + (m - 2 ^ 52)

def litToBits (l : Lit) : Option UInt64 :=
  if l.scale.natAbs > 5000 then none else
  let (n, d) : Nat × Nat := if l.scale ≥ 0 then (l.mant * 10 ^ l.scale.toNat, 1) else (l.mant, 10 ^ (-l.scale).toNat)
  let b := roundPos n d
  some (UInt64.ofNat (if l.neg then b + 2 ^ 63 else b))

/-- literal text → binary64 bit pattern (`none`: not a literal) -/
def toBits (s : List Char) : Option UInt64 := (parseLit s).bind litToBits

/-- number of decimal digits of `n` (0 for 0) -/
def ndigits (n : Nat) : Nat := if n = 0 then 0 else (Nat.toDigits 10 n).length

/-- strip trailing zeros of the mantissa into the scale -/
def normLit (l : Lit) : Lit :=
  let rec go : Nat → Nat → Int → Nat × Int
    | 0, m, s => (m, s)
    | f+1, m, s => if m ≠ 0 && m % 10 = 0 then go f (m / 10) (s + 1) else (m, s)
  let (m, s) := go 400 l.mant l.scale
  ⟨l.neg, m, s⟩

/-- `true` iff no literal with fewer significant digits rounds to the same binary64: a shorter
round-tripping decimal lies in the (convex) rounding interval together with the literal itself, hence
so does one of the two neighbours of the literal at one digit less. -/
def isShortest (l : Lit) : Bool :=
  let l := normLit l
  if ndigits l.mant ≤ 1 then true else
  let me := litToBits l
  let lo : Lit := ⟨l.neg, l.mant / 10, l.scale + 1⟩
  let hi : Lit := ⟨l.neg, l.mant / 10 + 1, l.scale + 1⟩
  litToBits lo != me && litToBits hi != me

def isFiniteBits (u : UInt64) : Bool := (u.toNat / 2 ^ 52) % 2048 != 2047

end GeomV.Dec
