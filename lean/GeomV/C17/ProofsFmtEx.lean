import GeomV.C17.ProofsFmt
import GeomV.C17.ProofsNum
/-!
# C17 — the number clause, continued (phase 4)

* `C17_shortest_sound_zero`  the zero literal as the "shorter" candidate (gap left by `C17_shortest_sound`): a number token
                       with at least two significant digits that passes `Dec.isShortest` does not convert to `±0`, so the
                       one-digit literal `0` is not a shorter spelling of it.
* `C17_goG_exists`     every finite non-zero binary64 HAS digits satisfying the hypotheses of `C17_goG_passes` (exact
                       decimal expansion; `IsRNE_self`: a representable value rounds to itself).
* `C17_numfmt_exists`, `C17_roundtrip_exists`  hence the `strconv` contract `NumFmt` is realisable on all finite float64 by a
                       formatter of `strconv`'s layout, and for it the round trip holds with no hypothesis on numbers.
* `DigSpec`, `C17_numfmt_anydigits`, `C17_roundtrip_anydigits`, `C17_digspec_exists`  the same, universally quantified over
                       digit generators: `DigSpec` is exactly what is still assumed of `ryuFtoaShortest`.
-/
namespace GeomV.Dec

/-- a literal with at least two significant digits that passes `isShortest` does not convert to `±0` -/
theorem isShortest_not_zero (l : Lit) (h : isShortest l = true) (hs : (normLit l).scale.natAbs < 5000)
    (h10 : 10 ≤ (normLit l).mant) (u : UInt64) (hu : litToBits (normLit l) = some u) :
    u.toNat % 2 ^ 63 ≠ 0 := by
  intro hz
  set L := normLit l with hL
  have hnd : ¬ ndigits L.mant ≤ 1 := fun hc => by have := ndigits_le_one _ hc; omega
  have h' : (litToBits ⟨L.neg, L.mant / 10, L.scale + 1⟩ != litToBits L &&
      litToBits ⟨L.neg, L.mant / 10 + 1, L.scale + 1⟩ != litToBits L) = true := by
    have := h
    unfold isShortest at this
    simp only [← hL, if_neg hnd] at this
    exact this
  rw [Bool.and_eq_true, bne_iff_ne, bne_iff_ne, hu] at h'
  obtain ⟨hlo, _⟩ := h'
  obtain ⟨ulo, hulo⟩ := litToBits_some ⟨L.neg, L.mant / 10, L.scale + 1⟩ (by simp only; omega)
  rw [hulo] at hlo
  have hlo' : ulo ≠ u := fun e => hlo (by rw [e])
  have rL := litToBits_mag L u hu (by omega)
  have rlo := litToBits_mag _ ulo hulo (show L.mant / 10 ≠ 0 by omega)
  have sL := litToBits_sign L u hu
  have slo := litToBits_sign _ ulo hulo
  simp only at slo
  have vlo_le : magVal ⟨L.neg, L.mant / 10, L.scale + 1⟩ ≤ magVal L := by
    unfold magVal; simp only
    rw [zpow_add₀ (by norm_num : (10 : ℚ) ≠ 0)]
    have : ((L.mant / 10 : ℕ) : ℚ) * 10 ≤ L.mant := by
      have : L.mant / 10 * 10 ≤ L.mant := Nat.div_mul_le_self _ _
      exact_mod_cast this
    have hz := (ten_zpow_pos L.scale).le
    calc ((L.mant / 10 : ℕ) : ℚ) * ((10 : ℚ) ^ L.scale * (10 : ℚ) ^ (1 : ℤ))
        = (((L.mant / 10 : ℕ) : ℚ) * 10) * (10 : ℚ) ^ L.scale := by rw [zpow_one]; ring
      _ ≤ L.mant * (10 : ℚ) ^ L.scale := mul_le_mul_of_nonneg_right this hz
  have m := IsRNE.mono vlo_le rlo rL
  exact hlo' (u64_eq_of_parts (by rw [slo, sL]) (by omega))

/-- the zero literal as the shorter candidate: a token with at least two significant digits that passes the
test is not the (one-digit) literal `0` in disguise — no zero literal converts to the same binary64 -/
theorem isShortest_sound_zero (l : Lit) (h : isShortest l = true) (hs : (normLit l).scale.natAbs < 5000)
    (h10 : 10 ≤ (normLit l).mant) (l' : Lit) (hz : l'.mant = 0) (u : UInt64) (hu' : litToBits l' = some u) :
    litToBits (normLit l) ≠ some u := by
  intro hu
  exact isShortest_not_zero l h hs h10 u hu ((litToBits_sound l' u hu').2.1 hz)

end GeomV.Dec

namespace GeomV.C17
open GeomV GeomV.Dec

/-- **C17_shortest_sound_zero** ("(shortest round-trip decimal form)", zero literal as candidate): if the run-time test
accepts a token whose normal form has at least two significant digits, no literal with mantissa 0 (`0`, `-0`, `0.0`,
`0e+00` …) converts to the same binary64 — the token is not an over-long spelling of `±0` (such as `12e-400`). -/
theorem C17_shortest_sound_zero (l : Dec.Lit) (h : Dec.isShortest l = true)
    (hs : (Dec.normLit l).scale.natAbs < 5000) (h10 : 10 ≤ (Dec.normLit l).mant) (l' : Dec.Lit) (hz : l'.mant = 0)
    (u : UInt64) (hu' : Dec.litToBits l' = some u) : Dec.litToBits (Dec.normLit l) ≠ some u :=
  Dec.isShortest_sound_zero l h hs h10 l' hz u hu'

/-! non-vacuity / sharpness: `12e-400` is rejected by the test, the one-digit `5e-325` (same digit count as `0`) is not -/
example : (Dec.parseLit "12e-400".toList).map Dec.isShortest = some false := by decide +kernel
example : (Dec.parseLit "5e-325".toList).map Dec.isShortest = some true := by decide +kernel
example : Dec.toBits "12e-400".toList = some 0 := by decide +kernel

end GeomV.C17
namespace GeomV.Dec

theorem valPos_lt_overflow (b : Nat) (hb : b < infBits) : valPos b < overflowAt := by
  have hmono : valPos b ≤ valPos (infBits - 1) := valPos_strictMono.monotone (by omega)
  have htop : valPos (infBits - 1) = (2 ^ 53 - 1) * (2 : ℚ) ^ (971 : ℤ) := by
    have h1 : (infBits - 1) / 2 ^ 52 = 2046 := by unfold infBits; norm_num
    have h2 : (infBits - 1) % 2 ^ 52 = 2 ^ 52 - 1 := by unfold infBits; norm_num
    unfold valPos
    rw [h1, h2]
    norm_num
  rw [htop] at hmono
  rw [ov1]
  have ht : (0 : ℚ) < (2 : ℚ) ^ (971 : ℤ) := two_zpow_pos _
  have : ((2 : ℚ) ^ 53 - 1) * (2 : ℚ) ^ (971 : ℤ) < (2 ^ 53 - 1 / 2) * (2 : ℚ) ^ (971 : ℤ) :=
    mul_lt_mul_of_pos_right (by norm_num) ht
  exact lt_of_le_of_lt hmono this

theorem IsRNE_self (b : Nat) (hb : b < infBits) : IsRNE (valPos b) b where
  le_inf := hb.le
  overflow := ⟨fun h => by omega, fun h => absurd (valPos_lt_overflow b hb) (not_lt.mpr h)⟩
  nearest := fun _ c _ => by simp
  ties_even := fun _ c _ h hne => by
    exfalso; apply hne
    simp only [sub_self, abs_zero] at h
    have := abs_eq_zero.mp h.symm
    linarith

end GeomV.Dec

namespace GeomV.Dec

theorem valPos_form (b : Nat) (hb : b < infBits) (h0 : 0 < b) :
    ∃ (K : Nat) (E : Int), 0 < K ∧ K < 2 ^ 53 ∧ -1074 ≤ E ∧ E ≤ 971 ∧ valPos b = (K : ℚ) * (2 : ℚ) ^ E := by
  unfold infBits at hb
  unfold valPos
  split
  · rename_i h
    refine ⟨b % 2 ^ 52, -1074, ?_, ?_, le_refl _, by norm_num, rfl⟩ <;> omega
  · rename_i h
    refine ⟨2 ^ 52 + b % 2 ^ 52, ((b / 2 ^ 52 : ℕ) : ℤ) - 1075, ?_, ?_, ?_, ?_, rfl⟩ <;> omega

theorem five_ten (j : ℕ) : ((5 : ℚ) ^ j) * (10 : ℚ) ^ (-(j : ℤ)) = (2 : ℚ) ^ (-(j : ℤ)) := by
  have h10 : (10 : ℚ) = 2 * 5 := by norm_num
  have h5 : (5 : ℚ) ^ j * (5 : ℚ) ^ (-(j : ℤ)) = 1 := by
    rw [zpow_neg, zpow_natCast]; exact mul_inv_cancel₀ (by positivity)
  rw [h10, mul_zpow]
  calc (5 : ℚ) ^ j * ((2 : ℚ) ^ (-(j : ℤ)) * (5 : ℚ) ^ (-(j : ℤ)))
      = (2 : ℚ) ^ (-(j : ℤ)) * ((5 : ℚ) ^ j * (5 : ℚ) ^ (-(j : ℤ))) := by ring
    _ = _ := by rw [h5, mul_one]

/-- every finite non-zero binary64 magnitude is a decimal `m · 10^s` exactly -/
theorem exact_decimal (b : Nat) (hb : b < infBits) (h0 : 0 < b) :
    ∃ (m : Nat) (s : Int), 0 < m ∧ m < 10 ^ 800 ∧ -1074 ≤ s ∧ s ≤ 0 ∧ 10 ^ ((-s).toNat - 400) ≤ m ∧
      (m : ℚ) * (10 : ℚ) ^ s = valPos b := by
  obtain ⟨K, E, hK0, hK, hE1, hE2, hv⟩ := valPos_form b hb h0
  rw [hv]
  by_cases hE : 0 ≤ E
  · obtain ⟨e, rfl⟩ := Int.eq_ofNat_of_zero_le hE
    refine ⟨K * 2 ^ e, 0, Nat.mul_pos hK0 (by positivity), ?_, by norm_num, le_refl _, ?_, ?_⟩
    · have he : e ≤ 971 := by omega
      calc K * 2 ^ e < 2 ^ 53 * 2 ^ 971 :=
            Nat.mul_lt_mul_of_lt_of_le hK (Nat.pow_le_pow_right (by norm_num) he) (by positivity)
        _ < 10 ^ 800 := by decide +kernel
    · have hz : (-(0 : ℤ)).toNat - 400 = 0 := by simp
      rw [hz, pow_zero]
      exact Nat.mul_pos hK0 (by positivity)
    · rw [zpow_zero, mul_one, zpow_natCast]; push_cast; ring
  · obtain ⟨j, hj⟩ := Int.eq_ofNat_of_zero_le (show 0 ≤ -E by omega)
    have hEj : E = -(j : ℤ) := by omega
    subst hEj
    refine ⟨K * 5 ^ j, -(j : ℤ), Nat.mul_pos hK0 (by positivity), ?_, hE1, by omega, ?_, ?_⟩
    · have he : j ≤ 1074 := by omega
      calc K * 5 ^ j < 2 ^ 53 * 5 ^ 1074 :=
            Nat.mul_lt_mul_of_lt_of_le hK (Nat.pow_le_pow_right (by norm_num) he) (by positivity)
        _ < 10 ^ 800 := by decide +kernel
    · have hj' : (- -(j : ℤ)).toNat = j := by omega
      rw [hj']
      have he : j ≤ 1074 := by omega
      have h5 : 10 ^ (j - 400) ≤ 5 ^ j := by
        have h2 : 2 ^ j ≤ 10 ^ 400 :=
          le_trans (Nat.pow_le_pow_right (by norm_num) he) (by decide +kernel)
        rcases Nat.lt_or_ge j 400 with hlt | hge
        · have : j - 400 = 0 := by omega
          rw [this]; exact Nat.one_le_pow _ _ (by norm_num)
        · have h10 : 10 ^ j = 10 ^ (j - 400) * 10 ^ 400 := by rw [← pow_add]; congr 1; omega
          have hmul : (5 : ℕ) ^ j * 2 ^ j = 10 ^ j := by rw [← mul_pow]; norm_num
          by_contra hc
          have hc' : 5 ^ j < 10 ^ (j - 400) := by omega
          have : 5 ^ j * 2 ^ j < 10 ^ (j - 400) * 10 ^ 400 :=
            Nat.mul_lt_mul_of_lt_of_le hc' h2 (by positivity)
          omega
      exact le_trans h5 (Nat.le_mul_of_pos_left _ hK0)
    · push_cast; rw [mul_assoc, five_ten]

end GeomV.Dec

namespace GeomV.C17
open GeomV GeomV.C17.Ogc GeomV.Dec

theorem natDigits_lt (m : Nat) : m < 10 ^ (natDigits m).length := by
  induction m using natDigits.induct with
  | case1 n h => rw [natDigits]; simp [h]
  | case2 n h ih =>
    rw [natDigits]; simp only [h, dite_false, List.length_append, List.length_singleton, pow_succ]
    omega

theorem natDigits_length_le (k : Nat) : ∀ m, m < 10 ^ (k + 1) → (natDigits m).length ≤ k + 1 := by
  induction k with
  | zero => intro m hm; rw [natDigits]; simp at hm; simp [hm]
  | succ k ih =>
    intro m hm
    rw [natDigits]
    split
    · simp
    · have : m / 10 < 10 ^ (k + 1) := by
        apply Nat.div_lt_of_lt_mul; rw [pow_succ] at hm; omega
      have := ih (m / 10) this
      simp only [List.length_append, List.length_singleton]; omega

/-- **C17_goG_exists**: for EVERY finite non-zero binary64 there are decimal digits satisfying the hypotheses of
`C17_goG_passes` (its exact decimal expansion `K·5^j·10^-j`, at most 800 digits): the contract asked of the
digit generator is satisfiable on all of float64, not just on examples. -/
theorem C17_goG_exists (x : UInt64) (hfin : isFiniteBits x = true) (hnz : x.toNat % 2 ^ 63 ≠ 0) :
    ∃ (neg : Bool) (m : Nat) (dp : Int), 0 < m ∧ dp.natAbs ≤ 900 ∧ (natDigits m).length ≤ 900 ∧
      litToBits ⟨neg, m, dp - ((natDigits m).length : Int)⟩ = some x := by
  have hx64 : x.toNat < 2 ^ 64 := x.toNat_lt
  have hb : x.toNat % 2 ^ 63 < infBits := by
    unfold isFiniteBits at hfin
    simp only [bne_iff_ne, ne_eq] at hfin
    unfold infBits
    norm_num at hfin hx64 ⊢
    omega
  obtain ⟨m, s, hm0, hm, hs1, hs2, hlow, hv⟩ := exact_decimal _ hb (Nat.pos_of_ne_zero hnz)
  have hnd : (natDigits m).length ≤ 800 := natDigits_length_le 799 m hm
  have hnd2 : (-s).toNat - 400 < (natDigits m).length :=
    (Nat.pow_lt_pow_iff_right (by norm_num : 1 < 10)).mp (lt_of_le_of_lt hlow (natDigits_lt m))
  refine ⟨decide (x.toNat / 2 ^ 63 = 1), m, s + ((natDigits m).length : Int), hm0, by omega, by omega, ?_⟩
  have hsc : s + ((natDigits m).length : Int) - ((natDigits m).length : Int) = s := by omega
  rw [hsc]
  obtain ⟨u, hu⟩ := litToBits_some ⟨decide (x.toNat / 2 ^ 63 = 1), m, s⟩ (by simp only; omega)
  have r := litToBits_mag _ u hu (show m ≠ 0 by omega)
  have sg := litToBits_sign _ u hu
  have hmv : magVal ⟨decide (x.toNat / 2 ^ 63 = 1), m, s⟩ = valPos (x.toNat % 2 ^ 63) := by
    unfold magVal; exact hv
  rw [hmv] at r
  have e := r.unique (IsRNE_self _ hb)
  rw [hu]; congr 1
  apply u64_eq_of_parts _ e
  rw [sg]; simp only [decide_eq_true_eq]
  split <;> omega

end GeomV.C17

namespace GeomV.C17
open GeomV GeomV.C17.Ogc GeomV.Dec

/-- **C17_numfmt_exists**: the `strconv` contract `NumFmt` (hypothesis of `C17_roundtrip`) is realisable on ALL
finite binary64 by a formatter of `strconv`'s shape (`formatDigits` layout of round-tripping digits), with
respect to the exact OGC literal parser `Dec.toBits` the driver uses. -/
theorem C17_numfmt_exists : ∃ fmt : UInt64 → List Char, NumFmt isFiniteBits fmt toBits ∧
    ∀ x, isFiniteBits x = true → ∃ neg ds dp, fmt x = goFmtG neg ds dp := by
  have key : ∀ x : UInt64, ∃ t : List Char, isFiniteBits x = true →
      (numFmtHolds (fun _ => t) toBits x = true ∧ ∃ neg ds dp, t = goFmtG neg ds dp) := by
    intro x
    by_cases hfin : isFiniteBits x = true
    · by_cases hnz : x.toNat % 2 ^ 63 = 0
      · have hx64 : x.toNat < 2 ^ 64 := x.toNat_lt
        have hcase : x = 0 ∨ x = 0x8000000000000000 := by
          rcases Nat.lt_or_ge x.toNat (2 ^ 63) with h | h
          · left; apply UInt64.toNat_inj.mp; simp; omega
          · right; apply UInt64.toNat_inj.mp; simp; omega
        rcases hcase with rfl | rfl
        · exact ⟨goFmtG false [] 0, fun _ => ⟨C17_goG_zero.2.2.1, _, _, _, rfl⟩⟩
        · exact ⟨goFmtG true [] 0, fun _ => ⟨C17_goG_zero.2.2.2, _, _, _, rfl⟩⟩
      · obtain ⟨neg, m, dp, hm, hdp, hnd, hrt⟩ := C17_goG_exists x hfin hnz
        exact ⟨goFmtG neg (natDigits m) dp, fun _ =>
          ⟨C17_goG_passes (fun _ => goFmtG neg (natDigits m) dp) x neg m dp rfl hm hdp hnd hrt, _, _, _, rfl⟩⟩
    · exact ⟨[], fun h => absurd h hfin⟩
  choose fmt hfmt using key
  refine ⟨fmt, ?_, fun x hx => (hfmt x hx).2⟩
  have hall : ∀ x, isFiniteBits x = true → numFmtHolds fmt toBits x = true := fun x hx => (hfmt x hx).1
  have nf := numFmt_of_check fmt toBits
  exact ⟨fun x hx => nf.nonempty x (hall x hx), fun x hx => nf.alphabet x (hall x hx),
    fun x hx => nf.roundtrip x (hall x hx)⟩

/-- **C17_roundtrip_exists** (the main clause without any hypothesis on the number formatter): there is a
formatter of `strconv`'s shape for which EVERY guarded geometry with finite binary64 coordinates round-trips
through the encoder model and the independent OGC parser with exact IEEE conversion. -/
theorem C17_roundtrip_exists : ∃ fmt : UInt64 → List Char,
    (∀ x, isFiniteBits x = true → ∃ neg ds dp, fmt x = goFmtG neg ds dp) ∧
    ∀ g : Geom UInt64, supported g = true → everyMemberNonEmpty g = true → allFinite isFiniteBits g = true →
      ∃ txt, encode fmt g = .ok txt ∧ parse toBits txt = .ok g := by
  obtain ⟨fmt, hnf, hshape⟩ := C17_numfmt_exists
  exact ⟨fmt, hshape, fun g hs hg hf => C17_roundtrip hnf g hs hg hf⟩

end GeomV.C17
namespace GeomV.C17
open GeomV GeomV.C17.Ogc GeomV.Dec

/-- What C17 still assumes of `strconv`'s digit generation (`ryuFtoaShortest`; `dig x = (sign, digits as a number, dp)`):
for every finite non-zero binary64 the digits are non-zero, within the bounds of the layout model (Go: at most 17
digits, `-323 ≤ dp ≤ 309`) and ROUND-TRIP under IEEE roundTiesToEven.  (Minimality is needed only for the
"shortest form" remark: `C17_goG_shortest`.) -/
structure DigSpec (dig : UInt64 → Bool × Nat × Int) : Prop where
  pos : ∀ x, isFiniteBits x = true → x.toNat % 2 ^ 63 ≠ 0 → 0 < (dig x).2.1
  dpBound : ∀ x, isFiniteBits x = true → x.toNat % 2 ^ 63 ≠ 0 → (dig x).2.2.natAbs ≤ 900
  ndBound : ∀ x, isFiniteBits x = true → x.toNat % 2 ^ 63 ≠ 0 → (natDigits (dig x).2.1).length ≤ 900
  roundtrip : ∀ x, isFiniteBits x = true → x.toNat % 2 ^ 63 ≠ 0 →
    litToBits ⟨(dig x).1, (dig x).2.1, (dig x).2.2 - ((natDigits (dig x).2.1).length : Int)⟩ = some x

/-- `strconv.AppendFloat(·, x, 'g', -1, 64)` as digit generation followed by `formatDigits` (zero: no digits, `dp = 0`) -/
def fmtOf (dig : UInt64 → Bool × Nat × Int) (x : UInt64) : List Char :=
  if x.toNat % 2 ^ 63 = 0 then goFmtG (decide (x.toNat / 2 ^ 63 = 1)) [] 0
  else goFmtG (dig x).1 (natDigits (dig x).2.1) (dig x).2.2

theorem zero_cases (x : UInt64) (h : x.toNat % 2 ^ 63 = 0) :
    (x = 0 ∧ decide (x.toNat / 2 ^ 63 = 1) = false) ∨ (x = 0x8000000000000000 ∧ decide (x.toNat / 2 ^ 63 = 1) = true) := by
  have hx64 : x.toNat < 2 ^ 64 := x.toNat_lt
  rcases Nat.lt_or_ge x.toNat (2 ^ 63) with h' | h'
  · left
    have : x = 0 := by apply UInt64.toNat_inj.mp; simp; omega
    subst this; exact ⟨rfl, by decide⟩
  · right
    have : x = 0x8000000000000000 := by apply UInt64.toNat_inj.mp; simp; omega
    subst this; exact ⟨rfl, by decide⟩

/-- **C17_numfmt_anydigits**: for ANY digit generator that meets `DigSpec`, digit generation followed by strconv's
layout satisfies the contract `NumFmt` on all finite binary64 with respect to the exact OGC literal parser. -/
theorem C17_numfmt_anydigits (dig : UInt64 → Bool × Nat × Int) (h : DigSpec dig) :
    NumFmt isFiniteBits (fmtOf dig) toBits := by
  have hall : ∀ x, isFiniteBits x = true → numFmtHolds (fmtOf dig) toBits x = true := by
    intro x hfin
    by_cases hz : x.toNat % 2 ^ 63 = 0
    · have hf : fmtOf dig x = goFmtG (decide (x.toNat / 2 ^ 63 = 1)) [] 0 := by unfold fmtOf; rw [if_pos hz]
      have hrw : numFmtHolds (fmtOf dig) toBits x = numFmtHolds (fun _ => fmtOf dig x) toBits x := rfl
      rw [hrw, hf]
      rcases zero_cases x hz with ⟨rfl, hd⟩ | ⟨rfl, hd⟩
      · rw [hd]; exact C17_goG_zero.2.2.1
      · rw [hd]; exact C17_goG_zero.2.2.2
    · exact C17_goG_passes (fmtOf dig) x (dig x).1 (dig x).2.1 (dig x).2.2 (by unfold fmtOf; rw [if_neg hz])
        (h.pos x hfin hz) (h.dpBound x hfin hz) (h.ndBound x hfin hz) (h.roundtrip x hfin hz)
  have nf := numFmt_of_check (fmtOf dig) toBits
  exact ⟨fun x hx => nf.nonempty x (hall x hx), fun x hx => nf.alphabet x (hall x hx),
    fun x hx => nf.roundtrip x (hall x hx)⟩

/-- **C17_roundtrip_anydigits** (main clause; the assumption about `strconv` reduced to `DigSpec`): whatever digit
generator meets `DigSpec`, every guarded geometry with finite binary64 coordinates is encoded to a text that the
independent OGC parser with exact IEEE conversion reads back as the same geometry. -/
theorem C17_roundtrip_anydigits (dig : UInt64 → Bool × Nat × Int) (h : DigSpec dig) (g : Geom UInt64)
    (hs : supported g = true) (hg : everyMemberNonEmpty g = true) (hf : allFinite isFiniteBits g = true) :
    ∃ txt, encode (fmtOf dig) g = .ok txt ∧ parse toBits txt = .ok g :=
  C17_roundtrip (C17_numfmt_anydigits dig h) g hs hg hf

/-- `DigSpec` is satisfiable (non-vacuity of the two theorems above, for all of float64) -/
theorem C17_digspec_exists : ∃ dig, DigSpec dig := by
  have key : ∀ x : UInt64, ∃ d : Bool × Nat × Int, isFiniteBits x = true → x.toNat % 2 ^ 63 ≠ 0 →
      (0 < d.2.1 ∧ d.2.2.natAbs ≤ 900 ∧ (natDigits d.2.1).length ≤ 900 ∧
        litToBits ⟨d.1, d.2.1, d.2.2 - ((natDigits d.2.1).length : Int)⟩ = some x) := by
    intro x
    by_cases hfin : isFiniteBits x = true
    · by_cases hz : x.toNat % 2 ^ 63 = 0
      · exact ⟨(false, 0, 0), fun _ h => absurd hz h⟩
      · obtain ⟨neg, m, dp, h1, h2, h3, h4⟩ := C17_goG_exists x hfin hz
        exact ⟨(neg, m, dp), fun _ _ => ⟨h1, h2, h3, h4⟩⟩
    · exact ⟨(false, 0, 0), fun h _ => absurd h hfin⟩
  choose dig hdig using key
  exact ⟨dig, ⟨fun x a b => (hdig x a b).1, fun x a b => (hdig x a b).2.1, fun x a b => (hdig x a b).2.2.1,
    fun x a b => (hdig x a b).2.2.2⟩⟩

end GeomV.C17
