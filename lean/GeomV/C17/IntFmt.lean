import GeomV.C17.Spec
/-!
Non-vacuity of the `NumFmt` contract: plain decimal rendering of integers satisfies it with respect to
the *same* literal grammar (`Dec.parseLit`) that the driver uses on the real output. Core Lean only.
-/
set_option linter.unusedSimpArgs false
set_option linter.unusedVariables false
namespace GeomV.C17
open GeomV GeomV.C17.Ogc

def digitChar (k : Nat) : Char := Char.ofNat (48 + k)

/-- decimal digits of a natural number, most significant first (`"0"` for 0) -/
def natDigits (n : Nat) : List Char :=
  if h : n < 10 then [digitChar n] else natDigits (n / 10) ++ [digitChar (n % 10)]
termination_by n
decreasing_by omega

/-- decimal rendering of an integer: optional `-`, digits -/
def intFmt (z : Int) : List Char :=
  if z < 0 then '-' :: natDigits z.natAbs else natDigits z.natAbs

/-- integers denoted by literals of the OGC grammar without fraction/exponent scaling -/
def intOfLit (s : List Char) : Option Int :=
  match Dec.parseLit s with
  | some l => if l.scale = 0 then some (if l.neg then -(l.mant : Int) else (l.mant : Int)) else none
  | none => none

theorem digitChar_props : ∀ k, k < 10 →
    Dec.isDigit (digitChar k) = true ∧ (digitChar k).toNat - 48 = k ∧ isNumChar (digitChar k) = true ∧
      digitChar k ≠ '-' ∧ digitChar k ≠ '+' := by
  decide

theorem natDigits_digits (n : Nat) : ∀ c ∈ natDigits n, Dec.isDigit c = true ∧ isNumChar c = true := by
  induction n using natDigits.induct with
  | case1 n h =>
    rw [natDigits]; simp [h]
    exact ⟨(digitChar_props n h).1, (digitChar_props n h).2.2.1⟩
  | case2 n h ih =>
    rw [natDigits]; simp [h]
    intro c hc
    rcases hc with hc | rfl
    · exact ih c hc
    · have := digitChar_props (n % 10) (Nat.mod_lt _ (by decide))
      exact ⟨this.1, this.2.2.1⟩

theorem natDigits_ne_nil (n : Nat) : natDigits n ≠ [] := by
  rw [natDigits]; split <;> simp

theorem digitsVal_append (a : List Char) (c : Char) :
    Dec.digitsVal (a ++ [c]) = Dec.digitsVal a * 10 + (c.toNat - 48) := by
  simp [Dec.digitsVal, List.foldl_append]

theorem digitsVal_natDigits (n : Nat) : Dec.digitsVal (natDigits n) = n := by
  induction n using natDigits.induct with
  | case1 n h =>
    rw [natDigits]; simp [h, Dec.digitsVal, (digitChar_props n h).2.1]
  | case2 n h ih =>
    rw [natDigits]; simp only [h, dite_false]
    rw [digitsVal_append, ih, (digitChar_props (n % 10) (Nat.mod_lt _ (by decide))).2.1]
    omega

theorem natDigits_head (n : Nat) : ∃ c cs, natDigits n = c :: cs ∧ c ≠ '-' ∧ c ≠ '+' ∧ Dec.isDigit c = true := by
  induction n using natDigits.induct with
  | case1 n h =>
    have := digitChar_props n h
    exact ⟨digitChar n, [], by rw [natDigits]; simp [h], this.2.2.2.1, this.2.2.2.2, this.1⟩
  | case2 n h ih =>
    obtain ⟨c, cs, hc, h1, h2, h3⟩ := ih
    exact ⟨c, cs ++ [digitChar (n % 10)], by rw [natDigits]; simp [h, hc], h1, h2, h3⟩

theorem takeWhile_all {α : Type} (p : α → Bool) (a : List α) (h : ∀ x ∈ a, p x = true) :
    a.takeWhile p = a := by
  induction a with
  | nil => rfl
  | cons c a ih => simp [List.takeWhile, h c (by simp), ih (fun x hx => h x (by simp [hx]))]

theorem dropWhile_all {α : Type} (p : α → Bool) (a : List α) (h : ∀ x ∈ a, p x = true) :
    a.dropWhile p = [] := by
  induction a with
  | nil => rfl
  | cons c a ih => simp [List.dropWhile, h c (by simp), ih (fun x hx => h x (by simp [hx]))]

theorem parseLit_natDigits (neg : Bool) (n : Nat) :
    Dec.parseLit ((if neg then ['-'] else []) ++ natDigits n) = some ⟨neg, n, 0⟩ := by
  obtain ⟨c, cs, hc, h1, h2, h3⟩ := natDigits_head n
  have hall : ∀ x ∈ natDigits n, Dec.isDigit x = true := fun x hx => (natDigits_digits n x hx).1
  have htw : (natDigits n).takeWhile Dec.isDigit = natDigits n := by
    exact takeWhile_all _ _ hall
  have hdw : (natDigits n).dropWhile Dec.isDigit = [] := by
    exact dropWhile_all _ _ hall
  have hsign : Dec.takeSign ((if neg then ['-'] else []) ++ natDigits n) = (neg, natDigits n) := by
    cases neg
    · simp [hc, Dec.takeSign]
      split <;> simp_all
    · simp [Dec.takeSign]
  have hne : (natDigits n).isEmpty = false := by simp [hc]
  simp only [Dec.parseLit, hsign, htw, hdw, hne]
  simp [Dec.parseExp, digitsVal_natDigits]

/-- **C17_numfmt_int** (non-vacuity of the contract): integer rendering satisfies `NumFmt` with the
driver's own literal grammar. -/
theorem C17_numfmt_int : NumFmt (fun _ : Int => true) intFmt intOfLit where
  nonempty := by
    intro z _
    unfold intFmt; split
    · simp
    · exact natDigits_ne_nil _
  alphabet := by
    intro z _ c hc
    unfold intFmt at hc; split at hc
    · rcases List.mem_cons.mp hc with rfl | hc
      · decide
      · exact (natDigits_digits _ c hc).2
    · exact (natDigits_digits _ c hc).2
  roundtrip := by
    intro z _
    unfold intFmt intOfLit
    by_cases hz : z < 0
    · have := parseLit_natDigits true z.natAbs
      simp at this
      simp [hz, this]; omega
    · have := parseLit_natDigits false z.natAbs
      simp at this
      simp [hz, this]; omega

end GeomV.C17
