/-
C11 — executable model of /repo/index/rtree/{rtree.go,geom.go} (Guttman R-tree), core Lean only.

What is kept from the Go structs: `node.leaf`, `node.level`, the order of `node.entries`, every
entry box *as stored* (never recomputed behind the code's back), `Rtree.height`, `Rtree.size`,
`MinChildren`, `MaxChildren`.  `node.parent` is replaced by the recursion path: the Go code
follows a parent link only from a node on the current insertion / condense path (adjustTree,
condenseTree), where the link is the node the recursion came from (the hook audits this link
after every operation).  Go panics are values of `Except Fault`.

The geometric heuristics enter only through the four choice functions of `Heur`; `goHeur` is
the exact `Rat` transcription of chooseNode / pickSeeds / pickNext / assignGroup.
-/
set_option linter.unusedVariables false
namespace GeomV.C11

/-- Go run-time panics that the modelled code can raise. -/
inductive Fault where
  | nilDeref     -- a nil `*node` is dereferenced (entry.child == nil where a child is needed)
  | nilObj       -- marker: Go would place a nil `geom.Geom` (entry.obj of a child entry) in a result
  | indexRange   -- slice index / slice bounds out of range
  | choice       -- a choice function answered outside its range (never happens for `goHeur`)
  | nnNil        -- the explicit `panic` of NearestNeighbor when no object was found (C12)
deriving DecidableEq, Repr

/-- `geom.Bounds` with exact coordinates. -/
structure Box where
  minX : Rat
  minY : Rat
  maxX : Rat
  maxY : Rat
deriving DecidableEq, Repr, Inhabited

namespace Box

/-- geom.go `size` -/
def size (r : Box) : Rat := (r.maxX - r.minX) * (r.maxY - r.minY)

/-- geom.go `margin` -/
def margin (r : Box) : Rat := 2 * ((r.maxX - r.minX) + (r.maxY - r.minY))

/-- geom.go `containsPoint` -/
def containsPoint (r : Box) (px py : Rat) : Bool :=
  if px < r.minX || px > r.maxX then false
  else if py < r.minY || py > r.maxY then false
  else true

/-- geom.go `enlarge` (returns the updated `r1`) -/
def enlarge (r1 r2 : Box) : Box :=
  { minX := if r1.minX > r2.minX then r2.minX else r1.minX
    maxX := if r1.maxX < r2.maxX then r2.maxX else r1.maxX
    minY := if r1.minY > r2.minY then r2.minY else r1.minY
    maxY := if r1.maxY < r2.maxY then r2.maxY else r1.maxY }

/-- geom.go `boundingBox` / `initBoundingBox` -/
def union (r1 r2 : Box) : Box := enlarge r1 r2

/-- geom.go `intersect` -/
def intersect (r1 r2 : Box) : Bool :=
  if r2.maxX < r1.minX || r1.maxX < r2.minX then false
  else if r2.maxY < r1.minY || r1.maxY < r2.minY then false
  else true

/-- geom.go `containsRect` -/
def containsRect (r1 r2 : Box) : Bool :=
  if r1.minX > r2.minX || r2.maxX > r1.maxX then false
  else if r1.minY > r2.minY || r2.maxY > r1.maxY then false
  else true

/-- the zero value of `geom.Bounds` -/
def zero : Box := ⟨0, 0, 0, 0⟩

end Box

/-- rtree.go `computeBoundingBox` on the list of entry boxes: the first box enlarged by the
others in order; the zero `Bounds` for no entries. -/
def mbr : List Box → Box
  | [] => Box.zero
  | b :: bs => bs.foldl Box.enlarge b

/-- Objects are anything with decidable equality (Go `==` on the interface value) and a box. -/
class Bounded (O : Type) where
  bounds : O → Box

mutual
/-- rtree.go `node` without the parent link -/
inductive Node (O : Type) where
  | mk (leaf : Bool) (level : Nat) (entries : List (Entry O))
/-- rtree.go `entry`: `obj` has `child == nil`, `child` has `obj == nil` -/
inductive Entry (O : Type) where
  | obj (bb : Box) (o : O)
  | child (bb : Box) (n : Node O)
end

variable {O : Type}

namespace Entry
def bb : Entry O → Box
  | .obj b _ => b
  | .child b _ => b
end Entry

namespace Node
def leaf : Node O → Bool | .mk l _ _ => l
def level : Node O → Nat | .mk _ v _ => v
def entries : Node O → List (Entry O) | .mk _ _ es => es
/-- rtree.go `(*node).computeBoundingBox` -/
def bbox (n : Node O) : Box := mbr (n.entries.map Entry.bb)
end Node

theorem Entry.sizeOf_child_lt {es : List (Entry O)} {b : Box} {c : Node O}
    (h : Entry.child b c ∈ es) : sizeOf c < sizeOf es := by
  have := List.sizeOf_lt_of_mem h
  simp at this; omega

theorem Entry.sizeOf_child_lt_get {es : List (Entry O)} {i : Nat} {b : Box} {c : Node O}
    (h : es[i]? = some (Entry.child b c)) : sizeOf c < sizeOf es :=
  Entry.sizeOf_child_lt (List.mem_of_getElem? h)

/-- rtree.go `Rtree` -/
structure Tree (O : Type) where
  minC : Nat
  maxC : Nat
  root : Node O
  size : Nat
  height : Nat

/-- The geometric heuristics as choice functions over entry boxes. -/
structure Heur where
  /-- chooseNode: index of the entry to descend into (entry boxes, new box) -/
  chooseEntry : List Box → Box → Nat
  /-- pickSeeds: the two seed indices (entry boxes) -/
  pickSeeds : List Box → Nat × Nat
  /-- pickNext: index into `remaining` (left group boxes, right group boxes, remaining boxes) -/
  pickNext : List Box → List Box → List Box → Nat
  /-- assignGroup: `true` = left (left group boxes, right group boxes, box) -/
  assignLeft : List Box → List Box → Box → Bool

/-- rtree.go `NewTree` -/
def newTree (minC maxC : Nat) : Tree O :=
  { minC := minC, maxC := maxC, root := .mk true 1 [], size := 0, height := 1 }

/-! ### split -/

/-- the loop of rtree.go `split` distributing `remaining` over the two groups -/
def distribute (H : Heur) (minC : Nat) (l r : List (Entry O)) (rem : List (Entry O)) :
    Except Fault (List (Entry O) × List (Entry O)) :=
  if hrem : rem = [] then pure (l, r)
  else
    let next := H.pickNext (l.map Entry.bb) (r.map Entry.bb) (rem.map Entry.bb)
    match hn : rem[next]? with
    | none => throw .choice
    | some e =>
      have : (rem.eraseIdx next).length < rem.length := by
        have hlt : next < rem.length := by
          cases h : decide (next < rem.length) with
          | true => exact of_decide_eq_true h
          | false =>
            have : rem.length ≤ next := Nat.le_of_not_lt (of_decide_eq_false h)
            rw [List.getElem?_eq_none this] at hn; cases hn
        rw [List.length_eraseIdx]; simp [hlt]; omega
      if rem.length + l.length ≤ minC then distribute H minC (l ++ [e]) r (rem.eraseIdx next)
      else if rem.length + r.length ≤ minC then distribute H minC l (r ++ [e]) (rem.eraseIdx next)
      else if H.assignLeft (l.map Entry.bb) (r.map Entry.bb) e.bb then
        distribute H minC (l ++ [e]) r (rem.eraseIdx next)
      else distribute H minC l (r ++ [e]) (rem.eraseIdx next)
termination_by rem.length

/-- rtree.go `(*node).split` on the entry list of the overflowing node: (left, right) -/
def splitEntries (H : Heur) (minC : Nat) (es : List (Entry O)) :
    Except Fault (List (Entry O) × List (Entry O)) :=
  let (l, r) := H.pickSeeds (es.map Entry.bb)
  match es[l]?, es[r]? with
  | some ls, some rs =>
    -- `append(n.entries[:l], n.entries[l+1:r]...)` panics unless l < r
    if l < r then distribute H minC [ls] [rs] ((es.eraseIdx r).eraseIdx l)
    else throw .indexRange
  | _, _ => throw .indexRange

/-- append-and-maybe-split: what `insert`/`adjustTree` do to a node after adding an entry -/
def finish (H : Heur) (minC maxC : Nat) (leaf : Bool) (level : Nat) (es : List (Entry O)) :
    Except Fault (Node O × Option (Node O)) :=
  if es.length > maxC then do
    let (l, r) ← splitEntries H minC es
    pure (.mk leaf level l, some (.mk leaf level r))
  else pure (.mk leaf level es, none)

/-! ### insert -/

/-- rtree.go `insert(e, level)` below the root: `chooseNode` on the way down, the append at the
chosen node, `adjustTree` on the way up. Returns the updated node and its split sibling. -/
def insertAt (H : Heur) (minC maxC : Nat) (lvl : Nat) (e : Entry O) :
    Node O → Except Fault (Node O × Option (Node O))
  | .mk leaf level es =>
    if leaf || level == lvl then finish H minC maxC leaf level (es ++ [e])
    else if es.isEmpty then throw .nilDeref      -- `chosen` stays the zero entry
    else
      let i := H.chooseEntry (es.map Entry.bb) e.bb
      match h : es[i]? with
      | none => throw .choice
      | some (.obj _ _) => throw .nilDeref
      | some (.child _ c) => do
        let (c', s) ← insertAt H minC maxC lvl e c
        let es1 := es.set i (.child c'.bbox c')
        match s with
        | none => pure (.mk leaf level es1, none)
        | some nn => finish H minC maxC leaf level (es1 ++ [.child nn.bbox nn])
termination_by n => sizeOf n
decreasing_by have := Entry.sizeOf_child_lt_get h; simp_wf; omega

/-- rtree.go `(*Rtree).insert`: root handling (root split, `height++`) -/
def Tree.insertEntry (H : Heur) (t : Tree O) (e : Entry O) (lvl : Nat) : Except Fault (Tree O) := do
  let (r, s) ← insertAt H t.minC t.maxC lvl e t.root
  match s with
  | none => pure { t with root := r }
  | some nn =>
    let h := t.height + 1
    pure { t with height := h, root := .mk false h [.child r.bbox r, .child nn.bbox nn] }

/-- rtree.go `(*Rtree).Insert` -/
def Tree.insert [Bounded O] (H : Heur) (t : Tree O) (o : O) : Except Fault (Tree O) := do
  let t' ← t.insertEntry H (.obj (Bounded.bounds o) o) 1
  pure { t' with size := t'.size + 1 }

/-! ### delete -/

/-- the index loop of `Delete`: the LAST entry of the leaf whose object equals `o` -/
def lastIdxOf [DecidableEq O] (o : O) : List (Entry O) → Option Nat
  | [] => none
  | e :: es =>
    match lastIdxOf o es with
    | some i => some (i + 1)
    | none => match e with
      | .obj _ o' => if o' = o then some 0 else none
      | .child _ _ => none

/-- `findLeaf` + removal of the entry + the upward loop of `condenseTree`, fused along the
recursion path. `delIn n i` tries the entries `i, i+1, …` of `n` in order (the `for` loop of
findLeaf); result `none` = findLeaf found no leaf holding `o` below `n`; `some (n', deleted)` =
the node after removal/condensing and the under-full nodes collected bottom-up. -/
def delIn [DecidableEq O] [Bounded O] (minC : Nat) (o : O) :
    Node O → Nat → Except Fault (Option (Node O × List (Node O)))
  | .mk leaf level es, i =>
    if leaf then
      match lastIdxOf o es with
      | none => pure none
      | some ind => pure (some (.mk leaf level (es.eraseIdx ind), []))
    else
      match h : es[i]? with
      | none => pure none
      | some (.obj b _) =>
        if b.containsRect (Bounded.bounds o) then throw .nilDeref
        else delIn minC o (.mk leaf level es) (i + 1)
      | some (.child b c) =>
        if b.containsRect (Bounded.bounds o) then do
          match ← delIn minC o c 0 with
          | none => delIn minC o (.mk leaf level es) (i + 1)
          | some (c', del) =>
            if c'.entries.length < minC then
              -- underflow: drop the entry; keep the node for re-insertion if it still has entries
              pure (some (.mk leaf level (es.eraseIdx i),
                          if c'.entries.length > 0 then del ++ [c'] else del))
            else pure (some (.mk leaf level (es.set i (.child c'.bbox c')), del))
        else delIn minC o (.mk leaf level es) (i + 1)
termination_by n i => (sizeOf n, n.entries.length - i)
decreasing_by
  all_goals simp_wf
  all_goals first
    | (apply Prod.Lex.left; have := Entry.sizeOf_child_lt_get h; omega)
    | (apply Prod.Lex.right
       have hlt : i < es.length := by
         cases hd : decide (i < es.length) with
         | true => exact of_decide_eq_true hd
         | false =>
           have : es.length ≤ i := Nat.le_of_not_lt (of_decide_eq_false hd)
           rw [List.getElem?_eq_none this] at h; cases h
       simp [Node.entries]; omega)

/-- the root-collapse loop at the end of `Delete` (as repaired: repeated, with `height--`) -/
def collapse : Node O → Nat → Except Fault (Node O × Nat)
  | .mk leaf level es, h =>
    if leaf then pure (.mk leaf level es, h)
    else match es with
      | [.child _ c] => collapse c (h - 1)
      | [.obj _ _] => throw .nilDeref
      | _ => pure (.mk leaf level es, h)

/-- the re-insertion loop at the end of `condenseTree` -/
def reinsertAll (H : Heur) (t : Tree O) : List (Node O) → Except Fault (Tree O)
  | [] => pure t
  | n :: ns => do
    let t' ← t.insertEntry H (.child n.bbox n) (n.level + 1)
    reinsertAll H t' ns

/-- rtree.go `(*Rtree).Delete` -/
def Tree.delete [DecidableEq O] [Bounded O] (H : Heur) (t : Tree O) (o : O) :
    Except Fault (Tree O × Bool) := do
  match ← delIn t.minC o t.root 0 with
  | none => pure (t, false)
  | some (r, del) =>
    let t1 ← reinsertAll H { t with root := r } del
    let (r2, h2) ← collapse t1.root t1.height
    pure ({ t1 with root := r2, height := h2, size := t1.size - 1 }, true)

/-! ### search -/

/-- rtree.go `searchIntersect` -/
def searchNode (q : Box) : Node O → Except Fault (List O)
  | .mk leaf _ es => do
    let rs ← es.mapM fun e =>
      if e.bb.intersect q then
        match h : e with
        | .obj _ o => if leaf then pure [o] else throw Fault.nilDeref
        | .child _ c => if leaf then throw Fault.nilObj else searchNode q c
      else pure []
    pure rs.flatten
termination_by n => sizeOf n
decreasing_by subst h; have := Entry.sizeOf_child_lt ‹_›; simp_wf; omega

def Tree.search (t : Tree O) (q : Box) : Except Fault (List O) := searchNode q t.root
def Tree.depth (t : Tree O) : Nat := t.height

/-! ### histories -/

/-- one call of the public API that changes the tree -/
inductive Op (O : Type) where
  | ins (o : O)
  | del (o : O)

/-- one operation; the `Option Bool` is the result of `Delete` -/
def Tree.step [DecidableEq O] [Bounded O] (H : Heur) (t : Tree O) : Op O → Except Fault (Tree O × Option Bool)
  | .ins o => do let t' ← t.insert H o; pure (t', none)
  | .del o => do let (t', r) ← t.delete H o; pure (t', some r)

/-- a whole history from a given tree -/
def runOps [DecidableEq O] [Bounded O] (H : Heur) : Tree O → List (Op O) → Except Fault (Tree O)
  | t, [] => pure t
  | t, op :: ops => do let (t', _) ← t.step H op; runOps H t' ops

/-! ### the Go heuristics, exactly (all arithmetic in `Rat`) -/

def ratAbs (q : Rat) : Rat := if q < 0 then -q else q

/-- chooseNode's loop. `diff = math.MaxFloat64` is modelled by `none`. -/
def goChooseEntry (bs : List Box) (e : Box) : Nat :=
  let rec go : List Box → Nat → Option (Rat × Rat × Nat) → Nat
    | [], _, acc => match acc with | some (_, _, i) => i | none => 0
    | b :: rest, i, acc =>
      let d := (b.union e).size - b.size
      match acc with
      | none => go rest (i + 1) (some (d, b.size, i))
      | some (diff, csize, ci) =>
        if d < diff || (d == diff && b.size < csize) then go rest (i + 1) (some (d, b.size, i))
        else go rest (i + 1) (some (diff, csize, ci))
  go bs 0 none

/-- pickSeeds: the two nested `range` loops (`for i, e1 := range es { for j, e2 := range es[i+1:] {` …)
threading (maxWastedSpace, left, right) -/
def goPickSeeds (bs : List Box) : Nat × Nat :=
  let r := bs.zipIdx.foldl (fun (acc : Rat × Nat × Nat) (e1i : Box × Nat) =>
      (bs.drop (e1i.2 + 1)).zipIdx.foldl (fun (acc : Rat × Nat × Nat) (e2j : Box × Nat) =>
        let d := (e1i.1.union e2j.1).size - e1i.1.size - e2j.1.size
        if d > acc.1 then (d, e1i.2, e2j.2 + e1i.2 + 1) else acc) acc) ((-1 : Rat), 0, 1)
  (r.2.1, r.2.2)

/-- pickNext -/
def goPickNext (l r rem : List Box) : Nat :=
  let lbb := mbr l
  let rbb := mbr r
  let rec go : List Box → Nat → Rat → Nat → Nat
    | [], _, _, best => best
    | b :: rest, i, maxDiff, best =>
      let d1 := (lbb.union b).size - lbb.size
      let d2 := (rbb.union b).size - rbb.size
      let d := ratAbs (d1 - d2)
      if d > maxDiff then go rest (i + 1) d i else go rest (i + 1) maxDiff best
  go rem 0 (-1) 0

/-- assignGroup -/
def goAssignLeft (l r : List Box) (e : Box) : Bool :=
  let lbb := mbr l
  let rbb := mbr r
  let leftDiff := (lbb.union e).size - lbb.size
  let rightDiff := (rbb.union e).size - rbb.size
  let diff := leftDiff - rightDiff
  if diff < 0 then true
  else if diff > 0 then false
  else
    let diff := lbb.size - rbb.size
    if diff < 0 then true
    else if diff > 0 then false
    else decide (l.length ≤ r.length)

def goHeur : Heur :=
  { chooseEntry := goChooseEntry, pickSeeds := goPickSeeds, pickNext := goPickNext,
    assignLeft := goAssignLeft }

end GeomV.C11
