import GeomV.C11.Ties.Enlarge
/-!
T1 tie (C11): `(*node).computeBoundingBox` regenerated from rtree.go (a `for i, e := range` loop
with the `i == 0` case) = the model's `mbr` on the entry boxes.
-/
namespace GeomV.C11

theorem foldl_zipIdx_pos (f : Box → Box × Nat → Box)
    (hf : ∀ bb e i, 0 < i → f bb (e, i) = bb.enlarge e) :
    ∀ (l : List Box) (k : Nat) (acc : Box), 0 < k → (l.zipIdx k).foldl f acc = l.foldl Box.enlarge acc
  | [], _, _, _ => rfl
  | b :: l, k, acc, hk => by
    simp only [List.zipIdx_cons, List.foldl_cons, hf acc b k hk]
    exact foldl_zipIdx_pos f hf l (k + 1) _ (by omega)

theorem C11_tie_computeBoundingBox (big : Rat) (n : List Box) : Gen.computeBoundingBox big n = mbr n := by
  unfold Gen.computeBoundingBox
  cases n with
  | nil => rfl
  | cons b l =>
    simp only [List.zipIdx_cons, List.foldl_cons]
    rw [foldl_zipIdx_pos _ (by
      intro bb e i hi
      have : ¬ i = 0 := by omega
      simp [this, C11_tie_enlarge]) l _ _ (by omega)]
    rfl

end GeomV.C11
