import Mathlib.Tactic.SplitIfs
import GeomV.C11.Ties.Box
import GeomV.C11.Ties.Mbr
/-!
T1 tie (C11): the decision of `assignGroup` regenerated from rtree.go (`assign(e, left)` = true)
= the model's `goAssignLeft`.
-/
namespace GeomV.C11

theorem C11_tie_assignGroup (big : Rat) (e : Box) (l r : List Box) :
    Gen.assignGroup big e l r = goAssignLeft l r e := by
  unfold Gen.assignGroup goAssignLeft
  simp only [C11_tie_computeBoundingBox, C11_tie_boundingBox, C11_tie_size]
  split_ifs <;> first | rfl | (simp only [decide_eq_true_eq, decide_eq_false_iff_not, Bool.true_eq, Bool.false_eq] <;> omega)

end GeomV.C11
