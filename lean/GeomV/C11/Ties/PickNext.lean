import GeomV.C11.Ties.Box
import GeomV.C11.Ties.Mbr
/-!
T1 tie (C11): `pickNext` regenerated from rtree.go (a `for i, e := range entries` loop threading
`maxDiff` and the named result `next`) = the model's `goPickNext`.
-/
namespace GeomV.C11

theorem pickNext_fold (lbb rbb : Box) (f : Rat × Nat → Box × Nat → Rat × Nat)
    (hf : ∀ m b e i, f (m, b) (e, i) =
      if ratAbs (((lbb.union e).size - lbb.size) - ((rbb.union e).size - rbb.size)) > m
      then (ratAbs (((lbb.union e).size - lbb.size) - ((rbb.union e).size - rbb.size)), i) else (m, b)) :
    ∀ (l : List Box) (k : Nat) (m : Rat) (b : Nat),
      ((l.zipIdx k).foldl f (m, b)).2 = goPickNext.go lbb rbb l k m b
  | [], _, _, _ => rfl
  | e :: l, k, m, b => by
    simp only [List.zipIdx_cons, List.foldl_cons, hf, goPickNext.go]
    split_ifs
    · exact pickNext_fold lbb rbb f hf l (k + 1) _ _
    · exact pickNext_fold lbb rbb f hf l (k + 1) _ _

theorem C11_tie_pickNext (big : Rat) (l r rem : List Box) :
    Gen.pickNext big l r rem = goPickNext l r rem := by
  unfold Gen.pickNext goPickNext
  simp only [C11_tie_computeBoundingBox, C11_tie_boundingBox, C11_tie_size]
  exact pickNext_fold (mbr l) (mbr r)
    (fun x x_1 =>
      if ratAbs (((mbr l).union x_1.fst).size - (mbr l).size - (((mbr r).union x_1.fst).size - (mbr r).size)) > x.fst
      then (ratAbs (((mbr l).union x_1.fst).size - (mbr l).size - (((mbr r).union x_1.fst).size - (mbr r).size)), x_1.snd)
      else (x.fst, x.snd))
    (by intro m b e i; rfl) rem 0 (-(1 : Rat)) 0

end GeomV.C11
