import GeomV.C11.Gen
/-!
T1 tie (C11): the box predicates regenerated from index/rtree/geom.go of the tree under test
(`Gen.lean`, rewritten by every run) ARE the model's.  `big` stands for `math.MaxFloat64`
(unused by these functions).
-/
namespace GeomV.C11

theorem C11_tie_size (big : Rat) (r : Box) : Gen.size big r = r.size := rfl
theorem C11_tie_margin (big : Rat) (r : Box) : Gen.margin big r = r.margin := rfl
theorem C11_tie_containsPoint (big : Rat) (r : Box) (px py : Rat) :
    Gen.containsPoint big r ⟨px, py⟩ = r.containsPoint px py := rfl
theorem C11_tie_containsRect (big : Rat) (r1 r2 : Box) : Gen.containsRect big r1 r2 = r1.containsRect r2 := rfl
theorem C11_tie_intersect (big : Rat) (r1 r2 : Box) : Gen.intersect big r1 r2 = r1.intersect r2 := rfl

end GeomV.C11
