import Mathlib.Tactic.SplitIfs
import GeomV.C11.Ties.Box
import GeomV.C11.Ties.Enlarge
/-!
T1 tie (C11): `pickSeeds` regenerated from rtree.go (two nested `range` loops threading the scratch
box `bb`, `maxWastedSpace`, `left`, `right`) = the model's `goPickSeeds` (which threads the same
variables without the scratch box).
-/
namespace GeomV.C11

theorem foldl_proj {α β γ : Type} (π : α → β) (f : α → γ → α) (g : β → γ → β)
    (h : ∀ a x, π (f a x) = g (π a) x) : ∀ (l : List γ) (a : α), π (l.foldl f a) = l.foldl g (π a)
  | [], _ => rfl
  | x :: l, a => by simp only [List.foldl_cons]; rw [foldl_proj π f g h l (f a x), h]

/-- forget the scratch box -/
def seedsProj (s : Box × Nat × Rat × Nat) : Rat × Nat × Nat := (s.2.2.1, s.2.1, s.2.2.2)

theorem C11_tie_pickSeeds (big : Rat) (n : List Box) : Gen.pickSeeds big n = goPickSeeds n := by
  unfold Gen.pickSeeds goPickSeeds
  simp only [C11_tie_initBoundingBox, C11_tie_size]
  have key := foldl_proj seedsProj
    (fun (x : Box × Nat × Rat × Nat) (x_1 : Box × Nat) =>
      List.foldl (fun (x : Box × Nat × Rat × Nat) (x_2 : Box × Nat) =>
        if (x_1.1.union x_2.1).size - x_1.1.size - x_2.1.size > x.2.2.1 then
          (x_1.1.union x_2.1, x_1.2, (x_1.1.union x_2.1).size - x_1.1.size - x_2.1.size, x_2.2 + x_1.2 + 1)
        else (x_1.1.union x_2.1, x.2.1, x.2.2.1, x.2.2.2)) x (n.drop (x_1.2 + 1)).zipIdx)
    (fun (acc : Rat × Nat × Nat) (e1i : Box × Nat) =>
      (n.drop (e1i.2 + 1)).zipIdx.foldl (fun (acc : Rat × Nat × Nat) (e2j : Box × Nat) =>
        if (e1i.1.union e2j.1).size - e1i.1.size - e2j.1.size > acc.1 then
          ((e1i.1.union e2j.1).size - e1i.1.size - e2j.1.size, e1i.2, e2j.2 + e1i.2 + 1) else acc) acc)
    (by
      intro a x
      apply foldl_proj seedsProj
      intro a' y
      simp only [seedsProj]
      split_ifs with hc <;> simp [hc])
    n.zipIdx (Box.zero, 0, -(1 : Rat), 1)
  simp only [seedsProj] at key
  have h1 := congrArg (fun t : Rat × Nat × Nat => t.2.1) key
  have h2 := congrArg (fun t : Rat × Nat × Nat => t.2.2) key
  simp only at h1 h2
  exact Prod.ext h1 h2

end GeomV.C11
