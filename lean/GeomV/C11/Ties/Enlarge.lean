import Mathlib.Tactic.SplitIfs
import GeomV.C11.Gen
/-!
T1 tie (C11): `enlarge`, `initBoundingBox`, `boundingBox` regenerated from geom.go = the model's
`Box.enlarge` / `Box.union` (the in-place updates of `*r1` are threaded as values).
-/
namespace GeomV.C11

theorem C11_tie_enlarge (big : Rat) (r1 r2 : Box) : Gen.enlarge big r1 r2 = r1.enlarge r2 := by
  unfold Gen.enlarge Box.enlarge
  by_cases h1 : r1.minX > r2.minX <;> by_cases h2 : r1.maxX < r2.maxX <;>
    by_cases h3 : r1.minY > r2.minY <;> by_cases h4 : r1.maxY < r2.maxY <;>
    simp [h1, h2, h3, h4]

theorem C11_tie_initBoundingBox (big : Rat) (r r1 r2 : Box) :
    Gen.initBoundingBox big r r1 r2 = r1.union r2 := by
  unfold Gen.initBoundingBox Box.union
  exact C11_tie_enlarge big r1 r2

theorem C11_tie_boundingBox (big : Rat) (r1 r2 : Box) : Gen.boundingBox big r1 r2 = r1.union r2 := by
  unfold Gen.boundingBox
  exact C11_tie_initBoundingBox big _ r1 r2

end GeomV.C11
