import Mathlib.Tactic.SplitIfs
import GeomV.C11.Ties.Box
import GeomV.C11.Ties.Enlarge
/-!
T1 tie (C11): the loop of `chooseNode` regenerated from rtree.go (`for i, en := range n.entries`
threading the scratch box `bb`, `chosen` and `diff`, with the repaired condition
`i == 0 || d < diff || (d == diff && size(en.bb) < size(chosen.bb))`) returns the box of the entry
with the model's index `goChooseEntry`.  The leading `if n.leaf || n.level == level { return n }` and
the recursion on `chosen.child` are covered by the control-skeleton tie.
-/
namespace GeomV.C11

theorem chooseNode_fold (e : Box) (f : Box × Box × Rat → Box × Nat → Box × Box × Rat)
    (hf : ∀ bb c diff en i, f (bb, c, diff) (en, i) =
      if ((decide (i = 0) || decide ((en.union e).size - en.size < diff)) ||
          (decide ((en.union e).size - en.size = diff) && decide (en.size < c.size))) = true
      then (en.union e, en, (en.union e).size - en.size) else (en.union e, c, diff)) :
    ∀ (l pre : List Box) (bb c : Box) (diff : Rat) (ci : Nat), pre ≠ [] → pre[ci]? = some c →
      ((l.zipIdx pre.length).foldl f (bb, c, diff)).2.1 =
        ((pre ++ l)[goChooseEntry.go e l pre.length (some (diff, c.size, ci))]?).getD Box.zero
  | [], pre, bb, c, diff, ci, _, hci => by
    simp [goChooseEntry.go, hci]
  | en :: l, pre, bb, c, diff, ci, hne, hci => by
    have hk : pre.length ≠ 0 := by
      intro h; exact hne (List.length_eq_zero_iff.mp h)
    have hcilt : ci < pre.length := by
      rcases Nat.lt_or_ge ci pre.length with h | h
      · exact h
      · rw [List.getElem?_eq_none h] at hci; cases hci
    have hlen : (pre ++ [en]).length = pre.length + 1 := by simp
    simp only [List.zipIdx_cons, List.foldl_cons, hf, goChooseEntry.go]
    have hpre : pre ++ en :: l = (pre ++ [en]) ++ l := by simp
    rw [hpre, ← hlen]
    by_cases hc : ((en.union e).size - en.size < diff ∨ ((en.union e).size - en.size = diff ∧ en.size < c.size))
    · have h1 : ((decide (pre.length = 0) || decide ((en.union e).size - en.size < diff)) ||
          (decide ((en.union e).size - en.size = diff) && decide (en.size < c.size))) = true := by
        simpa [hk] using hc
      have h2 : (decide ((en.union e).size - en.size < diff) ||
          ((en.union e).size - en.size == diff && decide (en.size < c.size))) = true := by
        simpa using hc
      rw [if_pos h1, if_pos h2]
      exact chooseNode_fold e f hf l (pre ++ [en]) _ en _ pre.length (by simp) (by simp)
    · have h1 : ¬ (((decide (pre.length = 0) || decide ((en.union e).size - en.size < diff)) ||
          (decide ((en.union e).size - en.size = diff) && decide (en.size < c.size))) = true) := by
        simpa [hk] using hc
      have h2 : ¬ ((decide ((en.union e).size - en.size < diff) ||
          ((en.union e).size - en.size == diff && decide (en.size < c.size))) = true) := by
        simpa using hc
      rw [if_neg h1, if_neg h2]
      exact chooseNode_fold e f hf l (pre ++ [en]) _ c _ ci (by simp)
        (by rw [List.getElem?_append_left hcilt]; exact hci)

theorem C11_tie_chooseNode (big : Rat) (n : List Box) (e : Box) (level : Int) :
    Gen.chooseNode big n e level = (n[goChooseEntry n e]?).getD Box.zero := by
  unfold Gen.chooseNode goChooseEntry
  simp only [C11_tie_initBoundingBox, C11_tie_size]
  cases n with
  | nil => rfl
  | cons b l =>
    simp only [List.zipIdx_cons, List.foldl_cons, goChooseEntry.go, decide_true, Bool.true_or, if_true]
    refine (Eq.trans ?a (chooseNode_fold e ?f ?hf l [b] (b.union e) b ((b.union e).size - b.size) 0
      (by simp) (by simp))).trans ?c
    case a => rfl
    case hf => intro bb c diff en i; rfl
    case c => simp

end GeomV.C11
