import GeomV.C11.ProofsParentIns
/-
C11 — `ParentOK` is preserved by the arena `Delete` (findLeaf, removal of the object entry, condenseTree's upward loop along the STORED
parent links with the entry filter, re-insertion of the orphans, root collapse) and hence holds after EVERY history:
`C11_heap_parent_reachable`.
-/
set_option linter.unusedVariables false
set_option linter.unusedSimpArgs false
namespace GeomV.C11
namespace Heap
variable {O : Type}

theorem kids_filter (n : Ptr) : ∀ (es : List (HEntry O)),
    kids (es.filter (fun e => e.child != some n)) = (kids es).filter (fun c => c != n)
  | [] => by simp [kids]
  | e :: es => by
    have ih := kids_filter n es
    unfold kids at ih ⊢
    cases hc : e.child with
    | none => simp [List.filter_cons, hc, ih]
    | some c =>
      by_cases hcn : c = n
      · subst hcn; simp [List.filter_cons, hc, ih]
      · simp [List.filter_cons, hc, hcn, ih]

theorem filter_changed_mem {es : List (HEntry O)} {n : Ptr}
    (h : (es.length == (es.filter (fun e => e.child != some n)).length) = false) : n ∈ kids es := by
  apply Classical.byContradiction
  intro hn
  have : es.filter (fun e => e.child != some n) = es := by
    rw [List.filter_eq_self]
    intro e he
    simp only [bne_iff_ne, ne_eq]
    intro hc
    exact hn (mem_kids he hc)
  rw [this] at h
  simp at h

theorem kids_eraseIdx_sub (es : List (HEntry O)) (i : Nat) : (kids (es.eraseIdx i)).Sublist (kids es) := by
  unfold kids
  exact (List.eraseIdx_sublist es i).filterMap _

/-! ### condenseTree: the upward loop -/

theorem condense_P (minC : Nat) {root : Ptr} :
    ∀ (f : Nat) (m : Arena O) (n : Ptr) (deleted : List Ptr) (m' : Arena O) (del' : List Ptr),
      P m root deleted → condenseUp minC root f m n deleted = .ok (m', del') → P m' root del' := by
  intro f
  induction f with
  | zero => intro m n deleted m' del' _ h; simp [condenseUp, throw, throwThe, MonadExceptOf.throw] at h
  | succ f ih =>
    intro m n deleted m' del' hP h
    rw [condenseUp] at h
    by_cases hnr : n = root
    · simp only [hnr, beq_self_eq_true, if_true, pure, Except.pure, Except.ok.injEq, Prod.mk.injEq] at h
      obtain ⟨h1, h2⟩ := h
      subst h1; subst h2; exact hP
    · have hne : (n == root) = false := by simpa using hnr
      simp only [hne, Bool.false_eq_true, if_false, deref, bind, Except.bind] at h
      cases hmn : m[n]? with
      | none => simp [hmn, nilDeref, throw, throwThe, MonadExceptOf.throw] at h
      | some nd =>
        simp only [hmn, pure, Except.pure] at h
        cases hpar : nd.parent with
        | none => simp [hpar, derefO, nilDeref, throw, throwThe, MonadExceptOf.throw] at h
        | some p =>
          simp only [hpar, derefO, deref, Option.getD_some] at h
          cases hmp : m[p]? with
          | none => simp [hmp, nilDeref, throw, throwThe, MonadExceptOf.throw] at h
          | some pd =>
            simp only [hmp, pure, Except.pure] at h
            have hvn : view m n = some (some p, kids nd.entries) := by rw [view_some hmn, hpar]
            have hvp : view m p = some (pd.parent, kids pd.entries) := view_some hmp
            by_cases hund : nd.entries.length < minC
            · simp only [hund, if_true] at h
              cases hlen : (pd.entries.length == (pd.entries.filter (fun e => e.child != some n)).length) with
              | true => simp [hlen, throw, throwThe, MonadExceptOf.throw] at h
              | false =>
                simp only [hlen, Bool.false_eq_true, if_false] at h
                have hnin : n ∈ kids pd.entries := filter_changed_mem hlen
                have hlp : VLive (view m) root deleted p := hP.holder_live hvn hvp hnin
                have hgp := hP.good p _ _ hvp hlp
                have hv1 : view (m.set p { pd with entries := pd.entries.filter (fun e => e.child != some n) }) =
                    setKids (view m) p ((kids pd.entries).filter (fun c => c != n)) := by
                  rw [view_setEntries hmp, kids_filter]
                have hsub : ∀ c ∈ (kids pd.entries).filter (fun c => c != n), c ∈ kids pd.entries :=
                  fun c hc => (List.mem_filter.mp hc).1
                have hnd : ((kids pd.entries).filter (fun c => c != n)).Nodup := hgp.1.sublist List.filter_sublist
                have hnot : n ∉ (kids pd.entries).filter (fun c => c != n) := by
                  intro hh; have := (List.mem_filter.mp hh).2; simp at this
                refine ih _ p _ m' del' ?_ h
                rw [P, hv1]
                split_ifs with hpos
                · exact hP.shrink hvp hlp hsub hnd (by simp) (by simpa using hnin) (by simpa using hnot)
                · have := hP.shrink (D' := []) hvp hlp hsub hnd List.nodup_nil (fun d hd => by cases hd) (fun d hd => by cases hd)
                  simpa using this
            · simp only [hund, if_false] at h
              cases hk : entryIdx pd.entries n with
              | none => simp [hk, nilDeref, throw, throwThe, MonadExceptOf.throw] at h
              | some k =>
                simp only [hk] at h
                refine ih _ p deleted m' del' ?_ h
                rw [P, view_setEntries_same hmp _ (kids_setBB _ _ _)]
                exact hP

/-! ### condenseTree: the re-insertion loop -/

theorem reinsert_P (H : Heur) (fuel : Nat) :
    ∀ (ns : List Ptr) (t t' : HTree O), P t.mem t.root ns → reinsert H fuel t ns = .ok t' → P t'.mem t'.root [] := by
  intro ns
  induction ns with
  | nil => intro t t' hP h; simp [reinsert, pure, Except.pure] at h; subst h; exact hP
  | cons n ns ih =>
    intro t t' hP h
    rw [reinsert] at h
    simp only [deref, bind, Except.bind] at h
    cases hmn : t.mem[n]? with
    | none => simp [hmn, nilDeref, throw, throwThe, MonadExceptOf.throw] at h
    | some nd =>
      simp only [hmn, pure, Except.pure] at h
      cases hi : insertEntry H fuel t { bb := mbr (bbs nd.entries), child := some n, obj := none } (nd.level + 1) with
      | error x => simp [hi] at h
      | ok t1 =>
        simp only [hi] at h
        have := insertEntry_P H fuel hP (fun c hc => by cases hc; simp) hi
        simp only [placed, List.erase_cons_head] at this
        exact ih t1 t' this h

/-- **C11_heap_parent_delete** — `Delete` on the arena preserves the parent-link invariant -/
theorem C11_heap_parent_delete [DecidableEq O] [Bounded O] (H : Heur) (fuel : Nat) (t t' : HTree O) (o : O) (r : Bool)
    (hJ : ParentOK t) (h : t.delete H fuel o = .ok (t', r)) : ParentOK t' := by
  unfold HTree.delete at h
  simp only [bind, Except.bind] at h
  cases hf : findLeaf t.mem o fuel t.root with
  | error x => simp [hf] at h
  | ok res =>
    simp only [hf] at h
    cases res with
    | none => simp [pure, Except.pure] at h; rw [← h.1]; exact hJ
    | some n =>
      simp only [deref] at h
      cases hmn : t.mem[n]? with
      | none => simp [hmn, nilDeref, throw, throwThe, MonadExceptOf.throw] at h
      | some nd =>
        simp only [hmn, pure, Except.pure] at h
        cases hli : lastIdx o nd.entries with
        | none => simp [hli] at h; rw [← h.1]; exact hJ
        | some ind =>
          simp only [hli] at h
          have hP1 : P (t.mem.set n { nd with entries := nd.entries.eraseIdx ind }) t.root [] := by
            rw [P, view_setEntries hmn]
            exact VJ.shrink0 hJ (view_some hmn) (kids_eraseIdx_sub _ _).subset (fun hh => hh.sublist (kids_eraseIdx_sub _ _))
          cases hc : condenseUp t.minC t.root fuel (t.mem.set n { nd with entries := nd.entries.eraseIdx ind }) n [] with
          | error x => simp [hc] at h
          | ok res2 =>
            obtain ⟨m2, deleted⟩ := res2
            simp only [hc] at h
            have hP2 := condense_P t.minC fuel _ n [] m2 deleted hP1 hc
            cases hr : reinsert H fuel { t with mem := m2 } deleted with
            | error x => simp [hr] at h
            | ok t1 =>
              simp only [hr] at h
              have hP3 := reinsert_P H fuel deleted { t with mem := m2 } t1 hP2 hr
              cases hcl : collapse fuel { t1 with size := t1.size - 1 } with
              | error x => simp [hcl] at h
              | ok t2 =>
                simp only [hcl, Except.ok.injEq, Prod.mk.injEq] at h
                rw [← h.1]
                exact C11_heap_parent_collapse fuel { t1 with size := t1.size - 1 } t2 hP3 hcl

/-- one operation -/
theorem C11_heap_parent_step [DecidableEq O] [Bounded O] (H : Heur) (fuel : Nat) (t t' : HTree O) (op : Op O)
    (r : Option Bool) (hJ : ParentOK t) (h : t.step H fuel op = .ok (t', r)) : ParentOK t' := by
  cases op with
  | ins o =>
    simp only [HTree.step, bind, Except.bind] at h
    cases hi : t.insert H fuel o with
    | error x => simp [hi] at h
    | ok t1 =>
      simp only [hi, pure, Except.pure, Except.ok.injEq, Prod.mk.injEq] at h
      rw [← h.1]; exact C11_heap_parent_insert H fuel t t1 o hJ hi
  | del o =>
    simp only [HTree.step, bind, Except.bind] at h
    cases hd : t.delete H fuel o with
    | error x => simp [hd] at h
    | ok res =>
      obtain ⟨t1, b⟩ := res
      simp only [hd, pure, Except.pure, Except.ok.injEq, Prod.mk.injEq] at h
      rw [← h.1]; exact C11_heap_parent_delete H fuel t t1 o b hJ hd

theorem runOps_P [DecidableEq O] [Bounded O] (H : Heur) (fuel : Nat) :
    ∀ (ops : List (Op O)) (t0 t : HTree O), ParentOK t0 → runOps H fuel t0 ops = .ok t → ParentOK t := by
  intro ops
  induction ops with
  | nil => intro t0 t h0 h; simp [runOps, pure, Except.pure] at h; subst h; exact h0
  | cons op ops ih =>
    intro t0 t h0 h
    rw [runOps] at h
    simp only [bind, Except.bind] at h
    cases hs : t0.step H fuel op with
    | error x => simp [hs] at h
    | ok res =>
      obtain ⟨t1, r⟩ := res
      simp only [hs] at h
      exact ih t1 t (C11_heap_parent_step H fuel t0 t1 op r h0 hs) h

/-- **C11_heap_parent_reachable** — after EVERY history of Insert/Delete from `NewTree` on the arena model (any in- or out-of-range
heuristics, any parameters, any fuel; whenever the model run does not fault) the parent-link invariant holds, hence the hook's audit
evaluated on the arena is `true` at every fuel at which the arena below the root reads as a tree, and every node reachable from the
root through child entries has `parent` = the node holding its entry (nil for the root) -/
theorem C11_heap_parent_reachable [DecidableEq O] [Bounded O] (H : Heur) (fuel minC maxC : Nat)
    (ops : List (Op O)) (t : HTree O) (h : runOps H fuel (newTree minC maxC) ops = .ok t) :
    ParentOK t ∧ (∀ f n, erase t.mem f t.root = some n → audit t.mem f none t.root = true) ∧
    ((∃ rn, t.mem[t.root]? = some rn ∧ rn.parent = none) ∧
      ∀ x c xn e, Reach t.mem t.root x → t.mem[x]? = some xn → e ∈ xn.entries → e.child = some c →
        ∃ cn, t.mem[c]? = some cn ∧ cn.parent = some x) := by
  have hJ := runOps_P H fuel ops _ t (C11_heap_parent_init minC maxC) h
  exact ⟨hJ, fun f n he => C11_heap_parent_audit t hJ f n he, C11_heap_parent_reach t hJ⟩

/-- non-vacuity: a concrete history (7 inserts, then 5 deletes, (min,max) = (2,3), the transcribed Go heuristics) runs without
fault on the arena, kernel-evaluated — the hypothesis of the theorem is satisfiable on a history with splits and deletes -/
local instance : Bounded Box := ⟨id⟩ in
example : (runOps (O := Box) goHeur 20 (newTree 2 3)
    ([0, 1, 2, 3, 4, 5, 6].map (fun (i : Nat) => Op.ins (⟨i, i, i, i⟩ : Box)) ++
     [0, 1, 2, 3, 4].map (fun (i : Nat) => Op.del (⟨i, i, i, i⟩ : Box)))).toBool = true := by
  decide +kernel

end Heap
end GeomV.C11
