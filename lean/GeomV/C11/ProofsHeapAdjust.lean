import GeomV.C11.ProofsHeapBase
import GeomV.C11.HeapPath
/-
C11 — phase 4: `adjustTree` along the STORED parent links, by proof, for trees of ANY height: `Insert` of the pointer-level model that
overflows no node (chooseNode down the child pointers, append at the leaf, adjustTree up the `parent` fields rewriting one entry box
per level through `getEntry`) refines the functional `Insert`, under an explicit decidable hypothesis `PathOK` on the insertion path
(what the tree shape gives there: the chosen child's `parent` is its holder, `getEntry` finds the chosen index, the holder is not
below the child, the other children's subtrees are disjoint from the path).

Tools: `subs` (the nodes `erase` visits), `erase_agree` (FRAME: memories that agree on `subs m f q` denote the same tree at `q`),
`subs_congr`, `eraseEntries_setBB` (rewriting the box of entry `i` whose child was rebuilt).
-/
set_option linter.unusedVariables false
set_option linter.unusedSimpArgs false
namespace GeomV.C11
namespace Heap
variable {O : Type}

theorem kidsOf_cons (e : HEntry O) (es : List (HEntry O)) :
    kidsOf (e :: es) = (match e.child with | some c => c :: kidsOf es | none => kidsOf es) := by
  unfold kidsOf
  rw [List.filterMap_cons]
  cases h : e.child <;> rfl

theorem mem_kidsOf {es : List (HEntry O)} {e : HEntry O} {c : Ptr} (he : e ∈ es) (hc : e.child = some c) : c ∈ kidsOf es := by
  unfold kidsOf
  exact List.mem_filterMap.mpr ⟨e, he, hc⟩

theorem eraseEntries_congr (r1 r2 : Ptr → Option (Node O)) :
    ∀ (es : List (HEntry O)), (∀ c ∈ kidsOf es, r1 c = r2 c) → eraseEntries r1 es = eraseEntries r2 es := by
  intro es
  induction es with
  | nil => intro _; rfl
  | cons e es ih =>
    intro h
    rw [eraseEntries, eraseEntries]
    cases hc : e.child with
    | none =>
      simp only [kidsOf_cons, hc] at h
      cases ho : e.obj <;> simp [ih h]
    | some c =>
      simp only [kidsOf_cons, hc] at h
      cases ho : e.obj <;> simp [ih (fun x hx => h x (List.mem_cons_of_mem _ hx)), h c List.mem_cons_self]

/-- FRAME: a memory that agrees with `m` on every node `erase m f q` visits denotes the same tree at `q` -/
theorem erase_agree {m m' : Arena O} (hlen : m'.length = m.length) :
    ∀ (f : Nat) (q : Ptr), (∀ x ∈ subs m f q, m'[x]? = m[x]?) → erase m' f q = erase m f q := by
  intro f
  induction f with
  | zero => intro q _; rfl
  | succ f ih =>
    intro q h
    rw [erase, erase]
    cases hm : m[q]? with
    | none =>
      have : m.length ≤ q := by
        by_contra hc
        rw [List.getElem?_eq_getElem (Nat.lt_of_not_le hc)] at hm; cases hm
      rw [List.getElem?_eq_none (by rw [hlen]; exact this)]
    | some nd =>
      have hsub : subs m (f + 1) q = q :: (kidsOf nd.entries).flatMap (subs m f) := by rw [subs, hm]
      rw [hsub] at h
      rw [h q List.mem_cons_self, hm]
      simp only
      rw [eraseEntries_congr (erase m' f) (erase m f) nd.entries]
      intro c hc
      apply ih
      intro x hx
      exact h x (List.mem_cons_of_mem _ (List.mem_flatMap.mpr ⟨c, hc, hx⟩))

/-- the child pointers stored at a node -/
def kidsAt (m : Arena O) (x : Ptr) : Option (List Ptr) := (m[x]?).map (fun nd => kidsOf nd.entries)

theorem subs_congr {m m' : Arena O} (h : ∀ x, kidsAt m' x = kidsAt m x) : ∀ (f : Nat) (p : Ptr), subs m' f p = subs m f p := by
  intro f
  induction f with
  | zero => intro p; rfl
  | succ f ih =>
    intro p
    have hp := h p
    unfold kidsAt at hp
    have hfun : subs m' f = subs m f := funext ih
    rw [subs, subs, hfun]
    cases h1 : m'[p]? with
    | none =>
      cases h2 : m[p]? with
      | none => rfl
      | some b => rw [h1, h2] at hp; simp at hp
    | some a =>
      cases h2 : m[p]? with
      | none => rw [h1, h2] at hp; simp at hp
      | some b =>
        rw [h1, h2] at hp
        simp only [Option.map_some, Option.some.injEq] at hp
        simp only [hp]

theorem setBB_cons_zero (a : HEntry O) (es : List (HEntry O)) (b : Box) :
    setBB (a :: es) 0 b = { a with bb := b } :: es := by
  simp [setBB]

theorem setBB_cons_succ (a : HEntry O) (es : List (HEntry O)) (i : Nat) (b : Box) :
    setBB (a :: es) (i + 1) b = a :: setBB es i b := by
  simp [setBB]

theorem kidsOf_setBB : ∀ (es : List (HEntry O)) (k : Nat) (b : Box), kidsOf (setBB es k b) = kidsOf es
  | [], k, b => by simp [setBB]
  | a :: es, 0, b => by rw [setBB_cons_zero, kidsOf_cons, kidsOf_cons]
  | a :: es, k + 1, b => by rw [setBB_cons_succ, kidsOf_cons, kidsOf_cons, kidsOf_setBB es k b]

/-- rewriting the box of entry `i` (whose child was rebuilt and now reads `c'`), all other children reading as before -/
theorem eraseEntries_setBB (r r' : Ptr → Option (Node O)) (bb : Box) (c : Ptr) (c' : Node O) :
    ∀ (es : List (HEntry O)) (es' : List (Entry O)) (i : Nat) (e : HEntry O),
      eraseEntries r es = some es' → es[i]? = some e → e.child = some c → r' c = some c' →
      (∀ j e2 c2, j ≠ i → es[j]? = some e2 → e2.child = some c2 → r' c2 = r c2) →
      eraseEntries r' (setBB es i bb) = some (es'.set i (.child bb c')) := by
  intro es
  induction es with
  | nil => intro es' i e _ hi; simp at hi
  | cons a es ih =>
    intro es' i e h hi hc hr' hoth
    have hrest : ∀ j e2 c2, es[j]? = some e2 → e2.child = some c2 → j + 1 ≠ i → r' c2 = r c2 := by
      intro j e2 c2 h1 h2 h3
      exact hoth (j + 1) e2 c2 h3 (by simpa using h1) h2
    rw [eraseEntries] at h
    cases i with
    | zero =>
      simp only [List.getElem?_cons_zero, Option.some.injEq] at hi
      subst hi
      rw [setBB_cons_zero, eraseEntries]
      simp only [hc] at h ⊢
      cases ho : a.obj with
      | some o' => simp [ho] at h
      | none =>
        simp only [ho] at h ⊢
        cases hrc : r c with
        | none => simp [hrc] at h
        | some cn =>
          cases hre : eraseEntries r es with
          | none => simp [hrc, hre] at h
          | some rest =>
            simp [hrc, hre] at h; subst h
            have : eraseEntries r' es = eraseEntries r es := by
              apply eraseEntries_congr
              intro c2 hc2
              unfold kidsOf at hc2
              obtain ⟨e2, he2, hce2⟩ := List.mem_filterMap.mp hc2
              obtain ⟨j, hj⟩ := List.getElem?_of_mem he2
              exact hrest j e2 c2 hj hce2 (by omega)
            simp [hr', this, hre]
    | succ i =>
      simp only [List.getElem?_cons_succ] at hi
      rw [setBB_cons_succ, eraseEntries]
      have ih' := fun rest (hre : eraseEntries r es = some rest) => ih rest i e hre hi hc hr'
        (fun j e2 c2 hj h1 h2 => hrest j e2 c2 h1 h2 (by omega))
      rcases hca : a.child with _ | ca <;> rcases ho : a.obj with _ | o' <;> simp only [hca, ho] at h ⊢
      · cases h
      · cases hre : eraseEntries r es with
        | none => simp [hre] at h
        | some rest => simp [hre] at h; subst h; simp [ih' rest hre]
      · have hca' : r' ca = r ca := hoth 0 a ca (by omega) (by simp) hca
        cases hrc : r ca with
        | none => simp [hrc] at h
        | some cn =>
          cases hre : eraseEntries r es with
          | none => simp [hrc, hre] at h
          | some rest => simp [hrc, hre] at h; subst h; simp [hca', hrc, ih' rest hre]
      · cases h

/-- what the tree shape gives along the insertion path below `p` (decidable, local): at the node `chooseNode` stops at, the entries
hold no child pointers; at every node above it the chosen entry's child `c` exists, is not the root, has `parent` = the node,
`getEntry` (first entry whose child is `c`) finds the chosen index, the node is not below `c`, and no other child's subtree
contains the node or meets the subtree of `c` -/
def PathOK (H : Heur) (m : Arena O) (ebb : Box) (lvl : Nat) (root : Ptr) : Nat → Ptr → Prop
  | 0, _ => False
  | f+1, p => ∃ nd, m[p]? = some nd ∧
      if nd.leaf || nd.level == lvl then (∀ e ∈ nd.entries, e.child = none)
      else ∃ e c cd, nd.entries[H.chooseEntry (bbs nd.entries) ebb]? = some e ∧ e.child = some c ∧
        m[c]? = some cd ∧ cd.parent = some p ∧ c ≠ root ∧
        entryIdx nd.entries c = some (H.chooseEntry (bbs nd.entries) ebb) ∧
        p ∉ subs m f c ∧
        (∀ j e2 c2, j ≠ H.chooseEntry (bbs nd.entries) ebb → nd.entries[j]? = some e2 → e2.child = some c2 →
          p ∉ subs m f c2 ∧ ∀ x ∈ subs m f c, x ∉ subs m f c2) ∧
        PathOK H m ebb lvl root f c

/-- the Boolean the judge evaluates before every Insert of the arena run implies the path hypothesis -/
theorem pathOKb_sound (H : Heur) (m : Arena O) (ebb : Box) (lvl : Nat) (root : Ptr) :
    ∀ (f : Nat) (p : Ptr), pathOKb H m ebb lvl root f p = true → PathOK H m ebb lvl root f p := by
  intro f
  induction f with
  | zero => intro p h; simp [pathOKb] at h
  | succ f ih =>
    intro p h
    rw [pathOKb] at h
    cases hm : m[p]? with
    | none => rw [hm] at h; cases h
    | some nd =>
      rw [hm] at h
      simp only at h
      refine ⟨nd, by first | rfl | exact hm, ?_⟩
      by_cases hc : (nd.leaf || nd.level == lvl) = true
      · rw [if_pos hc] at h ⊢
        intro e he
        have := List.all_eq_true.mp h e he
        cases hh : e.child with
        | none => rfl
        | some c => rw [hh] at this; cases this
      · rw [if_neg hc] at h ⊢
        cases hei : nd.entries[H.chooseEntry (bbs nd.entries) ebb]? with
        | none => rw [hei] at h; cases h
        | some e =>
          rw [hei] at h; simp only at h
          cases hec : e.child with
          | none => rw [hec] at h; cases h
          | some c =>
            rw [hec] at h; simp only at h
            cases hmc : m[c]? with
            | none => rw [hmc] at h; cases h
            | some cd =>
              rw [hmc] at h
              simp only [Bool.and_eq_true, beq_iff_eq, bne_iff_ne, Bool.not_eq_true'] at h
              obtain ⟨⟨⟨⟨⟨h1, h2⟩, h3⟩, h4⟩, h5⟩, h6⟩ := h
              refine ⟨e, c, cd, by first | rfl | exact hei, hec, by first | rfl | exact hmc, h1, h2, h3, ?_, ?_, ih c h6⟩
              · intro hp
                have : (subs m f c).contains p = true := List.contains_iff_mem.mpr hp
                rw [h4] at this; cases this
              · intro j e2 c2 hj hg hc2
                have hmem : (e2, j) ∈ nd.entries.zipIdx := by
                  rw [List.mem_zipIdx_iff_getElem?]; exact hg
                have := List.all_eq_true.mp h5 (e2, j) hmem
                simp only [Bool.or_eq_true, beq_iff_eq, hc2] at this
                rcases this with this | this
                · exact absurd this hj
                · simp only [Bool.and_eq_true, Bool.not_eq_true'] at this
                  obtain ⟨a, b⟩ := this
                  refine ⟨?_, ?_⟩
                  · intro hp
                    have : (subs m f c2).contains p = true := List.contains_iff_mem.mpr hp
                    rw [a] at this; cases this
                  · intro x hx hx2
                    have h7 := List.all_eq_true.mp b x hx
                    have : (subs m f c2).contains x = true := List.contains_iff_mem.mpr hx2
                    simp [this] at h7
                    exact h7 hx2


theorem subs_self {m : Arena O} {p : Ptr} {nd : HNode O} (hm : m[p]? = some nd) (f : Nat) : p ∈ subs m (f + 1) p := by
  rw [subs, hm]; exact List.mem_cons_self

theorem subs_kid {m : Arena O} {p c : Ptr} {nd : HNode O} (hm : m[p]? = some nd) (hc : c ∈ kidsOf nd.entries) (f : Nat) :
    ∀ x ∈ subs m f c, x ∈ subs m (f + 1) p := by
  intro x hx
  rw [subs, hm]
  exact List.mem_cons_of_mem _ (List.mem_flatMap.mpr ⟨c, hc, hx⟩)

theorem getElem?_lt {α : Type} {l : List α} {i : Nat} {a : α} (h : l[i]? = some a) : i < l.length := by
  by_contra hc
  rw [List.getElem?_eq_none (Nat.le_of_not_lt hc)] at h; cases h

/-- the climb: after the append at the node `q` chooseNode returned below `p`, adjustTree from `q` reaches `p` after `d` steps in a
memory that represents at `p` the functional `insertAt` result, and that differs from the old one only inside the subtree of `p` -/
theorem adjust_climb (H : Heur) (minC maxC : Nat) (root : Ptr) (e0 : HEntry O) (e' : Entry O) (lvl : Nat)
    (hplain : e0.child = none) (he : ∀ recE : Ptr → Option (Node O), eraseEntries recE [e0] = some [e'])
    (hbb : e'.bb = e0.bb) (m0 : Arena O) (q : Ptr) (qd : HNode O) (hq : m0[q]? = some qd)
    (hroom : qd.entries.length + 1 ≤ maxC) :
    ∀ (k : Nat) (p : Ptr) (n : Node O) (g : Nat),
      erase m0 (k + 1) p = some n → PathOK H m0 e0.bb lvl root (k + 1) p →
      chooseNode H m0 g p e0.bb lvl = .ok q →
      ∃ (d : Nat) (n' : Node O) (mp : Arena O), d ≤ k ∧
        (∀ F, adjustTree H minC maxC root (F + d) (m0.set q { qd with entries := qd.entries ++ [e0] }) q none =
              adjustTree H minC maxC root F mp p none) ∧
        insertAt H minC maxC lvl e' n = .ok (n', none) ∧
        erase mp (k + 1) p = some n' ∧
        (∀ x : Ptr, x ∉ subs m0 (k + 1) p → mp[x]? = m0[x]?) ∧
        mp.length = m0.length ∧ (∀ x, kidsAt mp x = kidsAt m0 x) ∧
        (∀ x : Ptr, Option.map HNode.parent (mp[x]?) = Option.map HNode.parent (m0[x]?)) := by
  intro k
  induction k with
  | zero =>
    intro p n g hrep hpath hch
    obtain ⟨k0, nd, es', hk0, hm, hee, hn⟩ := erase_some hrep
    cases hk0; subst hn
    obtain ⟨nd2, hm2, hpo⟩ := hpath
    rw [hm] at hm2; cases hm2
    obtain ⟨g', rfl⟩ : ∃ g', g = g' + 1 := by
      cases g with
      | zero => simp [chooseNode, throw, throwThe, MonadExceptOf.throw] at hch
      | succ g' => exact ⟨g', rfl⟩
    rw [chooseNode] at hch
    simp only [deref, hm, bind, Except.bind, pure, Except.pure] at hch
    by_cases hc : (nd.leaf || nd.level == lvl) = true
    · -- chooseNode stops here
      simp only [hc, if_true, Except.ok.injEq] at hch hpo
      subst hch
      have hqd : qd = nd := by rw [hm] at hq; exact (Option.some.inj hq).symm
      rw [hqd] at hroom ⊢
      have hlen := (eraseEntries_length _ _ _ hee).1
      have hplt := getElem?_lt hm
      refine ⟨0, .mk nd.leaf nd.level (es' ++ [e']), m0.set p { nd with entries := nd.entries ++ [e0] }, Nat.le_refl _,
        fun F => rfl, ?_, ?_, ?_, by simp, ?_, ?_⟩
      · rw [insertAt_mk]
        have : ¬ ((es' ++ [e']).length > maxC) := by simp [hlen]; omega
        simp only [hc, if_true, finish, this, if_false, pure, Except.pure]
      · have := erase_set_objs hm (nd.entries ++ [e0])
          (by
            intro x hx
            rcases List.mem_append.mp hx with h1 | h1
            · exact hpo x h1
            · simp at h1; subst h1; exact hplain) 0 (es' ++ [e'])
          (eraseEntries_append _ _ _ _ _ hee (he _))
        exact this
      · intro x hx
        have : x ≠ p := by
          intro hxp; subst hxp; exact hx (subs_self hm 0)
        rw [List.getElem?_set_ne (Ne.symm this)]
      · intro x
        unfold kidsAt
        by_cases hxp : p = x
        · subst hxp
          rw [List.getElem?_set_self hplt, hm]
          simp only [Option.map_some, Option.some.injEq]
          simp [kidsOf, List.filterMap_append, hplain]
        · rw [List.getElem?_set_ne hxp]
      · intro x
        by_cases hxp : p = x
        · subst hxp
          rw [List.getElem?_set_self hplt, hm]; rfl
        · rw [List.getElem?_set_ne hxp]
    · -- a step down is impossible at erase fuel 1: the chosen child would have to be represented at fuel 0
      simp only [hc, if_false, Bool.false_eq_true] at hpo
      obtain ⟨e, c, cd, hei, hec, _⟩ := hpo
      have hg := eraseEntries_get _ nd.entries es' (H.chooseEntry (bbs nd.entries) e0.bb) hee
      rw [hei] at hg
      cases h2 : es'[H.chooseEntry (bbs nd.entries) e0.bb]? with
      | none => rw [h2] at hg; exact absurd hg (by simp)
      | some x =>
        rw [h2] at hg
        cases x with
        | obj b o => simp only at hg; rw [hg.1] at hec; cases hec
        | child b cn => simp only at hg; obtain ⟨c2, _, h0, _⟩ := hg; simp [erase] at h0
  | succ k ih =>
    intro p n g hrep hpath hch
    obtain ⟨k0, nd, es', hk0, hm, hee, hn⟩ := erase_some hrep
    cases hk0; subst hn
    obtain ⟨nd2, hm2, hpo⟩ := hpath
    rw [hm] at hm2; cases hm2
    obtain ⟨g', rfl⟩ : ∃ g', g = g' + 1 := by
      cases g with
      | zero => simp [chooseNode, throw, throwThe, MonadExceptOf.throw] at hch
      | succ g' => exact ⟨g', rfl⟩
    rw [chooseNode] at hch
    simp only [deref, hm, bind, Except.bind, pure, Except.pure] at hch
    have hplt := getElem?_lt hm
    obtain ⟨hlenE, hbbsE⟩ := eraseEntries_length _ _ _ hee
    by_cases hc : (nd.leaf || nd.level == lvl) = true
    · -- chooseNode stops here (same as the base case)
      simp only [hc, if_true, Except.ok.injEq] at hch hpo
      subst hch
      have hqd : qd = nd := by rw [hm] at hq; exact (Option.some.inj hq).symm
      rw [hqd] at hroom ⊢
      refine ⟨0, .mk nd.leaf nd.level (es' ++ [e']), m0.set p { nd with entries := nd.entries ++ [e0] }, Nat.zero_le _,
        fun F => rfl, ?_, ?_, ?_, by simp, ?_, ?_⟩
      · rw [insertAt_mk]
        have : ¬ ((es' ++ [e']).length > maxC) := by simp [hlenE]; omega
        simp only [hc, if_true, finish, this, if_false, pure, Except.pure]
      · exact erase_set_objs hm (nd.entries ++ [e0])
          (by
            intro x hx
            rcases List.mem_append.mp hx with h1 | h1
            · exact hpo x h1
            · simp at h1; subst h1; exact hplain) (k + 1) (es' ++ [e'])
          (eraseEntries_append _ _ _ _ _ hee (he _))
      · intro x hx
        have : x ≠ p := by
          intro hxp; subst hxp; exact hx (subs_self hm _)
        rw [List.getElem?_set_ne (Ne.symm this)]
      · intro x
        unfold kidsAt
        by_cases hxp : p = x
        · subst hxp
          rw [List.getElem?_set_self hplt, hm]
          simp only [Option.map_some, Option.some.injEq]
          simp [kidsOf, List.filterMap_append, hplain]
        · rw [List.getElem?_set_ne hxp]
      · intro x
        by_cases hxp : p = x
        · subst hxp
          rw [List.getElem?_set_self hplt, hm]; rfl
        · rw [List.getElem?_set_ne hxp]
    · -- one level down, then one step of adjustTree up
      simp only [hc, if_false, Bool.false_eq_true] at hpo hch
      obtain ⟨e, c, cd, hei, hec, hmc, hcpar, hcroot, hidx, hpnot, hoth, hpathc⟩ := hpo
      have hne : nd.entries.isEmpty = false := by
        cases hh : nd.entries with
        | nil => rw [hh] at hei; simp at hei
        | cons a b => rfl
      simp only [hne, Bool.false_eq_true, if_false, hei, hec] at hch
      -- the functional side of the chosen entry
      have hg := eraseEntries_get _ nd.entries es' (H.chooseEntry (bbs nd.entries) e0.bb) hee
      rw [hei] at hg
      cases h2 : es'[H.chooseEntry (bbs nd.entries) e0.bb]? with
      | none => rw [h2] at hg; exact absurd hg (by simp)
      | some x =>
        rw [h2] at hg
        cases x with
        | obj b o => simp only at hg; rw [hg.1] at hec; cases hec
        | child b cn =>
          simp only at hg
          obtain ⟨c2, hc2, hrc, hbbe⟩ := hg
          rw [hec] at hc2; cases hc2
          -- induction hypothesis at the child
          obtain ⟨d, c', mc, hd, hclimb, hins, hrepc, hframe, hlen, hkids, hpar⟩ := ih c cn g' hrc hpathc hch
          have hkid : c ∈ kidsOf nd.entries := mem_kidsOf (List.mem_of_getElem? hei) hec
          -- the node c after the climb
          obtain ⟨kc, cd', esc', hkc, hmcc, heec, hc'⟩ := erase_some hrepc
          cases hkc
          have hcpar' : cd'.parent = some p := by
            have := hpar c
            rw [hmcc, hmc] at this
            simp only [Option.map_some, Option.some.injEq] at this
            rw [this]; exact hcpar
          have hmcp : mc[p]? = some nd := by rw [hframe p hpnot]; exact hm
          have hbbc : mbr (bbs cd'.entries) = c'.bbox := by
            rw [hc']; simp only [Node.bbox, Node.entries]
            rw [(eraseEntries_length _ _ _ heec).2]
          let i := H.chooseEntry (bbs nd.entries) e0.bb
          let mp := mc.set p { nd with entries := setBB nd.entries i c'.bbox }
          have hpltc : p < mc.length := by rw [hlen]; exact hplt
          have hsubsc : ∀ f x, subs mc f x = subs m0 f x := subs_congr hkids
          refine ⟨d + 1, .mk nd.leaf nd.level (es'.set i (.child c'.bbox c')), mp, by omega, ?_, ?_, ?_, ?_, ?_, ?_, ?_⟩
          · intro F
            have : F + (d + 1) = (F + 1) + d := by omega
            rw [this, hclimb (F + 1), adjustTree]
            have hcr : (c == root) = false := by simpa using hcroot
            simp only [hcr, Bool.false_eq_true, if_false, deref, hmcc, bind, Except.bind, pure, Except.pure, hcpar', derefO,
              hmcp, Option.getD_some, hidx, computeBB, hbbc]
            rfl
          · rw [insertAt_mk]
            have hne' : es'.isEmpty = false := by
              cases hh : es' with
              | nil => rw [hh] at h2; simp at h2
              | cons a b => rfl
            simp only [hc, if_false, Bool.false_eq_true, hne', hbbsE, hbb, h2, hins, bind, Except.bind, pure, Except.pure]
            rfl
          · -- the new memory represents the rebuilt node at p
            rw [erase]
            simp only [mp, List.getElem?_set_self hpltc]
            have hr'c : erase mp (k + 1) c = some c' := by
              rw [erase_agree (m := mc) (by simp [mp]) (k + 1) c, hrepc]
              intro x hx
              have : x ≠ p := by
                intro hxp; subst hxp
                rw [hsubsc] at hx; exact hpnot hx
              simp only [mp]; rw [List.getElem?_set_ne (Ne.symm this)]
            have hoth' : ∀ j e2 c2, j ≠ i → nd.entries[j]? = some e2 → e2.child = some c2 →
                erase mp (k + 1) c2 = erase m0 (k + 1) c2 := by
              intro j e2 c2 hj h1 h2'
              obtain ⟨hp2, hdis⟩ := hoth j e2 c2 hj h1 h2'
              apply erase_agree (by simp [mp, hlen])
              intro x hx
              have hxp : x ≠ p := by intro hxp; subst hxp; exact hp2 hx
              have hxc : x ∉ subs m0 (k + 1) c := fun hxc => hdis x hxc hx
              simp only [mp]; rw [List.getElem?_set_ne (Ne.symm hxp)]
              exact hframe x hxc
            have := eraseEntries_setBB (erase m0 (k + 1)) (erase mp (k + 1)) c'.bbox c c' nd.entries es' i e hee hei hec hr'c hoth'
            simp only [mp] at this
            simp only [this, Option.map_some]
          · intro x hx
            have hxp : x ≠ p := by intro hxp; subst hxp; exact hx (subs_self hm _)
            have hxc : x ∉ subs m0 (k + 1) c := fun hxc => hx (subs_kid hm hkid (k + 1) x hxc)
            simp only [mp]; rw [List.getElem?_set_ne (Ne.symm hxp)]
            exact hframe x hxc
          · simp [mp, hlen]
          · intro x
            by_cases hxp : p = x
            · subst hxp
              unfold kidsAt
              simp only [mp, List.getElem?_set_self hpltc, hm, Option.map_some, kidsOf_setBB]
            · have := hkids x
              unfold kidsAt at this ⊢
              simp only [mp]; rw [List.getElem?_set_ne hxp]; exact this
          · intro x
            by_cases hxp : p = x
            · subst hxp
              simp only [mp, List.getElem?_set_self hpltc, hm, Option.map_some]
            · simp only [mp]; rw [List.getElem?_set_ne hxp]; exact hpar x

/-- **C11_heap_insert_nosplit_refines_partial** — `Insert` of the pointer-level model into a represented tree of ANY height, when the
leaf `chooseNode` reaches has room (so no node splits): chooseNode down the stored child pointers, the append, and `adjustTree` UP
THE STORED `parent` FIELDS (one `getEntry` + one box rewrite per level) yield a memory that represents exactly the functional
`Insert` result at the root; Size + 1, Depth unchanged, no fault on either side.  Hypothesis `PathOK` (decidable, local to the
insertion path; see its definition) is what the tree shape provides there.  `_partial`: splits (overflow) are not covered, and
`PathOK` is assumed, not derived from `ParentOK`. -/
theorem C11_heap_insert_nosplit_refines_partial [Bounded O] (H : Heur) (fuel k : Nat) (t : HTree O) (o : O) (n : Node O)
    (q : Ptr) (qd : HNode O) (hrep : erase t.mem (k + 1) t.root = some n)
    (hpath : PathOK H t.mem (Bounded.bounds o) 1 t.root (k + 1) t.root)
    (hch : chooseNode H t.mem fuel t.root (Bounded.bounds o) 1 = .ok q) (hq : t.mem[q]? = some qd)
    (hroom : qd.entries.length + 1 ≤ t.maxC) (hfuel : k + 1 ≤ fuel) :
    ∃ T' t', (HTree.absTree t n).insert H o = .ok T' ∧ HTree.insert H fuel t o = .ok t' ∧
      erase t'.mem (k + 1) t'.root = some T'.root ∧ t'.size = T'.size ∧ t'.height = T'.height ∧
      t'.minC = T'.minC ∧ t'.maxC = T'.maxC := by
  obtain ⟨d, n', mp, hd, hclimb, hins, hrep', _, _, _, _⟩ :=
    adjust_climb H t.minC t.maxC t.root { bb := Bounded.bounds o, child := none, obj := some o }
      (Entry.obj (Bounded.bounds o) o) 1 rfl (fun _ => by simp [eraseEntries]) rfl t.mem q qd hq hroom k t.root n fuel
      hrep hpath hch
  obtain ⟨F, hF⟩ : ∃ F, fuel = (F + 1) + d := ⟨fuel - d - 1, by omega⟩
  have hroom' : ¬ (qd.entries.length + 1 > t.maxC) := by omega
  refine ⟨{ minC := t.minC, maxC := t.maxC, root := n', size := t.size + 1, height := t.height },
          { t with mem := mp, size := t.size + 1 }, ?_, ?_, hrep', rfl, rfl, rfl, rfl⟩
  · unfold Tree.insert Tree.insertEntry
    simp only [HTree.absTree, hins, bind, Except.bind, pure, Except.pure]
  · unfold HTree.insert insertEntry
    simp only [hch, deref, hq, bind, Except.bind, pure, Except.pure, setChildParent, hroom', if_false]
    have := hclimb (F + 1)
    rw [← hF] at this
    rw [this, adjustTree]
    simp only [beq_self_eq_true, if_true, pure, Except.pure]

/-- non-vacuity: `PathOK` and the other hypotheses hold of a concrete two-level tree (root 0 over the leaf 1, Go heuristics) -/
example :
    let m : Arena Nat :=
      [{ parent := none, leaf := false, level := 2, entries := [⟨⟨0, 0, 1, 1⟩, some 1, none⟩] },
       { parent := some 0, leaf := true, level := 1, entries := [⟨⟨0, 0, 1, 1⟩, none, some 7⟩] }]
    PathOK goHeur m ⟨0, 0, 0, 0⟩ 1 0 2 0 ∧ chooseNode goHeur m 2 0 ⟨0, 0, 0, 0⟩ 1 = .ok 1 ∧ ∃ n, erase m 2 0 = some n := by
  intro m
  refine ⟨?_, rfl, _, rfl⟩
  refine ⟨_, rfl, ?_⟩
  have hi : goHeur.chooseEntry (bbs [(⟨⟨0, 0, 1, 1⟩, some 1, none⟩ : HEntry Nat)]) ⟨0, 0, 0, 0⟩ = 0 := by decide +kernel
  simp only [Bool.false_or, show ((2 : Nat) == 1) = false from rfl, Bool.false_eq_true, if_false, hi]
  refine ⟨_, 1, _, rfl, rfl, rfl, rfl, by decide, rfl, by simp [subs, kidsOf, m], ?_, ?_⟩
  · intro j e2 c2 hj h1 _
    cases j with
    | zero => exact absurd rfl hj
    | succ j => simp at h1
  · exact ⟨_, rfl, by intro e he; simp at he; subst he; rfl⟩

end Heap
end GeomV.C11
