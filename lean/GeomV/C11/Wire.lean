import GeomV.Common.Geom
import GeomV.C11.Spec
/-
Line protocol shared by the C11 and C12 drivers.

  H <class> <min> <max> <kind> P <n> <box>*n O <m> (I<id>|D<id>)*m Q <nq> <box>*nq [K <nk> (<x> <y> <k>)*nk]
    => ( '|' (panic <msg> | ok <delres:-|t|f> <size> <depth> T <node> A (<cnt> <id>*cnt)*nq) )*m  [C12 tail]

  number := decimal integer | 'x' 16-hex-digit IEEE-754 pattern (decoded exactly)
  box    := minX minY maxX maxY
  node   := N <level> <leaf:0|1> <parentOK:0|1> <k> entry*k | NILNODE | TRUNC
  entry  := o <id> <box> | c <box> <node>        (anything else is a malformed tree)
-/
namespace GeomV.C11
open GeomV

/-- the objects of the correspondence runs: a pool index and the object's own box -/
structure ObjRec where
  id : Nat
  box : Box
deriving DecidableEq, Repr

instance : Bounded ObjRec := ⟨fun o => o.box⟩

def pNum (s : String) : Option Rat :=
  if s.startsWith "x" then (parseU64 ((s.drop 1).toString)).bind bitsToRat
  else s.toInt?.map fun i => (i : Rat)

def pBox : Tok → Option (Box × Tok)
  | a :: b :: c :: d :: r => do
    let a ← pNum a; let b ← pNum b; let c ← pNum c; let d ← pNum d
    pure (⟨a, b, c, d⟩, r)
  | _ => none

def pBoxes : Nat → Tok → Option (List Box × Tok)
  | 0, t => some ([], t)
  | n+1, t => do let (b, t) ← pBox t; let (bs, t) ← pBoxes n t; pure (b :: bs, t)

/-- parsed tree dump: the node and whether every parent link was consistent -/
def pNode (pool : Array ObjRec) : Nat → Tok → Option (Node ObjRec × Bool × Tok)
  | 0, _ => none
  | fuel+1, "N" :: lv :: lf :: pk :: k :: t => do
    let lv ← lv.toNat?
    let k ← k.toNat?
    let rec ents : Nat → Tok → Option (List (Entry ObjRec) × Bool × Tok)
      | 0, t => some ([], true, t)
      | n+1, "o" :: id :: t => do
        let id ← id.toNat?
        let o ← pool[id]?
        let (b, t) ← pBox t
        let (es, ok, t) ← ents n t
        pure (.obj b o :: es, ok, t)
      | n+1, "c" :: t => do
        let (b, t) ← pBox t
        let (c, ok1, t) ← pNode pool fuel t
        let (es, ok2, t) ← ents n t
        pure (.child b c :: es, ok1 && ok2, t)
      | _, _ => none
    let (es, ok, t) ← ents k t
    pure (.mk (lf == "1") lv es, ok && pk == "1", t)
  | _, _ => none

def ratStr (q : Rat) : String := if q.den == 1 then toString q.num else s!"{q.num}/{q.den}"
def boxStr (b : Box) : String := s!"{ratStr b.minX},{ratStr b.minY},{ratStr b.maxX},{ratStr b.maxY}"

/-- canonical text of a tree (used to compare the implementation's dump with the model's tree) -/
def nodeStrG {O : Type} (ostr : O → String) : Node O → String
  | .mk leaf level es =>
    s!"N{level}{if leaf then "L" else "I"}[" ++ String.join (es.map fun e =>
      match h : e with
      | .obj b o => s!"o{ostr o}({boxStr b})"
      | .child b c => s!"c({boxStr b})" ++ nodeStrG ostr c) ++ "]"
termination_by n => sizeOf n
decreasing_by subst h; have := Entry.sizeOf_child_lt ‹_›; simp_wf; omega

def nodeStr (n : Node ObjRec) : String := nodeStrG (fun o => toString o.id) n

/-- number of nodes (for class tags) -/
def Node.height {O : Type} : Node O → Nat
  | .mk _ _ es => 1 + (es.map fun e =>
      match h : e with
      | .obj _ _ => 0
      | .child _ c => c.height).foldl max 0
termination_by n => sizeOf n
decreasing_by subst h; have := Entry.sizeOf_child_lt ‹_›; simp_wf; omega

/-- diagnosis only (the verdict itself is `wfNode`): the first clause of `wfNode` that fails -/
def wfDiag {O : Type} [Bounded O] (maxC : Nat) : Nat → Node O → Option String
  | h, .mk leaf level es =>
    if level != h then some s!"stored-level={level}-but-height-above-leaves={h}"
    else if leaf != (h == 1) then some s!"leaf-flag={leaf}-at-height={h}"
    else if h == 0 then some "child-entry-below-leaf-depth(leaves-not-all-at-Depth)"
    else if es.length > maxC then some s!"fan-out={es.length}>Max"
    else (es.attach.filterMap fun ⟨e, he⟩ =>
      match hm : e with
      | .obj b o =>
        if h != 1 then some s!"object-entry-{h - 1}-levels-above-leaf-depth(leaves-not-all-at-Depth)"
        else if b != Bounded.bounds o then some "leaf-entry-box-differs-from-object-box" else none
      | .child b c =>
        if h ≤ 1 then some "child-entry-at-leaf-depth(leaves-not-all-at-Depth)"
        else match wfDiag maxC (h - 1) c with
          | some m => some m
          | none => if !isEnvelope b (c.objs.map Bounded.bounds) then
              some s!"entry-box-({boxStr b})-is-not-the-exact-envelope-of-its-subtree" else none).head?
termination_by _ n => sizeOf n
decreasing_by subst hm; have := Entry.sizeOf_child_lt he; simp_wf; omega

/-- one step of a history line: an operation, or (C12 lines) the j-th query of the `K` batch -/
inductive HStep where
  | op (name : String) (o : Op ObjRec)
  | query (j : Nat)

structure Hist where
  cls : String
  minC : Nat
  maxC : Nat
  kind : String
  pool : Array ObjRec
  ops : List (String × Op ObjRec)
  steps : List HStep
  queries : List Box
  rest : Tok

def pOps (pool : Array ObjRec) : Nat → Tok → Option (List HStep × Tok)
  | 0, t => some ([], t)
  | n+1, s :: t => do
    let id ← ((s.drop 1).toString).toNat?
    let st ← if s.startsWith "Q" then some (HStep.query id)
      else do
        let o ← pool[id]?
        -- lower case (C11 only): a silent operation, performed without a reported step
        if s.startsWith "I" || s.startsWith "i" then some (HStep.op s (Op.ins o))
        else if s.startsWith "D" || s.startsWith "d" then some (HStep.op s (Op.del o)) else none
    let (r, t) ← pOps pool n t
    pure (st :: r, t)
  | _, _ => none

def pHist : Tok → Option Hist
  | "H" :: cls :: mn :: mx :: kind :: "P" :: n :: t => do
    let mn ← mn.toNat?; let mx ← mx.toNat?; let n ← n.toNat?
    let (bs, t) ← pBoxes n t
    let pool : Array ObjRec := (bs.zipIdx.map fun (b, i) => ⟨i, b⟩).toArray
    match t with
    | "O" :: m :: t =>
      let m ← m.toNat?
      let (steps, t) ← pOps pool m t
      let ops := steps.filterMap fun st => match st with | .op n o => some (n, o) | .query _ => none
      match t with
      | "Q" :: nq :: t =>
        let nq ← nq.toNat?
        let (qs, t) ← pBoxes nq t
        pure ⟨cls, mn, mx, kind, pool, ops, steps, qs, t⟩
      | _ => none
    | _ => none
  | _ => none

/-- split a token list at every "|" (the part before the first "|" is dropped) -/
def splitBars (t : Tok) : List Tok :=
  let rec go : Tok → Tok → List Tok → List Tok
    | [], cur, acc => (cur.reverse :: acc).reverse
    | "|" :: r, cur, acc => go r [] (cur.reverse :: acc)
    | x :: r, cur, acc => go r (x :: cur) acc
  (go t [] []).drop 1

/-- `<cnt> <id>*cnt` -/
def pIds (pool : Array ObjRec) : Tok → Option (List ObjRec × Tok)
  | c :: t => do
    let c ← c.toNat?
    let rec go : Nat → Tok → Option (List ObjRec × Tok)
      | 0, t => some ([], t)
      | n+1, id :: t => do
        let id ← id.toNat?; let o ← pool[id]?
        let (r, t) ← go n t
        pure (o :: r, t)
      | _, _ => none
    go c t
  | [] => none

def idsStr (l : List ObjRec) : String := " ".intercalate (l.map fun o => toString o.id)

end GeomV.C11
