import GeomV.C11.Lemmas
/-
Tree-level lemmas for C11: insertEntry / Insert, delIn / condense, re-insertion, root collapse.
-/
set_option linter.unusedVariables false
set_option linter.unusedSimpArgs false
namespace GeomV.C11
variable {O : Type}

theorem wfNode_leaf_eq [Bounded O] {maxC h : Nat} {n n' : Node O} (h1 : wfNode maxC h n = true)
    (h2 : wfNode maxC h n' = true) : n'.leaf = n.leaf := by
  obtain ⟨l, v, es⟩ := n
  obtain ⟨l', v', es'⟩ := n'
  rw [wfNode_mk] at h1 h2
  simp only [Node.leaf]
  have a := h1.2.1
  have b := h2.2.1
  cases l <;> cases l' <;> simp_all

theorem wfNode_level [Bounded O] {maxC h : Nat} {n : Node O} (h1 : wfNode maxC h n = true) :
    n.level = h ∧ 1 ≤ h ∧ (n.leaf = true ↔ h = 1) ∧ n.entries.length ≤ maxC := by
  obtain ⟨l, v, es⟩ := n
  rw [wfNode_mk] at h1
  exact ⟨h1.1, h1.2.2.1, h1.2.1, h1.2.2.2.1⟩

theorem insertEntry_spec [Bounded O] {H : Heur} (hH : H.InRange) (t : Tree O) (hM : 2 ≤ t.maxC)
    (hw : wfNode t.maxC t.height t.root = true) (lvl : Nat) (e : Entry O) (hl1 : 1 ≤ lvl)
    (hle : lvl ≤ t.height) (he : wfEntry t.maxC lvl e) (hne : lvl < t.height → t.root.entries ≠ []) :
    ∃ t', t.insertEntry H e lvl = .ok t' ∧ wfNode t'.maxC t'.height t'.root = true ∧
      t'.maxC = t.maxC ∧ t'.minC = t.minC ∧ t'.size = t.size ∧ t.height ≤ t'.height ∧
      t'.root.entries ≠ [] ∧ t'.abs.Perm (t.abs ++ e.objs) ∧
      (2 ≤ t'.root.entries.length ∨
        (t'.root.leaf = t.root.leaf ∧ t.root.entries.length ≤ t'.root.entries.length)) := by
  obtain ⟨n', s, h1, h2, h3, h4, h5, h6⟩ :=
    insertAt_spec hH t.minC t.maxC (by omega) lvl e hl1 he t.root t.height hw hle hne
  unfold Tree.insertEntry
  simp only [h1, bind, Except.bind]
  cases s with
  | none =>
    refine ⟨_, rfl, h2, rfl, rfl, rfl, Nat.le_refl _, h3, by simpa [Tree.abs] using h5, Or.inr ⟨?_, h6 rfl⟩⟩
    exact wfNode_leaf_eq hw h2
  | some nn =>
    obtain ⟨hn1, hn2⟩ := h4 nn rfl
    have hh := (wfNode_level hw).2.1
    refine ⟨_, rfl, ?_, rfl, rfl, rfl, Nat.le_succ _, by simp [Node.entries], ?_, Or.inl (by simp [Node.entries])⟩
    · simp only
      rw [wfNode_mk]
      refine ⟨rfl, by simp; omega, by omega, by simpa using hM, ?_⟩
      intro x hx
      simp only [List.mem_cons, List.not_mem_nil, or_false] at hx
      rcases hx with rfl | rfl
      · exact ⟨by omega, by simpa using h2, (isEnvelope_iff _ _).mpr (wfNode.bbox_env h2 h3)⟩
      · exact ⟨by omega, by simpa using hn1, (isEnvelope_iff _ _).mpr (wfNode.bbox_env hn1 hn2)⟩
    · simpa [Tree.abs, Node.objs_mk, Entry.objs] using h5

/-! ### delete -/

theorem delIn_mk [DecidableEq O] [Bounded O] (minC : Nat) (o : O) (leaf : Bool) (level : Nat)
    (es : List (Entry O)) (i : Nat) :
    delIn minC o (.mk leaf level es) i =
      (if leaf then
        (match lastIdxOf o es with
          | none => pure none
          | some ind => pure (some (.mk leaf level (es.eraseIdx ind), [])))
      else match es[i]? with
        | none => pure none
        | some (.obj b _) =>
          if b.containsRect (Bounded.bounds o) then throw .nilDeref
          else delIn minC o (.mk leaf level es) (i + 1)
        | some (.child b c) =>
          if b.containsRect (Bounded.bounds o) then
            delIn minC o c 0 >>= fun r =>
              match r with
              | none => delIn minC o (.mk leaf level es) (i + 1)
              | some (c', del) =>
                if c'.entries.length < minC then
                  pure (some (.mk leaf level (es.eraseIdx i),
                              if c'.entries.length > 0 then del ++ [c'] else del))
                else pure (some (.mk leaf level (es.set i (.child c'.bbox c')), del))
          else delIn minC o (.mk leaf level es) (i + 1)) := by
  rw [delIn]
  split_ifs
  · rfl
  · split <;> (try dsimp only) <;> split <;> simp_all <;> rfl

theorem lastIdxOf_none [DecidableEq O] (o : O) : ∀ (es : List (Entry O)),
    lastIdxOf o es = none → ∀ b, Entry.obj b o ∉ es
  | [], _, _ => by simp
  | e :: es, h, b => by
    simp only [lastIdxOf] at h
    split at h
    · cases h
    · rename_i hn
      have ih := lastIdxOf_none o es hn b
      intro hm
      rcases List.mem_cons.mp hm with hm | hm
      · subst hm; simp at h
      · exact ih hm

theorem lastIdxOf_some [DecidableEq O] (o : O) : ∀ (es : List (Entry O)) (ind : Nat),
    lastIdxOf o es = some ind → ∃ b, es[ind]? = some (Entry.obj b o)
  | [], _, h => by simp [lastIdxOf] at h
  | e :: es, ind, h => by
    simp only [lastIdxOf] at h
    split at h
    · rename_i i hi
      cases h
      obtain ⟨b, hb⟩ := lastIdxOf_some o es i hi
      exact ⟨b, by simpa using hb⟩
    · rename_i hn
      cases e with
      | obj b o' =>
        simp only at h
        split_ifs at h with ho
        cases h; subst ho
        exact ⟨b, rfl⟩
      | child b c => simp at h

/-- what `delIn n i` looks at: a leaf scans all its entries, a non-leaf the entries `i, i+1, …` -/
def scope (n : Node O) (i : Nat) : List O :=
  if n.leaf then n.objs else (n.entries.drop i).flatMap Entry.objs

theorem scope_zero (n : Node O) : scope n 0 = n.objs := by
  obtain ⟨l, v, es⟩ := n
  unfold scope; split_ifs <;> simp [Node.objs_mk, Node.entries]

theorem scope_step (v : Nat) (es : List (Entry O)) (i : Nat) (e : Entry O) (h : es[i]? = some e) :
    scope (.mk false v es) i = e.objs ++ scope (.mk false v es) (i + 1) := by
  have hi : i < es.length := by
    by_contra hc
    rw [List.getElem?_eq_none (by omega)] at h; cases h
  have : es.drop i = e :: es.drop (i + 1) := by
    rw [List.drop_eq_getElem_cons hi]
    congr 1
    rw [List.getElem?_eq_getElem hi] at h; exact Option.some.inj h
  simp [scope, Node.leaf, Node.entries, this]

theorem wfEntry_of_leaf [Bounded O] {maxC : Nat} {e : Entry O} (h : wfEntry maxC 1 e) :
    ∃ o, e = .obj (Bounded.bounds o) o := by
  cases e with
  | obj b o => exact ⟨o, by rw [h.2]⟩
  | child b c => exact absurd h.1 (by omega)

theorem mem_of_mem_eraseIdx {α : Type} {l : List α} {i : Nat} {a : α} (h : a ∈ l.eraseIdx i) : a ∈ l :=
  (List.eraseIdx_sublist l i).subset h

theorem delIn_spec [DecidableEq O] [Bounded O] (minC maxC : Nat) (hm : 1 ≤ minC) (o : O) :
    ∀ (n : Node O) (i : Nat) (h : Nat), wfNode maxC h n = true →
      (o ∉ scope n i → delIn minC o n i = .ok none) ∧
      (o ∈ scope n i → ∃ n' del, delIn minC o n i = .ok (some (n', del)) ∧ wfNode maxC h n' = true ∧
        (∀ d ∈ del, ∃ hd, 1 ≤ hd ∧ hd < h ∧ wfNode maxC hd d = true ∧ d.entries ≠ []) ∧
        (o :: (n'.objs ++ del.flatMap Node.objs)).Perm n.objs ∧
        n.entries.length ≤ n'.entries.length + 1) := by
  intro n i
  induction n, i using delIn.induct o with
  | case1 level es i hlast =>
    intro h hw
    have hw' := (wfNode_mk ..).mp hw
    obtain ⟨hv, hl, h1, hlen, hes⟩ := hw'
    have hh : h = 1 := hl.mp rfl
    subst hh
    have hno : o ∉ scope (.mk true level es) i := by
      simp only [scope, Node.leaf, if_true, Node.objs_mk, List.mem_flatMap, not_exists, not_and]
      intro e he ho
      obtain ⟨o', rfl⟩ := wfEntry_of_leaf (hes e he)
      simp only [Entry.objs, List.mem_singleton] at ho
      subst ho
      exact lastIdxOf_none o es hlast _ he
    refine ⟨fun _ => ?_, fun hin => absurd hin hno⟩
    rw [delIn_mk]; simp [hlast, pure, Except.pure]
  | case2 level es i ind hlast =>
    intro h hw
    have hw' := (wfNode_mk ..).mp hw
    obtain ⟨hv, hl, h1, hlen, hes⟩ := hw'
    obtain ⟨b, hb⟩ := lastIdxOf_some o es ind hlast
    have hind : ind < es.length := by
      by_contra hc
      rw [List.getElem?_eq_none (by omega)] at hb; cases hb
    have hget : es[ind] = Entry.obj b o := by
      rw [List.getElem?_eq_getElem hind] at hb; exact Option.some.inj hb
    have hperm : (o :: (es.eraseIdx ind).flatMap Entry.objs).Perm (es.flatMap Entry.objs) := by
      have := (perm_eraseIdx es ind hind).flatMap_right Entry.objs
      simpa [hget, Entry.objs] using this.symm
    have hyes : o ∈ scope (.mk true level es) i := by
      simp only [scope, Node.leaf, if_true, Node.objs_mk]
      exact hperm.mem_iff.mp List.mem_cons_self
    refine ⟨fun hn => absurd hyes hn, fun _ => ?_⟩
    refine ⟨.mk true level (es.eraseIdx ind), [], ?_, ?_, by simp, ?_, ?_⟩
    · rw [delIn_mk]; simp [hlast, pure, Except.pure]
    · rw [wfNode_mk]
      refine ⟨hv, hl, h1, ?_, fun e he => hes e (mem_of_mem_eraseIdx he)⟩
      rw [List.length_eraseIdx]; split_ifs <;> omega
    · simpa [Node.objs_mk] using hperm
    · simp only [Node.entries]; rw [List.length_eraseIdx]; split_ifs <;> omega
  | case3 leaf level es i hleaf hnone =>
    intro h hw
    have hlf : leaf = false := by simpa using hleaf
    subst hlf
    have hd : es.drop i = [] := by
      apply List.drop_eq_nil_of_le
      by_contra hc
      rw [List.getElem?_eq_getElem (by omega)] at hnone; cases hnone
    refine ⟨fun _ => ?_, fun hin => ?_⟩
    · rw [delIn_mk]; simp [hnone, pure, Except.pure]
    · simp [scope, Node.leaf, Node.entries, hd] at hin
  | case4 leaf level es i hleaf b o' hget hc =>
    intro h hw
    have hw' := (wfNode_mk ..).mp hw
    obtain ⟨hv, hl, h1, hlen, hes⟩ := hw'
    have hlf : leaf = false := by simpa using hleaf
    subst hlf
    have := hes _ (List.mem_of_getElem? hget)
    have h1' : h = 1 := this.1
    exact absurd (hl.mpr h1') (by simp)
  | case5 leaf level es i hleaf b o' hget hc ih =>
    intro h hw
    have hw' := (wfNode_mk ..).mp hw
    obtain ⟨hv, hl, h1, hlen, hes⟩ := hw'
    have hlf : leaf = false := by simpa using hleaf
    subst hlf
    have := hes _ (List.mem_of_getElem? hget)
    have h1' : h = 1 := this.1
    exact absurd (hl.mpr h1') (by simp)
  | case6 leaf level es i hleaf b c hget hc ihc ihn =>
    intro h hw
    have hw' := (wfNode_mk ..).mp hw
    obtain ⟨hv, hl, h1, hlen, hes⟩ := hw'
    have hlf : leaf = false := by simpa using hleaf
    subst hlf
    have hmem := List.mem_of_getElem? hget
    obtain ⟨hh, hwc, henv⟩ := hes _ hmem
    have hi : i < es.length := by
      by_contra hc'
      rw [List.getElem?_eq_none (by omega)] at hget; cases hget
    have hgeti : es[i] = Entry.child b c := by
      rw [List.getElem?_eq_getElem hi] at hget; exact Option.some.inj hget
    have hsc := scope_step level es i _ hget
    simp only [Entry.objs] at hsc
    obtain ⟨ihc1, ihc2⟩ := ihc (h - 1) hwc
    rw [scope_zero] at ihc1 ihc2
    obtain ⟨ihn1, ihn2⟩ := ihn h hw
    have hperm0 : (es.flatMap Entry.objs).Perm (c.objs ++ (es.eraseIdx i).flatMap Entry.objs) := by
      have := (perm_eraseIdx es i hi).flatMap_right Entry.objs
      simpa [hgeti, Entry.objs] using this
    by_cases hoc : o ∈ c.objs
    · -- found below this child
      have hyes : o ∈ scope (.mk false level es) i := by rw [hsc]; exact List.mem_append_left _ hoc
      refine ⟨fun hn => absurd hyes hn, fun _ => ?_⟩
      obtain ⟨c', del, hd1, hd2, hd3, hd4, hd5⟩ := ihc2 hoc
      rw [delIn_mk]
      simp only [Bool.false_eq_true, if_false, hget, hc, if_true, hd1, bind, Except.bind]
      by_cases hunder : c'.entries.length < minC
      · simp only [hunder, if_true, pure, Except.pure]
        refine ⟨_, _, rfl, ?_, ?_, ?_, ?_⟩
        · rw [wfNode_mk]
          refine ⟨hv, hl, h1, ?_, fun e he => hes e (mem_of_mem_eraseIdx he)⟩
          rw [List.length_eraseIdx]; split_ifs <;> omega
        · intro d hd
          by_cases hpos : c'.entries.length > 0
          · simp only [hpos, if_true, List.mem_append, List.mem_singleton] at hd
            rcases hd with hd | hd
            · obtain ⟨hd', a1, a2, a3, a4⟩ := hd3 d hd
              exact ⟨hd', a1, by omega, a3, a4⟩
            · subst hd
              exact ⟨h - 1, by omega, by omega, hd2, by intro h0; rw [h0] at hpos; simp at hpos⟩
          · simp only [hpos, if_false] at hd
            obtain ⟨hd', a1, a2, a3, a4⟩ := hd3 d hd
            exact ⟨hd', a1, by omega, a3, a4⟩
        · simp only [Node.objs_mk]
          refine List.Perm.trans ?_ hperm0.symm
          have e1 : (o :: (c'.objs ++ del.flatMap Node.objs) ++ (es.eraseIdx i).flatMap Entry.objs).Perm
              (c.objs ++ (es.eraseIdx i).flatMap Entry.objs) := List.Perm.append_right _ hd4
          refine List.Perm.trans ?_ e1
          simp only [List.cons_append]
          refine List.Perm.cons _ ?_
          by_cases hpos : c'.entries.length > 0
          · simp only [hpos, if_true, List.flatMap_append, List.flatMap_cons, List.flatMap_nil, List.append_nil]
            refine List.Perm.trans List.perm_append_comm ?_
            exact List.Perm.append_right _ List.perm_append_comm
          · simp only [hpos, if_false]
            have hc0 : c'.objs = [] := by
              obtain ⟨l', v', es'⟩ := c'
              have : es' = [] := by simpa [Node.entries] using hpos
              subst this; simp [Node.objs_mk]
            rw [hc0]
            simp only [List.nil_append]
            exact List.perm_append_comm
        · simp only [Node.entries]; rw [List.length_eraseIdx]; split_ifs <;> omega
      · simp only [hunder, if_false, pure, Except.pure]
        have hc'ne : c'.entries ≠ [] := by
          intro h0; rw [h0] at hunder; simp at hunder; omega
        have hnew : wfEntry maxC h (Entry.child c'.bbox c') :=
          ⟨hh, hd2, (isEnvelope_iff _ _).mpr (wfNode.bbox_env hd2 hc'ne)⟩
        refine ⟨_, _, rfl, ?_, ?_, ?_, ?_⟩
        · rw [wfNode_mk]
          refine ⟨hv, hl, h1, by simpa using hlen, ?_⟩
          intro x hx
          rcases List.mem_or_eq_of_mem_set hx with hx | hx
          · exact hes x hx
          · subst hx; exact hnew
        · intro d hd
          obtain ⟨hd', a1, a2, a3, a4⟩ := hd3 d hd
          exact ⟨hd', a1, by omega, a3, a4⟩
        · simp only [Node.objs_mk]
          refine List.Perm.trans ?_ hperm0.symm
          have hperm1 : ((es.set i (Entry.child c'.bbox c')).flatMap Entry.objs).Perm
              (c'.objs ++ (es.eraseIdx i).flatMap Entry.objs) := by
            have := (set_perm es i (Entry.child c'.bbox c') hi).flatMap_right Entry.objs
            simpa [Entry.objs] using this
          have e1 : (o :: (c'.objs ++ del.flatMap Node.objs) ++ (es.eraseIdx i).flatMap Entry.objs).Perm
              (c.objs ++ (es.eraseIdx i).flatMap Entry.objs) := List.Perm.append_right _ hd4
          refine List.Perm.trans ?_ e1
          simp only [List.cons_append]
          refine List.Perm.cons _ ?_
          refine (List.Perm.append_right _ hperm1).trans ?_
          simp only [List.append_assoc]
          exact List.Perm.append_left _ List.perm_append_comm
        · simp [Node.entries]
    · -- not below this child: the loop continues
      have hcn := ihc1 hoc
      have hiff : o ∈ scope (.mk false level es) i ↔ o ∈ scope (.mk false level es) (i + 1) := by
        rw [hsc]; simp [hoc]
      have hstep : delIn minC o (.mk false level es) i = delIn minC o (.mk false level es) (i + 1) := by
        conv_lhs => rw [delIn_mk]
        simp only [Bool.false_eq_true, if_false, hget, hc, if_true, hcn, bind, Except.bind]
      rw [hstep, hiff]
      exact ⟨ihn1, ihn2⟩
  | case7 leaf level es i hleaf b c hget hc ihn =>
    intro h hw
    have hw' := (wfNode_mk ..).mp hw
    obtain ⟨hv, hl, h1, hlen, hes⟩ := hw'
    have hlf : leaf = false := by simpa using hleaf
    subst hlf
    have hmem := List.mem_of_getElem? hget
    obtain ⟨hh, hwc, henv⟩ := hes _ hmem
    have hsc := scope_step level es i _ hget
    simp only [Entry.objs] at hsc
    have hoc : o ∉ c.objs := by
      intro ho
      have := ((isEnvelope_iff _ _).mp henv).containsRect _ (List.mem_map_of_mem (f := Bounded.bounds) ho)
      exact hc this
    obtain ⟨ihn1, ihn2⟩ := ihn h hw
    have hiff : o ∈ scope (.mk false level es) i ↔ o ∈ scope (.mk false level es) (i + 1) := by
      rw [hsc]; simp [hoc]
    have hstep : delIn minC o (.mk false level es) i = delIn minC o (.mk false level es) (i + 1) := by
      conv_lhs => rw [delIn_mk]
      simp only [Bool.false_eq_true, if_false, hget, hc]
    rw [hstep, hiff]
    exact ⟨ihn1, ihn2⟩

/-! ### re-insertion of orphaned subtrees, root collapse -/

theorem reinsertAll_spec [Bounded O] {H : Heur} (hH : H.InRange) :
    ∀ (del : List (Node O)) (t : Tree O), 2 ≤ t.maxC → wfNode t.maxC t.height t.root = true →
      (∀ d ∈ del, ∃ hd, 1 ≤ hd ∧ hd < t.height ∧ wfNode t.maxC hd d = true ∧ d.entries ≠ []) →
      (del ≠ [] → t.root.entries ≠ []) →
      ∃ t', reinsertAll H t del = .ok t' ∧ wfNode t'.maxC t'.height t'.root = true ∧
        t'.maxC = t.maxC ∧ t'.minC = t.minC ∧ t'.size = t.size ∧ t.height ≤ t'.height ∧
        t'.abs.Perm (t.abs ++ del.flatMap Node.objs) ∧
        (2 ≤ t'.root.entries.length ∨
          (t'.root.leaf = t.root.leaf ∧ t.root.entries.length ≤ t'.root.entries.length))
  | [], t, hM, hw, _, _ => ⟨t, rfl, hw, rfl, rfl, rfl, Nat.le_refl _, by simp, Or.inr ⟨rfl, Nat.le_refl _⟩⟩
  | d :: ds, t, hM, hw, hd, hne => by
    obtain ⟨hd', a1, a2, a3, a4⟩ := hd d List.mem_cons_self
    have hlev : d.level = hd' := (wfNode_level a3).1
    have he : wfEntry t.maxC (d.level + 1) (Entry.child d.bbox d) := by
      rw [hlev]
      exact ⟨by omega, by simpa using a3, (isEnvelope_iff _ _).mpr (wfNode.bbox_env a3 a4)⟩
    obtain ⟨t1, h1, h2, h3, h4, h5, h6, h7, h8, h9⟩ :=
      insertEntry_spec hH t hM hw (d.level + 1) (Entry.child d.bbox d) (by omega) (by omega) he
        (fun _ => hne (by simp))
    obtain ⟨t2, g1, g2, g3, g4, g5, g6, g7, g8⟩ := reinsertAll_spec hH ds t1 (by omega) h2
      (fun x hx => by
        obtain ⟨hx', b1, b2, b3, b4⟩ := hd x (List.mem_cons_of_mem _ hx)
        exact ⟨hx', b1, by omega, by rw [h3]; exact b3, b4⟩)
      (fun _ => h7)
    refine ⟨t2, ?_, g2, by omega, by omega, by omega, by omega, ?_, ?_⟩
    · simp only [reinsertAll, h1, bind, Except.bind]; exact g1
    · refine g7.trans ?_
      simp only [List.flatMap_cons, Entry.objs] at h8 ⊢
      refine (List.Perm.append_right _ h8).trans ?_
      simp [List.append_assoc]
    · rcases g8 with g | ⟨g, g'⟩
      · exact Or.inl g
      · rcases h9 with k | ⟨k, k'⟩
        · exact Or.inl (by omega)
        · exact Or.inr ⟨by rw [g, k], by omega⟩

theorem collapse_leaf (v : Nat) (es : List (Entry O)) (h : Nat) :
    collapse (.mk true v es) h = .ok (.mk true v es, h) := by
  rw [collapse.eq_def]; rfl

theorem collapse_spec [Bounded O] (maxC : Nat) : ∀ (n : Node O) (h : Nat), wfNode maxC h n = true →
    (n.leaf = false → n.entries ≠ []) →
    ∃ n' h', collapse n h = .ok (n', h') ∧ wfNode maxC h' n' = true ∧ n'.objs = n.objs ∧
      (n'.leaf = false → 2 ≤ n'.entries.length) := by
  intro n
  induction n using Node.induct with
  | h l v es ih =>
    intro h hw hne
    have hw' := (wfNode_mk ..).mp hw
    obtain ⟨hv, hl, h1, hlen, hes⟩ := hw'
    cases l with
    | true => exact ⟨.mk true v es, h, collapse_leaf v es h, hw, rfl, by simp [Node.leaf]⟩
    | false =>
      have hne' : es ≠ [] := by simpa [Node.leaf, Node.entries] using hne
      match es, hne', hes, ih, hw with
      | [Entry.child b c], _, hes, ih, hw =>
        obtain ⟨hh, hwc, henv⟩ := hes _ List.mem_cons_self
        have hcne : c.leaf = false → c.entries ≠ [] := by
          intro _
          have := ((isEnvelope_iff _ _).mp henv).ne
          obtain ⟨l', v', es'⟩ := c
          intro h0; simp only [Node.entries] at h0; subst h0
          simp [Node.objs_mk] at this
        obtain ⟨n', h', k1, k2, k3, k4⟩ := ih b c List.mem_cons_self (h - 1) hwc hcne
        refine ⟨n', h', ?_, k2, ?_, k4⟩
        · simp only [collapse]; exact k1
        · rw [k3]; simp [Node.objs_mk, Entry.objs]
      | [Entry.obj b o], _, hes, ih, hw =>
        have := (hes _ List.mem_cons_self).1
        exact absurd (hl.mpr this) (by simp)
      | e1 :: e2 :: rest, _, hes, ih, hw =>
        refine ⟨_, _, ?_, hw, rfl, by simp [Node.entries]⟩
        cases e1 <;> first | rfl | (rw [collapse]; rfl) | (unfold collapse; rfl)

end GeomV.C11
