import GeomV.C11.Heap
/-
C11 — the nodes `erase` visits (`subs`) and the executable form of the path hypothesis `PathOK` of
`C11_heap_insert_nosplit_refines_partial` (ProofsHeapAdjust.lean), evaluated by the judge before every Insert of the arena run.
Core Lean only.
-/
set_option linter.unusedVariables false
namespace GeomV.C11
namespace Heap
variable {O : Type}

/-- the child pointers of an entry list, in order -/
def kidsOf (es : List (HEntry O)) : List Ptr := es.filterMap (·.child)

/-- the nodes `erase m f p` visits -/
def subs (m : Arena O) : Nat → Ptr → List Ptr
  | 0, _ => []
  | f+1, p =>
    match m[p]? with
    | none => []
    | some nd => p :: (kidsOf nd.entries).flatMap (subs m f)

/-- `PathOK` as a Boolean (sound: `pathOKb_sound`) -/
def pathOKb (H : Heur) (m : Arena O) (ebb : Box) (lvl : Nat) (root : Ptr) : Nat → Ptr → Bool
  | 0, _ => false
  | f+1, p =>
    match m[p]? with
    | none => false
    | some nd =>
      if nd.leaf || nd.level == lvl then nd.entries.all (fun e => e.child.isNone)
      else
        match nd.entries[H.chooseEntry (bbs nd.entries) ebb]? with
        | none => false
        | some e =>
          match e.child with
          | none => false
          | some c =>
            match m[c]? with
            | none => false
            | some cd =>
              (cd.parent == some p) && (c != root) &&
              (entryIdx nd.entries c == some (H.chooseEntry (bbs nd.entries) ebb)) &&
              !(subs m f c).contains p &&
              (nd.entries.zipIdx.all fun ej =>
                ej.2 == H.chooseEntry (bbs nd.entries) ebb ||
                match ej.1.child with
                | none => true
                | some c2 => !(subs m f c2).contains p && (subs m f c).all (fun x => !(subs m f c2).contains x)) &&
              pathOKb H m ebb lvl root f c

/-- the index path from `root` down to `x`, read off the STORED parent fields and `getEntry` (what condenseTree follows upwards) -/
def pathUp (m : Arena O) (root : Ptr) : Nat → Ptr → List Nat → Option (List Nat)
  | 0, _, _ => none
  | f+1, x, acc =>
    if x == root then some acc
    else
      match m[x]? with
      | none => none
      | some xd =>
        match xd.parent with
        | none => none
        | some p =>
          match m[p]? with
          | none => none
          | some pd =>
            match entryIdx pd.entries x with
            | none => none
            | some i => pathUp m root f p (i :: acc)

/-- `OnPath` (ProofsHeapCondense.lean) as a Boolean (sound: `onPathb_sound`) -/
def onPathb (m : Arena O) (root : Ptr) (minC : Nat) : Nat → Ptr → List Nat → Ptr → Bool
  | _, p, [], lp => p == lp
  | 0, _, _ :: _, _ => false
  | f+1, p, i :: rest, lp =>
    match m[p]? with
    | none => false
    | some nd =>
      match nd.entries[i]? with
      | none => false
      | some e =>
        match e.child with
        | none => false
        | some c =>
          match m[c]? with
          | none => false
          | some cd =>
            (cd.parent == some p) && (c != root) && (entryIdx nd.entries c == some i) &&
            !(subs m f c).contains p &&
            (rest.isEmpty || decide (minC ≤ cd.entries.length)) &&
            (nd.entries.zipIdx.all fun ej =>
              ej.2 == i ||
              match ej.1.child with
              | none => true
              | some c2 => !(subs m f c2).contains p && (subs m f c).all (fun x => !(subs m f c2).contains x)) &&
            onPathb m root minC f c rest lp

end Heap
end GeomV.C11
