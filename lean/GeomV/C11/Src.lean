import GeomV.C11.Proofs
import GeomV.C11.Ties.Box
import GeomV.C11.Ties.Enlarge
import GeomV.C11.Ties.Mbr
/-!
C11 theorems restated for the definitions REGENERATED from the Go source of the tree under test
(`Gen.lean`): what the box predicates of index/rtree/geom.go, as they read now, mean.
-/
namespace GeomV.C11

/-- geom.go `intersect`, as regenerated: on boxes that contain a point it is "share a point" -/
theorem C11_intersects_iff_src (big : Rat) (a b : Box) (ha : a.valid = true) (hb : b.valid = true) :
    Gen.intersect big a b = true ↔ sharePoint a b := by
  rw [C11_tie_intersect]; exact C11_intersects_iff a b ha hb

/-- geom.go `containsRect`, as regenerated: coordinate-wise containment -/
theorem C11_containsRect_src (big : Rat) (r1 r2 : Box) : Gen.containsRect big r1 r2 = true ↔
    r1.minX ≤ r2.minX ∧ r2.maxX ≤ r1.maxX ∧ r1.minY ≤ r2.minY ∧ r2.maxY ≤ r1.maxY := by
  rw [C11_tie_containsRect]; exact containsRect_iff r1 r2

/-- geom.go `enlarge` / `boundingBox`, as regenerated: exact envelope of the union -/
theorem C11_enlarge_src (big : Rat) (a b : Box) (as bs : List Box) (ha : isEnvelope a as = true)
    (hb : isEnvelope b bs = true) :
    isEnvelope (Gen.enlarge big a b) (as ++ bs) = true ∧ isEnvelope (Gen.boundingBox big a b) (as ++ bs) = true := by
  rw [C11_tie_enlarge, C11_tie_boundingBox]
  have := ((isEnvelope_iff _ _).mp ha).enlarge ((isEnvelope_iff _ _).mp hb)
  exact ⟨(isEnvelope_iff _ _).mpr this, (isEnvelope_iff _ _).mpr this⟩

/-- rtree.go `computeBoundingBox`, as regenerated: the exact envelope of a non-empty node -/
theorem C11_computeBoundingBox_src (big : Rat) (bs : List Box) (h : bs ≠ []) :
    isEnvelope (Gen.computeBoundingBox big bs) bs = true := by
  rw [C11_tie_computeBoundingBox]
  have := IsEnv.mbr (fun b : Box => b) (fun b => [b]) bs h (fun b _ => IsEnv.single b)
  simpa [List.flatMap_singleton'] using (isEnvelope_iff _ _).mpr (by simpa using this)

end GeomV.C11
