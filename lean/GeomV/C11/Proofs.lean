import GeomV.C11.Spec
