import GeomV.C11.LemmasTree
import GeomV.C11.LemmasHeur
/-
C11 — property theorems.  All of them hold for ARBITRARY in-range choice functions `H`
(`Heur.InRange`), hence for the Go heuristics (`C11_goHeur_inRange`), for their floating-point
evaluation, and for any retuning of them; for all objects with decidable equality, all boxes, all
branching parameters `1 ≤ MinChildren`, `2 ≤ MaxChildren` (this includes the property's
`2 ≤ min ≤ max/2`), all histories of any length.
-/
set_option linter.unusedVariables false
set_option linter.unusedSimpArgs false
namespace GeomV.C11
variable {O : Type}

/-- The invariant carried through histories: the property's `WF` (balance, `Depth` = leaf depth,
stored levels, exact envelopes, fan-out ≤ Max, `Size` = number of stored objects) plus the fact
that makes the code panic-free: a non-leaf root has at least two entries. -/
structure Tree.Inv [Bounded O] (t : Tree O) : Prop where
  wf : t.WF = true
  root2 : t.root.leaf = false → 2 ≤ t.root.entries.length
  minC : 1 ≤ t.minC
  maxC : 2 ≤ t.maxC

theorem Tree.WF_iff [Bounded O] (t : Tree O) :
    t.WF = true ↔ wfNode t.maxC t.height t.root = true ∧ t.size = t.abs.length ∧
      (t.root.leaf = false → t.root.entries ≠ []) := by
  simp only [Tree.WF, Bool.and_eq_true, beq_iff_eq, Bool.or_eq_true, Bool.not_eq_true',
    List.isEmpty_eq_false_iff, and_assoc]
  constructor
  · rintro ⟨a, b, c⟩
    refine ⟨a, b, fun hl => ?_⟩
    rcases c with c | c
    · rw [hl] at c; cases c
    · exact c
  · rintro ⟨a, b, c⟩
    refine ⟨a, b, ?_⟩
    cases hl : t.root.leaf with
    | true => exact Or.inl rfl
    | false => exact Or.inr (c hl)

/-- **C11_init** — `NewTree` is well-formed and empty (Size 0, Depth 1). -/
theorem C11_init [Bounded O] (minC maxC : Nat) (h1 : 1 ≤ minC) (h2 : 2 ≤ maxC) :
    (newTree minC maxC : Tree O).Inv ∧ (newTree minC maxC : Tree O).abs = [] ∧
      (newTree minC maxC : Tree O).size = 0 ∧ (newTree minC maxC : Tree O).depth = 1 := by
  refine ⟨⟨?_, by simp [newTree, Node.leaf], h1, h2⟩, by simp [newTree, Tree.abs, Node.objs_mk], rfl, rfl⟩
  rw [Tree.WF_iff]
  refine ⟨?_, by simp [newTree, Tree.abs, Node.objs_mk], by simp [newTree, Node.leaf]⟩
  simp only [newTree]; rw [wfNode_mk]; simp

/-- the decidable "share a point" test is the existence of a common point -/
theorem C11_sharePoint_iff (a b : Box) : sharePointB a b = true ↔ sharePoint a b := by
  unfold sharePointB sharePoint Box.valid Box.has
  simp only [Bool.and_eq_true, decide_eq_true_eq]
  constructor
  · rintro ⟨⟨⟨⟨⟨⟨h1, h2⟩, h3, h4⟩, h5⟩, h6⟩, h7⟩, h8⟩
    refine ⟨max a.minX b.minX, max a.minY b.minY, ⟨le_max_left _ _, max_le h1 h6, le_max_left _ _, max_le h2 h8⟩,
      ⟨le_max_right _ _, max_le h5 h3, le_max_right _ _, max_le h7 h4⟩⟩
  · rintro ⟨x, y, ⟨a1, a2, a3, a4⟩, ⟨b1, b2, b3, b4⟩⟩
    refine ⟨⟨⟨⟨⟨⟨?_, ?_⟩, ?_, ?_⟩, ?_⟩, ?_⟩, ?_⟩, ?_⟩ <;> linarith

/-- **C11_intersects_iff** — geom.go `intersect` on boxes that contain a point is exactly "the two
boxes share a point" -/
theorem C11_intersects_iff (a b : Box) (ha : a.valid = true) (hb : b.valid = true) :
    a.intersect b = true ↔ sharePoint a b := by
  rw [← C11_sharePoint_iff, intersect_iff]
  unfold sharePointB
  simp only [Bool.and_eq_true, decide_eq_true_eq, ha, hb, true_and]
  tauto

/-- **C11_search** — on a well-formed tree `SearchIntersect(q)` never panics and returns exactly
the stored objects (with multiplicity; even in storage order) whose boxes share a point with `q`:
the brute-force scan of `Spec.specSearch`.  (`q` and the object boxes contain a point.) -/
theorem C11_search [Bounded O] (t : Tree O) (hwf : t.WF = true) (q : Box) (hq : q.valid = true)
    (hobj : ∀ o ∈ t.abs, (Bounded.bounds o).valid = true) :
    t.search q = .ok (specSearch t.abs q) ∧ ∀ o, o ∈ specSearch t.abs q ↔ (o ∈ t.abs ∧ sharePoint q (Bounded.bounds o)) := by
  rw [Tree.WF_iff] at hwf
  constructor
  · unfold Tree.search
    rw [searchNode_spec q t.root hwf.1]
    congr 1
    unfold specSearch Tree.abs
    apply List.filter_congr
    intro o ho
    have hv := hobj o ho
    rw [Bool.eq_iff_iff, C11_intersects_iff _ _ hv hq, C11_sharePoint_iff]
    unfold sharePoint; constructor <;> (rintro ⟨x, y, h1, h2⟩; exact ⟨x, y, h2, h1⟩)
  · intro o
    simp [specSearch, C11_sharePoint_iff]

/-- **C11_insert** — `Insert` on a tree satisfying the invariant never panics, re-establishes the
invariant and adds exactly the object (multiset semantics); Size grows by one. -/
theorem C11_insert [Bounded O] {H : Heur} (hH : H.InRange) (t : Tree O) (hI : t.Inv) (o : O) :
    ∃ t', t.insert H o = .ok t' ∧ t'.Inv ∧ t'.abs.Perm (o :: t.abs) ∧ t'.size = t.size + 1 ∧
      t'.minC = t.minC ∧ t'.maxC = t.maxC := by
  obtain ⟨hwf, hr2, hmin, hmax⟩ := hI
  rw [Tree.WF_iff] at hwf
  obtain ⟨hw, hsz, _⟩ := hwf
  have hlev := wfNode_level hw
  obtain ⟨t1, h1, h2, h3, h4, h5, h6, h7, h8, h9⟩ :=
    insertEntry_spec hH t hmax hw 1 (.obj (Bounded.bounds o) o) (Nat.le_refl _) hlev.2.1 ⟨rfl, rfl⟩
      (fun hlt => by
        have : t.root.leaf = false := by
          cases hl : t.root.leaf with
          | false => rfl
          | true => have := hlev.2.2.1.mp hl; omega
        have := hr2 this
        intro h0; rw [h0] at this; simp at this)
  have hp : t1.abs.Perm (o :: t.abs) := by
    refine h8.trans ?_
    simp only [Entry.objs]
    exact List.perm_append_comm
  refine ⟨{ t1 with size := t1.size + 1 }, ?_, ⟨?_, ?_, by simpa [h4] using hmin, by simpa [h3] using hmax⟩,
    hp, by simp [h5], h4, h3⟩
  · simp only [Tree.insert, h1, bind, Except.bind, pure, Except.pure]
  · rw [Tree.WF_iff]
    refine ⟨h2, ?_, fun _ => h7⟩
    have := hp.length_eq
    simp only [List.length_cons] at this
    simp only [Tree.abs] at this hsz ⊢
    rw [this, h5, hsz]
  · intro hl
    simp only at hl ⊢
    rcases h9 with k | ⟨k, k'⟩
    · exact k
    · have := hr2 (by rw [← k]; exact hl)
      omega

/-- **C11_delete_absent** — `Delete` of an object that is not stored returns false, does not
panic and changes nothing. -/
theorem C11_delete_absent [DecidableEq O] [Bounded O] {H : Heur} (t : Tree O) (hI : t.Inv) (o : O)
    (ho : o ∉ t.abs) : t.delete H o = .ok (t, false) := by
  obtain ⟨hwf, hr2, hmin, hmax⟩ := hI
  rw [Tree.WF_iff] at hwf
  have := (delIn_spec t.minC t.maxC hmin o t.root 0 t.height hwf.1).1 (by rw [scope_zero]; exact ho)
  simp only [Tree.delete, this, bind, Except.bind, pure, Except.pure]

/-- **C11_delete_present** — `Delete` of a stored object returns true, does not panic,
re-establishes the invariant (condense, re-insertion of orphaned subtrees at their level, repeated
root collapse with `height--`) and removes exactly one copy of the object. -/
theorem C11_delete_present [DecidableEq O] [Bounded O] {H : Heur} (hH : H.InRange) (t : Tree O)
    (hI : t.Inv) (o : O) (ho : o ∈ t.abs) :
    ∃ t', t.delete H o = .ok (t', true) ∧ t'.Inv ∧ t'.abs.Perm (t.abs.erase o) ∧
      t'.size + 1 = t.size ∧ t'.minC = t.minC ∧ t'.maxC = t.maxC := by
  obtain ⟨hwf, hr2, hmin, hmax⟩ := hI
  rw [Tree.WF_iff] at hwf
  obtain ⟨hw, hsz, _⟩ := hwf
  have hlev := wfNode_level hw
  obtain ⟨r, del, d1, d2, d3, d4, d5⟩ :=
    (delIn_spec t.minC t.maxC hmin o t.root 0 t.height hw).2 (by rw [scope_zero]; exact ho)
  -- the root keeps at least one entry whenever something has to be re-inserted
  have hrne : del ≠ [] → r.entries ≠ [] := by
    intro hdel
    obtain ⟨d, hd⟩ := List.exists_mem_of_ne_nil _ hdel
    obtain ⟨hd', a1, a2, _, _⟩ := d3 d hd
    have : t.root.leaf = false := by
      cases hl : t.root.leaf with
      | false => rfl
      | true => have := hlev.2.2.1.mp hl; omega
    have := hr2 this
    intro h0; rw [h0] at d5; simp at d5; omega
  obtain ⟨t1, g1, g2, g3, g4, g5, g6, g7, g8⟩ :=
    reinsertAll_spec hH del { t with root := r } hmax d2 d3 hrne
  simp only at g3 g4 g5 g6 g7 g8
  -- root of t1 is a leaf or non-empty
  have ht1ne : t1.root.leaf = false → t1.root.entries ≠ [] := by
    intro hl
    rcases g8 with k | ⟨k, k'⟩
    · intro h0; rw [h0] at k; simp at k
    · have hrl : r.leaf = false := by rw [← k]; exact hl
      have : t.root.leaf = false := by rw [← wfNode_leaf_eq hw d2]; exact hrl
      have := hr2 this
      intro h0
      have k'' : r.entries.length ≤ t1.root.entries.length := k'
      rw [h0] at k''; simp only [List.length_nil] at k''; omega
  obtain ⟨r2, h2, c1, c2, c3, c4⟩ := collapse_spec t1.maxC t1.root t1.height g2 ht1ne
  have hperm : (o :: t1.abs).Perm t.abs := by
    have : (o :: t1.abs).Perm (o :: (r.objs ++ del.flatMap Node.objs)) := List.Perm.cons _ (by simpa [Tree.abs] using g7)
    exact this.trans d4
  have hperm' : t1.abs.Perm (t.abs.erase o) := by
    have := hperm.symm.erase o
    simpa using this.symm
  have hlen : t1.abs.length + 1 = t.abs.length := by
    have := hperm.length_eq; simpa using this
  refine ⟨{ t1 with root := r2, height := h2, size := t1.size - 1 }, ?_, ⟨?_, c4, by simpa [g4] using hmin, by simpa [g3] using hmax⟩,
    ?_, ?_, g4, g3⟩
  · simp only [Tree.delete, d1, g1, c1, bind, Except.bind, pure, Except.pure]
  · rw [Tree.WF_iff]
    refine ⟨c2, ?_, fun hl => ?_⟩
    · simp only [Tree.abs] at hlen hsz ⊢
      rw [c3, g5, hsz]; omega
    · have := c4 hl
      intro h0; simp only at h0 this; rw [h0] at this; simp at this
  · simpa [Tree.abs, c3] using hperm'
  · simp only [Tree.abs] at hlen hsz ⊢
    rw [g5, hsz]; omega

/-- one step of a history: never faults, keeps the invariant, follows the multiset semantics, and
`Delete` answers `true` exactly for stored objects -/
theorem C11_step [DecidableEq O] [Bounded O] {H : Heur} (hH : H.InRange) (t : Tree O) (hI : t.Inv)
    (s : List O) (hs : t.abs.Perm s) (op : Op O) :
    ∃ t' r, t.step H op = .ok (t', r) ∧ t'.Inv ∧ t'.abs.Perm (specStep s op) ∧
      t'.minC = t.minC ∧ t'.maxC = t.maxC ∧
      r = (match op with | .ins _ => none | .del o => some (specDeleteResult s o)) ∧
      (r = some false → t' = t) := by
  cases op with
  | ins o =>
    obtain ⟨t', h1, h2, h3, h4, h5, h6⟩ := C11_insert hH t hI o
    refine ⟨t', none, ?_, h2, ?_, h5, h6, rfl, by simp⟩
    · simp [Tree.step, h1, bind, Except.bind, pure, Except.pure]
    · exact h3.trans (List.Perm.cons _ hs)
  | del o =>
    by_cases ho : o ∈ t.abs
    · obtain ⟨t', h1, h2, h3, h4, h5, h6⟩ := C11_delete_present hH t hI o ho
      refine ⟨t', some true, ?_, h2, ?_, h5, h6, ?_, by simp⟩
      · simp [Tree.step, h1, bind, Except.bind, pure, Except.pure]
      · exact h3.trans (hs.erase o)
      · simp [specDeleteResult, hs.mem_iff.mp ho]
    · have h1 := C11_delete_absent (H := H) t hI o ho
      have ho' : o ∉ s := fun h => ho (hs.mem_iff.mpr h)
      refine ⟨t, some false, ?_, hI, ?_, rfl, rfl, ?_, fun _ => rfl⟩
      · simp [Tree.step, h1, bind, Except.bind, pure, Except.pure]
      · simpa [specStep, List.erase_of_not_mem ho'] using hs
      · simp [specDeleteResult, ho']

/-- histories from any state satisfying the invariant -/
theorem C11_run [DecidableEq O] [Bounded O] {H : Heur} (hH : H.InRange) :
    ∀ (ops : List (Op O)) (t : Tree O), t.Inv → ∀ (s : List O), t.abs.Perm s →
      ∃ t', runOps H t ops = .ok t' ∧ t'.Inv ∧ t'.abs.Perm (ops.foldl specStep s) ∧
        t'.minC = t.minC ∧ t'.maxC = t.maxC
  | [], t, hI, s, hs => ⟨t, rfl, hI, hs, rfl, rfl⟩
  | op :: ops, t, hI, s, hs => by
    obtain ⟨t1, r, h1, h2, h3, h4, h5, _⟩ := C11_step hH t hI s hs op
    obtain ⟨t2, g1, g2, g3, g4, g5⟩ := C11_run hH ops t1 h2 _ h3
    refine ⟨t2, ?_, g2, g3, by omega, by omega⟩
    simp [runOps, h1, g1, bind, Except.bind]

/-- **C11_reachable** — for every history of Insert/Delete calls of any length, from `NewTree(min,
max)`: no call panics; the final tree satisfies the invariant (all leaves at depth `Depth`, stored
levels right, every entry box the exact envelope of its subtree, fan-out ≤ Max); the stored
objects are the multiset semantics of the history; `Size` is their number. -/
theorem C11_reachable [DecidableEq O] [Bounded O] {H : Heur} (hH : H.InRange) (minC maxC : Nat)
    (h1 : 1 ≤ minC) (h2 : 2 ≤ maxC) (ops : List (Op O)) :
    ∃ t, runOps H (newTree minC maxC) ops = .ok t ∧ t.Inv ∧ t.WF = true ∧
      t.abs.Perm (specRun ops) ∧ t.size = (specRun ops).length ∧
      wfNode maxC t.depth t.root = true := by
  obtain ⟨hI, habs, _, _⟩ := C11_init (O := O) minC maxC h1 h2
  obtain ⟨t, g1, g2, g3, g4, g5⟩ := C11_run hH ops (newTree minC maxC) hI [] (by rw [habs])
  have hwf := (Tree.WF_iff t).mp g2.wf
  refine ⟨t, g1, g2, g2.wf, g3, ?_, ?_⟩
  · rw [hwf.2.1]; exact g3.length_eq
  · have : t.maxC = maxC := g5
    rw [← this]; exact hwf.1

/-- **C11_search_reachable** — the headline: after any history, `SearchIntersect(q)` returns
exactly (as a multiset) the brute-force scan of the objects the history has stored. -/
theorem C11_search_reachable [DecidableEq O] [Bounded O] {H : Heur} (hH : H.InRange) (minC maxC : Nat)
    (h1 : 1 ≤ minC) (h2 : 2 ≤ maxC) (ops : List (Op O)) (q : Box) (hq : q.valid = true)
    (hobj : ∀ o : O, (Bounded.bounds o).valid = true) :
    ∃ t res, runOps H (newTree minC maxC) ops = .ok t ∧ t.search q = .ok res ∧
      res.Perm (specSearch (specRun ops) q) := by
  obtain ⟨t, g1, g2, g3, g4, _⟩ := C11_reachable hH minC maxC h1 h2 ops
  obtain ⟨s1, _⟩ := C11_search t g3 q hq (fun o _ => hobj o)
  exact ⟨t, _, g1, s1, g4.filter _⟩

/-- **C11_split_partition** — for ANY in-range choice functions (seeds, next, group), `split`
never panics and its two groups are a partition (as multisets) of the overfull node's entries,
both non-empty. -/
theorem C11_split_partition {H : Heur} (hH : H.InRange) (minC : Nat) (es : List (Entry O))
    (h2 : 2 ≤ es.length) :
    ∃ l r, splitEntries H minC es = .ok (l, r) ∧ (l ++ r).Perm es ∧ l ≠ [] ∧ r ≠ [] :=
  splitEntries_spec hH minC es h2

/-- **C11_goHeur_inRange** — the exact transcription of the Go heuristics (chooseNode, pickSeeds,
pickNext) answers in range, so all theorems apply to the executable model that is compared with
the real code on every run. -/
theorem C11_goHeur_inRange : goHeur.InRange := goHeur_inRange

/-! ### non-vacuity -/

instance : Bounded Box := ⟨id⟩

/-- the hypotheses of `C11_reachable` are satisfiable: the model with the Go heuristics, (2,4) -/
example (ops : List (Op Box)) :
    ∃ t, runOps goHeur (newTree 2 4) ops = .ok t ∧ t.Inv ∧ t.abs.Perm (specRun ops) := by
  obtain ⟨t, h1, h2, _, h4, _⟩ := C11_reachable C11_goHeur_inRange 2 4 (by omega) (by omega) ops
  exact ⟨t, h1, h2, h4⟩

example : (newTree 2 4 : Tree Box).Inv := (C11_init 2 4 (by omega) (by omega)).1
example : (⟨0, 0, 1, 1⟩ : Box).valid = true := by decide +kernel
example : sharePoint ⟨0, 0, 1, 1⟩ ⟨1, 1, 2, 2⟩ := ⟨1, 1, by unfold Box.has; simp, by unfold Box.has; simp⟩

end GeomV.C11
