import GeomV.C11.ProofsHeapBase
/-
C11 — phase 4: the FAULT direction of the split refinement.  `C11_heap_split_refines` (wave 2) reads an ok-result of the arena
`split` as the functional partition.  Here the converse: when the node exists and the child pointers of its entries do not dangle,
the arena `split` faults exactly when the functional `splitEntries` faults — with the same Go panic — and otherwise succeeds.
Together: `split` on the arena and `splitEntries` agree in both directions.
-/
set_option linter.unusedVariables false
set_option linter.unusedSimpArgs false
namespace GeomV.C11
namespace Heap
variable {O O' : Type}

/-- no child pointer of the entries dangles in `m` -/
def KidsIn (m : Arena O) (es : List (HEntry O)) : Prop := ∀ e ∈ es, ∀ c, e.child = some c → c < m.length

theorem setChildParent_ok {m : Arena O} {e : HEntry O} {g : Ptr} (hk : ∀ c, e.child = some c → c < m.length) :
    ∃ m1, setChildParent m e g = .ok m1 ∧ m1.length = m.length := by
  unfold setChildParent
  cases hc : e.child with
  | none => exact ⟨m, rfl, rfl⟩
  | some c =>
    have hlt := hk c hc
    simp only [setParent, deref, List.getElem?_eq_getElem hlt, bind, Except.bind, pure, Except.pure]
    exact ⟨_, rfl, by simp⟩

theorem assign_ok {m : Arena O} {e : HEntry O} {g : Ptr} (hk : ∀ c, e.child = some c → c < m.length)
    (hg : g < m.length) : ∃ m1, assign m e g = .ok m1 ∧ m1.length = m.length := by
  obtain ⟨m0, h0, hl0⟩ := setChildParent_ok (g := g) hk
  unfold assign
  have hg0 : g < m0.length := by rw [hl0]; exact hg
  simp only [h0, bind, Except.bind, deref, List.getElem?_eq_getElem hg0, pure, Except.pure]
  exact ⟨_, rfl, by simp [hl0]⟩

theorem shapeAt_lt {m : Arena O} {i : Ptr} {x : Bool × Nat × List (HEntry O)} (h : shapeAt m i = some x) :
    i < m.length := by
  by_contra hc
  unfold shapeAt at h
  rw [List.getElem?_eq_none (Nat.le_of_not_lt hc)] at h; cases h


theorem distributeF_none (H : Heur) (minC : Nat) (l r rem : List (Entry O')) (hrem : rem ≠ [])
    (hn : rem[H.pickNext (l.map Entry.bb) (r.map Entry.bb) (rem.map Entry.bb)]? = none) :
    GeomV.C11.distribute H minC l r rem = .error .choice := by
  rw [GeomV.C11.distribute]; simp only [hrem, dite_false]
  split
  · rfl
  · rename_i e' h; rw [hn] at h; cases h

theorem distributeF_some (H : Heur) (minC : Nat) (l r rem : List (Entry O')) (hrem : rem ≠ []) (e : Entry O')
    (hn : rem[H.pickNext (l.map Entry.bb) (r.map Entry.bb) (rem.map Entry.bb)]? = some e) :
    GeomV.C11.distribute H minC l r rem =
      (if rem.length + l.length ≤ minC then
        GeomV.C11.distribute H minC (l ++ [e]) r (rem.eraseIdx (H.pickNext (l.map Entry.bb) (r.map Entry.bb) (rem.map Entry.bb)))
      else if rem.length + r.length ≤ minC then
        GeomV.C11.distribute H minC l (r ++ [e]) (rem.eraseIdx (H.pickNext (l.map Entry.bb) (r.map Entry.bb) (rem.map Entry.bb)))
      else if H.assignLeft (l.map Entry.bb) (r.map Entry.bb) e.bb then
        GeomV.C11.distribute H minC (l ++ [e]) r (rem.eraseIdx (H.pickNext (l.map Entry.bb) (r.map Entry.bb) (rem.map Entry.bb)))
      else GeomV.C11.distribute H minC l (r ++ [e]) (rem.eraseIdx (H.pickNext (l.map Entry.bb) (r.map Entry.bb) (rem.map Entry.bb)))) := by
  conv_lhs => rw [GeomV.C11.distribute]
  simp only [hrem, dite_false]
  split
  · rename_i h; rw [hn] at h; cases h
  · rename_i e' h; rw [hn] at h; cases h; rfl

/-- the `for len(remaining) > 0` loop on the arena faults exactly where the functional `distribute` faults -/
theorem distribute_total (H : Heur) (minC : Nat) (φ : HEntry O → Entry O') (hφ : ∀ e, (φ e).bb = e.bb)
    (left right : Ptr) (hne : left ≠ right) :
    ∀ (fuel : Nat) (rem : List (HEntry O)) (m : Arena O) (a a' : Bool) (b b' : Nat) (l r : List (HEntry O)),
      fuel = rem.length → shapeAt m left = some (a, b, l) → shapeAt m right = some (a', b', r) → KidsIn m rem →
      match GeomV.C11.distribute H minC (l.map φ) (r.map φ) (rem.map φ) with
      | .error x => Heap.distribute H minC left right fuel rem m = .error (.go x)
      | .ok _ => ∃ m', Heap.distribute H minC left right fuel rem m = .ok m' ∧ m'.length = m.length := by
  intro fuel
  induction fuel with
  | zero =>
    intro rem m a a' b b' l r hf hl hr hk
    have : rem = [] := List.length_eq_zero_iff.mp hf.symm
    subst this
    rw [GeomV.C11.distribute]; simp only [List.map_nil, dite_true, pure, Except.pure]
    exact ⟨m, rfl, rfl⟩
  | succ f ih =>
    intro rem m a a' b b' l r hf hl hr hk
    have hrne : rem ≠ [] := by intro h0; subst h0; simp at hf
    have hemp : rem.isEmpty = false := by cases rem <;> simp_all
    have hll := shapeAt_lt hl
    have hrl := shapeAt_lt hr
    rw [Heap.distribute]
    simp only [hemp, Bool.false_eq_true, if_false, deref, bind, Except.bind]
    cases hml : m[left]? with
    | none => simp [shapeAt, hml] at hl
    | some ld =>
      cases hmr : m[right]? with
      | none => simp [shapeAt, hmr] at hr
      | some rd =>
        have hsl := hl
        have hsr := hr
        simp only [shapeAt, hml, hmr, Option.map_some, Option.some.injEq, Prod.mk.injEq] at hl hr
        obtain ⟨hla, hlb, hle⟩ := hl
        obtain ⟨hra, hrb, hre⟩ := hr
        simp only [pure, Except.pure, hle, hre]
        have hrne' : rem.map φ ≠ [] := by simpa using hrne
        generalize hkk : H.pickNext (bbs l) (bbs r) (bbs rem) = k
        have hkM : H.pickNext ((l.map φ).map Entry.bb) ((r.map φ).map Entry.bb) ((rem.map φ).map Entry.bb) = k := by
          rw [bbs_map φ hφ, bbs_map φ hφ, bbs_map φ hφ, hkk]
        cases hek : rem[k]? with
        | none =>
          have : (rem.map φ)[k]? = none := by rw [List.getElem?_map, hek]; rfl
          rw [distributeF_none H minC _ _ _ hrne' (by rw [hkM]; exact this)]
          simp [throw, throwThe, MonadExceptOf.throw]
        | some e =>
          have hgetM : (rem.map φ)[k]? = some (φ e) := by rw [List.getElem?_map, hek]; rfl
          have hklt : k < rem.length := by
            by_contra hc
            rw [List.getElem?_eq_none (Nat.le_of_not_lt hc)] at hek; cases hek
          have hemem : e ∈ rem := List.mem_of_getElem? hek
          have hlen : f = (rem.eraseIdx k).length := by rw [List.length_eraseIdx]; simp [hklt]; omega
          have hmapE : (rem.eraseIdx k).map φ = (rem.map φ).eraseIdx k := map_eraseIdx' φ rem k
          have hke : ∀ c, e.child = some c → c < m.length := hk e hemem
          have hk' : ∀ m1 : Arena O, m1.length = m.length → KidsIn m1 (rem.eraseIdx k) := by
            intro m1 hl1 x hx c hc
            rw [hl1]; exact hk x (mem_eraseIdx_of hx) c hc
          have goLeft :
              match GeomV.C11.distribute H minC (l.map φ ++ [φ e]) (r.map φ) ((rem.map φ).eraseIdx k) with
              | .error x => (assign m e left >>= fun m1 => distribute H minC left right f (rem.eraseIdx k) m1) = .error (.go x)
              | .ok _ => ∃ m', (assign m e left >>= fun m1 => distribute H minC left right f (rem.eraseIdx k) m1) = .ok m' ∧
                  m'.length = m.length := by
            obtain ⟨m1, ha1, hl1⟩ := assign_ok (g := left) hke hll
            obtain ⟨h1, h2⟩ := assign_shape ha1 hsl
            have := ih (rem.eraseIdx k) m1 a a' b b' (l ++ [e]) r hlen h1
              (by rw [h2 right (Ne.symm hne)]; exact hsr) (hk' m1 hl1)
            simp only [List.map_append, List.map_cons, List.map_nil, hmapE] at this
            simp only [ha1, bind, Except.bind]
            cases hd : GeomV.C11.distribute H minC (l.map φ ++ [φ e]) (r.map φ) ((rem.map φ).eraseIdx k) with
            | error x => rw [hd] at this; exact this
            | ok v => rw [hd] at this; obtain ⟨m', q1, q2⟩ := this; exact ⟨m', q1, by omega⟩
          have goRight :
              match GeomV.C11.distribute H minC (l.map φ) (r.map φ ++ [φ e]) ((rem.map φ).eraseIdx k) with
              | .error x => (assign m e right >>= fun m1 => distribute H minC left right f (rem.eraseIdx k) m1) = .error (.go x)
              | .ok _ => ∃ m', (assign m e right >>= fun m1 => distribute H minC left right f (rem.eraseIdx k) m1) = .ok m' ∧
                  m'.length = m.length := by
            obtain ⟨m1, ha1, hl1⟩ := assign_ok (g := right) hke hrl
            obtain ⟨h1, h2⟩ := assign_shape ha1 hsr
            have := ih (rem.eraseIdx k) m1 a a' b b' l (r ++ [e]) hlen
              (by rw [h2 left hne]; exact hsl) h1 (hk' m1 hl1)
            simp only [List.map_append, List.map_cons, List.map_nil, hmapE] at this
            simp only [ha1, bind, Except.bind]
            cases hd : GeomV.C11.distribute H minC (l.map φ) (r.map φ ++ [φ e]) ((rem.map φ).eraseIdx k) with
            | error x => rw [hd] at this; exact this
            | ok v => rw [hd] at this; obtain ⟨m', q1, q2⟩ := this; exact ⟨m', q1, by omega⟩
          rw [distributeF_some H minC _ _ _ hrne' (φ e) (by rw [hkM]; exact hgetM)]
          simp only [hkM, List.length_map, bbs_map φ hφ, hφ, hkk]
          simp only [bind, Except.bind] at goLeft goRight
          split_ifs
          · exact goLeft
          · exact goRight
          · exact goLeft
          · exact goRight

/-- **C11_heap_split_total** — the fault direction of the split refinement: on a node that exists and whose entries' child pointers
do not dangle (decidable; implied by the representation `erase … = some _`), for every reading `φ` that keeps the boxes,
`(*node).split` on the arena faults exactly when the functional `splitEntries` faults — same Go panic — and succeeds otherwise.
With `C11_heap_split_refines` (ok-results are the functional partition) the two agree in both directions. -/
theorem C11_heap_split_total (H : Heur) (minC : Nat) (φ : HEntry O → Entry O') (hφ : ∀ e, (φ e).bb = e.bb)
    (m : Arena O) (n : Ptr) (nd : HNode O) (hm : m[n]? = some nd) (hk : KidsIn m nd.entries) :
    match splitEntries H minC (nd.entries.map φ) with
    | .error x => split H minC m n = .error (.go x)
    | .ok _ => ∃ m' r, split H minC m n = .ok (m', n, r) := by
  have hnlt : n < m.length := by
    by_contra hc
    rw [List.getElem?_eq_none (Nat.le_of_not_lt hc)] at hm; cases hm
  obtain ⟨ce, psd, pn, al⟩ := H
  unfold split splitEntries
  simp only [deref, hm, bind, Except.bind, pure, Except.pure]
  rw [bbs_map φ hφ]
  generalize hps : psd (bbs nd.entries) = lr
  obtain ⟨li, ri⟩ := lr
  simp only [List.getElem?_map]
  cases hl : nd.entries[li]? with
  | none => simp [throw, throwThe, MonadExceptOf.throw]
  | some ls =>
    cases hr : nd.entries[ri]? with
    | none => simp [throw, throwThe, MonadExceptOf.throw]
    | some rs =>
      simp only [Option.map_some]
      by_cases hlt : li < ri
      · simp only [hlt, if_true, alloc]
        have hlsm : ls ∈ nd.entries := List.mem_of_getElem? hl
        have hrsm : rs ∈ nd.entries := List.mem_of_getElem? hr
        -- memory after `left.entries = [leftSeed]` and `right = &node{…}`
        have hlen2 : (m.set n { nd with entries := [ls] } ++
            [({ parent := nd.parent, leaf := nd.leaf, level := nd.level, entries := [rs] } : HNode O)]).length = m.length + 1 := by
          simp
        obtain ⟨m3, h3, hl3⟩ := setChildParent_ok (m := m.set n { nd with entries := [ls] } ++
            [({ parent := nd.parent, leaf := nd.leaf, level := nd.level, entries := [rs] } : HNode O)]) (e := rs)
            (g := (m.set n { nd with entries := [ls] }).length)
            (fun c hc => by rw [hlen2]; exact Nat.lt_succ_of_lt (hk rs hrsm c hc))
        obtain ⟨m4, h4, hl4⟩ := setChildParent_ok (m := m3) (e := ls) (g := n)
            (fun c hc => by rw [hl3, hlen2]; exact Nat.lt_succ_of_lt (hk ls hlsm c hc))
        simp only [h3, h4]
        have hs3 := setChildParent_shape h3
        have hs4 := setChildParent_shape h4
        have hright : (m.set n { nd with entries := [ls] }).length = m.length := by simp
        have hshL : shapeAt m4 n = some (nd.leaf, nd.level, [ls]) := by
          rw [hs4, hs3]; unfold shapeAt
          rw [List.getElem?_append_left (by simpa using hnlt), List.getElem?_set_self hnlt]; rfl
        have hshR : shapeAt m4 (m.set n { nd with entries := [ls] }).length = some (nd.leaf, nd.level, [rs]) := by
          rw [hs4, hs3]; unfold shapeAt
          rw [List.getElem?_append_right (Nat.le_refl _)]; simp
        have hkids : KidsIn m4 ((nd.entries.eraseIdx ri).eraseIdx li) := by
          intro x hx c hc
          rw [hl4, hl3, hlen2]
          exact Nat.lt_succ_of_lt (hk x (mem_eraseIdx_of (mem_eraseIdx_of hx)) c hc)
        have hd := distribute_total ⟨ce, psd, pn, al⟩ minC φ hφ n (m.set n { nd with entries := [ls] }).length
          (by rw [hright]; exact Nat.ne_of_lt hnlt) ((nd.entries.eraseIdx ri).eraseIdx li).length ((nd.entries.eraseIdx ri).eraseIdx li) m4
          nd.leaf nd.leaf nd.level nd.level [ls] [rs] rfl hshL hshR hkids
        simp only [List.map_cons, List.map_nil, map_eraseIdx'] at hd
        cases hdd : GeomV.C11.distribute ⟨ce, psd, pn, al⟩ minC [φ ls] [φ rs] (((nd.entries.map φ).eraseIdx ri).eraseIdx li) with
        | error x => rw [hdd] at hd; simp only [List.length_set] at hd; simp [hd]
        | ok v =>
          rw [hdd] at hd
          simp only [List.length_set] at hd
          obtain ⟨m', q1, _⟩ := hd
          simp only [List.length_set, q1]
          exact ⟨_, _, rfl⟩
      · simp [hlt, throw, throwThe, MonadExceptOf.throw]

/-- a representation gives the no-dangling hypothesis -/
theorem KidsIn_of_erase {m : Arena O} {recf : Nat} {es : List (HEntry O)} {es' : List (Entry O)}
    (h : eraseEntries (erase m recf) es = some es') : KidsIn m es := by
  intro e he c hc
  induction es generalizing es' with
  | nil => cases he
  | cons a es ih =>
    rw [eraseEntries] at h
    rcases hca : a.child with _ | c' <;> rcases ho : a.obj with _ | o' <;> simp only [hca, ho] at h
    · cases h
    · cases hr : eraseEntries (erase m recf) es with
      | none => simp [hr] at h
      | some r =>
        rcases List.mem_cons.mp he with rfl | he'
        · rw [hca] at hc; cases hc
        · exact ih hr he'
    · cases hrc : erase m recf c' with
      | none => simp [hrc] at h
      | some cn =>
        cases hr : eraseEntries (erase m recf) es with
        | none => simp [hrc, hr] at h
        | some r =>
          rcases List.mem_cons.mp he with rfl | he'
          · rw [hca] at hc; cases hc
            obtain ⟨_, nd, _, _, hm, _, _⟩ := erase_some hrc
            by_contra hcc
            rw [List.getElem?_eq_none (Nat.le_of_not_lt hcc)] at hm; cases hm
          · exact ih hr he'
    · cases h

/-- non-vacuity: the hypotheses of `C11_heap_split_total` hold of a concrete overflowing leaf (three object entries) -/
example :
    let m : Arena Nat := [{ parent := none, leaf := true, level := 1, entries :=
        [⟨⟨0, 0, 0, 0⟩, none, some 0⟩, ⟨⟨5, 5, 5, 5⟩, none, some 1⟩, ⟨⟨1, 1, 1, 1⟩, none, some 2⟩] }]
    ∃ nd, m[0]? = some nd ∧ KidsIn m nd.entries := by
  refine ⟨_, rfl, ?_⟩
  intro e he c hc
  simp at he
  rcases he with rfl | rfl | rfl <;> cases hc

end Heap
end GeomV.C11
