import GeomV.C11.Proofs
import GeomV.C11.ModelArith
/-
C11 — the property theorems for the heuristics evaluated in ANY arithmetic (IEEE-754 float64 with
rounding, overflow, NaN … included).  See ModelArith.lean.
-/
set_option linter.unusedVariables false
set_option linter.unusedSimpArgs false
namespace GeomV.C11
variable {O : Type}

theorem chooseEntryA_go_lt (A : Arith) (e : Box) : ∀ (l : List Box) (i : Nat) (acc : Option (A.F × A.F × Nat)),
    (∀ d c ci, acc = some (d, c, ci) → ci < i + l.length) → (acc = none → l ≠ []) →
    chooseEntryA.go A e l i acc < i + l.length
  | [], i, acc, h1, h2 => by
    cases acc with
    | none => exact absurd rfl (h2 rfl)
    | some a => obtain ⟨d, c, ci⟩ := a; simpa [chooseEntryA.go] using h1 d c ci rfl
  | b :: rest, i, acc, h1, h2 => by
    cases acc with
    | none =>
      simp only [chooseEntryA.go]
      have := chooseEntryA_go_lt A e rest (i + 1) (some (A.sub (A.size (b.union e)) (A.size b), A.size b, i))
        (fun d c ci h => by cases h; omega) (fun h => by cases h)
      simp only [List.length_cons]; omega
    | some a =>
      obtain ⟨d, c, ci⟩ := a
      simp only [chooseEntryA.go]
      have hci := h1 d c ci rfl
      simp only [List.length_cons] at hci ⊢
      split_ifs
      · have := chooseEntryA_go_lt A e rest (i + 1) (some (A.sub (A.size (b.union e)) (A.size b), A.size b, i))
          (fun d c ci h => by cases h; omega) (fun h => by cases h)
        omega
      · have := chooseEntryA_go_lt A e rest (i + 1) (some (d, c, ci))
          (fun d' c' ci' h => by cases h; omega) (fun h => by cases h)
        omega

theorem pickNextA_go_lt (A : Arith) (lbb rbb : Box) : ∀ (l : List Box) (i : Nat) (m : A.F) (best : Nat),
    best < i + l.length → pickNextA.go A lbb rbb l i m best < i + l.length
  | [], i, m, best, h => by simpa [pickNextA.go] using h
  | b :: rest, i, m, best, h => by
    simp only [pickNextA.go]
    simp only [List.length_cons] at h ⊢
    split_ifs
    · have := pickNextA_go_lt A lbb rbb rest (i + 1) (A.abs (A.sub (A.sub (A.size (lbb.union b)) (A.size lbb)) (A.sub (A.size (rbb.union b)) (A.size rbb)))) i (by omega); omega
    · have := pickNextA_go_lt A lbb rbb rest (i + 1) m best (by omega); omega

theorem pickSeedsA_lt (A : Arith) (bs : List Box) (h2 : 2 ≤ bs.length) :
    (pickSeedsA A bs).1 < (pickSeedsA A bs).2 ∧ (pickSeedsA A bs).2 < bs.length := by
  unfold pickSeedsA
  simp only
  apply foldl_inv _ (fun acc : A.F × Nat × Nat => acc.2.1 < acc.2.2 ∧ acc.2.2 < bs.length)
    (fun p : Box × Nat => p.2 < bs.length)
  · intro acc p hacc hp
    apply foldl_inv _ (fun acc : A.F × Nat × Nat => acc.2.1 < acc.2.2 ∧ acc.2.2 < bs.length)
      (fun q : Box × Nat => q.2 + p.2 + 1 < bs.length)
    · intro acc' q hacc' hq
      split_ifs
      · exact ⟨by simp; omega, by simpa using hq⟩
      · exact hacc'
    · exact hacc
    · intro q hq
      obtain ⟨e2, j⟩ := q
      have := List.mem_zipIdx_iff_getElem?.mp hq
      have hj : j < (bs.drop (p.2 + 1)).length := by
        by_contra hc
        rw [List.getElem?_eq_none (by omega)] at this; cases this
      simp only [List.length_drop] at hj
      simp only; omega
  · exact ⟨by simp, by simp; omega⟩
  · intro p hp
    obtain ⟨e1, i⟩ := p
    have := List.mem_zipIdx_iff_getElem?.mp hp
    by_contra hc
    simp only [not_lt] at hc
    rw [List.getElem?_eq_none hc] at this; cases this

/-- **C11_anyArith_inRange** — whatever the float arithmetic does (any `size`, any subtraction, any
`<`/`==`, NaN and ±Inf included), the four heuristics of the repaired code answer in range: chooseNode
picks an existing entry of a non-empty node, pickSeeds two distinct existing entries in order,
pickNext an existing remaining entry.  (Clause "no call panics", for all inputs incl. coordinates
whose areas overflow or underflow.) -/
theorem C11_anyArith_inRange (A : Arith) : (heurA A).InRange where
  choose := by
    intro bs e hne
    have := chooseEntryA_go_lt A e bs 0 none (fun _ _ _ h => by cases h) (fun _ => hne)
    simpa [heurA, chooseEntryA] using this
  seeds := fun bs h2 => pickSeedsA_lt A bs h2
  next := by
    intro l r rem hne
    have := pickNextA_go_lt A (mbr l) (mbr r) rem 0 A.negOne 0 (by
      have := List.length_pos_iff.mpr hne; omega)
    simpa [heurA, pickNextA] using this

theorem chooseEntryA_go_rat (e : Box) : ∀ (l : List Box) (i : Nat) (acc : Option (Rat × Rat × Nat)),
    chooseEntryA.go ratArith e l i acc = goChooseEntry.go e l i acc
  | [], i, acc => by cases acc <;> rfl
  | b :: rest, i, none => by
    simp only [chooseEntryA.go, goChooseEntry.go]
    exact chooseEntryA_go_rat e rest (i + 1) _
  | b :: rest, i, some (d, c, ci) => by
    simp only [chooseEntryA.go, goChooseEntry.go]
    simp only [ratArith, Bool.or_eq_true, Bool.and_eq_true, decide_eq_true_eq]
    split_ifs <;> exact chooseEntryA_go_rat e rest (i + 1) _

theorem pickNextA_go_rat (lbb rbb : Box) : ∀ (l : List Box) (i : Nat) (m : Rat) (best : Nat),
    pickNextA.go ratArith lbb rbb l i m best = goPickNext.go lbb rbb l i m best
  | [], i, m, best => rfl
  | b :: rest, i, m, best => by
    simp only [pickNextA.go, goPickNext.go]
    simp only [ratArith, decide_eq_true_eq, gt_iff_lt]
    split_ifs <;> exact pickNextA_go_rat lbb rbb rest (i + 1) _ _

/-- **C11_heurA_rat** — with exact arithmetic the arbitrary-arithmetic heuristics ARE the model's
`goHeur` (whose kernels are tied to the regenerated source definitions by Ties/*.lean). -/
theorem C11_heurA_rat : heurA ratArith = goHeur := by
  unfold heurA goHeur
  congr 1
  · funext bs e; exact chooseEntryA_go_rat e bs 0 none
  · funext bs
    simp only [pickSeedsA, goPickSeeds, ratArith, decide_eq_true_eq, gt_iff_lt]
  · funext l r rem; exact pickNextA_go_rat (mbr l) (mbr r) rem 0 (-1) 0
  · funext l r e
    simp only [assignLeftA, goAssignLeft, ratArith, decide_eq_true_eq, gt_iff_lt]

/-- **C11_reachable_anyArith** — the whole property for the code as it runs on float64: for every
interpretation `A` of the heuristics' arithmetic, every history from `NewTree(min,max)` runs without
panic, ends in a tree satisfying the invariant (balance, Depth, exact envelopes, fan-out, Size), stores
the multiset the history describes, and every search is the brute-force scan. -/
theorem C11_reachable_anyArith [DecidableEq O] [Bounded O] (A : Arith) (minC maxC : Nat)
    (h1 : 1 ≤ minC) (h2 : 2 ≤ maxC) (ops : List (Op O)) :
    ∃ t, runOps (heurA A) (newTree minC maxC) ops = .ok t ∧ t.Inv ∧ t.WF = true ∧
      t.abs.Perm (specRun ops) ∧ t.size = (specRun ops).length ∧
      wfNode maxC t.depth t.root = true ∧
      (∀ q : Box, q.valid = true → (∀ o : O, (Bounded.bounds o).valid = true) →
        ∃ res, t.search q = .ok res ∧ res.Perm (specSearch (specRun ops) q)) := by
  obtain ⟨t, g1, g2, g3, g4, g5, g6⟩ := C11_reachable (C11_anyArith_inRange A) minC maxC h1 h2 ops
  refine ⟨t, g1, g2, g3, g4, g5, g6, fun q hq hobj => ?_⟩
  obtain ⟨s1, _⟩ := C11_search t g3 q hq (fun o _ => hobj o)
  exact ⟨_, s1, g4.filter _⟩

/-! ### the defect repaired by fix a6a6e32, on the model of the OLD loop -/

/-- an IEEE-like corner: every area is `+Inf` (`true`), `Inf - Inf` is NaN (`false` here stands for
"not a number below anything"): no value is `<` or `==` another. -/
def overflowArith : Arith :=
  { F := Unit, size := fun _ => (), sub := fun _ _ => (), abs := fun _ => (), lt := fun _ _ => false,
    eq := fun _ _ => false, negOne := (), zero := () }

/-- **C11_chooseNode_old_defect** — the loop before the fix chooses NO entry when no enlargement
compares below `math.MaxFloat64` (areas overflowed): `chosen.child` is nil and `Insert` panics.  The
repaired loop chooses an entry for the same arithmetic (`C11_anyArith_inRange`). -/
theorem C11_chooseNode_old_defect (bs : List Box) (e : Box) :
    chooseEntryOldA overflowArith () bs e = none ∧
      (bs ≠ [] → chooseEntryA overflowArith bs e < bs.length) := by
  refine ⟨?_, fun h => (C11_anyArith_inRange overflowArith).choose bs e h⟩
  unfold chooseEntryOldA
  suffices ∀ (l : List Box) (i : Nat), chooseEntryOldA.go overflowArith e l i () none = none from this bs 0
  intro l
  induction l with
  | nil => intro i; rfl
  | cons b rest ih => intro i; simp only [chooseEntryOldA.go, overflowArith, Bool.false_eq_true, if_false]; exact ih (i + 1)

/-- the old loop agrees with the repaired one whenever the first enlargement is below the sentinel
(all histories whose areas stay finite): stated for exact arithmetic with any sentinel `big` above the
first enlargement. -/
theorem C11_chooseEntryOld_eq_new_rat (big : Rat) (b : Box) (rest : List Box) (e : Box)
    (hbig : (b.union e).size - b.size < big) :
    chooseEntryOldA ratArith big (b :: rest) e = some (chooseEntryA ratArith (b :: rest) e) := by
  unfold chooseEntryOldA chooseEntryA
  have key : ∀ (l : List Box) (i : Nat) (d c : Rat) (ci : Nat),
      chooseEntryOldA.go ratArith e l i d (some (c, ci)) = some (chooseEntryA.go ratArith e l i (some (d, c, ci))) := by
    intro l
    induction l with
    | nil => intro i d c ci; rfl
    | cons b' rest' ih =>
      intro i d c ci
      simp only [chooseEntryOldA.go, chooseEntryA.go]
      by_cases h1 : ratArith.lt (ratArith.sub (ratArith.size (b'.union e)) (ratArith.size b')) d = true
      · simp only [h1, if_true, Bool.true_or]; exact ih _ _ _ _
      · simp only [h1, Bool.false_eq_true, if_false, Bool.false_or]
        by_cases h2 : ratArith.eq (ratArith.sub (ratArith.size (b'.union e)) (ratArith.size b')) d = true
        · simp only [h2, if_true, Bool.true_and]
          have hd : ratArith.sub (ratArith.size (b'.union e)) (ratArith.size b') = d := by
            simpa [ratArith] using h2
          split_ifs
          · rw [hd]; exact ih _ _ _ _
          · exact ih _ _ _ _
        · simp only [h2, Bool.false_eq_true, if_false, Bool.false_and]; exact ih _ _ _ _
  simp only [chooseEntryOldA.go, chooseEntryA.go]
  have : ratArith.lt (ratArith.sub (ratArith.size (b.union e)) (ratArith.size b)) big = true := by
    simpa [ratArith] using hbig
  simp only [this, if_true]
  exact key _ _ _ _ _

end GeomV.C11
