import GeomV.C11.Lemmas
/-
The exact transcriptions of the Go heuristics answer in range (`goHeur.InRange`), so every C11
theorem applies to the executable model that the correspondence runs compare with the real code.
-/
set_option linter.unusedVariables false
set_option linter.unusedSimpArgs false
namespace GeomV.C11

theorem goChooseEntry_go_lt (e : Box) : ∀ (l : List Box) (i : Nat) (acc : Option (Rat × Rat × Nat)),
    (∀ d c ci, acc = some (d, c, ci) → ci < i + l.length) → (acc = none → l ≠ []) →
    goChooseEntry.go e l i acc < i + l.length
  | [], i, acc, h1, h2 => by
    cases acc with
    | none => exact absurd rfl (h2 rfl)
    | some a => obtain ⟨d, c, ci⟩ := a; simpa [goChooseEntry.go] using h1 d c ci rfl
  | b :: rest, i, acc, h1, h2 => by
    cases acc with
    | none =>
      simp only [goChooseEntry.go]
      have := goChooseEntry_go_lt e rest (i + 1) (some ((b.union e).size - b.size, b.size, i))
        (fun d c ci h => by cases h; omega) (fun h => by cases h)
      simp only [List.length_cons]; omega
    | some a =>
      obtain ⟨d, c, ci⟩ := a
      simp only [goChooseEntry.go]
      have hci := h1 d c ci rfl
      simp only [List.length_cons] at hci ⊢
      split_ifs
      · have := goChooseEntry_go_lt e rest (i + 1) (some ((b.union e).size - b.size, b.size, i))
          (fun d c ci h => by cases h; omega) (fun h => by cases h)
        omega
      · have := goChooseEntry_go_lt e rest (i + 1) (some (d, c, ci))
          (fun d' c' ci' h => by cases h; omega) (fun h => by cases h)
        omega

theorem goPickNext_go_lt (lbb rbb : Box) : ∀ (l : List Box) (i : Nat) (m : Rat) (best : Nat),
    best < i + l.length → goPickNext.go lbb rbb l i m best < i + l.length
  | [], i, m, best, h => by simpa [goPickNext.go] using h
  | b :: rest, i, m, best, h => by
    simp only [goPickNext.go]
    simp only [List.length_cons] at h ⊢
    split_ifs
    · have := goPickNext_go_lt lbb rbb rest (i + 1) (ratAbs ((lbb.union b).size - lbb.size - ((rbb.union b).size - rbb.size))) i (by omega); omega
    · have := goPickNext_go_lt lbb rbb rest (i + 1) m best (by omega); omega

theorem foldl_inv {α β : Type} (f : β → α → β) (P : β → Prop) (Q : α → Prop)
    (hstep : ∀ b a, P b → Q a → P (f b a)) :
    ∀ (l : List α) (b : β), P b → (∀ a ∈ l, Q a) → P (l.foldl f b)
  | [], b, hb, _ => hb
  | a :: l, b, hb, hl => foldl_inv f P Q hstep l (f b a) (hstep b a hb (hl a List.mem_cons_self))
      (fun x hx => hl x (List.mem_cons_of_mem _ hx))

theorem goPickSeeds_lt (bs : List Box) (h2 : 2 ≤ bs.length) :
    (goPickSeeds bs).1 < (goPickSeeds bs).2 ∧ (goPickSeeds bs).2 < bs.length := by
  unfold goPickSeeds
  simp only
  apply foldl_inv _ (fun acc : Rat × Nat × Nat => acc.2.1 < acc.2.2 ∧ acc.2.2 < bs.length)
    (fun p : Box × Nat => p.2 < bs.length)
  · intro acc p hacc hp
    apply foldl_inv _ (fun acc : Rat × Nat × Nat => acc.2.1 < acc.2.2 ∧ acc.2.2 < bs.length)
      (fun q : Box × Nat => q.2 + p.2 + 1 < bs.length)
    · intro acc' q hacc' hq
      split_ifs
      · exact ⟨by simp; omega, by simpa using hq⟩
      · exact hacc'
    · exact hacc
    · intro q hq
      obtain ⟨e2, j⟩ := q
      have := List.mem_zipIdx_iff_getElem?.mp hq
      have hj : j < (bs.drop (p.2 + 1)).length := by
        by_contra hc
        rw [List.getElem?_eq_none (by omega)] at this; cases this
      simp only [List.length_drop] at hj
      simp only; omega
  · exact ⟨by simp, by simp; omega⟩
  · intro p hp
    obtain ⟨e1, i⟩ := p
    have := List.mem_zipIdx_iff_getElem?.mp hp
    by_contra hc
    simp only [not_lt] at hc
    rw [List.getElem?_eq_none hc] at this; cases this

/-- the model's heuristics (the exact transcription of the Go code) are in range -/
theorem goHeur_inRange : goHeur.InRange where
  choose := by
    intro bs e hne
    have := goChooseEntry_go_lt e bs 0 none (fun _ _ _ h => by cases h) (fun _ => hne)
    simpa [goHeur, goChooseEntry] using this
  seeds := fun bs h2 => goPickSeeds_lt bs h2
  next := by
    intro l r rem hne
    have := goPickNext_go_lt (mbr l) (mbr r) rem 0 (-1) 0 (by
      have := List.length_pos_iff.mpr hne; omega)
    simpa [goHeur, goPickNext] using this

end GeomV.C11
