import GeomV.C11.LemmasTree
import GeomV.C11.ProofsHeapIns
/-
C11 — phase 4: the FIRST PHASE of `Delete` (findLeaf + the index loop) of the pointer-level model refines the functional model.

The functional model fuses findLeaf, the entry removal and condenseTree's upward loop into ONE recursion `delIn`.  Here:
* `C11_delIn_findLeaf` — `delIn` and the separate functional `findLeafF` (to which the pointer-level `findLeaf` is tied by
  `C11_heap_findLeaf_refines`) agree on every node whatsoever (no well-formedness assumed): same fault, and `delIn` answers `none`
  exactly when findLeaf returns nil or a leaf that does not hold the object (the two `return false` of `Delete`).
* `C11_heap_delete_phase1_refines` — on every represented tree the pointer-level `Delete` faults in its first phase exactly when the
  functional `Delete` does (same fault), returns `false` with the memory UNTOUCHED exactly when the functional one returns `false`,
  and otherwise goes on to the removal (it can then only answer `true`).
-/
set_option linter.unusedVariables false
set_option linter.unusedSimpArgs false
namespace GeomV.C11
namespace Heap
variable {O : Type}

/-- `Delete` goes on to remove an entry: findLeaf returned a leaf and the index loop found the object in it -/
def foundF [DecidableEq O] (o : O) : Option (Node O) → Bool
  | some lf => holdsObjF o lf.entries
  | none => false

theorem lastIdxOf_isSome [DecidableEq O] (o : O) : ∀ (es : List (Entry O)),
    (lastIdxOf o es).isSome = holdsObjF o es
  | [] => rfl
  | e :: es => by
    have ih := lastIdxOf_isSome o es
    unfold holdsObjF at ih ⊢
    rw [List.any_cons, ← ih]
    simp only [lastIdxOf]
    cases h : lastIdxOf o es with
    | some i => simp
    | none =>
      cases e with
      | obj b o' => by_cases ho : o' = o <;> simp [ho]
      | child b c => simp

theorem lastIdx_isSome [DecidableEq O] (o : O) : ∀ (es : List (HEntry O)),
    (lastIdx o es).isSome = holdsObj o es
  | [] => rfl
  | e :: es => by
    have ih := lastIdx_isSome o es
    unfold holdsObj at ih ⊢
    rw [List.any_cons, ← ih]
    simp only [lastIdx]
    cases h : lastIdx o es with
    | some i => simp
    | none => by_cases ho : (e.obj == some o) = true <;> simp [ho]

/-- what findLeaf does from entry `i` of a non-leaf node on (the whole node for a leaf) -/
def findFrom [DecidableEq O] (ob : Box) (o : O) (n : Node O) (i : Nat) : Except Fault (Option (Node O)) :=
  if n.leaf then findLeafF ob o n else findLeafEs ob o (n.entries.drop i)

theorem findFrom_zero [DecidableEq O] (ob : Box) (o : O) (n : Node O) : findFrom ob o n 0 = findLeafF ob o n := by
  obtain ⟨l, v, es⟩ := n
  unfold findFrom
  cases l <;> simp [Node.leaf, Node.entries, findLeafF]

theorem drop_of_get {α : Type} {es : List α} {i : Nat} {e : α} (h : es[i]? = some e) :
    es.drop i = e :: es.drop (i + 1) := by
  have hi : i < es.length := by
    by_contra hc
    rw [List.getElem?_eq_none (by omega)] at h; cases h
  rw [List.drop_eq_getElem_cons hi]
  congr 1
  rw [List.getElem?_eq_getElem hi] at h; exact Option.some.inj h

/-- the fused recursion and the separate findLeaf agree at every loop position of every node -/
theorem delIn_findFrom [DecidableEq O] [Bounded O] (minC : Nat) (o : O) :
    ∀ (n : Node O) (i : Nat),
      (delIn minC o n i).map Option.isSome = (findFrom (Bounded.bounds o) o n i).map (foundF o) := by
  intro n i
  induction n, i using delIn.induct o with
  | case1 level es i hlast =>
    rw [delIn_mk]; simp only [if_true, hlast, findFrom, Node.leaf, findLeafF]
    have := lastIdxOf_isSome o es
    rw [hlast] at this
    simp [Except.map, pure, Except.pure, foundF, Node.entries, ← this]
  | case2 level es i ind hlast =>
    rw [delIn_mk]; simp only [if_true, hlast, findFrom, Node.leaf, findLeafF]
    have := lastIdxOf_isSome o es
    rw [hlast] at this
    simp [Except.map, pure, Except.pure, foundF, Node.entries, ← this]
  | case3 leaf level es i hl hnone =>
    have hl' : leaf = false := by simpa using hl
    subst hl'
    rw [delIn_mk]
    have hd : es.drop i = [] := by
      apply List.drop_eq_nil_of_le
      by_contra hc
      have : i < es.length := by omega
      rw [List.getElem?_eq_getElem this] at hnone; cases hnone
    simp [hnone, findFrom, Node.leaf, Node.entries, hd, findLeafEs, Except.map, pure, Except.pure, foundF]
  | case4 leaf level es i hl b o' hget hc =>
    have hl' : leaf = false := by simpa using hl
    subst hl'
    rw [delIn_mk]
    simp [hget, hc, findFrom, Node.leaf, Node.entries, drop_of_get hget, findLeafEs, Except.map, throw, throwThe,
      MonadExceptOf.throw]
  | case5 leaf level es i hl b o' hget hc ih =>
    have hl' : leaf = false := by simpa using hl
    subst hl'
    rw [delIn_mk]
    simp only [hget, hc, Bool.false_eq_true, if_false, ih]
    simp [findFrom, Node.leaf, Node.entries, drop_of_get hget, findLeafEs, hc]
  | case6 leaf level es i hl b c hget hc ihc ihrest =>
    have hl' : leaf = false := by simpa using hl
    subst hl'
    rw [delIn_mk]
    simp only [hget, hc, if_true, Bool.false_eq_true, if_false]
    rw [findFrom_zero] at ihc
    have hrest : findFrom (Bounded.bounds o) o (Node.mk false level es) i =
        (findLeafF (Bounded.bounds o) o c >>= fun r => match r with
          | none => findFrom (Bounded.bounds o) o (Node.mk false level es) (i + 1)
          | some lf => if holdsObjF o lf.entries then pure (some lf)
                       else findFrom (Bounded.bounds o) o (Node.mk false level es) (i + 1)) := by
      simp only [findFrom, Node.leaf, Node.entries, drop_of_get hget, Bool.false_eq_true, if_false]
      rw [findLeafEs]; simp only [hc, if_true]; rfl
    rw [hrest]
    cases hd : delIn minC o c 0 with
    | error x =>
      rw [hd] at ihc
      cases hf : findLeafF (Bounded.bounds o) o c with
      | error y => rw [hf] at ihc; simp [Except.map] at ihc; subst ihc; simp [bind, Except.bind, Except.map]
      | ok v => rw [hf] at ihc; simp [Except.map] at ihc
    | ok r =>
      rw [hd] at ihc
      cases hf : findLeafF (Bounded.bounds o) o c with
      | error y => rw [hf] at ihc; simp [Except.map] at ihc
      | ok v =>
        rw [hf] at ihc
        simp only [Except.map, Except.ok.injEq] at ihc
        cases r with
        | none =>
          have ih2 := ihrest
          simp only [bind, Except.bind]
          rw [ih2]
          cases v with
          | none => rfl
          | some lf =>
            simp only [Option.isSome, foundF] at ihc
            simp [← ihc]
        | some cd =>
          obtain ⟨c', del⟩ := cd
          cases v with
          | none => simp [foundF] at ihc
          | some lf =>
            simp only [Option.isSome, foundF] at ihc
            simp only [bind, Except.bind, ← ihc, if_true]
            by_cases hu : c'.entries.length < minC <;> simp [hu, Except.map, pure, Except.pure, foundF, ← ihc]
  | case7 leaf level es i hl b c hget hc ih =>
    have hl' : leaf = false := by simpa using hl
    subst hl'
    rw [delIn_mk]
    simp only [hget, hc, Bool.false_eq_true, if_false, ih]
    simp [findFrom, Node.leaf, Node.entries, drop_of_get hget, findLeafEs, hc]

/-- **C11_delIn_findLeaf** — the functional model's fused recursion `delIn` (findLeaf + removal + condenseTree's upward loop) against
the separate functional `findLeafF` (the one the pointer-level `findLeaf` is proved to refine), for EVERY node, well-formed or not:
`delIn` faults exactly when findLeaf faults, with the same fault; it answers `none` ("not found": `Delete` returns false) exactly when
findLeaf returns nil or a leaf that does not hold the object; otherwise it answers `some _`. -/
theorem C11_delIn_findLeaf [DecidableEq O] [Bounded O] (minC : Nat) (o : O) (n : Node O) :
    (delIn minC o n 0).map Option.isSome = (findLeafF (Bounded.bounds o) o n).map (foundF o) := by
  rw [← findFrom_zero]; exact delIn_findFrom minC o n 0

/-- the tree of the functional model that an arena tree denotes at its root -/
def HTree.absTree (t : HTree O) (n : Node O) : Tree O :=
  { minC := t.minC, maxC := t.maxC, root := n, size := t.size, height := t.height }

/-- **C11_heap_delete_phase1_refines** — `Delete` of the pointer-level model against the functional `Delete` on the tree the memory
represents (`erase t.mem f t.root = some n`), first phase (findLeaf through the stored child pointers + the index loop):
* the functional model faults there (`delIn = error e`) ⇒ the pointer code faults with the same Go panic;
* the functional model answers "not found" ⇒ the pointer code returns `false` and the WHOLE tree value (memory included) unchanged;
* the functional model finds the object ⇒ the pointer code does not return `false` (every ok-result carries `true`). -/
theorem C11_heap_delete_phase1_refines [DecidableEq O] [Bounded O] (H : Heur) (f : Nat) (t : HTree O) (o : O) (n : Node O)
    (hrep : erase t.mem f t.root = some n) :
    (∀ e, delIn t.minC o n 0 = .error e → HTree.delete H f t o = .error (.go e)) ∧
    (delIn t.minC o n 0 = .ok none → HTree.delete H f t o = .ok (t, false)) ∧
    (∀ r, delIn t.minC o n 0 = .ok (some r) → ∀ t' b, HTree.delete H f t o = .ok (t', b) → b = true) := by
  have hlink := C11_delIn_findLeaf t.minC o n
  have href := C11_heap_findLeaf_refines t.mem o f t.root n hrep
  refine ⟨?_, ?_, ?_⟩
  · intro e he
    rw [he] at hlink
    cases hf : findLeafF (Bounded.bounds o) o n with
    | ok v => rw [hf] at hlink; simp [Except.map] at hlink
    | error y =>
      rw [hf] at hlink href
      simp [Except.map] at hlink; subst hlink
      simp only [FindRel] at href
      unfold HTree.delete
      simp [href, bind, Except.bind]
  · intro he
    rw [he] at hlink
    cases hf : findLeafF (Bounded.bounds o) o n with
    | error y => rw [hf] at hlink; simp [Except.map] at hlink
    | ok v =>
      rw [hf] at hlink href
      simp only [Except.map, Except.ok.injEq, Option.isSome] at hlink
      cases v with
      | none =>
        simp only [FindRel] at href
        unfold HTree.delete
        simp [href, bind, Except.bind, pure, Except.pure]
      | some lf =>
        simp only [FindRel] at href
        obtain ⟨lp, f', hx, hel⟩ := href
        obtain ⟨k, nd, es', _, hm, hee, hlf⟩ := erase_some hel
        have hh := holdsObj_erase o _ _ _ hee
        subst hlf
        simp only [foundF, Node.entries] at hlink
        have hli : lastIdx o nd.entries = none := by
          have := lastIdx_isSome o nd.entries
          rw [hh, ← hlink] at this
          cases hl : lastIdx o nd.entries with
          | none => rfl
          | some j => rw [hl] at this; simp at this
        unfold HTree.delete
        simp [hx, bind, Except.bind, deref, hm, hli, pure, Except.pure]
  · intro r he t' b hdel
    rw [he] at hlink
    cases hf : findLeafF (Bounded.bounds o) o n with
    | error y => rw [hf] at hlink; simp [Except.map] at hlink
    | ok v =>
      rw [hf] at hlink href
      simp only [Except.map, Except.ok.injEq, Option.isSome] at hlink
      cases v with
      | none => simp [foundF] at hlink
      | some lf =>
        simp only [FindRel] at href
        obtain ⟨lp, f', hx, hel⟩ := href
        obtain ⟨k, nd, es', _, hm, hee, hlf⟩ := erase_some hel
        have hh := holdsObj_erase o _ _ _ hee
        subst hlf
        simp only [foundF, Node.entries] at hlink
        have hli : ∃ j, lastIdx o nd.entries = some j := by
          have := lastIdx_isSome o nd.entries
          rw [hh, ← hlink] at this
          cases hl : lastIdx o nd.entries with
          | none => rw [hl] at this; simp at this
          | some j => exact ⟨j, rfl⟩
        obtain ⟨j, hj⟩ := hli
        unfold HTree.delete at hdel
        simp only [hx, bind, Except.bind, deref, hm, hj, pure, Except.pure] at hdel
        split at hdel
        · cases hdel
        · split at hdel
          · cases hdel
          · split at hdel
            · cases hdel
            · simp only [Except.ok.injEq, Prod.mk.injEq] at hdel
              exact hdel.2.symm

/-- the functional `Delete` answers `false` exactly through `delIn = none`: with the theorem above, the pointer-level and the
functional `Delete` return `false` on the same (tree, object) pairs -/
theorem delete_false_iff [DecidableEq O] [Bounded O] (H : Heur) (t : Tree O) (o : O) :
    delIn t.minC o t.root 0 = .ok none → t.delete H o = .ok (t, false) := by
  intro h
  unfold Tree.delete
  simp [h, bind, Except.bind, pure, Except.pure]

/-! ### the root-collapse loop -/

theorem collapseF_leaf (level : Nat) (es : List (Entry O)) (h : Nat) :
    GeomV.C11.collapse (.mk true level es) h = .ok (.mk true level es, h) := by
  unfold GeomV.C11.collapse; rfl
theorem collapseF_one_child (level : Nat) (b : Box) (c : Node O) (h : Nat) :
    GeomV.C11.collapse (.mk false level [.child b c]) h = GeomV.C11.collapse c (h - 1) := by
  rw [GeomV.C11.collapse]; simp
theorem collapseF_one_obj (level : Nat) (b : Box) (o : O) (h : Nat) :
    GeomV.C11.collapse (.mk false level [.obj b o]) h = .error .nilDeref := by
  rw [GeomV.C11.collapse]; simp; rfl
theorem collapseF_nil (level : Nat) (h : Nat) :
    GeomV.C11.collapse (.mk false level ([] : List (Entry O))) h = .ok (.mk false level [], h) := by
  rw [GeomV.C11.collapse]; simp; rfl
  all_goals (intros; simp_all)
theorem collapseF_two (level : Nat) (a b : Entry O) (r : List (Entry O)) (h : Nat) :
    GeomV.C11.collapse (.mk false level (a :: b :: r)) h = .ok (.mk false level (a :: b :: r), h) := by
  rw [GeomV.C11.collapse]; simp; rfl
  all_goals (intros; simp_all)

/-- `erase` reads only `leaf`, `level`, `entries`: memories with the same shapes denote the same trees (a `.parent` write is invisible) -/
theorem erase_congr_shape {m m' : Arena O} (hs : ∀ i, shapeAt m' i = shapeAt m i) :
    ∀ (f : Nat) (p : Ptr), erase m' f p = erase m f p := by
  intro f
  induction f with
  | zero => intro p; rfl
  | succ f ih =>
    intro p
    have hfun : erase m' f = erase m f := funext ih
    have hp := hs p
    unfold shapeAt at hp
    rw [erase, erase, hfun]
    cases h1 : m'[p]? with
    | none =>
      cases h2 : m[p]? with
      | none => rfl
      | some b => rw [h1, h2] at hp; simp at hp
    | some a =>
      cases h2 : m[p]? with
      | none => rw [h1, h2] at hp; simp at hp
      | some b =>
        rw [h1, h2] at hp
        simp only [Option.map_some, Option.some.injEq, Prod.mk.injEq] at hp
        obtain ⟨x, y, z⟩ := hp
        simp only [x, y, z]

/-- **C11_heap_collapse_refines** — the root-collapse loop at the end of `Delete` on the pointer structure (`tree.root =
tree.root.entries[0].child`, `tree.root.parent = nil`, `tree.height--`, repeated) against the functional `collapse` on the tree the
memory represents: same Go panic, or a tree value whose memory represents the functional result at its new root, with the same
`height`; `size`, `MinChildren`, `MaxChildren` untouched.  Any fuel ≥ the fuel of the representation suffices. -/
theorem C11_heap_collapse_refines :
    ∀ (f : Nat) (t : HTree O) (n : Node O) (fuel : Nat), erase t.mem f t.root = some n → f ≤ fuel →
      match GeomV.C11.collapse n t.height with
      | .error e => collapse fuel t = .error (.go e)
      | .ok (n', h') => ∃ t' f', collapse fuel t = .ok t' ∧ erase t'.mem f' t'.root = some n' ∧ t'.height = h' ∧
          t'.size = t.size ∧ t'.minC = t.minC ∧ t'.maxC = t.maxC := by
  intro f
  induction f with
  | zero => intro t n fuel h; simp [erase] at h
  | succ f ih =>
    intro t n fuel h hfuel
    obtain ⟨k, nd, es', hk, hm, hee, hn⟩ := erase_some h
    cases hk
    subst hn
    obtain ⟨g, rfl⟩ : ∃ g, fuel = g + 1 := ⟨fuel - 1, by omega⟩
    have hg : f ≤ g := by omega
    rw [Heap.collapse]
    simp only [deref, hm, bind, Except.bind, pure, Except.pure]
    by_cases hl : nd.leaf = true
    · simp only [hl, collapseF_leaf, Bool.not_true, Bool.false_and, Bool.false_eq_true, if_false]
      exact ⟨t, _, rfl, by rw [← hl]; exact h, rfl, rfl, rfl, rfl⟩
    · have hl' : nd.leaf = false := by simpa using hl
      simp only [hl', Bool.not_false, Bool.true_and]
      -- the shape of the entry list decides
      cases hes : nd.entries with
      | nil =>
        rw [hes] at hee; simp [eraseEntries] at hee; subst hee
        simp only [collapseF_nil, List.length_nil]
        exact ⟨t, _, rfl, by rw [← hl']; exact h, rfl, rfl, rfl, rfl⟩
      | cons e rest =>
        cases rest with
        | cons e2 rest2 =>
          -- two or more entries: nothing to collapse
          have hlen : es'.length = (e :: e2 :: rest2).length := by
            rw [← hes]; exact (eraseEntries_length _ _ _ hee).1
          obtain ⟨a, b, r, rfl⟩ : ∃ a b r, es' = a :: b :: r := by
            match es', hlen with
            | a :: b :: r, _ => exact ⟨a, b, r, rfl⟩
          simp only [collapseF_two, List.length_cons]
          have : (rest2.length + 1 + 1 == 1) = false := by simp
          simp only [this, Bool.false_eq_true, if_false]
          exact ⟨t, _, rfl, by rw [← hl']; exact h, rfl, rfl, rfl, rfl⟩
        | nil =>
          rw [hes] at hee
          rw [eraseEntries] at hee
          simp only [List.length_singleton, beq_self_eq_true, if_true]
          rcases hc : e.child with _ | c <;> rcases ho : e.obj with _ | o' <;> simp only [hc, ho] at hee
          · cases hee
          · simp [eraseEntries] at hee; subst hee
            simp [collapseF_one_obj, nilDeref, throw, throwThe, MonadExceptOf.throw]
          · cases hrc : erase t.mem f c with
            | none => simp [hrc] at hee
            | some cn =>
              simp [hrc, eraseEntries] at hee; subst hee
              simp only [collapseF_one_child]
              -- `tree.root.parent = nil` succeeds: the child exists
              obtain ⟨k2, cd, _, _, hmc, _, _⟩ := erase_some hrc
              have hsp : setParent t.mem c none = .ok (t.mem.set c { cd with parent := none }) := by
                simp [setParent, deref, hmc, bind, Except.bind, pure, Except.pure]
              simp only [hsp]
              have hshape := setParent_shape hsp
              have hrep' : erase ({ t with root := c, mem := t.mem.set c { cd with parent := none }, height := t.height - 1 } : HTree O).mem f
                  ({ t with root := c, mem := t.mem.set c { cd with parent := none }, height := t.height - 1 } : HTree O).root = some cn := by
                simp only; rw [erase_congr_shape hshape]; exact hrc
              have := ih _ cn g hrep' hg
              simp only at this
              cases hcol : GeomV.C11.collapse cn (t.height - 1) with
              | error x => rw [hcol] at this; simpa using this
              | ok r =>
                obtain ⟨n', h'⟩ := r
                rw [hcol] at this
                simpa using this
          · cases hee


/-- non-vacuity on a concrete two-level memory (objects are their own boxes): the representation hypothesis holds, the stored object
is found (`some _`), an object whose box lies inside the entry box but is not stored is "not found" (`none`) -/
local instance instBoundedBoxHeapDel : Bounded Box := ⟨id⟩ in
example :
    let m : Arena Box :=
      [{ parent := none, leaf := false, level := 2, entries := [⟨⟨0, 0, 2, 2⟩, some 1, none⟩] },
       { parent := some 0, leaf := true, level := 1, entries := [⟨⟨0, 0, 2, 2⟩, none, some ⟨0, 0, 2, 2⟩⟩] }]
    let n : Node Box := .mk false 2 [.child ⟨0, 0, 2, 2⟩ (.mk true 1 [.obj ⟨0, 0, 2, 2⟩ ⟨0, 0, 2, 2⟩])]
    erase m 2 0 = some n ∧ (delIn 1 (⟨0, 0, 2, 2⟩ : Box) n 0).map Option.isSome = .ok true ∧
      delIn 1 (⟨1, 1, 1, 1⟩ : Box) n 0 = .ok none := by
  intro m n
  refine ⟨rfl, ?_, ?_⟩
  · rw [delIn_mk]
    simp only [Bool.false_eq_true, if_false, List.getElem?_cons_zero]
    rw [delIn_mk]
    simp [Box.containsRect, Bounded.bounds, lastIdxOf, bind, Except.bind, pure, Except.pure, Node.entries, Except.map]
  · rw [delIn_mk]
    simp only [Bool.false_eq_true, if_false, List.getElem?_cons_zero]
    rw [delIn_mk]
    simp [Box.containsRect, Bounded.bounds, lastIdxOf, bind, Except.bind, pure, Except.pure, Node.entries]
    rw [delIn_mk]
    simp [pure, Except.pure]

end Heap
end GeomV.C11
