import GeomV.C11.ProofsArith
/-
C11 — what holds of the minimum fill, and why the parameter hypotheses are needed.
-/
set_option linter.unusedVariables false
set_option linter.unusedSimpArgs false
namespace GeomV.C11
variable {O : Type}

theorem belowFill_mk (m : Nat) (l : Bool) (v : Nat) (es : List (Entry O)) :
    (Node.mk l v es).belowFill m = true ↔
      ∀ b c, Entry.child b c ∈ es → m ≤ c.entries.length ∧ c.belowFill m = true := by
  rw [Node.belowFill]
  simp only [List.all_eq_true, List.mem_attach, forall_const, Subtype.forall]
  constructor
  · intro h b c hm
    have := h _ hm
    simpa using this
  · intro h e he
    cases e with
    | obj b o => rfl
    | child b c => simpa using h b c he

/-- a well-formed subtree has no empty node below its root (leaves included) -/
theorem wfNode_belowFill_one [Bounded O] (maxC : Nat) : ∀ (n : Node O) (h : Nat),
    wfNode maxC h n = true → n.belowFill 1 = true := by
  intro n
  induction n using Node.induct with
  | h l v es ih =>
    intro h hw
    rw [wfNode_mk] at hw
    rw [belowFill_mk]
    intro b c hm
    obtain ⟨_, hwc, henv⟩ := hw.2.2.2.2 _ hm
    refine ⟨?_, ih b c hm _ hwc⟩
    have hne : c.objs ≠ [] := by
      intro h0
      rw [h0] at henv
      simp [isEnvelope] at henv
    cases c with
    | mk cl cv ces =>
      rw [Node.objs_mk] at hne
      simp only [Node.entries]
      cases ces with
      | nil => simp at hne
      | cons _ _ => simp

/-- **C11_fill** — the fill that the invariant gives: no node below the root is empty (so every leaf of
a non-trivial tree stores an object) and a non-leaf root has at least two entries. -/
theorem C11_fill [Bounded O] (t : Tree O) (hI : t.Inv) :
    t.root.belowFill 1 = true ∧ (t.root.leaf = false → 2 ≤ t.root.entries.length) :=
  ⟨wfNode_belowFill_one t.maxC t.root t.height ((Tree.WF_iff t).mp hI.wf).1, hI.root2⟩

/-- **C11_fill_reachable** — after every history, for the heuristics evaluated in any arithmetic: every
non-root node has ≥ 1 entry, the root has ≥ 2 entries unless it is a leaf.  (The precise form of "minimum
fill" for this implementation; `MinChildren` entries per node is NOT maintained.) -/
theorem C11_fill_reachable [DecidableEq O] [Bounded O] (A : Arith) (minC maxC : Nat)
    (h1 : 1 ≤ minC) (h2 : 2 ≤ maxC) (ops : List (Op O)) :
    ∃ t, runOps (heurA A) (newTree minC maxC) ops = .ok t ∧
      t.root.belowFill 1 = true ∧ (t.root.leaf = false → 2 ≤ t.root.entries.length) := by
  obtain ⟨t, g1, g2, _⟩ := C11_reachable (C11_anyArith_inRange A) minC maxC h1 h2 ops
  exact ⟨t, g1, C11_fill t g2⟩

/-- **C11_maxC_ge2_needed** — the hypothesis `2 ≤ MaxChildren` of the theorems is sharp: with
`NewTree(1,1)` two inserts split the root leaf into a root with two entries, above the fan-out 1
(`WF` fails).  (`NewTree` validates nothing; the property quantifies over `2 ≤ min ≤ max/2` only.) -/
theorem C11_maxC_ge2_needed :
    (match runOps goHeur (newTree 1 1) [Op.ins (⟨0, 0, 0, 0⟩ : Box), Op.ins ⟨1, 0, 1, 0⟩] with
      | .ok t => t.WF
      | .error _ => true) = false := by decide +kernel

/-! ### kernel-evaluable copy of the delete path (fuel instead of the lexicographic measure) -/

/-- `delIn` with explicit fuel (`.choice` when it runs out); only used to evaluate concrete witnesses -/
def delInF [DecidableEq O] [Bounded O] (minC : Nat) (o : O) :
    Nat → Node O → Nat → Except Fault (Option (Node O × List (Node O)))
  | 0, _, _ => throw .choice
  | f+1, .mk leaf level es, i =>
    if leaf then
      (match lastIdxOf o es with
        | none => pure none
        | some ind => pure (some (.mk leaf level (es.eraseIdx ind), [])))
    else match es[i]? with
      | none => pure none
      | some (.obj b _) =>
        if b.containsRect (Bounded.bounds o) then throw .nilDeref
        else delInF minC o f (.mk leaf level es) (i + 1)
      | some (.child b c) =>
        if b.containsRect (Bounded.bounds o) then
          delInF minC o f c 0 >>= fun r =>
            match r with
            | none => delInF minC o f (.mk leaf level es) (i + 1)
            | some (c', del) =>
              if c'.entries.length < minC then
                pure (some (.mk leaf level (es.eraseIdx i),
                            if c'.entries.length > 0 then del ++ [c'] else del))
              else pure (some (.mk leaf level (es.set i (.child c'.bbox c')), del))
        else delInF minC o f (.mk leaf level es) (i + 1)

theorem delInF_sound [DecidableEq O] [Bounded O] (minC : Nat) (o : O) :
    ∀ (f : Nat) (n : Node O) (i : Nat) r, delInF minC o f n i = .ok r → delIn minC o n i = .ok r := by
  intro f
  induction f with
  | zero => intro n i r h; cases n; simp [delInF, throw, throwThe, MonadExceptOf.throw] at h
  | succ f ih =>
    intro n i r h
    cases n with
    | mk leaf level es =>
      rw [delIn_mk]
      simp only [delInF] at h
      split_ifs at h ⊢ with hl
      · exact h
      · split at h
        · next hg => simp only [hg]; exact h
        · next b o' hg =>
          simp only [hg]
          split_ifs at h ⊢
          all_goals first | exact h | exact ih _ _ _ h
        · next b c hg =>
          simp only [hg]
          split_ifs at h ⊢
          · cases hc : delInF minC o f c 0 with
            | error e => rw [hc] at h; simp [bind, Except.bind] at h
            | ok r0 =>
              rw [hc] at h
              rw [ih _ _ _ hc]
              simp only [bind, Except.bind] at h ⊢
              cases r0 with
              | none => exact ih _ _ _ h
              | some p => exact h
          · exact ih _ _ _ h

/-- `Delete` / one step / a history through `delInF` -/
def Tree.deleteF [DecidableEq O] [Bounded O] (f : Nat) (H : Heur) (t : Tree O) (o : O) :
    Except Fault (Tree O × Bool) := do
  match ← delInF t.minC o f t.root 0 with
  | none => pure (t, false)
  | some (r, del) =>
    let t1 ← reinsertAll H { t with root := r } del
    let (r2, h2) ← collapse t1.root t1.height
    pure ({ t1 with root := r2, height := h2, size := t1.size - 1 }, true)

def runOpsF [DecidableEq O] [Bounded O] (f : Nat) (H : Heur) : Tree O → List (Op O) → Except Fault (Tree O)
  | t, [] => pure t
  | t, .ins o :: ops => do let t' ← t.insert H o; runOpsF f H t' ops
  | t, .del o :: ops => do let (t', _) ← t.deleteF f H o; runOpsF f H t' ops

theorem deleteF_sound [DecidableEq O] [Bounded O] (f : Nat) (H : Heur) (t : Tree O) (o : O) r
    (h : t.deleteF f H o = .ok r) : t.delete H o = .ok r := by
  unfold Tree.deleteF at h
  unfold Tree.delete
  cases hc : delInF t.minC o f t.root 0 with
  | error e => rw [hc] at h; simp [bind, Except.bind] at h
  | ok r0 => rw [hc] at h; rw [delInF_sound _ _ _ _ _ _ hc]; exact h

theorem runOpsF_sound [DecidableEq O] [Bounded O] (f : Nat) (H : Heur) :
    ∀ (ops : List (Op O)) (t t' : Tree O), runOpsF f H t ops = .ok t' → runOps H t ops = .ok t'
  | [], t, t', h => h
  | .ins o :: ops, t, t', h => by
    simp only [runOpsF, runOps, Tree.step] at h ⊢
    cases hc : t.insert H o with
    | error e => rw [hc] at h; simp [bind, Except.bind] at h
    | ok t1 =>
      rw [hc] at h
      simp only [bind, Except.bind, pure, Except.pure] at h ⊢
      exact runOpsF_sound f H ops t1 t' h
  | .del o :: ops, t, t', h => by
    simp only [runOpsF, runOps, Tree.step] at h ⊢
    cases hc : t.deleteF f H o with
    | error e => rw [hc] at h; simp [bind, Except.bind] at h
    | ok p =>
      rw [hc] at h
      rw [deleteF_sound f H t o p hc]
      simp only [bind, Except.bind, pure, Except.pure] at h ⊢
      exact runOpsF_sound f H ops p.1 t' h

def ptBox (x : Nat) : Box := ⟨x, 0, x, 0⟩

/-- eleven points on a line inserted into `NewTree(2,4)`, then the first two deleted -/
def minFillOps : List (Op Box) :=
  [0, 1, 2, 3, 4, 5, 6, 7, 8, 9, 10].map (fun i => Op.ins (ptBox i)) ++ [.del (ptBox 0), .del (ptBox 1)]

/-- **C11_minfill_not_invariant** — Guttman's minimum fill (`MinChildren` entries in every non-root
node) is NOT maintained by this implementation: after `minFillOps` on `NewTree(2,4)` (exact model =
real code on this history) the tree satisfies the whole invariant of the property but contains a
non-root node with a single entry (condenseTree re-inserts the under-full leaf as a whole subtree). -/
theorem C11_minfill_not_invariant :
    ∃ t, runOps goHeur (newTree 2 4) minFillOps = .ok t ∧ t.Inv ∧ t.root.belowFill 2 = false ∧
      t.root.belowFill 1 = true := by
  have h : (match runOpsF 20 goHeur (newTree 2 4) minFillOps with
      | .ok t => !t.root.belowFill 2
      | .error _ => false) = true := by decide +kernel
  cases hc : runOpsF 20 goHeur (newTree 2 4) minFillOps with
  | error e => rw [hc] at h; simp at h
  | ok t =>
    rw [hc] at h
    have hrun := runOpsF_sound 20 goHeur _ _ _ hc
    obtain ⟨t', g1, g2, _⟩ := C11_reachable C11_goHeur_inRange 2 4 (by omega) (by omega) minFillOps
    rw [hrun] at g1
    cases g1
    exact ⟨t, hrun, g2, by simpa using h, (C11_fill t g2).1⟩

/-- **C11_minC_ge1_needed** — the hypothesis `1 ≤ MinChildren` is sharp: with `NewTree(0,4)` a leaf
that loses all its objects is kept (`len < 0` never holds) under an entry with the zero box: the
envelope clause fails. -/
theorem C11_minC_ge1_needed :
    (match runOps goHeur (newTree 0 4)
        ([0, 1, 2, 3, 4].map (fun i => Op.ins (ptBox i)) ++ [.del (ptBox 0), .del (ptBox 1), .del (ptBox 2), .del (ptBox 3)]) with
      | .ok t => t.WF
      | .error _ => true) = false := by
  have h : (match runOpsF 20 goHeur (newTree 0 4)
        ([0, 1, 2, 3, 4].map (fun i => Op.ins (ptBox i)) ++ [.del (ptBox 0), .del (ptBox 1), .del (ptBox 2), .del (ptBox 3)]) with
      | .ok t => !t.WF
      | .error _ => false) = true := by decide +kernel
  cases hc : runOpsF 20 goHeur (newTree 0 4)
        ([0, 1, 2, 3, 4].map (fun i => Op.ins (ptBox i)) ++ [.del (ptBox 0), .del (ptBox 1), .del (ptBox 2), .del (ptBox 3)]) with
  | error e => rw [hc] at h; simp at h
  | ok t =>
    rw [hc] at h
    rw [runOpsF_sound 20 goHeur _ _ _ hc]
    simpa using h

end GeomV.C11
