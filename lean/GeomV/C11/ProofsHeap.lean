import GeomV.C11.Lemmas
import GeomV.C11.Heap
/-
C11 — the pointer-level model (`Heap.lean`) refines the functional model (`Model.lean`).

Representation: `Heap.erase m f p = some n` — the memory `m` read from pointer `p` (following child pointers at most
`f` deep) IS the functional node `n` (leaf flag, level, entry order, stored boxes, objects; parent fields forgotten).
-/
set_option linter.unusedVariables false
set_option linter.unusedSimpArgs false
namespace GeomV.C11
namespace Heap
variable {O : Type}

/-- a functional result as a result of the pointer-level model -/
def liftF {α : Type} : Except Fault α → M α
  | .ok a => .ok a
  | .error e => .error (.go e)

/-! ### SearchIntersect -/

/-- what the functional `searchIntersect` does with one intersecting entry -/
def searchOne (q : Box) (l : Bool) (e : Entry O) : Except Fault (List O) :=
  match e with
  | .obj _ o => if l then pure [o] else throw Fault.nilDeref
  | .child _ c => if l then throw Fault.nilObj else searchNode q c

/-- the functional `searchIntersect` loop in the shape of the Go loop -/
def searchEs (q : Box) (l : Bool) : List (Entry O) → Except Fault (List O)
  | [] => pure []
  | e :: es =>
    if e.bb.intersect q then do
      let here ← searchOne q l e
      let rest ← searchEs q l es
      pure (here ++ rest)
    else searchEs q l es

def searchF (q : Box) (l : Bool) (e : Entry O) : Except Fault (List O) :=
  if e.bb.intersect q then searchOne q l e else pure []

theorem searchNode_mapM (q : Box) (l : Bool) (v : Nat) (es : List (Entry O)) :
    searchNode q (Node.mk l v es) = (es.mapM (searchF q l) >>= fun rs => pure rs.flatten) := by
  rw [searchNode_mk]; rfl

theorem mapM_searchF (q : Box) (l : Bool) : ∀ (es : List (Entry O)),
    (es.mapM (searchF q l) >>= fun rs => pure rs.flatten) = searchEs q l es := by
  intro es
  induction es with
  | nil => rfl
  | cons e es ih =>
    rw [List.mapM_cons, searchEs, ← ih]
    generalize List.mapM (searchF q l) es = X
    unfold searchF
    by_cases hq : e.bb.intersect q = true
    · simp only [hq, if_true]
      cases searchOne q l e <;> cases X <;> simp [bind, Except.bind, pure, Except.pure]
    · simp only [hq, if_false, Bool.false_eq_true]
      cases X <;> simp [bind, Except.bind, pure, Except.pure]

theorem searchNode_eq_searchEs (q : Box) (l : Bool) (v : Nat) (es : List (Entry O)) :
    searchNode q (Node.mk l v es) = searchEs q l es := by
  rw [searchNode_mapM, mapM_searchF]

theorem searchLoop_refines (q : Box) (l : Bool) (rec : Ptr → M (List O)) (recE : Ptr → Option (Node O))
    (hrec : ∀ c cn, recE c = some cn → rec c = liftF (searchNode q cn)) :
    ∀ (es : List (HEntry O)) (es' : List (Entry O)), eraseEntries recE es = some es' →
      searchLoop rec l q es = liftF (searchEs q l es') := by
  intro es
  induction es with
  | nil => intro es' h; simp [eraseEntries] at h; subst h; rfl
  | cons e es ih =>
    intro es' h
    rw [eraseEntries] at h
    rcases hc : e.child with _ | c <;> rcases ho : e.obj with _ | o <;> simp only [hc, ho] at h
    · cases h
    · -- object entry
      cases hr : eraseEntries recE es with
      | none => simp [hr] at h
      | some r =>
        simp [hr] at h; subst h
        have := ih r hr
        simp only [searchLoop, searchEs, searchOne, Entry.bb, this, hc, ho]
        by_cases hq : e.bb.intersect q = true
        · simp only [hq, if_true]
          cases l <;> simp [liftF, nilDeref, bind, Except.bind, pure, Except.pure, throw, throwThe, MonadExceptOf.throw]
          cases searchEs q true r <;> simp [liftF, bind, Except.bind, pure, Except.pure]
        · simp only [hq, if_false, Bool.false_eq_true]
    · -- child entry
      cases hrc : recE c with
      | none => simp [hrc] at h
      | some cn =>
        cases hr : eraseEntries recE es with
        | none => simp [hrc, hr] at h
        | some r =>
          simp [hrc, hr] at h; subst h
          have := ih r hr
          simp only [searchLoop, searchEs, searchOne, Entry.bb, this, hc, ho, hrec c cn hrc]
          by_cases hq : e.bb.intersect q = true
          · simp only [hq, if_true]
            cases l <;> simp [liftF, nilDeref, bind, Except.bind, pure, Except.pure, throw, throwThe, MonadExceptOf.throw]
            cases searchNode q cn <;> simp [liftF, bind, Except.bind, pure, Except.pure]
            cases searchEs q false r <;> simp [liftF, bind, Except.bind, pure, Except.pure]
          · simp only [hq, if_false, Bool.false_eq_true]
    · cases h

/-- **C11_heap_search_refines** — `searchIntersect` on the pointer structure (nil dereferences as faults, recursion
on fuel) computes exactly what the functional `searchNode` computes on the tree the memory represents: same
objects in the same order, same panic.  With `C11_search` this gives search = brute-force scan for the pointer
code on every well-formed represented tree. -/
theorem C11_heap_search_refines (m : Arena O) (q : Box) :
    ∀ (f : Nat) (p : Ptr) (n : Node O), erase m f p = some n → search m q f p = liftF (searchNode q n) := by
  intro f
  induction f with
  | zero => intro p n h; simp [erase] at h
  | succ f ih =>
    intro p n h
    rw [erase] at h
    cases hm : m[p]? with
    | none => simp [hm] at h
    | some nd =>
      simp only [hm] at h
      cases he : eraseEntries (erase m f) nd.entries with
      | none => simp [he] at h
      | some es' =>
        simp [he] at h; subst h
        rw [search, searchNode_eq_searchEs]
        simp only [deref, hm, bind, Except.bind, pure, Except.pure]
        exact searchLoop_refines q nd.leaf _ _ (fun c cn hc => ih c cn hc) nd.entries es' he

/-! ### findLeaf -/

theorem erase_some {m : Arena O} {f : Nat} {p : Ptr} {n : Node O} (h : erase m f p = some n) :
    ∃ k nd es', f = k + 1 ∧ m[p]? = some nd ∧ eraseEntries (erase m k) nd.entries = some es' ∧
      n = Node.mk nd.leaf nd.level es' := by
  cases f with
  | zero => simp [erase] at h
  | succ k =>
    rw [erase] at h
    cases hm : m[p]? with
    | none => simp [hm] at h
    | some nd =>
      simp only [hm] at h
      cases he : eraseEntries (erase m k) nd.entries with
      | none => simp [he] at h
      | some es' => simp [he] at h; exact ⟨k, nd, es', rfl, rfl, he, h.symm⟩

/-- "the leaf holds `o`" on functional entries (the inner loop of findLeaf) -/
def holdsObjF [DecidableEq O] (o : O) (es : List (Entry O)) : Bool :=
  es.any fun e => match e with
    | .obj _ o' => decide (o' = o)
    | .child _ _ => false

theorem holdsObj_erase [DecidableEq O] (o : O) (recE : Ptr → Option (Node O)) :
    ∀ (es : List (HEntry O)) (es' : List (Entry O)), eraseEntries recE es = some es' →
      holdsObj o es = holdsObjF o es' := by
  intro es
  induction es with
  | nil => intro es' h; simp [eraseEntries] at h; subst h; rfl
  | cons e es ih =>
    intro es' h
    rw [eraseEntries] at h
    rcases hc : e.child with _ | c <;> rcases ho : e.obj with _ | o' <;> simp only [hc, ho] at h
    · cases h
    · cases hr : eraseEntries recE es with
      | none => simp [hr] at h
      | some r =>
        simp [hr] at h; subst h
        have := ih r hr
        simp only [holdsObj, holdsObjF, List.any_cons] at this ⊢
        rw [this, ho]; simp; rfl
    · cases hrc : recE c with
      | none => simp [hrc] at h
      | some cn =>
        cases hr : eraseEntries recE es with
        | none => simp [hrc, hr] at h
        | some r =>
          simp [hrc, hr] at h; subst h
          have := ih r hr
          simp only [holdsObj, holdsObjF, List.any_cons] at this ⊢
          rw [this, ho]; simp
    · cases h

mutual
/-- findLeaf on the functional tree: the leaf NODE found (the pointer code returns the pointer to it) -/
def findLeafF [DecidableEq O] (ob : Box) (o : O) : Node O → Except Fault (Option (Node O))
  | .mk leaf level es => if leaf then pure (some (.mk leaf level es)) else findLeafEs ob o es
def findLeafEs [DecidableEq O] (ob : Box) (o : O) : List (Entry O) → Except Fault (Option (Node O))
  | [] => pure none
  | .obj b _ :: es => if b.containsRect ob then throw Fault.nilDeref else findLeafEs ob o es
  | .child b c :: es =>
    if b.containsRect ob then do
      match ← findLeafF ob o c with
      | none => findLeafEs ob o es
      | some lf => if holdsObjF o lf.entries then pure (some lf) else findLeafEs ob o es
    else findLeafEs ob o es
end

/-- a pointer-level findLeaf result `x` against the functional result `y`: same fault, both nil, or a pointer that
represents the functional leaf -/
def FindRel (m : Arena O) (x : M (Option Ptr)) (y : Except Fault (Option (Node O))) : Prop :=
  match y with
  | .error e => x = .error (.go e)
  | .ok none => x = .ok none
  | .ok (some lf) => ∃ lp f', x = .ok (some lp) ∧ erase m f' lp = some lf

theorem findLeafLoop_refines [DecidableEq O] (m : Arena O) (ob : Box) (o : O) (rec : Ptr → M (Option Ptr))
    (recE : Ptr → Option (Node O))
    (hrec : ∀ c cn, recE c = some cn → FindRel m (rec c) (findLeafF ob o cn)) :
    ∀ (es : List (HEntry O)) (es' : List (Entry O)), eraseEntries recE es = some es' →
      FindRel m (findLeafLoop m rec ob o es) (findLeafEs ob o es') := by
  intro es
  induction es with
  | nil => intro es' h; simp [eraseEntries] at h; subst h; simp [findLeafLoop, findLeafEs, FindRel, pure, Except.pure]
  | cons e es ih =>
    intro es' h
    rw [eraseEntries] at h
    rcases hc : e.child with _ | c <;> rcases ho : e.obj with _ | o' <;> simp only [hc, ho] at h
    · cases h
    · cases hr : eraseEntries recE es with
      | none => simp [hr] at h
      | some r =>
        simp [hr] at h; subst h
        have := ih r hr
        rw [findLeafLoop, findLeafEs]
        by_cases hq : e.bb.containsRect ob = true
        · simp [hq, hc, FindRel, nilDeref, bind, Except.bind, throw, throwThe, MonadExceptOf.throw]
        · simpa [hq] using this
    · cases hrc : recE c with
      | none => simp [hrc] at h
      | some cn =>
        cases hr : eraseEntries recE es with
        | none => simp [hrc, hr] at h
        | some r =>
          simp [hrc, hr] at h; subst h
          have ihr := ih r hr
          have hcn := hrec c cn hrc
          rw [findLeafLoop, findLeafEs]
          by_cases hq : e.bb.containsRect ob = true
          · simp only [hq, if_true, hc]
            cases hy : findLeafF ob o cn with
            | error err =>
              simp only [hy, FindRel] at hcn
              simp [hcn, FindRel, bind, Except.bind]
            | ok v =>
              cases v with
              | none =>
                simp only [hy, FindRel] at hcn
                simpa [hcn, bind, Except.bind] using ihr
              | some lf =>
                simp only [hy, FindRel] at hcn
                obtain ⟨lp, f', hx, hel⟩ := hcn
                obtain ⟨k, nd, es'', _, hm, hee, hlf⟩ := erase_some hel
                have hh := holdsObj_erase o _ _ _ hee
                subst hlf
                simp only [hx, bind, Except.bind, deref, hm, pure, Except.pure, hh, Node.entries]
                by_cases hho : holdsObjF o es'' = true
                · simp only [hho, if_true, FindRel]
                  exact ⟨lp, _, rfl, hel⟩
                · simpa [hho] using ihr
          · simpa [hq] using ihr
    · cases h

/-- **C11_heap_findLeaf_refines** — `findLeaf` on the pointer structure returns nil exactly when the functional
findLeaf finds no leaf, faults exactly when it faults (same fault), and otherwise returns a pointer to memory that
represents the functional leaf found (first candidate subtree in entry order whose leaf holds the object). -/
theorem C11_heap_findLeaf_refines [DecidableEq O] [Bounded O] (m : Arena O) (o : O) :
    ∀ (f : Nat) (p : Ptr) (n : Node O), erase m f p = some n →
      FindRel m (findLeaf m o f p) (findLeafF (Bounded.bounds o) o n) := by
  intro f
  induction f with
  | zero => intro p n h; simp [erase] at h
  | succ f ih =>
    intro p n h
    obtain ⟨k, nd, es', hk, hm, hee, hn⟩ := erase_some h
    cases hk
    subst hn
    rw [findLeaf, findLeafF]
    simp only [deref, hm, bind, Except.bind, pure, Except.pure]
    by_cases hl : nd.leaf = true
    · simp only [hl, if_true, FindRel]
      exact ⟨p, _, rfl, by rw [← hl]; exact h⟩
    · simp only [hl, if_false, Bool.false_eq_true]
      exact findLeafLoop_refines m _ o _ _ (fun c cn hc => ih c cn hc) nd.entries es' hee

end Heap
end GeomV.C11
