import GeomV.C11.Lemmas
import GeomV.C11.Heap
/-
C11 — the pointer-level model (`Heap.lean`) refines the functional model (`Model.lean`).

Representation: `Heap.erase m f p = some n` — the memory `m` read from pointer `p` (following child pointers at most
`f` deep) IS the functional node `n` (leaf flag, level, entry order, stored boxes, objects; parent fields forgotten).
-/
set_option linter.unusedVariables false
set_option linter.unusedSimpArgs false
namespace GeomV.C11
namespace Heap
variable {O O' : Type}

/-- a functional result as a result of the pointer-level model -/
def liftF {α : Type} : Except Fault α → M α
  | .ok a => .ok a
  | .error e => .error (.go e)

/-! ### SearchIntersect -/

/-- what the functional `searchIntersect` does with one intersecting entry -/
def searchOne (q : Box) (l : Bool) (e : Entry O) : Except Fault (List O) :=
  match e with
  | .obj _ o => if l then pure [o] else throw Fault.nilDeref
  | .child _ c => if l then throw Fault.nilObj else searchNode q c

/-- the functional `searchIntersect` loop in the shape of the Go loop -/
def searchEs (q : Box) (l : Bool) : List (Entry O) → Except Fault (List O)
  | [] => pure []
  | e :: es =>
    if e.bb.intersect q then do
      let here ← searchOne q l e
      let rest ← searchEs q l es
      pure (here ++ rest)
    else searchEs q l es

def searchF (q : Box) (l : Bool) (e : Entry O) : Except Fault (List O) :=
  if e.bb.intersect q then searchOne q l e else pure []

theorem searchNode_mapM (q : Box) (l : Bool) (v : Nat) (es : List (Entry O)) :
    searchNode q (Node.mk l v es) = (es.mapM (searchF q l) >>= fun rs => pure rs.flatten) := by
  rw [searchNode_mk]; rfl

theorem mapM_searchF (q : Box) (l : Bool) : ∀ (es : List (Entry O)),
    (es.mapM (searchF q l) >>= fun rs => pure rs.flatten) = searchEs q l es := by
  intro es
  induction es with
  | nil => rfl
  | cons e es ih =>
    rw [List.mapM_cons, searchEs, ← ih]
    generalize List.mapM (searchF q l) es = X
    unfold searchF
    by_cases hq : e.bb.intersect q = true
    · simp only [hq, if_true]
      cases searchOne q l e <;> cases X <;> simp [bind, Except.bind, pure, Except.pure]
    · simp only [hq, if_false, Bool.false_eq_true]
      cases X <;> simp [bind, Except.bind, pure, Except.pure]

theorem searchNode_eq_searchEs (q : Box) (l : Bool) (v : Nat) (es : List (Entry O)) :
    searchNode q (Node.mk l v es) = searchEs q l es := by
  rw [searchNode_mapM, mapM_searchF]

theorem searchLoop_refines (q : Box) (l : Bool) (rec : Ptr → M (List O)) (recE : Ptr → Option (Node O))
    (hrec : ∀ c cn, recE c = some cn → rec c = liftF (searchNode q cn)) :
    ∀ (es : List (HEntry O)) (es' : List (Entry O)), eraseEntries recE es = some es' →
      searchLoop rec l q es = liftF (searchEs q l es') := by
  intro es
  induction es with
  | nil => intro es' h; simp [eraseEntries] at h; subst h; rfl
  | cons e es ih =>
    intro es' h
    rw [eraseEntries] at h
    rcases hc : e.child with _ | c <;> rcases ho : e.obj with _ | o <;> simp only [hc, ho] at h
    · cases h
    · -- object entry
      cases hr : eraseEntries recE es with
      | none => simp [hr] at h
      | some r =>
        simp [hr] at h; subst h
        have := ih r hr
        simp only [searchLoop, searchEs, searchOne, Entry.bb, this, hc, ho]
        by_cases hq : e.bb.intersect q = true
        · simp only [hq, if_true]
          cases l <;> simp [liftF, nilDeref, bind, Except.bind, pure, Except.pure, throw, throwThe, MonadExceptOf.throw]
          cases searchEs q true r <;> simp [liftF, bind, Except.bind, pure, Except.pure]
        · simp only [hq, if_false, Bool.false_eq_true]
    · -- child entry
      cases hrc : recE c with
      | none => simp [hrc] at h
      | some cn =>
        cases hr : eraseEntries recE es with
        | none => simp [hrc, hr] at h
        | some r =>
          simp [hrc, hr] at h; subst h
          have := ih r hr
          simp only [searchLoop, searchEs, searchOne, Entry.bb, this, hc, ho, hrec c cn hrc]
          by_cases hq : e.bb.intersect q = true
          · simp only [hq, if_true]
            cases l <;> simp [liftF, nilDeref, bind, Except.bind, pure, Except.pure, throw, throwThe, MonadExceptOf.throw]
            cases searchNode q cn <;> simp [liftF, bind, Except.bind, pure, Except.pure]
            cases searchEs q false r <;> simp [liftF, bind, Except.bind, pure, Except.pure]
          · simp only [hq, if_false, Bool.false_eq_true]
    · cases h

/-- **C11_heap_search_refines** — `searchIntersect` on the pointer structure (nil dereferences as faults, recursion
on fuel) computes exactly what the functional `searchNode` computes on the tree the memory represents: same
objects in the same order, same panic.  With `C11_search` this gives search = brute-force scan for the pointer
code on every well-formed represented tree. -/
theorem C11_heap_search_refines (m : Arena O) (q : Box) :
    ∀ (f : Nat) (p : Ptr) (n : Node O), erase m f p = some n → search m q f p = liftF (searchNode q n) := by
  intro f
  induction f with
  | zero => intro p n h; simp [erase] at h
  | succ f ih =>
    intro p n h
    rw [erase] at h
    cases hm : m[p]? with
    | none => simp [hm] at h
    | some nd =>
      simp only [hm] at h
      cases he : eraseEntries (erase m f) nd.entries with
      | none => simp [he] at h
      | some es' =>
        simp [he] at h; subst h
        rw [search, searchNode_eq_searchEs]
        simp only [deref, hm, bind, Except.bind, pure, Except.pure]
        exact searchLoop_refines q nd.leaf _ _ (fun c cn hc => ih c cn hc) nd.entries es' he

/-! ### findLeaf -/

theorem erase_some {m : Arena O} {f : Nat} {p : Ptr} {n : Node O} (h : erase m f p = some n) :
    ∃ k nd es', f = k + 1 ∧ m[p]? = some nd ∧ eraseEntries (erase m k) nd.entries = some es' ∧
      n = Node.mk nd.leaf nd.level es' := by
  cases f with
  | zero => simp [erase] at h
  | succ k =>
    rw [erase] at h
    cases hm : m[p]? with
    | none => simp [hm] at h
    | some nd =>
      simp only [hm] at h
      cases he : eraseEntries (erase m k) nd.entries with
      | none => simp [he] at h
      | some es' => simp [he] at h; exact ⟨k, nd, es', rfl, rfl, he, h.symm⟩

/-- "the leaf holds `o`" on functional entries (the inner loop of findLeaf) -/
def holdsObjF [DecidableEq O] (o : O) (es : List (Entry O)) : Bool :=
  es.any fun e => match e with
    | .obj _ o' => decide (o' = o)
    | .child _ _ => false

theorem holdsObj_erase [DecidableEq O] (o : O) (recE : Ptr → Option (Node O)) :
    ∀ (es : List (HEntry O)) (es' : List (Entry O)), eraseEntries recE es = some es' →
      holdsObj o es = holdsObjF o es' := by
  intro es
  induction es with
  | nil => intro es' h; simp [eraseEntries] at h; subst h; rfl
  | cons e es ih =>
    intro es' h
    rw [eraseEntries] at h
    rcases hc : e.child with _ | c <;> rcases ho : e.obj with _ | o' <;> simp only [hc, ho] at h
    · cases h
    · cases hr : eraseEntries recE es with
      | none => simp [hr] at h
      | some r =>
        simp [hr] at h; subst h
        have := ih r hr
        simp only [holdsObj, holdsObjF, List.any_cons] at this ⊢
        rw [this, ho]; simp; rfl
    · cases hrc : recE c with
      | none => simp [hrc] at h
      | some cn =>
        cases hr : eraseEntries recE es with
        | none => simp [hrc, hr] at h
        | some r =>
          simp [hrc, hr] at h; subst h
          have := ih r hr
          simp only [holdsObj, holdsObjF, List.any_cons] at this ⊢
          rw [this, ho]; simp
    · cases h

mutual
/-- findLeaf on the functional tree: the leaf NODE found (the pointer code returns the pointer to it) -/
def findLeafF [DecidableEq O] (ob : Box) (o : O) : Node O → Except Fault (Option (Node O))
  | .mk leaf level es => if leaf then pure (some (.mk leaf level es)) else findLeafEs ob o es
def findLeafEs [DecidableEq O] (ob : Box) (o : O) : List (Entry O) → Except Fault (Option (Node O))
  | [] => pure none
  | .obj b _ :: es => if b.containsRect ob then throw Fault.nilDeref else findLeafEs ob o es
  | .child b c :: es =>
    if b.containsRect ob then do
      match ← findLeafF ob o c with
      | none => findLeafEs ob o es
      | some lf => if holdsObjF o lf.entries then pure (some lf) else findLeafEs ob o es
    else findLeafEs ob o es
end

/-- a pointer-level findLeaf result `x` against the functional result `y`: same fault, both nil, or a pointer that
represents the functional leaf -/
def FindRel (m : Arena O) (x : M (Option Ptr)) (y : Except Fault (Option (Node O))) : Prop :=
  match y with
  | .error e => x = .error (.go e)
  | .ok none => x = .ok none
  | .ok (some lf) => ∃ lp f', x = .ok (some lp) ∧ erase m f' lp = some lf

theorem findLeafLoop_refines [DecidableEq O] (m : Arena O) (ob : Box) (o : O) (rec : Ptr → M (Option Ptr))
    (recE : Ptr → Option (Node O))
    (hrec : ∀ c cn, recE c = some cn → FindRel m (rec c) (findLeafF ob o cn)) :
    ∀ (es : List (HEntry O)) (es' : List (Entry O)), eraseEntries recE es = some es' →
      FindRel m (findLeafLoop m rec ob o es) (findLeafEs ob o es') := by
  intro es
  induction es with
  | nil => intro es' h; simp [eraseEntries] at h; subst h; simp [findLeafLoop, findLeafEs, FindRel, pure, Except.pure]
  | cons e es ih =>
    intro es' h
    rw [eraseEntries] at h
    rcases hc : e.child with _ | c <;> rcases ho : e.obj with _ | o' <;> simp only [hc, ho] at h
    · cases h
    · cases hr : eraseEntries recE es with
      | none => simp [hr] at h
      | some r =>
        simp [hr] at h; subst h
        have := ih r hr
        rw [findLeafLoop, findLeafEs]
        by_cases hq : e.bb.containsRect ob = true
        · simp [hq, hc, FindRel, nilDeref, bind, Except.bind, throw, throwThe, MonadExceptOf.throw]
        · simpa [hq] using this
    · cases hrc : recE c with
      | none => simp [hrc] at h
      | some cn =>
        cases hr : eraseEntries recE es with
        | none => simp [hrc, hr] at h
        | some r =>
          simp [hrc, hr] at h; subst h
          have ihr := ih r hr
          have hcn := hrec c cn hrc
          rw [findLeafLoop, findLeafEs]
          by_cases hq : e.bb.containsRect ob = true
          · simp only [hq, if_true, hc]
            cases hy : findLeafF ob o cn with
            | error err =>
              simp only [hy, FindRel] at hcn
              simp [hcn, FindRel, bind, Except.bind]
            | ok v =>
              cases v with
              | none =>
                simp only [hy, FindRel] at hcn
                simpa [hcn, bind, Except.bind] using ihr
              | some lf =>
                simp only [hy, FindRel] at hcn
                obtain ⟨lp, f', hx, hel⟩ := hcn
                obtain ⟨k, nd, es'', _, hm, hee, hlf⟩ := erase_some hel
                have hh := holdsObj_erase o _ _ _ hee
                subst hlf
                simp only [hx, bind, Except.bind, deref, hm, pure, Except.pure, hh, Node.entries]
                by_cases hho : holdsObjF o es'' = true
                · simp only [hho, if_true, FindRel]
                  exact ⟨lp, _, rfl, hel⟩
                · simpa [hho] using ihr
          · simpa [hq] using ihr
    · cases h

/-- **C11_heap_findLeaf_refines** — `findLeaf` on the pointer structure returns nil exactly when the functional
findLeaf finds no leaf, faults exactly when it faults (same fault), and otherwise returns a pointer to memory that
represents the functional leaf found (first candidate subtree in entry order whose leaf holds the object). -/
theorem C11_heap_findLeaf_refines [DecidableEq O] [Bounded O] (m : Arena O) (o : O) :
    ∀ (f : Nat) (p : Ptr) (n : Node O), erase m f p = some n →
      FindRel m (findLeaf m o f p) (findLeafF (Bounded.bounds o) o n) := by
  intro f
  induction f with
  | zero => intro p n h; simp [erase] at h
  | succ f ih =>
    intro p n h
    obtain ⟨k, nd, es', hk, hm, hee, hn⟩ := erase_some h
    cases hk
    subst hn
    rw [findLeaf, findLeafF]
    simp only [deref, hm, bind, Except.bind, pure, Except.pure]
    by_cases hl : nd.leaf = true
    · simp only [hl, if_true, FindRel]
      exact ⟨p, _, rfl, by rw [← hl]; exact h⟩
    · simp only [hl, if_false, Bool.false_eq_true]
      exact findLeafLoop_refines m _ o _ _ (fun c cn hc => ih c cn hc) nd.entries es' hee

/-! ### split -/

/-- what `split` may change of a node besides `parent` -/
def shapeAt (m : Arena O) (i : Ptr) : Option (Bool × Nat × List (HEntry O)) :=
  (m[i]?).map fun n => (n.leaf, n.level, n.entries)

theorem setParent_shape {m m' : Arena O} {c : Ptr} {p : Option Ptr} (h : setParent m c p = .ok m') :
    ∀ i, shapeAt m' i = shapeAt m i := by
  intro i
  unfold setParent deref at h
  cases hc : m[c]? with
  | none => simp [hc, nilDeref, bind, Except.bind, throw, throwThe, MonadExceptOf.throw] at h
  | some cn =>
    simp [hc, bind, Except.bind, pure, Except.pure] at h
    subst h
    unfold shapeAt
    by_cases hi : c = i
    · subst hi
      have hlt : c < m.length := by
        cases hd : decide (c < m.length) with
        | true => exact of_decide_eq_true hd
        | false =>
          have : m.length ≤ c := Nat.le_of_not_lt (of_decide_eq_false hd)
          rw [List.getElem?_eq_none this] at hc; cases hc
      rw [List.getElem?_set_self hlt, hc]; rfl
    · rw [List.getElem?_set_ne hi]

theorem setChildParent_shape {m m' : Arena O} {e : HEntry O} {p : Ptr} (h : setChildParent m e p = .ok m') :
    ∀ i, shapeAt m' i = shapeAt m i := by
  unfold setChildParent at h
  cases hc : e.child with
  | none => simp [hc, pure, Except.pure] at h; subst h; intro i; rfl
  | some c => simp only [hc] at h; exact setParent_shape h

theorem assign_shape {m m' : Arena O} {e : HEntry O} {g : Ptr} {a : Bool} {b : Nat} {es : List (HEntry O)}
    (h : assign m e g = .ok m') (hg : shapeAt m g = some (a, b, es)) :
    shapeAt m' g = some (a, b, es ++ [e]) ∧ ∀ i, i ≠ g → shapeAt m' i = shapeAt m i := by
  unfold assign at h
  cases h1 : setChildParent m e g with
  | error x => simp [h1, bind, Except.bind] at h
  | ok m1 =>
    have hs := setChildParent_shape h1
    simp only [h1, bind, Except.bind, deref] at h
    have hg1 : shapeAt m1 g = some (a, b, es) := by rw [hs]; exact hg
    cases hm : m1[g]? with
    | none => simp [shapeAt, hm] at hg1
    | some gd =>
      simp [hm, pure, Except.pure] at h
      subst h
      have hlt : g < m1.length := by
        cases hd : decide (g < m1.length) with
        | true => exact of_decide_eq_true hd
        | false =>
          have : m1.length ≤ g := Nat.le_of_not_lt (of_decide_eq_false hd)
          rw [List.getElem?_eq_none this] at hm; cases hm
      simp only [shapeAt, hm, Option.map_some, Option.some.injEq, Prod.mk.injEq] at hg1
      obtain ⟨ha, hb, he⟩ := hg1
      constructor
      · simp only [shapeAt]; rw [List.getElem?_set_self hlt]; simp [ha, hb, he]
      · intro i hi
        simp only [shapeAt]
        rw [List.getElem?_set_ne (Ne.symm hi)]
        exact hs i

theorem map_eraseIdx' {α β : Type} (f : α → β) : ∀ (l : List α) (k : Nat), (l.eraseIdx k).map f = (l.map f).eraseIdx k
  | [], _ => by simp
  | a :: l, 0 => by simp
  | a :: l, k+1 => by simp [map_eraseIdx' f l k]

theorem bbs_map (φ : HEntry O → Entry O') (hφ : ∀ e, (φ e).bb = e.bb) (es : List (HEntry O)) :
    (es.map φ).map Entry.bb = bbs es := by
  simp [bbs, List.map_map, Function.comp_def, hφ]

/-- the `for len(remaining) > 0` loop on the arena computes the functional `distribute` on the entry lists of
`left` and `right` and touches the shape of no other node -/
theorem distribute_refines (H : Heur) (minC : Nat) (φ : HEntry O → Entry O') (hφ : ∀ e, (φ e).bb = e.bb)
    (left right : Ptr) (hne : left ≠ right) :
    ∀ (fuel : Nat) (rem : List (HEntry O)) (m m' : Arena O) (a a' : Bool) (b b' : Nat) (l r : List (HEntry O)),
      fuel = rem.length → shapeAt m left = some (a, b, l) → shapeAt m right = some (a', b', r) →
      distribute H minC left right fuel rem m = .ok m' →
      ∃ l' r', shapeAt m' left = some (a, b, l') ∧ shapeAt m' right = some (a', b', r') ∧
        GeomV.C11.distribute H minC (l.map φ) (r.map φ) (rem.map φ) = .ok (l'.map φ, r'.map φ) ∧
        ∀ i, i ≠ left → i ≠ right → shapeAt m' i = shapeAt m i := by
  intro fuel
  induction fuel with
  | zero =>
    intro rem m m' a a' b b' l r hf hl hr h
    have : rem = [] := List.length_eq_zero_iff.mp hf.symm
    subst this
    simp [Heap.distribute, pure, Except.pure] at h; subst h
    refine ⟨l, r, hl, hr, ?_, fun i _ _ => rfl⟩
    rw [GeomV.C11.distribute]; simp [pure, Except.pure]
  | succ f ih =>
    intro rem m m' a a' b b' l r hf hl hr h
    have hrne : rem ≠ [] := by intro h0; subst h0; simp at hf
    rw [Heap.distribute] at h
    have hemp : rem.isEmpty = false := by cases rem <;> simp_all
    simp only [hemp, Bool.false_eq_true, if_false, deref, bind, Except.bind] at h
    cases hml : m[left]? with
    | none => simp [shapeAt, hml] at hl
    | some ld =>
      cases hmr : m[right]? with
      | none => simp [shapeAt, hmr] at hr
      | some rd =>
        simp only [shapeAt, hml, hmr, Option.map_some, Option.some.injEq, Prod.mk.injEq] at hl hr
        obtain ⟨hla, hlb, hle⟩ := hl
        obtain ⟨hra, hrb, hre⟩ := hr
        simp only [hml, hmr, pure, Except.pure, hle, hre] at h
        have hrne' : rem.map φ ≠ [] := by simpa using hrne
        generalize hk : H.pickNext (bbs l) (bbs r) (bbs rem) = k at h
        cases hek : rem[k]? with
        | none => simp [hek, throw, throwThe, MonadExceptOf.throw] at h
        | some e =>
          simp only [hek] at h
          have hklt : k < rem.length := by
            cases hd : decide (k < rem.length) with
            | true => exact of_decide_eq_true hd
            | false =>
              have : rem.length ≤ k := Nat.le_of_not_lt (of_decide_eq_false hd)
              rw [List.getElem?_eq_none this] at hek; cases hek
          have hlen : f = (rem.eraseIdx k).length := by rw [List.length_eraseIdx]; simp [hklt]; omega
          have hmapE : (rem.eraseIdx k).map φ = (rem.map φ).eraseIdx k := by
            exact map_eraseIdx' φ rem k
          have hsl : shapeAt m left = some (a, b, l) := by simp [shapeAt, hml, hla, hlb, hle]
          have hsr : shapeAt m right = some (a', b', r) := by simp [shapeAt, hmr, hra, hrb, hre]
          -- the two ways the entry can go
          have goLeft : ∀ m1, assign m e left = .ok m1 →
              distribute H minC left right f (rem.eraseIdx k) m1 = .ok m' →
              ∃ l' r', shapeAt m' left = some (a, b, l') ∧ shapeAt m' right = some (a', b', r') ∧
                GeomV.C11.distribute H minC (l.map φ ++ [φ e]) (r.map φ) ((rem.map φ).eraseIdx k) = .ok (l'.map φ, r'.map φ) ∧
                ∀ i, i ≠ left → i ≠ right → shapeAt m' i = shapeAt m i := by
            intro m1 ha1 hd1
            obtain ⟨h1, h2⟩ := assign_shape ha1 hsl
            obtain ⟨l', r', q1, q2, q3, q4⟩ := ih (rem.eraseIdx k) m1 m' a a' b b' (l ++ [e]) r hlen h1
              (by rw [h2 right (Ne.symm hne)]; exact hsr) hd1
            refine ⟨l', r', q1, q2, ?_, fun i hi1 hi2 => (q4 i hi1 hi2).trans (h2 i hi1)⟩
            simpa [hmapE] using q3
          have goRight : ∀ m1, assign m e right = .ok m1 →
              distribute H minC left right f (rem.eraseIdx k) m1 = .ok m' →
              ∃ l' r', shapeAt m' left = some (a, b, l') ∧ shapeAt m' right = some (a', b', r') ∧
                GeomV.C11.distribute H minC (l.map φ) (r.map φ ++ [φ e]) ((rem.map φ).eraseIdx k) = .ok (l'.map φ, r'.map φ) ∧
                ∀ i, i ≠ left → i ≠ right → shapeAt m' i = shapeAt m i := by
            intro m1 ha1 hd1
            obtain ⟨h1, h2⟩ := assign_shape ha1 hsr
            obtain ⟨l', r', q1, q2, q3, q4⟩ := ih (rem.eraseIdx k) m1 m' a a' b b' l (r ++ [e]) hlen
              (by rw [h2 left hne]; exact hsl) h1 hd1
            refine ⟨l', r', q1, q2, ?_, fun i hi1 hi2 => (q4 i hi1 hi2).trans (h2 i hi2)⟩
            simpa [hmapE] using q3
          have hgetM : (rem.map φ)[H.pickNext ((l.map φ).map Entry.bb) ((r.map φ).map Entry.bb) ((rem.map φ).map Entry.bb)]? = some (φ e) := by
            rw [bbs_map φ hφ, bbs_map φ hφ, bbs_map φ hφ, hk, List.getElem?_map, hek]; rfl
          have hkM : H.pickNext ((l.map φ).map Entry.bb) ((r.map φ).map Entry.bb) ((rem.map φ).map Entry.bb) = k := by
            rw [bbs_map φ hφ, bbs_map φ hφ, bbs_map φ hφ, hk]
          rw [GeomV.C11.distribute]
          simp only [hrne', dite_false]
          split
          · rename_i hn; rw [hgetM] at hn; cases hn
          · rename_i e' hn
            rw [hgetM] at hn; cases hn
            simp only [List.length_map, bbs_map φ hφ, hφ, hk]
            split_ifs at h ⊢
            · cases ha1 : assign m e left with
              | error x => simp [ha1] at h
              | ok m1 => simp only [ha1] at h; exact goLeft m1 ha1 h
            · cases ha1 : assign m e right with
              | error x => simp [ha1] at h
              | ok m1 => simp only [ha1] at h; exact goRight m1 ha1 h
            · cases ha1 : assign m e left with
              | error x => simp [ha1] at h
              | ok m1 => simp only [ha1] at h; exact goLeft m1 ha1 h
            · cases ha1 : assign m e right with
              | error x => simp [ha1] at h
              | ok m1 => simp only [ha1] at h; exact goRight m1 ha1 h

/-- **C11_heap_split_refines** — `(*node).split` on the arena (node `n` reused as `left`, `right` allocated, every
`.parent` write of the seeds and of `assign` performed) leaves in `left` and `right` exactly the two entry lists that the
functional `splitEntries` computes from `n`'s entries (for every reading `φ` of arena entries as functional entries that
keeps the boxes), keeps `leaf`/`level` of `n` on both, returns `left = n`, `right` = the fresh pointer, and changes
`leaf`/`level`/`entries` of no other node (only `parent` fields of children are written). -/
theorem C11_heap_split_refines (H : Heur) (minC : Nat) (φ : HEntry O → Entry O') (hφ : ∀ e, (φ e).bb = e.bb)
    (m m' : Arena O) (n lp rp : Ptr) (nd : HNode O) (hm : m[n]? = some nd)
    (h : split H minC m n = .ok (m', lp, rp)) :
    lp = n ∧ rp = m.length ∧ ∃ le re, shapeAt m' n = some (nd.leaf, nd.level, le) ∧
      shapeAt m' rp = some (nd.leaf, nd.level, re) ∧
      splitEntries H minC (nd.entries.map φ) = .ok (le.map φ, re.map φ) ∧
      ∀ i, i ≠ n → i < m.length → shapeAt m' i = shapeAt m i := by
  have hnlt : n < m.length := by
    cases hd : decide (n < m.length) with
    | true => exact of_decide_eq_true hd
    | false =>
      have : m.length ≤ n := Nat.le_of_not_lt (of_decide_eq_false hd)
      rw [List.getElem?_eq_none this] at hm; cases hm
  obtain ⟨ce, psd, pn, al⟩ := H
  unfold split at h
  simp only [deref, hm, bind, Except.bind, pure, Except.pure] at h
  unfold splitEntries
  rw [bbs_map φ hφ]
  simp only [] at h ⊢
  generalize psd (bbs nd.entries) = ps at h ⊢
  obtain ⟨li, ri⟩ := ps
  simp only [List.getElem?_map] at h ⊢
  cases hl : nd.entries[li]? with
  | none => simp [hl, throw, throwThe, MonadExceptOf.throw] at h
  | some ls =>
    cases hr : nd.entries[ri]? with
    | none => simp [hl, hr, throw, throwThe, MonadExceptOf.throw] at h
    | some rs =>
      simp only [hl, hr, Option.map_some] at h ⊢
      by_cases hlt : li < ri
      · simp only [hlt, if_true, alloc, List.length_set] at h ⊢
        cases h3 : setChildParent ((m.set n { nd with entries := [ls] }) ++ [{ parent := nd.parent, leaf := nd.leaf, level := nd.level, entries := [rs] }]) rs m.length with
        | error x => simp [h3] at h
        | ok m3 =>
          simp only [h3] at h
          cases h4 : setChildParent m3 ls n with
          | error x => simp [h4] at h
          | ok m4 =>
            simp only [h4] at h
            cases h5 : distribute (Heur.mk ce psd pn al) minC n m.length ((nd.entries.eraseIdx ri).eraseIdx li).length ((nd.entries.eraseIdx ri).eraseIdx li) m4 with
            | error x => simp [h5] at h
            | ok m5 =>
              simp only [h5, Except.ok.injEq, Prod.mk.injEq] at h
              obtain ⟨h51, h52, h53⟩ := h
              subst h51; subst h52; subst h53
              have s3 := setChildParent_shape h3
              have s4 := setChildParent_shape h4
              have hn4 : shapeAt m4 n = some (nd.leaf, nd.level, [ls]) := by
                rw [s4, s3]; unfold shapeAt
                rw [List.getElem?_append_left (by simpa using hnlt), List.getElem?_set_self hnlt]; rfl
              have hr4 : shapeAt m4 m.length = some (nd.leaf, nd.level, [rs]) := by
                rw [s4, s3]; unfold shapeAt
                rw [List.getElem?_append_right (by simp)]; simp
              have hne : n ≠ m.length := Nat.ne_of_lt hnlt
              obtain ⟨le, re, q1, q2, q3, q4⟩ := distribute_refines (Heur.mk ce psd pn al) minC φ hφ n m.length hne _ _ m4 m5 _ _ _ _ [ls] [rs] rfl hn4 hr4 h5
              refine ⟨rfl, rfl, le, re, q1, q2, ?_, ?_⟩
              · rw [← map_eraseIdx' φ, ← map_eraseIdx' φ]; simpa using q3
              · intro i hi hilt
                rw [q4 i hi (Nat.ne_of_lt hilt), s4, s3]; unfold shapeAt
                rw [List.getElem?_append_left (by simpa using hilt), List.getElem?_set_ne (Ne.symm hi)]
      · simp [hlt, throw, throwThe, MonadExceptOf.throw] at h

/-- non-vacuity: `split` succeeds on a concrete arena (three object entries, trivial in-range heuristics) and the
representation hypothesis of the search/findLeaf theorems holds of a concrete two-level memory -/
example : ∃ m' l r, split (O := Nat) ⟨fun _ _ => 0, fun _ => (0, 1), fun _ _ _ => 0, fun _ _ _ => true⟩ 1
    [{ parent := none, leaf := true, level := 1, entries :=
        [⟨⟨0, 0, 0, 0⟩, none, some 0⟩, ⟨⟨5, 5, 5, 5⟩, none, some 1⟩, ⟨⟨1, 1, 1, 1⟩, none, some 2⟩] }] 0 = .ok (m', l, r) :=
  ⟨_, _, _, rfl⟩

example : ∃ n, erase (O := Nat)
    [{ parent := none, leaf := false, level := 2, entries := [⟨⟨0, 0, 1, 1⟩, some 1, none⟩] },
     { parent := some 0, leaf := true, level := 1, entries := [⟨⟨0, 0, 1, 1⟩, none, some 7⟩] }] 2 0 = some n :=
  ⟨_, rfl⟩

end Heap
end GeomV.C11
