import GeomV.C11.ProofsParent
/-
C11 — the parent-link invariant `ParentOK` is preserved by the arena operations AS WHOLES: the primitive-step lemmas of
ParentView.lean composed along `chooseNode` → append → `split`/`distribute` → `adjustTree` → root split (`insert`) and
`findLeaf` → entry removal → `condenseUp` → `reinsert` → `collapse` (`Delete`).
-/
set_option linter.unusedVariables false
set_option linter.unusedSimpArgs false
namespace GeomV.C11
namespace Heap
variable {O : Type}

/-! ### list helpers -/

theorem perm_eraseIdx {α : Type} : ∀ (l : List α) (i : Nat) (a : α), l[i]? = some a → l.Perm (a :: l.eraseIdx i)
  | [], i, a, h => by simp at h
  | b :: l, 0, a, h => by simp at h; subst h; simp
  | b :: l, i+1, a, h => by
    simp at h
    have := perm_eraseIdx l i a h
    simp only [List.eraseIdx_cons_succ]
    exact (List.Perm.cons b this).trans (List.Perm.swap a b _)

theorem kids_append (a b : List (HEntry O)) : kids (a ++ b) = kids a ++ kids b := by
  unfold kids; exact List.filterMap_append

theorem kids_single_some {e : HEntry O} {c : Ptr} (h : e.child = some c) : kids [e] = [c] := by
  simp [kids, h]

theorem kids_single_none {e : HEntry O} (h : e.child = none) : kids [e] = [] := by
  simp [kids, h]

theorem kids_setBB : ∀ (es : List (HEntry O)) (k : Nat) (b : Box), kids (setBB es k b) = kids es
  | [], k, b => by simp [setBB, kids]
  | e :: es, 0, b => by simp [setBB, kids, List.filterMap_cons]
  | e :: es, k+1, b => by
    have := kids_setBB es k b
    simp only [setBB, kids, List.modify_succ_cons, List.filterMap_cons] at this ⊢
    rw [this]

theorem mem_kids {es : List (HEntry O)} {e : HEntry O} {c : Ptr} (he : e ∈ es) (hc : e.child = some c) :
    c ∈ kids es := by
  unfold kids; rw [List.mem_filterMap]; exact ⟨e, he, hc⟩

theorem kids_perm {a b : List (HEntry O)} (h : a.Perm b) : (kids a).Perm (kids b) := List.Perm.filterMap _ h

theorem entryIdx_mem {es : List (HEntry O)} {n : Ptr} {k : Nat} (h : entryIdx es n = some k) : n ∈ kids es := by
  unfold entryIdx at h
  rw [List.findIdx?_eq_some_iff_getElem] at h
  obtain ⟨hk, hp, _⟩ := h
  have hc : (es[k]).child = some n := by simpa using hp
  exact mem_kids (List.getElem_mem hk) hc

/-- the invariant of a memory, with detached subtrees `D` -/
abbrev P (m : Arena O) (root : Ptr) (D : List Ptr) : Prop := VJ (view m) root D

theorem view_ex {m : Arena O} {i : Ptr} {nd : HNode O} (h : m[i]? = some nd) :
    ∃ a b, view m i = some (a, b) := ⟨_, _, view_some h⟩

/-- `x.entries = es` when the children are the same list: the view does not change -/
theorem view_setEntries_same {m : Arena O} {x : Ptr} {xn : HNode O} (h : m[x]? = some xn) (es : List (HEntry O))
    (hk : kids es = kids xn.entries) : view (m.set x { xn with entries := es }) = view m := by
  rw [view_setEntries h, hk]; exact setKids_same (view_some h)

theorem getElem?_set_self' {m : Arena O} {x : Ptr} {xn y : HNode O} (h : m[x]? = some xn) :
    (m.set x y)[x]? = some y := List.getElem?_set_self (lt_of_getElem? h)

/-! ### chooseNode -/

/-- the root or a node held by a live node -/
def Held (m : Arena O) (root : Ptr) (D : List Ptr) (l : Ptr) : Prop :=
  l = root ∨ ∃ x xn, m[x]? = some xn ∧ VLive (view m) root D x ∧ l ∈ kids xn.entries

theorem Held.live {m : Arena O} {root : Ptr} {D : List Ptr} {l : Ptr} (hP : P m root D) (h : Held m root D l) :
    VLive (view m) root D l := by
  rcases h with h | ⟨x, xn, hx, hl, hin⟩
  · exact Or.inl h
  · exact (hP.child_live (view_some hx) hl hin).1

theorem Held.not_mem {m : Arena O} {root : Ptr} {D : List Ptr} {l : Ptr} (hP : P m root D) (h : Held m root D l) :
    l ∉ D := by
  intro hd
  rcases h with h | ⟨x, xn, hx, hl, hin⟩
  · exact hP.dNotRoot (h ▸ hd)
  · exact hP.dDet l hd x _ _ (view_some hx) hl hin

theorem chooseNode_held (H : Heur) {m : Arena O} {root : Ptr} {D : List Ptr} (hP : P m root D) (ebb : Box) (lvl : Nat) :
    ∀ (f : Nat) (n l : Ptr), Held m root D n → chooseNode H m f n ebb lvl = .ok l → Held m root D l := by
  intro f
  induction f with
  | zero => intro n l _ h; simp [chooseNode, throw, throwThe, MonadExceptOf.throw] at h
  | succ f ih =>
    intro n l hn h
    rw [chooseNode] at h
    simp only [deref, bind, Except.bind] at h
    cases hm : m[n]? with
    | none => simp [hm, nilDeref, throw, throwThe, MonadExceptOf.throw] at h
    | some nd =>
      simp only [hm, pure, Except.pure] at h
      split_ifs at h with h1 h2
      · cases h; exact hn
      · simp [nilDeref, throw, throwThe, MonadExceptOf.throw] at h
      · cases he : nd.entries[H.chooseEntry (bbs nd.entries) ebb]? with
        | none => simp [he, throw, throwThe, MonadExceptOf.throw] at h
        | some en =>
          simp only [he] at h
          cases hc : en.child with
          | none => simp [hc, nilDeref, throw, throwThe, MonadExceptOf.throw] at h
          | some c =>
            simp only [hc] at h
            refine ih c l (Or.inr ⟨n, nd, hm, hn.live hP, ?_⟩) h
            exact mem_kids (List.mem_of_getElem? he) hc

/-! ### assign, distribute -/

theorem kids_single_toList (e : HEntry O) : kids [e] = e.child.toList := by
  cases h : e.child <;> simp [kids, h]

theorem live_frame {v v' : View} {root : Ptr} {D : List Ptr} {x : Ptr} (h : VLive v root D x)
    (hf : ∀ a b, v x = some (a, b) → ∃ b', v' x = some (a, b')) : VLive v' root D x := by
  rcases h with h | h | ⟨p, ks, h⟩
  · exact Or.inl h
  · exact Or.inr (Or.inl h)
  · obtain ⟨b', hb⟩ := hf _ _ h; exact Or.inr (Or.inr ⟨p, b', hb⟩)

theorem congr_step {D0 K K' : List Ptr} {c : Option Ptr} (hperm : K.Perm (c.toList ++ K')) (hn : (D0 ++ K).Nodup) :
    (D0 ++ K').Nodup ∧ ∀ d, d ∈ D0 ++ K' ↔ (d ∈ D0 ++ K ∧ c ≠ some d) := by
  rw [List.nodup_append] at hn
  obtain ⟨hD0, hK, hdis⟩ := hn
  have hK2 : (c.toList ++ K').Nodup := hperm.nodup_iff.mp hK
  rw [List.nodup_append] at hK2
  obtain ⟨_, hK', hdis2⟩ := hK2
  have memK : ∀ d, d ∈ K ↔ (c = some d ∨ d ∈ K') := by
    intro d; rw [hperm.mem_iff, List.mem_append]
    cases c <;> simp [eq_comm]
  constructor
  · rw [List.nodup_append]
    exact ⟨hD0, hK', fun a ha b hb => hdis a ha b ((memK b).mpr (Or.inr hb))⟩
  · intro d
    simp only [List.mem_append]
    constructor
    · rintro (h | h)
      · refine ⟨Or.inl h, fun hc => ?_⟩
        exact hdis d h d ((memK d).mpr (Or.inl hc)) rfl
      · refine ⟨Or.inr ((memK d).mpr (Or.inr h)), fun hc => ?_⟩
        exact hdis2 d (by rw [hc]; simp) d h rfl
    · rintro ⟨h | h, hc⟩
      · exact Or.inl h
      · rcases (memK d).mp h with h1 | h1
        · exact absurd h1 hc
        · exact Or.inr h1

theorem assign_view {m m' : Arena O} {e : HEntry O} {g : Ptr} {pp : Option Ptr} {ks : List Ptr}
    (h : assign m e g = .ok m') (hg : view m g = some (pp, ks)) :
    (e.child = none ∧ view m' = view m) ∨
    (∃ c, e.child = some c ∧ view m' = setPar (setKids (view m) g (ks ++ [c])) c (some g)) := by
  unfold assign at h
  cases hc : e.child with
  | none =>
    left
    simp only [setChildParent, hc, bind, Except.bind, pure, Except.pure, deref] at h
    obtain ⟨gd, hgd, _, hk⟩ := view_inv hg
    simp only [hgd] at h
    cases h
    refine ⟨rfl, view_setEntries_same hgd _ ?_⟩
    rw [kids_append, kids_single_none hc]; simp
  | some c =>
    right
    refine ⟨c, rfl, ?_⟩
    simp only [setChildParent, hc, bind, Except.bind] at h
    cases h1 : setParent m c (some g) with
    | error x => simp [h1] at h
    | ok m1 =>
      simp only [h1, deref] at h
      have hv1 := view_setParent h1
      have hg1 : view m1 g = some (if g = c then some g else pp, ks) := by rw [hv1]; exact setPar_fwd c (some g) hg
      obtain ⟨gd, hgd, _, hk⟩ := view_inv hg1
      simp only [hgd, pure, Except.pure] at h
      cases h
      rw [view_setEntries hgd, kids_append, kids_single_some hc, hk, hv1, setKids_setPar_comm]

theorem assign_P {m m' : Arena O} {root : Ptr} {DD : List Ptr} {e : HEntry O} {g : Ptr} {pp : Option Ptr} {ks : List Ptr}
    (hP : P m root DD) (hg : view m g = some (pp, ks)) (hl : VLive (view m) root DD g)
    (hc : ∀ c, e.child = some c → c ∈ DD ∧ c ≠ g) (h : assign m e g = .ok m') :
    ∃ DD', P m' root DD' ∧ (∀ d, d ∈ DD' ↔ (d ∈ DD ∧ e.child ≠ some d)) ∧
      ∀ i a b, view m i = some (a, b) → e.child ≠ some i → ∃ b', view m' i = some (a, b') := by
  rcases assign_view h hg with ⟨hn, hv⟩ | ⟨c, hcc, hv⟩
  · refine ⟨DD, by rw [P, hv]; exact hP, fun d => by simp [hn], fun i a b hi _ => ⟨b, by rw [hv]; exact hi⟩⟩
  · obtain ⟨hcD, hcg⟩ := hc c hcc
    refine ⟨DD.erase c, by rw [P, hv]; exact hP.adopt hcD hg hl hcg, ?_, ?_⟩
    · intro d
      rw [hP.dNodup.mem_erase_iff, hcc]
      constructor
      · rintro ⟨h1, h2⟩; exact ⟨h2, fun e => h1 (by cases e; rfl)⟩
      · rintro ⟨h1, h2⟩; exact ⟨fun e => h2 (by rw [e]), h1⟩
    · intro i a b hi hne
      rw [hv]
      have : i ≠ c := fun e => hne (by rw [hcc, e])
      exact adopt_ne this hi

theorem distribute_P (H : Heur) (minC : Nat) {root : Ptr} (left right : Ptr) (D0 : List Ptr) :
    ∀ (fuel : Nat) (rem : List (HEntry O)) (m m' : Arena O), fuel = rem.length →
      P m root (D0 ++ kids rem) → VLive (view m) root D0 left → VLive (view m) root D0 right →
      (∃ a b, view m left = some (a, b)) → (∃ a b, view m right = some (a, b)) →
      (∀ c ∈ kids rem, c ≠ left ∧ c ≠ right) →
      distribute H minC left right fuel rem m = .ok m' →
      P m' root D0 ∧ ∀ i a b, view m i = some (a, b) → i ∉ kids rem → ∃ b', view m' i = some (a, b') := by
  intro fuel
  induction fuel with
  | zero =>
    intro rem m m' hf hP _ _ _ _ _ h
    have : rem = [] := List.length_eq_zero_iff.mp hf.symm
    subst this
    simp [Heap.distribute, pure, Except.pure] at h; subst h
    refine ⟨by simpa [kids] using hP, fun i a b hi _ => ⟨b, hi⟩⟩
  | succ f ih =>
    intro rem m m' hf hP hll hlr hel her hne h
    have hrne : rem ≠ [] := by intro h0; subst h0; simp at hf
    rw [Heap.distribute] at h
    have hemp : rem.isEmpty = false := by cases rem <;> simp_all
    simp only [hemp, Bool.false_eq_true, if_false, deref, bind, Except.bind] at h
    obtain ⟨la, lb, hvl⟩ := hel
    obtain ⟨ra, rb, hvr⟩ := her
    obtain ⟨ld, hml, _, _⟩ := view_inv hvl
    obtain ⟨rd, hmr, _, _⟩ := view_inv hvr
    simp only [hml, hmr, pure, Except.pure] at h
    generalize hk : H.pickNext (bbs ld.entries) (bbs rd.entries) (bbs rem) = k at h
    cases hek : rem[k]? with
    | none => simp [hek, throw, throwThe, MonadExceptOf.throw] at h
    | some e =>
      simp only [hek] at h
      have hklt : k < rem.length := by
        cases hd : decide (k < rem.length) with
        | true => exact of_decide_eq_true hd
        | false =>
          have : rem.length ≤ k := Nat.le_of_not_lt (of_decide_eq_false hd)
          rw [List.getElem?_eq_none this] at hek; cases hek
      have hlen : f = (rem.eraseIdx k).length := by rw [List.length_eraseIdx]; simp [hklt]; omega
      have hperm : (kids rem).Perm (e.child.toList ++ kids (rem.eraseIdx k)) := by
        have := kids_perm (perm_eraseIdx rem k e hek)
        rwa [show e :: rem.eraseIdx k = [e] ++ rem.eraseIdx k from rfl, kids_append, kids_single_toList] at this
      obtain ⟨hnd', hmem'⟩ := congr_step hperm hP.dNodup
      have hsubK : ∀ c, c ∈ kids (rem.eraseIdx k) → c ∈ kids rem := by
        intro c hc; rw [hperm.mem_iff]; exact List.mem_append.mpr (Or.inr hc)
      have key : ∀ g m1, (g = left ∨ g = right) → assign m e g = .ok m1 →
          distribute H minC left right f (rem.eraseIdx k) m1 = .ok m' →
          P m' root D0 ∧ ∀ i a b, view m i = some (a, b) → i ∉ kids rem → ∃ b', view m' i = some (a, b') := by
        intro g m1 hgg ha1 hd1
        have hgv : ∃ a b, view m g = some (a, b) := by
          rcases hgg with rfl | rfl
          · exact ⟨_, _, hvl⟩
          · exact ⟨_, _, hvr⟩
        obtain ⟨ga, gb, hgv⟩ := hgv
        have hgl : VLive (view m) root (D0 ++ kids rem) g := by
          rcases hgg with rfl | rfl
          · exact VLive_mono (fun d hd => List.mem_append.mpr (Or.inl hd)) hll
          · exact VLive_mono (fun d hd => List.mem_append.mpr (Or.inl hd)) hlr
        have hcond : ∀ c, e.child = some c → c ∈ D0 ++ kids rem ∧ c ≠ g := by
          intro c hc
          have hck : c ∈ kids rem := mem_kids (List.mem_of_getElem? hek) hc
          refine ⟨List.mem_append.mpr (Or.inr hck), ?_⟩
          rcases hgg with rfl | rfl
          · exact (hne c hck).1
          · exact (hne c hck).2
        obtain ⟨DD', hP1, hmemDD, hfr⟩ := assign_P hP hgv hgl hcond ha1
        have hP1' : P m1 root (D0 ++ kids (rem.eraseIdx k)) :=
          hP1.congr (fun d => by rw [hmem' d, hmemDD d]) hnd'
        have notchild : ∀ i, i ∉ kids rem → e.child ≠ some i := by
          intro i hi hc; exact hi (mem_kids (List.mem_of_getElem? hek) hc)
        have hleftK : left ∉ kids rem := fun hh => (hne left hh).1 rfl
        have hrightK : right ∉ kids rem := fun hh => (hne right hh).2 rfl
        obtain ⟨q1, q2⟩ := ih (rem.eraseIdx k) m1 m' hlen hP1'
          (live_frame hll (fun a b hi => hfr left a b hi (notchild left hleftK)))
          (live_frame hlr (fun a b hi => hfr right a b hi (notchild right hrightK)))
          (by obtain ⟨b', hb⟩ := hfr left la lb hvl (notchild left hleftK); exact ⟨_, _, hb⟩)
          (by obtain ⟨b', hb⟩ := hfr right ra rb hvr (notchild right hrightK); exact ⟨_, _, hb⟩)
          (fun c hc => hne c (hsubK c hc)) hd1
        refine ⟨q1, ?_⟩
        intro i a b hi hik
        obtain ⟨b1, hb1⟩ := hfr i a b hi (notchild i hik)
        exact q2 i a b1 hb1 (fun hh => hik (hsubK i hh))
      split_ifs at h
      · cases ha1 : assign m e left with
        | error x => simp [ha1] at h
        | ok m1 => simp only [ha1] at h; exact key left m1 (Or.inl rfl) ha1 h
      · cases ha1 : assign m e right with
        | error x => simp [ha1] at h
        | ok m1 => simp only [ha1] at h; exact key right m1 (Or.inr rfl) ha1 h
      · cases ha1 : assign m e left with
        | error x => simp [ha1] at h
        | ok m1 => simp only [ha1] at h; exact key left m1 (Or.inl rfl) ha1 h
      · cases ha1 : assign m e right with
        | error x => simp [ha1] at h
        | ok m1 => simp only [ha1] at h; exact key right m1 (Or.inr rfl) ha1 h

/-! ### split -/

theorem setChildParent_view {m m' : Arena O} {e : HEntry O} {g : Ptr} (h : setChildParent m e g = .ok m') :
    (e.child = none ∧ m' = m) ∨ (∃ c, e.child = some c ∧ view m' = setPar (view m) c (some g)) := by
  unfold setChildParent at h
  cases hc : e.child with
  | none => simp [hc, pure, Except.pure] at h; exact Or.inl ⟨rfl, h.symm⟩
  | some c => simp only [hc] at h; exact Or.inr ⟨c, rfl, view_setParent h⟩

theorem allocV_setKids (v : View) (q : Ptr) (pp : Option Ptr) (ks : List Ptr) :
    allocV v q (pp, ks) = setKids (allocV v q (pp, [])) q ([] ++ ks) := by
  funext i
  unfold allocV setKids
  by_cases hi : i = q <;> simp [hi]

theorem nodup3 {A B R : List Ptr} (h : (B ++ (A ++ R)).Nodup) :
    A.Nodup ∧ (B ++ R).Nodup ∧ (∀ d ∈ B ++ R, d ∉ A) := by
  rw [List.nodup_append] at h
  obtain ⟨hB, hAR, hdisB⟩ := h
  rw [List.nodup_append] at hAR
  obtain ⟨hA, hR, hdisA⟩ := hAR
  refine ⟨hA, ?_, ?_⟩
  · rw [List.nodup_append]
    exact ⟨hB, hR, fun a ha b hb => hdisB a ha b (List.mem_append.mpr (Or.inr hb))⟩
  · intro d hd hdA
    rcases List.mem_append.mp hd with hd | hd
    · exact hdisB d hd d (List.mem_append.mpr (Or.inl hdA)) rfl
    · exact hdisA d hdA d hd rfl

theorem nodup_drop_mid {X B R : List Ptr} (h : (X ++ (B ++ R)).Nodup) : (X ++ R).Nodup := by
  rw [List.nodup_append] at h ⊢
  obtain ⟨hX, hBR, hdis⟩ := h
  rw [List.nodup_append] at hBR
  exact ⟨hX, hBR.2.1, fun a ha b hb => hdis a ha b (List.mem_append.mpr (Or.inr hb))⟩

/-- `(*node).split` preserves the invariant; the new sibling `right` comes back as a detached live subtree with the
parent field of `n`, which `n` keeps -/
theorem split_P (H : Heur) (minC : Nat) {m m' : Arena O} {root : Ptr} {D : List Ptr} {n lp rp : Ptr} {nd : HNode O}
    (hP : P m root D) (hm : m[n]? = some nd) (hl : VLive (view m) root D n)
    (h : split H minC m n = .ok (m', lp, rp)) :
    lp = n ∧ P m' root (rp :: D) ∧ (∃ b, view m' rp = some (nd.parent, b)) ∧ (∃ b, view m' n = some (nd.parent, b)) ∧
      nd.parent ≠ some rp := by
  have hnlt : n < m.length := lt_of_getElem? hm
  have hvn : view m n = some (nd.parent, kids nd.entries) := view_some hm
  have hgn := hP.good n _ _ hvn hl
  have hnself := hP.noSelf n _ _ hvn hl
  have hqnone : view m m.length = none := (view_alloc m nd).2
  obtain ⟨ce, psd, pn, al⟩ := H
  unfold split at h
  simp only [deref, hm, bind, Except.bind, pure, Except.pure] at h
  generalize psd (bbs nd.entries) = ps at h
  obtain ⟨li, ri⟩ := ps
  simp only at h
  cases hls : nd.entries[li]? with
  | none => simp [hls, throw, throwThe, MonadExceptOf.throw] at h
  | some ls =>
    cases hrs : nd.entries[ri]? with
    | none => simp [hls, hrs, throw, throwThe, MonadExceptOf.throw] at h
    | some rs =>
      simp only [hls, hrs] at h
      by_cases hlt : li < ri
      · simp only [hlt, if_true, alloc, List.length_set] at h
        generalize hrem : (nd.entries.eraseIdx ri).eraseIdx li = rem at h
        generalize hm1 : m.set n { nd with entries := [ls] } = m1 at h
        generalize hrn : ({ parent := nd.parent, leaf := nd.leaf, level := nd.level, entries := [rs] } : HNode O) = rn at h
        cases h3 : setChildParent (m1 ++ [rn]) rs m.length with
        | error x => simp [h3] at h
        | ok m3 =>
          simp only [h3] at h
          cases h4 : setChildParent m3 ls n with
          | error x => simp [h4] at h
          | ok m4 =>
            simp only [h4] at h
            cases h5 : distribute (Heur.mk ce psd pn al) minC n m.length rem.length rem m4 with
            | error x => simp [h5] at h
            | ok m5 =>
              simp only [h5, Except.ok.injEq, Prod.mk.injEq] at h
              obtain ⟨h51, h52, h53⟩ := h
              subst h51; subst h52; subst h53
              -- the children of n: right seed, left seed, the rest
              have hperm : (kids nd.entries).Perm (rs.child.toList ++ (ls.child.toList ++ kids rem)) := by
                have p1 := perm_eraseIdx nd.entries ri rs hrs
                have hls' : (nd.entries.eraseIdx ri)[li]? = some ls := by
                  rw [List.getElem?_eraseIdx_of_lt hlt]; exact hls
                have p2 := perm_eraseIdx (nd.entries.eraseIdx ri) li ls hls'
                rw [hrem] at p2
                have p3 : nd.entries.Perm ([rs] ++ ([ls] ++ rem)) := p1.trans (List.Perm.cons rs p2)
                have := kids_perm p3
                rwa [kids_append, kids_append, kids_single_toList, kids_single_toList] at this
              have hnd3 := hperm.nodup_iff.mp hgn.1
              obtain ⟨hA, hBR, hdisA⟩ := nodup3 hnd3
              have memK : ∀ d, d ∈ kids nd.entries ↔ (d ∈ rs.child.toList ∨ d ∈ ls.child.toList ∨ d ∈ kids rem) := by
                intro d; rw [hperm.mem_iff]; simp [List.mem_append]
              -- step 1: left.entries = [ls]
              have hv1 : view m1 = setKids (view m) n ls.child.toList := by
                rw [← hm1, view_setEntries hm, kids_single_toList]
              have hP1 : VJ (setKids (view m) n ls.child.toList) root (D ++ (rs.child.toList ++ kids rem)) :=
                hP.shrink hvn hl (fun c hc => (memK c).mpr (Or.inr (Or.inl hc))) hA hBR
                  (fun d hd => (memK d).mpr (by
                    rcases List.mem_append.mp hd with hd | hd
                    · exact Or.inl hd
                    · exact Or.inr (Or.inr hd))) hdisA
              have hm1len : m1.length = m.length := by rw [← hm1]; simp
              have hv1n : setKids (view m) n ls.child.toList n = some (nd.parent, ls.child.toList) := by
                have := setKids_fwd n ls.child.toList hvn; simpa using this
              have hv1q : setKids (view m) n ls.child.toList m.length = none := by
                unfold setKids; simp [Nat.ne_of_gt hnlt, hqnone]
              -- step 2: right = &node{parent: n.parent, entries: [rs]}
              have hv2 : view (m1 ++ [rn]) = allocV (view m1) m.length (nd.parent, rs.child.toList) := by
                have := (view_alloc m1 rn).1
                rw [hm1len] at this
                rw [← hrn] at this ⊢
                simpa [alloc, kids_single_toList] using this
              have hP2 : VJ (allocV (view m1) m.length (nd.parent, [])) root (m.length :: (D ++ (rs.child.toList ++ kids rem))) := by
                rw [hv1]
                exact hP1.alloc nd.parent hv1q (fun p hp => hP1.parEx n p _ (by rw [hv1n, hp]))
              -- step 3: rs.child.parent = right
              have hP3 : P m3 root ((m.length :: D) ++ kids rem) ∧ view m3 n = some (nd.parent, ls.child.toList) ∧
                  (∃ b, view m3 m.length = some (nd.parent, b)) := by
                rcases setChildParent_view h3 with ⟨hcn, hmm⟩ | ⟨c, hcc, hv3⟩
                · subst hmm
                  have hv : view (m1 ++ [rn]) = allocV (view m1) m.length (nd.parent, []) := by
                    rw [hv2, hcn]; rfl
                  refine ⟨?_, ?_, ?_⟩
                  · rw [P, hv]
                    have := hP2; rw [hcn] at this
                    simpa using this
                  · rw [hv, hv1]; unfold allocV; simp [Nat.ne_of_lt hnlt, hv1n]
                  · exact ⟨[], by rw [hv]; unfold allocV; simp⟩
                · have hcD : c ∈ m.length :: (D ++ (rs.child.toList ++ kids rem)) := by
                    rw [hcc]; simp
                  have hcK : c ∈ kids nd.entries := (memK c).mpr (Or.inl (by rw [hcc]; simp))
                  have hcq : c ≠ m.length := by
                    intro e
                    obtain ⟨pk, hpk⟩ := hP.closed n _ _ hvn c hcK
                    rw [e, hqnone] at hpk; cases hpk
                  have hcn : c ≠ n := fun e => hnself (e ▸ hcK)
                  have hq0 : allocV (view m1) m.length (nd.parent, []) m.length = some (nd.parent, []) := by
                    unfold allocV; simp
                  have hA3 := hP2.adopt hcD hq0 (Or.inr (Or.inl (by simp))) hcq
                  have hv3' : view m3 = setPar (setKids (allocV (view m1) m.length (nd.parent, [])) m.length ([] ++ [c])) c (some m.length) := by
                    rw [hv3, hv2, hcc]; rw [allocV_setKids]; rfl
                  refine ⟨?_, ?_, ?_⟩
                  · rw [P, hv3']
                    have hL := hP2.dNodup
                    refine hA3.congr ?_ (nodup_drop_mid (B := rs.child.toList) (by simpa using hL))
                    intro d
                    rw [hL.mem_erase_iff]
                    rw [hcc] at hL ⊢
                    simp only [Option.toList_some, List.nodup_cons, List.mem_append, List.mem_cons, List.nodup_append,
                      List.mem_singleton, List.cons_append, List.nil_append, List.not_mem_nil, or_false] at hL ⊢
                    constructor
                    · rintro (h1 | h1 | h1)
                      · refine ⟨fun e => hcq (e.symm.trans h1), Or.inl h1⟩
                      · refine ⟨fun e => ?_, Or.inr (Or.inl h1)⟩
                        subst e
                        exact hL.2.2.2 d h1 d (Or.inl rfl) rfl
                      · refine ⟨fun e => ?_, Or.inr (Or.inr (Or.inr h1))⟩
                        subst e
                        exact hL.2.2.1.1 h1
                    · rintro ⟨hne, h1 | h1 | h1 | h1⟩
                      · exact Or.inl h1
                      · exact Or.inr (Or.inl h1)
                      · exact absurd h1 hne
                      · exact Or.inr (Or.inr h1)
                  · rw [hv3', hv1]
                    have h0 : allocV (setKids (view m) n ls.child.toList) m.length (nd.parent, []) n = some (nd.parent, ls.child.toList) := by
                      unfold allocV; simp [Nat.ne_of_lt hnlt, hv1n]
                    have := adopt_fwd m.length c ([] ++ [c]) (some m.length) h0
                    simpa [Ne.symm hcn, Nat.ne_of_lt hnlt] using this
                  · have := adopt_fwd m.length c ([] ++ [c]) (some m.length) hq0
                    rw [hv3']
                    exact ⟨_, by simpa [Ne.symm hcq] using this⟩
              obtain ⟨hP3, hv3n, hb3, hv3q⟩ := hP3
              -- step 4: ls.child.parent = left (already so)
              have hln3 : VLive (view m3) root (m.length :: D) n := by
                rcases hl with hl | hl | ⟨p, ks, hl⟩
                · exact Or.inl hl
                · exact Or.inr (Or.inl (List.mem_cons_of_mem _ hl))
                · rw [hvn] at hl
                  have : nd.parent = some p := by simp at hl; exact hl.1
                  exact Or.inr (Or.inr ⟨p, _, by rw [hv3n, this]⟩)
              have hv4 : view m4 = view m3 := by
                rcases setChildParent_view h4 with ⟨_, hmm⟩ | ⟨c, hcc, hv4⟩
                · rw [hmm]
                · rw [hv4]
                  have hg3 := hP3.good n _ _ hv3n (VLive_mono (fun d hd => List.mem_append.mpr (Or.inl hd)) hln3)
                  obtain ⟨cks, hck⟩ := hg3.2 c (by rw [hcc]; simp)
                  exact setPar_same hck
              -- step 5: the loop
              have hRne : ∀ c ∈ kids rem, c ≠ n ∧ c ≠ m.length := by
                intro c hc
                have hcK : c ∈ kids nd.entries := (memK c).mpr (Or.inr (Or.inr hc))
                refine ⟨fun e => hnself (e ▸ hcK), fun e => ?_⟩
                obtain ⟨pk, hpk⟩ := hP.closed n _ _ hvn c hcK
                rw [e, hqnone] at hpk; cases hpk
              obtain ⟨hP5, hfr⟩ := distribute_P (Heur.mk ce psd pn al) minC n m.length (m.length :: D) rem.length rem m4 m5 rfl
                (by rw [P, hv4]; exact hP3) (by rw [hv4]; exact hln3) (Or.inr (Or.inl (by simp)))
                (by rw [hv4]; exact ⟨_, _, hv3n⟩) (by rw [hv4]; exact ⟨_, _, hv3q⟩) hRne h5
              refine ⟨rfl, hP5, ?_, ?_, ?_⟩
              · exact hfr m.length _ _ (by rw [hv4]; exact hv3q) (fun hh => (hRne _ hh).2 rfl)
              · exact hfr n _ _ (by rw [hv4]; exact hv3n) (fun hh => (hRne _ hh).1 rfl)
              · intro e
                obtain ⟨pk, hpk⟩ := hP.parEx n m.length _ (by rw [hvn, e])
                rw [hqnone] at hpk; cases hpk
      · simp [hlt, throw, throwThe, MonadExceptOf.throw] at h

/-! ### adjustTree -/

/-- the detached list with a pending split sibling -/
def pend : Option Ptr → List Ptr → List Ptr
  | some q, D => q :: D
  | none, D => D

theorem computeBB_ok {m : Arena O} {n : Ptr} {nd : HNode O} (h : m[n]? = some nd) :
    computeBB m n = .ok (mbr (bbs nd.entries)) := by
  simp [computeBB, deref, h, bind, Except.bind, pure, Except.pure]

theorem computeBB_inv {m : Arena O} {n : Ptr} {b : Box} (h : computeBB m n = .ok b) : ∃ nd, m[n]? = some nd := by
  unfold computeBB deref at h
  cases hm : m[n]? with
  | none => simp [hm, nilDeref, bind, Except.bind, throw, throwThe, MonadExceptOf.throw] at h
  | some nd => exact ⟨nd, rfl⟩

theorem adjust_P (H : Heur) (minC maxC : Nat) {root : Ptr} {D : List Ptr} :
    ∀ (f : Nat) (m : Arena O) (n : Ptr) (nn : Option Ptr) (m' : Arena O) (rt : Ptr) (sr : Option Ptr),
      P m root (pend nn D) →
      (∀ q, nn = some q → ∃ a kq kn, view m q = some (a, kq) ∧ view m n = some (a, kn) ∧ a ≠ some q) →
      adjustTree H minC maxC root f m n nn = .ok (m', rt, sr) →
      rt = root ∧ P m' root (pend sr D) ∧ (∀ s, sr = some s → ∃ ks, view m' s = some (none, ks)) := by
  intro f
  induction f with
  | zero => intro m n nn m' rt sr _ _ h; simp [adjustTree, throw, throwThe, MonadExceptOf.throw] at h
  | succ f ih =>
    intro m n nn m' rt sr hP hq h
    rw [adjustTree] at h
    by_cases hnr : n = root
    · simp only [hnr, beq_self_eq_true, if_true, pure, Except.pure, Except.ok.injEq, Prod.mk.injEq] at h
      obtain ⟨h1, h2, h3⟩ := h
      subst h1; subst h2; subst h3
      refine ⟨rfl, hP, ?_⟩
      intro s hs
      obtain ⟨a, kq, kn, h1, h2, _⟩ := hq s hs
      obtain ⟨rks, hr⟩ := hP.rootOK
      rw [hnr, hr] at h2
      simp at h2
      exact ⟨kq, by rw [h1, ← h2.1]⟩
    · have hne : (n == root) = false := by simpa using hnr
      simp only [hne, Bool.false_eq_true, if_false, deref, bind, Except.bind] at h
      cases hmn : m[n]? with
      | none => simp [hmn, nilDeref, throw, throwThe, MonadExceptOf.throw] at h
      | some nd =>
        simp only [hmn, pure, Except.pure] at h
        cases hpar : nd.parent with
        | none => simp [hpar, derefO, nilDeref, throw, throwThe, MonadExceptOf.throw] at h
        | some p =>
          simp only [hpar, derefO, deref, Option.getD_some] at h
          cases hmp : m[p]? with
          | none => simp [hmp, nilDeref, throw, throwThe, MonadExceptOf.throw] at h
          | some pd =>
            simp only [hmp, pure, Except.pure] at h
            cases hk : entryIdx pd.entries n with
            | none => simp [hk, nilDeref, throw, throwThe, MonadExceptOf.throw] at h
            | some k =>
              simp only [hk, computeBB_ok hmn] at h
              have hvn : view m n = some (some p, kids nd.entries) := by rw [view_some hmn, hpar]
              have hvp : view m p = some (pd.parent, kids pd.entries) := view_some hmp
              have hnin : n ∈ kids pd.entries := entryIdx_mem hk
              have hlp : VLive (view m) root (pend nn D) p := hP.holder_live hvn hvp hnin
              generalize hm1 : m.set p { pd with entries := setBB pd.entries k (mbr (bbs nd.entries)) } = m1 at h
              have hv1 : view m1 = view m := by
                rw [← hm1]; exact view_setEntries_same hmp _ (kids_setBB _ _ _)
              have hm1p : m1[p]? = some { pd with entries := setBB pd.entries k (mbr (bbs nd.entries)) } := by
                rw [← hm1]; exact getElem?_set_self' hmp
              cases nn with
              | none =>
                simp only at h
                exact ih m1 p none m' rt sr (by rw [P, hv1]; exact hP) (fun q hq' => by cases hq') h
              | some q =>
                simp only at h
                cases hcb : computeBB m1 q with
                | error x => simp [hcb] at h
                | ok bbq =>
                  simp only [hcb, hm1p] at h
                  obtain ⟨a, kq, kn, hvq, hvn', haq⟩ := hq q rfl
                  rw [hvn] at hvn'
                  have ha : a = some p := by simp at hvn'; exact hvn'.1.symm
                  subst ha
                  have hqp : q ≠ p := fun e => haq (by rw [e])
                  obtain ⟨eq, heq, heqc⟩ : ∃ eq : HEntry O, eq = { bb := bbq, child := some q, obj := none } ∧ eq.child = some q :=
                    ⟨_, rfl, rfl⟩
                  rw [← heq] at h
                  generalize hm2 : m1.set p { parent := pd.parent, leaf := pd.leaf, level := pd.level, entries := setBB pd.entries k (mbr (bbs nd.entries)) ++ [eq] } = m2 at h
                  have hv2 : view m2 = setKids (view m) p (kids pd.entries ++ [q]) := by
                    rw [← hm2, view_setEntries hm1p, hv1, kids_append, kids_setBB, kids_single_some heqc]
                  have hP2 : P m2 root D := by
                    have := hP.adopt_noset (c := q) (by simp [pend]) hvp hlp hvq hqp
                    rw [P, hv2]
                    simpa [pend] using this
                  have hm2p : m2[p]? = some { parent := pd.parent, leaf := pd.leaf, level := pd.level, entries := setBB pd.entries k (mbr (bbs nd.entries)) ++ [eq] } := by
                    rw [← hm2]; exact getElem?_set_self' hm1p
                  split_ifs at h with hov
                  · cases hsp : split H minC m2 p with
                    | error x => simp [hsp] at h
                    | ok res =>
                      obtain ⟨m3, l, r⟩ := res
                      simp only [hsp] at h
                      have hlp2 : VLive (view m2) root D p := by
                        rw [hv2, VLive_setKids]
                        rcases hlp with h1 | h1 | h1
                        · exact Or.inl h1
                        · simp [pend] at h1
                          rcases h1 with h1 | h1
                          · exact absurd h1.symm hqp
                          · exact Or.inr (Or.inl h1)
                        · exact Or.inr (Or.inr h1)
                      obtain ⟨hl, hP3, ⟨br, hvr⟩, ⟨bp, hvp3⟩, hner⟩ := split_P H minC hP2 hm2p hlp2 hsp
                      rw [hl] at h
                      refine ih m3 p (some r) m' rt sr (by simpa [pend] using hP3) ?_ h
                      intro q' hq'
                      cases hq'
                      exact ⟨_, _, _, hvr, hvp3, hner⟩
                  · exact ih m2 p none m' rt sr (by simpa [pend] using hP2) (fun q hq' => by cases hq') h

/-! ### insert -/

/-- the detached list after the entry `e` has been placed -/
def placed (e : HEntry O) (D : List Ptr) : List Ptr :=
  match e.child with
  | some c => D.erase c
  | none => D

theorem rootsplit_view (v4 : View) (nr root s : Ptr) (h1 : nr ≠ root) (h2 : nr ≠ s) (h3 : s ≠ root) :
    setPar (setPar (allocV v4 nr (none, [root, s])) root (some nr)) s (some nr) =
    setPar (setKids (setPar (setKids (allocV v4 nr (none, [])) nr ([] ++ [root])) root (some nr)) nr ([root] ++ [s])) s (some nr) := by
  funext i
  unfold setPar setKids allocV
  by_cases hi1 : i = nr
  · subst hi1; simp [h1, h2]
  · by_cases hi2 : i = root
    · subst hi2; simp [hi1, Ne.symm h3, Ne.symm h1]
    · by_cases hi3 : i = s
      · subst hi3; simp [hi1, hi2, Ne.symm h2]
      · simp [hi1, hi2, hi3]

/-- the end of `insert`: no root split, or `tree.root = &node{…}` with both `.parent` writes -/
def rootSplitTail (t : HTree O) (m4 : Arena O) (root : Ptr) : Option Ptr → M (HTree O)
  | none => pure { t with mem := m4 }
  | some sr => do
    let h := t.height + 1
    let bo ← computeBB m4 root
    let bs ← computeBB m4 sr
    let es : List (HEntry O) := [{ bb := bo, child := some root, obj := none }, { bb := bs, child := some sr, obj := none }]
    let (m5, nr) := alloc m4 { parent := none, leaf := false, level := h, entries := es }
    let m6 ← setParent m5 root (some nr)
    let m7 ← setParent m6 sr (some nr)
    pure { t with height := h, root := nr, mem := m7 }

theorem insertEntry_P (H : Heur) (fuel : Nat) {t t' : HTree O} {D : List Ptr} {e : HEntry O} {level : Nat}
    (hP : P t.mem t.root D) (hc : ∀ c, e.child = some c → c ∈ D)
    (h : insertEntry H fuel t e level = .ok t') : P t'.mem t'.root (placed e D) := by
  unfold insertEntry at h
  simp only [bind, Except.bind] at h
  cases hch : chooseNode H t.mem fuel t.root e.bb level with
  | error x => simp [hch] at h
  | ok leaf =>
    simp only [hch, deref] at h
    have hheld : Held t.mem t.root D leaf := chooseNode_held H hP e.bb level fuel t.root leaf (Or.inl rfl) hch
    have hlive := hheld.live hP
    cases hml : t.mem[leaf]? with
    | none => simp [hml, nilDeref, throw, throwThe, MonadExceptOf.throw] at h
    | some ln =>
      simp only [hml, pure, Except.pure] at h
      generalize hm1 : t.mem.set leaf { ln with entries := ln.entries ++ [e] } = m1 at h
      have hvl : view t.mem leaf = some (ln.parent, kids ln.entries) := view_some hml
      have hv1 : view m1 = setKids (view t.mem) leaf (kids ln.entries ++ kids [e]) := by
        rw [← hm1, view_setEntries hml, kids_append]
      cases hs2 : setChildParent m1 e leaf with
      | error x => simp [hs2] at h
      | ok m2 =>
        simp only [hs2] at h
        -- the entry is in place
        have hP2 : P m2 t.root (placed e D) ∧ (∃ a b, view m2 leaf = some (a, b)) ∧ VLive (view m2) t.root (placed e D) leaf := by
          rcases setChildParent_view hs2 with ⟨hcn, hmm⟩ | ⟨c, hcc, hv2⟩
          · rw [hmm]
            have hv : view m1 = view t.mem := by
              rw [hv1, kids_single_none hcn]; simp; exact setKids_same hvl
            simp only [placed, hcn]
            rw [P, hv]; exact ⟨hP, ⟨_, _, hvl⟩, hlive⟩
          · have hcD := hc c hcc
            have hcl : c ≠ leaf := fun e' => hheld.not_mem hP (e' ▸ hcD)
            have hv : view m2 = setPar (setKids (view t.mem) leaf (kids ln.entries ++ [c])) c (some leaf) := by
              rw [hv2, hv1, kids_single_some hcc]
            simp only [placed, hcc]
            rw [P, hv]
            refine ⟨hP.adopt hcD hvl hlive hcl, ?_, ?_⟩
            · obtain ⟨b, hb⟩ := adopt_ne (x := leaf) (ks' := kids ln.entries ++ [c]) (px := some leaf) (Ne.symm hcl) hvl
              exact ⟨_, _, hb⟩
            · rcases hlive with h1 | h1 | ⟨p, ks, h1⟩
              · exact Or.inl h1
              · exact absurd h1 (hheld.not_mem hP)
              · obtain ⟨b, hb⟩ := adopt_ne (x := leaf) (ks' := kids ln.entries ++ [c]) (px := some leaf) (Ne.symm hcl) h1
                exact Or.inr (Or.inr ⟨p, b, hb⟩)
        obtain ⟨hP2, ⟨a2, b2, hv2l⟩, hlive2⟩ := hP2
        obtain ⟨ln2, hm2l, hpar2, _⟩ := view_inv hv2l
        generalize hD1 : placed e D = D1 at hP2 hlive2 ⊢
        -- split of the leaf, adjustTree
        have hadj : ∀ m3 sp m4 rt sr, P m3 t.root (pend sp D1) →
            (∀ q, sp = some q → ∃ a kq kn, view m3 q = some (a, kq) ∧ view m3 leaf = some (a, kn) ∧ a ≠ some q) →
            adjustTree H t.minC t.maxC t.root fuel m3 leaf sp = .ok (m4, rt, sr) →
            rootSplitTail t m4 rt sr = .ok t' →
            P t'.mem t'.root D1 := by
          intro m3 sp m4 rt sr hP3 hq3 hadj hfin
          obtain ⟨hrt, hP4, hsr⟩ := adjust_P H t.minC t.maxC fuel m3 leaf sp m4 rt sr hP3 hq3 hadj
          subst hrt
          cases sr with
          | none =>
            simp only [rootSplitTail, pure, Except.pure, Except.ok.injEq] at hfin
            subst hfin
            simpa [pend] using hP4
          | some s =>
            simp only [rootSplitTail, bind, Except.bind] at hfin
            cases hb1 : computeBB m4 t.root with
            | error x => simp [hb1] at hfin
            | ok bo =>
              cases hb2 : computeBB m4 s with
              | error x => simp [hb1, hb2] at hfin
              | ok bs =>
                simp only [hb1, hb2, alloc] at hfin
                generalize hnrn : ({ parent := none, leaf := false, level := t.height + 1, entries := [{ bb := bo, child := some t.root, obj := none }, { bb := bs, child := some s, obj := none }] } : HNode O) = nrn at hfin
                cases h6 : setParent (m4 ++ [nrn]) t.root (some m4.length) with
                | error x => simp [h6] at hfin
                | ok m6 =>
                  simp only [h6] at hfin
                  cases h7 : setParent m6 s (some m4.length) with
                  | error x => simp [h7] at hfin
                  | ok m7 =>
                    simp only [h7, pure, Except.pure, Except.ok.injEq] at hfin
                    subst hfin
                    simp only
                    obtain ⟨sks, hvs⟩ := hsr s rfl
                    obtain ⟨rks, hvr⟩ := hP4.rootOK
                    have hqn : view m4 m4.length = none := (view_alloc m4 nrn).2
                    have h1 : m4.length ≠ t.root := by intro e'; rw [e', hvr] at hqn; cases hqn
                    have h2 : m4.length ≠ s := by intro e'; rw [e', hvs] at hqn; cases hqn
                    have h3 : s ≠ t.root := fun e' => hP4.dNotRoot (by rw [← e']; simp [pend])
                    have hv5 : view (m4 ++ [nrn]) = allocV (view m4) m4.length (none, [t.root, s]) := by
                      have := (view_alloc m4 nrn).1
                      rw [← hnrn] at this ⊢
                      simpa [alloc, kids] using this
                    have hv7 : view m7 = setPar (setPar (allocV (view m4) m4.length (none, [t.root, s])) t.root (some m4.length)) s (some m4.length) := by
                      rw [view_setParent h7, view_setParent h6, hv5]
                    rw [P, hv7, rootsplit_view _ _ _ _ h1 h2 h3]
                    have hA0 : VJ (allocV (view m4) m4.length (none, [])) t.root (m4.length :: s :: D1) := by
                      have := hP4.alloc none hqn (fun p hp => by cases hp)
                      simpa [pend] using this
                    have hA0n : allocV (view m4) m4.length (none, []) m4.length = some (none, []) := by
                      unfold allocV; simp
                    have hA1 := hA0.reroot (by simp) hA0n
                    simp only [List.erase_cons_head] at hA1
                    have hA1n := adopt_fwd m4.length t.root ([] ++ [t.root]) (some m4.length) hA0n
                    simp only [h1, if_false, if_true] at hA1n
                    have hA2 := hA1.adopt (c := s) (by simp) hA1n (Or.inl rfl) (Ne.symm h2)
                    simpa using hA2
        split_ifs at h with hov
        · cases hsp : split H t.minC m2 leaf with
          | error x => simp [hsp] at h
          | ok res =>
            obtain ⟨m3, l, r⟩ := res
            simp only [hsp] at h
            obtain ⟨hl, hP3, ⟨br, hvr⟩, ⟨bp, hvp3⟩, hner⟩ := split_P H t.minC hP2 hm2l hlive2 hsp
            rw [hl] at h
            cases hadjr : adjustTree H t.minC t.maxC t.root fuel m3 leaf (some r) with
            | error x => simp [hadjr] at h
            | ok res2 =>
              obtain ⟨m4, rt, sr⟩ := res2
              simp only [hadjr] at h
              exact hadj m3 (some r) m4 rt sr (by simpa [pend] using hP3)
                (fun q hq => by cases hq; exact ⟨_, _, _, hvr, hvp3, hner⟩) hadjr (by cases sr <;> exact h)
        · cases hadjr : adjustTree H t.minC t.maxC t.root fuel m2 leaf none with
          | error x => simp [hadjr] at h
          | ok res2 =>
            obtain ⟨m4, rt, sr⟩ := res2
            simp only [hadjr] at h
            exact hadj m2 none m4 rt sr (by simpa [pend] using hP2) (fun q hq => by cases hq) hadjr (by cases sr <;> exact h)

/-- **C11_heap_parent_insertEntry** — `(*Rtree).insert(e, level)` on the arena preserves the invariant, for an object entry and for
the entry of a detached subtree (`e.child ∈ D`: the orphan re-insertion of condenseTree), which leaves the detached list -/
theorem C11_heap_parent_insertEntry (H : Heur) (fuel : Nat) (t t' : HTree O) (D : List Ptr) (e : HEntry O) (level : Nat)
    (hP : VJ (view t.mem) t.root D) (hc : ∀ c, e.child = some c → c ∈ D)
    (h : insertEntry H fuel t e level = .ok t') : VJ (view t'.mem) t'.root (placed e D) :=
  insertEntry_P H fuel hP hc h

/-- **C11_heap_parent_insert** — `Insert` on the arena (chooseNode, append, `e.child.parent`, split with all its `.parent` writes,
adjustTree along the STORED parent links with further splits, root split) preserves the parent-link invariant -/
theorem C11_heap_parent_insert [Bounded O] (H : Heur) (fuel : Nat) (t t' : HTree O) (o : O) (hJ : ParentOK t)
    (h : t.insert H fuel o = .ok t') : ParentOK t' := by
  unfold HTree.insert at h
  simp only [bind, Except.bind] at h
  cases hi : insertEntry H fuel t { bb := Bounded.bounds o, child := none, obj := some o } 1 with
  | error x => simp [hi] at h
  | ok t1 =>
    simp only [hi, pure, Except.pure, Except.ok.injEq] at h
    subst h
    have := insertEntry_P H fuel hJ (fun c hc => by cases hc) hi
    simpa [placed, ParentOK] using this

theorem runOps_ins_P [DecidableEq O] [Bounded O] (H : Heur) (fuel : Nat) :
    ∀ (ops : List (Op O)) (t0 t : HTree O), ParentOK t0 → (∀ op ∈ ops, ∃ o, op = Op.ins o) →
      runOps H fuel t0 ops = .ok t → ParentOK t := by
  intro ops
  induction ops with
  | nil => intro t0 t h0 _ h; simp [runOps, pure, Except.pure] at h; subst h; exact h0
  | cons op ops ih =>
    intro t0 t h0 hall h
    obtain ⟨o, ho⟩ := hall op (by simp)
    subst ho
    rw [runOps] at h
    simp only [HTree.step, bind, Except.bind] at h
    cases hi : t0.insert H fuel o with
    | error x => simp [hi] at h
    | ok t1 =>
      simp only [hi, pure, Except.pure] at h
      exact ih t1 t (C11_heap_parent_insert H fuel t0 t1 o h0 hi) (fun op' h' => hall op' (List.mem_cons_of_mem _ h')) h

/-- **C11_heap_parent_reachable_partial** — after every history of INSERTS from `NewTree` on the arena model (any heuristics, any
fuel at which the model does not fault) the parent-link invariant holds, and with it the hook's audit: every node reachable
from the root has `parent` = the node holding its entry, the root has parent nil -/
theorem C11_heap_parent_reachable_partial [DecidableEq O] [Bounded O] (H : Heur) (fuel minC maxC : Nat)
    (ops : List (Op O)) (t : HTree O) (hall : ∀ op ∈ ops, ∃ o, op = Op.ins o)
    (h : runOps H fuel (newTree minC maxC) ops = .ok t) :
    ParentOK t ∧ ∀ f n, erase t.mem f t.root = some n → audit t.mem f none t.root = true := by
  have hJ := runOps_ins_P H fuel ops _ t (C11_heap_parent_init minC maxC) hall h
  exact ⟨hJ, fun f n he => C11_heap_parent_audit t hJ f n he⟩

end Heap
end GeomV.C11
