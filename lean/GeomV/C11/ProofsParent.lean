import GeomV.C11.ParentView
import GeomV.C11.ProofsHeap
/-
C11 — the parent-link invariant `ParentOK` of the pointer-level model (`Heap.lean`), on the ARENA.

`view m` forgets everything of the arena but `(node.parent, children of node.entries)`; `ParentOK t` is the view
invariant `VJ` (ParentView.lean) with no detached subtree pending.  Proved here:
  * `C11_heap_parent_init`      — `NewTree` establishes it;
  * `view_setEntries`, `view_setParent`, `view_alloc` — each arena write of Heap.lean (`x.entries = …`, `c.parent = p`,
    `&node{…}`) IS one of the three view updates, so the six preservation lemmas of ParentView.lean (`VJ.shrink` entry removal /
    condenseTree's filter with the removed children becoming detached orphans, `VJ.adopt`/`VJ.adopt_noset` entry append +
    `child.parent = holder` of insert / assign / re-insertion / adjustTree's sibling entry, `VJ.alloc` split's sibling and the new
    root, `VJ.reroot` root split, `VJ.collapse` root collapse) are statements about arena writes;
  * `C11_heap_parent_collapse`  — the root-collapse loop of `Delete` (arena function `collapse`) preserves it;
  * `C11_heap_parent_audit`     — `ParentOK` implies the hook's audit (`audit … none root = true`) whenever the arena below the
    root is a tree of depth ≤ fuel (`erase` succeeds — checked by the judge at every step), and the reachable form
    `C11_heap_parent_reach` (every node reachable from the root through child entries has `parent` = its holder).
NOT proved (time): the composition of the primitive steps along `chooseNode`/`adjustTree`/`split`/`condenseUp`/`reinsert`,
i.e. preservation by the arena `insert` and `Delete` as wholes and the statement over all histories.
-/
set_option linter.unusedVariables false
set_option linter.unusedSimpArgs false
namespace GeomV.C11
namespace Heap
variable {O : Type}

/-- the child pointers of an entry list, in order -/
def kids (es : List (HEntry O)) : List Ptr := es.filterMap (·.child)

/-- what the parent audit can see of an arena -/
def view (m : Arena O) : View := fun i => (m[i]?).map fun nd => (nd.parent, kids nd.entries)

/-- **the parent-link invariant** of a pointer-level tree: root.parent = nil; every live node (the root, nodes with a
non-nil parent) has pairwise distinct children, none of them itself, each existing with `parent` = that node; nodes that
are not live (roots dropped by a collapse) are not named as parent by the children of their entries; parent pointers
do not dangle -/
def ParentOK (t : HTree O) : Prop := VJ (view t.mem) t.root []

theorem lt_of_getElem? {m : Arena O} {i : Ptr} {nd : HNode O} (h : m[i]? = some nd) : i < m.length := by
  cases hd : decide (i < m.length) with
  | true => exact of_decide_eq_true hd
  | false =>
    have : m.length ≤ i := Nat.le_of_not_lt (of_decide_eq_false hd)
    rw [List.getElem?_eq_none this] at h; cases h

theorem view_some {m : Arena O} {i : Ptr} {nd : HNode O} (h : m[i]? = some nd) :
    view m i = some (nd.parent, kids nd.entries) := by simp [view, h]

theorem view_inv {m : Arena O} {i : Ptr} {a : Option Ptr} {b : List Ptr} (h : view m i = some (a, b)) :
    ∃ nd, m[i]? = some nd ∧ nd.parent = a ∧ kids nd.entries = b := by
  unfold view at h
  cases hm : m[i]? with
  | none => simp [hm] at h
  | some nd => simp [hm] at h; exact ⟨nd, rfl, h.1, h.2⟩

/-- `x.entries = es` is `setKids` -/
theorem view_setEntries {m : Arena O} {x : Ptr} {xn : HNode O} (h : m[x]? = some xn) (es : List (HEntry O)) :
    view (m.set x { xn with entries := es }) = setKids (view m) x (kids es) := by
  funext i
  unfold view setKids
  by_cases hi : i = x
  · subst hi; rw [List.getElem?_set_self (lt_of_getElem? h)]; simp [h]
  · rw [List.getElem?_set_ne (Ne.symm hi)]; simp [hi]

/-- `c.parent = p` is `setPar` -/
theorem view_setParent {m m' : Arena O} {c : Ptr} {p : Option Ptr} (h : setParent m c p = .ok m') :
    view m' = setPar (view m) c p := by
  unfold setParent deref at h
  cases hc : m[c]? with
  | none => simp [hc, nilDeref, bind, Except.bind, throw, throwThe, MonadExceptOf.throw] at h
  | some cn =>
    simp [hc, bind, Except.bind, pure, Except.pure] at h
    subst h
    funext i
    unfold view setPar
    by_cases hi : i = c
    · subst hi; rw [List.getElem?_set_self (lt_of_getElem? hc)]; simp [hc]
    · rw [List.getElem?_set_ne (Ne.symm hi)]; simp [hi]

/-- `&node{…}` is `allocV` at the fresh pointer -/
theorem view_alloc (m : Arena O) (nd : HNode O) :
    view (alloc m nd).1 = allocV (view m) m.length (nd.parent, kids nd.entries) ∧ view m m.length = none := by
  constructor
  · funext i
    unfold view allocV alloc
    by_cases hi : i = m.length
    · subst hi; simp
    · simp only [hi, if_false]
      by_cases hlt : i < m.length
      · rw [List.getElem?_append_left hlt]
      · have h1 : m.length ≤ i := Nat.le_of_not_lt hlt
        have h3 : (m ++ [nd]).length = m.length + 1 := by simp
        have h2 : (m ++ [nd]).length ≤ i := by rw [h3]; exact Nat.lt_of_le_of_ne h1 (fun e => hi e.symm)
        rw [List.getElem?_eq_none h1, List.getElem?_eq_none h2]
  · unfold view; simp

/-- **C11_heap_parent_init** — `NewTree` establishes the parent-link invariant -/
theorem C11_heap_parent_init (minC maxC : Nat) : ParentOK (newTree (O := O) minC maxC) := by
  unfold ParentOK newTree
  have : view (O := O) [{ parent := none, leaf := true, level := 1, entries := [] }] =
      (fun i => if i = 0 then some (none, []) else none) := by
    funext i
    unfold view
    cases i with
    | zero => simp [kids]
    | succ k => simp
  simp only [this]
  exact VJ.init

/-- **C11_heap_parent_collapse** — the root-collapse loop at the end of `Delete` (`tree.root = tree.root.entries[0].child;
tree.root.parent = nil; height--`, repeated) preserves the parent-link invariant -/
theorem C11_heap_parent_collapse : ∀ (f : Nat) (t t' : HTree O), ParentOK t → collapse f t = .ok t' → ParentOK t' := by
  intro f
  induction f with
  | zero => intro t t' _ h; simp [collapse, throw, throwThe, MonadExceptOf.throw] at h
  | succ f ih =>
    intro t t' hJ h
    rw [collapse] at h
    simp only [deref, bind, Except.bind] at h
    cases hr : t.mem[t.root]? with
    | none => simp [hr, nilDeref, throw, throwThe, MonadExceptOf.throw] at h
    | some rd =>
      simp only [hr, pure, Except.pure] at h
      by_cases hc : (!rd.leaf && rd.entries.length == 1) = true
      · simp only [hc, if_true] at h
        match hes : rd.entries, h with
        | [e], h =>
          simp only at h
          cases hch : e.child with
          | none => simp [hch, nilDeref, throw, throwThe, MonadExceptOf.throw] at h
          | some c =>
            simp only [hch] at h
            cases hs : setParent t.mem c none with
            | error x => simp [hs] at h
            | ok m1 =>
              simp only [hs] at h
              apply ih _ t' _ h
              unfold ParentOK
              simp only
              rw [view_setParent hs]
              apply VJ.collapse hJ
              obtain ⟨ks, hrk⟩ := hJ.rootOK
              rw [view_some hr] at hrk
              have hpn : rd.parent = none := by simp at hrk; exact hrk.1
              rw [view_some hr, hes, hpn]
              simp [kids, hch]
        | [], h => simp at h; subst h; exact hJ
        | _ :: _ :: _, h => simp at h; subst h; exact hJ
      · simp only [hc, if_false, Bool.false_eq_true] at h
        simp at h; subst h; exact hJ

/-! ### the hook's audit -/

theorem eraseEntries_child {recE : Ptr → Option (Node O)} :
    ∀ (es : List (HEntry O)) (es' : List (Entry O)), eraseEntries recE es = some es' →
      ∀ e ∈ es, ∀ c, e.child = some c → ∃ cn, recE c = some cn := by
  intro es
  induction es with
  | nil => intro es' _ e he; cases he
  | cons e0 es ih =>
    intro es' h e he c hc
    rw [eraseEntries] at h
    rcases hc0 : e0.child with _ | c0 <;> rcases ho : e0.obj with _ | o' <;> simp only [hc0, ho] at h
    · cases h
    · cases hr : eraseEntries recE es with
      | none => simp [hr] at h
      | some r =>
        rcases List.mem_cons.mp he with he | he
        · subst he; rw [hc0] at hc; cases hc
        · exact ih r hr e he c hc
    · cases hrc : recE c0 with
      | none => simp [hrc] at h
      | some cn =>
        cases hr : eraseEntries recE es with
        | none => simp [hrc, hr] at h
        | some r =>
          rcases List.mem_cons.mp he with he | he
          · subst he; rw [hc0] at hc; cases hc; exact ⟨cn, hrc⟩
          · exact ih r hr e he c hc
    · cases h

theorem audit_of_VJ {m : Arena O} {root : Ptr} (hJ : VJ (view m) root []) :
    ∀ (f : Nat) (p : Ptr) (holder : Option Ptr) (ks : List Ptr) (n : Node O),
      view m p = some (holder, ks) → VLive (view m) root [] p → erase m f p = some n →
      audit m f holder p = true := by
  intro f
  induction f with
  | zero => intro p holder ks n _ _ h; simp [erase] at h
  | succ k ih =>
    intro p holder ks n hv hl he
    obtain ⟨k', nd, es', hk, hm, hee, _⟩ := erase_some he
    cases hk
    rw [view_some hm] at hv
    cases hv
    rw [audit]
    simp only [hm, Bool.and_eq_true, beq_self_eq_true, true_and, List.all_eq_true]
    intro e hein
    cases hch : e.child with
    | none => rfl
    | some c =>
      simp only
      have hck : c ∈ kids nd.entries := by
        unfold kids; rw [List.mem_filterMap]; exact ⟨e, hein, hch⟩
      obtain ⟨hlc, _, cks, hcv⟩ := hJ.child_live (view_some hm) hl hck
      obtain ⟨cn, hcn⟩ := eraseEntries_child nd.entries es' hee e hein c hch
      exact ih c (some p) cks cn hcv hlc hcn

/-- **C11_heap_parent_audit** — the parent-link invariant implies the hook's audit evaluated on the arena (every node
reachable from the root has `parent` = the node holding its entry, nil for the root), for every fuel at which the
arena below the root reads as a tree (`erase` succeeds: no dangling pointer, depth ≤ fuel) -/
theorem C11_heap_parent_audit (t : HTree O) (hJ : ParentOK t) (f : Nat) (n : Node O)
    (he : erase t.mem f t.root = some n) : audit t.mem f none t.root = true := by
  obtain ⟨ks, hr⟩ := hJ.rootOK
  exact audit_of_VJ hJ f t.root none ks n hr (Or.inl rfl) he

/-- reachable from `root` through child entries -/
inductive Reach (m : Arena O) (root : Ptr) : Ptr → Prop where
  | root : Reach m root root
  | step {x c : Ptr} {xn : HNode O} {e : HEntry O} : Reach m root x → m[x]? = some xn → e ∈ xn.entries →
      e.child = some c → Reach m root c

/-- **C11_heap_parent_reach** — under the invariant every child reachable from the root exists and has `parent` = the node
holding its entry; the root's parent is nil -/
theorem C11_heap_parent_reach (t : HTree O) (hJ : ParentOK t) :
    (∃ rn, t.mem[t.root]? = some rn ∧ rn.parent = none) ∧
    ∀ x c xn e, Reach t.mem t.root x → t.mem[x]? = some xn → e ∈ xn.entries → e.child = some c →
      ∃ cn, t.mem[c]? = some cn ∧ cn.parent = some x := by
  have live : ∀ x, Reach t.mem t.root x → VLive (view t.mem) t.root [] x := by
    intro x hx
    induction hx with
    | root => exact Or.inl rfl
    | @step x c xn e _ hm he hc ih =>
      have hck : c ∈ kids xn.entries := by unfold kids; rw [List.mem_filterMap]; exact ⟨e, he, hc⟩
      exact (hJ.child_live (view_some hm) ih hck).1
  constructor
  · obtain ⟨ks, hr⟩ := hJ.rootOK
    obtain ⟨nd, h1, h2, _⟩ := view_inv hr
    exact ⟨nd, h1, h2⟩
  · intro x c xn e hx hm he hc
    have hck : c ∈ kids xn.entries := by unfold kids; rw [List.mem_filterMap]; exact ⟨e, he, hc⟩
    obtain ⟨_, _, cks, hcv⟩ := hJ.child_live (view_some hm) (live x hx) hck
    obtain ⟨nd, h1, h2, _⟩ := view_inv hcv
    exact ⟨nd, h1, h2⟩

/-- non-vacuity: a two-level arena satisfying the invariant whose audit is evaluated to `true` by the theorem's route -/
example : audit (O := Nat)
    [{ parent := none, leaf := false, level := 2, entries := [⟨⟨0, 0, 1, 1⟩, some 1, none⟩] },
     { parent := some 0, leaf := true, level := 1, entries := [⟨⟨0, 0, 1, 1⟩, none, some 7⟩] }] 2 none 0 = true := rfl

end Heap
end GeomV.C11
