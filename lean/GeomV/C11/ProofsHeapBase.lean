import GeomV.C11.ProofsHeapDel
/-
C11 — phase 4: the WRITES of the pointer-level model, refined entry list by entry list, and the whole `Delete` / `Insert` of the
pointer-level model refined for trees whose root is a leaf (the base case: no parent link is followed, every write is to the root).

* list level (any reading `rec` of the child pointers): the index loop of Delete finds the same index (`lastIdx_erase`), removing
  an entry / appending an entry / rewriting a box commutes with the erasure (`eraseEntries_eraseIdx`, `eraseEntries_append`).
* `C11_heap_delete_refines_partial`, `C11_heap_insert_refines_partial`: on a represented tree whose root is a leaf holding object
  entries, `Delete` and `Insert` (without split) of the arena model return exactly the functional result (same Delete flag, the new
  memory represents the new functional root, same Size and Depth), or the same fault.  `_partial`: the full statement is the same
  without the hypothesis "the root is a leaf" (and with splits); what is missing is the FRAME argument for writes below the root
  (a write to a node changes the erasure of exactly its ancestors; needs the tree shape that `ParentOK` + levels provide).
-/
set_option linter.unusedVariables false
set_option linter.unusedSimpArgs false
namespace GeomV.C11
namespace Heap
variable {O : Type}

/-- the index loop of `Delete` on the arena entries finds the index the functional loop finds -/
theorem lastIdx_erase [DecidableEq O] (o : O) (recE : Ptr → Option (Node O)) :
    ∀ (es : List (HEntry O)) (es' : List (Entry O)), eraseEntries recE es = some es' → lastIdx o es = lastIdxOf o es' := by
  intro es
  induction es with
  | nil => intro es' h; simp [eraseEntries] at h; subst h; rfl
  | cons e es ih =>
    intro es' h
    rw [eraseEntries] at h
    rcases hc : e.child with _ | c <;> rcases ho : e.obj with _ | o' <;> simp only [hc, ho] at h
    · cases h
    · cases hr : eraseEntries recE es with
      | none => simp [hr] at h
      | some r =>
        simp [hr] at h; subst h
        simp only [lastIdx, lastIdxOf, ih r hr, ho]
        cases lastIdxOf o r with
        | some i => rfl
        | none => by_cases hoo : o' = o <;> simp [hoo]
    · cases hrc : recE c with
      | none => simp [hrc] at h
      | some cn =>
        cases hr : eraseEntries recE es with
        | none => simp [hrc, hr] at h
        | some r =>
          simp [hrc, hr] at h; subst h
          simp only [lastIdx, lastIdxOf, ih r hr, ho]
          cases lastIdxOf o r with
          | some i => rfl
          | none => simp
    · cases h

/-- `append(n.entries[:ind], n.entries[ind+1:]...)` commutes with the erasure -/
theorem eraseEntries_eraseIdx (recE : Ptr → Option (Node O)) :
    ∀ (es : List (HEntry O)) (es' : List (Entry O)) (j : Nat), eraseEntries recE es = some es' →
      eraseEntries recE (es.eraseIdx j) = some (es'.eraseIdx j) := by
  intro es
  induction es with
  | nil => intro es' j h; simp [eraseEntries] at h; subst h; simp [eraseEntries]
  | cons e es ih =>
    intro es' j h
    have h0 := h
    rw [eraseEntries] at h
    rcases hc : e.child with _ | c <;> rcases ho : e.obj with _ | o' <;> simp only [hc, ho] at h
    · cases h
    · cases hr : eraseEntries recE es with
      | none => simp [hr] at h
      | some r =>
        simp [hr] at h; subst h
        cases j with
        | zero => simpa using hr
        | succ j =>
          simp only [List.eraseIdx_cons_succ]
          rw [eraseEntries]; simp [hc, ho, ih r j hr]
    · cases hrc : recE c with
      | none => simp [hrc] at h
      | some cn =>
        cases hr : eraseEntries recE es with
        | none => simp [hrc, hr] at h
        | some r =>
          simp [hrc, hr] at h; subst h
          cases j with
          | zero => simpa using hr
          | succ j =>
            simp only [List.eraseIdx_cons_succ]
            rw [eraseEntries]; simp [hc, ho, hrc, ih r j hr]
    · cases h

/-- `append(n.entries, e)` commutes with the erasure -/
theorem eraseEntries_append (recE : Ptr → Option (Node O)) :
    ∀ (es : List (HEntry O)) (es' : List (Entry O)) (e : HEntry O) (e' : Entry O), eraseEntries recE es = some es' →
      eraseEntries recE [e] = some [e'] → eraseEntries recE (es ++ [e]) = some (es' ++ [e']) := by
  intro es
  induction es with
  | nil => intro es' e e' h he; simp [eraseEntries] at h; subst h; simpa using he
  | cons a es ih =>
    intro es' e e' h he
    rw [eraseEntries] at h
    rcases hc : a.child with _ | c <;> rcases ho : a.obj with _ | o' <;> simp only [hc, ho] at h
    · cases h
    · cases hr : eraseEntries recE es with
      | none => simp [hr] at h
      | some r =>
        simp [hr] at h; subst h
        simp only [List.cons_append]
        rw [eraseEntries]; simp [hc, ho, ih r e e' hr he]
    · cases hrc : recE c with
      | none => simp [hrc] at h
      | some cn =>
        cases hr : eraseEntries recE es with
        | none => simp [hrc, hr] at h
        | some r =>
          simp [hrc, hr] at h; subst h
          simp only [List.cons_append]
          rw [eraseEntries]; simp [hc, ho, hrc, ih r e e' hr he]
    · cases h

/-- entries without child pointers erase the same way whatever the memory -/
theorem eraseEntries_objs (r1 r2 : Ptr → Option (Node O)) :
    ∀ (es : List (HEntry O)), (∀ e ∈ es, e.child = none) → eraseEntries r1 es = eraseEntries r2 es := by
  intro es
  induction es with
  | nil => intro _; rfl
  | cons e es ih =>
    intro h
    have he := h e List.mem_cons_self
    have ih' := ih (fun x hx => h x (List.mem_cons_of_mem _ hx))
    rw [eraseEntries, eraseEntries, he, ih']
    cases e.obj <;> rfl

theorem mem_eraseIdx_of {α : Type} {l : List α} {i : Nat} {a : α} (h : a ∈ l.eraseIdx i) : a ∈ l :=
  (List.eraseIdx_sublist l i).subset h

/-- a node whose entries hold no child pointers: what `erase` returns for it after its entry list was replaced -/
theorem erase_set_objs {m : Arena O} {p : Ptr} {nd : HNode O} (hm : m[p]? = some nd) (es : List (HEntry O))
    (hobj : ∀ e ∈ es, e.child = none) (k : Nat) (es' : List (Entry O))
    (he : eraseEntries (erase m k) es = some es') :
    erase (m.set p { nd with entries := es }) (k + 1) p = some (Node.mk nd.leaf nd.level es') := by
  have hlt : p < m.length := by
    by_contra hc
    rw [List.getElem?_eq_none (Nat.le_of_not_lt hc)] at hm; cases hm
  rw [erase, List.getElem?_set_self hlt]
  simp only
  rw [eraseEntries_objs _ (erase m k) es hobj, he]; rfl

/-- **C11_heap_delete_refines_partial** — `Delete` of the pointer-level model on a represented tree whose root is a leaf holding
object entries (decidable hypotheses; every tree of height 1 reached by a history): the functional `Delete` on the represented tree
and the pointer-level `Delete` return the same flag, the new memory represents the new functional root, Size and Depth agree; no
fault on either side.  `_partial`: the full statement drops `hleaf`/`hobj`. -/
theorem C11_heap_delete_refines_partial [DecidableEq O] [Bounded O] (H : Heur) (fuel f : Nat) (t : HTree O) (o : O)
    (nd : HNode O) (n : Node O) (hm : t.mem[t.root]? = some nd) (hleaf : nd.leaf = true)
    (hobj : ∀ e ∈ nd.entries, e.child = none) (hrep : erase t.mem f t.root = some n) (hfuel : 1 ≤ fuel) :
    ∃ T' b t', (HTree.absTree t n).delete H o = .ok (T', b) ∧ HTree.delete H fuel t o = .ok (t', b) ∧
      erase t'.mem f t'.root = some T'.root ∧ t'.size = T'.size ∧ t'.height = T'.height ∧
      t'.minC = T'.minC ∧ t'.maxC = T'.maxC := by
  obtain ⟨k, nd', es', hk, hm', hee, hn⟩ := erase_some hrep
  rw [hm] at hm'; cases hm'
  subst hn hk
  obtain ⟨g, rfl⟩ : ∃ g, fuel = g + 1 := ⟨fuel - 1, by omega⟩
  have hli := lastIdx_erase o _ _ _ hee
  unfold HTree.delete Tree.delete
  simp only [HTree.absTree, findLeaf, deref, hm, hleaf, bind, Except.bind, pure, Except.pure, if_true]
  rw [delIn_mk]
  simp only [if_true, hleaf, hli]
  cases hlast : lastIdxOf o es' with
  | none =>
    simp only [pure, Except.pure]
    exact ⟨_, _, _, rfl, rfl, by simpa [hleaf] using hrep, rfl, rfl, rfl, rfl⟩
  | some ind =>
    simp only [pure, Except.pure, reinsertAll, condenseUp, beq_self_eq_true, if_true, reinsert, collapseF_leaf]
    have hlt : t.root < t.mem.length := by
      by_contra hc
      rw [List.getElem?_eq_none (Nat.le_of_not_lt hc)] at hm; cases hm
    have hnew := erase_set_objs hm (nd.entries.eraseIdx ind) (fun e he => hobj e (mem_eraseIdx_of he)) k
      (es'.eraseIdx ind) (eraseEntries_eraseIdx _ _ _ ind hee)
    simp only [Heap.collapse, deref, List.getElem?_set_self hlt, hleaf, bind, Except.bind, pure, Except.pure,
      Bool.not_true, Bool.false_and, Bool.false_eq_true, if_false]
    refine ⟨_, _, _, rfl, rfl, ?_, rfl, rfl, rfl, rfl⟩
    simpa [hleaf] using hnew

/-- **C11_heap_insert_refines_partial** — `Insert` of the pointer-level model on a represented tree whose root is a leaf holding
object entries, when the root does not overflow (`entries.length < MaxChildren`): same result as the functional `Insert` — the new
memory represents the new functional root (the object entry appended), Size + 1, Depth unchanged; no fault on either side.
`_partial`: the full statement drops `hleaf`/`hobj`/`hroom` (descent below the root, split, adjustTree, root split). -/
theorem C11_heap_insert_refines_partial [Bounded O] (H : Heur) (fuel f : Nat) (t : HTree O) (o : O)
    (nd : HNode O) (n : Node O) (hm : t.mem[t.root]? = some nd) (hleaf : nd.leaf = true)
    (hobj : ∀ e ∈ nd.entries, e.child = none) (hroom : nd.entries.length < t.maxC)
    (hrep : erase t.mem f t.root = some n) (hfuel : 1 ≤ fuel) :
    ∃ T' t', (HTree.absTree t n).insert H o = .ok T' ∧ HTree.insert H fuel t o = .ok t' ∧
      erase t'.mem f t'.root = some T'.root ∧ t'.size = T'.size ∧ t'.height = T'.height ∧
      t'.minC = T'.minC ∧ t'.maxC = T'.maxC := by
  obtain ⟨k, nd', es', hk, hm', hee, hn⟩ := erase_some hrep
  rw [hm] at hm'; cases hm'
  subst hn hk
  obtain ⟨g, rfl⟩ : ∃ g, fuel = g + 1 := ⟨fuel - 1, by omega⟩
  obtain ⟨hlen, _⟩ := eraseEntries_length _ _ _ hee
  have hlt : t.root < t.mem.length := by
    by_contra hc
    rw [List.getElem?_eq_none (Nat.le_of_not_lt hc)] at hm; cases hm
  have hroom1 : ¬ (nd.entries.length + 1 > t.maxC) := by omega
  have hroom2 : ¬ ((es' ++ [Entry.obj (Bounded.bounds o) o]).length > t.maxC) := by simp [hlen]; omega
  unfold HTree.insert Tree.insert insertEntry Tree.insertEntry
  simp only [HTree.absTree, chooseNode, deref, hm, hleaf, Bool.true_or, if_true, bind, Except.bind, pure, Except.pure,
    setChildParent, hroom1, if_false, adjustTree, beq_self_eq_true]
  rw [insertAt_mk]
  simp only [hleaf, Bool.true_or, if_true, finish, hroom2, if_false, pure, Except.pure]
  have hone : eraseEntries (erase t.mem k) [({ bb := Bounded.bounds o, child := none, obj := some o } : HEntry O)] =
      some [Entry.obj (Bounded.bounds o) o] := by simp [eraseEntries]
  have hnew := erase_set_objs hm (nd.entries ++ [{ bb := Bounded.bounds o, child := none, obj := some o }])
    (by
      intro e he
      rcases List.mem_append.mp he with h1 | h1
      · exact hobj e h1
      · simp at h1; subst h1; rfl) k _ (eraseEntries_append _ _ _ _ _ hee hone)
  refine ⟨_, _, rfl, rfl, ?_, rfl, rfl, rfl, rfl⟩
  simpa [hleaf] using hnew

/-- non-vacuity: the hypotheses hold of the tree after `NewTree(2,4)` + one Insert -/
example :
    let t : HTree Nat := { minC := 2, maxC := 4, root := 0, size := 1, height := 1, mem :=
      [{ parent := none, leaf := true, level := 1, entries := [⟨⟨0, 0, 1, 1⟩, none, some 7⟩] }] }
    ∃ nd n, t.mem[t.root]? = some nd ∧ nd.leaf = true ∧ (∀ e ∈ nd.entries, e.child = none) ∧
      nd.entries.length < t.maxC ∧ erase t.mem 1 t.root = some n := by
  refine ⟨_, _, rfl, rfl, ?_, by decide, rfl⟩
  intro e he; simp at he; subst he; rfl

end Heap
end GeomV.C11
