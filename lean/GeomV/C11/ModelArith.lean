import GeomV.C11.Model
/-
C11 — the four Go heuristics (chooseNode's loop, pickSeeds, pickNext, assignGroup) over an ARBITRARY
interpretation of the floating-point arithmetic they use.  Core Lean only.

What the Go code computes with float64 values other than coordinates is: `size(r)` (a product of two
differences), differences of sizes, `math.Abs`, the comparisons `<`, `>`, `==` between such values and
the constants `-1.0`, `0` (`diff < 0`, `diff > 0`).  `Arith` makes every one of these an unconstrained
function: no order axioms, no relation between `lt` and `eq`, `size` any function of the box (so
rounding, overflow to ±Inf, Inf−Inf = NaN, comparisons with NaN being false, underflow to 0 are all
instances).  Coordinates themselves are only copied and compared (`enlarge`), never computed with, so
the boxes stay exact.

`heurA A` is the transcription of the loops with this arithmetic; `heurA ratArith = goHeur`
(`C11_heurA_rat`), and `(heurA A).InRange` for EVERY `A` (`C11_anyArith_inRange`), so all C11 theorems
hold whatever IEEE-754 does to the heuristic values.
-/
set_option linter.unusedVariables false
namespace GeomV.C11

/-- an arbitrary interpretation of the float arithmetic of the heuristics -/
structure Arith where
  F : Type
  /-- geom.go `size` -/
  size : Box → F
  /-- `x - y` -/
  sub : F → F → F
  /-- `math.Abs` -/
  abs : F → F
  /-- `x < y` (`x > y` is `lt y x`) -/
  lt : F → F → Bool
  /-- `x == y` -/
  eq : F → F → Bool
  /-- the constant `-1.0` -/
  negOne : F
  /-- the constant `0` -/
  zero : F

/-- chooseNode's loop as repaired by fix a6a6e32:
`if i == 0 || d < diff || (d == diff && size(en.bb) < size(chosen.bb))`; the accumulator is
`none` exactly before the first iteration (so the initial `diff = math.MaxFloat64` is never read). -/
def chooseEntryA (A : Arith) (bs : List Box) (e : Box) : Nat :=
  let rec go : List Box → Nat → Option (A.F × A.F × Nat) → Nat
    | [], _, acc => match acc with | some (_, _, i) => i | none => 0
    | b :: rest, i, acc =>
      let d := A.sub (A.size (b.union e)) (A.size b)
      match acc with
      | none => go rest (i + 1) (some (d, A.size b, i))
      | some (diff, csize, ci) =>
        if A.lt d diff || (A.eq d diff && A.lt (A.size b) csize) then go rest (i + 1) (some (d, A.size b, i))
        else go rest (i + 1) (some (diff, csize, ci))
  go bs 0 none

/-- pickSeeds: the two nested `range` loops threading (maxWastedSpace, left, right) -/
def pickSeedsA (A : Arith) (bs : List Box) : Nat × Nat :=
  let r := bs.zipIdx.foldl (fun (acc : A.F × Nat × Nat) (e1i : Box × Nat) =>
      (bs.drop (e1i.2 + 1)).zipIdx.foldl (fun (acc : A.F × Nat × Nat) (e2j : Box × Nat) =>
        let d := A.sub (A.sub (A.size (e1i.1.union e2j.1)) (A.size e1i.1)) (A.size e2j.1)
        if A.lt acc.1 d then (d, e1i.2, e2j.2 + e1i.2 + 1) else acc) acc) (A.negOne, 0, 1)
  (r.2.1, r.2.2)

/-- pickNext -/
def pickNextA (A : Arith) (l r rem : List Box) : Nat :=
  let lbb := mbr l
  let rbb := mbr r
  let rec go : List Box → Nat → A.F → Nat → Nat
    | [], _, _, best => best
    | b :: rest, i, maxDiff, best =>
      let d1 := A.sub (A.size (lbb.union b)) (A.size lbb)
      let d2 := A.sub (A.size (rbb.union b)) (A.size rbb)
      let d := A.abs (A.sub d1 d2)
      if A.lt maxDiff d then go rest (i + 1) d i else go rest (i + 1) maxDiff best
  go rem 0 A.negOne 0

/-- assignGroup -/
def assignLeftA (A : Arith) (l r : List Box) (e : Box) : Bool :=
  let lbb := mbr l
  let rbb := mbr r
  let leftDiff := A.sub (A.size (lbb.union e)) (A.size lbb)
  let rightDiff := A.sub (A.size (rbb.union e)) (A.size rbb)
  let diff := A.sub leftDiff rightDiff
  if A.lt diff A.zero then true
  else if A.lt A.zero diff then false
  else
    let diff := A.sub (A.size lbb) (A.size rbb)
    if A.lt diff A.zero then true
    else if A.lt A.zero diff then false
    else decide (l.length ≤ r.length)

def heurA (A : Arith) : Heur :=
  { chooseEntry := chooseEntryA A, pickSeeds := pickSeedsA A, pickNext := pickNextA A,
    assignLeft := assignLeftA A }

/-- exact arithmetic: the interpretation under which `heurA` is the model's `goHeur` -/
def ratArith : Arith :=
  { F := Rat, size := Box.size, sub := fun x y => x - y, abs := ratAbs, lt := fun x y => decide (x < y),
    eq := fun x y => x == y, negOne := -1, zero := 0 }

/-- chooseNode's loop BEFORE fix a6a6e32: `diff := math.MaxFloat64; var chosen entry` and the update
only under `d < diff || (d == diff && …)`.  `none` = `chosen` is still the zero entry after the loop
(`chosen.child == nil`: the recursive call dereferences nil).  `big` is `math.MaxFloat64`; while
`chosen` is the zero entry `size(chosen.bb)` dereferences nil as well (also `none`). -/
def chooseEntryOldA (A : Arith) (big : A.F) (bs : List Box) (e : Box) : Option Nat :=
  let rec go : List Box → Nat → A.F → Option (A.F × Nat) → Option Nat
    | [], _, _, acc => acc.map (·.2)
    | b :: rest, i, diff, acc =>
      let d := A.sub (A.size (b.union e)) (A.size b)
      if A.lt d diff then go rest (i + 1) d (some (A.size b, i))
      else if A.eq d diff then
        match acc with
        | none => none   -- size(chosen.bb) with chosen.bb == nil
        | some (csize, ci) =>
          if A.lt (A.size b) csize then go rest (i + 1) d (some (A.size b, i)) else go rest (i + 1) diff acc
      else go rest (i + 1) diff acc
  go bs 0 big none

end GeomV.C11
