import GeomV.C11.LemmasHeur
import GeomV.C11.ProofsHeapSplit
/-
C11 — phase 4: the FIRST ROOT SPLIT.  `Insert` of the pointer-level model into a represented tree whose root is a FULL leaf
(append, `(*node).split` with all its `.parent` writes, adjustTree at the root, the new root `&node{…}` with `height++`, the two
`.parent` writes) returns a tree value whose memory represents exactly the functional result (new non-leaf root over the two halves
with their exact boxes), Size + 1, Depth + 1.  Uses both directions of the split refinement.
-/
set_option linter.unusedVariables false
set_option linter.unusedSimpArgs false
namespace GeomV.C11
namespace Heap
variable {O : Type}

/-- an arena entry read as a functional entry; an entry that is not a plain object entry is read as a (dummy) child entry, so that
`φobj e` is an object entry exactly when `e` is a plain object entry -/
def φobj (e : HEntry O) : Entry O :=
  match e.child, e.obj with
  | none, some o => .obj e.bb o
  | _, _ => .child e.bb (.mk true 0 [])

theorem φobj_bb (e : HEntry O) : (φobj e).bb = e.bb := by
  unfold φobj; split <;> rfl

/-- a plain object entry: no child pointer, an object -/
def Plain (e : HEntry O) : Prop := e.child = none ∧ ∃ o, e.obj = some o

theorem plain_of_φobj {e : HEntry O} {b : Box} {o : O} (h : φobj e = .obj b o) : Plain e := by
  unfold φobj at h
  split at h
  · rename_i hc ho; exact ⟨hc, _, ho⟩
  · cases h

theorem φobj_plain {e : HEntry O} (h : Plain e) : ∃ o, φobj e = .obj e.bb o := by
  obtain ⟨hc, o, ho⟩ := h
  exact ⟨o, by unfold φobj; rw [hc, ho]⟩

/-- plain entries erase to their `φobj` reading, whatever the memory -/
theorem eraseEntries_plain (recE : Ptr → Option (Node O)) :
    ∀ (es : List (HEntry O)), (∀ e ∈ es, Plain e) → eraseEntries recE es = some (es.map φobj) := by
  intro es
  induction es with
  | nil => intro _; rfl
  | cons e es ih =>
    intro h
    obtain ⟨hc, o, ho⟩ := h e List.mem_cons_self
    rw [eraseEntries, hc, ho, ih (fun x hx => h x (List.mem_cons_of_mem _ hx))]
    simp [φobj, hc, ho]

/-- conversely: an erasure of entries without child pointers reads them as plain entries -/
theorem plain_of_erase (recE : Ptr → Option (Node O)) :
    ∀ (es : List (HEntry O)) (es' : List (Entry O)), eraseEntries recE es = some es' → (∀ e ∈ es, e.child = none) →
      ∀ e ∈ es, Plain e := by
  intro es
  induction es with
  | nil => intro _ _ _ e he; cases he
  | cons a es ih =>
    intro es' h hobj e he
    have hca := hobj a List.mem_cons_self
    rw [eraseEntries, hca] at h
    cases ho : a.obj with
    | none => simp [ho] at h
    | some o =>
      simp only [ho] at h
      cases hr : eraseEntries recE es with
      | none => simp [hr] at h
      | some r =>
        rcases List.mem_cons.mp he with rfl | he'
        · exact ⟨hca, o, ho⟩
        · exact ih r hr (fun x hx => hobj x (List.mem_cons_of_mem _ hx)) e he'

/-- a node of plain entries is represented at fuel 1 already -/
theorem erase_of_shape_plain {m : Arena O} {p : Ptr} {a : Bool} {b : Nat} {es : List (HEntry O)}
    (hs : shapeAt m p = some (a, b, es)) (hp : ∀ e ∈ es, Plain e) (k : Nat) :
    erase m (k + 1) p = some (Node.mk a b (es.map φobj)) := by
  unfold shapeAt at hs
  rw [erase]
  cases hm : m[p]? with
  | none => rw [hm] at hs; cases hs
  | some nd =>
    rw [hm] at hs
    simp only [Option.map_some, Option.some.injEq, Prod.mk.injEq] at hs
    obtain ⟨h1, h2, h3⟩ := hs
    simp only [h1, h2, h3, eraseEntries_plain _ es hp, Option.map_some]

theorem shapeAt_append_left {m : Arena O} {x : HNode O} {i : Ptr} (hi : i < m.length) :
    shapeAt (m ++ [x]) i = shapeAt m i := by
  unfold shapeAt; rw [List.getElem?_append_left hi]

/-- **C11_heap_insert_rootsplit_refines_partial** — `Insert` into a represented tree whose root is a leaf of plain object entries
that OVERFLOWS with the new entry (`entries.length + 1 > MaxChildren`; heuristics in range): the pointer-level `Insert` (append,
split, adjustTree at the root, new root with `height++`, `.parent` writes) and the functional `Insert` both succeed, the new memory
represents the new functional root (a non-leaf node over the two halves with their exact boxes), Size + 1 and Depth + 1 on both
sides.  `_partial`: the full statement drops "the root is a leaf". -/
theorem C11_heap_insert_rootsplit_refines_partial [Bounded O] {H : Heur} (hH : H.InRange) (fuel f : Nat) (t : HTree O) (o : O)
    (nd : HNode O) (n : Node O) (hm : t.mem[t.root]? = some nd) (hleaf : nd.leaf = true)
    (hobj : ∀ e ∈ nd.entries, e.child = none) (hfull : nd.entries.length + 1 > t.maxC) (hM : 1 ≤ t.maxC)
    (hrep : erase t.mem f t.root = some n) (hfuel : 1 ≤ fuel) :
    ∃ T' t' f', (HTree.absTree t n).insert H o = .ok T' ∧ HTree.insert H fuel t o = .ok t' ∧
      erase t'.mem f' t'.root = some T'.root ∧ t'.size = T'.size ∧ t'.height = T'.height ∧ t'.height = t.height + 1 ∧
      t'.minC = T'.minC ∧ t'.maxC = T'.maxC := by
  obtain ⟨k, nd', es', hk, hm', hee, hn⟩ := erase_some hrep
  rw [hm] at hm'; cases hm'
  subst hn hk
  obtain ⟨g, rfl⟩ : ∃ g, fuel = g + 1 := ⟨fuel - 1, by omega⟩
  have hlt : t.root < t.mem.length := by
    by_contra hc
    rw [List.getElem?_eq_none (Nat.le_of_not_lt hc)] at hm; cases hm
  -- the entries are plain; the functional entry list is their reading
  have hplain := plain_of_erase _ _ _ hee hobj
  have hes' : es' = nd.entries.map φobj := by
    have := eraseEntries_plain (erase t.mem k) nd.entries hplain
    rw [hee] at this; exact Option.some.inj this
  let e0 : HEntry O := { bb := Bounded.bounds o, child := none, obj := some o }
  have he0 : Plain e0 := ⟨rfl, o, rfl⟩
  have hφe0 : φobj e0 = Entry.obj (Bounded.bounds o) o := rfl
  let es1 := nd.entries ++ [e0]
  have hplain1 : ∀ e ∈ es1, Plain e := by
    intro e he
    rcases List.mem_append.mp he with h1 | h1
    · exact hplain e h1
    · simp at h1; subst h1; exact he0
  have hmap1 : es1.map φobj = es' ++ [Entry.obj (Bounded.bounds o) o] := by
    simp [es1, hes', hφe0]
  -- memory after the append
  let nd1 : HNode O := { nd with entries := es1 }
  let m1 := t.mem.set t.root nd1
  have hm1 : m1[t.root]? = some nd1 := by simp [m1, List.getElem?_set_self hlt]
  have hkids : KidsIn m1 nd1.entries := by
    intro e he c hc
    have := (hplain1 e he).1; rw [this] at hc; cases hc
  -- the functional split succeeds
  have h2 : 2 ≤ (es1.map φobj).length := by simp [es1]; omega
  obtain ⟨l, r, hsplitF, hperm, hlne, hrne⟩ := splitEntries_spec hH t.minC (es1.map φobj) h2
  -- hence the arena split succeeds …
  have htot := C11_heap_split_total H t.minC φobj φobj_bb m1 t.root nd1 hm1 hkids
  simp only [nd1] at htot
  rw [hsplitF] at htot
  obtain ⟨m3, rp, hsplitA⟩ := htot
  -- … and leaves the functional partition
  obtain ⟨_, hrp, le, re, hshL, hshR, hsplitF', hother⟩ :=
    C11_heap_split_refines H t.minC φobj φobj_bb m1 m3 t.root t.root rp nd1 hm1 hsplitA
  simp only [nd1] at hsplitF' hshL hshR
  rw [hsplitF] at hsplitF'
  simp only [Except.ok.injEq, Prod.mk.injEq] at hsplitF'
  obtain ⟨hl, hr⟩ := hsplitF'
  -- both halves consist of plain entries
  have hallobj : ∀ x ∈ es1.map φobj, ∃ b o', x = Entry.obj b o' := by
    intro x hx
    obtain ⟨e, he, rfl⟩ := List.mem_map.mp hx
    obtain ⟨o', ho'⟩ := φobj_plain (hplain1 e he)
    exact ⟨_, _, ho'⟩
  have hple : ∀ e ∈ le, Plain e := by
    intro e he
    have : φobj e ∈ l ++ r := List.mem_append_left _ (by rw [hl]; exact List.mem_map_of_mem he)
    obtain ⟨b, o', hb⟩ := hallobj _ (hperm.subset this)
    exact plain_of_φobj hb
  have hpre : ∀ e ∈ re, Plain e := by
    intro e he
    have : φobj e ∈ l ++ r := List.mem_append_right _ (by rw [hr]; exact List.mem_map_of_mem he)
    obtain ⟨b, o', hb⟩ := hallobj _ (hperm.subset this)
    exact plain_of_φobj hb
  have hrootlt3 : t.root < m3.length := shapeAt_lt hshL
  have hrplt3 : rp < m3.length := shapeAt_lt hshR
  have hm3root : ∃ x, m3[t.root]? = some x ∧ x.leaf = nd.leaf ∧ x.level = nd.level ∧ x.entries = le := by
    unfold shapeAt at hshL
    cases hx : m3[t.root]? with
    | none => rw [hx] at hshL; cases hshL
    | some x =>
      rw [hx] at hshL
      simp only [Option.map_some, Option.some.injEq, Prod.mk.injEq] at hshL
      exact ⟨x, rfl, hshL.1, hshL.2.1, hshL.2.2⟩
  have hm3rp : ∃ x, m3[rp]? = some x ∧ x.leaf = nd.leaf ∧ x.level = nd.level ∧ x.entries = re := by
    unfold shapeAt at hshR
    cases hx : m3[rp]? with
    | none => rw [hx] at hshR; cases hshR
    | some x =>
      rw [hx] at hshR
      simp only [Option.map_some, Option.some.injEq, Prod.mk.injEq] at hshR
      exact ⟨x, rfl, hshR.1, hshR.2.1, hshR.2.2⟩
  obtain ⟨xr, hxr, _, _, hxre⟩ := hm3root
  obtain ⟨xp, hxp, _, _, hxpe⟩ := hm3rp
  -- the final memory: new root allocated, two `.parent` writes
  let newRoot : HNode O := { parent := none, leaf := false, level := t.height + 1, entries :=
    [{ bb := mbr (bbs le), child := some t.root, obj := none }, { bb := mbr (bbs re), child := some rp, obj := none }] }
  have hsp1 : ∃ m6, setParent (m3 ++ [newRoot]) t.root (some m3.length) = .ok m6 ∧ m6.length = m3.length + 1 := by
    simp only [setParent, deref, List.getElem?_append_left hrootlt3, hxr, bind, Except.bind, pure, Except.pure]
    exact ⟨_, rfl, by simp⟩
  obtain ⟨m6, hm6, hl6⟩ := hsp1
  have hsp2 : ∃ m7, setParent m6 rp (some m3.length) = .ok m7 := by
    have : rp < m6.length := by rw [hl6]; exact Nat.lt_succ_of_lt hrplt3
    simp only [setParent, deref, List.getElem?_eq_getElem this, bind, Except.bind, pure, Except.pure]
    exact ⟨_, rfl⟩
  obtain ⟨m7, hm7⟩ := hsp2
  have hs6 := setParent_shape hm6
  have hs7 := setParent_shape hm7
  have hshL7 : shapeAt m7 t.root = some (nd.leaf, nd.level, le) := by
    rw [hs7, hs6, shapeAt_append_left hrootlt3]; exact hshL
  have hshR7 : shapeAt m7 rp = some (nd.leaf, nd.level, re) := by
    rw [hs7, hs6, shapeAt_append_left hrplt3]; exact hshR
  have hshN7 : shapeAt m7 m3.length = some (false, t.height + 1, newRoot.entries) := by
    rw [hs7, hs6]; unfold shapeAt
    rw [List.getElem?_append_right (Nat.le_refl _)]; simp [newRoot]
  -- run both sides
  have hroomF : (es' ++ [Entry.obj (Bounded.bounds o) o]).length > t.maxC := by
    rw [← hmap1]; simp [es1]; omega
  refine ⟨{ minC := t.minC, maxC := t.maxC, size := t.size + 1, height := t.height + 1,
             root := .mk false (t.height + 1) [.child (Node.mk nd.leaf nd.level l).bbox (.mk nd.leaf nd.level l),
                                                 .child (Node.mk nd.leaf nd.level r).bbox (.mk nd.leaf nd.level r)] },
           { minC := t.minC, maxC := t.maxC, root := m3.length, size := t.size + 1, height := t.height + 1, mem := m7 },
           2, ?_, ?_, ?_, ?_, ?_, ?_, ?_, ?_⟩
  case refine_1 =>
    unfold Tree.insert Tree.insertEntry
    simp only [HTree.absTree, bind, Except.bind]
    rw [insertAt_mk]
    have hroomF' : (List.map φobj es1).length > t.maxC := by rw [hmap1]; exact hroomF
    simp only [hleaf, Bool.true_or, if_true, finish, bind, Except.bind, ← hmap1, hroomF', hsplitF, pure, Except.pure]
  case refine_2 =>
    unfold HTree.insert insertEntry
    have hcond : (nd.leaf || nd.level == 1) = true := by simp [hleaf]
    simp only [chooseNode, deref, hm, hcond, if_true, bind, Except.bind, pure, Except.pure,
      setChildParent, hfull]
    have : split H t.minC (t.mem.set t.root { nd with entries := nd.entries ++
        [({ bb := Bounded.bounds o, child := none, obj := some o } : HEntry O)] }) t.root = .ok (m3, t.root, rp) := hsplitA
    simp only [this, adjustTree, beq_self_eq_true, if_true, computeBB, deref, hxr, hxp, hxre, hxpe, alloc, pure, Except.pure,
      bind, Except.bind]
    have h6 : setParent (m3 ++ [newRoot]) t.root (some m3.length) = .ok m6 := hm6
    simp only [newRoot] at h6
    simp only [h6, hm7]
  case refine_3 =>
    -- the new root over the two halves
    show erase m7 2 m3.length = _
    rw [erase]
    unfold shapeAt at hshN7
    cases hx : m7[m3.length]? with
    | none => rw [hx] at hshN7; cases hshN7
    | some x =>
      rw [hx] at hshN7
      simp only [Option.map_some, Option.some.injEq, Prod.mk.injEq] at hshN7
      obtain ⟨a1, a2, a3⟩ := hshN7
      simp only [a1, a2, a3, newRoot, eraseEntries, erase_of_shape_plain hshL7 hple 0, erase_of_shape_plain hshR7 hpre 0,
        Option.map_some]
      simp only [hleaf, Node.bbox, Node.entries, ← hl, ← hr]
      rw [hl, hr, bbs_map φobj φobj_bb, bbs_map φobj φobj_bb]
  all_goals rfl

/-- non-vacuity: the hypotheses hold of a full leaf root (`NewTree(1,2)` after two Inserts) with the Go heuristics -/
example :
    let t : HTree Nat := { minC := 1, maxC := 2, root := 0, size := 2, height := 1, mem :=
      [{ parent := none, leaf := true, level := 1, entries := [⟨⟨0, 0, 1, 1⟩, none, some 7⟩, ⟨⟨2, 2, 3, 3⟩, none, some 8⟩] }] }
    goHeur.InRange ∧ ∃ nd n, t.mem[t.root]? = some nd ∧ nd.leaf = true ∧ (∀ e ∈ nd.entries, e.child = none) ∧
      nd.entries.length + 1 > t.maxC ∧ 1 ≤ t.maxC ∧ erase t.mem 1 t.root = some n := by
  refine ⟨goHeur_inRange, _, _, rfl, rfl, ?_, by decide, by decide, rfl⟩
  intro e he; simp at he; rcases he with rfl | rfl <;> rfl

end Heap
end GeomV.C11
