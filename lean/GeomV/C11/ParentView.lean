import GeomV.C11.Heap
/-
C11 — the parent-link invariant of the pointer-level model, on an abstract VIEW of the arena.

`view m i = (parent of node i, child pointers of node i's entries in order)`.  Everything the parent audit looks at is in
the view; every statement of rtree.go that matters for it is one of three view updates: `setPar` (`c.parent = p`),
`setKids` (`x.entries = …`), `allocV` (`&node{…}`).

Invariant `VJ v root D` (D = pointers of DETACHED live subtrees: condenseTree's orphans, the entries split has not yet
assigned, a split sibling not yet entered into its parent):
  * the root's parent is nil;
  * LIVE nodes (the root, members of D, nodes with a non-nil parent) have pairwise distinct children, each existing
    with `parent` = that node;
  * a node that is not live (an old root after a collapse) is disowned: none of its entries' children names it as parent;
  * members of D are distinct, exist, are not the root and occur in no live node's entries.
Core Lean only.
-/
set_option linter.unusedVariables false
set_option linter.unusedSimpArgs false
namespace GeomV.C11
namespace Heap

abbrev View := Ptr → Option (Option Ptr × List Ptr)

def setPar (v : View) (c : Ptr) (p : Option Ptr) : View :=
  fun i => if i = c then (v i).map (fun x => (p, x.2)) else v i
def setKids (v : View) (x : Ptr) (ks : List Ptr) : View :=
  fun i => if i = x then (v i).map (fun y => (y.1, ks)) else v i
def allocV (v : View) (q : Ptr) (nd : Option Ptr × List Ptr) : View :=
  fun i => if i = q then some nd else v i

def VLive (v : View) (root : Ptr) (D : List Ptr) (x : Ptr) : Prop :=
  x = root ∨ x ∈ D ∨ ∃ p ks, v x = some (some p, ks)

structure VJ (v : View) (root : Ptr) (D : List Ptr) : Prop where
  rootOK : ∃ ks, v root = some (none, ks)
  closed : ∀ x pp ks, v x = some (pp, ks) → ∀ c ∈ ks, ∃ pk, v c = some pk
  good : ∀ x pp ks, v x = some (pp, ks) → VLive v root D x →
    ks.Nodup ∧ ∀ c ∈ ks, ∃ cks, v c = some (some x, cks)
  dead : ∀ x pp ks, v x = some (pp, ks) → ¬ VLive v root D x → ∀ c ∈ ks, ∀ cks, v c ≠ some (some x, cks)
  dNodup : D.Nodup
  dEx : ∀ d ∈ D, ∃ pk, v d = some pk
  dDet : ∀ d ∈ D, ∀ x pp ks, v x = some (pp, ks) → VLive v root D x → d ∉ ks
  dNotRoot : root ∉ D
  noSelf : ∀ x pp ks, v x = some (pp, ks) → VLive v root D x → x ∉ ks
  parEx : ∀ x p ks, v x = some (some p, ks) → ∃ pk, v p = some pk

/-! ### lookups in updated views -/

theorem setKids_inv {v : View} {x : Ptr} {ks' : List Ptr} {y : Ptr} {a : Option Ptr} {b : List Ptr}
    (h : setKids v x ks' y = some (a, b)) :
    (y = x ∧ b = ks' ∧ ∃ b0, v y = some (a, b0)) ∨ (y ≠ x ∧ v y = some (a, b)) := by
  unfold setKids at h
  by_cases hy : y = x
  · simp only [hy, if_true] at h
    cases hv : v x with
    | none => simp [hv] at h
    | some pk =>
      obtain ⟨p0, k0⟩ := pk
      simp [hv] at h
      exact Or.inl ⟨hy, h.2.symm, k0, by rw [hy, hv, h.1]⟩
  · simp only [hy, if_false] at h; exact Or.inr ⟨hy, h⟩

theorem setKids_fwd {v : View} (x : Ptr) (ks' : List Ptr) {y : Ptr} {a : Option Ptr} {b : List Ptr}
    (h : v y = some (a, b)) : setKids v x ks' y = some (a, if y = x then ks' else b) := by
  unfold setKids
  by_cases hy : y = x
  · simp [hy]; rw [← hy, h]; simp
  · simp [hy, h]

theorem setPar_inv {v : View} {c : Ptr} {p : Option Ptr} {y : Ptr} {a : Option Ptr} {b : List Ptr}
    (h : setPar v c p y = some (a, b)) :
    (y = c ∧ a = p ∧ ∃ a0, v y = some (a0, b)) ∨ (y ≠ c ∧ v y = some (a, b)) := by
  unfold setPar at h
  by_cases hy : y = c
  · simp only [hy, if_true] at h
    cases hv : v c with
    | none => simp [hv] at h
    | some pk =>
      obtain ⟨p0, k0⟩ := pk
      simp [hv] at h
      exact Or.inl ⟨hy, h.1.symm, p0, by rw [hy, hv, h.2]⟩
  · simp only [hy, if_false] at h; exact Or.inr ⟨hy, h⟩

theorem setPar_fwd {v : View} (c : Ptr) (p : Option Ptr) {y : Ptr} {a : Option Ptr} {b : List Ptr}
    (h : v y = some (a, b)) : setPar v c p y = some (if y = c then p else a, b) := by
  unfold setPar
  by_cases hy : y = c
  · simp [hy]; rw [← hy, h]; simp
  · simp [hy, h]

theorem setPar_same {v : View} {c : Ptr} {p : Option Ptr} {ks : List Ptr} (h : v c = some (p, ks)) :
    setPar v c p = v := by
  funext i
  unfold setPar
  by_cases hi : i = c
  · simp [hi, h]
  · simp [hi]

theorem setKids_same {v : View} {x : Ptr} {p : Option Ptr} {ks : List Ptr} (h : v x = some (p, ks)) :
    setKids v x ks = v := by
  funext i
  unfold setKids
  by_cases hi : i = x
  · simp [hi, h]
  · simp [hi]

theorem VLive_setKids {v : View} {root : Ptr} {D : List Ptr} (x : Ptr) (ks' : List Ptr) (y : Ptr) :
    VLive (setKids v x ks') root D y ↔ VLive v root D y := by
  unfold VLive
  constructor
  · rintro (h | h | ⟨p, ks, h⟩)
    · exact Or.inl h
    · exact Or.inr (Or.inl h)
    · rcases setKids_inv h with ⟨_, _, b0, h0⟩ | ⟨_, h0⟩
      · exact Or.inr (Or.inr ⟨p, b0, h0⟩)
      · exact Or.inr (Or.inr ⟨p, ks, h0⟩)
  · rintro (h | h | ⟨p, ks, h⟩)
    · exact Or.inl h
    · exact Or.inr (Or.inl h)
    · exact Or.inr (Or.inr ⟨p, _, setKids_fwd x ks' h⟩)

theorem VLive_mono {v : View} {root : Ptr} {D D' : List Ptr} {y : Ptr} (hs : ∀ d ∈ D, d ∈ D')
    (h : VLive v root D y) : VLive v root D' y := by
  rcases h with h | h | h
  · exact Or.inl h
  · exact Or.inr (Or.inl (hs _ h))
  · exact Or.inr (Or.inr h)

/-- a live node's child is live, exists, and is not the root -/
theorem VJ.child_live {v : View} {root : Ptr} {D : List Ptr} (h : VJ v root D) {x c : Ptr} {pp : Option Ptr}
    {ks : List Ptr} (hx : v x = some (pp, ks)) (hl : VLive v root D x) (hc : c ∈ ks) :
    VLive v root D c ∧ c ≠ root ∧ ∃ cks, v c = some (some x, cks) := by
  obtain ⟨cks, hcv⟩ := (h.good x pp ks hx hl).2 c hc
  refine ⟨Or.inr (Or.inr ⟨x, cks, hcv⟩), ?_, cks, hcv⟩
  intro hcr
  obtain ⟨rks, hr⟩ := h.rootOK
  rw [hcr, hr] at hcv; cases hcv

/-- the holder named by a node's parent field is live (otherwise it would be disowned) -/
theorem VJ.holder_live {v : View} {root : Ptr} {D : List Ptr} (h : VJ v root D) {n p : Ptr} {nks : List Ptr}
    {pp : Option Ptr} {ks : List Ptr} (hn : v n = some (some p, nks)) (hp : v p = some (pp, ks)) (hin : n ∈ ks) :
    VLive v root D p := by
  apply Classical.byContradiction
  intro hnl
  exact h.dead p pp ks hp hnl n hin nks hn

/-! ### L1: a live node loses entries; the removed children named in `D'` become detached subtrees -/

theorem VJ.shrink' {v : View} {root : Ptr} {D D' : List Ptr} (h : VJ v root D) {x : Ptr} {pp : Option Ptr}
    {ks ks' : List Ptr} (hx : v x = some (pp, ks)) (hl : D' = [] ∨ VLive v root D x) (hs : ∀ c ∈ ks', c ∈ ks)
    (hn : ks.Nodup → ks'.Nodup)
    (hD' : D'.Nodup) (hsub : ∀ d ∈ D', d ∈ ks) (hdis : ∀ d ∈ D', d ∉ ks') :
    VJ (setKids v x ks') root (D ++ D') := by
  have hlx : ∀ d, d ∈ D' → VLive v root D x := by
    intro d hd
    rcases hl with hl | hl
    · rw [hl] at hd; cases hd
    · exact hl
  have hgx : ∀ d, d ∈ D' → ks.Nodup ∧ ∀ c ∈ ks, ∃ cks, v c = some (some x, cks) :=
    fun d hd => h.good x pp ks hx (hlx d hd)
  have liveOld : ∀ y, VLive (setKids v x ks') root (D ++ D') y → VLive v root D y := by
    intro y hy
    rw [VLive_setKids] at hy
    rcases hy with hy | hy | hy
    · exact Or.inl hy
    · rcases List.mem_append.mp hy with hy | hy
      · exact Or.inr (Or.inl hy)
      · obtain ⟨cks, hc⟩ := (hgx y hy).2 y (hsub y hy)
        exact Or.inr (Or.inr ⟨x, cks, hc⟩)
    · exact Or.inr (Or.inr hy)
  have liveNew : ∀ y, VLive v root D y → VLive (setKids v x ks') root (D ++ D') y := by
    intro y hy
    rw [VLive_setKids]
    exact VLive_mono (fun d hd => List.mem_append.mpr (Or.inl hd)) hy
  have exNew : ∀ c pk, v c = some pk → ∃ pk', setKids v x ks' c = some pk' := by
    intro c pk hc
    obtain ⟨a, b⟩ := pk
    exact ⟨_, setKids_fwd x ks' hc⟩
  -- kids of y in the new view are among the kids in the old view
  have kidsOld : ∀ y a b, setKids v x ks' y = some (a, b) →
      ∃ b0, v y = some (a, b0) ∧ (∀ c ∈ b, c ∈ b0) ∧ (b0.Nodup → b.Nodup) := by
    intro y a b hy
    rcases setKids_inv hy with ⟨hyx, hb, b0, h0⟩ | ⟨_, h0⟩
    · refine ⟨b0, h0, ?_⟩
      rw [hyx, hx] at h0
      cases h0; rw [hb]; exact ⟨hs, hn⟩
    · exact ⟨b, h0, fun c hc => hc, fun hh => hh⟩
  constructor
  · obtain ⟨rks, hr⟩ := h.rootOK
    exact ⟨_, setKids_fwd x ks' hr⟩
  · intro y a b hy c hc
    obtain ⟨b0, h0, hsb, hnd⟩ := kidsOld y a b hy
    obtain ⟨pk, hpk⟩ := h.closed y a b0 h0 c (hsb _ hc)
    exact exNew c pk hpk
  · intro y a b hy hly
    obtain ⟨b0, h0, hsb, hnd⟩ := kidsOld y a b hy
    have hg := h.good y a b0 h0 (liveOld y hly)
    refine ⟨hnd hg.1, ?_⟩
    intro c hc
    obtain ⟨cks, hcv⟩ := hg.2 c (hsb _ hc)
    exact ⟨_, setKids_fwd x ks' hcv⟩
  · intro y a b hy hnl c hc cks hcv
    obtain ⟨b0, h0, hsb, hnd⟩ := kidsOld y a b hy
    have hnl' : ¬ VLive v root D y := fun hh => hnl (liveNew y hh)
    rcases setKids_inv hcv with ⟨_, _, c0, hc0⟩ | ⟨_, hc0⟩
    · exact h.dead y a b0 h0 hnl' c (hsb _ hc) c0 hc0
    · exact h.dead y a b0 h0 hnl' c (hsb _ hc) cks hc0
  · rw [List.nodup_append]
    refine ⟨h.dNodup, hD', ?_⟩
    intro a ha b hb hab
    subst hab
    exact h.dDet a ha x pp ks hx (hlx a hb) (hsub a hb)
  · intro d hd
    rcases List.mem_append.mp hd with hd | hd
    · obtain ⟨pk, hpk⟩ := h.dEx d hd; exact exNew d pk hpk
    · obtain ⟨pk, hpk⟩ := h.closed x pp ks hx d (hsub d hd); exact exNew d pk hpk
  · intro d hd y a b hy hly hdb
    obtain ⟨b0, h0, hsb, hnd⟩ := kidsOld y a b hy
    have hlo := liveOld y hly
    rcases List.mem_append.mp hd with hd | hd
    · exact h.dDet d hd y a b0 h0 hlo (hsb _ hdb)
    · -- d is a child of x; a live holder is x itself, and x's new entries do not contain it
      obtain ⟨c1, hc1⟩ := (hgx d hd).2 d (hsub d hd)
      obtain ⟨c2, hc2⟩ := (h.good y a b0 h0 hlo).2 d (hsb _ hdb)
      rw [hc1] at hc2
      have hyx : x = y := by cases hc2; rfl
      subst hyx
      rcases setKids_inv hy with ⟨_, hb, _⟩ | ⟨hne, _⟩
      · rw [hb] at hdb; exact hdis d hd hdb
      · exact hne rfl
  · intro hr
    rcases List.mem_append.mp hr with hr | hr
    · exact h.dNotRoot hr
    · obtain ⟨c1, hc1⟩ := (hgx root hr).2 root (hsub root hr)
      obtain ⟨rks, hrk⟩ := h.rootOK
      rw [hrk] at hc1; cases hc1
  · intro y a b hy hly hyb
    obtain ⟨b0, h0, hsb, hnd⟩ := kidsOld y a b hy
    exact h.noSelf y a b0 h0 (liveOld y hly) (hsb _ hyb)
  · intro y p b hy
    obtain ⟨b0, h0, _, _⟩ := kidsOld y (some p) b hy
    obtain ⟨pk, hpk⟩ := h.parEx y p b0 h0
    exact exNew p pk hpk

theorem VJ.shrink {v : View} {root : Ptr} {D D' : List Ptr} (h : VJ v root D) {x : Ptr} {pp : Option Ptr}
    {ks ks' : List Ptr} (hx : v x = some (pp, ks)) (hl : VLive v root D x) (hs : ∀ c ∈ ks', c ∈ ks) (hn : ks'.Nodup)
    (hD' : D'.Nodup) (hsub : ∀ d ∈ D', d ∈ ks) (hdis : ∀ d ∈ D', d ∉ ks') :
    VJ (setKids v x ks') root (D ++ D') :=
  h.shrink' hx (Or.inr hl) hs (fun _ => hn) hD' hsub hdis

/-- ANY node (live or not) loses entries and nothing becomes detached (Delete's removal of an object entry) -/
theorem VJ.shrink0 {v : View} {root : Ptr} {D : List Ptr} (h : VJ v root D) {x : Ptr} {pp : Option Ptr}
    {ks ks' : List Ptr} (hx : v x = some (pp, ks)) (hs : ∀ c ∈ ks', c ∈ ks) (hn : ks.Nodup → ks'.Nodup) :
    VJ (setKids v x ks') root D := by
  have := h.shrink' (D' := []) hx (Or.inl rfl) hs hn List.nodup_nil (fun d hd => by cases hd) (fun d hd => by cases hd)
  simpa using this

/-! ### L2/L4: an entry for `c` is appended to `x` and `c.parent = x` -/

theorem adopt_inv {v : View} {x c : Ptr} {ks' : List Ptr} {px : Option Ptr} {y : Ptr} {a : Option Ptr} {b : List Ptr}
    (h : setPar (setKids v x ks') c px y = some (a, b)) :
    ∃ a0 b0, v y = some (a0, b0) ∧ a = (if y = c then px else a0) ∧ b = (if y = x then ks' else b0) := by
  rcases setPar_inv h with ⟨hyc, ha, a0, h1⟩ | ⟨hyc, h1⟩
  · rcases setKids_inv h1 with ⟨hyx, hb, b0, h0⟩ | ⟨hyx, h0⟩
    · exact ⟨a0, b0, h0, by simp [hyc, ha], by simp [hyx, hb]⟩
    · exact ⟨a0, b, h0, by simp [hyc, ha], by simp [hyx]⟩
  · rcases setKids_inv h1 with ⟨hyx, hb, b0, h0⟩ | ⟨hyx, h0⟩
    · exact ⟨a, b0, h0, by simp [hyc], by simp [hyx, hb]⟩
    · exact ⟨a, b, h0, by simp [hyc], by simp [hyx]⟩

theorem adopt_fwd {v : View} (x c : Ptr) (ks' : List Ptr) (px : Option Ptr) {y : Ptr} {a0 : Option Ptr} {b0 : List Ptr}
    (h : v y = some (a0, b0)) :
    setPar (setKids v x ks') c px y = some (if y = c then px else a0, if y = x then ks' else b0) :=
  setPar_fwd c px (setKids_fwd x ks' h)

theorem adopt_eq {v : View} {x c : Ptr} {ks' : List Ptr} {px : Option Ptr} {a0 : Option Ptr} {b0 : List Ptr}
    (h : v c = some (a0, b0)) : ∃ b, setPar (setKids v x ks') c px c = some (px, b) :=
  ⟨_, by have := adopt_fwd x c ks' px h; simpa using this⟩

theorem adopt_ne {v : View} {x c : Ptr} {ks' : List Ptr} {px : Option Ptr} {y : Ptr} {a0 : Option Ptr} {b0 : List Ptr}
    (hne : y ≠ c) (h : v y = some (a0, b0)) : ∃ b, setPar (setKids v x ks') c px y = some (a0, b) :=
  ⟨_, by have := adopt_fwd x c ks' px h; simpa [hne] using this⟩

theorem adopt_ex {v : View} {x c : Ptr} {ks' : List Ptr} {px : Option Ptr} {y : Ptr} {pk : Option Ptr × List Ptr}
    (h : v y = some pk) : ∃ pk', setPar (setKids v x ks') c px y = some pk' :=
  ⟨_, adopt_fwd x c ks' px (a0 := pk.1) (b0 := pk.2) h⟩

theorem nodup_snoc {l : List Ptr} {a : Ptr} (h : l.Nodup) (ha : a ∉ l) : (l ++ [a]).Nodup := by
  rw [List.nodup_append]
  refine ⟨h, by simp, ?_⟩
  intro x hx y hy hxy
  simp at hy; subst hy; subst hxy; exact ha hx

theorem mem_snoc {l : List Ptr} {a d : Ptr} (h : d ∈ l ++ [a]) : d ∈ l ∨ d = a := by
  rcases List.mem_append.mp h with h | h
  · exact Or.inl h
  · simp at h; exact Or.inr h

/-- common part of `adopt` (c ∈ D gets its entry in x, root unchanged) and `reroot` (the old root gets its entry in the new root):
`c` is entered into `x` (`x.entries ++ [c]`, `c.parent = x`), for liveness predicates `L` (before) and `L'` (after) that agree -/
theorem adopt_core {v : View} {x c : Ptr} {pp : Option Ptr} {ks : List Ptr} {root root' : Ptr} {D D' : List Ptr}
    (h : VJ v root D) (hx : v x = some (pp, ks))
    (hcv : ∃ cp ck, v c = some (cp, ck))
    (hl : VLive v root D x)
    (hcks : c ∉ ks) (hcx : c ≠ x)
    (hcdet : ∀ y a b, v y = some (a, b) → VLive v root D y → y ≠ x → c ∉ b)
    (hlive : ∀ y, VLive (setPar (setKids v x (ks ++ [c])) c (some x)) root' D' y ↔ VLive v root D y)
    (hroot : ∃ rk, setPar (setKids v x (ks ++ [c])) c (some x) root' = some (none, rk))
    (hD' : D'.Nodup) (hD'sub : ∀ d ∈ D', d ∈ D ∧ d ≠ c) (hr' : root' ∉ D') :
    VJ (setPar (setKids v x (ks ++ [c])) c (some x)) root' D' := by
  obtain ⟨cp, ck, hcv⟩ := hcv
  have hgx := h.good x pp ks hx hl
  constructor
  · exact hroot
  · intro y a b hy c' hc'
    obtain ⟨a0, b0, h0, ha, hb⟩ := adopt_inv hy
    have : ∃ pk, v c' = some pk := by
      by_cases hyx : y = x
      · simp [hyx] at hb; subst hb
        rcases mem_snoc hc' with h1 | h1
        · exact h.closed x pp ks hx c' h1
        · subst h1; exact ⟨_, hcv⟩
      · simp [hyx] at hb; subst hb; exact h.closed y a0 b h0 c' hc'
    obtain ⟨pk, h1⟩ := this
    exact adopt_ex h1
  · intro y a b hy hly
    obtain ⟨a0, b0, h0, ha, hb⟩ := adopt_inv hy
    have hlo := (hlive y).mp hly
    by_cases hyx : y = x
    · subst hyx
      simp at hb; subst hb
      rw [hx] at h0; cases h0
      refine ⟨nodup_snoc hgx.1 hcks, ?_⟩
      intro c' hc'
      rcases mem_snoc hc' with h1 | h1
      · obtain ⟨cks, hcv'⟩ := hgx.2 c' h1
        by_cases e : c' = c
        · subst e; exact adopt_eq hcv'
        · exact adopt_ne e hcv'
      · subst h1
        exact adopt_eq hcv
    · simp [hyx] at hb; subst hb
      have hg := h.good y a0 b h0 hlo
      refine ⟨hg.1, ?_⟩
      intro c' hc'
      obtain ⟨cks, hcv'⟩ := hg.2 c' hc'
      have hne : c' ≠ c := fun e => hcdet y a0 b h0 hlo hyx (e ▸ hc')
      exact adopt_ne hne hcv'
  · intro y a b hy hnl c' hc' cks hcv'
    obtain ⟨a0, b0, h0, ha, hb⟩ := adopt_inv hy
    have hnlo : ¬ VLive v root D y := fun hh => hnl ((hlive y).mpr hh)
    have hyx : y ≠ x := fun e => hnlo (e ▸ hl)
    simp [hyx] at hb; subst hb
    obtain ⟨a1, b1, h1, ha1, hb1⟩ := adopt_inv hcv'
    by_cases e : c' = c
    · simp [e] at ha1; exact hyx ha1
    · simp [e] at ha1; subst ha1
      exact h.dead y a0 b h0 hnlo c' hc' b1 h1
  · exact hD'
  · intro d hd
    obtain ⟨pk, h1⟩ := h.dEx d (hD'sub d hd).1
    exact adopt_ex h1
  · intro d hd y a b hy hly hdb
    obtain ⟨hdD, hdc⟩ := hD'sub d hd
    obtain ⟨a0, b0, h0, ha, hb⟩ := adopt_inv hy
    have hlo := (hlive y).mp hly
    by_cases hyx : y = x
    · subst hyx; simp at hb; subst hb
      rw [hx] at h0; cases h0
      rcases mem_snoc hdb with h1 | h1
      · exact h.dDet d hdD y pp ks hx hl h1
      · exact hdc h1
    · simp [hyx] at hb; subst hb
      exact h.dDet d hdD y a0 b h0 hlo hdb
  · exact hr'
  · intro y a b hy hly hyb
    obtain ⟨a0, b0, h0, ha, hb⟩ := adopt_inv hy
    have hlo := (hlive y).mp hly
    by_cases hyx : y = x
    · subst hyx; simp at hb; subst hb
      rw [hx] at h0; cases h0
      rcases mem_snoc hyb with h1 | h1
      · exact h.noSelf y pp ks hx hl h1
      · exact hcx h1.symm
    · simp [hyx] at hb; subst hb
      exact h.noSelf y a0 b h0 hlo hyb
  · intro y p b hy
    obtain ⟨a0, b0, h0, ha, hb⟩ := adopt_inv hy
    by_cases hyc : y = c
    · simp [hyc] at ha; subst ha; exact adopt_ex hx
    · simp [hyc] at ha; subst ha
      obtain ⟨pk, hpk⟩ := h.parEx y p b0 h0
      exact adopt_ex hpk

theorem VJ.adopt {v : View} {root : Ptr} {D : List Ptr} (h : VJ v root D) {x c : Ptr} {pp : Option Ptr}
    {ks : List Ptr} (hc : c ∈ D) (hx : v x = some (pp, ks)) (hl : VLive v root D x) (hcx : c ≠ x) :
    VJ (setPar (setKids v x (ks ++ [c])) c (some x)) root (D.erase c) := by
  have hcr : c ≠ root := fun e => h.dNotRoot (e ▸ hc)
  obtain ⟨⟨cp, ck⟩, hcv⟩ := h.dEx c hc
  have memE : ∀ d, d ∈ D.erase c ↔ d ≠ c ∧ d ∈ D := fun d => h.dNodup.mem_erase_iff
  obtain ⟨rks, hr⟩ := h.rootOK
  refine adopt_core h hx ⟨cp, ck, hcv⟩ hl (h.dDet c hc x pp ks hx hl) hcx
    (fun y a b hy hly _ => h.dDet c hc y a b hy hly) ?_ (adopt_ne (Ne.symm hcr) hr)
    (h.dNodup.sublist List.erase_sublist) (fun d hd => ⟨((memE d).mp hd).2, ((memE d).mp hd).1⟩)
    (fun hr' => h.dNotRoot ((memE root).mp hr').2)
  intro y
  constructor
  · intro hy
    rcases hy with hy | hy | ⟨p, k, hy⟩
    · exact Or.inl hy
    · exact Or.inr (Or.inl ((memE y).mp hy).2)
    · obtain ⟨a0, b0, h0, ha, _⟩ := adopt_inv hy
      by_cases hyc : y = c
      · exact Or.inr (Or.inl (hyc ▸ hc))
      · simp [hyc] at ha; subst ha; exact Or.inr (Or.inr ⟨p, b0, h0⟩)
  · intro hy
    rcases hy with hy | hy | ⟨p, k, hy⟩
    · exact Or.inl hy
    · by_cases hyc : y = c
      · subst hyc; exact Or.inr (Or.inr ⟨x, adopt_eq hcv⟩)
      · exact Or.inr (Or.inl ((memE y).mpr ⟨hyc, hy⟩))
    · by_cases hyc : y = c
      · subst hyc; exact Or.inr (Or.inr ⟨x, adopt_eq hy⟩)
      · exact Or.inr (Or.inr ⟨p, adopt_ne hyc hy⟩)

/-- the split sibling `q` (already created with `parent: p`) is entered into `p` -/
theorem VJ.adopt_noset {v : View} {root : Ptr} {D : List Ptr} (h : VJ v root D) {x c : Ptr} {pp : Option Ptr}
    {ks cks : List Ptr} (hc : c ∈ D) (hx : v x = some (pp, ks)) (hl : VLive v root D x)
    (hcp : v c = some (some x, cks)) (hcx : c ≠ x) :
    VJ (setKids v x (ks ++ [c])) root (D.erase c) := by
  have := h.adopt hc hx hl hcx
  rwa [setPar_same (setKids_fwd x (ks ++ [c]) hcp)] at this

/-- root split: the new root `nr` (so far a detached node with nil parent) gets the entry of the old root -/
theorem VJ.reroot {v : View} {root : Ptr} {D : List Ptr} (h : VJ v root D) {nr : Ptr} {ks : List Ptr}
    (hc : nr ∈ D) (hx : v nr = some (none, ks)) :
    VJ (setPar (setKids v nr (ks ++ [root])) root (some nr)) nr (D.erase nr) := by
  have hnr : nr ≠ root := fun e => h.dNotRoot (e ▸ hc)
  have hl : VLive v root D nr := Or.inr (Or.inl hc)
  obtain ⟨rks, hr⟩ := h.rootOK
  have hgx := h.good nr none ks hx hl
  have rootNotKid : ∀ y a b, v y = some (a, b) → VLive v root D y → root ∉ b := by
    intro y a b hy hly hin
    obtain ⟨c1, hc1⟩ := (h.good y a b hy hly).2 root hin
    rw [hr] at hc1; cases hc1
  have memE : ∀ d, d ∈ D.erase nr ↔ d ≠ nr ∧ d ∈ D := fun d => h.dNodup.mem_erase_iff
  refine adopt_core h hx ⟨none, rks, hr⟩ hl (rootNotKid nr none ks hx hl) (Ne.symm hnr)
    (fun y a b hy hly _ => rootNotKid y a b hy hly) ?_ (adopt_ne hnr hx)
    (h.dNodup.sublist List.erase_sublist)
    (fun d hd => ⟨((memE d).mp hd).2, fun e => h.dNotRoot (e ▸ ((memE d).mp hd).2)⟩)
    (fun hr' => ((memE nr).mp hr').1 rfl)
  intro y
  constructor
  · intro hy
    rcases hy with hy | hy | ⟨p, k, hy⟩
    · exact Or.inr (Or.inl (hy ▸ hc))
    · exact Or.inr (Or.inl ((memE y).mp hy).2)
    · obtain ⟨a0, b0, h0, ha, _⟩ := adopt_inv hy
      by_cases hyc : y = root
      · exact Or.inl hyc
      · simp [hyc] at ha; subst ha; exact Or.inr (Or.inr ⟨p, b0, h0⟩)
  · intro hy
    rcases hy with hy | hy | ⟨p, k, hy⟩
    · subst hy; exact Or.inr (Or.inr ⟨nr, adopt_eq hr⟩)
    · by_cases hyc : y = nr
      · exact Or.inl hyc
      · exact Or.inr (Or.inl ((memE y).mpr ⟨hyc, hy⟩))
    · by_cases hyc : y = root
      · subst hyc; exact Or.inr (Or.inr ⟨nr, adopt_eq hy⟩)
      · exact Or.inr (Or.inr ⟨p, adopt_ne hyc hy⟩)

/-! ### L3: `&node{parent: pp}` without entries is a new detached live node -/

theorem allocV_inv {v : View} {q : Ptr} {nd pk : Option Ptr × List Ptr} {y : Ptr} (h : allocV v q nd y = some pk) :
    (y = q ∧ pk = nd) ∨ (y ≠ q ∧ v y = some pk) := by
  unfold allocV at h
  by_cases hy : y = q
  · simp [hy] at h; exact Or.inl ⟨hy, h.symm⟩
  · simp [hy] at h; exact Or.inr ⟨hy, h⟩

theorem allocV_fwd {v : View} {q : Ptr} (nd : Option Ptr × List Ptr) {pk : Option Ptr × List Ptr} {y : Ptr}
    (hq : v q = none) (h : v y = some pk) : allocV v q nd y = some pk := by
  unfold allocV
  by_cases hy : y = q
  · rw [hy, hq] at h; cases h
  · simp [hy, h]

theorem VJ.alloc {v : View} {root : Ptr} {D : List Ptr} (h : VJ v root D) {q : Ptr} (pp : Option Ptr)
    (hq : v q = none) (hpp : ∀ p, pp = some p → ∃ pk, v p = some pk) : VJ (allocV v q (pp, [])) root (q :: D) := by
  have exq : ∀ {y pk}, v y = some pk → y ≠ q := by
    intro y pk hy e; rw [e, hq] at hy; cases hy
  have liveOld : ∀ y, y ≠ q → VLive (allocV v q (pp, [])) root (q :: D) y → VLive v root D y := by
    intro y hyq hy
    rcases hy with hy | hy | ⟨p, k, hy⟩
    · exact Or.inl hy
    · rcases List.mem_cons.mp hy with hy | hy
      · exact absurd hy hyq
      · exact Or.inr (Or.inl hy)
    · rcases allocV_inv hy with ⟨e, _⟩ | ⟨_, h0⟩
      · exact absurd e hyq
      · exact Or.inr (Or.inr ⟨p, k, h0⟩)
  have liveNew : ∀ y, VLive v root D y → VLive (allocV v q (pp, [])) root (q :: D) y := by
    intro y hy
    rcases hy with hy | hy | ⟨p, k, hy⟩
    · exact Or.inl hy
    · exact Or.inr (Or.inl (List.mem_cons_of_mem _ hy))
    · exact Or.inr (Or.inr ⟨p, k, allocV_fwd _ hq hy⟩)
  obtain ⟨rks, hr⟩ := h.rootOK
  constructor
  · exact ⟨rks, allocV_fwd _ hq hr⟩
  · intro y a b hy c hc
    rcases allocV_inv hy with ⟨_, e⟩ | ⟨_, h0⟩
    · cases e; cases hc
    · obtain ⟨pk, hpk⟩ := h.closed y a b h0 c hc
      exact ⟨pk, allocV_fwd _ hq hpk⟩
  · intro y a b hy hly
    rcases allocV_inv hy with ⟨_, e⟩ | ⟨hyq, h0⟩
    · cases e; exact ⟨List.nodup_nil, fun c hc => by cases hc⟩
    · have hg := h.good y a b h0 (liveOld y hyq hly)
      refine ⟨hg.1, fun c hc => ?_⟩
      obtain ⟨cks, hcv⟩ := hg.2 c hc
      exact ⟨cks, allocV_fwd _ hq hcv⟩
  · intro y a b hy hnl c hc cks hcv
    rcases allocV_inv hy with ⟨e, _⟩ | ⟨hyq, h0⟩
    · exact hnl (Or.inr (Or.inl (by simp [e])))
    · have hnlo : ¬ VLive v root D y := fun hh => hnl (liveNew y hh)
      obtain ⟨pk, hpk⟩ := h.closed y a b h0 c hc
      rcases allocV_inv hcv with ⟨e, _⟩ | ⟨_, h1⟩
      · exact exq hpk e
      · exact h.dead y a b h0 hnlo c hc cks h1
  · rw [List.nodup_cons]
    refine ⟨fun hin => ?_, h.dNodup⟩
    obtain ⟨pk, hpk⟩ := h.dEx q hin
    rw [hq] at hpk; cases hpk
  · intro d hd
    rcases List.mem_cons.mp hd with hd | hd
    · subst hd; exact ⟨(pp, []), by simp [allocV]⟩
    · obtain ⟨pk, hpk⟩ := h.dEx d hd; exact ⟨pk, allocV_fwd _ hq hpk⟩
  · intro d hd y a b hy hly hdb
    rcases allocV_inv hy with ⟨_, e⟩ | ⟨hyq, h0⟩
    · cases e; cases hdb
    · rcases List.mem_cons.mp hd with hd | hd
      · subst hd
        obtain ⟨pk, hpk⟩ := h.closed y a b h0 d hdb
        rw [hq] at hpk; cases hpk
      · exact h.dDet d hd y a b h0 (liveOld y hyq hly) hdb
  · intro hin
    rcases List.mem_cons.mp hin with hin | hin
    · exact exq hr hin
    · exact h.dNotRoot hin
  · intro y a b hy hly hyb
    rcases allocV_inv hy with ⟨_, e⟩ | ⟨hyq, h0⟩
    · cases e; cases hyb
    · exact h.noSelf y a b h0 (liveOld y hyq hly) hyb
  · intro y p b hy
    rcases allocV_inv hy with ⟨_, e⟩ | ⟨hyq, h0⟩
    · cases e
      obtain ⟨pk, hpk⟩ := hpp p rfl
      exact ⟨pk, allocV_fwd _ hq hpk⟩
    · obtain ⟨pk, hpk⟩ := h.parEx y p b h0
      exact ⟨pk, allocV_fwd _ hq hpk⟩

/-! ### L5: root collapse -/

theorem VJ.collapse {v : View} {root c : Ptr} (h : VJ v root []) (hroot : v root = some (none, [c])) :
    VJ (setPar v c none) c [] := by
  have hlr : VLive v root [] root := Or.inl rfl
  obtain ⟨cks, hcv⟩ := (h.good root none [c] hroot hlr).2 c (by simp)
  have hcr : c ≠ root := by intro e; rw [e, hroot] at hcv; cases hcv
  have inv : ∀ {y a b}, setPar v c none y = some (a, b) → ∃ a0, v y = some (a0, b) ∧ a = if y = c then none else a0 := by
    intro y a b hy
    rcases setPar_inv hy with ⟨e, ha, a0, h0⟩ | ⟨e, h0⟩
    · exact ⟨a0, h0, by simp [e, ha]⟩
    · exact ⟨a, h0, by simp [e]⟩
  have liveOld : ∀ y, VLive (setPar v c none) c [] y → VLive v root [] y ∧ y ≠ root := by
    intro y hy
    rcases hy with hy | hy | ⟨p, k, hy⟩
    · subst hy; exact ⟨Or.inr (Or.inr ⟨root, cks, hcv⟩), hcr⟩
    · cases hy
    · obtain ⟨a0, h0, ha⟩ := inv hy
      by_cases e : y = c
      · simp [e] at ha
      · simp [e] at ha; subst ha
        refine ⟨Or.inr (Or.inr ⟨p, k, h0⟩), ?_⟩
        intro e2; rw [e2, hroot] at h0; cases h0
  have liveNew : ∀ y, VLive v root [] y → y ≠ root → VLive (setPar v c none) c [] y := by
    intro y hy hyr
    rcases hy with hy | hy | ⟨p, k, hy⟩
    · exact absurd hy hyr
    · cases hy
    · by_cases e : y = c
      · exact Or.inl e
      · exact Or.inr (Or.inr (by have hh := setPar_fwd c none hy; simp [e] at hh; exact ⟨_, _, hh⟩))
  constructor
  · exact (by have hh := setPar_fwd c none hcv; simp at hh; exact ⟨_, hh⟩)
  · intro y a b hy c' hc'
    obtain ⟨a0, h0, _⟩ := inv hy
    obtain ⟨⟨p1, k1⟩, h1⟩ := h.closed y a0 b h0 c' hc'
    exact ⟨_, setPar_fwd c none h1⟩
  · intro y a b hy hly
    obtain ⟨a0, h0, _⟩ := inv hy
    obtain ⟨hlo, hyr⟩ := liveOld y hly
    have hg := h.good y a0 b h0 hlo
    refine ⟨hg.1, fun c' hc' => ?_⟩
    obtain ⟨k1, h1⟩ := hg.2 c' hc'
    have hne : c' ≠ c := by
      intro e; rw [e, hcv] at h1; cases h1; exact hyr rfl
    exact (by have hh := setPar_fwd c none h1; simp [hne] at hh; exact ⟨_, hh⟩)
  · intro y a b hy hnl c' hc' k1 h1
    obtain ⟨a0, h0, _⟩ := inv hy
    obtain ⟨a1, h1', ha1⟩ := inv h1
    by_cases e : c' = c
    · simp [e] at ha1
    · simp [e] at ha1; subst ha1
      by_cases hyr : y = root
      · subst hyr
        rw [hroot] at h0; cases h0
        simp at hc'; exact e hc'
      · have hnlo : ¬ VLive v root [] y := fun hh => hnl (liveNew y hh hyr)
        exact h.dead y a0 b h0 hnlo c' hc' k1 h1'
  · exact List.nodup_nil
  · intro d hd; cases hd
  · intro d hd; cases hd
  · intro hd; cases hd
  · intro y a b hy hly hyb
    obtain ⟨a0, h0, _⟩ := inv hy
    exact h.noSelf y a0 b h0 (liveOld y hly).1 hyb
  · intro y p b hy
    obtain ⟨a0, h0, ha⟩ := inv hy
    by_cases e : y = c
    · simp [e] at ha
    · simp [e] at ha; subst ha
      obtain ⟨⟨p1, k1⟩, hpk⟩ := h.parEx y p b h0
      exact ⟨_, setPar_fwd c none hpk⟩

/-- the empty tree -/
theorem VJ.init : VJ (fun i => if i = 0 then some (none, []) else none) 0 [] := by
  constructor
  · exact ⟨[], by simp⟩
  · intro x pp ks hx c hc
    by_cases e : x = 0
    · simp [e] at hx; obtain ⟨_, rfl⟩ := hx; cases hc
    · simp [e] at hx
  · intro x pp ks hx _
    by_cases e : x = 0
    · simp [e] at hx; obtain ⟨_, rfl⟩ := hx; exact ⟨List.nodup_nil, fun c hc => by cases hc⟩
    · simp [e] at hx
  · intro x pp ks hx _ c hc
    by_cases e : x = 0
    · simp [e] at hx; obtain ⟨_, rfl⟩ := hx; cases hc
    · simp [e] at hx
  · exact List.nodup_nil
  · intro d hd; cases hd
  · intro d hd; cases hd
  · intro hd; cases hd
  · intro x pp ks hx _ hc
    by_cases e : x = 0
    · simp [e] at hx; obtain ⟨_, rfl⟩ := hx; cases hc
    · simp [e] at hx
  · intro x p ks hx
    by_cases e : x = 0
    · simp [e] at hx
    · simp [e] at hx

theorem setKids_setPar_comm (v : View) (c x : Ptr) (p : Option Ptr) (ks : List Ptr) :
    setKids (setPar v c p) x ks = setPar (setKids v x ks) c p := by
  funext i
  unfold setKids setPar
  by_cases h1 : i = c
  · by_cases h2 : i = x
    · subst h1; subst h2; simp; cases v i <;> simp
    · subst h1; simp [h2]
  · by_cases h2 : i = x
    · subst h2; simp [h1]
    · simp [h1, h2]

/-- only membership in `D` matters -/
theorem VJ.congr {v : View} {root : Ptr} {D D' : List Ptr} (h : VJ v root D) (hm : ∀ d, d ∈ D' ↔ d ∈ D)
    (hn : D'.Nodup) : VJ v root D' := by
  have hl : ∀ y, VLive v root D' y ↔ VLive v root D y := by
    intro y; unfold VLive; rw [hm]
  exact ⟨h.rootOK, h.closed, fun x pp ks hx hlx => h.good x pp ks hx ((hl x).mp hlx),
    fun x pp ks hx hlx => h.dead x pp ks hx (fun hh => hlx ((hl x).mpr hh)), hn,
    fun d hd => h.dEx d ((hm d).mp hd),
    fun d hd x pp ks hx hlx => h.dDet d ((hm d).mp hd) x pp ks hx ((hl x).mp hlx),
    fun hr => h.dNotRoot ((hm root).mp hr),
    fun x pp ks hx hlx => h.noSelf x pp ks hx ((hl x).mp hlx), h.parEx⟩

end Heap
end GeomV.C11
