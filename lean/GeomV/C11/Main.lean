import GeomV.C11.Wire
import GeomV.C11.Heap
import GeomV.C11.HeapPath
/-!
Driver for C11.  `geomv_c11 judge` reads one history per line together with what the real
implementation did after every operation (whole-tree dump through the `verif` hook, Size, Depth,
Delete result, answers to the query batch) and prints one verdict per line:

  OK <class>            every step: dump = model tree exactly, answers = model answers exactly,
                        and the implementation's dump/answers satisfy the Spec
  SPEC <class> <why>    the implementation's dump or answers violate Spec.lean at the named step
  DIFF <class> <why>    Spec holds but the implementation differs from the model
-/
set_option linter.unusedVariables false
namespace GeomV.C11
open GeomV

structure StepRes where
  delres : Option Bool
  size : Nat
  depth : Nat
  tree : Node ObjRec
  parentOK : Bool
  answers : List (List ObjRec)

def pAnswers (pool : Array ObjRec) : Nat → Tok → Option (List (List ObjRec) × Tok)
  | 0, t => some ([], t)
  | n+1, t => do
    let (a, t) ← pIds pool t
    let (r, t) ← pAnswers pool n t
    pure (a :: r, t)

/-- `ok <delres> <size> <depth> T <node> A answers` -/
def pStep (pool : Array ObjRec) (nq : Nat) : Tok → Except String StepRes
  | "ok" :: dr :: sz :: dp :: "T" :: t =>
    match sz.toNat?, dp.toNat? with
    | some sz, some dp =>
      match pNode pool 64 t with
      | none => .error "malformed-tree(nil-child/nil-box/nil-object/foreign-object-or-depth>64)"
      | some (n, pok, t) =>
        match t with
        | "A" :: t =>
          match pAnswers pool nq t with
          | some (a, _) =>
            let dr := if dr == "t" then some true else if dr == "f" then some false else none
            .ok ⟨dr, sz, dp, n, pok, a⟩
          | none => .error "search-returned-nil-or-foreign-object"
        | _ => .error "bad-step-syntax"
    | _, _ => .error "negative-size-or-depth"
  | "panic" :: m => .error ("panic:" ++ " ".intercalate m)
  | _ => .error "bad-step-syntax"

/-- `List.isPerm` for lists of pool records, in O(n log n): every `ObjRec` of a run is `pool[id]`, so records
with equal ids are equal and two lists are permutations of each other iff they are equal after a stable sort
by id (the comparison after sorting is on the whole records).  Equivalent to `isPerm` on such lists; the
quadratic `isPerm` dominated the judge's time. -/
def permById (a b : List ObjRec) : Bool :=
  a.length == b.length && a.mergeSort (fun x y => x.id ≤ y.id) == b.mergeSort (fun x y => x.id ≤ y.id)

def faultStr : Fault → String
  | .nilDeref => "nilDeref" | .nilObj => "nilObj" | .indexRange => "indexRange" | .choice => "choice" | .nnNil => "nnNil"

/-- Spec verdict for one step, computed from the implementation's answers only.
`s` = multiset after the operation according to the history semantics. -/
def specCheck (h : Hist) (s sPrev : List ObjRec) (op : Op ObjRec) (prevDump : String) (prev : Option StepRes)
    (r : StepRes) : Option String :=
  let t : Tree ObjRec := { minC := h.minC, maxC := h.maxC, root := r.tree, size := r.size, height := r.depth }
  if !wfNode h.maxC r.depth r.tree then
    some s!"tree-not-well-formed(Depth={r.depth}):{(wfDiag h.maxC r.depth r.tree).getD "?"}"
  else if !(r.tree.leaf || !r.tree.entries.isEmpty) then
    some s!"Depth={r.depth}-but-the-tree-has-no-leaf(non-leaf-root-without-entries)"
  else if r.size != t.abs.length then some s!"Size={r.size}-but-{t.abs.length}-objects-stored"
  else if !(permById t.abs s) then some s!"stored-objects-differ-from-history:stored=[{idsStr t.abs}]-expected=[{idsStr s}]"
  else
    let delBad : Option String :=
      match op, r.delres with
      | .del o, some b =>
        if b != specDeleteResult sPrev o then some s!"Delete-returned-{b}-expected-{specDeleteResult sPrev o}"
        else if !b && prev.isSome && (nodeStr r.tree != prevDump || (prev.map (·.size)) != some r.size || (prev.map (·.depth)) != some r.depth)
          then some "Delete-of-absent-object-changed-the-tree"
        else none
      | .del _, none => some "Delete-result-missing"
      | .ins _, _ => none
    match delBad with
    | some m => some m
    | none =>
      let bad := (h.queries.zip r.answers).zipIdx.filterMap fun ((q, a), i) =>
        if permById a (specSearch s q) then none
        else some s!"SearchIntersect-q{i}({boxStr q})-returned=[{idsStr a}]-brute-force=[{idsStr (specSearch s q)}]"
      bad.head?

def opSpecStep (s : List ObjRec) (op : Op ObjRec) : List ObjRec := specStep s op

/-- `PathOK` (ProofsHeapAdjust.lean) for the Insert / the shape part of `OnPath` (ProofsHeapCondense.lean) for the Delete about to be performed on the arena -/
def insertPathOK (heap : Heap.HTree ObjRec) (fuel : Nat) : Op ObjRec → Bool
  | .ins o => Heap.pathOKb goHeur heap.mem (Bounded.bounds o) 1 heap.root fuel heap.root
  | .del o =>
    -- the SHAPE part of `OnPath` (ProofsHeapCondense.lean; MinChildren := 0 switches the fill clause off: under-full nodes are legitimate)
    -- on the path from the root to the leaf findLeaf returns, read off the stored parent fields
    match Heap.findLeaf heap.mem o fuel heap.root with
    | .ok (some lp) =>
      match Heap.pathUp heap.mem heap.root fuel lp [] with
      | some path => Heap.onPathb heap.mem heap.root 0 fuel heap.root path lp
      | none => false
    | _ => true

def judgeHist (h : Hist) (steps : List Tok) : String := Id.run do
  let cls := h.cls
  let mut model : Tree ObjRec := newTree h.minC h.maxC
  let mut s : List ObjRec := []
  let mut prevDump : String := nodeStr model.root
  let mut prev : Option StepRes := some ⟨none, 0, 1, model.root, true, []⟩
  let mut i := 0
  let m := h.ops.length
  let mut maxH := 1
  let mut sts := steps
  let mut firstDiff : Option String := none
  -- families whose class says "specOnly" (non-dyadic coordinates: the heuristics' float arithmetic is
  -- inexact, the tree may differ from the exact model by tie-breaking) are judged by the Spec only
  let specOnly := (h.cls.splitOn "specOnly").length > 1
  -- the pointer-level model (Heap.lean: arena of nodes with STORED parent fields) runs next to the functional model
  -- on every history of at most 400 operations with coordinates below 2^70 (cost): same faults, its erasure = the functional tree, same Delete result,
  -- Size, Depth, and the hook's parent audit evaluated on the arena
  let smallCoords := h.pool.all fun o => [o.box.minX, o.box.minY, o.box.maxX, o.box.maxY].all fun c =>
    decide (c.num.natAbs < 2^70) && decide (c.den < 2^70)
  let useHeap := !specOnly && h.ops.length ≤ 400 && smallCoords
  let hfuel := 80
  let mut heap : Heap.HTree ObjRec := Heap.newTree h.minC h.maxC
  for (name, op) in h.ops do
    i := i + 1
    let at_ := s!"step={i}/{m}-op={name}"
    let sPrev := s
    s := opSpecStep s op
    if name.startsWith "i" || name.startsWith "d" then
      -- silent operation: no step was reported; the history semantics and the model advance
      if firstDiff.isNone && !specOnly then
        match model.step goHeur op with
        | .error f => firstDiff := some s!"{at_}-model-faults-{faultStr f}-impl-does-not"
        | .ok (t', _) => model := t'
        if useHeap && firstDiff.isNone then
          if !insertPathOK heap hfuel op then firstDiff := some s!"{at_}-pointer-level-model-path-hypothesis-PathOK/OnPath-fails"
          match heap.step goHeur hfuel op with
          | .error _ => firstDiff := some s!"{at_}-pointer-level-model-faults"
          | .ok (h', _) => heap := h'
      prev := none
      prevDump := ""
      continue
    let st := sts.headD []
    sts := sts.tail
    match pStep h.pool h.queries.length st with
    | .error e => return s!"SPEC {cls} {at_}-{e}"
    | .ok r =>
      match specCheck h s sPrev op prevDump prev r with
      | some why => return s!"SPEC {cls} {at_}-{why}"
      | none =>
        -- correspondence with the model; after the first difference only the Spec is evaluated
        -- on the remaining steps (a later SPEC verdict takes precedence over the DIFF)
        let dump := nodeStr r.tree
        if firstDiff.isNone && !specOnly then
          match model.step goHeur op with
          | .error f => firstDiff := some s!"{at_}-model-faults-{faultStr f}-impl-does-not"
          | .ok (t', dr) =>
            model := t'
            if useHeap then
              -- the path hypothesis of C11_heap_insert_nosplit_refines_partial, evaluated on the arena BEFORE the Insert (sound: pathOKb_sound)
              if !insertPathOK heap hfuel op then firstDiff := some s!"{at_}-pointer-level-model-path-hypothesis-PathOK/OnPath-fails"
              match heap.step goHeur hfuel op with
              | .error _ => firstDiff := some s!"{at_}-pointer-level-model-faults-functional-model-does-not"
              | .ok (h', hdr) =>
                heap := h'
                if (Heap.erase h'.mem hfuel h'.root).map nodeStr != some (nodeStr t'.root) || hdr != dr
                    || h'.size != t'.size || h'.height != t'.height then
                  firstDiff := some s!"{at_}-pointer-level-model-differs-from-functional-model"
                else if !Heap.audit h'.mem hfuel none h'.root then
                  firstDiff := some s!"{at_}-pointer-level-model-parent-link-audit-fails"
            if firstDiff.isSome then pure ()
            else if !r.parentOK then firstDiff := some s!"{at_}-parent-link-inconsistent(model-assumption)"
            else if dump != nodeStr t'.root then firstDiff := some s!"{at_}-tree-differs-from-model:impl={dump}-model={nodeStr t'.root}"
            else if r.size != t'.size || r.depth != t'.height then firstDiff := some s!"{at_}-size/depth-differ-from-model"
            else if r.delres != dr then firstDiff := some s!"{at_}-delete-result-differs-from-model"
            else
              for (q, a) in h.queries.zip r.answers do
                match t'.search q with
                | .ok ma => if ma != a && firstDiff.isNone then firstDiff := some s!"{at_}-search-order-differs-from-model"
                | .error f => if firstDiff.isNone then firstDiff := some s!"{at_}-model-search-faults-{faultStr f}"
        prevDump := dump
        prev := some r
        maxH := max maxH r.depth
  if let some d := firstDiff then return s!"DIFF {cls} {d}"
  return s!"OK {cls}-h{maxH}"

def judgeLine (line : String) : String :=
  let (lhs, rhs) := splitArrow (tokens line)
  match pHist lhs with
  | none => "BAD parse"
  | some h => judgeHist h (splitBars rhs)

end GeomV.C11

partial def GeomV.C11.readLines (h : IO.FS.Stream) (acc : Array String) : IO (Array String) := do
  let line ← h.getLine
  if line.isEmpty then return acc
  let l := (line.trimAscii).toString
  GeomV.C11.readLines h (if l ≠ "" then acc.push l else acc)

/-- `judgeLine` is a pure function of one history line, so the lines are judged in small chunks on Lean's task pool
(one verdict per line, printed in input order; `judge1` = the sequential loop) -/
def GeomV.C11.judgeAll (lines : Array String) (chunk : Nat := 4) : Array (Task (Array String)) :=
  (Array.range ((lines.size + chunk - 1) / chunk)).map fun c =>
    Task.spawn fun _ => (lines.extract (c * chunk) ((c + 1) * chunk)).map GeomV.C11.judgeLine

open GeomV GeomV.C11 in
def main (args : List String) : IO Unit := do
  let out ← IO.getStdout
  match args with
  | ["judge"] =>
    let lines ← readLines (← IO.getStdin) #[]
    for t in judgeAll lines do
      for v in t.get do out.putStrLn v
  | ["judge1"] => forEachLine fun l => out.putStrLn (judgeLine l)
  | _ => IO.eprintln "usage: geomv_c11 judge"
