import GeomV.C11.Model
/-
C11 — POINTER-LEVEL model of /repo/index/rtree/rtree.go: an explicit arena of nodes, `*node` = index into the
arena (`Option Ptr`, `none` = nil), `node.parent` a STORED field that is written exactly where the Go code writes
it and READ where the Go code follows it (adjustTree, getEntry, condenseTree, split's `parent: n.parent`).
Every Go statement that touches a node through a pointer is one arena read (`deref`, a nil pointer is the fault
`nilDeref`) or one arena write (`List.set`); `&node{…}` is `alloc` (append; the new pointer is the old length).
Recursion of the Go code = recursion on fuel (`HFault.fuel` when it runs out — never for fuel ≥ height+2, see
`Main`/`ProofsHeap`), loops over `n.entries` = structural recursion over the list, the `for len(remaining) > 0`
loop of split = recursion on fuel `len(remaining)`.  Heuristics through the same `Heur` record as `Model.lean`.

Hand-written, statement by statement, from the text in harness/cmd/c11/skeleton.expected (the control-skeleton
tie reports any edit of these functions by site).  Tied to the functional model by proofs (`ProofsHeap.lean`:
searchIntersect, findLeaf, split refine the functional model under the representation relation `Rep`) and by the
run (`Main`: the arena is run next to the functional model on every history and its erasure compared step by step,
parent fields audited on the arena).  Core Lean only.
-/
set_option linter.unusedVariables false
namespace GeomV.C11
namespace Heap
variable {O : Type}

abbrev Ptr := Nat

inductive HFault where
  | go (f : Fault)   -- a Go run-time panic
  | fuel             -- the recursion budget of the model ran out (not a Go behaviour)
deriving DecidableEq, Repr

/-- rtree.go `entry` -/
structure HEntry (O : Type) where
  bb : Box
  child : Option Ptr
  obj : Option O

/-- rtree.go `node` -/
structure HNode (O : Type) where
  parent : Option Ptr
  leaf : Bool
  level : Nat
  entries : List (HEntry O)

abbrev Arena (O : Type) := List (HNode O)

/-- rtree.go `Rtree` + the memory its nodes live in -/
structure HTree (O : Type) where
  minC : Nat
  maxC : Nat
  root : Ptr
  size : Nat
  height : Nat
  mem : Arena O

abbrev M (α : Type) := Except HFault α

def nilDeref {α : Type} : M α := throw (.go .nilDeref)

/-- `*p` -/
def deref (m : Arena O) (p : Ptr) : M (HNode O) :=
  match m[p]? with
  | some n => pure n
  | none => nilDeref

/-- `*p` for a possibly nil pointer -/
def derefO (m : Arena O) : Option Ptr → M (HNode O)
  | some p => deref m p
  | none => nilDeref

/-- `c.parent = p` -/
def setParent (m : Arena O) (c : Ptr) (p : Option Ptr) : M (Arena O) := do
  let cn ← deref m c
  pure (m.set c { cn with parent := p })

/-- `if e.child != nil { e.child.parent = p }` -/
def setChildParent (m : Arena O) (e : HEntry O) (p : Ptr) : M (Arena O) :=
  match e.child with
  | none => pure m
  | some c => setParent m c (some p)

/-- `&node{…}` -/
def alloc (m : Arena O) (n : HNode O) : Arena O × Ptr := (m ++ [n], m.length)

def bbs (es : List (HEntry O)) : List Box := es.map (·.bb)

/-- `(*node).computeBoundingBox` -/
def computeBB (m : Arena O) (n : Ptr) : M Box := do
  let nd ← deref m n
  pure (mbr (bbs nd.entries))

def newTree (minC maxC : Nat) : HTree O :=
  { minC := minC, maxC := maxC, root := 0, size := 0, height := 1,
    mem := [{ parent := none, leaf := true, level := 1, entries := [] }] }

/-! ### chooseNode -/

def chooseNode (H : Heur) (m : Arena O) : Nat → Ptr → Box → Nat → M Ptr
  | 0, _, _, _ => throw .fuel
  | f+1, n, ebb, lvl => do
    let nd ← deref m n
    if nd.leaf || nd.level == lvl then pure n
    else if nd.entries.isEmpty then nilDeref        -- `chosen` stays the zero entry: chosen.child == nil
    else
      let i := H.chooseEntry (bbs nd.entries) ebb
      match nd.entries[i]? with
      | none => throw (.go .choice)
      | some en =>
        match en.child with
        | none => nilDeref
        | some c => chooseNode H m f c ebb lvl

/-! ### split -/

/-- `assign(e, group)` -/
def assign (m : Arena O) (e : HEntry O) (g : Ptr) : M (Arena O) := do
  let m1 ← setChildParent m e g
  let gd ← deref m1 g
  pure (m1.set g { gd with entries := gd.entries ++ [e] })

/-- the `for len(remaining) > 0` loop of split -/
def distribute (H : Heur) (minC : Nat) (left right : Ptr) : Nat → List (HEntry O) → Arena O → M (Arena O)
  | 0, _, m => pure m
  | f+1, rem, m =>
    if rem.isEmpty then pure m
    else do
      let ld ← deref m left
      let rd ← deref m right
      let next := H.pickNext (bbs ld.entries) (bbs rd.entries) (bbs rem)
      match rem[next]? with
      | none => throw (.go .choice)
      | some e =>
        let m1 ←
          if rem.length + ld.entries.length ≤ minC then assign m e left
          else if rem.length + rd.entries.length ≤ minC then assign m e right
          else if H.assignLeft (bbs ld.entries) (bbs rd.entries) e.bb then assign m e left
          else assign m e right
        distribute H minC left right f (rem.eraseIdx next) m1

/-- `(*node).split`: returns the memory, `left` (= `n`, reused) and `right` (new) -/
def split (H : Heur) (minC : Nat) (m : Arena O) (n : Ptr) : M (Arena O × Ptr × Ptr) := do
  let nd ← deref m n
  let (l, r) := H.pickSeeds (bbs nd.entries)
  match nd.entries[l]?, nd.entries[r]? with
  | some ls, some rs =>
    if l < r then do
      let remaining := (nd.entries.eraseIdx r).eraseIdx l
      let m1 := m.set n { nd with entries := [ls] }
      let (m2, right) := alloc m1 { parent := nd.parent, leaf := nd.leaf, level := nd.level, entries := [rs] }
      let m3 ← setChildParent m2 rs right
      let m4 ← setChildParent m3 ls n
      let m5 ← distribute H minC n right remaining.length remaining m4
      pure (m5, n, right)
    else throw (.go .indexRange)
  | _, _ => throw (.go .indexRange)

/-! ### adjustTree, insert -/

/-- `n.getEntry()`: index of the first entry of `n.parent` whose child is `n` -/
def entryIdx (es : List (HEntry O)) (n : Ptr) : Option Nat := es.findIdx? (fun e => e.child == some n)

def setBB (es : List (HEntry O)) (k : Nat) (b : Box) : List (HEntry O) :=
  es.modify k (fun e => { e with bb := b })

def adjustTree (H : Heur) (minC maxC : Nat) (root : Ptr) :
    Nat → Arena O → Ptr → Option Ptr → M (Arena O × Ptr × Option Ptr)
  | 0, _, _, _ => throw .fuel
  | f+1, m, n, nn =>
    if n == root then pure (m, n, nn)
    else do
      let nd ← deref m n
      let pd ← derefO m nd.parent               -- getEntry: `n.parent.entries`
      let p := nd.parent.getD 0
      match entryIdx pd.entries n with
      | none => nilDeref                         -- `en` is nil: `en.bb = …`
      | some k =>
        let bb ← computeBB m n
        let m1 := m.set p { pd with entries := setBB pd.entries k bb }
        match nn with
        | none => adjustTree H minC maxC root f m1 p none
        | some q => do
          let bbq ← computeBB m1 q
          let pd1 ← deref m1 p
          let m2 := m1.set p { pd1 with entries := pd1.entries ++ [{ bb := bbq, child := some q, obj := none }] }
          if pd1.entries.length + 1 > maxC then do
            let (m3, l, r) ← split H minC m2 p
            adjustTree H minC maxC root f m3 l (some r)
          else adjustTree H minC maxC root f m2 p none

/-- `(*Rtree).insert(e, level)` -/
def insertEntry (H : Heur) (fuel : Nat) (t : HTree O) (e : HEntry O) (level : Nat) : M (HTree O) := do
  let leaf ← chooseNode H t.mem fuel t.root e.bb level
  let ln ← deref t.mem leaf
  let m1 := t.mem.set leaf { ln with entries := ln.entries ++ [e] }
  let m2 ← setChildParent m1 e leaf
  let (m3, leaf', sp) ←
    if ln.entries.length + 1 > t.maxC then do
      let (m, l, r) ← split H t.minC m2 leaf
      pure (m, l, some r)
    else pure (m2, leaf, none)
  let (m4, root, splitRoot) ← adjustTree H t.minC t.maxC t.root fuel m3 leaf' sp
  match splitRoot with
  | none => pure { t with mem := m4 }
  | some sr => do
    let h := t.height + 1
    let bo ← computeBB m4 root
    let bs ← computeBB m4 sr
    let es : List (HEntry O) := [{ bb := bo, child := some root, obj := none }, { bb := bs, child := some sr, obj := none }]
    let (m5, nr) := alloc m4 { parent := none, leaf := false, level := h, entries := es }
    let m6 ← setParent m5 root (some nr)
    let m7 ← setParent m6 sr (some nr)
    pure { t with height := h, root := nr, mem := m7 }

/-- `(*Rtree).Insert` -/
def HTree.insert [Bounded O] (H : Heur) (fuel : Nat) (t : HTree O) (o : O) : M (HTree O) := do
  let t' ← insertEntry H fuel t { bb := Bounded.bounds o, child := none, obj := some o } 1
  pure { t' with size := t'.size + 1 }

/-! ### findLeaf, condenseTree, Delete -/

def holdsObj [DecidableEq O] (o : O) (es : List (HEntry O)) : Bool := es.any (fun e => e.obj == some o)

/-- the `for _, e := range n.entries` loop of findLeaf; `rec` = the recursive call on a child -/
def findLeafLoop [DecidableEq O] (m : Arena O) (rec : Ptr → M (Option Ptr)) (ob : Box) (o : O) :
    List (HEntry O) → M (Option Ptr)
  | [] => pure none
  | e :: es =>
    if e.bb.containsRect ob then do
      let leaf ← match e.child with
        | none => nilDeref
        | some c => rec c
      match leaf with
      | none => findLeafLoop m rec ob o es
      | some lf => do
        let ld ← deref m lf
        if holdsObj o ld.entries then pure (some lf) else findLeafLoop m rec ob o es
    else findLeafLoop m rec ob o es

def findLeaf [DecidableEq O] [Bounded O] (m : Arena O) (o : O) : Nat → Ptr → M (Option Ptr)
  | 0, _ => throw .fuel
  | f+1, n => do
    let nd ← deref m n
    if nd.leaf then pure (some n)
    else findLeafLoop m (findLeaf m o f) (Bounded.bounds o) o nd.entries

/-- the index loop of Delete: the LAST entry whose object is `o` -/
def lastIdx [DecidableEq O] (o : O) : List (HEntry O) → Option Nat
  | [] => none
  | e :: es =>
    match lastIdx o es with
    | some i => some (i + 1)
    | none => if e.obj == some o then some 0 else none

/-- the upward loop of condenseTree: returns the memory and `deleted` -/
def condenseUp (minC : Nat) (root : Ptr) : Nat → Arena O → Ptr → List Ptr → M (Arena O × List Ptr)
  | 0, _, _, _ => throw .fuel
  | f+1, m, n, deleted =>
    if n == root then pure (m, deleted)
    else do
      let nd ← deref m n
      let pd ← derefO m nd.parent
      let p := nd.parent.getD 0
      if nd.entries.length < minC then
        let entries := pd.entries.filter (fun e => e.child != some n)
        -- `panic("Failed to remove entry from parent")` is outside the fault vocabulary of the functional model;
        -- it is reported as an index fault here (reached only with inconsistent parent links)
        if pd.entries.length == entries.length then throw (.go .indexRange)
        else
          let m1 := m.set p { pd with entries := entries }
          condenseUp minC root f m1 p (if nd.entries.length > 0 then deleted ++ [n] else deleted)
      else
        match entryIdx pd.entries n with
        | none => nilDeref
        | some k =>
          let m1 := m.set p { pd with entries := setBB pd.entries k (mbr (bbs nd.entries)) }
          condenseUp minC root f m1 p deleted

/-- the re-insertion loop of condenseTree -/
def reinsert (H : Heur) (fuel : Nat) : HTree O → List Ptr → M (HTree O)
  | t, [] => pure t
  | t, n :: ns => do
    let nd ← deref t.mem n
    let t' ← insertEntry H fuel t { bb := mbr (bbs nd.entries), child := some n, obj := none } (nd.level + 1)
    reinsert H fuel t' ns

/-- the root-collapse loop at the end of Delete -/
def collapse : Nat → HTree O → M (HTree O)
  | 0, _ => throw .fuel
  | f+1, t => do
    let rd ← deref t.mem t.root
    if !rd.leaf && rd.entries.length == 1 then
      match rd.entries with
      | [e] =>
        match e.child with
        | none => nilDeref                      -- `tree.root.parent = nil` on a nil root
        | some c => do
          let m1 ← setParent t.mem c none
          collapse f { t with root := c, mem := m1, height := t.height - 1 }
      | _ => pure t
    else pure t

/-- `(*Rtree).Delete` -/
def HTree.delete [DecidableEq O] [Bounded O] (H : Heur) (fuel : Nat) (t : HTree O) (o : O) : M (HTree O × Bool) := do
  match ← findLeaf t.mem o fuel t.root with
  | none => pure (t, false)
  | some n =>
    let nd ← deref t.mem n
    match lastIdx o nd.entries with
    | none => pure (t, false)
    | some ind =>
      let m1 := t.mem.set n { nd with entries := nd.entries.eraseIdx ind }
      let (m2, deleted) ← condenseUp t.minC t.root fuel m1 n []
      let t1 ← reinsert H fuel { t with mem := m2 } deleted
      let t2 ← collapse fuel { t1 with size := t1.size - 1 }
      pure (t2, true)

/-! ### search -/

/-- the loop of `searchIntersect`; `rec` = the recursive call on a child -/
def searchLoop (rec : Ptr → M (List O)) (leaf : Bool) (q : Box) : List (HEntry O) → M (List O)
  | [] => pure []
  | e :: es =>
    if e.bb.intersect q then do
      let here ←
        if leaf then
          match e.obj with
          | some o => pure [o]
          | none => throw (.go .nilObj)
        else
          match e.child with
          | some c => rec c
          | none => nilDeref
      let rest ← searchLoop rec leaf q es
      pure (here ++ rest)
    else searchLoop rec leaf q es

def search (m : Arena O) (q : Box) : Nat → Ptr → M (List O)
  | 0, _ => throw .fuel
  | f+1, n => do
    let nd ← deref m n
    searchLoop (search m q f) nd.leaf q nd.entries

/-! ### histories, erasure, audit -/

def HTree.step [DecidableEq O] [Bounded O] (H : Heur) (fuel : Nat) (t : HTree O) : Op O → M (HTree O × Option Bool)
  | .ins o => do let t' ← t.insert H fuel o; pure (t', none)
  | .del o => do let (t', r) ← t.delete H fuel o; pure (t', some r)

def runOps [DecidableEq O] [Bounded O] (H : Heur) (fuel : Nat) : HTree O → List (Op O) → M (HTree O)
  | t, [] => pure t
  | t, op :: ops => do let (t', _) ← t.step H fuel op; runOps H fuel t' ops

/-- entries of a node as functional entries; `rec` = erasure of a child -/
def eraseEntries (rec : Ptr → Option (Node O)) : List (HEntry O) → Option (List (Entry O))
  | [] => some []
  | e :: es =>
    match e.child, e.obj with
    | some c, none =>
      match rec c, eraseEntries rec es with
      | some cn, some r => some (Entry.child e.bb cn :: r)
      | _, _ => none
    | none, some o => (eraseEntries rec es).map (Entry.obj e.bb o :: ·)
    | _, _ => none

/-- the functional tree a pointer denotes (forgetting `parent`); `none` when a pointer dangles, an entry is
neither object nor child, or the fuel ran out (cyclic memory) -/
def erase (m : Arena O) : Nat → Ptr → Option (Node O)
  | 0, _ => none
  | f+1, p =>
    match m[p]? with
    | none => none
    | some nd => (eraseEntries (erase m f) nd.entries).map (Node.mk nd.leaf nd.level)

/-- the hook's audit, on the arena: every node reachable from `p` through child entries has its `parent` field
equal to the node that holds its entry (`holder`; nil for the root) -/
def audit (m : Arena O) : Nat → Option Ptr → Ptr → Bool
  | 0, _, _ => false
  | f+1, holder, p =>
    match m[p]? with
    | none => false
    | some nd => nd.parent == holder &&
        nd.entries.all fun e => match e.child with
          | none => true
          | some c => audit m f (some p) c

end Heap
end GeomV.C11
