import Mathlib.Tactic.Linarith
import Mathlib.Algebra.Order.Field.Rat
import Mathlib.Tactic.SplitIfs
import GeomV.C11.Spec
/-
Helper lemmas for C11: clean unfolding equations of the well-founded definitions, envelope
algebra, monadic list lemmas.
-/
set_option linter.unusedVariables false
set_option linter.unusedSimpArgs false
namespace GeomV.C11
variable {O : Type}

/-! ### unfolding -/

def Entry.objs : Entry O → List O
  | .obj _ o => [o]
  | .child _ c => c.objs

theorem Node.objs_mk (l : Bool) (v : Nat) (es : List (Entry O)) :
    (Node.mk l v es).objs = es.flatMap Entry.objs := by
  rw [Node.objs]; congr 1; funext e; cases e <;> rfl

/-- per-entry clause of `wfNode` at a node of height `h` -/
def wfEntry [Bounded O] (maxC h : Nat) : Entry O → Prop
  | .obj b o => h = 1 ∧ b = Bounded.bounds o
  | .child b c => 1 < h ∧ wfNode maxC (h - 1) c = true ∧ isEnvelope b (c.objs.map Bounded.bounds) = true

theorem wfNode_mk [Bounded O] (maxC h : Nat) (l : Bool) (v : Nat) (es : List (Entry O)) :
    wfNode maxC h (Node.mk l v es) = true ↔
      v = h ∧ (l = true ↔ h = 1) ∧ 1 ≤ h ∧ es.length ≤ maxC ∧ ∀ e ∈ es, wfEntry maxC h e := by
  rw [wfNode]
  simp only [Bool.and_eq_true, beq_iff_eq, decide_eq_true_eq, List.all_eq_true, List.mem_attach,
    forall_const, Subtype.forall]
  constructor
  · rintro ⟨⟨⟨⟨h1, h2⟩, h3⟩, h4⟩, h5⟩
    refine ⟨h1, ?_, h3, h4, ?_⟩
    · cases l <;> simp_all
    · intro e he
      have := h5 e he
      cases e <;> simpa [wfEntry, and_assoc] using this
  · rintro ⟨h1, h2, h3, h4, h5⟩
    refine ⟨⟨⟨⟨h1, ?_⟩, h3⟩, h4⟩, ?_⟩
    · cases l <;> simp_all
    · intro e he
      have := h5 e he
      cases e <;> simpa [wfEntry, and_assoc] using this

theorem searchNode_mk (q : Box) (l : Bool) (v : Nat) (es : List (Entry O)) :
    searchNode q (Node.mk l v es) =
      (es.mapM fun e =>
        if e.bb.intersect q then
          match e with
          | .obj _ o => if l then pure [o] else throw Fault.nilDeref
          | .child _ c => if l then throw Fault.nilObj else searchNode q c
        else pure []) >>= fun rs => pure rs.flatten := by
  rw [searchNode]; congr 2; funext e; cases e <;> rfl

/-- structural induction on nodes -/
theorem Node.induct {motive : Node O → Prop}
    (h : ∀ l v es, (∀ b c, Entry.child b c ∈ es → motive c) → motive (Node.mk l v es)) :
    ∀ n, motive n := by
  intro n
  induction n using Node.objs.induct with
  | case1 l v es ih => exact h l v es fun b c hm => ih _ hm b c rfl

/-! ### Except / mapM -/

theorem mapM_ok {α β : Type} (f : α → Except Fault β) (g : α → β) :
    ∀ (l : List α), (∀ a ∈ l, f a = .ok (g a)) → l.mapM f = .ok (l.map g)
  | [], _ => rfl
  | a :: l, h => by
    rw [List.mapM_cons, h a (List.mem_cons_self), mapM_ok f g l (fun x hx => h x (List.mem_cons_of_mem _ hx))]
    rfl

/-! ### envelopes -/

structure IsEnv (e : Box) (bs : List Box) : Prop where
  ne : bs ≠ []
  lo : ∀ b ∈ bs, e.minX ≤ b.minX ∧ e.minY ≤ b.minY ∧ b.maxX ≤ e.maxX ∧ b.maxY ≤ e.maxY
  tx : ∃ b ∈ bs, b.minX = e.minX
  ty : ∃ b ∈ bs, b.minY = e.minY
  tX : ∃ b ∈ bs, b.maxX = e.maxX
  tY : ∃ b ∈ bs, b.maxY = e.maxY

theorem isEnvelope_iff (e : Box) (bs : List Box) : isEnvelope e bs = true ↔ IsEnv e bs := by
  unfold isEnvelope
  simp only [Bool.and_eq_true, Bool.not_eq_true', List.isEmpty_eq_false_iff, List.all_eq_true,
    List.any_eq_true, decide_eq_true_eq, beq_iff_eq]
  constructor
  · rintro ⟨⟨⟨⟨⟨h1, h2⟩, h3⟩, h4⟩, h5⟩, h6⟩
    exact ⟨h1, fun b hb => by have := h2 b hb; tauto, h3, h4, h5, h6⟩
  · rintro ⟨h1, h2, h3, h4, h5, h6⟩
    exact ⟨⟨⟨⟨⟨h1, fun b hb => by have := h2 b hb; tauto⟩, h3⟩, h4⟩, h5⟩, h6⟩

theorem IsEnv.single (b : Box) : IsEnv b [b] :=
  ⟨by simp, by simp, ⟨b, by simp⟩, ⟨b, by simp⟩, ⟨b, by simp⟩, ⟨b, by simp⟩⟩

theorem IsEnv.perm {e : Box} {bs bs' : List Box} (hp : bs.Perm bs') (h : IsEnv e bs) : IsEnv e bs' := by
  obtain ⟨h1, h2, ⟨a, ha, ha'⟩, ⟨b, hb, hb'⟩, ⟨c, hc, hc'⟩, ⟨d, hd, hd'⟩⟩ := h
  refine ⟨?_, fun b hb => h2 b (hp.mem_iff.mpr hb), ⟨a, hp.mem_iff.mp ha, ha'⟩, ⟨b, hp.mem_iff.mp hb, hb'⟩,
    ⟨c, hp.mem_iff.mp hc, hc'⟩, ⟨d, hp.mem_iff.mp hd, hd'⟩⟩
  intro h; subst h; exact h1 (List.Perm.eq_nil hp)

theorem IsEnv.enlarge {a b : Box} {as bs : List Box} (ha : IsEnv a as) (hb : IsEnv b bs) :
    IsEnv (a.enlarge b) (as ++ bs) := by
  obtain ⟨a1, a2, ⟨ax, hax, ax'⟩, ⟨ay, hay, ay'⟩, ⟨aX, haX, aX'⟩, ⟨aY, haY, aY'⟩⟩ := ha
  obtain ⟨b1, b2, ⟨bx, hbx, bx'⟩, ⟨by_, hby, by'⟩, ⟨bX, hbX, bX'⟩, ⟨bY, hbY, bY'⟩⟩ := hb
  refine ⟨by simp [a1], ?_, ?_, ?_, ?_, ?_⟩
  · intro x hx
    rcases List.mem_append.mp hx with hx | hx
    · obtain ⟨h1, h2, h3, h4⟩ := a2 x hx
      unfold Box.enlarge; simp only
      refine ⟨?_, ?_, ?_, ?_⟩ <;> split_ifs <;> linarith
    · obtain ⟨h1, h2, h3, h4⟩ := b2 x hx
      unfold Box.enlarge; simp only
      refine ⟨?_, ?_, ?_, ?_⟩ <;> split_ifs <;> linarith
  · unfold Box.enlarge; simp only; split_ifs
    · exact ⟨bx, List.mem_append_right _ hbx, bx'⟩
    · exact ⟨ax, List.mem_append_left _ hax, ax'⟩
  · unfold Box.enlarge; simp only; split_ifs
    · exact ⟨by_, List.mem_append_right _ hby, by'⟩
    · exact ⟨ay, List.mem_append_left _ hay, ay'⟩
  · unfold Box.enlarge; simp only; split_ifs
    · exact ⟨bX, List.mem_append_right _ hbX, bX'⟩
    · exact ⟨aX, List.mem_append_left _ haX, aX'⟩
  · unfold Box.enlarge; simp only; split_ifs
    · exact ⟨bY, List.mem_append_right _ hbY, bY'⟩
    · exact ⟨aY, List.mem_append_left _ haY, aY'⟩

theorem IsEnv.foldl {α : Type} (bbf : α → Box) (bxs : α → List Box) :
    ∀ (l : List α) (acc : Box) (A : List Box), IsEnv acc A → (∀ a ∈ l, IsEnv (bbf a) (bxs a)) →
      IsEnv ((l.map bbf).foldl Box.enlarge acc) (A ++ l.flatMap bxs)
  | [], acc, A, h, _ => by simpa using h
  | a :: l, acc, A, h, hl => by
    have := IsEnv.foldl bbf bxs l (acc.enlarge (bbf a)) (A ++ bxs a)
      (h.enlarge (hl a List.mem_cons_self)) (fun x hx => hl x (List.mem_cons_of_mem _ hx))
    simpa [List.flatMap_cons, List.append_assoc] using this

theorem IsEnv.mbr {α : Type} (bbf : α → Box) (bxs : α → List Box) (l : List α) (hne : l ≠ [])
    (hl : ∀ a ∈ l, IsEnv (bbf a) (bxs a)) : IsEnv (mbr (l.map bbf)) (l.flatMap bxs) := by
  cases l with
  | nil => exact absurd rfl hne
  | cons a l =>
    have := IsEnv.foldl bbf bxs l (bbf a) (bxs a) (hl a List.mem_cons_self)
      (fun x hx => hl x (List.mem_cons_of_mem _ hx))
    simpa [GeomV.C11.mbr, List.flatMap_cons] using this

theorem wfEntry.env [Bounded O] {maxC h : Nat} {e : Entry O} (h : wfEntry maxC h e) :
    IsEnv e.bb (e.objs.map Bounded.bounds) := by
  cases e with
  | obj b o => obtain ⟨_, rfl⟩ := h; exact IsEnv.single _
  | child b c => exact (isEnvelope_iff _ _).mp h.2.2

theorem wfNode.bbox_env [Bounded O] {maxC h : Nat} {n : Node O} (hw : wfNode maxC h n = true)
    (hne : n.entries ≠ []) : IsEnv n.bbox (n.objs.map Bounded.bounds) := by
  obtain ⟨l, v, es⟩ := n
  rw [wfNode_mk] at hw
  obtain ⟨_, _, _, _, hes⟩ := hw
  have := IsEnv.mbr (fun e : Entry O => e.bb) (fun e => e.objs.map Bounded.bounds) es hne
    (fun e he => (hes e he).env)
  simpa [Node.bbox, Node.entries, Node.objs_mk, List.map_flatMap] using this

/-! ### search -/

theorem intersect_iff (r1 r2 : Box) : r1.intersect r2 = true ↔
    r1.minX ≤ r2.maxX ∧ r2.minX ≤ r1.maxX ∧ r1.minY ≤ r2.maxY ∧ r2.minY ≤ r1.maxY := by
  unfold Box.intersect
  simp only [Bool.or_eq_true, decide_eq_true_eq]
  split_ifs with c1 c2
  · simp only [Bool.false_eq_true, false_iff, not_and, not_le]
    intro a b; rcases c1 with c | c <;> linarith
  · simp only [Bool.false_eq_true, false_iff, not_and, not_le]
    intro a b c; rcases c2 with c' | c' <;> linarith
  · simp only [true_iff]
    simp only [not_or, not_lt] at c1 c2
    exact ⟨c1.1, c1.2, c2.1, c2.2⟩

theorem containsRect_iff (r1 r2 : Box) : r1.containsRect r2 = true ↔
    r1.minX ≤ r2.minX ∧ r2.maxX ≤ r1.maxX ∧ r1.minY ≤ r2.minY ∧ r2.maxY ≤ r1.maxY := by
  unfold Box.containsRect
  simp only [Bool.or_eq_true, decide_eq_true_eq]
  split_ifs with c1 c2
  · simp only [Bool.false_eq_true, false_iff, not_and, not_le]
    intro a b; rcases c1 with c | c <;> linarith
  · simp only [Bool.false_eq_true, false_iff, not_and, not_le]
    intro a b c; rcases c2 with c' | c' <;> linarith
  · simp only [true_iff]
    simp only [not_or, not_lt, gt_iff_lt] at c1 c2
    exact ⟨c1.1, c1.2, c2.1, c2.2⟩

theorem IsEnv.no_intersect {b q : Box} {bs : List Box} (h : IsEnv b bs) (hq : b.intersect q = false) :
    ∀ x ∈ bs, x.intersect q = false := by
  intro x hx
  obtain ⟨h1, h2, h3, h4⟩ := h.lo x hx
  cases hx' : x.intersect q with
  | false => rfl
  | true =>
    exfalso
    have := (intersect_iff x q).mp hx'
    have hb : b.intersect q = true := (intersect_iff b q).mpr
      ⟨by linarith, by linarith, by linarith, by linarith⟩
    rw [hq] at hb; cases hb

theorem IsEnv.containsRect {b : Box} {bs : List Box} (h : IsEnv b bs) :
    ∀ x ∈ bs, b.containsRect x = true := by
  intro x hx
  obtain ⟨h1, h2, h3, h4⟩ := h.lo x hx
  exact (containsRect_iff b x).mpr ⟨h1, h3, h2, h4⟩

theorem searchNode_spec [Bounded O] (q : Box) {maxC : Nat} : ∀ (n : Node O) {h : Nat},
    wfNode maxC h n = true →
    searchNode q n = .ok (n.objs.filter fun o => (Bounded.bounds o).intersect q) := by
  intro n
  induction n using Node.induct with
  | h l v es ih =>
    intro h hw
    rw [wfNode_mk] at hw
    obtain ⟨_, hl, _, _, hes⟩ := hw
    rw [searchNode_mk, Node.objs_mk]
    rw [mapM_ok _ (fun e => e.objs.filter fun o => (Bounded.bounds o).intersect q)]
    · simp [bind, Except.bind, pure, Except.pure, List.filter_flatMap, List.flatMap_def, Function.comp_def]
    · intro e he
      have hwe := hes e he
      cases e with
      | obj b o =>
        obtain ⟨h1, rfl⟩ := hwe
        have : l = true := hl.mpr h1
        subst this
        simp only [Entry.bb, Entry.objs, List.filter_cons, List.filter_nil]
        split_ifs <;> rfl
      | child b c =>
        obtain ⟨h1, hwc, henv⟩ := hwe
        have : l = false := by
          cases l with
          | false => rfl
          | true => have := hl.mp rfl; omega
        subst this
        simp only [Entry.bb, Entry.objs, Bool.false_eq_true, if_false]
        by_cases hi : b.intersect q = true
        · simpa [hi] using ih b c he hwc
        · simp only [hi, if_false]
          have := ((isEnvelope_iff _ _).mp henv).no_intersect (by simpa using hi)
          have hnil : (c.objs.filter fun o => (Bounded.bounds o).intersect q) = [] := by
            rw [List.filter_eq_nil_iff]
            intro o ho
            simpa using this _ (List.mem_map_of_mem ho)
          rw [hnil]; rfl

/-! ### choice functions and split -/

/-- the only thing the theorems need from the heuristics: indices in range -/
structure Heur.InRange (H : Heur) : Prop where
  choose : ∀ bs e, bs ≠ [] → H.chooseEntry bs e < bs.length
  seeds : ∀ bs, 2 ≤ bs.length → (H.pickSeeds bs).1 < (H.pickSeeds bs).2 ∧ (H.pickSeeds bs).2 < bs.length
  next : ∀ l r rem, rem ≠ [] → H.pickNext l r rem < rem.length

theorem perm_eraseIdx {α : Type} : ∀ (l : List α) (i : Nat) (h : i < l.length),
    l.Perm (l[i] :: l.eraseIdx i)
  | a :: l, 0, _ => by simp
  | a :: l, i+1, h => by
    have := perm_eraseIdx l i (by simpa using h)
    simp only [List.getElem_cons_succ, List.eraseIdx_cons_succ]
    exact (List.Perm.cons a this).trans (List.Perm.swap _ _ _)

theorem distribute_spec {H : Heur} (hH : H.InRange) (minC : Nat) :
    ∀ (n : Nat) (rem l r : List (Entry O)), rem.length = n →
      ∃ l' r', distribute H minC l r rem = .ok (l', r') ∧ (l' ++ r').Perm (l ++ r ++ rem) ∧
        l.length ≤ l'.length ∧ r.length ≤ r'.length := by
  intro n
  induction n with
  | zero =>
    intro rem l r hn
    have : rem = [] := List.length_eq_zero_iff.mp hn
    subst this
    rw [distribute]; simp [pure, Except.pure]
  | succ n ih =>
    intro rem l r hn
    have hne : rem ≠ [] := by intro h; subst h; simp at hn
    have hlt := hH.next (l.map Entry.bb) (r.map Entry.bb) (rem.map Entry.bb) (by simpa using hne)
    simp only [List.length_map] at hlt
    rw [distribute]
    simp only [hne, dite_false]
    have hget : rem[H.pickNext (l.map Entry.bb) (r.map Entry.bb) (rem.map Entry.bb)]? = some (rem[H.pickNext (l.map Entry.bb) (r.map Entry.bb) (rem.map Entry.bb)]) :=
      List.getElem?_eq_getElem hlt
    generalize hk : H.pickNext (l.map Entry.bb) (r.map Entry.bb) (rem.map Entry.bb) = k at hlt hget
    have hlen : (rem.eraseIdx k).length = n := by rw [List.length_eraseIdx]; simp [hlt]; omega
    have hp := perm_eraseIdx rem k hlt
    split
    · rename_i h; rw [hget] at h; cases h
    · rename_i e h
      rw [hget] at h; cases h
      have left : ∃ l' r', distribute H minC (l ++ [rem[k]]) r (rem.eraseIdx k) = .ok (l', r') ∧
          (l' ++ r').Perm (l ++ r ++ rem) ∧ l.length ≤ l'.length ∧ r.length ≤ r'.length := by
        obtain ⟨l', r', h1, h2, h3, h4⟩ := ih (rem.eraseIdx k) (l ++ [rem[k]]) r hlen
        refine ⟨l', r', h1, h2.trans ?_, by simp at h3; omega, h4⟩
        have : (l ++ r ++ rem).Perm (l ++ r ++ (rem[k] :: rem.eraseIdx k)) := List.Perm.append_left _ hp
        refine List.Perm.trans ?_ this.symm
        simp only [List.append_assoc, List.singleton_append]
        refine List.Perm.append_left _ ?_
        exact (List.perm_middle (a := rem[k]) (l₁ := r) (l₂ := rem.eraseIdx k)).symm
      have right : ∃ l' r', distribute H minC l (r ++ [rem[k]]) (rem.eraseIdx k) = .ok (l', r') ∧
          (l' ++ r').Perm (l ++ r ++ rem) ∧ l.length ≤ l'.length ∧ r.length ≤ r'.length := by
        obtain ⟨l', r', h1, h2, h3, h4⟩ := ih (rem.eraseIdx k) l (r ++ [rem[k]]) hlen
        refine ⟨l', r', h1, h2.trans ?_, h3, by simp at h4; omega⟩
        have : (l ++ r ++ rem).Perm (l ++ r ++ (rem[k] :: rem.eraseIdx k)) := List.Perm.append_left _ hp
        refine List.Perm.trans ?_ this.symm
        simp [List.append_assoc]
      split_ifs
      · exact left
      · exact right
      · exact left
      · exact right

/-- `split_partition`: for any in-range choice functions the two groups are a partition of the
overfull entry list (as multisets) and both are non-empty. -/
theorem splitEntries_spec {H : Heur} (hH : H.InRange) (minC : Nat) (es : List (Entry O))
    (h2 : 2 ≤ es.length) :
    ∃ l r, splitEntries H minC es = .ok (l, r) ∧ (l ++ r).Perm es ∧ l ≠ [] ∧ r ≠ [] := by
  have hs := hH.seeds (es.map Entry.bb) (by simpa using h2)
  simp only [List.length_map] at hs
  unfold splitEntries
  generalize H.pickSeeds (es.map Entry.bb) = p at hs
  obtain ⟨i, j⟩ := p
  simp only at hs ⊢
  obtain ⟨hij, hj⟩ := hs
  have hi : i < es.length := by omega
  rw [List.getElem?_eq_getElem hi, List.getElem?_eq_getElem hj]
  simp only [hij, if_true]
  obtain ⟨l', r', h1, h2', h3, h4⟩ := distribute_spec hH minC _ ((es.eraseIdx j).eraseIdx i) [es[i]] [es[j]] rfl
  refine ⟨l', r', h1, h2'.trans ?_, ?_, ?_⟩
  · have hp1 := perm_eraseIdx es j hj
    have hi' : i < (es.eraseIdx j).length := by rw [List.length_eraseIdx]; simp [hj]; omega
    have hp2 := perm_eraseIdx (es.eraseIdx j) i hi'
    have hget : (es.eraseIdx j)[i] = es[i] := by
      rw [List.getElem_eraseIdx]; simp [hij]
    rw [hget] at hp2
    refine List.Perm.trans ?_ hp1.symm
    simp only [List.singleton_append, List.cons_append, List.nil_append]
    exact (List.Perm.swap _ _ _).trans (List.Perm.cons _ hp2.symm)
  · intro h; subst h; simp at h3
  · intro h; subst h; simp at h4

theorem finish_spec {H : Heur} (hH : H.InRange) (minC maxC : Nat) (hM : 1 ≤ maxC) (leaf : Bool)
    (level : Nat) (es : List (Entry O)) (hlen : es.length ≤ maxC + 1) (hne : es ≠ []) :
    ∃ n' s, finish H minC maxC leaf level es = .ok (n', s) ∧
      n'.leaf = leaf ∧ n'.level = level ∧ n'.entries ≠ [] ∧ n'.entries.length ≤ maxC ∧
      (∀ nn, s = some nn → nn.leaf = leaf ∧ nn.level = level ∧ nn.entries ≠ [] ∧ nn.entries.length ≤ maxC) ∧
      (n'.entries ++ (match s with | some nn => nn.entries | none => [])).Perm es ∧
      (s = none → n'.entries = es) := by
  unfold finish
  split_ifs with h
  · obtain ⟨l, r, h1, h2, h3, h4⟩ := splitEntries_spec hH minC es (by omega)
    have hl := h2.length_eq
    simp only [List.length_append] at hl
    have hl1 : 0 < l.length := List.length_pos_iff.mpr h3
    have hr1 : 0 < r.length := List.length_pos_iff.mpr h4
    refine ⟨.mk leaf level l, some (.mk leaf level r), ?_, rfl, rfl, h3, by simp [Node.entries]; omega, ?_, h2, by simp⟩
    · rw [h1]; rfl
    · intro nn hnn; cases hnn
      exact ⟨rfl, rfl, h4, by simp [Node.entries]; omega⟩
  · exact ⟨.mk leaf level es, none, rfl, rfl, rfl, hne, by simp [Node.entries]; omega, by simp, by simp [Node.entries], fun _ => rfl⟩

/-! ### insert -/

theorem insertAt_mk (H : Heur) (minC maxC lvl : Nat) (e : Entry O) (leaf : Bool) (level : Nat)
    (es : List (Entry O)) :
    insertAt H minC maxC lvl e (.mk leaf level es) =
      (if leaf || level == lvl then finish H minC maxC leaf level (es ++ [e])
      else if es.isEmpty then throw .nilDeref
      else match es[H.chooseEntry (es.map Entry.bb) e.bb]? with
        | none => throw .choice
        | some (.obj _ _) => throw .nilDeref
        | some (.child _ c) => do
          let (c', s) ← insertAt H minC maxC lvl e c
          let es1 := es.set (H.chooseEntry (es.map Entry.bb) e.bb) (.child c'.bbox c')
          match s with
          | none => pure (.mk leaf level es1, none)
          | some nn => finish H minC maxC leaf level (es1 ++ [.child nn.bbox nn])) := by
  rw [insertAt]
  split_ifs <;> try rfl
  split <;> (dsimp only; split) <;> simp_all <;> rfl

theorem set_perm {α : Type} (l : List α) (i : Nat) (x : α) (h : i < l.length) :
    (l.set i x).Perm (x :: l.eraseIdx i) := by
  have h' : i < (l.set i x).length := by simpa using h
  have := perm_eraseIdx (l.set i x) i h'
  simpa [List.eraseIdx_set_eq] using this

theorem optObjs_eq (s : Option (Node O)) :
    (match s with | some nn => nn.objs | none => []) = (match s with | some nn => nn.entries | none => []).flatMap Entry.objs := by
  cases s with
  | none => rfl
  | some nn => obtain ⟨l, v, es⟩ := nn; simp [Node.objs_mk, Node.entries]

theorem insertAt_spec [Bounded O] {H : Heur} (hH : H.InRange) (minC maxC : Nat) (hM : 1 ≤ maxC)
    (lvl : Nat) (e : Entry O) (hl1 : 1 ≤ lvl) (he : wfEntry maxC lvl e) :
    ∀ (n : Node O) (h : Nat), wfNode maxC h n = true → lvl ≤ h → (lvl < h → n.entries ≠ []) →
      ∃ n' s, insertAt H minC maxC lvl e n = .ok (n', s) ∧ wfNode maxC h n' = true ∧ n'.entries ≠ [] ∧
        (∀ nn, s = some nn → wfNode maxC h nn = true ∧ nn.entries ≠ []) ∧
        (n'.objs ++ (match s with | some nn => nn.objs | none => [])).Perm (n.objs ++ e.objs) ∧
        (s = none → n.entries.length ≤ n'.entries.length) := by
  intro n
  induction n using Node.induct with
  | h l v es ih =>
    intro h hw hlh hne
    have hw' := (wfNode_mk ..).mp hw
    obtain ⟨hv, hl, h1, hlen, hes⟩ := hw'
    subst hv
    rw [insertAt_mk]
    by_cases hstop : (l || v == lvl) = true
    · -- the node where the entry is appended
      simp only [hstop, if_true]
      have hvl : v = lvl := by
        rcases Bool.or_eq_true _ _ |>.mp hstop with h | h
        · have := hl.mp h; omega
        · simpa using h
      subst hvl
      obtain ⟨n', s, h1', h2, h3, h4, h5, h6, h7, h8⟩ := finish_spec hH minC maxC hM l v (es ++ [e])
        (by simp; omega) (by simp)
      have hall : ∀ x ∈ es ++ [e], wfEntry maxC v x := by
        intro x hx; rcases List.mem_append.mp hx with hx | hx
        · exact hes x hx
        · simp at hx; subst hx; exact he
      refine ⟨n', s, h1', ?_, h4, ?_, ?_, ?_⟩
      rotate_left 3
      · intro hs; rw [h8 hs]; simp [Node.entries]
      · obtain ⟨l', v', es'⟩ := n'
        simp only [Node.leaf, Node.level, Node.entries] at h2 h3 h4 h5 h7
        subst h2 h3
        rw [wfNode_mk]
        exact ⟨rfl, hl, h1, h5, fun x hx => hall x (h7.mem_iff.mp (List.mem_append_left _ hx))⟩
      · intro nn hnn
        obtain ⟨a, b, c, d⟩ := h6 nn hnn
        subst hnn
        obtain ⟨l', v', es'⟩ := nn
        simp only [Node.leaf, Node.level, Node.entries] at a b c d h7
        subst a b
        refine ⟨?_, c⟩
        rw [wfNode_mk]
        exact ⟨rfl, hl, h1, d, fun x hx => hall x (h7.mem_iff.mp (List.mem_append_right _ hx))⟩
      · rw [optObjs_eq]
        obtain ⟨l', v', es'⟩ := n'
        simp only [Node.objs_mk, Node.entries] at h7 ⊢
        rw [← List.flatMap_append]
        have := h7.flatMap_right Entry.objs
        simpa using this
    · -- descend
      simp only [hstop, if_false, Bool.false_eq_true]
      have hstop' : l = false ∧ ¬ v = lvl := by simpa using hstop
      have hlf : l = false := hstop'.1
      have hvl : v ≠ lvl := hstop'.2
      have hlt : lvl < v := by omega
      have hne' : es ≠ [] := by simpa [Node.entries] using hne hlt
      have hemp : es.isEmpty = false := by simpa using hne'
      simp only [hemp, if_false, Bool.false_eq_true]
      have hi := hH.choose (es.map Entry.bb) e.bb (by simpa using hne')
      simp only [List.length_map] at hi
      generalize H.chooseEntry (es.map Entry.bb) e.bb = i at hi
      rw [List.getElem?_eq_getElem hi]
      have hmem : es[i] ∈ es := List.getElem_mem hi
      have hwe := hes _ hmem
      cases hei : es[i] with
      | obj b o => rw [hei] at hwe; obtain ⟨h1', _⟩ := hwe; omega
      | child b c =>
        rw [hei] at hwe hmem
        obtain ⟨_, hwc, henv⟩ := hwe
        have hcne : c.entries ≠ [] := by
          have := ((isEnvelope_iff _ _).mp henv).ne
          obtain ⟨l', v', es'⟩ := c
          intro h; simp only [Node.entries] at h; subst h
          simp [Node.objs_mk] at this
        obtain ⟨c', s, hc1, hc2, hc3, hc4, hc5, _⟩ := ih b c hmem (v - 1) hwc (by omega) (fun _ => hcne)
        simp only [hc1, bind, Except.bind]
        have hnew : wfEntry maxC v (Entry.child c'.bbox c') :=
          ⟨by omega, hc2, (isEnvelope_iff _ _).mpr (wfNode.bbox_env hc2 hc3)⟩
        have hes1 : ∀ x ∈ es.set i (Entry.child c'.bbox c'), wfEntry maxC v x := by
          intro x hx
          rcases List.mem_or_eq_of_mem_set hx with hx | hx
          · exact hes x hx
          · subst hx; exact hnew
        have hperm0 : (es.flatMap Entry.objs).Perm (c.objs ++ (es.eraseIdx i).flatMap Entry.objs) := by
          have := (perm_eraseIdx es i hi).flatMap_right Entry.objs
          simpa [hei, Entry.objs] using this
        have hperm1 : ((es.set i (Entry.child c'.bbox c')).flatMap Entry.objs).Perm
            (c'.objs ++ (es.eraseIdx i).flatMap Entry.objs) := by
          have := (set_perm es i (Entry.child c'.bbox c') hi).flatMap_right Entry.objs
          simpa [Entry.objs] using this
        cases s with
        | none =>
          simp only
          refine ⟨_, none, rfl, ?_, by simp [Node.entries, hne'], by simp, ?_, by simp [Node.entries]⟩
          · rw [wfNode_mk]; exact ⟨rfl, hl, h1, by simpa using hlen, hes1⟩
          · simp only [Node.objs_mk, List.append_nil] at hc5 ⊢
            refine hperm1.trans ?_
            refine List.Perm.trans ?_ (List.Perm.append_right _ hperm0.symm)
            have := List.Perm.append_right ((es.eraseIdx i).flatMap Entry.objs) hc5
            refine this.trans ?_
            simp only [List.append_assoc]
            exact List.Perm.append_left _ List.perm_append_comm
        | some nn =>
          simp only
          obtain ⟨hn1, hn2⟩ := hc4 nn rfl
          have hnn : wfEntry maxC v (Entry.child nn.bbox nn) :=
            ⟨by omega, hn1, (isEnvelope_iff _ _).mpr (wfNode.bbox_env hn1 hn2)⟩
          obtain ⟨n', s', h1', h2, h3, h4, h5, h6, h7, h8⟩ := finish_spec hH minC maxC hM l v
            (es.set i (Entry.child c'.bbox c') ++ [Entry.child nn.bbox nn]) (by simp; omega) (by simp)
          have hall : ∀ x ∈ es.set i (Entry.child c'.bbox c') ++ [Entry.child nn.bbox nn], wfEntry maxC v x := by
            intro x hx; rcases List.mem_append.mp hx with hx | hx
            · exact hes1 x hx
            · simp at hx; subst hx; exact hnn
          refine ⟨n', s', h1', ?_, h4, ?_, ?_, ?_⟩
          rotate_left 3
          · intro hs; rw [h8 hs]; simp [Node.entries]
          · obtain ⟨l', v', es'⟩ := n'
            simp only [Node.leaf, Node.level, Node.entries] at h2 h3 h4 h5 h7
            subst h2 h3
            rw [wfNode_mk]
            exact ⟨rfl, hl, h1, h5, fun x hx => hall x (h7.mem_iff.mp (List.mem_append_left _ hx))⟩
          · intro n2 hn2'
            obtain ⟨a, b', c'', d⟩ := h6 n2 hn2'
            subst hn2'
            obtain ⟨l', v', es'⟩ := n2
            simp only [Node.leaf, Node.level, Node.entries] at a b' c'' d h7
            subst a b'
            refine ⟨?_, c''⟩
            rw [wfNode_mk]
            exact ⟨rfl, hl, h1, d, fun x hx => hall x (h7.mem_iff.mp (List.mem_append_right _ hx))⟩
          · rw [optObjs_eq]
            obtain ⟨l', v', es'⟩ := n'
            simp only [Node.objs_mk, Node.entries] at h7 hc5 ⊢
            rw [← List.flatMap_append]
            have h7' := h7.flatMap_right Entry.objs
            refine h7'.trans ?_
            simp only [List.flatMap_append, List.flatMap_cons, List.flatMap_nil, List.append_nil, Entry.objs]
            refine (List.Perm.append_right _ hperm1).trans ?_
            refine List.Perm.trans ?_ (List.Perm.append_right _ hperm0.symm)
            -- c'.objs ++ rest ++ nn.objs ~ c.objs ++ rest ++ e.objs
            have e1 : (c'.objs ++ (es.eraseIdx i).flatMap Entry.objs ++ nn.objs).Perm
                ((c'.objs ++ nn.objs) ++ (es.eraseIdx i).flatMap Entry.objs) := by
              simp only [List.append_assoc]
              exact List.Perm.append_left _ List.perm_append_comm
            have e2 : ((c.objs ++ e.objs) ++ (es.eraseIdx i).flatMap Entry.objs).Perm
                (c.objs ++ (es.eraseIdx i).flatMap Entry.objs ++ e.objs) := by
              simp only [List.append_assoc]
              exact List.Perm.append_left _ List.perm_append_comm
            exact e1.trans ((List.Perm.append_right _ hc5).trans e2)

end GeomV.C11
