import GeomV.C11.LemmasTree
import GeomV.C11.ProofsHeap
/-
C11 — phase 4: `chooseNode` of the pointer-level model refines the functional model.

The functional model fuses chooseNode (down), the append and adjustTree (up) into ONE recursion `insertAt`.  Here the descent is
separated out (`chooseNodeF`: the NODE the code appends to), tied to `insertAt` (the descent's faults are `insertAt`'s faults; below
the returned node `insertAt` is `finish` = append-and-maybe-split; a fault there is a fault of the whole `insertAt`), and the
pointer-level `chooseNode` (stored child pointers, nil dereference, fuel) is proved to return a pointer to memory that represents
exactly that node, or the same fault.
-/
set_option linter.unusedVariables false
set_option linter.unusedSimpArgs false
namespace GeomV.C11
namespace Heap
variable {O : Type}

/-- rtree.go `chooseNode` on the functional tree: the node found (the pointer code returns the pointer to it) -/
def chooseNodeF (H : Heur) (lvl : Nat) (ebb : Box) : Node O → Except Fault (Node O)
  | .mk leaf level es =>
    if leaf || level == lvl then pure (.mk leaf level es)
    else if es.isEmpty then throw .nilDeref
    else
      match h : es[H.chooseEntry (es.map Entry.bb) ebb]? with
      | none => throw .choice
      | some (.obj _ _) => throw .nilDeref
      | some (.child _ c) => chooseNodeF H lvl ebb c
termination_by n => sizeOf n
decreasing_by have := Entry.sizeOf_child_lt_get h; simp_wf; omega

theorem chooseNodeF_mk (H : Heur) (lvl : Nat) (ebb : Box) (leaf : Bool) (level : Nat) (es : List (Entry O)) :
    chooseNodeF H lvl ebb (.mk leaf level es) =
      (if leaf || level == lvl then pure (.mk leaf level es)
       else if es.isEmpty then throw .nilDeref
       else match es[H.chooseEntry (es.map Entry.bb) ebb]? with
         | none => throw .choice
         | some (.obj _ _) => throw .nilDeref
         | some (.child _ c) => chooseNodeF H lvl ebb c) := by
  rw [chooseNodeF]
  split_ifs <;> try rfl
  split <;> split <;> simp_all

/-- the node `chooseNodeF` returns is one `chooseNode` stops at: a leaf or a node of the requested level -/
theorem chooseNodeF_target (H : Heur) (lvl : Nat) (ebb : Box) :
    ∀ (n tgt : Node O), chooseNodeF H lvl ebb n = .ok tgt → (tgt.leaf || tgt.level == lvl) = true := by
  intro n
  induction n using chooseNodeF.induct H lvl ebb with
  | case1 leaf level es hc =>
    intro tgt h
    rw [chooseNodeF_mk] at h; simp only [hc, if_true, pure, Except.pure, Except.ok.injEq] at h
    subst h; exact hc
  | case2 leaf level es hc he =>
    intro tgt h
    rw [chooseNodeF_mk] at h; simp [hc, he, throw, throwThe, MonadExceptOf.throw] at h
  | case3 leaf level es hc he hn =>
    intro tgt h
    rw [chooseNodeF_mk] at h; simp [hc, he, hn, throw, throwThe, MonadExceptOf.throw] at h
  | case4 leaf level es hc he b o hn =>
    intro tgt h
    rw [chooseNodeF_mk] at h; simp [hc, he, hn, throw, throwThe, MonadExceptOf.throw] at h
  | case5 leaf level es hc he b c hn ih =>
    intro tgt h
    rw [chooseNodeF_mk] at h; simp only [hc, he, hn, if_false, Bool.false_eq_true] at h
    exact ih tgt h

/-- **C11_insertAt_chooseNode** — the fused `insertAt` of the functional model against the separate descent `chooseNodeF`:
(1) a fault of the descent (empty non-leaf node, choice out of range, object entry where a child is needed) is the fault of `insertAt`;
(2) at the node the descent returns `insertAt` is exactly `finish` (append + split when over `Max`) — this is where the entry goes;
(3) a fault of that `finish` (split panics) is the fault of the whole `insertAt`. -/
theorem C11_insertAt_chooseNode (H : Heur) (minC maxC lvl : Nat) (e : Entry O) :
    ∀ (n : Node O),
      (∀ x, chooseNodeF H lvl e.bb n = .error x → insertAt H minC maxC lvl e n = .error x) ∧
      (∀ tgt, chooseNodeF H lvl e.bb n = .ok tgt →
        insertAt H minC maxC lvl e tgt = finish H minC maxC tgt.leaf tgt.level (tgt.entries ++ [e]) ∧
        ∀ x, insertAt H minC maxC lvl e tgt = .error x → insertAt H minC maxC lvl e n = .error x) := by
  intro n
  induction n using chooseNodeF.induct H lvl e.bb with
  | case1 leaf level es hc =>
    refine ⟨?_, ?_⟩
    · intro x h; rw [chooseNodeF_mk] at h; simp [hc, pure, Except.pure] at h
    · intro tgt h
      rw [chooseNodeF_mk] at h; simp only [hc, if_true, pure, Except.pure, Except.ok.injEq] at h
      subst h
      refine ⟨?_, fun x hx => hx⟩
      rw [insertAt_mk]; simp only [hc, if_true, Node.leaf, Node.level, Node.entries]
  | case2 leaf level es hc he =>
    refine ⟨?_, ?_⟩
    · intro x h
      rw [chooseNodeF_mk] at h; rw [insertAt_mk]
      simp only [hc, he, if_false, if_true, Bool.false_eq_true, throw, throwThe, MonadExceptOf.throw, Except.error.injEq] at h ⊢
      exact h
    · intro tgt h; rw [chooseNodeF_mk] at h; simp [hc, he, throw, throwThe, MonadExceptOf.throw] at h
  | case3 leaf level es hc he hn =>
    refine ⟨?_, ?_⟩
    · intro x h
      rw [chooseNodeF_mk] at h; rw [insertAt_mk]
      simp only [hc, he, hn, if_false, if_true, Bool.false_eq_true, throw, throwThe, MonadExceptOf.throw, Except.error.injEq] at h ⊢
      exact h
    · intro tgt h; rw [chooseNodeF_mk] at h; simp [hc, he, hn, throw, throwThe, MonadExceptOf.throw] at h
  | case4 leaf level es hc he b o hn =>
    refine ⟨?_, ?_⟩
    · intro x h
      rw [chooseNodeF_mk] at h; rw [insertAt_mk]
      simp only [hc, he, hn, if_false, if_true, Bool.false_eq_true, throw, throwThe, MonadExceptOf.throw, Except.error.injEq] at h ⊢
      exact h
    · intro tgt h; rw [chooseNodeF_mk] at h; simp [hc, he, hn, throw, throwThe, MonadExceptOf.throw] at h
  | case5 leaf level es hc he b c hn ih =>
    obtain ⟨ih1, ih2⟩ := ih
    refine ⟨?_, ?_⟩
    · intro x h
      rw [chooseNodeF_mk] at h; simp only [hc, he, hn, if_false, Bool.false_eq_true] at h
      rw [insertAt_mk]; simp only [hc, he, hn, if_false, Bool.false_eq_true]
      rw [ih1 x h]; rfl
    · intro tgt h
      rw [chooseNodeF_mk] at h; simp only [hc, he, hn, if_false, Bool.false_eq_true] at h
      obtain ⟨a, b'⟩ := ih2 tgt h
      refine ⟨a, ?_⟩
      intro x hx
      rw [insertAt_mk]; simp only [hc, he, hn, if_false, Bool.false_eq_true]
      rw [b' x hx]; rfl

/-- a pointer-level chooseNode result against the functional one: same fault, or a pointer whose memory represents the node -/
def ChooseRel (m : Arena O) (x : M Ptr) (y : Except Fault (Node O)) : Prop :=
  match y with
  | .error e => x = .error (.go e)
  | .ok tgt => ∃ q f', x = .ok q ∧ erase m f' q = some tgt

theorem eraseEntries_length (recE : Ptr → Option (Node O)) : ∀ (es : List (HEntry O)) (es' : List (Entry O)),
    eraseEntries recE es = some es' → es'.length = es.length ∧ es'.map Entry.bb = bbs es := by
  intro es
  induction es with
  | nil => intro es' h; simp [eraseEntries] at h; subst h; exact ⟨rfl, rfl⟩
  | cons e es ih =>
    intro es' h
    rw [eraseEntries] at h
    rcases hc : e.child with _ | c <;> rcases ho : e.obj with _ | o' <;> simp only [hc, ho] at h
    · cases h
    · cases hr : eraseEntries recE es with
      | none => simp [hr] at h
      | some r =>
        simp [hr] at h; subst h
        obtain ⟨a, b⟩ := ih r hr
        exact ⟨by simp [a], by simp [bbs, Entry.bb] at b ⊢; exact b⟩
    · cases hrc : recE c with
      | none => simp [hrc] at h
      | some cn =>
        cases hr : eraseEntries recE es with
        | none => simp [hrc, hr] at h
        | some r =>
          simp [hrc, hr] at h; subst h
          obtain ⟨a, b⟩ := ih r hr
          exact ⟨by simp [a], by simp [bbs, Entry.bb] at b ⊢; exact b⟩
    · cases h

/-- entry `i` of an erased entry list is the erasure of entry `i` -/
theorem eraseEntries_get (recE : Ptr → Option (Node O)) : ∀ (es : List (HEntry O)) (es' : List (Entry O)) (i : Nat),
    eraseEntries recE es = some es' →
      match es[i]?, es'[i]? with
      | none, none => True
      | some he, some (.obj b o) => he.child = none ∧ he.obj = some o ∧ he.bb = b
      | some he, some (.child b cn) => ∃ c, he.child = some c ∧ recE c = some cn ∧ he.bb = b
      | _, _ => False := by
  intro es
  induction es with
  | nil => intro es' i h; simp [eraseEntries] at h; subst h; simp
  | cons e es ih =>
    intro es' i h
    rw [eraseEntries] at h
    rcases hc : e.child with _ | c <;> rcases ho : e.obj with _ | o' <;> simp only [hc, ho] at h
    · cases h
    · cases hr : eraseEntries recE es with
      | none => simp [hr] at h
      | some r =>
        simp [hr] at h; subst h
        cases i with
        | zero => simp [hc, ho]
        | succ j => simpa using ih r j hr
    · cases hrc : recE c with
      | none => simp [hrc] at h
      | some cn =>
        cases hr : eraseEntries recE es with
        | none => simp [hrc, hr] at h
        | some r =>
          simp [hrc, hr] at h; subst h
          cases i with
          | zero => simp [hc, hrc]
          | succ j => simpa using ih r j hr
    · cases h

/-- **C11_heap_chooseNode_refines** — `chooseNode` on the pointer structure (stored child pointers, nil dereferences as faults,
recursion on fuel) returns a pointer to memory that represents exactly the node the functional descent `chooseNodeF` returns, and
faults exactly when it faults, with the same Go panic; the fuel of the representation suffices.  With `C11_insertAt_chooseNode`
this node is where the functional `insertAt` appends the entry. -/
theorem C11_heap_chooseNode_refines (H : Heur) (m : Arena O) (ebb : Box) (lvl : Nat) :
    ∀ (f : Nat) (p : Ptr) (n : Node O), erase m f p = some n →
      ChooseRel m (chooseNode H m f p ebb lvl) (chooseNodeF H lvl ebb n) := by
  intro f
  induction f with
  | zero => intro p n h; simp [erase] at h
  | succ f ih =>
    intro p n h
    obtain ⟨k, nd, es', hk, hm, hee, hn⟩ := erase_some h
    cases hk
    subst hn
    obtain ⟨hlen, hbbs⟩ := eraseEntries_length _ _ _ hee
    rw [chooseNode, chooseNodeF_mk]
    simp only [deref, hm, bind, Except.bind, pure, Except.pure]
    by_cases hc : (nd.leaf || nd.level == lvl) = true
    · simp only [hc, if_true, ChooseRel]
      exact ⟨p, _, rfl, h⟩
    · simp only [hc, if_false, Bool.false_eq_true]
      have hemp : es'.isEmpty = nd.entries.isEmpty := by
        cases es' <;> cases hh : nd.entries <;> simp [hh] at hlen ⊢
      rw [hemp]
      by_cases he : nd.entries.isEmpty = true
      · simp [he, ChooseRel, nilDeref, throw, throwThe, MonadExceptOf.throw]
      · simp only [he, if_false, Bool.false_eq_true, hbbs]
        have hg := eraseEntries_get _ nd.entries es' (H.chooseEntry (bbs nd.entries) ebb) hee
        cases h1 : nd.entries[H.chooseEntry (bbs nd.entries) ebb]? with
        | none =>
          cases h2 : es'[H.chooseEntry (bbs nd.entries) ebb]? with
          | none => simp [ChooseRel, throw, throwThe, MonadExceptOf.throw]
          | some e2 => rw [h1, h2] at hg; cases e2 <;> simp at hg
        | some he1 =>
          cases h2 : es'[H.chooseEntry (bbs nd.entries) ebb]? with
          | none => rw [h1, h2] at hg; simp at hg
          | some e2 =>
            rw [h1, h2] at hg
            cases e2 with
            | obj b o =>
              simp only at hg
              simp [hg.1, ChooseRel, nilDeref, throw, throwThe, MonadExceptOf.throw]
            | child b cn =>
              simp only at hg
              obtain ⟨c, hcc, hrc, _⟩ := hg
              simp only [hcc]
              exact ih c cn hrc

/-- non-vacuity: on a concrete two-level memory the descent for a level-1 insertion returns the leaf (pointer 1) -/
example :
    let m : Arena Nat :=
      [{ parent := none, leaf := false, level := 2, entries := [⟨⟨0, 0, 1, 1⟩, some 1, none⟩] },
       { parent := some 0, leaf := true, level := 1, entries := [⟨⟨0, 0, 1, 1⟩, none, some 7⟩] }]
    chooseNode ⟨fun _ _ => 0, fun _ => (0, 1), fun _ _ _ => 0, fun _ _ _ => true⟩ m 2 0 ⟨0, 0, 0, 0⟩ 1 = .ok 1 ∧
      ∃ n, erase m 2 0 = some n := ⟨rfl, _, rfl⟩

end Heap
end GeomV.C11
