import GeomV.C11.ProofsHeapAdjust
/-
C11 — phase 4: `condenseTree`'s upward loop along the STORED parent links, by proof, for trees of ANY height, when no node on the
path underflows: the pointer-level `Delete` (findLeaf, index loop, entry removal, condenseTree rewriting one entry box per level through
`getEntry`, no orphans, root collapse) refines the functional `Delete`, under an explicit decidable hypothesis on the path from the
root to the leaf found (`OnPath`: parent fields / getEntry / disjointness, as `PathOK`) and on the functional search (`DelPath`:
the path is the one the fused `delIn` follows — earlier candidate subtrees do not hold the object).
-/
set_option linter.unusedVariables false
set_option linter.unusedSimpArgs false
namespace GeomV.C11
namespace Heap
variable {O : Type}

/-- the path `root = p₀ →i₀ p₁ →i₁ … → lp` through the stored child pointers, with what the tree shape gives on it -/
def OnPath (m : Arena O) (root : Ptr) (minC : Nat) : Nat → Ptr → List Nat → Ptr → Prop
  | _, p, [], lp => p = lp
  | 0, _, _ :: _, _ => False
  | f+1, p, i :: rest, lp => ∃ nd e c cd, m[p]? = some nd ∧ nd.entries[i]? = some e ∧ e.child = some c ∧
      m[c]? = some cd ∧ cd.parent = some p ∧ c ≠ root ∧ entryIdx nd.entries c = some i ∧ p ∉ subs m f c ∧
      (rest ≠ [] → minC ≤ cd.entries.length) ∧
      (∀ j e2 c2, j ≠ i → nd.entries[j]? = some e2 → e2.child = some c2 → p ∉ subs m f c2 ∧ ∀ x ∈ subs m f c, x ∉ subs m f c2) ∧
      OnPath m root minC f c rest lp

/-- the Boolean the judge evaluates before every Delete of the arena run implies the path hypothesis -/
theorem onPathb_sound (m : Arena O) (root : Ptr) (minC : Nat) :
    ∀ (f : Nat) (p : Ptr) (path : List Nat) (lp : Ptr), onPathb m root minC f p path lp = true → OnPath m root minC f p path lp := by
  intro f
  induction f with
  | zero =>
    intro p path lp h
    cases path with
    | nil => simp only [onPathb, beq_iff_eq] at h; simp only [OnPath]; exact h
    | cons i rest => simp [onPathb] at h
  | succ f ih =>
    intro p path lp h
    cases path with
    | nil => simp only [onPathb, beq_iff_eq] at h; simp only [OnPath]; exact h
    | cons i rest =>
      rw [onPathb] at h
      cases hm : m[p]? with
      | none => rw [hm] at h; cases h
      | some nd =>
        rw [hm] at h; simp only at h
        cases hei : nd.entries[i]? with
        | none => rw [hei] at h; cases h
        | some e =>
          rw [hei] at h; simp only at h
          cases hec : e.child with
          | none => rw [hec] at h; cases h
          | some c =>
            rw [hec] at h; simp only at h
            cases hmc : m[c]? with
            | none => rw [hmc] at h; cases h
            | some cd =>
              rw [hmc] at h
              simp only [Bool.and_eq_true, beq_iff_eq, bne_iff_ne, Bool.not_eq_true', Bool.or_eq_true, decide_eq_true_eq] at h
              obtain ⟨⟨⟨⟨⟨⟨h1, h2⟩, h3⟩, h4⟩, hfill⟩, h5⟩, h6⟩ := h
              refine ⟨nd, e, c, cd, by first | rfl | exact hm, by first | rfl | exact hei, hec, by first | rfl | exact hmc,
                h1, h2, h3, ?_, ?_, ?_, ih c rest lp h6⟩
              · intro hp
                have : (subs m f c).contains p = true := List.contains_iff_mem.mpr hp
                rw [h4] at this; cases this
              · intro hr
                rcases hfill with hfill | hfill
                · cases rest with
                  | nil => exact absurd rfl hr
                  | cons a b => simp at hfill
                · exact hfill
              · intro j e2 c2 hj hg hc2
                have hmem : (e2, j) ∈ nd.entries.zipIdx := by
                  rw [List.mem_zipIdx_iff_getElem?]; exact hg
                have := List.all_eq_true.mp h5 (e2, j) hmem
                simp only [Bool.or_eq_true, beq_iff_eq, hc2] at this
                rcases this with this | this
                · exact absurd this hj
                · simp only [Bool.and_eq_true, Bool.not_eq_true'] at this
                  obtain ⟨a, b⟩ := this
                  refine ⟨?_, ?_⟩
                  · intro hp
                    have : (subs m f c2).contains p = true := List.contains_iff_mem.mpr hp
                    rw [a] at this; cases this
                  · intro x hx hx2
                    have h7 := List.all_eq_true.mp b x hx
                    have : (subs m f c2).contains x = true := List.contains_iff_mem.mpr hx2
                    simp [this] at h7
                    exact h7 hx2


/-- the functional tree with the node at the end of the index path replaced and the boxes on the path recomputed -/
def rebuild : Node O → List Nat → Node O → Option (Node O)
  | _, [], lf' => some lf'
  | .mk l v es, i :: is, lf' =>
    match es[i]? with
    | some (.child _ c) => (rebuild c is lf').map fun c' => .mk l v (es.set i (.child c'.bbox c'))
    | _ => none

/-- the climb of condenseTree: after the leaf `lp` (plain entries) got the entry list `esl` (plain, not under-full), the upward loop
from `lp` reaches `p` after `d` steps without orphaning anything, in a memory that represents at `p` the rebuilt functional node -/
theorem condense_climb (minC : Nat) (root : Ptr) (m0 : Arena O) (lp : Ptr) (ld : HNode O) (hl : m0[lp]? = some ld)
    (hldp : ∀ e ∈ ld.entries, e.child = none) (esl : List (HEntry O)) (hesl : ∀ e ∈ esl, e.child = none)
    (esl' : List (Entry O)) (hesl' : ∀ recE : Ptr → Option (Node O), eraseEntries recE esl = some esl')
    (hfill : minC ≤ esl.length) :
    ∀ (k : Nat) (p : Ptr) (n : Node O) (path : List Nat),
      erase m0 (k + 1) p = some n → OnPath m0 root minC (k + 1) p path lp → (path ≠ [] → lp ≠ root) →
      ∃ (d : Nat) (n' : Node O) (mp : Arena O), d ≤ k ∧
        (∀ F del, condenseUp minC root (F + d) (m0.set lp { ld with entries := esl }) lp del = condenseUp minC root F mp p del) ∧
        rebuild n path (.mk ld.leaf ld.level esl') = some n' ∧
        erase mp (k + 1) p = some n' ∧
        (∀ x : Ptr, x ∉ subs m0 (k + 1) p → mp[x]? = m0[x]?) ∧
        mp.length = m0.length ∧ (∀ x, kidsAt mp x = kidsAt m0 x) ∧
        (∀ x : Ptr, Option.map HNode.parent (mp[x]?) = Option.map HNode.parent (m0[x]?)) ∧
        (∀ x : Ptr, x ≠ lp → Option.map (fun nd => nd.entries.length) (mp[x]?) = Option.map (fun nd => nd.entries.length) (m0[x]?)) := by
  have hlplt := getElem?_lt hl
  have kids_plain : ∀ es : List (HEntry O), (∀ e ∈ es, e.child = none) → kidsOf es = [] := by
    intro es h
    unfold kidsOf
    rw [List.filterMap_eq_nil_iff]
    intro a ha; exact h a ha
  -- the base step: the rewritten leaf itself
  have base : ∀ (k : Nat) (n : Node O), erase m0 (k + 1) lp = some n →
      ∃ (d : Nat) (n' : Node O) (mp : Arena O), d ≤ k ∧
        (∀ F del, condenseUp minC root (F + d) (m0.set lp { ld with entries := esl }) lp del = condenseUp minC root F mp lp del) ∧
        rebuild n [] (.mk ld.leaf ld.level esl') = some n' ∧
        erase mp (k + 1) lp = some n' ∧
        (∀ x : Ptr, x ∉ subs m0 (k + 1) lp → mp[x]? = m0[x]?) ∧
        mp.length = m0.length ∧ (∀ x, kidsAt mp x = kidsAt m0 x) ∧
        (∀ x : Ptr, Option.map HNode.parent (mp[x]?) = Option.map HNode.parent (m0[x]?)) ∧
        (∀ x : Ptr, x ≠ lp → Option.map (fun nd => nd.entries.length) (mp[x]?) = Option.map (fun nd => nd.entries.length) (m0[x]?)) := by
    intro k n hrep
    refine ⟨0, _, m0.set lp { ld with entries := esl }, Nat.zero_le _, fun F del => rfl, rfl, ?_, ?_, by simp, ?_, ?_, ?_⟩
    · exact erase_set_objs hl esl hesl k esl' (hesl' _)
    · intro x hx
      have : x ≠ lp := by intro hxp; subst hxp; exact hx (subs_self hl _)
      rw [List.getElem?_set_ne (Ne.symm this)]
    · intro x
      unfold kidsAt
      by_cases hxp : lp = x
      · subst hxp
        rw [List.getElem?_set_self hlplt, hl]
        simp only [Option.map_some, Option.some.injEq]
        rw [kids_plain esl hesl, kids_plain ld.entries hldp]
      · rw [List.getElem?_set_ne hxp]
    · intro x
      by_cases hxp : lp = x
      · subst hxp
        rw [List.getElem?_set_self hlplt, hl]; rfl
      · rw [List.getElem?_set_ne hxp]
    · intro x hx
      rw [List.getElem?_set_ne (Ne.symm hx)]
  intro k
  induction k with
  | zero =>
    intro p n path hrep hpath hroot
    cases path with
    | nil =>
      simp only [OnPath] at hpath
      subst hpath
      exact base 0 n hrep
    | cons i rest =>
      -- a step down is impossible at erase fuel 1
      obtain ⟨nd, e, c, cd, hm, hei, hec, _⟩ := hpath
      obtain ⟨k0, nd', es', hk0, hm', hee, hn⟩ := erase_some hrep
      cases hk0
      rw [hm] at hm'; cases hm'
      have hg := eraseEntries_get _ nd.entries es' i hee
      rw [hei] at hg
      cases h2 : es'[i]? with
      | none => rw [h2] at hg; exact absurd hg (by simp)
      | some x =>
        rw [h2] at hg
        cases x with
        | obj b o => simp only at hg; rw [hg.1] at hec; cases hec
        | child b cn => simp only at hg; obtain ⟨c2, _, h0, _⟩ := hg; simp [erase] at h0
  | succ k ih =>
    intro p n path hrep hpath hroot
    cases path with
    | nil =>
      simp only [OnPath] at hpath
      subst hpath
      exact base (k + 1) n hrep
    | cons i rest =>
      obtain ⟨nd, e, c, cd, hm, hei, hec, hmc, hcpar, hcroot, hidx, hpnot, hcfill, hoth, hpathc⟩ := hpath
      obtain ⟨k0, nd', es', hk0, hm', hee, hn⟩ := erase_some hrep
      cases hk0
      rw [hm] at hm'; cases hm'
      subst hn
      have hplt := getElem?_lt hm
      have hg := eraseEntries_get _ nd.entries es' i hee
      rw [hei] at hg
      cases h2 : es'[i]? with
      | none => rw [h2] at hg; exact absurd hg (by simp)
      | some x =>
        rw [h2] at hg
        cases x with
        | obj b o => simp only at hg; rw [hg.1] at hec; cases hec
        | child b cn =>
          simp only at hg
          obtain ⟨c2, hc2, hrc, hbbe⟩ := hg
          rw [hec] at hc2; cases hc2
          have hlproot : lp ≠ root := hroot (by simp)
          obtain ⟨d, c', mc, hd, hclimb, hreb, hrepc, hframe, hlen, hkids, hpar, hlens⟩ :=
            ih c cn rest hrc hpathc (fun _ => hlproot)
          have hkid : c ∈ kidsOf nd.entries := mem_kidsOf (List.mem_of_getElem? hei) hec
          obtain ⟨kc, cd', esc', hkc, hmcc, heec, hc'⟩ := erase_some hrepc
          cases hkc
          have hcpar' : cd'.parent = some p := by
            have := hpar c
            rw [hmcc, hmc] at this
            simp only [Option.map_some, Option.some.injEq] at this
            rw [this]; exact hcpar
          have hmcp : mc[p]? = some nd := by rw [hframe p hpnot]; exact hm
          have hbbc : mbr (bbs cd'.entries) = c'.bbox := by
            rw [hc']; simp only [Node.bbox, Node.entries]
            rw [(eraseEntries_length _ _ _ heec).2]
          -- c does not underflow: either it is the rewritten leaf, or its entry count is the old one
          have hcfill' : ¬ (cd'.entries.length < minC) := by
            cases rest with
            | nil =>
              simp only [OnPath] at hpathc
              subst hpathc
              -- mc is the base memory: the leaf holds `esl`
              have := base k cn hrc
              -- use the representation: the entry count of c' is that of esl'
              have hl1 : esc'.length = cd'.entries.length := (eraseEntries_length _ _ _ heec).1
              simp only [rebuild, Option.some.injEq] at hreb
              rw [hc'] at hreb
              simp only [Node.mk.injEq] at hreb
              have hl2 : esl'.length = esl.length := (eraseEntries_length _ _ _ (hesl' (fun _ => none))).1
              rw [← hl1, ← hreb.2.2, hl2]; omega
            | cons i2 rest2 =>
              have h1 := hcfill (by simp)
              have hne : c ≠ lp := by
                -- lp lies strictly below c
                intro hcl
                subst hcl
                obtain ⟨nd2, e2, c3, cd3, hm2, hei2, hec2, _⟩ := hpathc
                rw [hl] at hm2; cases hm2
                have := hldp e2 (List.mem_of_getElem? hei2)
                rw [this] at hec2; cases hec2
              have := hlens c hne
              rw [hmcc, hmc] at this
              simp only [Option.map_some, Option.some.injEq] at this
              omega
          let mp := mc.set p { nd with entries := setBB nd.entries i c'.bbox }
          have hpltc : p < mc.length := by rw [hlen]; exact hplt
          have hsubsc : ∀ f x, subs mc f x = subs m0 f x := subs_congr hkids
          refine ⟨d + 1, .mk nd.leaf nd.level (es'.set i (.child c'.bbox c')), mp, by omega, ?_, ?_, ?_, ?_, ?_, ?_, ?_, ?_⟩
          · intro F del
            have : F + (d + 1) = (F + 1) + d := by omega
            rw [this, hclimb (F + 1) del, condenseUp]
            have hcr : (c == root) = false := by simpa using hcroot
            simp only [hcr, Bool.false_eq_true, if_false, deref, hmcc, bind, Except.bind, pure, Except.pure, hcpar', derefO,
              hmcp, Option.getD_some, hcfill', hidx, hbbc]
            rfl
          · simp only [rebuild, h2, hreb, Option.map_some]
          · rw [erase]
            simp only [mp, List.getElem?_set_self hpltc]
            have hr'c : erase mp (k + 1) c = some c' := by
              rw [erase_agree (m := mc) (by simp [mp]) (k + 1) c, hrepc]
              intro x hx
              have : x ≠ p := by
                intro hxp; subst hxp
                rw [hsubsc] at hx; exact hpnot hx
              simp only [mp]; rw [List.getElem?_set_ne (Ne.symm this)]
            have hoth' : ∀ j e2 c2, j ≠ i → nd.entries[j]? = some e2 → e2.child = some c2 →
                erase mp (k + 1) c2 = erase m0 (k + 1) c2 := by
              intro j e2 c2 hj h1 h2'
              obtain ⟨hp2, hdis⟩ := hoth j e2 c2 hj h1 h2'
              apply erase_agree (by simp [mp, hlen])
              intro x hx
              have hxp : x ≠ p := by intro hxp; subst hxp; exact hp2 hx
              have hxc : x ∉ subs m0 (k + 1) c := fun hxc => hdis x hxc hx
              simp only [mp]; rw [List.getElem?_set_ne (Ne.symm hxp)]
              exact hframe x hxc
            have := eraseEntries_setBB (erase m0 (k + 1)) (erase mp (k + 1)) c'.bbox c c' nd.entries es' i e hee hei hec hr'c hoth'
            simp only [mp] at this
            simp only [this, Option.map_some]
          · intro x hx
            have hxp : x ≠ p := by intro hxp; subst hxp; exact hx (subs_self hm _)
            have hxc : x ∉ subs m0 (k + 1) c := fun hxc => hx (subs_kid hm hkid (k + 1) x hxc)
            simp only [mp]; rw [List.getElem?_set_ne (Ne.symm hxp)]
            exact hframe x hxc
          · simp [mp, hlen]
          · intro x
            by_cases hxp : p = x
            · subst hxp
              unfold kidsAt
              simp only [mp, List.getElem?_set_self hpltc, hm, Option.map_some, kidsOf_setBB]
            · have := hkids x
              unfold kidsAt at this ⊢
              simp only [mp]; rw [List.getElem?_set_ne hxp]; exact this
          · intro x
            by_cases hxp : p = x
            · subst hxp
              simp only [mp, List.getElem?_set_self hpltc, hm, Option.map_some]
            · simp only [mp]; rw [List.getElem?_set_ne hxp]; exact hpar x
          · intro x hx
            by_cases hxp : p = x
            · subst hxp
              simp only [mp, List.getElem?_set_self hpltc, hm, Option.map_some, setBB, List.length_modify]
            · simp only [mp]; rw [List.getElem?_set_ne hxp]; exact hlens x hx

/-! ### the functional side: the fused `delIn` along a given index path -/

/-- the node at the end of an index path -/
def target : Node O → List Nat → Option (Node O)
  | n, [] => some n
  | .mk _ _ es, i :: is =>
    match es[i]? with
    | some (.child _ c) => target c is
    | _ => none

/-- entry `j` does not stop findLeaf's loop: not a candidate, or a candidate subtree that does not hold the object -/
def skipAt [DecidableEq O] [Bounded O] (minC : Nat) (o : O) (es : List (Entry O)) (j : Nat) : Prop :=
  match es[j]? with
  | some (.obj b _) => b.containsRect (Bounded.bounds o) = false
  | some (.child b c) => b.containsRect (Bounded.bounds o) = false ∨ delIn minC o c 0 = .ok none
  | none => False

/-- the index path is the one the fused `delIn` follows to the leaf entry `ind` -/
def DelPath [DecidableEq O] [Bounded O] (minC : Nat) (o : O) : List Nat → Node O → Nat → Prop
  | [], n, ind => n.leaf = true ∧ lastIdxOf o n.entries = some ind
  | i :: is, n, ind => n.leaf = false ∧ (∀ j, j < i → skipAt minC o n.entries j) ∧
      ∃ b c, n.entries[i]? = some (.child b c) ∧ b.containsRect (Bounded.bounds o) = true ∧ DelPath minC o is c ind

/-- no rebuilt node on the path is under-full -/
def NoUnder (minC : Nat) : List Nat → Node O → Prop
  | [], _ => True
  | i :: is, n' => ∃ b c', n'.entries[i]? = some (.child b c') ∧ minC ≤ c'.entries.length ∧ NoUnder minC is c'

theorem delIn_skip [DecidableEq O] [Bounded O] (minC : Nat) (o : O) (v : Nat) (es : List (Entry O)) (i : Nat)
    (hs : ∀ j, j < i → skipAt minC o es j) :
    ∀ (gap j : Nat), j + gap = i → delIn minC o (.mk false v es) j = delIn minC o (.mk false v es) i := by
  intro gap
  induction gap with
  | zero => intro j hj; simp at hj; subst hj; rfl
  | succ g ih =>
    intro j hj
    have hlt : j < i := by omega
    have hsk := hs j hlt
    rw [← ih (j + 1) (by omega)]
    conv_lhs => rw [delIn_mk]
    unfold skipAt at hsk
    cases h : es[j]? with
    | none => rw [h] at hsk; exact absurd hsk (by simp)
    | some x =>
      rw [h] at hsk
      cases x with
      | obj b o' => simp only at hsk; simp [hsk]
      | child b c =>
        simp only at hsk
        rcases hsk with hsk | hsk
        · simp [hsk]
        · by_cases hb : b.containsRect (Bounded.bounds o) = true
          · simp [hb, hsk, bind, Except.bind]
          · simp [hb]

/-- the fused `delIn` follows the path and returns the rebuilt node with no orphans -/
theorem delIn_rebuild [DecidableEq O] [Bounded O] (minC : Nat) (o : O) :
    ∀ (path : List Nat) (n lf n' : Node O) (ind : Nat), DelPath minC o path n ind → target n path = some lf →
      rebuild n path (.mk lf.leaf lf.level (lf.entries.eraseIdx ind)) = some n' → NoUnder minC path n' →
      delIn minC o n 0 = .ok (some (n', [])) := by
  intro path
  induction path with
  | nil =>
    intro n lf n' ind hd ht hr _
    obtain ⟨l, v, es⟩ := n
    simp only [target, Option.some.injEq] at ht; subst ht
    simp only [rebuild, Option.some.injEq, Node.leaf, Node.level, Node.entries] at hr; subst hr
    obtain ⟨hl, hlast⟩ := hd
    simp only [Node.leaf, Node.entries] at hl hlast
    rw [delIn_mk]; simp [hl, hlast, pure, Except.pure]
  | cons i is ih =>
    intro n lf n' ind hd ht hr hnu
    obtain ⟨l, v, es⟩ := n
    obtain ⟨hl, hskip, b, c, hei, hb, hdc⟩ := hd
    simp only [Node.leaf, Node.entries] at hl hskip hei
    subst hl
    simp only [target, hei] at ht
    simp only [rebuild, hei] at hr
    cases hrc : rebuild c is (.mk lf.leaf lf.level (lf.entries.eraseIdx ind)) with
    | none => rw [hrc] at hr; simp at hr
    | some c' =>
      rw [hrc] at hr; simp only [Option.map_some, Option.some.injEq] at hr; subst hr
      obtain ⟨b2, c2, hg2, hfill, hnu2⟩ := hnu
      have hilt : i < es.length := getElem?_lt hei
      simp only [Node.entries, List.getElem?_set_self hilt, Option.some.injEq, Entry.child.injEq] at hg2
      obtain ⟨_, rfl⟩ := hg2
      have hc := ih c lf c' ind hdc ht hrc hnu2
      rw [delIn_skip minC o v es i hskip i 0 (by omega), delIn_mk]
      have : ¬ (c'.entries.length < minC) := by omega
      simp [hei, hb, hc, bind, Except.bind, this, pure, Except.pure]

/-- along an `OnPath` the leaf pointer represents the functional node at the end of the index path -/
theorem target_of_OnPath (m0 : Arena O) (root : Ptr) (minC : Nat) (lp : Ptr) :
    ∀ (k : Nat) (p : Ptr) (n : Node O) (path : List Nat), erase m0 (k + 1) p = some n → OnPath m0 root minC (k + 1) p path lp →
      ∃ kk lf, erase m0 (kk + 1) lp = some lf ∧ target n path = some lf := by
  intro k
  induction k with
  | zero =>
    intro p n path hrep hpath
    cases path with
    | nil => simp only [OnPath] at hpath; subst hpath; exact ⟨0, n, hrep, rfl⟩
    | cons i rest =>
      obtain ⟨nd, e, c, cd, hm, hei, hec, _⟩ := hpath
      obtain ⟨k0, nd', es', hk0, hm', hee, hn⟩ := erase_some hrep
      cases hk0
      rw [hm] at hm'; cases hm'
      have hg := eraseEntries_get _ nd.entries es' i hee
      rw [hei] at hg
      cases h2 : es'[i]? with
      | none => rw [h2] at hg; exact absurd hg (by simp)
      | some x =>
        rw [h2] at hg
        cases x with
        | obj b o => simp only at hg; rw [hg.1] at hec; cases hec
        | child b cn => simp only at hg; obtain ⟨c2, _, h0, _⟩ := hg; simp [erase] at h0
  | succ k ih =>
    intro p n path hrep hpath
    cases path with
    | nil => simp only [OnPath] at hpath; subst hpath; exact ⟨k + 1, n, hrep, rfl⟩
    | cons i rest =>
      obtain ⟨nd, e, c, cd, hm, hei, hec, _, _, _, _, _, _, _, hpathc⟩ := hpath
      obtain ⟨k0, nd', es', hk0, hm', hee, hn⟩ := erase_some hrep
      cases hk0
      rw [hm] at hm'; cases hm'
      subst hn
      have hg := eraseEntries_get _ nd.entries es' i hee
      rw [hei] at hg
      cases h2 : es'[i]? with
      | none => rw [h2] at hg; exact absurd hg (by simp)
      | some x =>
        rw [h2] at hg
        cases x with
        | obj b o => simp only at hg; rw [hg.1] at hec; cases hec
        | child b cn =>
          simp only at hg
          obtain ⟨c2, hc2, hrc, _⟩ := hg
          rw [hec] at hc2; cases hc2
          obtain ⟨kk, lf, h1, h2'⟩ := ih c cn rest hrc hpathc
          exact ⟨kk, lf, h1, by simp only [target, h2]; exact h2'⟩

/-- **C11_heap_delete_nounderflow_refines_partial** — `Delete` of the pointer-level model on a represented tree of ANY height, when
no node on the path from the root to the leaf found underflows: findLeaf through the stored child pointers, the index loop, the entry
removal, condenseTree's upward loop ALONG THE STORED `parent` FIELDS (one `getEntry` + one box rewrite per level, no orphan), the
(empty) re-insertion loop and the root-collapse loop yield — against the functional `Delete` on the represented tree — the same
panic, or the flag `true` with a memory that represents the functional result at the new root, and the same Size and Depth.
Hypotheses (all decidable): `OnPath` — what the tree shape gives on the path (as `PathOK`); `DelPath` — the path is the one the
fused `delIn` follows (earlier candidate subtrees do not hold the object); `NoUnder` — no rebuilt node is under-full.  `_partial`:
underflow (orphans, re-insertion) is not covered and the three path hypotheses are assumed, not derived from `ParentOK`/`WF`. -/
theorem C11_heap_delete_nounderflow_refines_partial [DecidableEq O] [Bounded O] (H : Heur) (fuel k : Nat) (t : HTree O) (o : O)
    (n : Node O) (path : List Nat) (lp : Ptr) (ld : HNode O) (ind : Nat) (n' : Node O)
    (hrep : erase t.mem (k + 1) t.root = some n)
    (hpath : OnPath t.mem t.root t.minC (k + 1) t.root path lp) (hroot : path ≠ [] → lp ≠ t.root)
    (hfind : findLeaf t.mem o fuel t.root = .ok (some lp)) (hl : t.mem[lp]? = some ld)
    (hldp : ∀ e ∈ ld.entries, e.child = none) (hind : lastIdx o ld.entries = some ind)
    (hfill : t.minC ≤ (ld.entries.eraseIdx ind).length)
    (hdel : DelPath t.minC o path n ind)
    (hreb : ∀ lf, target n path = some lf → rebuild n path (.mk lf.leaf lf.level (lf.entries.eraseIdx ind)) = some n')
    (hnu : NoUnder t.minC path n') (hfuel : k + 1 ≤ fuel) :
    match (HTree.absTree t n).delete H o with
    | .error e => HTree.delete H fuel t o = .error (.go e)
    | .ok (T', b) => b = true ∧ ∃ t' f', HTree.delete H fuel t o = .ok (t', true) ∧ erase t'.mem f' t'.root = some T'.root ∧
        t'.size = T'.size ∧ t'.height = T'.height ∧ t'.minC = T'.minC ∧ t'.maxC = T'.maxC := by
  -- the leaf found represents the functional node at the end of the path
  obtain ⟨kk, lf, hlf, htgt⟩ := target_of_OnPath t.mem t.root t.minC lp k t.root n path hrep hpath
  obtain ⟨k0, ld', esl0', hk0, hl', heel, hlfeq⟩ := erase_some hlf
  cases hk0
  rw [hl] at hl'; cases hl'
  have hplainAll : ∀ recE : Ptr → Option (Node O), eraseEntries recE ld.entries = some esl0' := by
    intro recE; rw [eraseEntries_objs recE (erase t.mem kk) ld.entries hldp]; exact heel
  have hesl' : ∀ recE : Ptr → Option (Node O), eraseEntries recE (ld.entries.eraseIdx ind) = some (esl0'.eraseIdx ind) :=
    fun recE => eraseEntries_eraseIdx recE _ _ ind (hplainAll recE)
  -- condenseTree's climb
  obtain ⟨d, n2, mp, hd, hclimb, hreb2, hrepmp, _, _, _, _, _⟩ :=
    condense_climb t.minC t.root t.mem lp ld hl hldp (ld.entries.eraseIdx ind)
      (fun e he => hldp e (mem_eraseIdx_of he)) (esl0'.eraseIdx ind) hesl' hfill k t.root n path hrep hpath hroot
  have hreb' := hreb lf htgt
  rw [hlfeq] at hreb'
  simp only [Node.leaf, Node.level, Node.entries] at hreb'
  rw [hreb'] at hreb2
  cases hreb2
  -- the functional Delete
  have hdelIn := delIn_rebuild t.minC o path n lf n' ind hdel htgt (hreb lf htgt) hnu
  obtain ⟨F, hF⟩ : ∃ F, fuel = (F + 1) + d := ⟨fuel - d - 1, by omega⟩
  have hcu : condenseUp t.minC t.root fuel (t.mem.set lp { ld with entries := ld.entries.eraseIdx ind }) lp [] = .ok (mp, []) := by
    rw [hF, hclimb (F + 1) [], condenseUp]
    simp only [beq_self_eq_true, if_true, pure, Except.pure]
  have hcol := C11_heap_collapse_refines (k + 1) ({ t with mem := mp, size := t.size - 1 } : HTree O) n' fuel hrepmp hfuel
  simp only at hcol
  unfold Tree.delete HTree.delete
  simp only [HTree.absTree, hdelIn, bind, Except.bind, reinsertAll, pure, Except.pure, hfind, deref, hl, hind, hcu, reinsert]
  cases hc : GeomV.C11.collapse n' t.height with
  | error x =>
    rw [hc] at hcol
    simp only [hcol]
  | ok r =>
    obtain ⟨r2, h2⟩ := r
    rw [hc] at hcol
    obtain ⟨t', f', h1, h2', h3, h4, h5, h6⟩ := hcol
    simp only [h1]
    exact ⟨trivial, t', f', rfl, h2', h4, h3, h5, h6⟩

/-- non-vacuity: all hypotheses of `C11_heap_delete_nounderflow_refines_partial` hold of a concrete two-level tree (root 0 over the
leaves 1 and 2; objects are their own boxes; Delete of the second object of leaf 1, MinChildren = 1) -/
local instance instBoundedBoxHeapCond : Bounded Box := ⟨id⟩ in
example :
    let m : Arena Box :=
      [{ parent := none, leaf := false, level := 2, entries := [⟨⟨0, 0, 2, 2⟩, some 1, none⟩, ⟨⟨5, 5, 6, 6⟩, some 2, none⟩] },
       { parent := some 0, leaf := true, level := 1, entries := [⟨⟨0, 0, 1, 1⟩, none, some ⟨0, 0, 1, 1⟩⟩, ⟨⟨1, 1, 2, 2⟩, none, some ⟨1, 1, 2, 2⟩⟩] },
       { parent := some 0, leaf := true, level := 1, entries := [⟨⟨5, 5, 6, 6⟩, none, some ⟨5, 5, 6, 6⟩⟩] }]
    let o : Box := ⟨1, 1, 2, 2⟩
    let lf : Node Box := .mk true 1 [.obj ⟨0, 0, 1, 1⟩ ⟨0, 0, 1, 1⟩, .obj ⟨1, 1, 2, 2⟩ ⟨1, 1, 2, 2⟩]
    let n : Node Box := .mk false 2 [.child ⟨0, 0, 2, 2⟩ lf, .child ⟨5, 5, 6, 6⟩ (.mk true 1 [.obj ⟨5, 5, 6, 6⟩ ⟨5, 5, 6, 6⟩])]
    erase m 2 0 = some n ∧ OnPath m 0 1 2 0 [0] 1 ∧ findLeaf m o 2 0 = .ok (some 1) ∧
      (∃ ld, m[1]? = some ld ∧ (∀ e ∈ ld.entries, e.child = none) ∧ lastIdx o ld.entries = some 1) ∧
      DelPath 1 o [0] n 1 ∧ target n [0] = some lf := by
  intro m o lf n
  refine ⟨rfl, ?_, by decide +kernel, ⟨_, rfl, ?_, by decide +kernel⟩, ?_, rfl⟩
  · refine ⟨_, _, 1, _, rfl, rfl, rfl, rfl, rfl, by decide, rfl, by simp [subs, m, kidsOf], fun h => absurd rfl h, ?_, rfl⟩
    intro j e2 c2 hj h1 h2
    match j, hj, h1 with
    | 1, _, h1 =>
      simp only [List.getElem?_cons_succ, List.getElem?_cons_zero, Option.some.injEq] at h1
      subst h1
      simp only [Option.some.injEq] at h2
      subst h2
      simp [subs, m, kidsOf]
    | j + 2, _, h1 => simp at h1
  · intro e he
    simp at he
    rcases he with rfl | rfl <;> rfl
  · refine ⟨rfl, fun j hj => absurd hj (by omega), _, _, rfl, by decide +kernel, rfl, by decide +kernel⟩

/-- the checkers can fail: a child whose `parent` field does not name its holder / an entry list naming the same child twice -/
example :
    pathOKb (O := Nat) goHeur
      [{ parent := none, leaf := false, level := 2, entries := [⟨⟨0, 0, 1, 1⟩, some 1, none⟩] },
       { parent := none, leaf := true, level := 1, entries := [⟨⟨0, 0, 1, 1⟩, none, some 7⟩] }] ⟨0, 0, 0, 0⟩ 1 0 2 0 = false ∧
    onPathb (O := Nat)
      [{ parent := none, leaf := false, level := 2, entries := [⟨⟨0, 0, 1, 1⟩, some 1, none⟩, ⟨⟨0, 0, 1, 1⟩, some 1, none⟩] },
       { parent := some 0, leaf := true, level := 1, entries := [⟨⟨0, 0, 1, 1⟩, none, some 7⟩] }] 0 0 2 0 [0] 1 = false := by
  constructor <;> decide +kernel

end Heap
end GeomV.C11
