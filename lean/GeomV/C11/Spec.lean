import GeomV.C11.Model
/-
C11 — specification.  Uses only the *types* of the model (Box, Node, Entry, Tree), none of its
operations.  Reads next to the statement in properties.jsonl:

  "After any sequence of Insert and Delete calls, Size equals the number of stored objects,
   SearchIntersect(q) returns exactly the stored objects (with multiplicity) whose bounding boxes
   share a point with q, Delete of a stored object succeeds and of an absent object returns false
   without changing anything, and no call panics.  The tree stays balanced: all leaves at the same
   depth, Depth equal to that depth, every entry's box the exact envelope of its subtree, and no
   node above the maximum fan-out."
-/
set_option linter.unusedVariables false
namespace GeomV.C11
variable {O : Type}

/-! ### stored objects (abstraction function) -/

/-- all objects stored below a node, in entry order (whatever the `leaf` flags say) -/
def Node.objs : Node O → List O
  | .mk _ _ es => es.flatMap fun e =>
      match h : e with
      | .obj _ o => [o]
      | .child _ c => c.objs
termination_by n => sizeOf n
decreasing_by subst h; have := Entry.sizeOf_child_lt ‹_›; simp_wf; omega

/-- `abs`: the multiset of stored objects, as a list up to `List.Perm` -/
def Tree.abs (t : Tree O) : List O := t.root.objs

/-! ### boxes -/

/-- a box that contains at least one point -/
def Box.valid (b : Box) : Bool := b.minX ≤ b.maxX && b.minY ≤ b.maxY

def Box.has (b : Box) (x y : Rat) : Prop := b.minX ≤ x ∧ x ≤ b.maxX ∧ b.minY ≤ y ∧ y ≤ b.maxY

/-- "bounding boxes share a point" -/
def sharePoint (a b : Box) : Prop := ∃ x y : Rat, a.has x y ∧ b.has x y

/-- decidable form of `sharePoint` (equivalence: `C11_sharePoint_iff`) -/
def sharePointB (a b : Box) : Bool :=
  a.valid && b.valid &&
  a.minX ≤ b.maxX && b.minX ≤ a.maxX && a.minY ≤ b.maxY && b.minY ≤ a.maxY

/-- `e` is the exact envelope of the non-empty list of boxes `bs`: it contains every box and each
of its four sides is touched by some box. -/
def isEnvelope (e : Box) (bs : List Box) : Bool :=
  !bs.isEmpty &&
  bs.all (fun b => e.minX ≤ b.minX && e.minY ≤ b.minY && b.maxX ≤ e.maxX && b.maxY ≤ e.maxY) &&
  bs.any (fun b => b.minX == e.minX) && bs.any (fun b => b.minY == e.minY) &&
  bs.any (fun b => b.maxX == e.maxX) && bs.any (fun b => b.maxY == e.maxY)

/-! ### balance / envelope / fan-out invariant -/

/-- `wfNode maxC h n`: `n` is a well-formed subtree whose leaves are all exactly `h` levels down
(`h = 1`: `n` is a leaf): the stored `level` is `h`, the `leaf` flag says `h = 1`, at most `maxC`
entries, leaf entries carry their object's own box, child entries carry the exact envelope of
the object boxes stored below them (so no child is empty) and the children are well-formed one
level further down. -/
def wfNode [Bounded O] (maxC : Nat) (h : Nat) : Node O → Bool
  | .mk leaf level es =>
    level == h && (leaf == (h == 1)) && decide (1 ≤ h) && decide (es.length ≤ maxC) &&
    es.attach.all fun ⟨e, he⟩ =>
      match hm : e with
      | .obj b o => h == 1 && b == Bounded.bounds o
      | .child b c => decide (1 < h) && wfNode maxC (h - 1) c && isEnvelope b (c.objs.map Bounded.bounds)
termination_by n => sizeOf n
decreasing_by subst hm; have := Entry.sizeOf_child_lt he; simp_wf; omega

/-- The tree invariant of the property: balanced with `Depth` = leaf depth, exact envelopes,
fan-out ≤ Max, `Size` = number of stored objects.  "`Depth` equal to the depth of the leaves"
presupposes that there is a leaf: a non-leaf root has entries (non-root non-leaf nodes have some by
the envelope clause). -/
def Tree.WF [Bounded O] (t : Tree O) : Bool :=
  wfNode t.maxC t.height t.root && t.size == t.abs.length &&
    (t.root.leaf || !t.root.entries.isEmpty)

/-! ### minimum fill -/

/-- every node strictly below `n` (every NON-root node of a tree with root `n`) has at least `m`
entries.  With `m = MinChildren` this is Guttman's minimum-fill condition, which this implementation
does NOT maintain (under-full nodes are re-inserted as whole subtrees, see notes); with `m = 1` it is
what does hold (`C11_fill_reachable`). -/
def Node.belowFill (m : Nat) : Node O → Bool
  | .mk _ _ es => es.attach.all fun ⟨e, he⟩ =>
      match hm : e with
      | .obj _ _ => true
      | .child _ c => decide (m ≤ c.entries.length) && c.belowFill m
termination_by n => sizeOf n
decreasing_by subst hm; have := Entry.sizeOf_child_lt he; simp_wf; omega

/-! ### history semantics -/

/-- the multiset of stored objects after one operation -/
def specStep [DecidableEq O] (s : List O) : Op O → List O
  | .ins o => o :: s
  | .del o => s.erase o

/-- the multiset of stored objects after a history (from the empty tree) -/
def specRun [DecidableEq O] (ops : List (Op O)) : List O := ops.foldl specStep []

/-- what `Delete` must answer -/
def specDeleteResult [DecidableEq O] (s : List O) (o : O) : Bool := decide (o ∈ s)

/-- brute-force scan: the stored objects whose boxes share a point with `q` -/
def specSearch [Bounded O] (s : List O) (q : Box) : List O :=
  s.filter fun o => sharePointB q (Bounded.bounds o)

end GeomV.C11
