import GeomV.C03.Spec
/-!
# C03 — what `op.FixOrientation` and `op.Within` are documented to do

Independent of the model (imports only `Spec.lean`).  Core Lean only.

Role: property C03 speaks of Area, Centroid, Length, Distance and Buffer; `Within`/`FixOrientation` are
mechanism.  These definitions are therefore NOT verdicts on `Within`/`FixOrientation` themselves (those
are tied to `ModelOp` by exact correspondence only).  They are used (1) by the judge for the composite
that touches the property — `op.Area`/`op.Centroid` after `FixOrientation` on a valid polygon — and for
the class histogram (`-notclosedregion`), (2) by ProofsOp.lean to state what is true of the model
(`ringsKept`, crossing-number agreement off the boundary on grids) and the kernel-checked witnesses of
what is not (observations F1–F3 of notes/C03.md).

Reading (doc comments of op/properties.go): rings are given CLOSED (`V[n] = V[0]`); a valid polygon is
`Spec.ValidPoly` on the opened rings, its rings listed in any order and each wound either way.

* `FixOrientation` "changes the winding direction of the outer and inner rings so the outer ring is
  counter-clockwise and nesting rings alternate directions": afterwards every ring is the ring it was
  or that ring run backwards (`ringsKept`), a ring contained in an even number of the other rings is
  counter-clockwise (`shoelace2 > 0`), one contained in an odd number is clockwise (`windingOK`); a
  second call changes nothing (`idempotent`); the region and so `Spec.area` is what it was (`areaKept`).
* `Within(point, polygon)`, polygon wound as `FixOrientation` leaves it: true exactly when the point
  is in the CLOSED region — inside or on the boundary (shell or hole boundary) — `inClosedRegion`.
  ("Also returns true if point is on the edge of polygon".)
* `Within(polygonA, polygonB)`: what the code promises is `verticesWithin`: every vertex of `A` is in
  the closed region of `B`.  This is WEAKER than region containment (an edge of `A` may leave `B`
  between two vertices, `A` may surround a hole of `B`).
-/
namespace GeomV.C03.Spec

/-- ring given with its first vertex repeated at the end -/
def isClosed (r : Ring) : Bool := decide (2 ≤ r.length) && r.getLast? == r.head?

/-- valid polygon in the sense of the `op` documentation: closed rings, `ValidPoly` once opened, the
shell listed anywhere -/
def ValidClosed (p : Poly) : Bool := p.all isClosed && ValidAnyOrder (canon p)

/-- `b` is `a` or `a` run backwards -/
def sameOrReversed (a b : Ring) : Bool := b == a || b == a.reverse

/-- ring by ring the output is the input ring or its reversal (same cyclic vertex sequence up to
direction; a closed ring stays closed) -/
def ringsKept : Poly → Poly → Bool
  | [], [] => true
  | a :: as, b :: bs => sameOrReversed a b && ringsKept as bs
  | _, _ => false

/-- number of the other rings that contain ring `i` (decided by its first vertex: rings of a valid
polygon do not touch) -/
def depthOf (p : Poly) (i : Nat) : Nat :=
  match p[i]? with
  | some (v :: _) => (p.eraseIdx i).countP fun s => sideRing v s == .inside
  | _ => 0

/-- even depth ⇒ counter-clockwise, odd depth ⇒ clockwise -/
def windingOK (p : Poly) : Bool :=
  (List.range p.length).all fun i =>
    match p[i]? with
    | some r => if depthOf p i % 2 = 0 then decide (0 < shoelace2 r) else decide (shoelace2 r < 0)
    | none => true

/-- the area of the region, rings in any order -/
def areaAnyOrder (p : Poly) : Option Rat := (shellFirst (canon p)).map area

def areaKept (input output : Poly) : Bool := areaAnyOrder input == areaAnyOrder output

/-- what `FixOrientation` owes for a valid input: `output` after one call, `twice` after two -/
def FixOrientationOK (input output twice : Poly) : Bool :=
  ringsKept input output && windingOK output && twice == output && areaKept input output

/-- multi-polygon: member by member -/
def FixOrientationOKM : MPoly → MPoly → MPoly → Bool
  | [], [], [] => true
  | a :: as, b :: bs, c :: cs => FixOrientationOK a b c && FixOrientationOKM as bs cs
  | _, _, _ => false

/-- the point is inside the polygon or on the boundary of one of its rings -/
def inClosedRegion (pt : P) (p : Poly) : Bool := sideRings pt p != .outside

/-- every vertex of `a` is in the closed region of `b` (weaker than region containment) -/
def verticesWithin (a b : Poly) : Bool := a.all fun r => r.all fun v => inClosedRegion v b

end GeomV.C03.Spec
