import GeomV.C03.ProofsAffine
import GeomV.C03.Main
/-!
# C03 — a theorem about the judge itself

`Main.scaleInt` lets the judge evaluate validity and the ring order of a case on a copy with integer
coordinates (speed).  Its doc comment claims that this does not change the verdict; here that claim is
proved for the definitions the driver actually runs (`Main.scaleInt`, `Main.orderOf`).
-/
namespace GeomV.C03
open Spec
set_option linter.unusedSimpArgs false

theorem le_foldl_of_le {α : Type} (f : Nat → α → Nat) (hf : ∀ d x, d ≤ f d x) (l : List α) (d0 : Nat) :
    d0 ≤ l.foldl f d0 := by
  induction l generalizing d0 with
  | nil => exact Nat.le_refl _
  | cons x t ih => exact Nat.le_trans (hf d0 x) (ih _)

/-- multiplying every coordinate by `c` -/
def mulPoly (c : Rat) (p : Poly) : Poly := p.map (·.map fun v => ⟨v.x * c, v.y * c⟩)

theorem mulPoly_eq (c : Rat) (p : Poly) : mulPoly c p = scalePoly (1 / c) (1 / c) p := by
  unfold mulPoly scalePoly scaleRing
  congr 1; funext r; congr 1; funext v
  simp

theorem canon_scale (k : Rat) (hk : 0 < k) (p : Poly) : canon (scalePoly k k p) = scalePoly k k (canon p) := by
  unfold canon scalePoly
  rw [List.map_map, List.map_map]
  apply List.map_congr_left; intro r _
  simp only [Function.comp, scaleRing_eq_map, openRing_map _ (scPt_injective k hk)]

theorem orderOf_scale (k : Rat) (hk : 0 < k) (p : Poly) :
    orderOf (canon (scalePoly k k p)) = orderOf (canon p) := by
  unfold orderOf
  rw [canon_scale k hk, (C03_shellIndex_scale k hk (canon p)).1, (C03_shellIndex_scale k hk (canon p)).2]

/-- **The judge's integer copy has the verdicts of the case itself**: `Main.scaleInt` (all coordinates
multiplied by one positive integer that clears the denominators) changes neither the validity class
(`ValidPoly` / `ValidPolyT`, in any ring order) nor the ring the judge takes for the shell, member by
member. -/
theorem C03_judge_scaleInt (mp : MPoly) :
    (scaleInt mp).map (fun q => orderOf (canon q)) = mp.map (fun p => orderOf (canon p)) := by
  unfold scaleInt
  simp only []
  split
  · rfl
  · rename_i hd
    generalize hD : (mp.foldl (fun d p => p.foldl (fun d r => r.foldl (fun d v => max d (max v.x.den v.y.den)) d) d) 1) = d at hd
    have h1 : 1 ≤ d := by
      rw [← hD]
      apply le_foldl_of_le
      intro d p; apply le_foldl_of_le
      intro d r; apply le_foldl_of_le
      intro d v; exact Nat.le_max_left _ _
    have hpos : (0 : Rat) < (d : Nat) := by exact_mod_cast h1
    rw [List.map_map]
    apply List.map_congr_left; intro p _
    simp only [Function.comp]
    have e : (p.map (·.map fun v => (⟨v.x * ((d : Nat) : Rat), v.y * ((d : Nat) : Rat)⟩ : P))) = mulPoly ((d : Nat) : Rat) p := rfl
    rw [e, mulPoly_eq]
    exact orderOf_scale _ (by positivity) p
theorem membersApart_scale (k : Rat) (hk : 0 < k) (mp : MPoly) :
    membersApart (mp.map (scalePoly k k)) = membersApart mp := by
  induction mp with
  | nil => rfl
  | cons p t ih =>
    simp only [List.map_cons, membersApart, ih, List.all_map]
    congr 1
    congr 1; funext q
    simp only [Function.comp, scalePoly, List.all_map]
    congr 1; funext r
    simp only [Function.comp, List.all_map]
    congr 1; funext s
    simp only [Function.comp, scaleRing_eq_map, ringsApart_scale k hk]

/-- the members of the judge's integer copy are apart exactly when the members of the case are -/
theorem C03_judge_scaleInt_members (mp : MPoly) :
    membersApart ((scaleInt mp).map canon) = membersApart (mp.map canon) := by
  unfold scaleInt
  simp only []
  split
  · rfl
  · generalize hD : (mp.foldl (fun d p => p.foldl (fun d r => r.foldl (fun d v => max d (max v.x.den v.y.den)) d) d) 1) = d
    have h1 : 1 ≤ d := by
      rw [← hD]
      apply le_foldl_of_le
      intro d p; apply le_foldl_of_le
      intro d r; apply le_foldl_of_le
      intro d v; exact Nat.le_max_left _ _
    have hpos : (0 : Rat) < (d : Nat) := by exact_mod_cast h1
    have hk : (0 : Rat) < 1 / ((d : Nat) : Rat) := by positivity
    have e : (mp.map (·.map (·.map fun v => (⟨v.x * ((d : Nat) : Rat), v.y * ((d : Nat) : Rat)⟩ : P))))
        = mp.map (scalePoly (1 / ((d : Nat) : Rat)) (1 / ((d : Nat) : Rat))) := by
      apply List.map_congr_left; intro p _
      exact mulPoly_eq _ p
    rw [e, List.map_map]
    have e2 : (canon ∘ scalePoly (1 / ((d : Nat) : Rat)) (1 / ((d : Nat) : Rat)))
        = (scalePoly (1 / ((d : Nat) : Rat)) (1 / ((d : Nat) : Rat))) ∘ canon := by
      funext p; exact canon_scale _ hk p
    rw [e2, ← List.map_map, membersApart_scale _ hk]

end GeomV.C03
