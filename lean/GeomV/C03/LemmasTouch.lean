import GeomV.C03.LemmasMCentroid
import GeomV.C03.LemmasPip
/-!
Evaluation of `area` on spellings of a polygon whose rings may touch in single points
(`Spec.ValidPolyT`): the decision of fix 7bc15fa — vertices first, then the middles of the edges, the
first point that is not `OnEdge` decides — is correct, because every one of those points of a hole is
inside-or-on the rest and one of them strictly inside (for the shell: outside-or-on / strictly outside).
-/
namespace GeomV.C03
open Spec
set_option linter.unusedSimpArgs false

/-! ### the points `area` asks: vertices and edge middles -/

def midS (e : P × P) : P := ⟨(e.1.x + e.2.x) / 2, (e.1.y + e.2.y) / 2⟩

/-- vertices and edge middles of a ring in open spelling, as `Spec.ringPlacedT` lists them -/
def ptsT (r : Ring) : List P := r ++ (cycPairs r).map midS

theorem mid_eq_midS (a b : P) : mid a b = midS (a, b) := by
  unfold mid midS; congr 1 <;> ring

theorem midS_swap (e : P × P) : midS (swapP e) = midS e := by
  unfold midS swapP; congr 1 <;> ring

theorem midsAux_eq (f : P) (l : List P) : midsAux f l = (pairs (l ++ [f])).map midS := by
  induction l with
  | nil => rfl
  | cons x t ih =>
    cases t with
    | nil => simp [midsAux, pairs, mid_eq_midS]
    | cons y t' =>
      simp only [midsAux, List.cons_append, pairs, List.map_cons, mid_eq_midS] at ih ⊢
      rw [ih]

theorem edgeMids_eq (l : List P) : edgeMids l = (cycPairs l).map midS := by
  cases l with
  | nil => rfl
  | cons a t => exact midsAux_eq a (a :: t)

theorem ptsM_eq (l : List P) : l ++ edgeMids l = ptsT l := by rw [edgeMids_eq]; rfl

theorem mem_closeRing_iff {v : P} {l : List P} : v ∈ closeRing l ↔ v ∈ l := by
  constructor
  · exact mem_closeRing
  · intro h
    cases l with
    | nil => exact h
    | cons a t =>
      simp only [closeRing, List.cons_append, List.mem_cons, List.mem_append] at h ⊢
      rcases h with h | h
      · exact Or.inl h
      · exact Or.inr (Or.inl h)

theorem cycPairs_closeRing (a : P) (t : List P) :
    cycPairs (closeRing (a :: t)) = cycPairs (a :: t) ++ [(a, a)] := by
  show pairs ((a :: (t ++ [a])) ++ [a]) = pairs (a :: t ++ [a]) ++ [(a, a)]
  have e : (a :: (t ++ [a])) ++ [a] = (a :: t) ++ [a, a] := by simp
  rw [e, pairs_snoc2]

theorem mem_ptsT_closeRing (v : P) (l : List P) : v ∈ ptsT (closeRing l) ↔ v ∈ ptsT l := by
  cases l with
  | nil => exact Iff.rfl
  | cons a t =>
    unfold ptsT
    rw [cycPairs_closeRing, List.map_append]
    simp only [List.mem_append, mem_closeRing_iff, List.map_cons, List.map_nil, List.mem_singleton]
    have hm : midS (a, a) = a := by
      unfold midS; cases a; simp
    constructor
    · rintro (h | h | h)
      · exact Or.inl h
      · exact Or.inr h
      · left; rw [h, hm]; simp
    · rintro (h | h)
      · exact Or.inl h
      · exact Or.inr (Or.inl h)

theorem mem_ptsT_ap0 (v : P) (s : Spell) (r : Ring) : v ∈ ptsT (s.ap0 r) ↔ v ∈ ptsT r := by
  unfold ptsT
  simp only [List.mem_append]
  have h1 : v ∈ s.ap0 r ↔ v ∈ r := (ap0_perm s r).mem_iff
  have h2 : v ∈ (cycPairs (s.ap0 r)).map midS ↔ v ∈ (cycPairs r).map midS := by
    rcases cycPairs_ap0 s r with h | h
    · exact (h.map midS).mem_iff
    · rw [(h.map midS).mem_iff, List.map_map]
      have : (midS ∘ swapP) = midS := by funext e; exact midS_swap e
      rw [this]
  rw [h1, h2]

theorem mem_ptsT_ap (v : P) (s : Spell) (r : Ring) : v ∈ ptsT (s.ap r) ↔ v ∈ ptsT r := by
  rw [Spec.Spell.ap_eq]
  split
  · rw [mem_ptsT_closeRing, mem_ptsT_ap0]
  · exact mem_ptsT_ap0 v s r

/-- `g'` spells the curve `g`; the points `area` asks of `g'` are the vertices and edge middles of `g` -/
structure SameCurveT (g g' : Ring) : Prop where
  sc : SameCurve g g'
  len3 : 3 ≤ g'.length
  pts : ∀ v, v ∈ g' ++ edgeMids g' ↔ v ∈ ptsT g

theorem sameCurveT_ap (s : Spell) {r : Ring} (h : SimpleRing r = true) : SameCurveT r (s.ap r) := by
  have hf := ringFacts_of_simple h
  refine ⟨sameCurve_ap s h, ?_, ?_⟩
  · have := length_ap_ge s r; have := hf.len; omega
  · intro v; rw [ptsM_eq, mem_ptsT_ap]

theorem forall₂_respellT {sh : List Spell} {holes : Poly} (hlen : sh.length = holes.length)
    (hs : ∀ h ∈ holes, SimpleRing h = true) : List.Forall₂ SameCurveT holes (respell sh holes) := by
  induction holes generalizing sh with
  | nil => cases sh <;> simp [respell]
  | cons h t ih =>
    cases sh with
    | nil => simp at hlen
    | cons s sh' =>
      simp only [respell, List.zipWith_cons_cons]
      exact List.Forall₂.cons (sameCurveT_ap s (hs h (by simp)))
        (ih (by simpa using hlen) (fun g hg => hs g (by simp [hg])))

theorem forall₂_mem_rightT {l l' : Poly} (h : List.Forall₂ SameCurveT l l') {g' : Ring}
    (hg : g' ∈ l') : ∃ g ∈ l, SameCurveT g g' := by
  induction h with
  | nil => simp at hg
  | cons hab _ ih =>
    rcases List.mem_cons.mp hg with e | e
    · subst e; exact ⟨_, by simp, hab⟩
    · obtain ⟨g, hg1, hg2⟩ := ih e; exact ⟨g, by simp [hg1], hg2⟩

/-! ### the decision loop -/

/-- every asked point answers `s` or `OnEdge`, and one answers `s`: the loop returns `s` -/
theorem firstDecisive_weak {others : Poly} {s : Side} (hs : s ≠ .onEdge) :
    ∀ l : List P, (∀ v ∈ l, pip v others = s ∨ pip v others = .onEdge) →
      (∃ v ∈ l, pip v others = s) → firstDecisive others l = some s := by
  intro l
  induction l with
  | nil => intro _ ⟨v, hv, _⟩; simp at hv
  | cons v t ih =>
    intro hall hex
    unfold firstDecisive
    rcases hall v (by simp) with h | h
    · rw [h]; cases s <;> simp_all
    · rw [h]
      simp only []
      apply ih (fun w hw => hall w (by simp [hw]))
      obtain ⟨w, hw, hws⟩ := hex
      rcases List.mem_cons.mp hw with e | e
      · subst e; rw [h] at hws; exact absurd hws.symm hs
      · exact ⟨w, e, hws⟩

theorem ringArea_insideT {r : Ring} {others : Poly} (hl : 2 ≤ r.length)
    (hall : ∀ v ∈ r ++ edgeMids r, pip v others = .inside ∨ pip v others = .onEdge)
    (hex : ∃ v ∈ r ++ edgeMids r, pip v others = .inside) :
    ringArea false r others = -Spec.measure r := by
  unfold ringArea
  rw [if_neg (by omega)]
  simp only [firstDecisive_weak (by decide) _ hall hex, ringArea_A]
  simp

theorem ringArea_outsideT {r : Ring} {others : Poly} (hl : 2 ≤ r.length)
    (hall : ∀ v ∈ r ++ edgeMids r, pip v others = .outside ∨ pip v others = .onEdge)
    (hex : ∃ v ∈ r ++ edgeMids r, pip v others = .outside) :
    ringArea false r others = Spec.measure r := by
  unfold ringArea
  rw [if_neg (by omega)]
  simp only [firstDecisive_weak (by decide) _ hall hex, ringArea_A]
  simp

/-! ### the classification against several rings, weak forms -/

theorem sideRings_weakOut {v : P} {rs : Poly} (h : ∀ g ∈ rs, sideRing v g ≠ .inside) :
    sideRings v rs = .outside ∨ sideRings v rs = .onEdge := by
  unfold sideRings
  by_cases h1 : rs.any (fun r => sideRing v r == .onEdge) = true
  · right; rw [if_pos h1]
  · left
    rw [if_neg h1]
    have h2 : rs.countP (fun r => sideRing v r == .inside) = 0 := by
      rw [List.countP_eq_zero]; intro g hg; simpa using h g hg
    rw [h2]; simp

theorem sideRings_weakIn {v : P} {shell : Ring} {os : Poly} (h1 : sideRing v shell ≠ .outside)
    (h : ∀ g ∈ os, sideRing v g ≠ .inside) :
    sideRings v (shell :: os) = .inside ∨ sideRings v (shell :: os) = .onEdge := by
  by_cases hE : (shell :: os).any (fun r => sideRing v r == .onEdge) = true
  · right; unfold sideRings; rw [if_pos hE]
  · left
    have hE' : ∀ g ∈ shell :: os, sideRing v g ≠ .onEdge := by
      intro g hg c
      apply hE
      rw [List.any_eq_true]; exact ⟨g, hg, by rw [c]; rfl⟩
    apply sideRings_inside
    · have := hE' shell (by simp)
      cases hs : sideRing v shell <;> simp_all
    · intro g hg
      have := hE' g (by simp [hg])
      have := h g hg
      cases hs : sideRing v g <;> simp_all

/-! ### the weights `area` gives the rings of a spelled touching polygon -/

theorem ptsT_all_any {r : Ring} {okW okS : P → Bool}
    (h : ((r ++ (cycPairs r).map fun e => (⟨(e.1.x + e.2.x) / 2, (e.1.y + e.2.y) / 2⟩ : P)).all okW &&
      (r ++ (cycPairs r).map fun e => (⟨(e.1.x + e.2.x) / 2, (e.1.y + e.2.y) / 2⟩ : P)).any okS) = true) :
    (∀ v ∈ ptsT r, okW v = true) ∧ ∃ v ∈ ptsT r, okS v = true := by
  simp only [Bool.and_eq_true, List.all_eq_true, List.any_eq_true] at h
  exact h

theorem holes_listT {shell shell' : Ring} (hs : SameCurveT shell shell') :
    ∀ (rest rest' : Poly), List.Forall₂ SameCurveT rest rest' → ∀ (pre pre' : Poly), List.Forall₂ SameCurveT pre pre' →
    holesPlacedT shell pre rest = true →
    (withOthers (shell' :: pre') rest').map (fun ro => (ro.1, ringArea false ro.1 ro.2))
      = rest'.map fun h' => (h', -(Spec.measure h')) := by
  intro rest rest' hrr
  induction hrr with
  | nil => intro pre pre' _ _; rfl
  | @cons h h' t t' hh ht ih =>
    intro pre pre' hpp hok
    simp only [holesPlacedT, Bool.and_eq_true] at hok
    obtain ⟨hok1, hok2⟩ := hok
    obtain ⟨hW, v0, hv0, hS⟩ := ptsT_all_any (r := h) hok1
    simp only [Bool.and_eq_true, bne_iff_ne, ne_eq, beq_iff_eq, List.all_eq_true] at hW hS
    have hw : withOthers (shell' :: pre') (h' :: t') =
        (h', shell' :: pre' ++ t') :: withOthers (shell' :: (pre' ++ [h'])) t' := rfl
    rw [hw, List.map_cons, List.map_cons]
    have hall : List.Forall₂ SameCurveT (pre ++ t) (pre' ++ t') := List.rel_append hpp ht
    have h3 : ∀ g' ∈ shell' :: (pre' ++ t'), 3 ≤ g'.length := by
      intro g' hg'
      rcases List.mem_cons.mp hg' with e | e
      · rw [e]; exact hs.len3
      · obtain ⟨g, _, hR⟩ := forall₂_mem_rightT hall e; exact hR.len3
    have hAll : ∀ v ∈ h' ++ edgeMids h', pip v (shell' :: pre' ++ t') = .inside ∨ pip v (shell' :: pre' ++ t') = .onEdge := by
      intro v hv
      have hvp := (hh.pts v).mp hv
      have hw1 := hW v hvp
      have : sideRings v (shell' :: (pre' ++ t')) = .inside ∨ sideRings v (shell' :: (pre' ++ t')) = .onEdge := by
        apply sideRings_weakIn
        · rw [hs.sc.side]; exact hw1.1
        · intro g' hg'
          obtain ⟨g, hg, hR⟩ := forall₂_mem_rightT hall hg'
          rw [hR.sc.side]; exact hw1.2 g hg
      simp only [List.cons_append]
      rw [pip_spec v _ h3]
      rcases this with e | e
      · left; rw [e]; rfl
      · right; rw [e]; rfl
    have hEx : ∃ v ∈ h' ++ edgeMids h', pip v (shell' :: pre' ++ t') = .inside := by
      refine ⟨v0, (hh.pts v0).mpr hv0, ?_⟩
      have : sideRings v0 (shell' :: (pre' ++ t')) = .inside := by
        apply sideRings_inside
        · rw [hs.sc.side]; exact hS.1
        · intro g' hg'
          obtain ⟨g, hg, hR⟩ := forall₂_mem_rightT hall hg'
          rw [hR.sc.side]; exact hS.2 g hg
      simp only [List.cons_append]
      rw [pip_spec v0 _ h3, this]; rfl
    rw [ringArea_insideT hh.sc.len hAll hEx]
    congr 1
    exact ih (pre ++ [h]) (pre' ++ [h']) (List.rel_append hpp (List.Forall₂.cons hh List.Forall₂.nil)) hok2

/-- rings of a spelled touching polygon with the weights `area` gives them -/
theorem weights_listT (shell : Ring) (holes : Poly) (s0 : Spell) (sh : List Spell)
    (hlen : sh.length = holes.length) (hv : ValidPolyT (shell :: holes) = true) :
    (withOthers [] (respell (s0 :: sh) (shell :: holes))).map
        (fun ro => (ro.1, ringArea ((respell (s0 :: sh) (shell :: holes)).length == 1) ro.1 ro.2))
      = (weights (respell (s0 :: sh) (shell :: holes))).map fun x => (x.2, x.1) := by
  simp only [ValidPolyT, Bool.and_eq_true] at hv
  obtain ⟨⟨⟨hsimple, _⟩, hshell⟩, hholes⟩ := hv
  simp only [List.all_eq_true] at hsimple
  have hS : SameCurveT shell (s0.ap shell) := sameCurveT_ap s0 (hsimple shell (by simp))
  have hH : List.Forall₂ SameCurveT holes (respell sh holes) :=
    forall₂_respellT hlen (fun h hh => hsimple h (by simp [hh]))
  have hp' : respell (s0 :: sh) (shell :: holes) = s0.ap shell :: respell sh holes := rfl
  rw [hp']
  have hw : withOthers [] (s0.ap shell :: respell sh holes) =
      (s0.ap shell, respell sh holes) :: withOthers [s0.ap shell] (respell sh holes) := rfl
  rw [hw, List.map_cons]
  simp only [weights, List.map_cons, List.map_map]
  generalize respell sh holes = holes' at hH hw ⊢
  cases hH with
  | nil =>
    simp only [List.length_cons, List.length_nil]
    rw [show ((0 + 1 == 1) = true) from rfl, ringArea_single hS.sc.len]
    rfl
  | @cons h h' t t' hh ht =>
    have hH' : List.Forall₂ SameCurveT (h :: t) (h' :: t') := List.Forall₂.cons hh ht
    have hsingle : ((s0.ap shell :: h' :: t').length == 1) = false := by simp
    rw [hsingle]
    obtain ⟨hW, v0, hv0, hSt⟩ := ptsT_all_any (r := shell) hshell
    simp only [Bool.true_and, bne_iff_ne, ne_eq, beq_iff_eq, List.all_eq_true] at hW hSt
    have h3 : ∀ g' ∈ h' :: t', 3 ≤ g'.length := by
      intro g' hg'
      obtain ⟨g, _, hR⟩ := forall₂_mem_rightT hH' hg'; exact hR.len3
    have hAll : ∀ v ∈ s0.ap shell ++ edgeMids (s0.ap shell), pip v (h' :: t') = .outside ∨ pip v (h' :: t') = .onEdge := by
      intro v hv
      have hvp := (hS.pts v).mp hv
      have : sideRings v (h' :: t') = .outside ∨ sideRings v (h' :: t') = .onEdge := by
        apply sideRings_weakOut
        intro g' hg'
        obtain ⟨g, hg, hR⟩ := forall₂_mem_rightT hH' hg'
        rw [hR.sc.side]; exact hW v hvp g hg
      rw [pip_spec v _ h3]
      rcases this with e | e
      · left; rw [e]; rfl
      · right; rw [e]; rfl
    have hEx : ∃ v ∈ s0.ap shell ++ edgeMids (s0.ap shell), pip v (h' :: t') = .outside := by
      refine ⟨v0, (hS.pts v0).mpr hv0, ?_⟩
      have : sideRings v0 (h' :: t') = .outside := by
        apply sideRings_outside
        intro g' hg'
        obtain ⟨g, hg, hR⟩ := forall₂_mem_rightT hH' hg'
        rw [hR.sc.side]; exact hSt g hg
      rw [pip_spec v0 _ h3, this]; rfl
    rw [ringArea_outsideT hS.sc.len hAll hEx]
    congr 1
    rw [holes_listT hS (h :: t) (h' :: t') hH' [] [] List.Forall₂.nil hholes]
    apply List.map_congr_left; intro g _; rfl

end GeomV.C03
