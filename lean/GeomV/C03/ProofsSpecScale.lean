import GeomV.C03.ProofsOrder
/-!
# C03 — the specification is scale invariant

The judge evaluates `ValidPoly` / `ValidPolyT` / the ring order of float cases on a copy whose
coordinates are all multiplied by one power of two that makes them integers (`Main.scaleInt`: `Rat`
arithmetic on integers is an order of magnitude faster) and every base polygon is generated at many
dyadic scales.  Here: validity (both classes), the point-against-ring classification and the shell
index are invariant under every positive uniform scaling, and measures scale by the square — so the
verdict computed on the scaled copy is the verdict of the case itself.
`scalePoly k k p` divides every coordinate by `k`; multiplication by `c` is `k = 1/c`.
-/
namespace GeomV.C03
open Spec
set_option linter.unusedSimpArgs false

section
variable (k : Rat) (hk : 0 < k)

local notation "S" => scPt k k
local notation "SS" => scSeg k k

/-! ### lists of edges -/

theorem spec_pairs_map (f : P → P) (l : List P) :
    Spec.pairs (l.map f) = (Spec.pairs l).map fun s => (f s.1, f s.2) := by
  induction l with
  | nil => rfl
  | cons a t ih =>
    cases t with
    | nil => rfl
    | cons b t' =>
      simp only [List.map_cons, Spec.pairs] at ih ⊢
      rw [ih]

theorem cycPairs_map (f : P → P) (l : List P) :
    cycPairs (l.map f) = (cycPairs l).map fun s => (f s.1, f s.2) := by
  cases l with
  | nil => rfl
  | cons a t =>
    show Spec.pairs (f a :: t.map f ++ [f a]) = (Spec.pairs (a :: t ++ [a])).map _
    rw [← spec_pairs_map]; simp

theorem dropLast_map' (f : P → P) (l : List P) : (l.map f).dropLast = l.dropLast.map f := by
  induction l with
  | nil => rfl
  | cons a t ih =>
    cases t with
    | nil => rfl
    | cons b t' => simp only [List.map_cons, List.dropLast_cons_cons] at ih ⊢; rw [ih]

theorem openRing_map (f : P → P) (hf : Function.Injective f) (l : List P) :
    openRing (l.map f) = (openRing l).map f := by
  unfold openRing
  rw [List.length_map, List.getLast?_map, List.head?_map]
  have : (l.getLast?.map f = l.head?.map f) ↔ (l.getLast? = l.head?) :=
    (Option.map_injective hf).eq_iff
  by_cases h : 2 ≤ l.length ∧ l.getLast? = l.head?
  · rw [if_pos h, if_pos ⟨h.1, this.mpr h.2⟩, dropLast_map']
  · rw [if_neg h, if_neg (fun c => h ⟨c.1, this.mp c.2⟩)]

theorem scPt_injective (hk : 0 < k) : Function.Injective (S) := fun a b h =>
  (scPt_inj k k (ne_of_gt hk) (ne_of_gt hk) a b).mp h

theorem edges_scale (hk : 0 < k) (r : Ring) : edges (r.map (S)) = (edges r).map (SS) := by
  unfold edges
  rw [openRing_map _ (scPt_injective k hk), cycPairs_map]; rfl

/-! ### point against segment / ring -/

theorem spec_onSeg_scale (hk : 0 < k) (p a b : P) : Spec.onSeg (S p) (S a) (S b) = Spec.onSeg p a b := by
  rw [← c02_onSeg_eq, ← c02_onSeg_eq]
  exact c02_onSeg_scale k k hk hk p (a, b)

theorem spec_crossHO_scale (hk : 0 < k) (p a b : P) : Spec.crossHO (S p) (S a) (S b) = Spec.crossHO p a b := by
  rw [← c02_crossHO_eq, ← c02_crossHO_eq]
  exact c02_crossHO_scale k k hk hk p (a, b)

theorem sideRing_scale (hk : 0 < k) (p : P) (r : Ring) : sideRing (S p) (r.map (S)) = sideRing p r := by
  unfold sideRing
  simp only [edges_scale k hk, List.any_map, List.countP_map]
  have h1 : ((fun e : P × P => Spec.onSeg (S p) e.1 e.2) ∘ SS) = fun e => Spec.onSeg p e.1 e.2 := by
    funext e; exact spec_onSeg_scale k hk p e.1 e.2
  have h2 : ((fun e : P × P => Spec.crossHO (S p) e.1 e.2) ∘ SS) = fun e => Spec.crossHO p e.1 e.2 := by
    funext e; exact spec_crossHO_scale k hk p e.1 e.2
  rw [h1, h2]

theorem sideRings_scale (hk : 0 < k) (p : P) (rs : Poly) :
    sideRings (S p) (scalePoly k k rs) = sideRings p rs := by
  unfold sideRings scalePoly
  simp only [List.any_map, List.countP_map]
  have h1 : ((fun r => sideRing (S p) r == Spec.Side.onEdge) ∘ scaleRing k k) = fun r => sideRing p r == Spec.Side.onEdge := by
    funext r; simp only [Function.comp, scaleRing_eq_map, sideRing_scale k hk]
  have h2 : ((fun r => sideRing (S p) r == Spec.Side.inside) ∘ scaleRing k k) = fun r => sideRing p r == Spec.Side.inside := by
    funext r; simp only [Function.comp, scaleRing_eq_map, sideRing_scale k hk]
  rw [h1, h2]

/-! ### segments against segments -/

theorem cross_scale (hk : 0 < k) (a b p : P) : Spec.cross (S a) (S b) (S p) = Spec.cross a b p / (k * k) := by
  have := ne_of_gt hk
  unfold Spec.cross scPt; field_simp

theorem pos_div_iff (c : Rat) (hc : 0 < c) (q : Rat) : 0 < q / c ↔ 0 < q := by
  constructor
  · intro h; have := mul_pos h hc; rwa [div_mul_cancel₀ _ (ne_of_gt hc)] at this
  · intro h; exact div_pos h hc

theorem neg_div_iff (c : Rat) (hc : 0 < c) (q : Rat) : q / c < 0 ↔ q < 0 := by
  constructor
  · intro h; have := mul_neg_of_neg_of_pos h hc; rwa [div_mul_cancel₀ _ (ne_of_gt hc)] at this
  · intro h; exact div_neg_of_neg_of_pos h hc

theorem zero_div_iff (c : Rat) (hc : 0 < c) (q : Rat) : (q / c == 0) = (q == 0) := by
  rw [Bool.eq_iff_iff]; simp only [beq_iff_eq]
  constructor
  · intro h; rcases div_eq_zero_iff.mp h with h | h
    · exact h
    · exact absurd h (ne_of_gt hc)
  · intro h; rw [h]; simp

theorem segsMeet_scale (hk : 0 < k) (a b c d : P) : segsMeet (S a) (S b) (S c) (S d) = segsMeet a b c d := by
  have hkk : 0 < k * k := by positivity
  unfold segsMeet
  simp only [cross_scale k hk, spec_onSeg_scale k hk, pos_div_iff _ hkk, neg_div_iff _ hkk]

theorem foldsBack_scale (hk : 0 < k) (e f : P × P) : foldsBack (SS e) (SS f) = foldsBack e f := by
  have hkk : 0 < k * k := by positivity
  have hk0 := ne_of_gt hk
  unfold foldsBack scSeg
  simp only [cross_scale k hk, zero_div_iff _ hkk]
  congr 2
  have : (e.1.x / k - e.2.x / k) * (f.2.x / k - e.2.x / k) + (e.1.y / k - e.2.y / k) * (f.2.y / k - e.2.y / k)
      = ((e.1.x - e.2.x) * (f.2.x - e.2.x) + (e.1.y - e.2.y) * (f.2.y - e.2.y)) / (k * k) := by
    field_simp
  simp only [scPt, this, pos_div_iff _ hkk]

theorem foldsBack_scale' (hk : 0 < k) (e f : P × P) :
    foldsBack (S e.1, S e.2) (S f.1, S f.2) = foldsBack e f := foldsBack_scale k hk e f

theorem noCrossing_scale (hk : 0 < k) (es : List (P × P)) :
    noCrossing (es.map fun s => (S s.1, S s.2)) = noCrossing es := by
  unfold noCrossing
  simp only [List.length_map, List.getElem?_map]
  congr 1; funext i; congr 1; funext j
  cases es[i]? <;> cases es[j]? <;> simp only [Option.map_some, Option.map_none]
  simp only [foldsBack_scale' k hk, segsMeet_scale k hk]

/-! ### rings and polygons -/

theorem shoelace2_scale (hk : 0 < k) (r : Ring) : shoelace2 (r.map (S)) = shoelace2 r / (k * k) := by
  rw [← shoelace_eq_textbook, ← shoelace_eq_textbook, ← scaleRing_eq_map,
    goCyc_shoeF_scale k k (ne_of_gt hk) (ne_of_gt hk)]

theorem simpleRing_scale (hk : 0 < k) (r : Ring) : SimpleRing (r.map (S)) = SimpleRing r := by
  have hkk : 0 < k * k := by positivity
  have hinj := scPt_injective k hk
  unfold SimpleRing
  rw [List.length_map, cycPairs_map, noCrossing_scale k hk, shoelace2_scale k hk, List.all_map,
    List.getLast?_map, List.head?_map]
  have h1 : ((fun e : P × P => e.1 != e.2) ∘ fun s : P × P => (S s.1, S s.2)) = fun e => e.1 != e.2 := by
    funext e
    simp only [Function.comp, bne]
    congr 1
    rw [Bool.eq_iff_iff]; simp only [beq_iff_eq, hinj.eq_iff]
  have h2 : (shoelace2 r / (k * k) != 0) = (shoelace2 r != 0) := by
    simp only [bne, zero_div_iff _ hkk]
  have h3 : decide (r.getLast?.map (S) ≠ r.head?.map (S)) = decide (r.getLast? ≠ r.head?) := by
    congr 1; rw [ne_eq, ne_eq, (Option.map_injective hinj).eq_iff]
  rw [h1, h2, h3]

theorem ringsApart_scale (hk : 0 < k) (r s : Ring) : ringsApart (r.map (S)) (s.map (S)) = ringsApart r s := by
  unfold ringsApart
  simp only [cycPairs_map, List.all_map]
  congr 1; funext e
  simp only [Function.comp]
  congr 1; funext f
  simp only [Function.comp, segsMeet_scale k hk]

theorem all_side_scale (hk : 0 < k) (v : P) (c : Spec.Side) (others : Poly) :
    (scalePoly k k others).all (fun g => sideRing (S v) g == c) = others.all (fun g => sideRing v g == c) := by
  unfold scalePoly
  rw [List.all_map]
  congr 1; funext g
  simp only [Function.comp, scaleRing_eq_map, sideRing_scale k hk]

theorem holeOK_scale (hk : 0 < k) (shell h : Ring) (others : Poly) :
    holeOK (shell.map (S)) (h.map (S)) (scalePoly k k others) = holeOK shell h others := by
  unfold holeOK
  rw [List.all_map]
  congr 1; funext v
  simp only [Function.comp, sideRing_scale k hk, all_side_scale k hk]

theorem holesOK_scale (hk : 0 < k) (shell : Ring) (rest : Poly) : ∀ pre : Poly,
    holesOK (shell.map (S)) (scalePoly k k pre) (scalePoly k k rest) = holesOK shell pre rest := by
  induction rest with
  | nil => intro pre; rfl
  | cons h t ih =>
    intro pre
    have e : scalePoly k k (h :: t) = h.map (S) :: scalePoly k k t := rfl
    rw [e]
    simp only [holesOK]
    have e2 : scalePoly k k pre ++ [h.map (S)] = scalePoly k k (pre ++ [h]) := by
      rw [scalePoly_append]; rfl
    rw [← scalePoly_append, holeOK_scale k hk, e2, ih]

theorem pairwiseApart_scale (hk : 0 < k) (p : Poly) : pairwiseApart (scalePoly k k p) = pairwiseApart p := by
  induction p with
  | nil => rfl
  | cons r t ih =>
    have e : scalePoly k k (r :: t) = r.map (S) :: scalePoly k k t := rfl
    rw [e]
    simp only [pairwiseApart, ih]
    congr 1
    unfold scalePoly
    rw [List.all_map]
    congr 1; funext s
    simp only [Function.comp, scaleRing_eq_map, ringsApart_scale k hk]

/-- **`ValidPoly` is invariant under every positive uniform scaling.** -/
theorem C03_validPoly_scale (hk : 0 < k) (p : Poly) : ValidPoly (scalePoly k k p) = ValidPoly p := by
  cases p with
  | nil => rfl
  | cons shell holes =>
    have e : scalePoly k k (shell :: holes) = shell.map (S) :: scalePoly k k holes := rfl
    rw [e]
    simp only [ValidPoly]
    rw [← e, pairwiseApart_scale k hk]
    have h1 : (scalePoly k k (shell :: holes)).all SimpleRing = (shell :: holes).all SimpleRing := by
      unfold scalePoly; rw [List.all_map]; congr 1; funext r
      simp only [Function.comp, scaleRing_eq_map, simpleRing_scale k hk]
    have h2 : (shell.map (S)).all (fun v => (scalePoly k k holes).all fun h => sideRing v h == .outside)
        = shell.all (fun v => holes.all fun h => sideRing v h == .outside) := by
      rw [List.all_map]; congr 1; funext v
      simp only [Function.comp, all_side_scale k hk]
    have h3 := holesOK_scale k hk shell holes []
    have e0 : scalePoly k k ([] : Poly) = [] := rfl
    rw [e0] at h3
    rw [h1, h2, h3]

/-! ### measures -/

theorem measure_scale (hk : 0 < k) (r : Ring) : Spec.measure (r.map (S)) = Spec.measure r / (k * k) := by
  have hkk : 0 < k * k := by positivity
  unfold Spec.measure
  rw [shoelace2_scale k hk, specAbsR_eq_abs, specAbsR_eq_abs, abs_div, abs_of_pos hkk]; ring

/-- **The specification's area scales by the square**: `Spec.area (p / k) = Spec.area p / k²`. -/
theorem C03_specArea_scale (hk : 0 < k) (p : Poly) : Spec.area (scalePoly k k p) = Spec.area p / (k * k) := by
  cases p with
  | nil => simp [scalePoly, Spec.area]
  | cons shell holes =>
    have e : scalePoly k k (shell :: holes) = shell.map (S) :: scalePoly k k holes := rfl
    rw [e]
    simp only [Spec.area, measure_scale k hk, sumR_eq_sum]
    have : ((scalePoly k k holes).map Spec.measure) = (holes.map Spec.measure).map (· / (k * k)) := by
      unfold scalePoly; rw [List.map_map, List.map_map]
      apply List.map_congr_left; intro r _
      simp only [Function.comp, scaleRing_eq_map, measure_scale k hk]
    rw [this, sum_div]; ring

/-! ### rings touching in single points -/

theorem foldl_hom {α β γ δ : Type} (g : α → β → α) (g' : γ → δ → γ) (h : α → γ) (φ : β → δ)
    (hg : ∀ a x, g' (h a) (φ x) = h (g a x)) (l : List β) (a : α) :
    (l.map φ).foldl g' (h a) = h (l.foldl g a) := by
  induction l generalizing a with
  | nil => rfl
  | cons x t ih => simp only [List.map_cons, List.foldl_cons, hg, ih]

/-- one step of `Spec.contacts` -/
def contactStep (e : P × P) (acc : Option (List P)) (f : P × P) : Option (List P) :=
  match acc with
  | none => none
  | some l =>
    if segsMeet e.1 e.2 f.1 f.2 then
      let den := (e.2.x - e.1.x) * (f.2.y - f.1.y) - (e.2.y - e.1.y) * (f.2.x - f.1.x)
      if den == 0 then none else
      let t := ((f.1.x - e.1.x) * (f.2.y - f.1.y) - (f.1.y - e.1.y) * (f.2.x - f.1.x)) / den
      some ((⟨e.1.x + t * (e.2.x - e.1.x), e.1.y + t * (e.2.y - e.1.y)⟩ : P) :: l)
    else some l

theorem contacts_eq (r s : Ring) :
    contacts r s = (cycPairs r).foldl (fun acc e => (cycPairs s).foldl (contactStep e) acc) (some []) := rfl

theorem contactStep_scale (hk : 0 < k) (e f : P × P) (acc : Option (List P)) :
    contactStep (S e.1, S e.2) (acc.map (·.map (S))) (S f.1, S f.2) = (contactStep e acc f).map (·.map (S)) := by
  have hk0 := ne_of_gt hk
  have hkk : 0 < k * k := by positivity
  cases acc with
  | none => rfl
  | some l =>
    simp only [contactStep, Option.map_some, segsMeet_scale k hk]
    by_cases hm : segsMeet e.1 e.2 f.1 f.2 = true
    · simp only [hm, if_true]
      have hden : ((S e.2).x - (S e.1).x) * ((S f.2).y - (S f.1).y) - ((S e.2).y - (S e.1).y) * ((S f.2).x - (S f.1).x)
          = ((e.2.x - e.1.x) * (f.2.y - f.1.y) - (e.2.y - e.1.y) * (f.2.x - f.1.x)) / (k * k) := by
        simp only [scPt]; field_simp
      have hnum : ((S f.1).x - (S e.1).x) * ((S f.2).y - (S f.1).y) - ((S f.1).y - (S e.1).y) * ((S f.2).x - (S f.1).x)
          = ((f.1.x - e.1.x) * (f.2.y - f.1.y) - (f.1.y - e.1.y) * (f.2.x - f.1.x)) / (k * k) := by
        simp only [scPt]; field_simp
      rw [hden, hnum, zero_div_iff _ hkk]
      generalize (e.2.x - e.1.x) * (f.2.y - f.1.y) - (e.2.y - e.1.y) * (f.2.x - f.1.x) = den
      generalize (f.1.x - e.1.x) * (f.2.y - f.1.y) - (f.1.y - e.1.y) * (f.2.x - f.1.x) = num
      by_cases hd : (den == 0) = true
      · simp only [hd, if_true, Option.map_none]
      · simp only [hd, Bool.false_eq_true, if_false, Option.map_some, List.map_cons]
        have hd' : den ≠ 0 := by simpa using hd
        have ht : num / (k * k) / (den / (k * k)) = num / den := by field_simp
        rw [ht]
        congr 2
        simp only [scPt]
        congr 1 <;> ring
    · simp only [hm, Bool.false_eq_true, if_false, Option.map_some]

theorem contacts_scale (hk : 0 < k) (r s : Ring) :
    contacts (r.map (S)) (s.map (S)) = (contacts r s).map (·.map (S)) := by
  rw [contacts_eq, contacts_eq, cycPairs_map, cycPairs_map]
  have h0 : (some [] : Option (List P)) = (some ([] : List P)).map (·.map (S)) := rfl
  rw [h0]
  apply foldl_hom (fun acc e => (cycPairs s).foldl (contactStep e) acc)
    (fun acc e => ((cycPairs s).map fun s => (S s.1, S s.2)).foldl (contactStep e) acc)
    (fun acc => acc.map (·.map (S))) (fun s => (S s.1, S s.2))
  intro acc e
  exact foldl_hom (contactStep e) (contactStep (S e.1, S e.2)) (fun acc => acc.map (·.map (S)))
    (fun s => (S s.1, S s.2)) (fun a x => contactStep_scale k hk e x a) (cycPairs s) acc

theorem touchKind_scale (hk : 0 < k) (r s : Ring) : touchKind (r.map (S)) (s.map (S)) = touchKind r s := by
  have hinj := scPt_injective k hk
  unfold touchKind
  rw [contacts_scale k hk]
  cases contacts r s with
  | none => rfl
  | some l =>
    cases l with
    | nil => rfl
    | cons c t =>
      simp only [Option.map_some, List.map_cons, List.all_map]
      have : ((fun x => x == S c) ∘ (S)) = fun x => x == c := by
        funext x; simp only [Function.comp]
        rw [Bool.eq_iff_iff]; simp only [beq_iff_eq, hinj.eq_iff]
      rw [this]

theorem touchForest_scale (hk : 0 < k) (p : Poly) : touchForest (scalePoly k k p) = touchForest p := by
  unfold touchForest
  simp only [scalePoly_length]
  congr 2
  funext st ij
  cases st with
  | none => rfl
  | some comp =>
    simp only [scalePoly, List.getElem?_map]
    cases p[ij.1]? <;> cases p[ij.2]? <;> simp only [Option.map_some, Option.map_none]
    rw [scaleRing_eq_map, scaleRing_eq_map, touchKind_scale k hk]

theorem midpt_scale (e : P × P) :
    (⟨((S e.1).x + (S e.2).x) / 2, ((S e.1).y + (S e.2).y) / 2⟩ : P) = S ⟨(e.1.x + e.2.x) / 2, (e.1.y + e.2.y) / 2⟩ := by
  simp only [scPt]; congr 1 <;> ring

theorem ringPlacedT_scale (hk : 0 < k) (r : Ring) (sh : Option Ring) (hs : Poly) :
    ringPlacedT (r.map (S)) (sh.map (·.map (S))) (scalePoly k k hs) = ringPlacedT r sh hs := by
  unfold ringPlacedT
  simp only [cycPairs_map, List.map_map]
  have hpts : (r.map (S) ++ (cycPairs r).map ((fun e : P × P => (⟨(e.1.x + e.2.x) / 2, (e.1.y + e.2.y) / 2⟩ : P)) ∘ fun s => (S s.1, S s.2)))
      = (r ++ (cycPairs r).map fun e => (⟨(e.1.x + e.2.x) / 2, (e.1.y + e.2.y) / 2⟩ : P)).map (S) := by
    rw [List.map_append, List.map_map]
    congr 1
    apply List.map_congr_left; intro e _
    simp only [Function.comp]; exact midpt_scale k e
  rw [hpts, List.all_map, List.any_map]
  have hall : ∀ (v : P) (c : Spec.Side), (scalePoly k k hs).all (fun g => sideRing (S v) g != c) = hs.all (fun g => sideRing v g != c) := by
    intro v c
    unfold scalePoly; rw [List.all_map]; congr 1; funext g
    simp only [Function.comp, scaleRing_eq_map, sideRing_scale k hk]
  congr 1
  · congr 1; funext v
    simp only [Function.comp, hall, all_side_scale k hk]
    cases sh <;> simp only [Option.map_some, Option.map_none, sideRing_scale k hk]
  · congr 1; funext v
    simp only [Function.comp, hall, all_side_scale k hk]
    cases sh <;> simp only [Option.map_some, Option.map_none, sideRing_scale k hk]

theorem holesPlacedT_scale (hk : 0 < k) (shell : Ring) (rest : Poly) : ∀ pre : Poly,
    holesPlacedT (shell.map (S)) (scalePoly k k pre) (scalePoly k k rest) = holesPlacedT shell pre rest := by
  induction rest with
  | nil => intro pre; rfl
  | cons h t ih =>
    intro pre
    have e : scalePoly k k (h :: t) = h.map (S) :: scalePoly k k t := rfl
    rw [e]
    simp only [holesPlacedT]
    have e2 : scalePoly k k pre ++ [h.map (S)] = scalePoly k k (pre ++ [h]) := by
      rw [scalePoly_append]; rfl
    have e3 := ringPlacedT_scale k hk h (some shell) (pre ++ t)
    simp only [Option.map_some] at e3
    rw [← scalePoly_append, e3, e2, ih]

/-- **`ValidPolyT` (rings touching in single points) is invariant under every positive uniform scaling.** -/
theorem C03_validPolyT_scale (hk : 0 < k) (p : Poly) : ValidPolyT (scalePoly k k p) = ValidPolyT p := by
  cases p with
  | nil => rfl
  | cons shell holes =>
    have e : scalePoly k k (shell :: holes) = shell.map (S) :: scalePoly k k holes := rfl
    rw [e]
    simp only [ValidPolyT]
    rw [← e, touchForest_scale k hk]
    have h1 : (scalePoly k k (shell :: holes)).all SimpleRing = (shell :: holes).all SimpleRing := by
      unfold scalePoly; rw [List.all_map]; congr 1; funext r
      simp only [Function.comp, scaleRing_eq_map, simpleRing_scale k hk]
    have h2 := ringPlacedT_scale k hk shell none holes
    simp only [Option.map_none] at h2
    have h3 := holesPlacedT_scale k hk shell holes []
    have e0 : scalePoly k k ([] : Poly) = [] := rfl
    rw [e0] at h3
    rw [h1, h2, h3]

/-- the class the area / centroid theorems are stated for is scale invariant -/
theorem C03_validAny_scale (hk : 0 < k) (p : Poly) : ValidAny (scalePoly k k p) = ValidAny p := by
  unfold ValidAny; rw [C03_validPoly_scale k hk, C03_validPolyT_scale k hk]

end

/-- **The judge's shortcut is sound**: multiplying every coordinate by a positive `c` (a power of two
in `Main.scaleInt`) changes neither `ValidPoly` nor the point-against-rings classification. -/
theorem C03_validPoly_mul (c : Rat) (hc : 0 < c) (p : Poly) :
    ValidPoly (p.map (·.map fun v => ⟨v.x * c, v.y * c⟩)) = ValidPoly p := by
  have h := C03_validPoly_scale (1 / c) (by positivity) p
  have e : scalePoly (1 / c) (1 / c) p = p.map (·.map fun v => ⟨v.x * c, v.y * c⟩) := by
    unfold scalePoly scaleRing
    congr 1; funext r; congr 1; funext v
    simp
  rw [← e]; exact h

theorem C03_validPolyT_mul (c : Rat) (hc : 0 < c) (p : Poly) :
    ValidPolyT (p.map (·.map fun v => ⟨v.x * c, v.y * c⟩)) = ValidPolyT p := by
  have h := C03_validPolyT_scale (1 / c) (by positivity) p
  have e : scalePoly (1 / c) (1 / c) p = p.map (·.map fun v => ⟨v.x * c, v.y * c⟩) := by
    unfold scalePoly scaleRing
    congr 1; funext r; congr 1; funext v
    simp
  rw [← e]; exact h

theorem eraseIdx_map' {α β : Type} (f : α → β) (l : List α) (i : Nat) : (l.map f).eraseIdx i = (l.eraseIdx i).map f := by
  induction l generalizing i with
  | nil => rfl
  | cons a t ih => cases i with
    | zero => rfl
    | succ j => simp only [List.map_cons, List.eraseIdx_cons_succ, ih]

/-- **The ring the judge takes for the shell is the same on the scaled copy** (`Spec.shellIndex`,
`Spec.shellIndexT`). -/
theorem C03_shellIndex_scale (k : Rat) (hk : 0 < k) (p : Poly) :
    shellIndex (scalePoly k k p) = shellIndex p ∧ shellIndexT (scalePoly k k p) = shellIndexT p := by
  unfold shellIndex shellIndexT
  simp only [scalePoly_length]
  constructor
  · congr 1; funext i
    simp only [scalePoly, List.getElem?_map, eraseIdx_map']
    cases p[i]? with
    | none => rfl
    | some r =>
      simp only [Option.map_some]
      exact C03_validPoly_scale k hk (r :: p.eraseIdx i)
  · congr 1; funext i
    simp only [scalePoly, List.getElem?_map, eraseIdx_map']
    cases p[i]? with
    | none => rfl
    | some r =>
      simp only [Option.map_some]
      exact C03_validPolyT_scale k hk (r :: p.eraseIdx i)

/-- non-vacuity -/
example : ValidPoly (scalePoly (1 / 2 ^ 30) (1 / 2 ^ 30) exPoly) = true := by
  rw [C03_validPoly_scale _ (by positivity)]; decide +kernel
example : ValidPolyT (scalePoly (2 ^ 30) (2 ^ 30) exStar) = true := by
  rw [C03_validPolyT_scale _ (by positivity)]; decide +kernel

end GeomV.C03
