import GeomV.C03.ProofsBBox
/-!
# C03 — the specification is geometric: affine covariance of measure and centroid

The trusted reading of the property is `measure := |shoelace| / 2` and `centroid := moments / (3·shoelace)`.
A sanity theorem for that reading, independent of the model: under EVERY affine map
`T v = (a·x + b·y + tx, c·x + d·y + ty)` the specification's measure is multiplied by `|det T|` and its
centroids (ring, polygon with holes, multi-polygon) are mapped by `T` — as Lebesgue area and the centre
of mass are.  In particular translations, rotations, reflections, shears, anisotropic scalings.
(The generator's float cases are affine images of grid bases.)  Proof: fan decomposition (`cyc_fan`);
for a triangle the moment is `tri2 · (sum of the vertices)`.
-/
namespace GeomV.C03
open Spec
set_option linter.unusedSimpArgs false

structure Aff where
  a : Rat
  b : Rat
  c : Rat
  d : Rat
  tx : Rat
  ty : Rat

def Aff.ap (T : Aff) (v : P) : P := ⟨T.a * v.x + T.b * v.y + T.tx, T.c * v.x + T.d * v.y + T.ty⟩
def Aff.det (T : Aff) : Rat := T.a * T.d - T.b * T.c

theorem tri2_aff (T : Aff) (u v w : P) : tri2 (T.ap u) (T.ap v) (T.ap w) = T.det * tri2 u v w := by
  unfold tri2 Aff.ap Aff.det; ring

theorem pairSum_map (f : P → P → Rat) (T : P → P) (l : List P) :
    pairSum f (l.map T) = pairSum (fun a b => f (T a) (T b)) l := by
  induction l with
  | nil => rfl
  | cons a t ih =>
    cases t with
    | nil => rfl
    | cons b t' =>
      simp only [List.map_cons] at ih ⊢
      rw [pairSum_cons_cons, pairSum_cons_cons, ih]

theorem pairSum_lin3 (g f1 f2 f3 : P → P → Rat) (α β γ : Rat)
    (h : ∀ u v, g u v = α * f1 u v + β * f2 u v + γ * f3 u v) (l : List P) :
    pairSum g l = α * pairSum f1 l + β * pairSum f2 l + γ * pairSum f3 l := by
  induction l with
  | nil => simp [pairSum]
  | cons a t ih =>
    cases t with
    | nil => simp [pairSum]
    | cons b t' =>
      rw [pairSum_cons_cons, pairSum_cons_cons, pairSum_cons_cons, pairSum_cons_cons, ih, h]; ring

/-! fan forms of the three cyclic sums -/
theorem fan_S (v0 : P) (rest : List P) :
    cyc crossF (v0 :: rest) = pairSum (fun a b => tri2 v0 a b) rest := by
  rw [cyc_fan crossF (fun a b => crossF_anti a b)]
  exact pairSum_congr' rest (fun e _ => crossF_tri v0 e.1 e.2)
theorem fan_X (v0 : P) (rest : List P) :
    cyc cxF (v0 :: rest) = pairSum (fun a b => tri2 v0 a b * (v0.x + a.x + b.x)) rest := by
  rw [cyc_fan cxF (fun a b => cxF_anti a b)]
  exact pairSum_congr' rest (fun e _ => cxF_tri v0 e.1 e.2)
theorem fan_Y (v0 : P) (rest : List P) :
    cyc cyF (v0 :: rest) = pairSum (fun a b => tri2 v0 a b * (v0.y + a.y + b.y)) rest := by
  rw [cyc_fan cyF (fun a b => cyF_anti a b)]
  exact pairSum_congr' rest (fun e _ => cyF_tri v0 e.1 e.2)

theorem shoelace2_aff (T : Aff) (r : Ring) : shoelace2 (r.map T.ap) = T.det * shoelace2 r := by
  rw [shoelace2_eq', shoelace2_eq']
  cases r with
  | nil => simp [cyc, pairSum]
  | cons v0 rest =>
    rw [List.map_cons, fan_S, fan_S, pairSum_map]
    have := pairSum_lin3 (fun a b => tri2 (T.ap v0) (T.ap a) (T.ap b)) (fun a b => tri2 v0 a b)
      (fun _ _ => 0) (fun _ _ => 0) T.det 0 0 (by intro u v; rw [tri2_aff]; ring) rest
    rw [this]; ring

theorem momX_aff (T : Aff) (r : Ring) :
    momX (r.map T.ap) = T.det * (T.a * momX r + T.b * momY r + 3 * T.tx * shoelace2 r) := by
  rw [momX_eq', momX_eq', momY_eq', shoelace2_eq']
  cases r with
  | nil => simp [cyc, pairSum]
  | cons v0 rest =>
    rw [List.map_cons, fan_X, fan_X, fan_Y, fan_S, pairSum_map]
    have := pairSum_lin3
      (fun a b => tri2 (T.ap v0) (T.ap a) (T.ap b) * ((T.ap v0).x + (T.ap a).x + (T.ap b).x))
      (fun a b => tri2 v0 a b * (v0.x + a.x + b.x)) (fun a b => tri2 v0 a b * (v0.y + a.y + b.y))
      (fun a b => tri2 v0 a b) (T.det * T.a) (T.det * T.b) (3 * T.det * T.tx)
      (by intro u v; rw [tri2_aff]; simp only [Aff.ap]; ring) rest
    rw [this]; ring

theorem momY_aff (T : Aff) (r : Ring) :
    momY (r.map T.ap) = T.det * (T.c * momX r + T.d * momY r + 3 * T.ty * shoelace2 r) := by
  rw [momY_eq', momX_eq', momY_eq', shoelace2_eq']
  cases r with
  | nil => simp [cyc, pairSum]
  | cons v0 rest =>
    rw [List.map_cons, fan_Y, fan_X, fan_Y, fan_S, pairSum_map]
    have := pairSum_lin3
      (fun a b => tri2 (T.ap v0) (T.ap a) (T.ap b) * ((T.ap v0).y + (T.ap a).y + (T.ap b).y))
      (fun a b => tri2 v0 a b * (v0.x + a.x + b.x)) (fun a b => tri2 v0 a b * (v0.y + a.y + b.y))
      (fun a b => tri2 v0 a b) (T.det * T.c) (T.det * T.d) (3 * T.det * T.ty)
      (by intro u v; rw [tri2_aff]; simp only [Aff.ap]; ring) rest
    rw [this]; ring

/-- **The measure of a ring is multiplied by `|det T|`** — every ring, every affine map. -/
theorem C03_spec_affine_measure (T : Aff) (r : Ring) :
    Spec.measure (r.map T.ap) = |T.det| * Spec.measure r := by
  unfold Spec.measure
  rw [shoelace2_aff, specAbsR_eq_abs, specAbsR_eq_abs, abs_mul]; ring

/-- **The centroid of a ring is mapped by `T`** (non-degenerate ring, invertible map). -/
theorem C03_spec_affine_ringCentroid (T : Aff) (hT : T.det ≠ 0) (r : Ring) (hr : shoelace2 r ≠ 0) :
    ringCentroid (r.map T.ap) = T.ap (ringCentroid r) := by
  unfold ringCentroid
  rw [momX_aff, momY_aff, shoelace2_aff]
  simp only [Aff.ap]
  congr 1 <;> field_simp

/-- the rings of a polygon mapped by `T` -/
def Aff.apPoly (T : Aff) (p : Poly) : Poly := p.map (·.map T.ap)

theorem weights_aff (T : Aff) (p : Poly) :
    weights (T.apPoly p) = (weights p).map fun x => (|T.det| * x.1, x.2.map T.ap) := by
  cases p with
  | nil => rfl
  | cons shell holes =>
    simp only [Aff.apPoly, List.map_cons, weights, C03_spec_affine_measure, List.map_map]
    congr 1
    · apply List.map_congr_left; intro h _
      simp only [Function.comp, C03_spec_affine_measure]
      congr 1; ring

/-- **Area = shells − holes is multiplied by `|det T|`.** -/
theorem C03_spec_affine_area (T : Aff) (p : Poly) : Spec.area (T.apPoly p) = |T.det| * Spec.area p := by
  rw [← sum_weights, ← sum_weights, weights_aff, List.map_map]
  have : ((fun x : Rat × Ring => x.1) ∘ fun x : Rat × Ring => (|T.det| * x.1, x.2.map T.ap))
      = fun x => |T.det| * (fun y : Rat × Ring => y.1) x := rfl
  rw [this, sum_map_mul2]

theorem wmean_aff (T : Aff) (hT : T.det ≠ 0) (L : List (Rat × Ring)) (hr : ∀ x ∈ L, shoelace2 x.2 ≠ 0)
    (hW : (L.map (·.1)).sum ≠ 0) :
    wmean (L.map fun x => (|T.det| * x.1, x.2.map T.ap)) = T.ap (wmean L) := by
  have hd : |T.det| ≠ 0 := abs_ne_zero.mpr hT
  have key : ∀ (L : List (Rat × Ring)), (∀ x ∈ L, shoelace2 x.2 ≠ 0) →
      ((L.map fun x => (|T.det| * x.1, x.2.map T.ap)).map (·.1)).sum = |T.det| * (L.map (·.1)).sum ∧
      ((L.map fun x => (|T.det| * x.1, x.2.map T.ap)).map fun x => x.1 * (ringCentroid x.2).x).sum
        = |T.det| * (T.a * (L.map fun x => x.1 * (ringCentroid x.2).x).sum
            + T.b * (L.map fun x => x.1 * (ringCentroid x.2).y).sum + T.tx * (L.map (·.1)).sum) ∧
      ((L.map fun x => (|T.det| * x.1, x.2.map T.ap)).map fun x => x.1 * (ringCentroid x.2).y).sum
        = |T.det| * (T.c * (L.map fun x => x.1 * (ringCentroid x.2).x).sum
            + T.d * (L.map fun x => x.1 * (ringCentroid x.2).y).sum + T.ty * (L.map (·.1)).sum) := by
    intro L
    induction L with
    | nil => intro _; simp
    | cons x t ih =>
      intro h
      have hx := C03_spec_affine_ringCentroid T hT x.2 (h x (by simp))
      obtain ⟨i1, i2, i3⟩ := ih (fun y hy => h y (by simp [hy]))
      simp only [List.map_cons, List.sum_cons] at i1 i2 i3 ⊢
      rw [i1, i2, i3, hx]
      simp only [Aff.ap]
      refine ⟨by ring, by ring, by ring⟩
  obtain ⟨k1, k2, k3⟩ := key L hr
  unfold wmean
  simp only [sumR_eq_sum]
  rw [k1, k2, k3]
  simp only [Aff.ap]
  congr 1 <;> field_simp

/-- **The area-weighted centroid of a polygon with holes is mapped by `T`.** -/
theorem C03_spec_affine_centroid (T : Aff) (hT : T.det ≠ 0) (p : Poly) (hr : ∀ r ∈ p, shoelace2 r ≠ 0)
    (hW : Spec.area p ≠ 0) : Spec.centroid (T.apPoly p) = T.ap (Spec.centroid p) := by
  unfold Spec.centroid
  rw [weights_aff]
  apply wmean_aff T hT
  · intro x hx
    have : x.2 ∈ p := by rw [← weights_rings p]; exact List.mem_map_of_mem hx
    exact hr _ this
  · rw [sum_weights]; exact hW

theorem flatMap_weights_aff (T : Aff) (mp : MPoly) :
    (mp.map T.apPoly).flatMap weights = (mp.flatMap weights).map fun x => (|T.det| * x.1, x.2.map T.ap) := by
  induction mp with
  | nil => rfl
  | cons p t ih => simp only [List.map_cons, List.flatMap_cons, List.map_append, weights_aff, ih]

/-- **The area-weighted centroid of a multi-polygon is mapped by `T`.** -/
theorem C03_spec_affine_mcentroid (T : Aff) (hT : T.det ≠ 0) (mp : MPoly)
    (hr : ∀ p ∈ mp, ∀ r ∈ p, shoelace2 r ≠ 0) (hW : ((mp.flatMap weights).map (·.1)).sum ≠ 0) :
    Spec.mcentroid (mp.map T.apPoly) = T.ap (Spec.mcentroid mp) := by
  unfold Spec.mcentroid
  rw [flatMap_weights_aff]
  apply wmean_aff T hT _ _ hW
  intro x hx
  rw [List.mem_flatMap] at hx
  obtain ⟨p, hp, hxp⟩ := hx
  have : x.2 ∈ p := by rw [← weights_rings p]; exact List.mem_map_of_mem hxp
  exact hr p hp _ this

/-! ### bounds.go -/

/-- the ring of a box, as `Bounds.Polygons()` lists it -/
def boxRing (mn mx : P) : Ring := [mn, ⟨mx.x, mn.y⟩, mx, ⟨mn.x, mx.y⟩]

/-- **bounds.go: `Area`** is the measure of the box's ring (non-inverted box). -/
theorem C03_bounds_area (mn mx : P) (hx : mn.x ≤ mx.x) (hy : mn.y ≤ mx.y) :
    boundsArea mn mx = Spec.measure (boxRing mn mx) := by
  have h : shoelace2 (boxRing mn mx) = 2 * ((mx.x - mn.x) * (mx.y - mn.y)) := by
    rw [shoelace2_eq']; simp [boxRing, cyc, pairSum, crossF]; ring
  unfold Spec.measure boundsArea
  rw [h, specAbsR_eq_abs, abs_of_nonneg (by have := mul_nonneg (sub_nonneg.mpr hx) (sub_nonneg.mpr hy); linarith)]
  ring

/-- **bounds.go: `Centroid`** is the centroid of the box's ring (box with non-zero area). -/
theorem C03_bounds_centroid (mn mx : P) (hA : (mx.x - mn.x) * (mx.y - mn.y) ≠ 0) :
    boundsCentroid mn mx = ringCentroid (boxRing mn mx) := by
  have h : shoelace2 (boxRing mn mx) = 2 * ((mx.x - mn.x) * (mx.y - mn.y)) := by
    rw [shoelace2_eq']; simp [boxRing, cyc, pairSum, crossF]; ring
  have hX : momX (boxRing mn mx) = 3 * (mn.x + mx.x) * ((mx.x - mn.x) * (mx.y - mn.y)) := by
    rw [momX_eq']; simp [boxRing, cyc, pairSum, cxF]; ring
  have hY : momY (boxRing mn mx) = 3 * (mn.y + mx.y) * ((mx.x - mn.x) * (mx.y - mn.y)) := by
    rw [momY_eq']; simp [boxRing, cyc, pairSum, cyF]; ring
  unfold boundsCentroid ringCentroid
  rw [h, hX, hY]
  generalize hD : (mx.x - mn.x) * (mx.y - mn.y) = D at hA
  congr 1 <;> field_simp

/-- non-vacuity: a shear with a reflection and a translation (det = −2) on the square with a hole -/
example : let T : Aff := ⟨1, 3, 0, -2, 5, -7⟩
    T.det ≠ 0 ∧ (∀ r ∈ exPoly, shoelace2 r ≠ 0) ∧ Spec.area exPoly ≠ 0 ∧
    Spec.centroid (T.apPoly exPoly) = T.ap (Spec.centroid exPoly) ∧ Spec.area (T.apPoly exPoly) = 2 * Spec.area exPoly := by
  decide +kernel

end GeomV.C03
