import GeomV.C03.LemmasCentroid
/-! Fan decomposition of the shoelace and moment sums; convex-combination bounds. -/
namespace GeomV.C03
open Spec
set_option linter.unusedSimpArgs false

/-- fan decomposition: for an antisymmetric summand the closed walk through `v0 :: rest` is the sum
over the consecutive pairs `(a, b)` of `rest` of the triangle walks `v0 → a → b → v0`. -/
theorem cyc_fan (f : P → P → Rat) (hanti : ∀ a b, f b a = -f a b) (v0 : P) (rest : List P) :
    cyc f (v0 :: rest) = pairSum (fun a b => f v0 a + f a b + f b v0) rest := by
  have hdiag : f v0 v0 = 0 := by have := hanti v0 v0; linarith
  -- generalise: a walk from v0 through `a :: t` back to v0
  have key : ∀ (t : List P) (a : P), pairSum f (v0 :: a :: t ++ [v0]) =
      f v0 a + pairSum (fun x y => f v0 x + f x y + f y v0) (a :: t) + f a v0 := by
    intro t
    induction t with
    | nil => intro a; simp [pairSum]
    | cons b t' ih =>
      intro a
      have e : v0 :: a :: (b :: t') ++ [v0] = v0 :: a :: b :: (t' ++ [v0]) := by simp
      rw [e, pairSum_cons_cons, pairSum_cons_cons]
      have := ih b
      have e2 : v0 :: b :: t' ++ [v0] = v0 :: b :: (t' ++ [v0]) := by simp
      rw [e2, pairSum_cons_cons] at this
      rw [pairSum_cons_cons]
      have h1 := hanti v0 b
      have h2 := hanti v0 a
      linarith
  cases rest with
  | nil => simp [cyc, pairSum, hdiag]
  | cons a t =>
    show pairSum f (v0 :: a :: t ++ [v0]) = _
    rw [key t a]
    have := hanti v0 a
    linarith

/-- twice the signed area of the triangle `a b c` -/
def tri2 (a b c : P) : Rat := (b.x - a.x) * (c.y - a.y) - (c.x - a.x) * (b.y - a.y)

theorem crossF_tri (a b c : P) : crossF a b + crossF b c + crossF c a = tri2 a b c := by
  unfold crossF tri2; ring
theorem cxF_tri (a b c : P) : cxF a b + cxF b c + cxF c a = tri2 a b c * (a.x + b.x + c.x) := by
  unfold cxF tri2; ring
theorem cyF_tri (a b c : P) : cyF a b + cyF b c + cyF c a = tri2 a b c * (a.y + b.y + c.y) := by
  unfold cyF tri2; ring

/-- weighted sums with weights of one sign stay between the bounds of the values -/
theorem pairSum_weighted_bounds (w m : P → P → Rat) (lo hi : Rat) (l : List P)
    (hw : ∀ e ∈ pairs l, 0 ≤ w e.1 e.2) (hm : ∀ e ∈ pairs l, lo ≤ m e.1 e.2 ∧ m e.1 e.2 ≤ hi) :
    lo * pairSum w l ≤ pairSum (fun a b => w a b * m a b) l ∧
    pairSum (fun a b => w a b * m a b) l ≤ hi * pairSum w l := by
  induction l with
  | nil => simp [pairSum]
  | cons a t ih =>
    cases t with
    | nil => simp [pairSum]
    | cons b t' =>
      have hw0 := hw (a, b) (by simp [pairs])
      have hm0 := hm (a, b) (by simp [pairs])
      have := ih (fun e he => hw e (by simp [pairs, he])) (fun e he => hm e (by simp [pairs, he]))
      rw [pairSum_cons_cons, pairSum_cons_cons]
      constructor
      · nlinarith [this.1, mul_nonneg hw0 (sub_nonneg.mpr hm0.1)]
      · nlinarith [this.2, mul_nonneg hw0 (sub_nonneg.mpr hm0.2)]


theorem mem_of_mem_pairs {e : P × P} {l : List P} (h : e ∈ pairs l) : e.1 ∈ l ∧ e.2 ∈ l := by
  induction l with
  | nil => simp [pairs] at h
  | cons a t ih =>
    cases t with
    | nil => simp [pairs] at h
    | cons b t' =>
      simp only [pairs, List.mem_cons] at h
      rcases h with h | h
      · subst h; simp
      · have := ih h; simp only [List.mem_cons] at this ⊢
        exact ⟨Or.inr this.1, Or.inr this.2⟩

theorem ratio_bounds (N W lo hi : Rat) (h1 : lo * (3 * W) ≤ N) (h2 : N ≤ hi * (3 * W)) (hW : 0 < W) :
    lo ≤ N / (3 * W) ∧ N / (3 * W) ≤ hi := by
  have h3 : (0 : Rat) < 3 * W := by linarith
  exact ⟨(le_div_iff₀ h3).mpr h1, (div_le_iff₀ h3).mpr h2⟩

theorem pairSum_congr' {f g : P → P → Rat} (l : List P) (h : ∀ e ∈ pairs l, f e.1 e.2 = g e.1 e.2) :
    pairSum f l = pairSum g l := by
  induction l with
  | nil => rfl
  | cons a t ih =>
    cases t with
    | nil => rfl
    | cons b t' =>
      rw [pairSum_cons_cons, pairSum_cons_cons, h (a, b) (by simp [pairs]),
        ih (fun e he => h e (by simp [pairs, he]))]

/-- coordinate-wise version used twice (for x and for y) -/
theorem fan_coord_bounds (v0 : P) (rest : List P) (co : P → Rat) (lo hi : Rat)
    (hbox : ∀ v ∈ v0 :: rest, lo ≤ co v ∧ co v ≤ hi)
    (w : P → P → Rat) (hw : ∀ e ∈ pairs rest, 0 ≤ w e.1 e.2) (hW : 0 < pairSum w rest) :
    lo ≤ pairSum (fun a b => w a b * (co v0 + co a + co b)) rest / (3 * pairSum w rest) ∧
    pairSum (fun a b => w a b * (co v0 + co a + co b)) rest / (3 * pairSum w rest) ≤ hi := by
  have hm : ∀ e ∈ pairs rest, 3 * lo ≤ (fun a b => co v0 + co a + co b) e.1 e.2 ∧
      (fun a b => co v0 + co a + co b) e.1 e.2 ≤ 3 * hi := by
    intro e he
    obtain ⟨h1, h2⟩ := mem_of_mem_pairs he
    have b0 := hbox v0 (by simp)
    have b1 := hbox e.1 (by simp [h1])
    have b2 := hbox e.2 (by simp [h2])
    constructor <;> simp only <;> linarith
  have := pairSum_weighted_bounds w (fun a b => co v0 + co a + co b) (3 * lo) (3 * hi) rest hw hm
  apply ratio_bounds
  · linarith [this.1]
  · linarith [this.2]
  · exact hW


theorem pairSum_nonneg (w : P → P → Rat) (l : List P) (h : ∀ e ∈ pairs l, 0 ≤ w e.1 e.2) :
    0 ≤ pairSum w l := by
  induction l with
  | nil => simp [pairSum]
  | cons a t ih =>
    cases t with
    | nil => simp [pairSum]
    | cons b t' =>
      rw [pairSum_cons_cons]
      exact add_nonneg (h (a, b) (by simp [pairs])) (ih (fun e he => h e (by simp [pairs, he])))

/-- one coordinate of the ring centroid of `v0 :: rest`, via the fan from `v0` -/
theorem fan_centroid_coord (v0 : P) (rest : List P) (co : P → Rat) (F : P → P → Rat)
    (hF : ∀ a b c : P, F a b + F b c + F c a = tri2 a b c * (co a + co b + co c))
    (hanti : ∀ a b, F b a = -F a b)
    (lo hi : Rat) (hbox : ∀ v ∈ v0 :: rest, lo ≤ co v ∧ co v ≤ hi)
    (hfan : (∀ e ∈ pairs rest, 0 ≤ tri2 v0 e.1 e.2) ∨ (∀ e ∈ pairs rest, tri2 v0 e.1 e.2 ≤ 0))
    (hA : cyc crossF (v0 :: rest) ≠ 0) :
    lo ≤ cyc F (v0 :: rest) / (3 * cyc crossF (v0 :: rest)) ∧
    cyc F (v0 :: rest) / (3 * cyc crossF (v0 :: rest)) ≤ hi := by
  have hS : cyc crossF (v0 :: rest) = pairSum (fun a b => tri2 v0 a b) rest := by
    rw [cyc_fan crossF (fun a b => crossF_anti a b)]
    exact pairSum_congr' rest (fun e _ => crossF_tri v0 e.1 e.2)
  have hM : cyc F (v0 :: rest) = pairSum (fun a b => tri2 v0 a b * (co v0 + co a + co b)) rest := by
    rw [cyc_fan F hanti]
    exact pairSum_congr' rest (fun e _ => hF v0 e.1 e.2)
  rw [hS] at hA ⊢
  rw [hM]
  rcases hfan with hpos | hneg
  · have hW0 := pairSum_nonneg (fun a b => tri2 v0 a b) rest hpos
    exact fan_coord_bounds v0 rest co lo hi hbox (fun a b => tri2 v0 a b) hpos
      (lt_of_le_of_ne hW0 (Ne.symm hA))
  · have hpos' : ∀ e ∈ pairs rest, 0 ≤ (fun a b => -tri2 v0 a b) e.1 e.2 := by
      intro e he; have := hneg e he; simp only; linarith
    have hW0 := pairSum_nonneg (fun a b => -tri2 v0 a b) rest hpos'
    have e1 : pairSum (fun a b => -tri2 v0 a b) rest = -pairSum (fun a b => tri2 v0 a b) rest :=
      pairSum_neg _ rest
    have e2 : pairSum (fun a b => -tri2 v0 a b * (co v0 + co a + co b)) rest
        = -pairSum (fun a b => tri2 v0 a b * (co v0 + co a + co b)) rest := by
      rw [← pairSum_neg]; exact pairSum_congr' rest (fun e _ => by ring)
    have hWpos : 0 < pairSum (fun a b => -tri2 v0 a b) rest := by
      rw [e1] at hW0 ⊢
      exact lt_of_le_of_ne hW0 (by intro h; apply hA; linarith)
    have := fan_coord_bounds v0 rest co lo hi hbox (fun a b => -tri2 v0 a b) hpos' hWpos
    rw [e1, e2] at this
    have e3 : ∀ N W : Rat, -N / (3 * -W) = N / (3 * W) := by
      intro N W; rw [mul_neg, neg_div_neg_eq]
    rw [e3] at this
    exact this

end GeomV.C03
