import GeomV.C03.ProofsOpArea
/-!
# C03 — "hence inside the bounding box": two more partial cases

`C03_centroid_bbox_partial` (Proofs.lean) covers a single ring that is star-shaped from its FIRST vertex.
Here: (1) a ring star-shaped from ANY of its vertices (the ring centroid does not depend on the start
vertex); (2) multi-polygons of hole-free members that are each star-shaped from a vertex — the
area-weighted mean of points of a box with positive weights stays in the box.
The general case (arbitrary simple rings, holes) is still NOT proved (needs a triangulation).
-/
namespace GeomV.C03
open Spec
set_option linter.unusedSimpArgs false

/-- the point lies in the axis-parallel box `[lo, hi]` -/
def InBox (lo hi c : P) : Prop := lo.x ≤ c.x ∧ c.x ≤ hi.x ∧ lo.y ≤ c.y ∧ c.y ≤ hi.y

/-- `r` started at its `k`-th vertex is star-shaped from that vertex (all fan triangles one orientation) -/
def StarFrom (k : Nat) (r : Ring) : Prop :=
  match rotN k r with
  | [] => False
  | v0 :: rest => (∀ e ∈ pairs rest, 0 ≤ tri2 v0 e.1 e.2) ∨ (∀ e ∈ pairs rest, tri2 v0 e.1 e.2 ≤ 0)

/-- **"inside the bounding box", ring star-shaped from any vertex** (every convex ring from every vertex;
L-, T-, arrow-shaped rings from a suitable one). -/
theorem C03_centroid_bbox_star (r : Ring) (k : Nat) (lo hi : P)
    (hbox : ∀ v ∈ r, lo.x ≤ v.x ∧ v.x ≤ hi.x ∧ lo.y ≤ v.y ∧ v.y ≤ hi.y)
    (hstar : StarFrom k r) (hA : shoelace2 r ≠ 0) : InBox lo hi (ringCentroid r) := by
  have hc : ringCentroid r = ringCentroid (rotN k r) := (ringCentroid_ap ⟨k, false, false⟩ r).symm
  have hs : shoelace2 (rotN k r) = shoelace2 r := by
    have := shoelace2_ap ⟨k, false, false⟩ r
    simpa [Spec.Spell.ap] using this
  unfold StarFrom at hstar
  rw [hc]
  cases hrot : rotN k r with
  | nil => rw [hrot] at hstar; exact absurd hstar id
  | cons v0 rest =>
    rw [hrot] at hstar hs
    have hbox' : ∀ v ∈ v0 :: rest, lo.x ≤ v.x ∧ v.x ≤ hi.x ∧ lo.y ≤ v.y ∧ v.y ≤ hi.y := by
      intro v hv
      apply hbox
      rw [← hrot] at hv
      exact (rotN_perm k r).mem_iff.mp hv
    exact C03_centroid_bbox_partial v0 rest lo hi hbox' hstar (by rw [hs]; exact hA)

/-- a weighted mean with positive weights of numbers in `[lo, hi]` stays in `[lo, hi]` -/
theorem wsum_bounds (L : List (Rat × Rat)) (lo hi : Rat) (hw : ∀ x ∈ L, 0 < x.1)
    (hc : ∀ x ∈ L, lo ≤ x.2 ∧ x.2 ≤ hi) :
    lo * (L.map (·.1)).sum ≤ (L.map fun x => x.1 * x.2).sum ∧
    (L.map fun x => x.1 * x.2).sum ≤ hi * (L.map (·.1)).sum ∧ 0 ≤ (L.map (·.1)).sum := by
  induction L with
  | nil => simp
  | cons x t ih =>
    have h := ih (fun y hy => hw y (by simp [hy])) (fun y hy => hc y (by simp [hy]))
    have hx := hw x (by simp)
    have hcx := hc x (by simp)
    simp only [List.map_cons, List.sum_cons]
    refine ⟨?_, ?_, ?_⟩
    · nlinarith [h.1, mul_nonneg (le_of_lt hx) (sub_nonneg.mpr hcx.1)]
    · nlinarith [h.2.1, mul_nonneg (le_of_lt hx) (sub_nonneg.mpr hcx.2)]
    · linarith [h.2.2]

theorem wmean_in_box (L : List (Rat × Ring)) (lo hi : P) (hne : L ≠ [])
    (hw : ∀ x ∈ L, 0 < x.1) (hc : ∀ x ∈ L, InBox lo hi (ringCentroid x.2)) : InBox lo hi (wmean L) := by
  have hW : 0 < (L.map (·.1)).sum := by
    cases L with
    | nil => exact absurd rfl hne
    | cons x t =>
      have h := wsum_bounds (t.map fun y => (y.1, (0 : Rat))) 0 0 (by
        intro y hy; rw [List.mem_map] at hy; obtain ⟨z, hz, rfl⟩ := hy; exact hw z (by simp [hz])) (by
        intro y hy; rw [List.mem_map] at hy; obtain ⟨z, _, rfl⟩ := hy; simp)
      have h0 := h.2.2
      rw [List.map_map] at h0
      simp only [List.map_cons, List.sum_cons]
      have hx := hw x (by simp)
      have : (t.map ((fun x : Rat × Rat => x.1) ∘ fun y : Rat × Ring => (y.1, (0 : Rat)))) = t.map (·.1) := rfl
      rw [this] at h0
      linarith
  have hx := wsum_bounds (L.map fun y => (y.1, (ringCentroid y.2).x)) lo.x hi.x (by
    intro y hy; rw [List.mem_map] at hy; obtain ⟨z, hz, rfl⟩ := hy; exact hw z hz) (by
    intro y hy; rw [List.mem_map] at hy; obtain ⟨z, hz, rfl⟩ := hy; exact ⟨(hc z hz).1, (hc z hz).2.1⟩)
  have hy := wsum_bounds (L.map fun y => (y.1, (ringCentroid y.2).y)) lo.y hi.y (by
    intro y hy; rw [List.mem_map] at hy; obtain ⟨z, hz, rfl⟩ := hy; exact hw z hz) (by
    intro y hy; rw [List.mem_map] at hy; obtain ⟨z, hz, rfl⟩ := hy; exact ⟨(hc z hz).2.2.1, (hc z hz).2.2.2⟩)
  simp only [List.map_map] at hx hy
  have e1 : (L.map ((fun x : Rat × Rat => x.1) ∘ fun y : Rat × Ring => (y.1, (ringCentroid y.2).x))) = L.map (·.1) := rfl
  have e2 : (L.map ((fun x : Rat × Rat => x.1 * x.2) ∘ fun y : Rat × Ring => (y.1, (ringCentroid y.2).x)))
      = L.map fun x => x.1 * (ringCentroid x.2).x := rfl
  have e3 : (L.map ((fun x : Rat × Rat => x.1) ∘ fun y : Rat × Ring => (y.1, (ringCentroid y.2).y))) = L.map (·.1) := rfl
  have e4 : (L.map ((fun x : Rat × Rat => x.1 * x.2) ∘ fun y : Rat × Ring => (y.1, (ringCentroid y.2).y)))
      = L.map fun x => x.1 * (ringCentroid x.2).y := rfl
  rw [e1, e2] at hx
  rw [e3, e4] at hy
  unfold InBox wmean
  simp only [sumR_eq_sum]
  refine ⟨(le_div_iff₀ hW).mpr hx.1, (div_le_iff₀ hW).mpr hx.2.1, (le_div_iff₀ hW).mpr hy.1, (div_le_iff₀ hW).mpr hy.2.1⟩

/-- **"inside the bounding box", multi-polygons of hole-free star-shaped members**: every member is a
single ring with non-zero area that is star-shaped from one of its vertices → the area-weighted
centroid of the multi-polygon lies in every box that contains all vertices. -/
theorem C03_mcentroid_bbox_partial (mp : MPoly) (lo hi : P) (hne : mp ≠ [])
    (hmem : ∀ p ∈ mp, ∃ r, p = [r] ∧ shoelace2 r ≠ 0 ∧ (∃ k, StarFrom k r) ∧
      ∀ v ∈ r, lo.x ≤ v.x ∧ v.x ≤ hi.x ∧ lo.y ≤ v.y ∧ v.y ≤ hi.y) :
    InBox lo hi (mcentroid mp) := by
  unfold mcentroid
  apply wmean_in_box
  · cases mp with
    | nil => exact absurd rfl hne
    | cons p t =>
      obtain ⟨r, hp, _⟩ := hmem p (by simp)
      subst hp
      simp [weights]
  · intro x hx
    rw [List.mem_flatMap] at hx
    obtain ⟨p, hp, hxp⟩ := hx
    obtain ⟨r, hpr, hA, _, _⟩ := hmem p hp
    subst hpr
    simp only [weights, List.map_nil, List.mem_singleton] at hxp
    subst hxp
    simp only [Spec.measure, specAbsR_eq_abs]
    have : 0 < |shoelace2 r| := abs_pos.mpr hA
    linarith
  · intro x hx
    rw [List.mem_flatMap] at hx
    obtain ⟨p, hp, hxp⟩ := hx
    obtain ⟨r, hpr, hA, ⟨k, hk⟩, hb⟩ := hmem p hp
    subst hpr
    simp only [weights, List.map_nil, List.mem_singleton] at hxp
    subst hxp
    exact C03_centroid_bbox_star r k lo hi hb hk hA

/-- non-vacuity: the L-shaped ring is star-shaped from its vertex (0,0), started anywhere -/
example : StarFrom 3 [⟨2,2⟩, ⟨2,4⟩, ⟨0,4⟩, ⟨0,0⟩, ⟨4,0⟩, ⟨4,2⟩] := by
  unfold StarFrom; left; decide +kernel

end GeomV.C03
