import GeomV.C03.LemmasArea
import GeomV.C02.LemmasPoly

/-! Composition with property C02: within.go's point-in-polygon test (C02's model and theorem) is the
crossing-number classification of the C03 specification, so `PipAgrees` is a theorem. -/
namespace GeomV.C03
open Spec
set_option linter.unusedSimpArgs false

/-- with the bounds of the same rings, within.go's `pgBounds[i]` never faults -/
theorem pip_eq (pt : P) (rings : Poly) : pip pt rings = ofStatus (C02.ringsVerdict pt rings false) := by
  unfold pip; rw [C02.pointInPolygon_spec]

theorem pip_no_fault (pt : P) (rings : Poly) (e : C02.Fault) :
    C02.pointInPolygon pt rings (C02.ringBounds rings) ≠ .error e := by
  rw [C02.pointInPolygon_spec]; intro h; cases h

/-! ### the two specifications agree segment by segment -/

theorem c02_pairs_eq (l : List P) : C02.Spec.pairs l = Spec.pairs l := by
  induction l with
  | nil => rfl
  | cons a t ih =>
    cases t with
    | nil => rfl
    | cons b t' => simp only [C02.Spec.pairs, Spec.pairs]; rw [ih]

theorem c02_onSeg_eq (p a b : P) : C02.Spec.onSeg p (a, b) = Spec.onSeg p a b := by
  unfold C02.Spec.onSeg C02.Spec.between Spec.onSeg Spec.cross
  rw [Bool.eq_iff_iff]
  simp only [Bool.and_eq_true, Bool.or_eq_true, decide_eq_true_eq, beq_iff_eq, le_min_iff, min_le_iff, le_max_iff, max_le_iff]
  constructor
  · rintro ⟨⟨hx, hy⟩, hc⟩
    refine ⟨⟨⟨⟨by linarith, ?_⟩, ?_⟩, ?_⟩, ?_⟩
    · rcases hx with h | h <;> [exact Or.inl h.1; exact Or.inr h.1]
    · rcases hx with h | h <;> [exact Or.inr h.2; exact Or.inl h.2]
    · rcases hy with h | h <;> [exact Or.inl h.1; exact Or.inr h.1]
    · rcases hy with h | h <;> [exact Or.inr h.2; exact Or.inl h.2]
  · rintro ⟨⟨⟨⟨hc, hx1⟩, hx2⟩, hy1⟩, hy2⟩
    refine ⟨⟨?_, ?_⟩, by linarith⟩
    · rcases le_total a.x b.x with h | h
      · left; constructor
        · rcases hx1 with h1 | h1 <;> linarith
        · rcases hx2 with h1 | h1 <;> linarith
      · right; constructor
        · rcases hx1 with h1 | h1 <;> linarith
        · rcases hx2 with h1 | h1 <;> linarith
    · rcases le_total a.y b.y with h | h
      · left; constructor
        · rcases hy1 with h1 | h1 <;> linarith
        · rcases hy2 with h1 | h1 <;> linarith
      · right; constructor
        · rcases hy1 with h1 | h1 <;> linarith
        · rcases hy2 with h1 | h1 <;> linarith

theorem c02_crossHO_eq (p a b : P) : C02.Spec.crossHO p (a, b) = Spec.crossHO p a b := by
  unfold C02.Spec.crossHO Spec.crossHO
  simp only
  generalize (if a.y ≤ b.y then a else b) = lo
  generalize (if a.y ≤ b.y then b else a) = hi
  rw [Bool.eq_iff_iff]
  simp only [Bool.and_eq_true, decide_eq_true_eq]
  constructor
  · rintro ⟨⟨h1, h2⟩, h3⟩
    refine ⟨⟨h1, h2⟩, ?_⟩
    have hd : 0 < hi.y - lo.y := by linarith
    unfold Spec.cross
    have : (p.x - lo.x) * (hi.y - lo.y) < (p.y - lo.y) * (hi.x - lo.x) := by
      have h4 : p.x - lo.x < (p.y - lo.y) * (hi.x - lo.x) / (hi.y - lo.y) := by linarith
      rwa [lt_div_iff₀ hd] at h4
    linarith
  · rintro ⟨⟨h1, h2⟩, h3⟩
    refine ⟨⟨h1, h2⟩, ?_⟩
    have hd : 0 < hi.y - lo.y := by linarith
    unfold Spec.cross at h3
    have : p.x - lo.x < (p.y - lo.y) * (hi.x - lo.x) / (hi.y - lo.y) := by
      rw [lt_div_iff₀ hd]; linarith
    linarith


/-- for a ring of three or more vertices (any spelling) C02's boundary segments are this
specification's edges, as lists -/
theorem c02_segments_eq (l : List P) (h3 : 3 ≤ l.length) : C02.Spec.segments l = edges l := by
  unfold C02.Spec.segments edges
  rw [if_neg (by omega)]
  cases l with
  | nil => simp at h3
  | cons a t =>
    cases t using List.reverseRecOn with
    | nil => simp at h3
    | append_singleton t' z =>
      have hl := getLast?_cons_snoc a t' z
      have hh : (a :: (t' ++ [z])).head? = some a := rfl
      rw [hl, hh]
      simp only [c02_pairs_eq]
      unfold openRing
      rw [hl, hh]
      by_cases hz : z = a
      · subst hz
        have h2 : 2 ≤ (z :: (t' ++ [z])).length := by simp
        rw [if_neg (not_not.mpr rfl), if_pos ⟨h2, rfl⟩, dropLast_cons_snoc]
        simp only [List.append_nil]
        rfl
      · have hne : ¬ (2 ≤ (a :: (t' ++ [z])).length ∧ some z = some a) := by
          intro h; apply hz; exact Option.some.inj h.2
        rw [if_pos hz, if_neg hne]
        show _ = pairs ((a :: (t' ++ [z])) ++ [a])
        have e : (a :: (t' ++ [z])) ++ [a] = (a :: t') ++ [z, a] := by simp
        rw [e, pairs_snoc2]; rfl

theorem c02_onSeg_fun (v : P) : C02.Spec.onSeg v = fun e => Spec.onSeg v e.1 e.2 := by
  funext e; exact c02_onSeg_eq v e.1 e.2
theorem c02_crossHO_fun (v : P) : C02.Spec.crossHO v = fun e => Spec.crossHO v e.1 e.2 := by
  funext e; exact c02_crossHO_eq v e.1 e.2

theorem ring_any_eq (v : P) (r : Ring) (h3 : 3 ≤ r.length) :
    (C02.Spec.segments r).any (C02.Spec.onSeg v) = (sideRing v r == .onEdge) := by
  rw [c02_segments_eq r h3, c02_onSeg_fun]
  unfold sideRing
  simp only
  cases h : (edges r).any (fun e => Spec.onSeg v e.1 e.2)
  · simp only [Bool.false_eq_true, if_false]; split <;> rfl
  · simp

theorem ring_parity_eq (v : P) (r : Ring) (h3 : 3 ≤ r.length) (hne : (sideRing v r == .onEdge) = false) :
    C02.parity ((C02.Spec.segments r).countP (C02.Spec.crossHO v)) = (sideRing v r == .inside) := by
  rw [c02_segments_eq r h3, c02_crossHO_fun]
  unfold sideRing at hne ⊢
  simp only at hne ⊢
  cases h : (edges r).any (fun e => Spec.onSeg v e.1 e.2)
  · simp only [Bool.false_eq_true, if_false]
    unfold C02.parity
    split <;> simp_all
  · rw [h] at hne; simp at hne

theorem rings_any_eq (v : P) (rings : Poly) (h3 : ∀ r ∈ rings, 3 ≤ r.length) :
    (rings.flatMap C02.Spec.segments).any (C02.Spec.onSeg v) = rings.any (fun r => sideRing v r == .onEdge) := by
  induction rings with
  | nil => rfl
  | cons r t ih =>
    simp only [List.flatMap_cons, List.any_append, List.any_cons]
    rw [ring_any_eq v r (h3 r (by simp)), ih (fun q hq => h3 q (by simp [hq]))]

theorem parity_add_ite (n : Nat) (c : Bool) : C02.parity (n + if c = true then 1 else 0) = xor (C02.parity n) c := by
  cases c
  · simp
  · simp only [if_true]; rw [C02.parity_succ]; cases C02.parity n <;> rfl

theorem rings_parity_eq (v : P) (rings : Poly) (h3 : ∀ r ∈ rings, 3 ≤ r.length)
    (hne : rings.any (fun r => sideRing v r == .onEdge) = false) :
    C02.parity ((rings.flatMap C02.Spec.segments).countP (C02.Spec.crossHO v))
      = C02.parity (rings.countP fun r => sideRing v r == .inside) := by
  induction rings with
  | nil => rfl
  | cons r t ih =>
    simp only [List.any_cons, Bool.or_eq_false_iff] at hne
    simp only [List.flatMap_cons, List.countP_append, List.countP_cons, C02.parity_add, parity_add_ite]
    rw [ring_parity_eq v r (h3 r (by simp)) hne.1, ih (fun q hq => h3 q (by simp [hq])) hne.2]
    cases C02.parity (List.countP (fun r => sideRing v r == Spec.Side.inside) t) <;>
      cases (sideRing v r == Spec.Side.inside) <;> rfl

/-- **within.go (as proved by C02) is the crossing-number classification of this specification**
for every point and every list of rings with at least three vertices each — no validity needed. -/
theorem pip_spec (v : P) (rings : Poly) (h3 : ∀ r ∈ rings, 3 ≤ r.length) :
    pip v rings = sideOfSpec (sideRings v rings) := by
  rw [pip_eq]
  unfold C02.ringsVerdict sideRings
  rw [rings_any_eq v rings h3]
  cases hE : rings.any (fun r => sideRing v r == .onEdge)
  · simp only [Bool.false_eq_true, if_false, Bool.false_xor]
    rw [rings_parity_eq v rings h3 hE]
    unfold C02.parity C02.ofBool
    by_cases hc : (rings.countP fun r => sideRing v r == .inside) % 2 = 1
    · simp [hc, ofStatus, sideOfSpec]
    · simp [hc, ofStatus, sideOfSpec]
  · simp [ofStatus, sideOfSpec]


theorem mem_withOthers {rest : Poly} : ∀ {pre : Poly} {ro : Ring × Poly}, ro ∈ withOthers pre rest →
    ∀ g ∈ ro.2, g ∈ pre ++ rest := by
  induction rest with
  | nil => intro pre ro h; simp [withOthers] at h
  | cons r t ih =>
    intro pre ro h g hg
    simp only [withOthers, List.mem_cons] at h
    rcases h with h | h
    · subst h
      simp only [List.mem_append] at hg ⊢
      rcases hg with hg | hg
      · exact Or.inl hg
      · exact Or.inr (List.mem_cons_of_mem _ hg)
    · have := ih h g hg
      simp only [List.mem_append, List.mem_cons, List.mem_singleton, List.not_mem_nil, or_false] at this ⊢
      rcases this with (h1 | h1) | h1
      · exact Or.inl h1
      · exact Or.inr (Or.inl h1)
      · exact Or.inr (Or.inr h1)

/-- `PipAgrees` holds for every polygon whose rings have at least three vertices -/
theorem pipAgrees_of_len (p : Poly) (h3 : ∀ r ∈ p, 3 ≤ r.length) : PipAgrees p = true := by
  rw [pipAgrees_iff]
  intro ro hro v _
  apply pip_spec
  intro g hg
  have := mem_withOthers hro g hg
  simpa using h3 g (by simpa using this)

/-- every spelling of a valid polygon has rings of at least three vertices -/
theorem respell_len3 {p : Poly} {ss : List Spell} (hv : ValidPoly p = true) :
    ∀ r' ∈ respell ss p, 3 ≤ r'.length := by
  intro r' hr'
  obtain ⟨s, _, r, hr, e⟩ := mem_respell' hr'
  cases p with
  | nil => simp at hr
  | cons shell holes =>
    simp only [ValidPoly, Bool.and_eq_true, List.all_eq_true] at hv
    have := (ringFacts_of_simple (hv.1.1.1 r hr)).len
    have := length_ap_ge s r
    rw [e]; omega
where
  mem_respell' {ss : List Spell} {p : Poly} {r' : Ring} (h : r' ∈ respell ss p) :
      ∃ s ∈ ss, ∃ r ∈ p, r' = s.ap r := by
    induction p generalizing ss with
    | nil => cases ss <;> simp [respell] at h
    | cons r t ih =>
      cases ss with
      | nil => simp [respell] at h
      | cons s st =>
        simp only [respell, List.zipWith_cons_cons, List.mem_cons] at h
        rcases h with h | h
        · exact ⟨s, by simp, r, by simp, h⟩
        · obtain ⟨s', hs', q, hq, e⟩ := ih h
          exact ⟨s', by simp [hs'], q, by simp [hq], e⟩

theorem pipAgrees_respell {p : Poly} (ss : List Spell) (hv : ValidPoly p = true) :
    PipAgrees (respell ss p) = true := pipAgrees_of_len _ (respell_len3 hv)

end GeomV.C03
