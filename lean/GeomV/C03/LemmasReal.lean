import GeomV.C03.Model
import Mathlib.Analysis.SpecialFunctions.Trigonometric.Basic
import Mathlib.Tactic.Ring
import Mathlib.Tactic.FieldSimp
import Mathlib.Tactic.Linarith
import Mathlib.Tactic.Positivity
import Mathlib.Tactic.LinearCombination

/-!
# C03 — the `ℝ` instance of `RNum` and the real-analysis lemmas behind the length / distance /
buffer theorems of `ProofsReal.lean`.

The generic code of `Model.lean` (`distPointToSegment`, `lengthGo`, `distanceGo`, `buffer`, …) is
instantiated here at the mathematical reals: `sqrt := Real.sqrt`, `cos := Real.cos`,
`le a b := decide (a ≤ b)` and so on.  Every generic definition gets an unfolding lemma that states
its value at `ℝ` as an ordinary real expression.
-/
namespace GeomV.C03

open Classical in
/-- the mathematical reals as an `RNum`: exact arithmetic, exact `sqrt`/`cos`/`sin`/`π` -/
noncomputable instance instRNumReal : RNum ℝ where
  toAdd := inferInstance
  toSub := inferInstance
  toMul := inferInstance
  toDiv := inferInstance
  ofNat n := (n : ℝ)
  le a b := decide (a ≤ b)
  lt a b := decide (a < b)
  min := min
  max := max
  abs := fun a => |a|
  rescale m := if (2:ℝ)^500 ≤ m ∨ (m ≤ ((2:ℝ)^500)⁻¹ ∧ 0 < m) then some m else none
  sqrt := Real.sqrt
  hypot x y := Real.sqrt (x * x + y * y)
  cos := Real.cos
  sin := Real.sin
  pi := Real.pi

/-! ## unfolding the instance -/

@[simp] theorem ofNat_real (n : Nat) : (RNum.ofNat n : ℝ) = (n : ℝ) := rfl
@[simp] theorem le_real (a b : ℝ) : (RNum.le a b = true) ↔ a ≤ b := by
  simp [RNum.le]
@[simp] theorem lt_real (a b : ℝ) : (RNum.lt a b = true) ↔ a < b := by
  simp [RNum.lt]
@[simp] theorem min_real (a b : ℝ) : RNum.min a b = min a b := rfl
@[simp] theorem sqrt_real (a : ℝ) : RNum.sqrt a = Real.sqrt a := rfl
@[simp] theorem hypot_real (a b : ℝ) : RNum.hypot a b = Real.sqrt (a ^ 2 + b ^ 2) := by
  show Real.sqrt (a * a + b * b) = _
  rw [sq, sq]
@[simp] theorem cos_real (a : ℝ) : RNum.cos a = Real.cos a := rfl
@[simp] theorem sin_real (a : ℝ) : RNum.sin a = Real.sin a := rfl
@[simp] theorem pi_real : (RNum.pi : ℝ) = Real.pi := rfl
theorem rescale_real (m : ℝ) :
    (RNum.rescale m : Option ℝ) = if (2:ℝ)^500 ≤ m ∨ (m ≤ ((2:ℝ)^500)⁻¹ ∧ 0 < m) then some m else none := rfl

/-- `dist` at `ℝ` is the Euclidean distance -/
theorem dist_real (u v : Pt ℝ) :
    dist u v = Real.sqrt ((u.x - v.x) ^ 2 + (u.y - v.y) ^ 2) := by
  show Real.sqrt ((u.x - v.x) * (u.x - v.x) + (u.y - v.y) * (u.y - v.y)) = _
  rw [sq, sq]

theorem dist_nonneg (u v : Pt ℝ) : 0 ≤ dist u v := by
  rw [dist_real]; exact Real.sqrt_nonneg _

/-- `dpsCore` (the body below the range guard) at `ℝ`, with the Boolean tests turned into propositions -/
theorem dpsCore_real (p s e : Pt ℝ) :
    dpsCore p s e =
      if (p.x - s.x) * (e.x - s.x) + (p.y - s.y) * (e.y - s.y) ≤ 0 then dist p s
      else if (e.x - s.x) * (e.x - s.x) + (e.y - s.y) * (e.y - s.y) ≤
          (p.x - s.x) * (e.x - s.x) + (p.y - s.y) * (e.y - s.y) then dist p e
      else dist p ⟨s.x + ((p.x - s.x) * (e.x - s.x) + (p.y - s.y) * (e.y - s.y)) /
                ((e.x - s.x) * (e.x - s.x) + (e.y - s.y) * (e.y - s.y)) * (e.x - s.x),
              s.y + ((p.x - s.x) * (e.x - s.x) + (p.y - s.y) * (e.y - s.y)) /
                ((e.x - s.x) * (e.x - s.x) + (e.y - s.y) * (e.y - s.y)) * (e.y - s.y)⟩ := by
  simp only [dpsCore, dot, psub, le_real, ofNat_real, Nat.cast_zero]

theorem scale_sqrt (k a b : ℝ) (hk : 0 < k) :
    k * Real.sqrt ((a / k) ^ 2 + (b / k) ^ 2) = Real.sqrt (a ^ 2 + b ^ 2) := by
  have h : (a / k) ^ 2 + (b / k) ^ 2 = (a ^ 2 + b ^ 2) / k ^ 2 := by
    field_simp
  rw [h, Real.sqrt_div (by positivity), Real.sqrt_sq hk.le]
  field_simp

/-- **the range guard is sound**: translating to the segment start, dividing by any `k > 0`,
measuring and multiplying by `k` gives the same distance -/
theorem dpsCore_rescale (p s e : Pt ℝ) (k : ℝ) (hk : 0 < k) :
    k * dpsCore (⟨(p.x - s.x) / k, (p.y - s.y) / k⟩ : Pt ℝ) ⟨0, 0⟩ ⟨(e.x - s.x) / k, (e.y - s.y) / k⟩
      = dpsCore p s e := by
  rw [dpsCore_real, dpsCore_real]
  have hk2 : 0 < k * k := mul_pos hk hk
  set wx := p.x - s.x with hwx
  set wy := p.y - s.y with hwy
  set vx := e.x - s.x with hvx
  set vy := e.y - s.y with hvy
  have e1 : (wx / k - 0) * (vx / k - 0) + (wy / k - 0) * (vy / k - 0) = (wx * vx + wy * vy) / (k * k) := by
    field_simp; ring
  have e2 : (vx / k - 0) * (vx / k - 0) + (vy / k - 0) * (vy / k - 0) = (vx * vx + vy * vy) / (k * k) := by
    field_simp; ring
  simp only [e1, e2]
  have c1 : (wx * vx + wy * vy) / (k * k) ≤ 0 ↔ wx * vx + wy * vy ≤ 0 := by
    rw [div_le_iff₀ hk2, zero_mul]
  have c2 : (vx * vx + vy * vy) / (k * k) ≤ (wx * vx + wy * vy) / (k * k) ↔ vx * vx + vy * vy ≤ wx * vx + wy * vy := by
    rw [div_le_div_iff_of_pos_right hk2]
  simp only [c1, c2]
  split_ifs with h1 h2
  · rw [dist_real, dist_real]
    have := scale_sqrt k wx wy hk
    simpa using this
  · rw [dist_real, dist_real]
    have := scale_sqrt k (wx - vx) (wy - vy) hk
    have e3 : p.x - e.x = wx - vx := by simp only [hwx, hvx]; ring
    have e4 : p.y - e.y = wy - vy := by simp only [hwy, hvy]; ring
    rw [e3, e4, ← this]
    congr 2
    field_simp
  · rw [dist_real, dist_real]
    set b := (wx * vx + wy * vy) / (vx * vx + vy * vy) with hb
    have hbb : (wx * vx + wy * vy) / (k * k) / ((vx * vx + vy * vy) / (k * k)) = b := by
      rw [hb]; field_simp
    rw [hbb]
    have := scale_sqrt k (wx - b * vx) (wy - b * vy) hk
    have e3 : p.x - (s.x + b * vx) = wx - b * vx := by simp only [hwx]; ring
    have e4 : p.y - (s.y + b * vy) = wy - b * vy := by simp only [hwy]; ring
    simp only [e3, e4]
    rw [← this]
    congr 2
    field_simp; ring

/-- `distPointToSegment` at `ℝ`, with the Boolean tests turned into propositions (both sides of the
range guard give this value) -/
theorem distPointToSegment_real (p s e : Pt ℝ) :
    distPointToSegment p s e =
      if (p.x - s.x) * (e.x - s.x) + (p.y - s.y) * (e.y - s.y) ≤ 0 then dist p s
      else if (e.x - s.x) * (e.x - s.x) + (e.y - s.y) * (e.y - s.y) ≤
          (p.x - s.x) * (e.x - s.x) + (p.y - s.y) * (e.y - s.y) then dist p e
      else dist p ⟨s.x + ((p.x - s.x) * (e.x - s.x) + (p.y - s.y) * (e.y - s.y)) /
                ((e.x - s.x) * (e.x - s.x) + (e.y - s.y) * (e.y - s.y)) * (e.x - s.x),
              s.y + ((p.x - s.x) * (e.x - s.x) + (p.y - s.y) * (e.y - s.y)) /
                ((e.x - s.x) * (e.x - s.x) + (e.y - s.y) * (e.y - s.y)) * (e.y - s.y)⟩ := by
  rw [← dpsCore_real]
  unfold distPointToSegment
  simp only [psub]
  generalize hm : RNum.max (RNum.max (RNum.abs (e.x - s.x)) (RNum.abs (e.y - s.y)))
    (RNum.max (RNum.abs (p.x - s.x)) (RNum.abs (p.y - s.y))) = m
  rw [rescale_real]
  split_ifs with h
  · have hpos : 0 < m := by
      rcases h with h | h
      · exact lt_of_lt_of_le (by positivity) h
      · exact h.2
    simp only [ofNat_real, Nat.cast_zero]
    exact dpsCore_rescale p s e m hpos
  · rfl

/-! ## the point of a segment closest to `p` -/

/-- squared distance from `w` to `t • v`, expanded -/
theorem sqdist_expand (wx wy vx vy t : ℝ) :
    (wx - t * vx) ^ 2 + (wy - t * vy) ^ 2 =
      (wx ^ 2 + wy ^ 2) - 2 * t * (wx * vx + wy * vy) + t ^ 2 * (vx * vx + vy * vy) := by
  ring

/-- `c1 ≤ 0`: the start point is closest -/
theorem seg_case0 (wx wy vx vy t : ℝ) (ht : 0 ≤ t) (h : wx * vx + wy * vy ≤ 0) :
    wx ^ 2 + wy ^ 2 ≤ (wx - t * vx) ^ 2 + (wy - t * vy) ^ 2 := by
  rw [sqdist_expand]
  have h1 : 0 ≤ t * -(wx * vx + wy * vy) := mul_nonneg ht (by linarith)
  have h2 : 0 ≤ t ^ 2 * (vx * vx + vy * vy) :=
    mul_nonneg (sq_nonneg t) (add_nonneg (mul_self_nonneg vx) (mul_self_nonneg vy))
  nlinarith

/-- `c2 ≤ c1`: the end point is closest -/
theorem seg_case1 (wx wy vx vy t : ℝ) (ht : t ≤ 1)
    (h : vx * vx + vy * vy ≤ wx * vx + wy * vy) :
    (wx - vx) ^ 2 + (wy - vy) ^ 2 ≤ (wx - t * vx) ^ 2 + (wy - t * vy) ^ 2 := by
  rw [sqdist_expand]
  have hc2 : 0 ≤ vx * vx + vy * vy := add_nonneg (mul_self_nonneg vx) (mul_self_nonneg vy)
  have h1 : 0 ≤ (1 - t) * ((wx * vx + wy * vy) - (vx * vx + vy * vy)) :=
    mul_nonneg (by linarith) (by linarith)
  have h2 : 0 ≤ (1 - t) * (1 - t) * (vx * vx + vy * vy) :=
    mul_nonneg (mul_nonneg (by linarith) (by linarith)) hc2
  nlinarith

/-- `0 < c1 < c2`: the foot of the perpendicular, at `t₀ = c1 / c2`, is closest (on the whole line) -/
theorem seg_case2 (wx wy vx vy t : ℝ) (hc2 : 0 < vx * vx + vy * vy) :
    (wx - (wx * vx + wy * vy) / (vx * vx + vy * vy) * vx) ^ 2 +
      (wy - (wx * vx + wy * vy) / (vx * vx + vy * vy) * vy) ^ 2 ≤
    (wx - t * vx) ^ 2 + (wy - t * vy) ^ 2 := by
  set c2 := vx * vx + vy * vy with hc2def
  set c1 := wx * vx + wy * vy with hc1def
  set b := c1 / c2 with hb
  have hbc : b * c2 = c1 := by rw [hb]; field_simp
  rw [sqdist_expand, sqdist_expand, ← hc2def, ← hc1def]
  have h3 : 0 ≤ c2 * (t - b) ^ 2 := mul_nonneg hc2.le (sq_nonneg _)
  rw [← hbc]
  nlinarith [h3]

/-! ## consecutive pairs -/

/-- the consecutive pairs of a list, as the Go loops `for i := 0; i < len(l)-1; i++` visit them -/
def segs {β : Type} : List β → List (β × β)
  | a :: b :: t => (a, b) :: segs (b :: t)
  | _ => []

theorem segs_eq_zip {β : Type} (l : List β) : segs l = l.zip l.tail := by
  induction l with
  | nil => rfl
  | cons a t ih =>
    cases t with
    | nil => rfl
    | cons b t' => simp only [segs, List.tail_cons, List.zip_cons_cons] at ih ⊢; rw [ih]

theorem segs_eq_nil_iff {β : Type} (l : List β) : segs l = [] ↔ l.length < 2 := by
  match l with
  | [] => simp [segs]
  | [_] => simp [segs]
  | _ :: _ :: _ => simp [segs]

/-! ## length -/

theorem lengthGo_real (acc : ℝ) (l : List (Pt ℝ)) :
    lengthGo acc l =
      acc + ((segs l).map fun s => Real.sqrt ((s.2.x - s.1.x) ^ 2 + (s.2.y - s.1.y) ^ 2)).sum := by
  induction l generalizing acc with
  | nil => simp [lengthGo, segs]
  | cons a t ih =>
    cases t with
    | nil => simp [lengthGo, segs]
    | cons b t' =>
      rw [lengthGo, ih]
      simp only [segs, List.map_cons, List.sum_cons, hypot_real]
      ring

theorem foldl_add_real {β : Type} (f : β → ℝ) (acc : ℝ) (l : List β) :
    l.foldl (fun a x => a + f x) acc = acc + (l.map f).sum := by
  induction l generalizing acc with
  | nil => simp
  | cons a t ih => rw [List.foldl_cons, ih]; simp only [List.map_cons, List.sum_cons]; ring

/-! ## running minimum with `none = +∞` -/

theorem foldl_ominL_spec (xs : List ℝ) (d : Option ℝ) :
    (xs.foldl ominL d = none ↔ d = none ∧ xs = []) ∧
    ∀ m, xs.foldl ominL d = some m →
      (∀ x ∈ xs, m ≤ x) ∧ (∀ d0, d = some d0 → m ≤ d0) ∧ (m ∈ xs ∨ d = some m) := by
  induction xs generalizing d with
  | nil =>
    refine ⟨by simp, ?_⟩
    intro m hm
    simp only [List.foldl_nil] at hm
    exact ⟨by simp, fun d0 h => by rw [hm] at h; exact (Option.some.inj h).le, Or.inr hm⟩
  | cons x t ih =>
    rw [List.foldl_cons]
    obtain ⟨ih1, ih2⟩ := ih (ominL d x)
    refine ⟨?_, ?_⟩
    · rw [ih1]; cases d <;> simp [ominL]
    · intro m hm
      obtain ⟨h1, h2, h3⟩ := ih2 m hm
      cases d with
      | none =>
        have hmx : m ≤ x := h2 x rfl
        refine ⟨?_, by simp, ?_⟩
        · intro y hy
          rcases List.mem_cons.1 hy with rfl | hy
          · exact hmx
          · exact h1 y hy
        · rcases h3 with h3 | h3
          · exact Or.inl (List.mem_cons_of_mem _ h3)
          · simp only [ominL, Option.some.injEq] at h3
            exact Or.inl (h3 ▸ List.mem_cons_self)
      | some d0 =>
        have hmin : m ≤ min d0 x := h2 _ rfl
        refine ⟨?_, ?_, ?_⟩
        · intro y hy
          rcases List.mem_cons.1 hy with rfl | hy
          · exact le_trans hmin (min_le_right _ _)
          · exact h1 y hy
        · intro d1 hd1
          simp only [Option.some.injEq] at hd1
          exact hd1 ▸ le_trans hmin (min_le_left _ _)
        · rcases h3 with h3 | h3
          · exact Or.inl (List.mem_cons_of_mem _ h3)
          · simp only [ominL, min_real, Option.some.injEq] at h3
            rcases min_choice d0 x with h | h
            · right; rw [← h3, h]
            · left; rw [← h3, h]; exact List.mem_cons_self

theorem omin_ominL (d e : Option ℝ) (y : ℝ) : omin d (ominL e y) = ominL (omin d e) y := by
  cases d <;> cases e <;> simp [omin, ominL, min_assoc]

theorem omin_foldl_ominL (d e : Option ℝ) (xs : List ℝ) :
    omin d (xs.foldl ominL e) = xs.foldl ominL (omin d e) := by
  induction xs generalizing e with
  | nil => rfl
  | cons x t ih => rw [List.foldl_cons, List.foldl_cons, ih, omin_ominL]

/-- the distances `distanceGo` looks at -/
noncomputable def segDists (p : Pt ℝ) (l : List (Pt ℝ)) : List ℝ :=
  (segs l).map fun s => distPointToSegment p s.1 s.2

theorem distanceGo_real (p : Pt ℝ) (d : Option ℝ) (l : List (Pt ℝ)) :
    distanceGo p d l = (segDists p l).foldl ominL d := by
  induction l generalizing d with
  | nil => rfl
  | cons a t ih =>
    cases t with
    | nil => rfl
    | cons b t' => rw [distanceGo, ih]; rfl

theorem multiDistance_real (p : Pt ℝ) (ls : List (List (Pt ℝ))) (d : Option ℝ) :
    ls.foldl (fun d l => omin d (lineStringDistance l p)) d =
      (ls.flatMap (segDists p)).foldl ominL d := by
  induction ls generalizing d with
  | nil => rfl
  | cons l t ih =>
    rw [List.foldl_cons, ih, List.flatMap_cons, List.foldl_append]
    congr 1
    unfold lineStringDistance
    rw [distanceGo_real, omin_foldl_ominL]; rfl

/-! ## trigonometry for the buffer polygon -/

theorem chord_sq (a b : ℝ) :
    (Real.cos a - Real.cos b) ^ 2 + (Real.sin a - Real.sin b) ^ 2 = 2 * (1 - Real.cos (a - b)) := by
  rw [Real.cos_sub]
  linear_combination (Real.sin_sq_add_cos_sq a) + (Real.sin_sq_add_cos_sq b)

theorem circle_sq (r θ : ℝ) : (r * Real.cos θ) ^ 2 + (r * Real.sin θ) ^ 2 = r ^ 2 := by
  linear_combination r ^ 2 * (Real.sin_sq_add_cos_sq θ)

theorem side_sq (cx cy r a b : ℝ) :
    ((cx + r * Real.cos a) - (cx + r * Real.cos b)) ^ 2 +
      ((cy + r * Real.sin a) - (cy + r * Real.sin b)) ^ 2 = 2 * r ^ 2 * (1 - Real.cos (a - b)) := by
  linear_combination r ^ 2 * chord_sq a b

/-- `buffer` at `ℝ` once both guards pass -/
theorem buffer_real (c : Pt ℝ) (r : ℝ) (n : Int) (hn : 3 ≤ n) (hr : 0 ≤ r) :
    buffer c r n = .ok [(List.range n.toNat).map fun (i : ℕ) =>
      (⟨c.x + r * Real.cos ((i : ℝ) * (Real.pi * 2 / (n.toNat : ℝ))),
        c.y + r * Real.sin ((i : ℝ) * (Real.pi * 2 / (n.toNat : ℝ)))⟩ : Pt ℝ)] := by
  unfold buffer
  rw [if_neg (by omega), if_neg (by simp [hr])]
  simp

end GeomV.C03
