import GeomV.C03.LemmasTouch
import GeomV.C03.ProofsMScale
/-!
# C03 — the area and centroid clauses for polygons whose rings touch in single points

`Spec.ValidPolyT` (valid in the OGC sense: a hole may touch its shell and holes may touch each other in
single points, the touching pairs form a forest) was judged per case only.  Here the clauses of
`Proofs.lean` are proved for the union `ValidAny = ValidPoly ∨ ValidPolyT`: the decision of `area()`
after fix 7bc15fa (vertices, then edge middles; the first that is not `OnEdge` decides) gives every
ring of such a polygon, however spelled, the weight `+measure` (shell) or `−measure` (hole).
-/
namespace GeomV.C03
open Spec
set_option linter.unusedSimpArgs false

/-- valid polygon (shell :: holes, open spelling): rings apart (`ValidPoly`) or touching in single
points (`ValidPolyT`) -/
def ValidAny (p : Poly) : Bool := ValidPoly p || ValidPolyT p

theorem simple_of_validAny {p : Poly} (hv : ValidAny p = true) : ∀ r ∈ p, SimpleRing r = true := by
  intro r hr
  cases p with
  | nil => simp at hr
  | cons shell holes =>
    simp only [ValidAny, Bool.or_eq_true] at hv
    rcases hv with hv | hv
    · simp only [ValidPoly, Bool.and_eq_true, List.all_eq_true] at hv
      exact hv.1.1.1 r hr
    · simp only [ValidPolyT, Bool.and_eq_true, List.all_eq_true] at hv
      exact hv.1.1.1 r hr

/-- what `area` weighs the rings of any spelling of a valid polygon with -/
theorem weights_list_any (p : Poly) (ss : List Spell) (hlen : ss.length = p.length) (hv : ValidAny p = true) :
    (withOthers [] (respell ss p)).map (fun ro => (ro.1, ringArea ((respell ss p).length == 1) ro.1 ro.2))
      = (weights (respell ss p)).map fun x => (x.2, x.1) := by
  cases p with
  | nil => simp [ValidAny, ValidPoly, ValidPolyT] at hv
  | cons shell holes =>
    cases ss with
    | nil => simp at hlen
    | cons s0 sh =>
      simp only [ValidAny, Bool.or_eq_true] at hv
      rcases hv with hv | hv
      · exact weights_list shell holes s0 sh (by simpa using hlen) hv (pipAgrees_respell (s0 :: sh) hv)
      · exact weights_listT shell holes s0 sh (by simpa using hlen) hv

theorem sum_weights (p : Poly) : ((weights p).map (·.1)).sum = Spec.area p := by
  cases p with
  | nil => rfl
  | cons shell holes =>
    simp only [weights, List.map_cons, List.map_map, List.sum_cons, Spec.area, sumR_eq_sum]
    have : (holes.map ((fun x : Rat × Ring => x.1) ∘ fun h => (-(Spec.measure h), h))).sum
        = -(holes.map Spec.measure).sum := by
      induction holes with
      | nil => simp
      | cons h t ih => simp only [List.map_cons, List.sum_cons, Function.comp, ih]; ring
    rw [this]; ring

/-- **Area clause, rings apart or touching in single points.**  For every valid polygon `p`
(`ValidPoly` or `ValidPolyT`) and every combination `ss` of per-ring reversal, rotation and
closed/unclosed spelling, `Polygon.Area` of the spelled polygon is measure(shell) − Σ measure(holes).
For `ValidPolyT` this is the correctness of the decision added by fix 7bc15fa: a ring all of whose
vertices lie on other rings is decided by the middle of an edge. -/
theorem C03_area_touch (p : Poly) (ss : List Spell) (hlen : ss.length = p.length)
    (hv : ValidAny p = true) :
    polygonArea (respell ss p) = Spec.area p := by
  unfold polygonArea
  have e : ((withOthers [] (respell ss p)).map fun ro => ringArea ((respell ss p).length == 1) ro.1 ro.2)
      = ((withOthers [] (respell ss p)).map
          (fun ro => (ro.1, ringArea ((respell ss p).length == 1) ro.1 ro.2))).map (·.2) := by
    rw [List.map_map]; rfl
  rw [e, weights_list_any p ss hlen hv, List.map_map]
  have e2 : ((fun x : Ring × Rat => x.2) ∘ fun x : Rat × Ring => (x.2, x.1)) = fun x => x.1 := rfl
  rw [e2, sumW_congr (weights_respell p ss hlen), sum_weights]

/-- **Area clause, multi-polygons**, members valid with rings apart or touching. -/
theorem C03_marea_touch (mp : MPoly) (sss : List (List Spell))
    (hlen : List.Forall₂ (fun ss p => ss.length = p.length) sss mp)
    (hv : ∀ p ∈ mp, ValidAny p = true ∧ HolesFit p = true) :
    multiPolygonArea (List.zipWith respell sss mp) = Spec.marea mp := by
  have hmap : (List.zipWith respell sss mp).map polygonArea = mp.map Spec.area := by
    induction hlen with
    | nil => rfl
    | @cons ss p sst mpt hl _ ih =>
      simp only [List.zipWith_cons_cons, List.map_cons]
      rw [C03_area_touch p ss hl (hv p (by simp)).1,
        ih (fun q hq => hv q (by simp [hq]))]
  unfold multiPolygonArea Spec.marea
  rw [hmap, ← sumR_eq_sum, absR_eq_abs, abs_of_nonneg]
  rw [sumR_eq_sum]
  apply list_sum_nonneg
  intro x hx
  rw [List.mem_map] at hx
  obtain ⟨q, hq, rfl⟩ := hx
  have := (hv q hq).2
  unfold HolesFit at this
  exact of_decide_eq_true this

/-- one member of the multi-polygon -/
theorem mpCentroidRings_any (p : Poly) (ss : List Spell) (hlen : ss.length = p.length)
    (hcl : ∀ s ∈ ss, s.closed = true) (hv : ValidAny p = true) (s : CAcc) :
    mpCentroidRings ((respell ss p).length == 1) (withOthers [] (respell ss p)) s
      = (weights (respell ss p)).foldl addW s := by
  rw [mpCentroidRings_fold, weights_list_any p ss hlen hv]
  apply foldl_stepGo_eq
  intro x hx
  have hx2 : x.2 ∈ respell ss p := by
    rw [← weights_rings (respell ss p)]
    exact List.mem_map_of_mem hx
  obtain ⟨s', hs', r, hr, e⟩ := mem_respell hx2
  rw [e]
  exact closedGood_ap s' (hcl s' hs') r (shoelace_ne_of_simple (simple_of_validAny hv r hr))

/-- **Centroid clause (MultiPolygon), rings apart or touching in single points.**  For a multi-polygon
of valid members (`ValidPoly` or `ValidPolyT` each), every choice of per-ring direction and start vertex
with closed spelling, the `MultiPolygon.Centroid` loop returns the area-weighted centroid of the base
(shells `+measure`, holes `−measure`), the same point for every spelling — in particular when any single
ring is reversed. -/
theorem C03_mcentroid_touch (mp : MPoly) (sss : List (List Spell))
    (hlen : List.Forall₂ (fun ss p => ss.length = p.length) sss mp)
    (hclosed : ∀ ss ∈ sss, ∀ s ∈ ss, s.closed = true)
    (hv : ∀ p ∈ mp, ValidAny p = true)
    (hW : ((mp.flatMap weights).map (·.1)).sum ≠ 0) :
    multiPolygonCentroidCore (List.zipWith respell sss mp) = (.fin (mcentroid mp).x, .fin (mcentroid mp).y) := by
  have hmem : ∀ p' ∈ List.zipWith respell sss mp, ∀ s,
      mpCentroidRings (p'.length == 1) (withOthers [] p') s = (weights p').foldl addW s := by
    clear hW
    induction hlen with
    | nil => intro p' hp'; simp at hp'
    | @cons ss p sst mpt hl _ ih =>
      intro p' hp'
      simp only [List.zipWith_cons_cons, List.mem_cons] at hp'
      rcases hp' with e | hp'
      · subst e
        exact mpCentroidRings_any p ss hl (hclosed ss (by simp)) (hv p (by simp))
      · exact ih (fun q hq => hclosed q (by simp [hq])) (fun q hq => hv q (by simp [hq])) p' hp'
  have hrel := flatMap_weights_respell mp sss hlen
  unfold multiPolygonCentroidCore
  rw [mpCentroidAcc_fold _ hmem, foldl_addW]
  have hW' : (((List.zipWith respell sss mp).flatMap weights).map (·.1)).sum ≠ 0 := by
    rw [sumW_congr hrel]; exact hW
  have hm : mcentroid mp = mcentroid (List.zipWith respell sss mp) := (wmean_congr hrel).symm
  rw [hm]
  simp only [CAcc.zero, CAcc.finish, zero_add, fdiv, if_neg hW']
  unfold mcentroid wmean
  simp only [sumR_eq_sum]
  simp

/-- the same for `MultiPolygon.Centroid` as it is now (range guard of fix 4edcec2 included, both
branches: `C03_mcentroid_guard`) -/
theorem C03_mcentroid_touch_guarded (mp : MPoly) (sss : List (List Spell))
    (hlen : List.Forall₂ (fun ss p => ss.length = p.length) sss mp)
    (hclosed : ∀ ss ∈ sss, ∀ s ∈ ss, s.closed = true)
    (hv : ∀ p ∈ mp, ValidAny p = true)
    (hW : ((mp.flatMap weights).map (·.1)).sum ≠ 0) :
    multiPolygonCentroidScaled (List.zipWith respell sss mp) = (.fin (mcentroid mp).x, .fin (mcentroid mp).y) := by
  rw [C03_mcentroid_guard]; exact C03_mcentroid_touch mp sss hlen hclosed hv hW

/-- **Centroid clause (Polygon), rings apart or touching in single points**, for `Polygon.Centroid` as
it is now (range guard included): holes wound against the shell, all rings reversed together or none,
any rotations/closures → the area-weighted centroid of the base polygon, fault-free and finite. -/
theorem C03_centroid_valid_touch (p : Poly) (ss : List Spell) (hlen : ss.length = p.length)
    (b : Bool) (hb : ∀ s ∈ ss, s.rev = b)
    (hv : ValidAny p = true) (halt : Alternating p = true)
    (hW : (p.map fun r => shoelace2 r / 2).sum ≠ 0) :
    polygonCentroidScaled (respell ss p) = .ok (.fin (Spec.centroid p).x, .fin (Spec.centroid p).y) := by
  rw [C03_centroid_guard]
  have h : ∀ r ∈ p, shoelace2 r ≠ 0 := fun r hr => shoelace_ne_of_simple (simple_of_validAny hv r hr)
  have h' : ∀ r' ∈ respell ss p, shoelace2 r' ≠ 0 := by
    intro r' hr'
    obtain ⟨s, _, r, hr, e⟩ := mem_respell hr'
    rw [e, shoelace2_ap]; have := h r hr
    split <;> simpa using this
  let σ : Rat := if b then -1 else 1
  have hσ : σ ≠ 0 := by simp only [σ]; split <;> norm_num
  have e3 := sum_map_respell (fun r => shoelace2 r / 2) σ ss p hlen
    (by intro s hs r; simp only [shoelace2_ap, hb s hs, σ]; ring)
  have hW' : ((respell ss p).map fun r => shoelace2 r / 2).sum ≠ 0 := by
    rw [e3]; exact mul_ne_zero hσ hW
  rw [C03_centroid _ h' hW', C03_centroid_invariant p ss hlen b hb h, C03_centroid_true p halt h]

/-! non-vacuity.  `exTouch`: the 10×10 square with a triangular hole whose vertex (0,5) lies on the
shell's left side — `ValidPolyT`, not `ValidPoly`.  `exStar`: the failing input of defect 7, a triangle
with a hole in each corner: every vertex of the shell lies on a hole, the shell is decided by the middle
of an edge. -/
def exTouch : Poly := [[⟨0,0⟩, ⟨10,0⟩, ⟨10,10⟩, ⟨0,10⟩], [⟨0,5⟩, ⟨4,3⟩, ⟨4,7⟩]]
def exStar : Poly := [[⟨0,0⟩, ⟨12,0⟩, ⟨0,12⟩], [⟨0,0⟩, ⟨3,1⟩, ⟨1,3⟩], [⟨12,0⟩, ⟨8,1⟩, ⟨9,2⟩], [⟨0,12⟩, ⟨1,8⟩, ⟨2,9⟩]]
def exStarSpell : List Spell := [⟨1, true, true⟩, ⟨0, false, false⟩, ⟨2, true, true⟩, ⟨1, false, true⟩]

example : ValidPolyT exTouch = true ∧ ValidPoly exTouch = false ∧ HolesFit exTouch = true := by decide +kernel
example : ValidPolyT exStar = true ∧ ValidPoly exStar = false ∧ exStarSpell.length = exStar.length := by
  decide +kernel
example : polygonArea (respell exStarSpell exStar) = 63 := by
  rw [C03_area_touch exStar exStarSpell (by decide) (by unfold ValidAny; decide +kernel)]; decide +kernel
/-- the hole of `exTouch` wound against the shell: alternating, weights do not cancel -/
def exTouchAlt : Poly := [[⟨0,0⟩, ⟨10,0⟩, ⟨10,10⟩, ⟨0,10⟩], [⟨0,5⟩, ⟨4,7⟩, ⟨4,3⟩]]
example : ValidAny exTouchAlt = true ∧ Alternating exTouchAlt = true ∧
    (exTouchAlt.map fun r => shoelace2 r / 2).sum ≠ 0 ∧
    ((([exTouchAlt, exStar] : MPoly).flatMap weights).map (·.1)).sum ≠ 0 := by
  unfold ValidAny; decide +kernel

end GeomV.C03
