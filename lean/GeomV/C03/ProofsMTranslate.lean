import GeomV.C03.ProofsTranslate
import GeomV.C03.ProofsMScale
import GeomV.C03.ProofsTouch
import GeomV.C03.ProofsOrder
/-!
# C03 — translation invariance of `area()` and equivariance of the `MultiPolygon.Centroid` loop

The weights of the `MultiPolygon.Centroid` loop go through `area()`, whose hole sign is decided by
within.go's point-in-polygon test.  Here: C02's model of that test (`Model.pip`) answers the same for a
point and rings translated together (`pip_translate`, next to `pip_scale`: via C02's theorem
`pointInPolygon_spec`, segment by segment); hence `area()` is translation invariant
(`ringArea_translate`, `C03_area_translate`), the multi-polygon loop is translation equivariant on
multi-polygons whose rings are closed (`multiPolygonCentroidCore_translate`; on an unclosed ring the loop
drops the closing term and is not equivariant — outside the statement, modelled as the code does it),
and the origin guard of `MultiPolygon.Centroid` is the identity on the exact model for closed rings
(`C03_mcentroid_origin_guard`).
-/
namespace GeomV.C03
open Spec
set_option linter.unusedSimpArgs false

def trSeg (tx ty : Rat) (s : P × P) : P × P := (trPt tx ty s.1, trPt tx ty s.2)

theorem translateRing_length (tx ty : Rat) (r : Ring) : (translateRing tx ty r).length = r.length := by
  simp [translateRing]

/-! ### C02's specification of the point-in-polygon test under translation -/

theorem c02_segments_translate (tx ty : Rat) (r : Ring) :
    C02.Spec.segments (translateRing tx ty r) = (C02.Spec.segments r).map (trSeg tx ty) := by
  unfold C02.Spec.segments
  rw [translateRing_length]
  by_cases h3 : r.length < 3
  · rw [if_pos h3, if_pos h3]; rfl
  · rw [if_neg h3, if_neg h3]
    rw [translateRing_eq_map, List.getLast?_map, List.head?_map]
    cases hH : r.head? with
    | none => rfl
    | some first =>
      cases hL : r.getLast? with
      | none => rfl
      | some last =>
        simp only [Option.map_some, List.map_append]
        rw [c02_pairs_map]
        congr 1
        by_cases e : last = first
        · have e' : trPt tx ty last = trPt tx ty first := by rw [e]
          simp [e, e']
        · have e' : trPt tx ty last ≠ trPt tx ty first := fun c => e ((trPt_inj tx ty _ _).mp c)
          simp [e, e', trSeg]

theorem c02_between_translate (t u v w : Rat) :
    C02.Spec.between (u - t) (v - t) (w - t) = C02.Spec.between u v w := by
  unfold C02.Spec.between
  simp only [sub_le_sub_iff_right]

theorem c02_onSeg_translate (tx ty : Rat) (p : P) (s : P × P) :
    C02.Spec.onSeg (trPt tx ty p) (trSeg tx ty s) = C02.Spec.onSeg p s := by
  unfold C02.Spec.onSeg trSeg trPt
  simp only [c02_between_translate]
  congr 1
  have e1 : (s.2.x - tx - (s.1.x - tx)) * (p.y - ty - (s.1.y - ty)) = (s.2.x - s.1.x) * (p.y - s.1.y) := by ring
  have e2 : (s.2.y - ty - (s.1.y - ty)) * (p.x - tx - (s.1.x - tx)) = (s.2.y - s.1.y) * (p.x - s.1.x) := by ring
  rw [e1, e2]

theorem c02_crossHO_translate (tx ty : Rat) (p : P) (s : P × P) :
    C02.Spec.crossHO (trPt tx ty p) (trSeg tx ty s) = C02.Spec.crossHO p s := by
  unfold C02.Spec.crossHO
  have hlo : (if (trSeg tx ty s).1.y ≤ (trSeg tx ty s).2.y then (trSeg tx ty s).1 else (trSeg tx ty s).2)
      = trPt tx ty (if s.1.y ≤ s.2.y then s.1 else s.2) := by
    simp only [trSeg, trPt, sub_le_sub_iff_right]; split <;> rfl
  have hhi : (if (trSeg tx ty s).1.y ≤ (trSeg tx ty s).2.y then (trSeg tx ty s).2 else (trSeg tx ty s).1)
      = trPt tx ty (if s.1.y ≤ s.2.y then s.2 else s.1) := by
    simp only [trSeg, trPt, sub_le_sub_iff_right]; split <;> rfl
  simp only [hlo, hhi]
  generalize (if s.1.y ≤ s.2.y then s.1 else s.2) = lo
  generalize (if s.1.y ≤ s.2.y then s.2 else s.1) = hi
  simp only [trPt, sub_le_sub_iff_right, sub_lt_sub_iff_right]
  congr 2
  have e : lo.x - tx + (p.y - ty - (lo.y - ty)) * (hi.x - tx - (lo.x - tx)) / (hi.y - ty - (lo.y - ty))
      = (lo.x + (p.y - lo.y) * (hi.x - lo.x) / (hi.y - lo.y)) - tx := by
    have e0 : hi.y - ty - (lo.y - ty) = hi.y - lo.y := by ring
    have e1 : p.y - ty - (lo.y - ty) = p.y - lo.y := by ring
    have e2 : hi.x - tx - (lo.x - tx) = hi.x - lo.x := by ring
    rw [e0, e1, e2]; ring
  rw [e, sub_lt_sub_iff_right]

theorem c02_flatMap_segments_translate (tx ty : Rat) (rings : Poly) :
    (translatePoly tx ty rings).flatMap C02.Spec.segments = (rings.flatMap C02.Spec.segments).map (trSeg tx ty) := by
  induction rings with
  | nil => rfl
  | cons r t ih =>
    have e : translatePoly tx ty (r :: t) = translateRing tx ty r :: translatePoly tx ty t := rfl
    rw [e, List.flatMap_cons, List.flatMap_cons, List.map_append, ih, c02_segments_translate]

theorem ringsVerdict_translate (tx ty : Rat) (pt : P) (rings : Poly) (b : Bool) :
    C02.ringsVerdict (trPt tx ty pt) (translatePoly tx ty rings) b = C02.ringsVerdict pt rings b := by
  unfold C02.ringsVerdict
  rw [c02_flatMap_segments_translate, List.any_map, List.countP_map]
  have h1 : (C02.Spec.onSeg (trPt tx ty pt) ∘ trSeg tx ty) = C02.Spec.onSeg pt := by
    funext s; exact c02_onSeg_translate tx ty pt s
  have h2 : (C02.Spec.crossHO (trPt tx ty pt) ∘ trSeg tx ty) = C02.Spec.crossHO pt := by
    funext s; exact c02_crossHO_translate tx ty pt s
  rw [h1, h2]

/-- **within.go's point-in-polygon test (C02's model) is invariant under translation** of the point and
the rings together — every point, every list of rings, every `(tx, ty)`. -/
theorem pip_translate (tx ty : Rat) (pt : P) (rings : Poly) :
    pip (trPt tx ty pt) (translatePoly tx ty rings) = pip pt rings := by
  rw [pip_eq, pip_eq, ringsVerdict_translate]

/-! ### `area()` under translation -/

theorem mid_translate (tx ty : Rat) (a b : P) : mid (trPt tx ty a) (trPt tx ty b) = trPt tx ty (mid a b) := by
  unfold mid trPt
  congr 1 <;> ring

theorem midsAux_translate (tx ty : Rat) (f : P) (l : List P) :
    midsAux (trPt tx ty f) (l.map (trPt tx ty)) = (midsAux f l).map (trPt tx ty) := by
  induction l with
  | nil => rfl
  | cons x t ih =>
    cases t with
    | nil => simp [midsAux, mid_translate]
    | cons y t' =>
      simp only [List.map_cons, midsAux] at ih ⊢
      rw [ih, mid_translate]

theorem edgeMids_translate (tx ty : Rat) (r : Ring) :
    edgeMids (translateRing tx ty r) = translateRing tx ty (edgeMids r) := by
  cases r with
  | nil => rfl
  | cons a t =>
    rw [translateRing_eq_map, translateRing_eq_map]
    show midsAux (trPt tx ty a) ((a :: t).map (trPt tx ty)) = _
    rw [midsAux_translate]; rfl

theorem firstDecisive_translate (tx ty : Rat) (others : Poly) (l : List P) :
    firstDecisive (translatePoly tx ty others) (l.map (trPt tx ty)) = firstDecisive others l := by
  induction l with
  | nil => rfl
  | cons v t ih =>
    simp only [List.map_cons, firstDecisive]
    rw [pip_translate, ih]

theorem pointsSimilar_zero_translate (tx ty : Rat) (r g : Ring) :
    pointsSimilar 0 (translateRing tx ty r) (translateRing tx ty g) = pointsSimilar 0 r g := by
  cases r with
  | nil => cases g <;> rfl
  | cons a t =>
    cases g with
    | nil => rfl
    | cons b u =>
      simp [translateRing, pointsSimilar, similar_zero]

theorem goCyc_shoeF_translate (tx ty : Rat) (r : Ring) :
    goCyc shoeF (translateRing tx ty r) = goCyc shoeF r := by
  rw [goCyc_eq_cyc, goCyc_eq_cyc, cyc_shoeF_eq_crossF, cyc_shoeF_eq_crossF, ← shoelace2_eq', ← shoelace2_eq',
    shoelace2_translate]

/-- **`area(r, i, p, bounds)` is translation invariant**: every ring, every list of other rings, every
`(tx, ty)` — the hole decision (vertices, edge middles, identical-ring fallback) and the value are the
same on the translated copy. -/
theorem ringArea_translate (tx ty : Rat) (single : Bool) (r : Ring) (others : Poly) :
    ringArea single (translateRing tx ty r) (translatePoly tx ty others) = ringArea single r others := by
  unfold ringArea
  rw [translateRing_length]
  by_cases hl : r.length < 2
  · rw [if_pos hl, if_pos hl]
  · rw [if_neg hl, if_neg hl]
    simp only []
    rw [goCyc_shoeF_translate]
    cases single with
    | true => simp
    | false =>
      simp only [Bool.false_eq_true, if_false]
      have hpts : translateRing tx ty r ++ edgeMids (translateRing tx ty r) = (r ++ edgeMids r).map (trPt tx ty) := by
        rw [edgeMids_translate, translateRing_eq_map, translateRing_eq_map, List.map_append]
      rw [hpts, firstDecisive_translate]
      have hm : ((translatePoly tx ty others).filter (pointsSimilar 0 (translateRing tx ty r))).length
          = (others.filter (pointsSimilar 0 r)).length := by
        unfold translatePoly
        rw [List.filter_map, List.length_map]
        congr 2
        funext g
        exact pointsSimilar_zero_translate tx ty r g
      rw [hm]

theorem translatePoly_append (tx ty : Rat) (a b : Poly) :
    translatePoly tx ty (a ++ b) = translatePoly tx ty a ++ translatePoly tx ty b := by
  simp [translatePoly]

theorem withOthers_translate (tx ty : Rat) (rest : Poly) : ∀ pre : Poly,
    withOthers (translatePoly tx ty pre) (translatePoly tx ty rest)
      = (withOthers pre rest).map fun ro => (translateRing tx ty ro.1, translatePoly tx ty ro.2) := by
  induction rest with
  | nil => intro pre; rfl
  | cons r t ih =>
    intro pre
    have e : translatePoly tx ty (r :: t) = translateRing tx ty r :: translatePoly tx ty t := rfl
    rw [e]
    simp only [withOthers, List.map_cons]
    have e2 : translatePoly tx ty pre ++ [translateRing tx ty r] = translatePoly tx ty (pre ++ [r]) := by
      rw [translatePoly_append]; rfl
    rw [e2, ih, translatePoly_append]

theorem translatePoly_length (tx ty : Rat) (p : Poly) : (translatePoly tx ty p).length = p.length := by
  simp [translatePoly]

/-- **`Polygon.Area` is translation invariant** on the exact model, every input, every `(tx, ty)`. -/
theorem C03_area_translate (tx ty : Rat) (p : Poly) :
    polygonArea (translatePoly tx ty p) = polygonArea p := by
  unfold polygonArea
  have h0 : withOthers [] (translatePoly tx ty p) = withOthers (translatePoly tx ty []) (translatePoly tx ty p) := rfl
  rw [h0, withOthers_translate, List.map_map, translatePoly_length]
  congr 1
  apply List.map_congr_left
  intro ro _
  simp only [Function.comp]
  exact ringArea_translate tx ty _ ro.1 ro.2

/-! ### the `MultiPolygon.Centroid` loop -/

/-- the weight `area(r, …)` is 0 when the divisor `signedarea(r)` is -/
theorem ringArea_zero_of_signedArea (single : Bool) (r : Ring) (others : Poly) (h : signedArea r = 0) :
    ringArea single r others = 0 := by
  unfold ringArea
  by_cases hl : r.length < 2
  · rw [if_pos hl]
  · rw [if_neg hl]
    unfold signedArea at h
    rw [if_neg hl] at h
    simp only []
    rw [h]
    have h0 : absR 0 = 0 := by unfold absR; simp
    rw [h0]
    cases single with
    | true => simp
    | false =>
      simp only [Bool.false_eq_true, if_false]
      cases firstDecisive others (r ++ edgeMids r) with
      | none => simp only []; split <;> simp
      | some s => cases s <;> simp

theorem withOthers_fst_mem : ∀ (rest pre : Poly) (ro : Ring × Poly), ro ∈ withOthers pre rest → ro.1 ∈ rest := by
  intro rest
  induction rest with
  | nil => intro pre ro h; simp [withOthers] at h
  | cons r t ih =>
    intro pre ro h
    simp only [withOthers, List.mem_cons] at h
    rcases h with h | h
    · rw [h]; simp
    · exact List.mem_cons_of_mem _ (ih _ ro h)

theorem mpCentroidRings_translate (tx ty : Rat) (single : Bool)
    (l : List (Ring × Poly)) (hc : ∀ ro ∈ l, closeIfOpen ro.1 = .ok ro.1) (s : CAcc) :
    mpCentroidRings single (l.map fun ro => (translateRing tx ty ro.1, translatePoly tx ty ro.2)) (s.tr tx ty)
      = (mpCentroidRings single l s).tr tx ty := by
  induction l generalizing s with
  | nil => rfl
  | cons ro t ih =>
    obtain ⟨r, others⟩ := ro
    have hr : closeIfOpen r = .ok r := hc (r, others) (by simp)
    simp only [List.map_cons, mpCentroidRings]
    rw [pairSum_cx_translate_closed tx ty hr, pairSum_cy_translate_closed tx ty hr,
      signedArea_translate, ringArea_translate,
      CAcc.add_tr tx ty s _ _ _ _ (ringArea_zero_of_signedArea single r others),
      ih (fun g hg => hc g (by simp [hg]))]

theorem mpCentroidAcc_translate (tx ty : Rat) (mp : MPoly) (hc : ∀ p ∈ mp, AllClosed p) (s : CAcc) :
    mpCentroidAcc (mp.map (translatePoly tx ty)) (s.tr tx ty) = (mpCentroidAcc mp s).tr tx ty := by
  induction mp generalizing s with
  | nil => rfl
  | cons p t ih =>
    simp only [List.map_cons, mpCentroidAcc]
    have h0 : withOthers [] (translatePoly tx ty p) = withOthers (translatePoly tx ty []) (translatePoly tx ty p) := rfl
    have hp : ∀ ro ∈ withOthers [] p, closeIfOpen ro.1 = .ok ro.1 :=
      fun ro hro => hc p (by simp) ro.1 (withOthers_fst_mem p [] ro hro)
    rw [h0, withOthers_translate, translatePoly_length, mpCentroidRings_translate tx ty _ _ hp,
      ih (fun g hg => hc g (by simp [hg]))]

/-- **Translation equivariance of the `MultiPolygon.Centroid` loop on closed rings**: for every
`(tx, ty)`, the loop on the copy with `(tx, ty)` subtracted from every vertex, plus `(tx, ty)`, is the
loop on the original — values and non-finite outcomes alike; the weights `area(r, i, p, b)` included
(their hole decision is translation invariant, `pip_translate`). -/
theorem multiPolygonCentroidCore_translate (tx ty : Rat) (mp : MPoly) (hc : ∀ p ∈ mp, AllClosed p) :
    unshift tx ty (multiPolygonCentroidCore (mp.map (translatePoly tx ty))) = multiPolygonCentroidCore mp := by
  unfold multiPolygonCentroidCore
  have h0 : CAcc.zero = CAcc.zero.tr tx ty := by simp [CAcc.zero, CAcc.tr]
  rw [h0, mpCentroidAcc_translate tx ty mp hc, ← h0, finish_tr tx ty]

/-- **`MultiPolygon.Centroid` as it is now (origin guard, range guard, loops) is its loop** on
multi-polygons whose rings are closed (exact model). -/
theorem C03_mcentroid_origin_guard (mp : MPoly) (hc : ∀ p ∈ mp, AllClosed p) :
    multiPolygonCentroid mp = multiPolygonCentroidCore mp := by
  unfold multiPolygonCentroid
  cases h : centOriginM mp with
  | none => exact C03_mcentroid_guard mp
  | some o =>
    obtain ⟨ox, oy⟩ := o
    simp only [C03_mcentroid_guard]
    exact multiPolygonCentroidCore_translate ox oy mp hc

/-! ### the centroid clauses for the three functions as they are now (origin guard, range guard, loops) -/

theorem polygonCentroid_eq_scaled (p : Poly) : polygonCentroid p = polygonCentroidScaled p := by
  rw [C03_centroid_origin_guard, C03_centroid_guard]

theorem multiPolygonCentroid_eq_scaled (mp : MPoly) (hc : ∀ p ∈ mp, AllClosed p) :
    multiPolygonCentroid mp = multiPolygonCentroidScaled mp := by
  rw [C03_mcentroid_origin_guard mp hc, C03_mcentroid_guard]

/-- **Centroid clause (Polygon), rings apart or touching in single points, any ring order**, for
`Polygon.Centroid` AS IT IS NOW: holes wound against the shell, all rings reversed together or none, any
rotations/closures, rings listed in any order → the area-weighted centroid of the base polygon,
fault-free and finite. -/
theorem C03_centroid_valid_anyorder_now (p : Poly) (ss : List Spell) (hlen : ss.length = p.length)
    (b : Bool) (hb : ∀ s ∈ ss, s.rev = b)
    (hv : ValidAny p = true) (halt : Alternating p = true)
    (hW : (p.map fun r => shoelace2 r / 2).sum ≠ 0) (p' : Poly) (hp : p'.Perm (respell ss p)) :
    polygonCentroid p' = .ok (.fin (Spec.centroid p).x, .fin (Spec.centroid p).y) := by
  rw [polygonCentroid_eq_scaled]; exact C03_centroid_valid_anyorder p ss hlen b hb hv halt hW p' hp

/-- **Centroid clause (MultiPolygon), rings apart or touching, any ring order**, for
`MultiPolygon.Centroid` AS IT IS NOW: every member of `mp'` lists, in any order, the rings of a closed
spelling of the corresponding valid member of `mp`.  `hcl` (decidable) says that the rings handed to the
function are closed — the rings the statement speaks of; it follows from `hclosed` for non-empty rings
and is kept explicit. -/
theorem C03_mcentroid_anyorder_now (mp : MPoly) (sss : List (List Spell))
    (hlen : List.Forall₂ (fun ss p => ss.length = p.length) sss mp)
    (hclosed : ∀ ss ∈ sss, ∀ s ∈ ss, s.closed = true)
    (hv : ∀ p ∈ mp, ValidAny p = true)
    (hW : ((mp.flatMap weights).map (·.1)).sum ≠ 0)
    (mp' : MPoly) (hp : List.Forall₂ List.Perm mp' (List.zipWith respell sss mp))
    (hcl : ∀ p ∈ mp', AllClosed p) :
    multiPolygonCentroid mp' = (.fin (mcentroid mp).x, .fin (mcentroid mp).y) := by
  rw [multiPolygonCentroid_eq_scaled mp' hcl]; exact C03_mcentroid_anyorder mp sss hlen hclosed hv hW mp' hp

/-- non-vacuity: the two-member example of Proofs.lean in its closed spelling, 2^30 away from the origin
on both axes: its rings are closed, the origin guard fires, and the function returns what its loop
returns on the original coordinates -/
example :
    let mp' : MPoly := (List.zipWith respell exMSpell exMP).map (translatePoly (-(2:Rat)^30) (-(2:Rat)^30))
    (∀ p ∈ mp', AllClosed p) ∧ (centOriginM mp').isSome = true ∧
      multiPolygonCentroid mp' = multiPolygonCentroidCore mp' := by
  decide +kernel

end GeomV.C03
