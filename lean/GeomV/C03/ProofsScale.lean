import GeomV.C03.Proofs
import Mathlib.Tactic.FieldSimp
import Mathlib.Tactic.Positivity
/-!
# C03 — the range guard of the centroids is the identity on the exact model

`Polygon.Centroid`, `op.Centroid` (and `MultiPolygon.Centroid`, see `ProofsMScale.lean`) divide the X
coordinates by a power of two `kx` and the Y coordinates by a power of two `ky` when the largest |X|
(resp. |Y|) is outside `[2^-300, 2^300]`, run the unchanged loops on the copy and multiply the result
back (fix 4edcec2, made per axis by the later fix for polygons whose extents in x and y differ by more
than ~2^500).  Here: for EVERY positive `kx`, `ky` the loops are homogeneous
(`core (p / (kx, ky)) · (kx, ky) = core p`, faults and non-finite results included), the factors the
code picks are positive, hence the guarded functions equal their loops on every input, and the centroid
clauses proved for the loops in `Proofs.lean` hold for the functions as they are now.
-/
namespace GeomV.C03
open Spec
set_option linter.unusedSimpArgs false

/-- a point with X divided by `kx` and Y by `ky` -/
def scPt (kx ky : Rat) (v : P) : P := ⟨v.x / kx, v.y / ky⟩

theorem scaleRing_eq_map (kx ky : Rat) (r : Ring) : scaleRing kx ky r = r.map (scPt kx ky) := rfl

/-! ### the sums under scaling -/

theorem pairSum_scaleG (f : P → P → Rat) (S : P → P) (c : Rat)
    (hf : ∀ a b : P, f (S a) (S b) = f a b / c) (l : List P) :
    pairSum f (l.map S) = pairSum f l / c := by
  induction l with
  | nil => simp [pairSum]
  | cons a t ih =>
    cases t with
    | nil => simp [pairSum]
    | cons b t' =>
      simp only [List.map_cons] at ih ⊢
      rw [pairSum_cons_cons, ih, pairSum_cons_cons, hf]; ring

theorem cxF_scale (kx ky : Rat) (hx : kx ≠ 0) (hy : ky ≠ 0) (a b : P) :
    cxF (scPt kx ky a) (scPt kx ky b) = cxF a b / (kx ^ 2 * ky) := by
  unfold cxF scPt; field_simp

theorem cyF_scale (kx ky : Rat) (hx : kx ≠ 0) (hy : ky ≠ 0) (a b : P) :
    cyF (scPt kx ky a) (scPt kx ky b) = cyF a b / (kx * ky ^ 2) := by
  unfold cyF scPt; field_simp

theorem shoeF_scale (kx ky : Rat) (hx : kx ≠ 0) (hy : ky ≠ 0) (a b : P) :
    shoeF (scPt kx ky a) (scPt kx ky b) = shoeF a b / (kx * ky) := by
  unfold shoeF scPt; field_simp

theorem pairSum_cx_scale (kx ky : Rat) (hx : kx ≠ 0) (hy : ky ≠ 0) (l : List P) :
    pairSum cxF (scaleRing kx ky l) = pairSum cxF l / (kx ^ 2 * ky) :=
  pairSum_scaleG cxF _ _ (cxF_scale kx ky hx hy) l

theorem pairSum_cy_scale (kx ky : Rat) (hx : kx ≠ 0) (hy : ky ≠ 0) (l : List P) :
    pairSum cyF (scaleRing kx ky l) = pairSum cyF l / (kx * ky ^ 2) :=
  pairSum_scaleG cyF _ _ (cyF_scale kx ky hx hy) l

theorem pairSum_shoe_scale (kx ky : Rat) (hx : kx ≠ 0) (hy : ky ≠ 0) (l : List P) :
    pairSum shoeF (scaleRing kx ky l) = pairSum shoeF l / (kx * ky) :=
  pairSum_scaleG shoeF _ _ (shoeF_scale kx ky hx hy) l

theorem scaleRing_length (kx ky : Rat) (r : Ring) : (scaleRing kx ky r).length = r.length := by
  simp [scaleRing]

theorem scPt_inj (kx ky : Rat) (hx : kx ≠ 0) (hy : ky ≠ 0) (a b : P) :
    scPt kx ky a = scPt kx ky b ↔ a = b := by
  constructor
  · intro h
    have h1 : a.x / kx = b.x / kx := congrArg Pt.x h
    have h2 : a.y / ky = b.y / ky := congrArg Pt.y h
    have hx' : a.x = b.x := by field_simp at h1; exact h1
    have hy' : a.y = b.y := by field_simp at h2; exact h2
    cases a; cases b; simp_all
  · intro h; rw [h]

theorem getLast?_scale (kx ky : Rat) (r : Ring) :
    (scaleRing kx ky r).getLast? = r.getLast?.map (scPt kx ky) := by
  rw [scaleRing_eq_map, List.getLast?_map]
theorem head?_scale (kx ky : Rat) (r : Ring) :
    (scaleRing kx ky r).head? = r.head?.map (scPt kx ky) := by
  rw [scaleRing_eq_map, List.head?_map]

theorem goCyc_shoeF_scale (kx ky : Rat) (hx : kx ≠ 0) (hy : ky ≠ 0) (r : Ring) :
    goCyc shoeF (scaleRing kx ky r) = goCyc shoeF r / (kx * ky) := by
  unfold goCyc
  rw [getLast?_scale, head?_scale]
  cases r.getLast? <;> cases r.head? <;>
    simp [shoeF_scale kx ky hx hy, pairSum_shoe_scale kx ky hx hy]
  ring

theorem signedArea_scale (kx ky : Rat) (hx : kx ≠ 0) (hy : ky ≠ 0) (r : Ring) :
    signedArea (scaleRing kx ky r) = signedArea r / (kx * ky) := by
  unfold signedArea
  rw [scaleRing_length, goCyc_shoeF_scale kx ky hx hy]
  split <;> ring

theorem opRingArea_scale (kx ky : Rat) (hx : kx ≠ 0) (hy : ky ≠ 0) (r : Ring) :
    opRingArea (scaleRing kx ky r) = opRingArea r / (kx * ky) := by
  unfold opRingArea
  rw [scaleRing_length, goCyc_shoeF_scale kx ky hx hy]
  split <;> ring

theorem closeIfOpen_scale (kx ky : Rat) (hx : kx ≠ 0) (hy : ky ≠ 0) (r : Ring) :
    closeIfOpen (scaleRing kx ky r) = (closeIfOpen r).map (scaleRing kx ky) := by
  unfold closeIfOpen
  rw [getLast?_scale, head?_scale]
  cases hL : r.getLast? with
  | none => simp [Except.map]
  | some l =>
    cases hH : r.head? with
    | none => simp [Except.map]
    | some h =>
      simp only [Option.map_some, Except.map]
      by_cases e : l = h
      · rw [if_pos e, if_pos ((scPt_inj kx ky hx hy l h).mpr e)]
      · rw [if_neg e, if_neg (fun c => e ((scPt_inj kx ky hx hy l h).mp c))]
        simp [scaleRing, scPt]

/-! ### the accumulator under scaling -/

/-- the accumulator of the loops on the scaled copy -/
def CAcc.sc (kx ky : Rat) (s : CAcc) : CAcc :=
  ⟨s.A / (kx * ky), s.xA / (kx ^ 2 * ky), s.yA / (kx * ky ^ 2), s.nan⟩

theorem CAcc.add_sc (kx ky : Rat) (hx : kx ≠ 0) (hy : ky ≠ 0) (s : CAcc) (cx cy den w : Rat) :
    (s.sc kx ky).add (cx / (kx ^ 2 * ky)) (cy / (kx * ky ^ 2)) (den / (kx * ky)) (w / (kx * ky))
      = (s.add cx cy den w).sc kx ky := by
  unfold CAcc.add CAcc.sc
  by_cases h : den = 0
  · have h' : den / (kx * ky) = 0 := by rw [h]; simp
    rw [if_pos h, if_pos h']
    simp only [CAcc.mk.injEq, and_true, true_and]
    ring
  · have h' : den / (kx * ky) ≠ 0 := div_ne_zero h (mul_ne_zero hx hy)
    rw [if_neg h, if_neg h']
    simp only [CAcc.mk.injEq, and_true]
    refine ⟨by ring, ?_, ?_⟩ <;> field_simp

/-- the quotient of the scaled sums is the quotient divided by `k` (infinities and NaN unchanged):
`c = d · k` with `d, k > 0` -/
theorem fdiv_sc (c d k : Rat) (hd : 0 < d) (hk : 0 < k) (hc : c = d * k) (x a : Rat) :
    (fdiv (x / c) (a / d)).mulPos k = fdiv x a := by
  have hd0 : d ≠ 0 := ne_of_gt hd
  have hk0 : k ≠ 0 := ne_of_gt hk
  have hcp : 0 < c := by rw [hc]; positivity
  unfold fdiv
  by_cases h : a = 0
  · have h' : a / d = 0 := by rw [h]; simp
    rw [if_pos h, if_pos h']
    by_cases hp : 0 < x
    · rw [if_pos hp, if_pos (div_pos hp hcp)]; rfl
    · rw [if_neg hp, if_neg (by intro cc; exact hp (by
        have := mul_pos cc hcp; rwa [div_mul_cancel₀ _ (ne_of_gt hcp)] at this))]
      by_cases hn : x < 0
      · rw [if_pos hn, if_pos (div_neg_of_neg_of_pos hn hcp)]; rfl
      · rw [if_neg hn, if_neg (by intro cc; exact hn (by
          have := mul_neg_of_neg_of_pos cc hcp; rwa [div_mul_cancel₀ _ (ne_of_gt hcp)] at this))]
        rfl
  · have h' : a / d ≠ 0 := div_ne_zero h hd0
    rw [if_neg h, if_neg h']
    simp only [FQ.mulPos, FQ.fin.injEq]
    rw [hc]; field_simp

theorem finish_sc (kx ky : Rat) (hx : 0 < kx) (hy : 0 < ky) (s : CAcc) :
    unscale kx ky (s.sc kx ky).finish = s.finish := by
  unfold CAcc.finish unscale
  by_cases hn : s.nan = true
  · have : (s.sc kx ky).nan = true := hn
    rw [if_pos hn, if_pos this]; rfl
  · have : ¬ (s.sc kx ky).nan = true := hn
    rw [if_neg hn, if_neg this]
    have hd : 0 < kx * ky := by positivity
    simp only [CAcc.sc, fdiv_sc (kx ^ 2 * ky) (kx * ky) kx hd hx (by ring),
      fdiv_sc (kx * ky ^ 2) (kx * ky) ky hd hy (by ring)]

/-! ### Polygon.Centroid and op.Centroid -/

theorem polygonCentroidAcc_scale (kx ky : Rat) (hx : kx ≠ 0) (hy : ky ≠ 0) (p : Poly) (s : CAcc) :
    polygonCentroidAcc (scalePoly kx ky p) (s.sc kx ky) = (polygonCentroidAcc p s).map (CAcc.sc kx ky) := by
  induction p generalizing s with
  | nil => rfl
  | cons r t ih =>
    have e : scalePoly kx ky (r :: t) = scaleRing kx ky r :: scalePoly kx ky t := rfl
    rw [e]
    unfold polygonCentroidAcc
    rw [closeIfOpen_scale kx ky hx hy, signedArea_scale kx ky hx hy]
    cases hc : closeIfOpen r with
    | error f => rfl
    | ok rc =>
      simp only [Except.map, bind, Except.bind]
      rw [pairSum_cx_scale kx ky hx hy, pairSum_cy_scale kx ky hx hy, CAcc.add_sc kx ky hx hy, ih]
      rfl

/-- **Homogeneity of the `Polygon.Centroid` loop**: for every positive `kx`, `ky`, the loop on the copy
with X divided by `kx` and Y by `ky`, multiplied back, is the loop on the original — value, non-finite
outcome or fault. -/
theorem polygonCentroidCore_scale (kx ky : Rat) (hx : 0 < kx) (hy : 0 < ky) (p : Poly) :
    (polygonCentroidCore (scalePoly kx ky p)).map (unscale kx ky) = polygonCentroidCore p := by
  unfold polygonCentroidCore
  have h0 : CAcc.zero = CAcc.zero.sc kx ky := by simp [CAcc.zero, CAcc.sc]
  rw [h0, polygonCentroidAcc_scale kx ky (ne_of_gt hx) (ne_of_gt hy)]
  rw [← h0]
  cases polygonCentroidAcc p CAcc.zero with
  | error f => rfl
  | ok s => simp only [Functor.map, Except.map, finish_sc kx ky hx hy]

theorem opCentroidAcc_scale (kx ky : Rat) (hx : kx ≠ 0) (hy : ky ≠ 0) (p : Poly) (s : CAcc) :
    opCentroidAcc (scalePoly kx ky p) (s.sc kx ky) = (opCentroidAcc p s).sc kx ky := by
  induction p generalizing s with
  | nil => rfl
  | cons r t ih =>
    have e : scalePoly kx ky (r :: t) = scaleRing kx ky r :: scalePoly kx ky t := rfl
    rw [e]
    unfold opCentroidAcc
    simp only []
    rw [opRingArea_scale kx ky hx hy, pairSum_cx_scale kx ky hx hy, pairSum_cy_scale kx ky hx hy,
      CAcc.add_sc kx ky hx hy, ih]

theorem opCentroidCore_scale (kx ky : Rat) (hx : 0 < kx) (hy : 0 < ky) (p : Poly) :
    unscale kx ky (opCentroidCore (scalePoly kx ky p)) = opCentroidCore p := by
  unfold opCentroidCore
  have h0 : CAcc.zero = CAcc.zero.sc kx ky := by simp [CAcc.zero, CAcc.sc]
  rw [h0, opCentroidAcc_scale kx ky (ne_of_gt hx) (ne_of_gt hy), ← h0, finish_sc kx ky hx hy]

/-! ### the factors the code picks are positive -/

theorem pow2_pos (i : Int) : 0 < pow2 i := by
  unfold pow2; split <;> positivity

theorem axisScale_pos (m : Rat) : 0 < axisScale m := by
  unfold axisScale
  split
  · unfold pow2Floor; simp only []; split <;> exact pow2_pos _
  · norm_num

theorem centScale_pos {rings : Poly} {kx ky : Rat} (h : centScale rings = some (kx, ky)) :
    0 < kx ∧ 0 < ky := by
  unfold centScale at h
  simp only [] at h
  split at h
  · simp only [Option.some.injEq, Prod.mk.injEq] at h
    rw [← h.1, ← h.2]; exact ⟨axisScale_pos _, axisScale_pos _⟩
  · simp at h

/-- **`Polygon.Centroid` with its range guard is its loop**, on every input (exact model). -/
theorem C03_centroid_guard (p : Poly) : polygonCentroidScaled p = polygonCentroidCore p := by
  unfold polygonCentroidScaled
  cases h : centScale p with
  | none => rfl
  | some k =>
    obtain ⟨kx, ky⟩ := k
    exact polygonCentroidCore_scale kx ky (centScale_pos h).1 (centScale_pos h).2 p

/-- **`op.Centroid` with its range guard is its loop**, on every input (exact model). -/
theorem C03_opCentroid_guard (p : Poly) : opCentroidScaled p = opCentroidCore p := by
  unfold opCentroidScaled
  cases h : centScale p with
  | none => rfl
  | some k =>
    obtain ⟨kx, ky⟩ := k
    exact opCentroidCore_scale kx ky (centScale_pos h).1 (centScale_pos h).2 p

/-- non-vacuity: the guard fires on the 10×10 square with a hole scaled by 2^400 and picks `2^403` on both
axes (`10·2^400 ∈ [2^403, 2^404)`), picks `(1, 2^603)` when only the Y coordinates are multiplied by
2^600 (the anisotropic case that the single-factor guard got wrong), and does not fire on the unscaled
square -/
example : centScale (scalePoly (1 / 2 ^ 400) (1 / 2 ^ 400) exPoly) = some (2 ^ 403, 2 ^ 403) ∧
    centScale (scalePoly 1 (1 / 2 ^ 600) exPoly) = some (1, 2 ^ 603) ∧ centScale exPoly = none := by
  decide +kernel

/-- **Centroid clause for `Polygon.Centroid` as it is now** (range guard included): `C03_centroid_valid`
for the guarded function. -/
theorem C03_centroid_valid_guarded (p : Poly) (ss : List Spell) (hlen : ss.length = p.length)
    (b : Bool) (hb : ∀ s ∈ ss, s.rev = b)
    (hv : ValidPoly p = true) (halt : Alternating p = true)
    (hW : (p.map fun r => shoelace2 r / 2).sum ≠ 0) :
    polygonCentroidScaled (respell ss p) = .ok (.fin (Spec.centroid p).x, .fin (Spec.centroid p).y) := by
  rw [C03_centroid_guard]; exact C03_centroid_valid p ss hlen b hb hv halt hW

/-- `op.Centroid` = `Polygon.Centroid` on closed rings, for the guarded functions. -/
theorem op_agrees_centroid_guarded (p : Poly) (hc : ∀ r ∈ p, closeIfOpen r = .ok r) :
    polygonCentroidScaled p = .ok (opCentroidScaled p) := by
  rw [C03_centroid_guard, C03_opCentroid_guard]; exact op_agrees_centroid p hc

/-- **`MultiPolygon.Centroid` as it is now, coordinates inside `[2^-300, 2^300]`**: the guard does not
fire and `C03_mcentroid` is the statement about the function.  (The rescaled branch is covered by
`C03_mcentroid_guard` / `C03_mcentroid_guarded_all` in `ProofsMScale.lean`.) -/
theorem C03_mcentroid_guarded (mp : MPoly) (sss : List (List Spell))
    (hlen : List.Forall₂ (fun ss p => ss.length = p.length) sss mp)
    (hclosed : ∀ ss ∈ sss, ∀ s ∈ ss, s.closed = true)
    (hv : ∀ p ∈ mp, ValidPoly p = true)
    (hW : ((mp.flatMap weights).map (·.1)).sum ≠ 0)
    (hr : centScale (List.zipWith respell sss mp).flatten = none) :
    multiPolygonCentroidScaled (List.zipWith respell sss mp) = (.fin (mcentroid mp).x, .fin (mcentroid mp).y) := by
  unfold multiPolygonCentroidScaled
  rw [hr]
  exact C03_mcentroid mp sss hlen hclosed hv hW

end GeomV.C03
