import GeomV.C03.Proofs
import Mathlib.Tactic.FieldSimp
import Mathlib.Tactic.Positivity
/-!
# C03 — the range guard of the centroids (fix 4edcec2) is the identity on the exact model

`Polygon.Centroid`, `op.Centroid` (and `MultiPolygon.Centroid`) divide all coordinates by a power of
two `k` when the largest coordinate is outside `[2^-300, 2^300]`, run the unchanged loops on the copy
and multiply the result by `k`.  Here: for EVERY positive `k` the loops are homogeneous
(`core (p / k) · k = core p`, faults and non-finite results included), the `k` the code picks is
positive, hence the guarded functions equal their loops on every input, and the centroid clauses
proved for the loops in `Proofs.lean` hold for the functions as they are now.
-/
namespace GeomV.C03
open Spec
set_option linter.unusedSimpArgs false

/-! ### the sums under scaling -/

theorem pairSum_scale3 (f : P → P → Rat) (k : Rat)
    (hf : ∀ a b : P, f ⟨a.x / k, a.y / k⟩ ⟨b.x / k, b.y / k⟩ = f a b / k ^ 3) (l : List P) :
    pairSum f (scaleRing k l) = pairSum f l / k ^ 3 := by
  induction l with
  | nil => simp [scaleRing, pairSum]
  | cons a t ih =>
    cases t with
    | nil => simp [scaleRing, pairSum]
    | cons b t' =>
      have e : scaleRing k (a :: b :: t') = ⟨a.x / k, a.y / k⟩ :: scaleRing k (b :: t') := rfl
      have e2 : scaleRing k (b :: t') = ⟨b.x / k, b.y / k⟩ :: scaleRing k t' := rfl
      rw [e, e2, pairSum_cons_cons, ← e2, ih, pairSum_cons_cons, hf]; ring

theorem cxF_scale (k : Rat) (hk : k ≠ 0) (a b : P) :
    cxF ⟨a.x / k, a.y / k⟩ ⟨b.x / k, b.y / k⟩ = cxF a b / k ^ 3 := by
  unfold cxF; field_simp

theorem cyF_scale (k : Rat) (hk : k ≠ 0) (a b : P) :
    cyF ⟨a.x / k, a.y / k⟩ ⟨b.x / k, b.y / k⟩ = cyF a b / k ^ 3 := by
  unfold cyF; field_simp

theorem shoeF_scale (k : Rat) (hk : k ≠ 0) (a b : P) :
    shoeF ⟨a.x / k, a.y / k⟩ ⟨b.x / k, b.y / k⟩ = shoeF a b / k ^ 2 := by
  unfold shoeF; field_simp

theorem pairSum_scale2 (k : Rat) (hk : k ≠ 0) (l : List P) :
    pairSum shoeF (scaleRing k l) = pairSum shoeF l / k ^ 2 := by
  induction l with
  | nil => simp [scaleRing, pairSum]
  | cons a t ih =>
    cases t with
    | nil => simp [scaleRing, pairSum]
    | cons b t' =>
      have e : scaleRing k (a :: b :: t') = ⟨a.x / k, a.y / k⟩ :: scaleRing k (b :: t') := rfl
      have e2 : scaleRing k (b :: t') = ⟨b.x / k, b.y / k⟩ :: scaleRing k t' := rfl
      rw [e, e2, pairSum_cons_cons, ← e2, ih, pairSum_cons_cons, shoeF_scale k hk]; ring

theorem scaleRing_length (k : Rat) (r : Ring) : (scaleRing k r).length = r.length := by
  simp [scaleRing]

theorem scalePt_inj (k : Rat) (hk : k ≠ 0) (a b : P) :
    ((⟨a.x / k, a.y / k⟩ : P) = ⟨b.x / k, b.y / k⟩) ↔ a = b := by
  constructor
  · intro h
    have hx : a.x / k = b.x / k := congrArg Pt.x h
    have hy : a.y / k = b.y / k := congrArg Pt.y h
    have hx' : a.x = b.x := by field_simp at hx; exact hx
    have hy' : a.y = b.y := by field_simp at hy; exact hy
    cases a; cases b; simp_all
  · intro h; rw [h]

theorem goCyc_shoeF_scale (k : Rat) (hk : k ≠ 0) (r : Ring) :
    goCyc shoeF (scaleRing k r) = goCyc shoeF r / k ^ 2 := by
  unfold goCyc
  have hl : (scaleRing k r).getLast? = r.getLast?.map fun v => (⟨v.x / k, v.y / k⟩ : P) := by
    simp [scaleRing]
  have hh : (scaleRing k r).head? = r.head?.map fun v => (⟨v.x / k, v.y / k⟩ : P) := by
    simp [scaleRing]
  rw [hl, hh]
  cases r.getLast? <;> cases r.head? <;> simp [shoeF_scale k hk, pairSum_scale2 k hk]
  ring

theorem signedArea_scale (k : Rat) (hk : k ≠ 0) (r : Ring) :
    signedArea (scaleRing k r) = signedArea r / k ^ 2 := by
  unfold signedArea
  rw [scaleRing_length, goCyc_shoeF_scale k hk]
  split <;> ring

theorem opRingArea_scale (k : Rat) (hk : k ≠ 0) (r : Ring) :
    opRingArea (scaleRing k r) = opRingArea r / k ^ 2 := by
  unfold opRingArea
  rw [scaleRing_length, goCyc_shoeF_scale k hk]
  split <;> ring

theorem closeIfOpen_scale (k : Rat) (hk : k ≠ 0) (r : Ring) :
    closeIfOpen (scaleRing k r) = (closeIfOpen r).map (scaleRing k) := by
  unfold closeIfOpen
  have hl : (scaleRing k r).getLast? = r.getLast?.map fun v => (⟨v.x / k, v.y / k⟩ : P) := by
    simp [scaleRing]
  have hh : (scaleRing k r).head? = r.head?.map fun v => (⟨v.x / k, v.y / k⟩ : P) := by
    simp [scaleRing]
  rw [hl, hh]
  cases hL : r.getLast? with
  | none => simp [Except.map]
  | some l =>
    cases hH : r.head? with
    | none => simp [Except.map]
    | some h =>
      simp only [Option.map_some, Except.map]
      by_cases e : l = h
      · rw [if_pos e, if_pos ((scalePt_inj k hk l h).mpr e)]
      · rw [if_neg e, if_neg (fun c => e ((scalePt_inj k hk l h).mp c))]
        simp [scaleRing]

/-! ### the accumulator under scaling -/

/-- the accumulator of the loops on the scaled copy -/
def CAcc.sc (k : Rat) (s : CAcc) : CAcc := ⟨s.A / k ^ 2, s.xA / k ^ 3, s.yA / k ^ 3, s.nan⟩

theorem CAcc.add_sc (k : Rat) (hk : k ≠ 0) (s : CAcc) (cx cy den w : Rat) :
    (s.sc k).add (cx / k ^ 3) (cy / k ^ 3) (den / k ^ 2) (w / k ^ 2) = (s.add cx cy den w).sc k := by
  unfold CAcc.add CAcc.sc
  by_cases h : den = 0
  · have h' : den / k ^ 2 = 0 := by rw [h]; simp
    rw [if_pos h, if_pos h']
    simp only [CAcc.mk.injEq, and_true, true_and]
    ring
  · have h' : den / k ^ 2 ≠ 0 := div_ne_zero h (pow_ne_zero 2 hk)
    rw [if_neg h, if_neg h']
    simp only [CAcc.mk.injEq, and_true]
    refine ⟨by ring, ?_, ?_⟩ <;> field_simp

/-- the quotient of the scaled sums is the quotient divided by `k` (infinities and NaN unchanged) -/
theorem fdiv_sc (k : Rat) (hk : 0 < k) (x a : Rat) :
    (fdiv (x / k ^ 3) (a / k ^ 2)).mulPos k = fdiv x a := by
  have hk0 : k ≠ 0 := ne_of_gt hk
  unfold fdiv
  by_cases h : a = 0
  · have h' : a / k ^ 2 = 0 := by rw [h]; simp
    rw [if_pos h, if_pos h']
    have h3 : 0 < k ^ 3 := by positivity
    by_cases hp : 0 < x
    · rw [if_pos hp, if_pos (div_pos hp h3)]; rfl
    · rw [if_neg hp, if_neg (by intro c; exact hp (by
        have := mul_pos c h3; rwa [div_mul_cancel₀ _ (ne_of_gt h3)] at this))]
      by_cases hn : x < 0
      · rw [if_pos hn, if_pos (div_neg_of_neg_of_pos hn h3)]; rfl
      · rw [if_neg hn, if_neg (by intro c; exact hn (by
          have := mul_neg_of_neg_of_pos c h3; rwa [div_mul_cancel₀ _ (ne_of_gt h3)] at this))]
        rfl
  · have h' : a / k ^ 2 ≠ 0 := div_ne_zero h (pow_ne_zero 2 hk0)
    rw [if_neg h, if_neg h']
    simp only [FQ.mulPos, FQ.fin.injEq]
    field_simp

theorem finish_sc (k : Rat) (hk : 0 < k) (s : CAcc) : unscale k (s.sc k).finish = s.finish := by
  unfold CAcc.finish unscale
  by_cases hn : s.nan = true
  · have : (s.sc k).nan = true := hn
    rw [if_pos hn, if_pos this]; rfl
  · have : ¬ (s.sc k).nan = true := hn
    rw [if_neg hn, if_neg this]
    simp only [CAcc.sc, fdiv_sc k hk]

/-! ### Polygon.Centroid and op.Centroid -/

theorem polygonCentroidAcc_scale (k : Rat) (hk : k ≠ 0) (p : Poly) (s : CAcc) :
    polygonCentroidAcc (scalePoly k p) (s.sc k) = (polygonCentroidAcc p s).map (CAcc.sc k) := by
  induction p generalizing s with
  | nil => rfl
  | cons r t ih =>
    have e : scalePoly k (r :: t) = scaleRing k r :: scalePoly k t := rfl
    rw [e]
    unfold polygonCentroidAcc
    rw [closeIfOpen_scale k hk, signedArea_scale k hk]
    cases hc : closeIfOpen r with
    | error f => rfl
    | ok rc =>
      simp only [Except.map, bind, Except.bind]
      rw [pairSum_scale3 cxF k (cxF_scale k hk), pairSum_scale3 cyF k (cyF_scale k hk), CAcc.add_sc k hk, ih]
      rfl

/-- **Homogeneity of the `Polygon.Centroid` loop**: for every positive `k`, the loop on the copy
divided by `k`, multiplied back, is the loop on the original — value, non-finite outcome or fault. -/
theorem polygonCentroidCore_scale (k : Rat) (hk : 0 < k) (p : Poly) :
    (polygonCentroidCore (scalePoly k p)).map (unscale k) = polygonCentroidCore p := by
  unfold polygonCentroidCore
  have h0 : CAcc.zero = CAcc.zero.sc k := by simp [CAcc.zero, CAcc.sc]
  rw [h0, polygonCentroidAcc_scale k (ne_of_gt hk)]
  rw [← h0]
  cases polygonCentroidAcc p CAcc.zero with
  | error f => rfl
  | ok s => simp only [Functor.map, Except.map, finish_sc k hk]

theorem opCentroidAcc_scale (k : Rat) (hk : k ≠ 0) (p : Poly) (s : CAcc) :
    opCentroidAcc (scalePoly k p) (s.sc k) = (opCentroidAcc p s).sc k := by
  induction p generalizing s with
  | nil => rfl
  | cons r t ih =>
    have e : scalePoly k (r :: t) = scaleRing k r :: scalePoly k t := rfl
    rw [e]
    unfold opCentroidAcc
    simp only []
    rw [opRingArea_scale k hk, pairSum_scale3 cxF k (cxF_scale k hk), pairSum_scale3 cyF k (cyF_scale k hk),
      CAcc.add_sc k hk, ih]

theorem opCentroidCore_scale (k : Rat) (hk : 0 < k) (p : Poly) :
    unscale k (opCentroidCore (scalePoly k p)) = opCentroidCore p := by
  unfold opCentroidCore
  have h0 : CAcc.zero = CAcc.zero.sc k := by simp [CAcc.zero, CAcc.sc]
  rw [h0, opCentroidAcc_scale k (ne_of_gt hk), ← h0, finish_sc k hk]

/-! ### the factor the code picks is positive -/

theorem pow2_pos (i : Int) : 0 < pow2 i := by
  unfold pow2; split <;> positivity

theorem centScale_pos {rings : Poly} {k : Rat} (h : centScale rings = some k) : 0 < k := by
  unfold centScale at h
  simp only [] at h
  split at h
  · simp only [Option.some.injEq] at h
    rw [← h]; unfold pow2Floor; simp only []; split <;> exact pow2_pos _
  · simp at h

/-- **`Polygon.Centroid` with its range guard is its loop**, on every input (exact model). -/
theorem C03_centroid_guard (p : Poly) : polygonCentroid p = polygonCentroidCore p := by
  unfold polygonCentroid
  cases h : centScale p with
  | none => rfl
  | some k => exact polygonCentroidCore_scale k (centScale_pos h) p

/-- **`op.Centroid` with its range guard is its loop**, on every input (exact model). -/
theorem C03_opCentroid_guard (p : Poly) : opCentroid p = opCentroidCore p := by
  unfold opCentroid
  cases h : centScale p with
  | none => rfl
  | some k => exact opCentroidCore_scale k (centScale_pos h) p

/-- non-vacuity: the guard fires on the 10×10 square with a hole scaled by 2^400 and picks `k = 2^403`
(`10·2^400 ∈ [2^403, 2^404)`), and does not fire on the unscaled square -/
example : centScale (scalePoly (1 / 2 ^ 400) exPoly) = some (2 ^ 403) ∧ centScale exPoly = none := by
  decide +kernel

/-- **Centroid clause for `Polygon.Centroid` as it is now** (range guard included): `C03_centroid_valid`
for the guarded function. -/
theorem C03_centroid_valid_guarded (p : Poly) (ss : List Spell) (hlen : ss.length = p.length)
    (b : Bool) (hb : ∀ s ∈ ss, s.rev = b)
    (hv : ValidPoly p = true) (halt : Alternating p = true)
    (hW : (p.map fun r => shoelace2 r / 2).sum ≠ 0) :
    polygonCentroid (respell ss p) = .ok (.fin (Spec.centroid p).x, .fin (Spec.centroid p).y) := by
  rw [C03_centroid_guard]; exact C03_centroid_valid p ss hlen b hb hv halt hW

/-- `op.Centroid` = `Polygon.Centroid` on closed rings, for the guarded functions. -/
theorem op_agrees_centroid_guarded (p : Poly) (hc : ∀ r ∈ p, closeIfOpen r = .ok r) :
    polygonCentroid p = .ok (opCentroid p) := by
  rw [C03_centroid_guard, C03_opCentroid_guard]; exact op_agrees_centroid p hc

/-- **`MultiPolygon.Centroid` as it is now, coordinates inside `[2^-300, 2^300]`**: the guard does not
fire and `C03_mcentroid` is the statement about the function.  (In the rescaled branch the function is
`k ·` its loop on the copy divided by `k` by definition, and `C03_mcentroid` applies to that copy when it
is valid; that validity is invariant under scaling is NOT proved here — it goes through the
point-in-polygon code — and is judged per case.) -/
theorem C03_mcentroid_guarded (mp : MPoly) (sss : List (List Spell))
    (hlen : List.Forall₂ (fun ss p => ss.length = p.length) sss mp)
    (hclosed : ∀ ss ∈ sss, ∀ s ∈ ss, s.closed = true)
    (hv : ∀ p ∈ mp, ValidPoly p = true)
    (hW : ((mp.flatMap weights).map (·.1)).sum ≠ 0)
    (hr : centScale (List.zipWith respell sss mp).flatten = none) :
    multiPolygonCentroid (List.zipWith respell sss mp) = (.fin (mcentroid mp).x, .fin (mcentroid mp).y) := by
  unfold multiPolygonCentroid
  rw [hr]
  exact C03_mcentroid mp sss hlen hclosed hv hW

end GeomV.C03
