import GeomV.C03.Gen
import GeomV.C03.LemmasPip
import GeomV.C03.ModelGC
import Mathlib.Tactic.Ring
import Mathlib.Algebra.Order.Field.Rat
/-!
# T1 tie for C03: the definitions regenerated from the Go source denote the model's functions

`Gen.lean` is written by `harness/cmd/c03 extract` from the tree under test on every run; here every
regenerated function is proved to return exactly the value of the hand-written model
(`Model.lean`) that the property theorems are about — for every input, and (except where the model
itself faults: `Polygon.Centroid` on an empty ring, `Point.Buffer` on invalid arguments) **without
fault**: the index expressions of the loops never leave the slice, `make` never gets a negative
length, `%` never divides by zero, no box pointer is nil.  If the Go source changes so that a function no longer denotes the
model's, this module stops compiling and the obligation is reported as broken.
-/
set_option linter.unusedSimpArgs false
set_option linter.unusedVariables false
set_option linter.unnecessarySeqFocus false
namespace GeomV.C03
open GeomV GeomV.C03.Go

/-! ## the Go constructs -/

theorem len_eq {α : Type} (l : List α) : Go.len l = (l.length : Int) := rfl

theorem idx_some {α : Type} (l : List α) (i : Nat) (a : α) (h : l[i]? = some a) : Go.idx l (i : Int) = .ok a := by
  simp [Go.idx, h, pure, Except.pure]

theorem idx_some_succ {α : Type} (l : List α) (i : Nat) (a : α) (h : l[i + 1]? = some a) :
    Go.idx l ((i : Int) + 1) = .ok a := by
  have := idx_some l (i + 1) a h
  simpa using this

theorem idx_zero {α : Type} (l : List α) (h : l ≠ []) : Go.idx l 0 = .ok (l.head h) := by
  cases l with
  | nil => exact absurd rfl h
  | cons a t => simp [Go.idx, pure, Except.pure]

theorem idx_last {α : Type} (l : List α) (h : l ≠ []) : Go.idx l (Go.len l - 1) = .ok (l.getLast h) := by
  have hl : 0 < l.length := List.length_pos_iff.2 h
  have e : (l.length : Int) - 1 = ((l.length - 1 : Nat) : Int) := by omega
  rw [len_eq, e]
  apply idx_some
  rw [List.getLast_eq_getElem]
  simp

theorem idx_nil {α : Type} (i : Int) : Go.idx ([] : List α) i = .error .indexOutOfRange := by
  unfold Go.idx; split <;> simp [throw, throwThe, MonadExceptOf.throw]

theorem forRangeAux_foldl {β σ : Type} (g : σ → β → σ) (body : σ → Int → β → M σ)
    (hb : ∀ (s : σ) (i : Int) (x : β), body s i x = .ok (g s x)) :
    ∀ (xs : List β) (i : Int) (s : σ), forRangeAux body xs i s = .ok (xs.foldl g s) := by
  intro xs
  induction xs with
  | nil => intro i s; simp [forRangeAux, pure, Except.pure]
  | cons x xs ih => intro i s; simp only [forRangeAux, hb, bind, Except.bind, List.foldl_cons]; exact ih _ _

/-- `for _, x := range xs { s = g(s, x) }` -/
theorem forRange_foldl {β σ : Type} (g : σ → β → σ) (body : σ → Int → β → M σ) (xs : List β) (s : σ)
    (hb : ∀ (s : σ) (i : Int) (x : β), body s i x = .ok (g s x)) :
    Go.forRange xs s body = .ok (xs.foldl g s) := forRangeAux_foldl g body hb xs 0 s

/-- fold over the adjacent pairs of a list, from the left -/
def pairFold {α σ : Type} (g : σ → α → α → σ) : σ → List α → σ
  | s, a :: b :: t => pairFold g (g s a b) (b :: t)
  | s, _ => s

theorem forLtAux_pairs {α σ : Type} (g : σ → α → α → σ) (body : σ → Int → M σ) (r : List α)
    (hb : ∀ (s : σ) (i : Nat) (a b : α), r[i]? = some a → r[i + 1]? = some b → body s (i : Int) = .ok (g s a b)) :
    ∀ (rest pre : List α) (s : σ), r = pre ++ rest →
      forLtAux body (rest.length - 1) (pre.length : Int) s = .ok (pairFold g s rest) := by
  intro rest
  induction rest with
  | nil => intro pre s _; simp [forLtAux, pairFold, pure, Except.pure]
  | cons a t ih =>
    intro pre s hr
    cases t with
    | nil => simp [forLtAux, pairFold, pure, Except.pure]
    | cons b t =>
      have h1 : r[pre.length]? = some a := by rw [hr]; simp
      have h2 : r[pre.length + 1]? = some b := by rw [hr]; simp
      have hl : ((pre.length : Int) + 1) = ((pre ++ [a]).length : Int) := by simp
      have := ih (pre ++ [a]) (g s a b) (by simp [hr])
      simp only [List.length_cons, Nat.add_sub_cancel] at this ⊢
      simp only [forLtAux, hb s pre.length a b h1 h2, bind, Except.bind, pairFold]
      rw [hl]; exact this

/-- `for i := 0; i < len(r)-1; i++ { s = g(s, r[i], r[i+1]) }` -/
theorem forLt_pairs {α σ : Type} (g : σ → α → α → σ) (body : σ → Int → M σ) (r : List α) (s : σ)
    (hb : ∀ (s : σ) (i : Nat) (a b : α), r[i]? = some a → r[i + 1]? = some b → body s (i : Int) = .ok (g s a b)) :
    Go.forLt 0 (Go.len r - 1) s body = .ok (pairFold g s r) := by
  have := forLtAux_pairs g body r hb r [] s rfl
  have e : ((r.length : Int) - 1 - 0).toNat = r.length - 1 := by omega
  simpa [Go.forLt, len_eq, e] using this

theorem pairFold_sum (f : P → P → Rat) : ∀ (r : List P) (s : Rat),
    pairFold (fun s a b => s + f a b) s r = s + pairSum f r := by
  intro r
  induction r with
  | nil => intro s; simp [pairFold, pairSum]
  | cons a t ih =>
    intro s
    cases t with
    | nil => simp [pairFold, pairSum]
    | cons b t => simp only [pairFold, pairSum]; rw [ih]; ring

/-! ## area.go, op/properties.go: the shoelace sums -/

theorem goCyc_ne_nil (f : P → P → Rat) (r : List P) (h : r ≠ []) :
    goCyc f r = f (r.getLast h) (r.head h) + pairSum f r := by
  cases r with
  | nil => exact absurd rfl h
  | cons a t => simp [goCyc, List.getLast?_eq_some_getLast]

/-- `signedarea` (area.go) as regenerated returns, without fault, the model's `signedArea` -/
theorem C03_tie_signedarea (r : Ring) : Gen.signedarea r = .ok (signedArea r) := by
  unfold Gen.signedarea signedArea
  by_cases h : r.length < 2
  · have : (Go.len r) < 2 := by rw [len_eq]; omega
    simp [h, this, pure, Except.pure]
  · have hne : r ≠ [] := by intro e; simp [e] at h
    have : ¬ (Go.len r) < 2 := by rw [len_eq]; omega
    simp only [this, h, decide_false, Bool.false_eq_true, if_false, idx_last r hne, idx_zero r hne, bind, Except.bind,
      goCyc_ne_nil shoeF r hne, pure, Except.pure]
    rw [forLt_pairs (fun s a b => s + shoeF a b)]
    · simp [pairFold_sum]
      rfl
    · intro s i a b ha hb
      simp [idx_some r i a ha, idx_some_succ r i b hb, shoeF]

/-- `op.area` (op/properties.go) as regenerated returns, without fault, the model's `opRingArea` -/
theorem C03_tie_op_area (r : Ring) : Gen.op_area r = .ok (opRingArea r) := by
  unfold Gen.op_area opRingArea
  by_cases h : r.length = 0
  · have : (Go.len r) = 0 := by rw [len_eq]; omega
    simp [h, this, pure, Except.pure]
  · have hne : r ≠ [] := by intro e; simp [e] at h
    have : ¬ (Go.len r) = 0 := by rw [len_eq]; omega
    simp only [this, h, decide_false, Bool.false_eq_true, if_false, idx_last r hne, idx_zero r hne, bind, Except.bind,
      goCyc_ne_nil shoeF r hne, pure, Except.pure]
    rw [forLt_pairs (fun s a b => s + shoeF a b)]
    · simp [pairFold_sum]
      rfl
    · intro s i a b ha hb
      simp [idx_some r i a ha, idx_some_succ r i b hb, shoeF]

/-! ## filling loops -/

theorem make_ok {α : Type} (n : Nat) (z : α) : Go.make (n : Int) z = .ok (List.replicate n z) := by
  simp [Go.make, pure, Except.pure]

theorem setIdx_ok {α : Type} (l : List α) (i : Nat) (v : α) (h : i < l.length) :
    Go.setIdx l (i : Int) v = .ok (l.set i v) := by
  simp [Go.setIdx, h, pure, Except.pure]

theorem idx_ok {α : Type} (l : List α) (i : Nat) (h : i < l.length) : Go.idx l (i : Int) = .ok l[i] := by
  simp [Go.idx, h, pure, Except.pure]

theorem setIdx2_ok {α : Type} (l : List (List α)) (i j : Nat) (v : α) (hi : i < l.length) (hj : j < l[i].length) :
    Go.setIdx2 l (i : Int) (j : Int) v = .ok (l.set i (l[i].set j v)) := by
  simp [Go.setIdx2, idx_ok l i hi, setIdx_ok l[i] j v hj, setIdx_ok l i _ hi, bind, Except.bind]

/-- a range loop whose body stores `f x` at the loop index fills the slice with `xs.map f` -/
theorem forRangeAux_fill {α β : Type} (f : α → β) (body : List β → Int → α → M (List β)) :
    ∀ (xs : List α) (pre rest : List β), rest.length = xs.length →
      (∀ (o : List β) (i : Nat) (x : α), x ∈ xs → i < o.length → body o (i : Int) x = .ok (o.set i (f x))) →
      forRangeAux body xs (pre.length : Int) (pre ++ rest) = .ok (pre ++ xs.map f) := by
  intro xs
  induction xs with
  | nil => intro pre rest h _; cases rest with
    | nil => simp [forRangeAux, pure, Except.pure]
    | cons a r => simp at h
  | cons x xs ih =>
    intro pre rest h hb
    cases rest with
    | nil => simp at h
    | cons r0 rest =>
      have h1 := hb (pre ++ r0 :: rest) pre.length x (by simp) (by simp)
      have e : (pre ++ r0 :: rest).set pre.length (f x) = (pre ++ [f x]) ++ rest := by simp
      have hl : ((pre.length : Int) + 1) = ((pre ++ [f x]).length : Int) := by simp
      simp only [forRangeAux, h1, e, bind, Except.bind]
      rw [hl, ih (pre ++ [f x]) rest (by simpa using h) (fun o i y hy hi => hb o i y (by simp [hy]) hi)]
      simp

theorem forRange_fill {α β : Type} (f : α → β) (body : List β → Int → α → M (List β)) (xs : List α) (z : β)
    (hb : ∀ (o : List β) (i : Nat) (x : α), x ∈ xs → i < o.length → body o (i : Int) x = .ok (o.set i (f x))) :
    Go.forRange xs (List.replicate xs.length z) body = .ok (xs.map f) := by
  have := forRangeAux_fill f body xs [] (List.replicate xs.length z) (by simp) hb
  simpa [Go.forRange] using this

/-- a range loop whose body stores `g x` at `[i][j]` writes `xs.map g` into row `i` -/
theorem forRangeAux_row {α β : Type} (g : α → β) (i : Nat) (body : List (List β) → Int → α → M (List (List β)))
    (hb : ∀ (o : List (List β)) (j : Nat) (x : α) (hi : i < o.length), j < o[i].length →
      body o (j : Int) x = .ok (o.set i (o[i].set j (g x)))) :
    ∀ (xs : List α) (o : List (List β)) (pre rest : List β) (hi : i < o.length), o[i] = pre ++ rest →
      xs.length ≤ rest.length →
      forRangeAux body xs (pre.length : Int) o = .ok (o.set i (pre ++ xs.map g ++ rest.drop xs.length)) := by
  intro xs
  induction xs with
  | nil =>
    intro o pre rest hi ho _
    simp [forRangeAux, pure, Except.pure, ← ho]
  | cons x xs ih =>
    intro o pre rest hi ho hlen
    cases rest with
    | nil => simp at hlen
    | cons r0 rest =>
      have hj : pre.length < o[i].length := by rw [ho]; simp
      have h1 := hb o pre.length x hi hj
      have e : o[i].set pre.length (g x) = (pre ++ [g x]) ++ rest := by rw [ho]; simp
      have hl : ((pre.length : Int) + 1) = ((pre ++ [g x]).length : Int) := by simp
      simp only [forRangeAux, h1, bind, Except.bind]
      rw [hl, ih (o.set i (o[i].set pre.length (g x))) (pre ++ [g x]) rest (by simpa using hi) (by simp [e])
        (by simpa using hlen)]
      simp

/-! ## area.go: `Polygon.Centroid` -/

theorem slice3_full {α : Type} (l : List α) : Go.slice3 l 0 (Go.len l) (Go.len l) = .ok l := by
  simp [Go.slice3, len_eq, pure, Except.pure]

theorem pairFold_sum2 (f g : P → P → Rat) : ∀ (r : List P) (s : Rat × Rat),
    pairFold (fun s a b => (s.1 + f a b, s.2 + g a b)) s r = (s.1 + pairSum f r, s.2 + pairSum g r) := by
  intro r
  induction r with
  | nil => intro s; simp [pairFold, pairSum]
  | cons a t ih =>
    intro s
    cases t with
    | nil => simp [pairFold, pairSum]
    | cons b t => simp only [pairFold, pairSum]; rw [ih]; simp only [Prod.mk.injEq]; constructor <;> ring

/-- one pass of the model through the loop of `Polygon.Centroid` -/
def centroidStep (s : CAcc) (r : Ring) : Except Fault CAcc :=
  (closeIfOpen r).map fun rc => s.add (pairSum cxF rc) (pairSum cyF rc) (signedArea r) (signedArea r)

theorem forRangeAux_centroid (body : CAcc → Int → Ring → M CAcc)
    (hb : ∀ (s : CAcc) (i : Int) (r : Ring), body s i r = Go.lift (centroidStep s r)) :
    ∀ (p : Poly) (i : Int) (s : CAcc), forRangeAux body p i s = Go.lift (polygonCentroidAcc p s) := by
  intro p
  induction p with
  | nil => intro i s; simp [forRangeAux, polygonCentroidAcc, Go.lift, pure, Except.pure]
  | cons r rest ih =>
    intro i s
    simp only [forRangeAux, polygonCentroidAcc, hb, centroidStep, bind, Except.bind]
    cases h : closeIfOpen r with
    | error e => simp [Go.lift, Except.map]
    | ok rc => simp only [Go.lift, Except.map]; exact ih _ _

/-- the loop of `Polygon.Centroid` (below its range guard) as regenerated returns the model's
`polygonCentroidCore`: the index fault of `r[len(r)-1]` on an empty ring and no other fault; the closing step,
the sums, `signedarea` and the accumulator group are the model's -/
theorem C03_tie_Centroid_core (p : Poly) : Gen.polygon_Centroid_core p = Go.lift (polygonCentroidCore p) := by
  unfold Gen.polygon_Centroid_core polygonCentroidCore Go.forRange
  dsimp only
  rw [forRangeAux_centroid]
  · cases polygonCentroidAcc p CAcc.zero <;> simp [Go.lift, Except.map, bind, Except.bind, pure, Except.pure]
  · intro s i r
    by_cases hne : r = []
    · subst hne
      simp [idx_nil, centroidStep, closeIfOpen, Go.lift, Go.ofModel, Except.map, C03_tie_signedarea, bind, Except.bind]
    · have hclose : closeIfOpen r = .ok (if r.getLast hne = r.head hne then r else r ++ [r.head hne]) := by
        cases r with
        | nil => exact absurd rfl hne
        | cons a t => simp [closeIfOpen, List.getLast?_eq_some_getLast]; rfl
      simp only [centroidStep, hclose, Except.map, Go.lift, C03_tie_signedarea, idx_last r hne, idx_zero r hne,
        slice3_full, bind, Except.bind, pure, Except.pure]
      by_cases hlh : r.getLast hne = r.head hne
      · simp only [hlh, ne_eq, not_true_eq_false, decide_false, Bool.false_eq_true, if_false, if_true]
        rw [forLt_pairs (fun s a b => (s.1 + cxF a b, s.2 + cyF a b))]
        · simp [pairFold_sum2]
        · intro s i a b ha hb
          simp [idx_some r i a ha, idx_some_succ r i b hb, cxF, cyF]
      · simp only [hlh, ne_eq, not_false_eq_true, decide_true, if_false, if_true]
        rw [forLt_pairs (fun s a b => (s.1 + cxF a b, s.2 + cyF a b))]
        · simp [pairFold_sum2]
        · intro s i a b ha hb
          simp [idx_some _ i a ha, idx_some_succ _ i b hb, cxF, cyF]

/-! ## similar.go -/

/-- `similar` -/
theorem C03_tie_similar (a b e : Rat) : Gen.similar a b e = .ok (similar a b e) := rfl

/-- `pointSimilar` (the second comparison only runs when the first holds; neither faults) -/
theorem C03_tie_pointSimilar (p1 p2 : P) (e : Rat) :
    Gen.pointSimilar p1 p2 e = .ok (similar p1.x p2.x e && similar p1.y p2.y e) := by
  unfold Gen.pointSimilar
  simp only [C03_tie_similar, bind, Except.bind, pure, Except.pure, Go.andAlso]
  cases similar p1.x p2.x e <;> rfl

theorem pointsSimilar_length_ne (e : Rat) : ∀ (a b : List P), a.length ≠ b.length → pointsSimilar e a b = false := by
  intro a
  induction a with
  | nil => intro b h; cases b with
    | nil => exact absurd rfl h
    | cons y t => rfl
  | cons x t ih => intro b h; cases b with
    | nil => rfl
    | cons y u => simp only [pointsSimilar]; rw [ih u (by simpa using h)]; simp

theorem forLtRetAux_similar (e : Rat) (a b : List P) (body : Unit → Int → M (Go.Ctl Bool Unit))
    (hb : ∀ (i : Nat) (x y : P), a[i]? = some x → b[i]? = some y →
      body () (i : Int) = .ok (if similar x.x y.x e && similar x.y y.y e then .next () else .ret false)) :
    ∀ (ra rb pa pb : List P), a = pa ++ ra → b = pb ++ rb → pa.length = pb.length → ra.length = rb.length →
      Go.forLtRetAux body ra.length (pa.length : Int) ()
        = .ok (if pointsSimilar e ra rb then .next () else .ret false) := by
  intro ra
  induction ra with
  | nil => intro rb pa pb _ _ _ hl; cases rb with
    | nil => simp [Go.forLtRetAux, pointsSimilar, pure, Except.pure]
    | cons y t => simp at hl
  | cons x t ih =>
    intro rb pa pb ha hbb hp hl
    cases rb with
    | nil => simp at hl
    | cons y u =>
      have h1 := hb pa.length x y (by rw [ha]; simp) (by rw [hbb, hp]; simp)
      have hk : ((pa.length : Int) + 1) = ((pa ++ [x]).length : Int) := by simp
      simp only [List.length_cons, Go.forLtRetAux, h1, bind, Except.bind, pointsSimilar]
      by_cases hs : (similar x.x y.x e && similar x.y y.y e) = true
      · simp only [hs, if_true, Bool.true_and]
        rw [hk]
        exact ih u (pa ++ [x]) (pb ++ [y]) (by simp [ha]) (by simp [hbb]) (by simp [hp]) (by simpa using hl)
      · have hs' : (similar x.x y.x e && similar x.y y.y e) = false := by simpa using hs
        simp [hs', pure, Except.pure]

/-- `pointsSimilar` as regenerated returns, without fault (both indices stay inside their slices), the model's
`pointsSimilar` -/
theorem C03_tie_pointsSimilar (a b : List P) (e : Rat) : Gen.pointsSimilar a b e = .ok (pointsSimilar e a b) := by
  unfold Gen.pointsSimilar
  by_cases h : a.length = b.length
  · have hd : ¬ ((a.length : Int) ≠ (b.length : Int)) := by simp [h]
    have e0 : ((a.length : Int) - 0).toNat = a.length := by omega
    simp only [len_eq, hd, decide_false, Bool.false_eq_true, if_false, Go.forLtRet, e0, bind, Except.bind]
    have key : ∀ (body : Unit → Int → M (Go.Ctl Bool Unit)),
        (∀ (i : Nat) (x y : P), a[i]? = some x → b[i]? = some y →
          body () (i : Int) = .ok (if similar x.x y.x e && similar x.y y.y e then .next () else .ret false)) →
        Go.forLtRetAux body a.length 0 () = .ok (if pointsSimilar e a b then .next () else .ret false) := by
      intro body hb
      simpa using forLtRetAux_similar e a b body hb a b [] [] rfl rfl rfl h
    rw [key]
    · cases pointsSimilar e a b <;> simp [pure, Except.pure]
    · intro i x y hx hy
      simp only [idx_some a i x hx, idx_some b i y hy, C03_tie_pointSimilar, bind, Except.bind, pure, Except.pure]
      cases (similar x.x y.x e && similar x.y y.y e) <;> simp
  · have hd : ((a.length : Int) ≠ (b.length : Int)) := by omega
    simp [len_eq, hd, pointsSimilar_length_ne e a b h, pure, Except.pure]

/-! ## area.go: `area`, `Polygon.Area` -/

theorem copy_full {α : Type} (dst src : List α) (h : dst.length = src.length) : Go.copy dst src = src := by
  simp [Go.copy, h]

theorem slice_take {α : Type} (l : List α) (i : Nat) (h : i ≤ l.length) : Go.slice l 0 (i : Int) = .ok (l.take i) := by
  simp [Go.slice, h, pure, Except.pure]

theorem slice_drop {α : Type} (l : List α) (i : Nat) (h : i + 1 ≤ l.length) :
    Go.slice l ((i : Int) + 1) (Go.len l) = .ok (l.drop (i + 1)) := by
  have e : ((i : Int) + 1).toNat = i + 1 := by omega
  have c : (0 : Int) ≤ (i : Int) + 1 ∧ (i : Int) + 1 ≤ (l.length : Int) := by omega
  simp [Go.slice, len_eq, e, c, pure, Except.pure]

theorem derefAll_map_some {β : Type} (l : List β) : Go.derefAll (l.map some) = some l := by
  induction l with
  | nil => rfl
  | cons a t ih => simp [Go.derefAll, ih]

/-- within.go's test, called with the boxes of the very rings it is called with, is the model's `pip` -/
theorem pointInPolygon_tie (pt : P) (rings : Poly) :
    Go.pointInPolygon pt rings ((C02.ringBounds rings).map some) = .ok (pip pt rings) := by
  unfold Go.pointInPolygon pip
  rw [derefAll_map_some]
  cases h : C02.pointInPolygon pt rings (C02.ringBounds rings) with
  | ok s => simp only [h]; rfl
  | error e => exact absurd h (pip_no_fault pt rings e)

/-- the boxes of the polygon without ring `i` are the boxes without box `i` -/
theorem ringBounds_without (p : Poly) (i : Nat) :
    ((C02.ringBounds p).map some).take i ++ ((C02.ringBounds p).map some).drop (i + 1)
      = (C02.ringBounds (p.take i ++ p.drop (i + 1))).map some := by
  simp [C02.ringBounds, List.map_take, List.map_drop]

/-- what the two deciding loops of `area` return: `.next` = no point decided -/
def decided (A : Rat) : Option Side → Go.Ctl Rat Unit
  | none => .next ()
  | some .outside => .ret A
  | some _ => .ret (-A)

theorem forRangeRetAux_decide {β : Type} (others : Poly) (A : Rat) (body : Unit → Int → β → M (Go.Ctl Rat Unit)) :
    ∀ (xs : List β) (pts : List P) (k : Nat), pts.length = xs.length →
      (∀ (j : Nat) (x : β) (pt : P), xs[j]? = some x → pts[j]? = some pt →
        body () ((k + j : Nat) : Int) x = .ok (decided A (match pip pt others with | .onEdge => none | s => some s))) →
      Go.forRangeRetAux body xs (k : Int) () = .ok (decided A (firstDecisive others pts)) := by
  intro xs
  induction xs with
  | nil =>
    intro pts k h _
    have : pts = [] := List.eq_nil_of_length_eq_zero (by simpa using h)
    simp [Go.forRangeRetAux, this, firstDecisive, decided, pure, Except.pure]
  | cons x xs ih =>
    intro pts k h hb
    cases pts with
    | nil => simp at h
    | cons pt pts =>
      have h0 := hb 0 x pt (by simp) (by simp)
      simp only [Nat.add_zero] at h0
      have hk : ((k : Int) + 1) = ((k + 1 : Nat) : Int) := by simp
      have ih' := ih pts (k + 1) (by simpa using h) (fun j y q hy hq => by
        have := hb (j + 1) y q (by simpa using hy) (by simpa using hq)
        simpa [Nat.add_assoc, Nat.add_comm 1 j] using this)
      simp only [Go.forRangeRetAux, h0, bind, Except.bind, firstDecisive]
      cases hp : pip pt others <;> simp only [decided, pure, Except.pure]
      rw [hk]; exact ih'

theorem forRangeRet_decide {β : Type} (others : Poly) (A : Rat) (body : Unit → Int → β → M (Go.Ctl Rat Unit))
    (xs : List β) (pts : List P) (h : pts.length = xs.length)
    (hb : ∀ (j : Nat) (x : β) (pt : P), xs[j]? = some x → pts[j]? = some pt →
      body () (j : Int) x = .ok (decided A (match pip pt others with | .onEdge => none | s => some s))) :
    Go.forRangeRet xs () body = .ok (decided A (firstDecisive others pts)) := by
  have := forRangeRetAux_decide others A body xs pts 0 h (by intro j x pt hx hp; simpa using hb j x pt hx hp)
  simpa [Go.forRangeRet] using this

theorem foldl_count {β : Type} (f : β → Bool) : ∀ (l : List β) (k : Int),
    l.foldl (fun (m : Int) x => if f x = true then m + 1 else m) k = k + ((l.filter f).length : Int) := by
  intro l
  induction l with
  | nil => intro k; simp
  | cons a t ih =>
    intro k
    simp only [List.foldl_cons, ih, List.filter_cons]
    cases f a <;> simp <;> ring

theorem firstDecisive_append (others : Poly) : ∀ (a b : List P),
    firstDecisive others (a ++ b) = match firstDecisive others a with
      | some s => some s
      | none => firstDecisive others b := by
  intro a
  induction a with
  | nil => intro b; simp [firstDecisive]
  | cons v t ih =>
    intro b
    simp only [List.cons_append, firstDecisive]
    cases pip v others <;> simp [ih]

theorem midsAux_length (first : P) : ∀ (l : List P), (midsAux first l).length = l.length := by
  intro l
  induction l with
  | nil => rfl
  | cons a t ih => cases t with
    | nil => rfl
    | cons b t => simp [midsAux, ih]

theorem midsAux_get (first : P) : ∀ (l : List P) (j : Nat) (a : P), l[j]? = some a →
    (midsAux first l)[j]? = some (mid a (l[j + 1]?.getD first)) := by
  intro l
  induction l with
  | nil => intro j a h; simp at h
  | cons x t ih =>
    intro j a h
    cases t with
    | nil =>
      cases j with
      | zero => simp at h; simp [midsAux, h]
      | succ j => simp at h
    | cons y t =>
      cases j with
      | zero => simp at h; simp [midsAux, h]
      | succ j =>
        have := ih j a (by simpa using h)
        simpa [midsAux] using this

theorem edgeMids_length (r : List P) : (edgeMids r).length = r.length := by
  cases r with
  | nil => rfl
  | cons a t => simp [edgeMids, midsAux_length]

/-- the `ii`-th edge middle is the middle of `r[ii] r[(ii+1) % len(r)]` -/
theorem edgeMids_get (r : List P) (j : Nat) (a b : P) (ha : r[j]? = some a) (hb : r[(j + 1) % r.length]? = some b) :
    (edgeMids r)[j]? = some (mid a b) := by
  cases r with
  | nil => simp at ha
  | cons x t =>
    have hj : j < (x :: t).length := by
      by_contra hc
      have : (x :: t)[j]? = none := List.getElem?_eq_none (by omega)
      rw [this] at ha; cases ha
    rw [edgeMids, midsAux_get x (x :: t) j a ha]
    congr 2
    by_cases hlast : j + 1 < (x :: t).length
    · rw [Nat.mod_eq_of_lt hlast] at hb; simp only [hb, Option.getD_some]
    · have e : j + 1 = (x :: t).length := by omega
      rw [e, Nat.mod_self] at hb
      have : (x :: t)[(x :: t).length]? = none := List.getElem?_eq_none (Nat.le_refl _)
      rw [← e] at this
      simp only [this, Option.getD_none]
      simpa using hb

/-- `area(r, i, p, bounds)` (area.go) as regenerated, called with the boxes of the rings of `p`, returns — without
fault: no index, slice, `make`, `%` or nil-box fault — the model's `ringArea` of `r` against `p` without ring `i` -/
theorem C03_tie_area (r : Ring) (i : Nat) (p : Poly) (hi : i < p.length) :
    Gen.area r (i : Int) p ((C02.ringBounds p).map some)
      = .ok (ringArea (p.length == 1) r (p.take i ++ p.drop (i + 1))) := by
  unfold Gen.area ringArea
  by_cases h : r.length < 2
  · have : (Go.len r) < 2 := by rw [len_eq]; omega
    simp [h, this, pure, Except.pure]
  · have hne : r ≠ [] := by intro e; simp [e] at h
    have h2 : ¬ (Go.len r) < 2 := by rw [len_eq]; omega
    simp only [h2, h, decide_false, Bool.false_eq_true, if_false, idx_last r hne, idx_zero r hne, bind, Except.bind,
      goCyc_ne_nil shoeF r hne, pure, Except.pure]
    rw [forLt_pairs (fun s a b => s + shoeF a b)]
    · simp only [pairFold_sum, show ∀ a b : P, (a.x + b.x) * (b.y - a.y) = shoeF a b from fun _ _ => rfl]
      generalize absR ((shoeF (r.getLast hne) (r.head hne) + pairSum shoeF r) / 2) = A
      by_cases hp1 : p.length = 1
      · simp [len_eq, hp1]
      · have hp1' : ¬ ((p.length : Int) = 1) := by omega
        have hbl : ((C02.ringBounds p).map some).length = p.length := by simp [C02.ringBounds]
        have hc1 : Go.copy (List.replicate p.length ([] : List P)) p = p := copy_full _ _ (by simp)
        have hc2 : Go.copy (List.replicate p.length (none : Option C02.Bounds)) ((C02.ringBounds p).map some)
            = (C02.ringBounds p).map some := copy_full _ _ (by simp [hbl])
        have hs2 := slice_drop ((C02.ringBounds p).map some) i (by rw [hbl]; omega)
        rw [len_eq, hbl] at hs2
        have hs2' := slice_drop p i (by omega)
        rw [len_eq] at hs2'
        have hb1 : (p.length == 1) = false := by simp [hp1]
        simp only [hp1', hp1, hb1, decide_false, Bool.false_eq_true, if_false, len_eq, make_ok, hc1, hc2,
          slice_take p i (by omega), hs2', slice_take ((C02.ringBounds p).map some) i (by rw [hbl]; omega), hs2, hbl,
          ringBounds_without, pointInPolygon_tie]
        generalize p.take i ++ p.drop (i + 1) = others
        rw [firstDecisive_append]
        rw [forRangeRet_decide others A _ r r rfl]
        · cases h1 : firstDecisive others r with
          | some sd => cases sd <;> simp [decided, hp1]
          | none =>
            simp only [decided]
            rw [forRangeRet_decide others A _ r (edgeMids r) (edgeMids_length r)]
            · cases h2 : firstDecisive others (edgeMids r) with
              | some sd => cases sd <;> simp [decided, hp1]
              | none =>
                simp only [decided]
                rw [forRange_foldl (fun (m : Int) rr => if pointsSimilar 0 r rr = true then m + 1 else m)]
                · rw [foldl_count]
                  have e : Go.imod (0 + ((others.filter (pointsSimilar 0 r)).length : Int)) 2
                      = .ok (((others.filter (pointsSimilar 0 r)).length % 2 : Nat) : Int) := by
                    rw [Int.ofNat_tmod]
                    simp [Go.imod, pure, Except.pure]
                  simp only [e]
                  by_cases hm : (others.filter (pointsSimilar 0 r)).length % 2 = 1
                  · simp [hm, hp1]
                  · have : ¬ (((others.filter (pointsSimilar 0 r)).length % 2 : Nat) : Int) = 1 := by omega
                    simp [hm, this, hp1]
                    omega
                · intro m k rr
                  simp only [C03_tie_pointsSimilar, bind, Except.bind, pure, Except.pure]
                  split <;> rfl
            · intro j x pt hx hpt
              have hn : r.length ≠ 0 := by intro e; exact hne (List.eq_nil_of_length_eq_zero e)
              have hlt : (j + 1) % r.length < r.length := Nat.mod_lt _ (by omega)
              have hmod : Go.imod ((j : Int) + 1) (r.length : Int) = .ok (((j + 1) % r.length : Nat) : Int) := by
                have : ((j : Int) + 1) = ((j + 1 : Nat) : Int) := by simp
                rw [this, Int.ofNat_tmod]
                simp [Go.imod, hn, pure, Except.pure]
              have hb' : r[(j + 1) % r.length]? = some r[(j + 1) % r.length] := List.getElem?_eq_getElem hlt
              have hpt' := edgeMids_get r j x _ hx hb'
              rw [hpt] at hpt'
              have hpt'' := Option.some.inj hpt'
              simp only [hmod, idx_some r j x hx, idx_some r _ _ hb']
              rw [hpt'']
              unfold mid
              cases pip _ others <;> simp [decided]
        · intro j x pt hx hpt
          rw [hx] at hpt
          have := Option.some.inj hpt
          subst this
          cases pip x others <;> simp [decided]
    · intro s i a b ha hb
      simp [idx_some r i a ha, idx_some_succ r i b hb, shoeF]

theorem forRangeAux_area (p : Poly) (body : Rat → Int → Ring → M Rat)
    (hb : ∀ (a : Rat) (i : Nat) (r : Ring), p[i]? = some r →
      body a (i : Int) r = .ok (a + ringArea (p.length == 1) r (p.take i ++ p.drop (i + 1)))) :
    ∀ (rest pre : Poly) (a : Rat), p = pre ++ rest →
      forRangeAux body rest (pre.length : Int) a
        = .ok (a + ((withOthers pre rest).map fun ro => ringArea (p.length == 1) ro.1 ro.2).sum) := by
  intro rest
  induction rest with
  | nil => intro pre a _; simp [forRangeAux, withOthers, pure, Except.pure]
  | cons r rest ih =>
    intro pre a hp
    have h1 := hb a pre.length r (by rw [hp]; simp)
    have e : p.take pre.length ++ p.drop (pre.length + 1) = pre ++ rest := by rw [hp]; simp
    have hl : ((pre.length : Int) + 1) = ((pre ++ [r]).length : Int) := by simp
    rw [e] at h1
    simp only [forRangeAux, h1, bind, Except.bind, withOthers, List.map_cons, List.sum_cons]
    rw [hl, ih (pre ++ [r]) _ (by simp [hp])]
    congr 1; ring

/-- `Polygon.Area` as regenerated (boxes made by `NewBounds`/`extendPoints`, every `bounds[i] = b` in range, `area`
called for every ring) returns, without fault, the model's `polygonArea` -/
theorem C03_tie_Polygon_Area (p : Poly) : Gen.polygon_Area p = .ok (polygonArea p) := by
  unfold Gen.polygon_Area polygonArea
  simp only [len_eq, make_ok, bind, Except.bind, pure, Except.pure]
  rw [forRange_fill (fun r => some (C02.newBounds.extendPoints r))]
  · simp only [Go.forRange]
    have := forRangeAux_area p (fun a i r => do
        let a := (a + (← Gen.area r i p (p.map (fun r => some (C02.newBounds.extendPoints r)))))
        pure a)
      (by
        intro a i r hr
        have hi : i < p.length := by
          by_contra hc
          rw [List.getElem?_eq_none (by omega)] at hr; cases hr
        have hb := C03_tie_area r i p hi
        simp only [C02.ringBounds, List.map_map] at hb
        simp only [Function.comp_def] at hb
        simp [hb, bind, Except.bind, pure, Except.pure])
      p [] 0 rfl
    simp only [List.length_nil, Int.natCast_zero, bind, Except.bind, pure, Except.pure] at this
    rw [this]
    simp
  · intro o i r _ hi
    simp [Go.newBounds, Go.extendPoints, setIdx_ok o i _ hi, bind, Except.bind, pure, Except.pure]

/-- `Polygon.ringBounds` as regenerated returns, without fault, non-nil boxes: the boxes of the rings -/
theorem C03_tie_ringBounds (p : Poly) : Gen.polygon_ringBounds p = .ok ((C02.ringBounds p).map some) := by
  unfold Gen.polygon_ringBounds
  simp only [len_eq, make_ok, bind, Except.bind, pure, Except.pure]
  rw [forRange_fill (fun r => some (C02.newBounds.extendPoints r))]
  · simp [C02.ringBounds]
  · intro o i r _ hi
    simp [Go.newBounds, Go.extendPoints, setIdx_ok o i _ hi, bind, Except.bind, pure, Except.pure]

theorem foldl_add_sum {β : Type} (f : β → Rat) : ∀ (l : List β) (k : Rat),
    l.foldl (fun a x => a + f x) k = k + (l.map f).sum := by
  intro l
  induction l with
  | nil => intro k; simp
  | cons a t ih => intro k; simp only [List.foldl_cons, ih, List.map_cons, List.sum_cons]; ring

/-- `MultiPolygon.Area` as regenerated returns, without fault, the model's `multiPolygonArea` -/
theorem C03_tie_MultiPolygon_Area (mp : MPoly) : Gen.multiPolygon_Area mp = .ok (multiPolygonArea mp) := by
  unfold Gen.multiPolygon_Area multiPolygonArea
  simp only [bind, Except.bind, pure, Except.pure]
  rw [forRange_foldl (fun a pp => a + polygonArea pp)]
  · simp [foldl_add_sum]
  · intro s i x
    simp [C03_tie_Polygon_Area]

theorem forRangeAux_mpRings (p : Poly) (body : CAcc → Int → Ring → M CAcc)
    (hb : ∀ (s : CAcc) (i : Nat) (r : Ring), p[i]? = some r →
      body s (i : Int) r = .ok (s.add (pairSum cxF r) (pairSum cyF r) (signedArea r)
        (ringArea (p.length == 1) r (p.take i ++ p.drop (i + 1))))) :
    ∀ (rest pre : Poly) (s : CAcc), p = pre ++ rest →
      forRangeAux body rest (pre.length : Int) s = .ok (mpCentroidRings (p.length == 1) (withOthers pre rest) s) := by
  intro rest
  induction rest with
  | nil => intro pre s _; simp [forRangeAux, withOthers, mpCentroidRings, pure, Except.pure]
  | cons r rest ih =>
    intro pre s hp
    have h1 := hb s pre.length r (by rw [hp]; simp)
    have e : p.take pre.length ++ p.drop (pre.length + 1) = pre ++ rest := by rw [hp]; simp
    have hl : ((pre.length : Int) + 1) = ((pre ++ [r]).length : Int) := by simp
    rw [e] at h1
    simp only [forRangeAux, h1, bind, Except.bind, withOthers, mpCentroidRings]
    rw [hl, ih (pre ++ [r]) _ (by simp [hp])]

theorem forRangeAux_mp (body : CAcc → Int → Poly → M CAcc)
    (hb : ∀ (s : CAcc) (i : Int) (p : Poly), body s i p = .ok (mpCentroidRings (p.length == 1) (withOthers [] p) s)) :
    ∀ (mp : MPoly) (i : Int) (s : CAcc), forRangeAux body mp i s = .ok (mpCentroidAcc mp s) := by
  intro mp
  induction mp with
  | nil => intro i s; simp [forRangeAux, mpCentroidAcc, pure, Except.pure]
  | cons p rest ih => intro i s; simp only [forRangeAux, hb, bind, Except.bind, mpCentroidAcc]; exact ih _ _

/-- the loops of `MultiPolygon.Centroid` (below its range guard) as regenerated return, without fault, the model's
`multiPolygonCentroidCore`: `ringBounds`, `area`, `signedarea`, the sums and the accumulator group are the model's -/
theorem C03_tie_MultiPolygon_Centroid_core (mp : MPoly) :
    Gen.multiPolygon_Centroid_core mp = .ok (multiPolygonCentroidCore mp) := by
  unfold Gen.multiPolygon_Centroid_core multiPolygonCentroidCore Go.forRange
  dsimp only
  rw [forRangeAux_mp]
  · simp [bind, Except.bind, pure, Except.pure]
  · intro s i p
    simp only [C03_tie_ringBounds, bind, Except.bind, pure, Except.pure, Go.forRange]
    refine Eq.trans (forRangeAux_mpRings p _ ?_ p [] s rfl) ?_
    · intro s i r hr
      have hi : i < p.length := by
        by_contra hc
        rw [List.getElem?_eq_none (by omega)] at hr; cases hr
      simp only [C03_tie_area r i p hi, C03_tie_signedarea, bind, Except.bind, pure, Except.pure]
      rw [forLt_pairs (fun s a b => (s.1 + cxF a b, s.2 + cyF a b))]
      · simp [pairFold_sum2]
      · intro s i a b ha hb
        simp [idx_some r i a ha, idx_some_succ r i b hb, cxF, cyF]
    · rfl

/-! ## op/properties.go: `Centroid` -/

theorem opCentroidAcc_foldl : ∀ (p : Poly) (s : CAcc),
    opCentroidAcc p s = p.foldl (fun s r => s.add (pairSum cxF r) (pairSum cyF r) (opRingArea r) (opRingArea r)) s := by
  intro p
  induction p with
  | nil => intro s; rfl
  | cons r rest ih => intro s; simp only [opCentroidAcc, List.foldl_cons]; exact ih _

/-- the loop of `op.Centroid` on a Polygon (below its range guard) as regenerated returns, without fault (no closing
step, no index outside the ring), the model's `opCentroidCore` -/
theorem C03_tie_op_Centroid_core (p : Poly) : Gen.op_Centroid_core p = .ok (opCentroidCore p) := by
  unfold Gen.op_Centroid_core opCentroidCore
  dsimp only
  rw [forRange_foldl (fun s r => s.add (pairSum cxF r) (pairSum cyF r) (opRingArea r) (opRingArea r))]
  · simp [opCentroidAcc_foldl, bind, Except.bind, pure, Except.pure]
  · intro s i r
    simp only [C03_tie_op_area, bind, Except.bind, pure, Except.pure]
    rw [forLt_pairs (fun s a b => (s.1 + cxF a b, s.2 + cyF a b))]
    · simp [pairFold_sum2]
    · intro s i a b ha hb
      simp [idx_some r i a ha, idx_some_succ r i b hb, cxF, cyF]

/-! ## the range guards of the centroids -/

/-- `centroidAxisScale` (one statement group: `Frexp`/`Ldexp` is `pow2Floor`) -/
theorem C03_tie_centroidAxisScale (m : Rat) : Gen.centroidAxisScale m = .ok (axisScale m) := rfl

theorem ring_pair_foldl : ∀ (r : List P) (s : Rat × Rat),
    r.foldl (fun s v => (max s.1 (absR v.x), max s.2 (absR v.y))) s
      = (r.foldl (fun m v => max m (absR v.x)) s.1, r.foldl (fun m v => max m (absR v.y)) s.2) := by
  intro r
  induction r with
  | nil => intro s; rfl
  | cons v t ih => intro s; simp only [List.foldl_cons]; rw [ih]

theorem poly_pair_foldl : ∀ (p : Poly) (s : Rat × Rat),
    p.foldl (fun s r => r.foldl (fun s v => (max s.1 (absR v.x), max s.2 (absR v.y))) s) s
      = (p.foldl (fun m r => r.foldl (fun m v => max m (absR v.x)) m) s.1,
         p.foldl (fun m r => r.foldl (fun m v => max m (absR v.y)) m) s.2) := by
  intro p
  induction p with
  | nil => intro s; rfl
  | cons r t ih => intro s; simp only [List.foldl_cons]; rw [ring_pair_foldl, ih]

/-- `centroidScale(rings...)` as regenerated returns, without fault, the model's two factors of all the rings -/
theorem C03_tie_centroidScale (rings : MPoly) :
    Gen.centroidScale rings = .ok (axisScale (maxAbsX rings.flatten), axisScale (maxAbsY rings.flatten)) := by
  unfold Gen.centroidScale
  simp only [bind, Except.bind, pure, Except.pure]
  rw [forRange_foldl (fun (s : Rat × Rat) (p : Poly) =>
    p.foldl (fun s r => r.foldl (fun s v => (max s.1 (absR v.x), max s.2 (absR v.y))) s) s)]
  · have e : rings.foldl (fun (s : Rat × Rat) (p : Poly) =>
          p.foldl (fun s r => r.foldl (fun s v => (max s.1 (absR v.x), max s.2 (absR v.y))) s) s) (0, 0)
        = rings.flatten.foldl (fun s r => r.foldl (fun s v => (max s.1 (absR v.x), max s.2 (absR v.y))) s) (0, 0) :=
      (List.foldl_flatten).symm
    simp only [C03_tie_centroidAxisScale]
    rw [e, poly_pair_foldl]
    rfl
  · intro s i p
    rw [forRange_foldl (fun (s : Rat × Rat) (r : Ring) => r.foldl (fun s v => (max s.1 (absR v.x), max s.2 (absR v.y))) s)]
    intro s i r
    rw [forRange_foldl (fun (s : Rat × Rat) (v : P) => (max s.1 (absR v.x), max s.2 (absR v.y)))]
    intro s i v
    rfl

theorem fdiv_ok (a k : Rat) (hk : k ≠ 0) : Go.fdiv a k = .ok (a / k) := by
  simp [Go.fdiv, hk, pure, Except.pure]

/-- `Polygon.scaled(kx, ky)` as regenerated returns for non-zero factors (in Go a division by zero gives ±Inf/NaN, not
a panic; `centroidScale` returns powers of two), without fault, the model's `scalePoly` -/
theorem C03_tie_scaled (p : Poly) (kx ky : Rat) (hx : kx ≠ 0) (hy : ky ≠ 0) :
    Gen.polygon_scaled p kx ky = .ok (scalePoly kx ky p) := by
  unfold Gen.polygon_scaled scalePoly
  simp only [len_eq, make_ok, bind, Except.bind, pure, Except.pure]
  rw [forRange_fill (scaleRing kx ky)]
  intro o i r _ hi
  simp only [make_ok, setIdx_ok o i _ hi, bind, Except.bind, pure, Except.pure, Go.forRange]
  have hi' : i < (o.set i (List.replicate r.length (⟨0, 0⟩ : P))).length := by simpa using hi
  refine Eq.trans (forRangeAux_row (fun v : P => (⟨v.x / kx, v.y / ky⟩ : P)) i _ ?_
    r (o.set i (List.replicate r.length (⟨0, 0⟩ : P))) [] (List.replicate r.length (⟨0, 0⟩ : P)) hi' (by simp) (by simp)) ?_
  · intro o j x hi hj
    simp [setIdx2_ok o i j _ hi hj, fdiv_ok _ kx hx, fdiv_ok _ ky hy, bind, Except.bind, pure, Except.pure]
  · simp [scaleRing]

theorem pow2_ne_zero (i : Int) : pow2 i ≠ 0 := by
  unfold pow2; split <;> simp

theorem axisScale_ne_zero (m : Rat) : axisScale m ≠ 0 := by
  unfold axisScale
  split
  · unfold pow2Floor; simp only []; split <;> exact pow2_ne_zero _
  · simp

/-- `Polygon.Centroid` as regenerated (its call of itself on the rescaled copy read as the loops below the guard)
returns the model's `polygonCentroidScaled`, fault for fault -/
theorem C03_tie_Centroid_scaled (p : Poly) : Gen.polygon_Centroid_scaled p = Go.lift (polygonCentroidScaled p) := by
  unfold Gen.polygon_Centroid_scaled polygonCentroidScaled centScale
  simp only [C03_tie_centroidScale, List.flatten_cons, List.flatten_nil, List.append_nil, bind, Except.bind, pure,
    Except.pure]
  by_cases h : axisScale (maxAbsX p) ≠ 1 ∨ axisScale (maxAbsY p) ≠ 1
  · have hd : (decide (axisScale (maxAbsX p) ≠ 1) || decide (axisScale (maxAbsY p) ≠ 1)) = true := by simpa using h
    simp only [hd, h, if_true, C03_tie_scaled p _ _ (axisScale_ne_zero _) (axisScale_ne_zero _), C03_tie_Centroid_core]
    cases polygonCentroidCore (scalePoly (axisScale (maxAbsX p)) (axisScale (maxAbsY p)) p) <;> rfl
  · have hd : (decide (axisScale (maxAbsX p) ≠ 1) || decide (axisScale (maxAbsY p) ≠ 1)) = false := by simpa using h
    simp only [hd, h, if_false, Bool.false_eq_true, C03_tie_Centroid_core]

/-- `MultiPolygon.Centroid` as regenerated returns, without fault, the model's `multiPolygonCentroidScaled` -/
theorem C03_tie_MultiPolygon_Centroid_scaled (mp : MPoly) :
    Gen.multiPolygon_Centroid_scaled mp = .ok (multiPolygonCentroidScaled mp) := by
  unfold Gen.multiPolygon_Centroid_scaled multiPolygonCentroidScaled centScale
  simp only [C03_tie_centroidScale, bind, Except.bind, pure, Except.pure]
  by_cases h : axisScale (maxAbsX mp.flatten) ≠ 1 ∨ axisScale (maxAbsY mp.flatten) ≠ 1
  · have hd : (decide (axisScale (maxAbsX mp.flatten) ≠ 1) || decide (axisScale (maxAbsY mp.flatten) ≠ 1)) = true := by
      simpa using h
    simp only [hd, h, if_true, len_eq, make_ok]
    rw [forRange_fill (scalePoly (axisScale (maxAbsX mp.flatten)) (axisScale (maxAbsY mp.flatten)))]
    · simp only [C03_tie_MultiPolygon_Centroid_core]
    · intro o i p _ hi
      simp [C03_tie_scaled p _ _ (axisScale_ne_zero _) (axisScale_ne_zero _), setIdx_ok o i _ hi, bind, Except.bind,
        pure, Except.pure]
  · have hd : (decide (axisScale (maxAbsX mp.flatten) ≠ 1) || decide (axisScale (maxAbsY mp.flatten) ≠ 1)) = false := by
      simpa using h
    simp only [hd, h, if_false, Bool.false_eq_true, C03_tie_MultiPolygon_Centroid_core]

/-- `op.Centroid` on a Polygon as regenerated (inline range guard: the two axis-scale blocks are the recognised
statement group, its call of itself on the rescaled copy is the loop below the guard) returns, without fault, the
model's `opCentroidScaled` -/
theorem C03_tie_op_Centroid_scaled (p : Poly) : Gen.op_Centroid_scaled p = .ok (opCentroidScaled p) := by
  unfold Gen.op_Centroid_scaled opCentroidScaled centScale
  simp only [bind, Except.bind, pure, Except.pure]
  rw [forRange_foldl (fun (s : Rat × Rat) (r : Ring) => r.foldl (fun s v => (max s.1 (absR v.x), max s.2 (absR v.y))) s)]
  · rw [poly_pair_foldl]
    simp only []
    have ex : p.foldl (fun m r => r.foldl (fun m v => max m (absR v.x)) m) (0 : Rat) = maxAbsX p := rfl
    have ey : p.foldl (fun m r => r.foldl (fun m v => max m (absR v.y)) m) (0 : Rat) = maxAbsY p := rfl
    simp only [ex, ey]
    by_cases h : axisScale (maxAbsX p) ≠ 1 ∨ axisScale (maxAbsY p) ≠ 1
    · have hd : (decide (axisScale (maxAbsX p) ≠ 1) || decide (axisScale (maxAbsY p) ≠ 1)) = true := by simpa using h
      simp only [hd, h, if_true, len_eq, make_ok]
      rw [forRange_fill (scaleRing (axisScale (maxAbsX p)) (axisScale (maxAbsY p)))]
      · simp only [C03_tie_op_Centroid_core]
        rfl
      · intro o i r _ hi
        simp only [make_ok, setIdx_ok o i _ hi, bind, Except.bind, pure, Except.pure, Go.forRange]
        have hi' : i < (o.set i (List.replicate r.length (⟨0, 0⟩ : P))).length := by simpa using hi
        refine Eq.trans (forRangeAux_row (fun v : P => (⟨v.x / axisScale (maxAbsX p), v.y / axisScale (maxAbsY p)⟩ : P)) i _ ?_
          r (o.set i (List.replicate r.length (⟨0, 0⟩ : P))) [] (List.replicate r.length (⟨0, 0⟩ : P)) hi' (by simp)
          (by simp)) ?_
        · intro o j x hi hj
          simp [setIdx2_ok o i j _ hi hj, fdiv_ok _ _ (axisScale_ne_zero (maxAbsX p)),
            fdiv_ok _ _ (axisScale_ne_zero (maxAbsY p)), bind, Except.bind, pure, Except.pure]
        · simp [scaleRing]
    · have hd : (decide (axisScale (maxAbsX p) ≠ 1) || decide (axisScale (maxAbsY p) ≠ 1)) = false := by simpa using h
      simp only [hd, h, if_false, Bool.false_eq_true, C03_tie_op_Centroid_core]
  · intro s i r
    rw [forRange_foldl (fun (s : Rat × Rat) (v : P) => (max s.1 (absR v.x), max s.2 (absR v.y)))]
    intro s i v
    rfl

/-! ## the origin guard of the centroids (fix "centroids form their moment sums relative to the first vertex") -/

theorem len_cons_ne {α : Type} (a : α) (t : List α) : decide (Go.len (a :: t) = 0) = false := by
  have : ((t.length : Int) + 1 = 0) = False := by
    apply eq_false; omega
  simp [Go.len, this]
theorem len_nil_eq {α : Type} : decide (Go.len ([] : List α) = 0) = true := by simp [Go.len]
theorem idx0_cons {α : Type} (a : α) (t : List α) : Go.idx (a :: t) 0 = .ok a := by
  simp [Go.idx, pure, Except.pure]

/-- `centroidOrigin(rings...)` (area.go) as regenerated returns, without fault, the first vertex of the first ring of the
first polygon, or (0, 0) -/
theorem C03_tie_centroidOrigin (rings : MPoly) : Gen.centroidOrigin rings = .ok (firstVertexM rings) := by
  unfold Gen.centroidOrigin Gen.centroidAxisOrigin
  match rings with
  | [] => simp only [len_nil_eq, Go.orElse, firstVertexM, bind, Except.bind, pure, Except.pure, if_true]
  | [] :: _ =>
    simp only [len_cons_ne, len_nil_eq, idx0_cons, Go.orElse, firstVertexM, firstVertex, bind, Except.bind, pure,
      Except.pure, if_true, if_false, Bool.false_eq_true]
  | ([] :: _) :: _ =>
    simp only [len_cons_ne, len_nil_eq, idx0_cons, Go.orElse, firstVertexM, firstVertex, bind, Except.bind, pure,
      Except.pure, if_true, if_false, Bool.false_eq_true]
  | ((v :: _) :: _) :: _ =>
    simp only [len_cons_ne, idx0_cons, Go.orElse, firstVertexM, firstVertex, bind, Except.bind, pure,
      Except.pure, if_false, Bool.false_eq_true]

/-- `centroidOrigin(p)` (op/properties.go) as regenerated returns, without fault, the first vertex of the first ring, or (0, 0) -/
theorem C03_tie_op_centroidOrigin (p : Poly) : Gen.op_centroidOrigin p = .ok (firstVertex p) := by
  unfold Gen.op_centroidOrigin Gen.op_centroidAxisOrigin
  match p with
  | [] => simp only [len_nil_eq, Go.orElse, firstVertex, bind, Except.bind, pure, Except.pure, if_true]
  | [] :: _ =>
    simp only [len_cons_ne, len_nil_eq, idx0_cons, Go.orElse, firstVertex, bind, Except.bind, pure,
      Except.pure, if_true, if_false, Bool.false_eq_true]
  | (v :: _) :: _ =>
    simp only [len_cons_ne, idx0_cons, Go.orElse, firstVertex, bind, Except.bind, pure,
      Except.pure, if_false, Bool.false_eq_true]

/-- `Polygon.translated(ox, oy)` as regenerated returns, without fault, the model's `translatePoly` -/
theorem C03_tie_translated (p : Poly) (ox oy : Rat) : Gen.polygon_translated p ox oy = .ok (translatePoly ox oy p) := by
  unfold Gen.polygon_translated translatePoly
  simp only [len_eq, make_ok, bind, Except.bind, pure, Except.pure]
  rw [forRange_fill (translateRing ox oy)]
  intro o i r _ hi
  simp only [make_ok, setIdx_ok o i _ hi, bind, Except.bind, pure, Except.pure, Go.forRange]
  have hi' : i < (o.set i (List.replicate r.length (⟨0, 0⟩ : P))).length := by simpa using hi
  refine Eq.trans (forRangeAux_row (fun v : P => (⟨v.x - ox, v.y - oy⟩ : P)) i _ ?_
    r (o.set i (List.replicate r.length (⟨0, 0⟩ : P))) [] (List.replicate r.length (⟨0, 0⟩ : P)) hi' (by simp) (by simp)) ?_
  · intro o j x hi hj
    simp [setIdx2_ok o i j _ hi hj, bind, Except.bind, pure, Except.pure]
  · simp [translateRing]

/-- `Polygon.Centroid` as regenerated (its call of itself on the translated copy read as the function below the origin
guard, there its call of itself on the rescaled copy as the loops) returns the model's `polygonCentroid`, fault for fault -/
theorem C03_tie_Centroid (p : Poly) : Gen.polygon_Centroid p = Go.lift (polygonCentroid p) := by
  unfold Gen.polygon_Centroid polygonCentroid centOrigin
  simp only [C03_tie_centroidOrigin, firstVertexM, bind, Except.bind, pure, Except.pure]
  by_cases h : (firstVertex p).1 ≠ 0 ∨ (firstVertex p).2 ≠ 0
  · have hd : (decide ((firstVertex p).1 ≠ 0) || decide ((firstVertex p).2 ≠ 0)) = true := by simpa using h
    simp only [hd, h, if_true, C03_tie_translated, C03_tie_Centroid_scaled]
    cases polygonCentroidScaled (translatePoly (firstVertex p).1 (firstVertex p).2 p) <;> rfl
  · have hd : (decide ((firstVertex p).1 ≠ 0) || decide ((firstVertex p).2 ≠ 0)) = false := by simpa using h
    simp only [hd, h, if_false, Bool.false_eq_true, C03_tie_Centroid_scaled]

/-- `MultiPolygon.Centroid` as regenerated returns, without fault, the model's `multiPolygonCentroid` -/
theorem C03_tie_MultiPolygon_Centroid (mp : MPoly) :
    Gen.multiPolygon_Centroid mp = .ok (multiPolygonCentroid mp) := by
  unfold Gen.multiPolygon_Centroid multiPolygonCentroid centOriginM
  simp only [C03_tie_centroidOrigin, bind, Except.bind, pure, Except.pure]
  by_cases h : (firstVertexM mp).1 ≠ 0 ∨ (firstVertexM mp).2 ≠ 0
  · have hd : (decide ((firstVertexM mp).1 ≠ 0) || decide ((firstVertexM mp).2 ≠ 0)) = true := by simpa using h
    simp only [hd, h, if_true, len_eq, make_ok]
    rw [forRange_fill (translatePoly (firstVertexM mp).1 (firstVertexM mp).2)]
    · simp only [C03_tie_MultiPolygon_Centroid_scaled]
    · intro o i p _ hi
      simp [C03_tie_translated, setIdx_ok o i _ hi, bind, Except.bind, pure, Except.pure]
  · have hd : (decide ((firstVertexM mp).1 ≠ 0) || decide ((firstVertexM mp).2 ≠ 0)) = false := by simpa using h
    simp only [hd, h, if_false, Bool.false_eq_true, C03_tie_MultiPolygon_Centroid_scaled]

/-- `op.Centroid` on a Polygon as regenerated (inline origin guard; its call of itself on the translated copy is the function
below that guard) returns, without fault, the model's `opCentroid` -/
theorem C03_tie_op_Centroid (p : Poly) : Gen.op_Centroid p = .ok (opCentroid p) := by
  unfold Gen.op_Centroid opCentroid centOrigin
  simp only [C03_tie_op_centroidOrigin, bind, Except.bind, pure, Except.pure]
  by_cases h : (firstVertex p).1 ≠ 0 ∨ (firstVertex p).2 ≠ 0
  · have hd : (decide ((firstVertex p).1 ≠ 0) || decide ((firstVertex p).2 ≠ 0)) = true := by simpa using h
    simp only [hd, h, if_true, len_eq, make_ok]
    rw [forRange_fill (translateRing (firstVertex p).1 (firstVertex p).2)]
    · simp only [C03_tie_op_Centroid_scaled]
      rfl
    · intro o i r _ hi
      simp only [make_ok, setIdx_ok o i _ hi, bind, Except.bind, pure, Except.pure, Go.forRange]
      have hi' : i < (o.set i (List.replicate r.length (⟨0, 0⟩ : P))).length := by simpa using hi
      refine Eq.trans (forRangeAux_row (fun v : P => (⟨v.x - (firstVertex p).1, v.y - (firstVertex p).2⟩ : P)) i _ ?_
        r (o.set i (List.replicate r.length (⟨0, 0⟩ : P))) [] (List.replicate r.length (⟨0, 0⟩ : P)) hi' (by simp)
        (by simp)) ?_
      · intro o j x hi hj
        simp [setIdx2_ok o i j _ hi hj, bind, Except.bind, pure, Except.pure]
      · simp [translateRing]
  · have hd : (decide ((firstVertex p).1 ≠ 0) || decide ((firstVertex p).2 ≠ 0)) = false := by simpa using h
    simp only [hd, h, if_false, Bool.false_eq_true, C03_tie_op_Centroid_scaled]

/-! ## op/properties.go: the Polygon / MultiPolygon cases of `Area` -/

/-- `op.Area` on a Polygon -/
theorem C03_tie_op_Area_Polygon (p : Poly) : Gen.op_Area_Polygon p = .ok (opPolygonArea p) := by
  unfold Gen.op_Area_Polygon opPolygonArea
  simp only [bind, Except.bind, pure, Except.pure]
  rw [forRange_foldl (fun a r => a + opRingArea r)]
  · simp [foldl_add_sum]
  · intro s i x
    simp [C03_tie_op_area]

/-- `op.Area` on a MultiPolygon (its call `Area(p)` on a member is the Polygon case) -/
theorem C03_tie_op_Area_MultiPolygon (mp : MPoly) : Gen.op_Area_MultiPolygon mp = .ok (opMultiPolygonArea mp) := by
  unfold Gen.op_Area_MultiPolygon opMultiPolygonArea
  simp only [bind, Except.bind, pure, Except.pure]
  rw [forRange_foldl (fun a p => a + opPolygonArea p)]
  · simp [foldl_add_sum]
  · intro s i x
    simp [C03_tie_op_Area_Polygon]

/-! ### `op.Area` on a GeometryCollection (open recursion: the function's call of itself on a member of unknown
dynamic type is the parameter `self` of the regenerated case) -/

theorem opAreaAcc_foldl (gs : List (Geom Rat)) (a : Rat) :
    opAreaAcc gs a = gs.foldl (fun a g => a + opAreaGeom g) a := by
  induction gs generalizing a with
  | nil => simp [opAreaAcc]
  | cons g t ih => simp [opAreaAcc, ih]

/-- `op.Area`, case GeometryCollection: with `self` read as the model of the whole function, the regenerated case
returns, without fault, the model's value on the collection -/
theorem C03_tie_op_Area_GeometryCollection (gs : List (Geom Rat)) :
    Gen.op_Area_GeometryCollection (fun g => .ok (opAreaGeom g)) gs = .ok (opAreaGeom (.collection gs)) := by
  unfold Gen.op_Area_GeometryCollection
  simp only [bind, Except.bind, pure, Except.pure]
  rw [forRange_foldl (fun a g => a + opAreaGeom g)]
  · simp [opAreaGeom, opAreaAcc_foldl]
  · intro s i x; rfl

/-- the type switch of `op.Area` assembled from its regenerated cases (`op_Area_other`: a geometry no case lists runs
only the statements around the switch, `a := 0.` … `return math.Abs(a)`; only the dispatch itself is written here) -/
def opAreaSwitch (self : Geom Rat → Go.M Rat) : Geom Rat → Go.M Rat
  | .polygon p => Gen.op_Area_Polygon p
  | .multiPolygon mp => Gen.op_Area_MultiPolygon mp
  | .collection gs => Gen.op_Area_GeometryCollection self gs
  | g => Gen.op_Area_other g

/-- **`op.Area` on every geometry**: the model `opAreaGeom` is a fixed point of the regenerated type switch —
when the recursive calls return the model's values, so does the call, without fault -/
theorem C03_tie_op_Area_Geom (g : Geom Rat) :
    opAreaSwitch (fun g => .ok (opAreaGeom g)) g = .ok (opAreaGeom g) := by
  cases g with
  | polygon p => simp [opAreaSwitch, opAreaGeom, C03_tie_op_Area_Polygon]
  | multiPolygon mp => simp [opAreaSwitch, opAreaGeom, C03_tie_op_Area_MultiPolygon]
  | collection gs => exact C03_tie_op_Area_GeometryCollection gs
  | _ => simp [opAreaSwitch, opAreaGeom, Gen.op_Area_other, absR, pure, Except.pure]

/-! ## bounds.go -/

/-- `(*Bounds).Area` (non-nil receiver) -/
theorem C03_tie_bounds_Area (mn mx : P) : Gen.bounds_Area ⟨mn, mx⟩ = .ok (boundsArea mn mx) := rfl

/-- `(*Bounds).Centroid` (non-nil receiver) -/
theorem C03_tie_bounds_Centroid (mn mx : P) : Gen.bounds_Centroid ⟨mn, mx⟩ = .ok (boundsCentroid mn mx) := rfl

/-! ## the real-valued code, for every `RNum` -/

section Real
variable {α : Type} [RNum α]

theorem lengthGo_pairFold : ∀ (l : List (Pt α)) (acc : α),
    lengthGo acc l = pairFold (fun acc a b => acc + RNum.hypot (b.x - a.x) (b.y - a.y)) acc l := by
  intro l
  induction l with
  | nil => intro acc; simp [lengthGo, pairFold]
  | cons a t ih =>
    intro acc
    cases t with
    | nil => simp [lengthGo, pairFold]
    | cons b t => simp only [lengthGo, pairFold]; exact ih _

/-- `op.length` (op/properties.go) as regenerated returns, without fault, the model's `lineStringLength` -/
theorem C03_tie_op_length (l : List (Pt α)) : Gen.op_length l = .ok (lineStringLength l) := by
  unfold Gen.op_length lineStringLength
  simp only [bind, Except.bind, pure, Except.pure]
  rw [forLt_pairs (fun acc a b => acc + RNum.hypot (b.x - a.x) (b.y - a.y))]
  · simp [lengthGo_pairFold]
  · intro s i a b ha hb
    simp [idx_some l i a ha, idx_some_succ l i b hb]

/-- `op.Length` on a LineString -/
theorem C03_tie_op_Length_LineString (l : List (Pt α)) : Gen.op_Length_LineString l = .ok (lineStringLength l) := by
  unfold Gen.op_Length_LineString
  simp [C03_tie_op_length, bind, Except.bind, pure, Except.pure]

/-- `op.Length` on a MultiLineString (its call `Length(line)` on a member is the LineString case) -/
theorem C03_tie_op_Length_MultiLineString (ml : List (List (Pt α))) :
    Gen.op_Length_MultiLineString ml = .ok (multiLineStringLength ml) := by
  unfold Gen.op_Length_MultiLineString multiLineStringLength
  simp only [bind, Except.bind, pure, Except.pure]
  rw [forRange_foldl (fun acc l => acc + lineStringLength l)]
  intro s i x
  simp [C03_tie_op_Length_LineString]

/-! ### `op.Length` on a GeometryCollection (open recursion as for `op.Area`) -/

theorem opLengthAcc_foldl (gs : List (Geom α)) (a : α) :
    opLengthAcc gs a = gs.foldl (fun a g => a + opLengthGeom g) a := by
  induction gs generalizing a with
  | nil => simp [opLengthAcc]
  | cons g t ih => simp [opLengthAcc, ih]

/-- `op.Length`, case GeometryCollection: with `self` read as the model of the whole function, the regenerated case
returns, without fault, the model's value on the collection -/
theorem C03_tie_op_Length_GeometryCollection (gs : List (Geom α)) :
    Gen.op_Length_GeometryCollection (fun g => .ok (opLengthGeom g)) gs = .ok (opLengthGeom (.collection gs)) := by
  unfold Gen.op_Length_GeometryCollection
  simp only [bind, Except.bind, pure, Except.pure]
  rw [forRange_foldl (fun a g => a + opLengthGeom g)]
  · simp [opLengthGeom, opLengthAcc_foldl]
  · intro s i x; rfl

/-- the type switch of `op.Length` assembled from its regenerated cases (`op_Length_other`: a geometry no case lists) -/
def opLengthSwitch (self : Geom α → Go.M α) : Geom α → Go.M α
  | .lineString l => Gen.op_Length_LineString l
  | .multiLineString ml => Gen.op_Length_MultiLineString ml
  | .collection gs => Gen.op_Length_GeometryCollection self gs
  | g => Gen.op_Length_other g

/-- **`op.Length` on every geometry**: `opLengthGeom` is a fixed point of the regenerated type switch -/
theorem C03_tie_op_Length_Geom (g : Geom α) :
    opLengthSwitch (fun g => .ok (opLengthGeom g)) g = .ok (opLengthGeom g) := by
  cases g with
  | lineString l => simp [opLengthSwitch, opLengthGeom, C03_tie_op_Length_LineString]
  | multiLineString ml => simp [opLengthSwitch, opLengthGeom, C03_tie_op_Length_MultiLineString]
  | collection gs => exact C03_tie_op_Length_GeometryCollection gs
  | _ => simp [opLengthSwitch, opLengthGeom, Gen.op_Length_other, pure, Except.pure]

/-- `LineString.Length` as regenerated returns, without fault, the model's `lineStringLength` -/
theorem C03_tie_LineString_Length (l : List (Pt α)) : Gen.lineString_Length l = .ok (lineStringLength l) := by
  unfold Gen.lineString_Length lineStringLength
  simp only [bind, Except.bind, pure, Except.pure]
  rw [forLt_pairs (fun acc a b => acc + RNum.hypot (b.x - a.x) (b.y - a.y))]
  · simp [lengthGo_pairFold]
  · intro s i a b ha hb
    simp [idx_some l i a ha, idx_some_succ l i b hb]

/-- `MultiLineString.Length` as regenerated returns, without fault, the model's `multiLineStringLength` -/
theorem C03_tie_MultiLineString_Length (ml : List (List (Pt α))) :
    Gen.multiLineString_Length ml = .ok (multiLineStringLength ml) := by
  unfold Gen.multiLineString_Length multiLineStringLength
  simp only [bind, Except.bind, pure, Except.pure]
  rw [forRange_foldl (fun acc l => acc + lineStringLength l)]
  intro s i x
  simp [C03_tie_LineString_Length]

/-- `pointSubtract`, `dot`, `norm`, `d` (simplify.go) -/
theorem C03_tie_pointSubtract (a b : Pt α) : Gen.pointSubtract a b = .ok (psub a b) := rfl
theorem C03_tie_dot (u v : Pt α) : Gen.dot u v = .ok (dot u v) := rfl
theorem C03_tie_norm (v : Pt α) : Gen.norm v = .ok (norm v) := rfl
theorem C03_tie_d (u v : Pt α) : Gen.d u v = .ok (dist u v) := rfl

/-- `distPointToSegment` (simplify.go) below its range guard -/
theorem C03_tie_distPointToSegment_core (p s e : Pt α) : Gen.distPointToSegment_core p s e = .ok (dpsCore p s e) := by
  unfold Gen.distPointToSegment_core dpsCore
  simp only [C03_tie_pointSubtract, C03_tie_dot, C03_tie_d, bind, Except.bind, pure, Except.pure]
  split
  · rfl
  · split <;> rfl

/-- `distPointToSegment` as regenerated (range guard = the recognised statement group: `RNum.rescale`, the recursive
call on the rescaled copy is the code below the guard) returns the model's `distPointToSegment` -/
theorem C03_tie_distPointToSegment (p s e : Pt α) :
    Gen.distPointToSegment p s e = .ok (distPointToSegment p s e) := by
  unfold Gen.distPointToSegment distPointToSegment
  simp only [C03_tie_pointSubtract, C03_tie_distPointToSegment_core, bind, Except.bind, pure, Except.pure]
  cases h : RNum.rescale (RNum.max (RNum.max (RNum.abs (psub e s).x) (RNum.abs (psub e s).y))
      (RNum.max (RNum.abs (psub p s).x) (RNum.abs (psub p s).y))) <;> rfl

theorem distanceGo_pairFold (p : Pt α) : ∀ (l : List (Pt α)) (d : Option α),
    distanceGo p d l = pairFold (fun d a b => ominL d (distPointToSegment p a b)) d l := by
  intro l
  induction l with
  | nil => intro d; simp [distanceGo, pairFold]
  | cons a t ih =>
    intro d
    cases t with
    | nil => simp [distanceGo, pairFold]
    | cons b t => simp only [distanceGo, pairFold]; exact ih _

/-- `LineString.Distance` as regenerated returns,
without fault, the model's `lineStringDistance`; `none` is `math.Inf(1)` -/
theorem C03_tie_LineString_Distance (l : List (Pt α)) (p : Pt α) :
    Gen.lineString_Distance l p = .ok (lineStringDistance l p) := by
  unfold Gen.lineString_Distance lineStringDistance
  simp only [bind, Except.bind, pure, Except.pure]
  rw [forLt_pairs (fun d a b => ominL d (distPointToSegment p a b))]
  · simp [distanceGo_pairFold]
  · intro s i a b ha hb
    simp [idx_some l i a ha, idx_some_succ l i b hb, Go.minInf, C03_tie_distPointToSegment, bind, Except.bind]

/-- `MultiLineString.Distance` as regenerated returns, without fault, the model's `multiLineStringDistance` -/
theorem C03_tie_MultiLineString_Distance (ml : List (List (Pt α))) (p : Pt α) :
    Gen.multiLineString_Distance ml p = .ok (multiLineStringDistance ml p) := by
  unfold Gen.multiLineString_Distance multiLineStringDistance
  simp only [bind, Except.bind, pure, Except.pure]
  rw [forRange_foldl (fun d l => omin d (lineStringDistance l p))]
  intro s i x
  simp [C03_tie_LineString_Distance, Go.minInf2]

/-- a counting loop whose body stores `f i` at `[0][i]` fills the only row of `o` -/
theorem forLtAux_fill {β : Type} (f : Nat → β) (body : List (List β) → Int → M (List (List β)))
    (hb : ∀ (row : List β) (i : Nat), i < row.length → body [row] (i : Int) = .ok [row.set i (f i)]) :
    ∀ (n : Nat) (pre rest : List β), rest.length = n →
      forLtAux body n (pre.length : Int) [pre ++ rest] = .ok [pre ++ (List.range' pre.length n).map f] := by
  intro n
  induction n with
  | zero =>
    intro pre rest h
    have : rest = [] := List.eq_nil_of_length_eq_zero h
    simp [forLtAux, this, pure, Except.pure]
  | succ n ih =>
    intro pre rest h
    cases rest with
    | nil => simp at h
    | cons r0 rest =>
      have h1 := hb (pre ++ r0 :: rest) pre.length (by simp)
      have e : (pre ++ r0 :: rest).set pre.length (f pre.length) = (pre ++ [f pre.length]) ++ rest := by simp
      have hl : ((pre.length : Int) + 1) = ((pre ++ [f pre.length]).length : Int) := by simp
      simp only [forLtAux, h1, e, bind, Except.bind]
      rw [hl, ih (pre ++ [f pre.length]) rest (by simpa using h)]
      simp [List.range'_succ]

theorem ofInt_nat (i : Nat) : (Go.ofInt (i : Int) : α) = RNum.ofNat i := by
  simp [Go.ofInt]

/-- `Point.Buffer` as regenerated returns the model's `buffer`: the same panics for `segments < 3` and
`radius < 0`, and otherwise — `make`, `o[0] = …` and every `o[0][i] = …` without fault — the same ring -/
theorem C03_tie_Buffer (c : Pt α) (radius : α) (segments : Int) :
    Gen.point_Buffer c radius segments = Go.lift (buffer c radius segments) := by
  unfold Gen.point_Buffer buffer
  by_cases h3 : segments < 3
  · simp [h3, Go.lift, Go.ofModel, throw, throwThe, MonadExceptOf.throw]
  · by_cases hr : RNum.lt radius (RNum.ofNat 0 : α) = true
    · simp [h3, hr, Go.lift, Go.ofModel, throw, throwThe, MonadExceptOf.throw]
    · obtain ⟨n, rfl⟩ := Int.eq_ofNat_of_zero_le (by omega : 0 ≤ segments)
      have hmake1 : Go.make (1 : Int) ([] : List (Pt α)) = .ok [[]] := by
        simp [Go.make, pure, Except.pure, List.replicate]
      have hmake (z : Pt α) : Go.make (n : Int) z = .ok (List.replicate n z) := by
        simp [Go.make, pure, Except.pure]
      have hset (row : List (Pt α)) : Go.setIdx [([] : List (Pt α))] (0 : Int) row = .ok [row] := by
        simp [Go.setIdx, pure, Except.pure]
      have e : ((n : Int) - 0).toNat = n := by omega
      simp only [h3, hr, decide_false, Bool.false_eq_true, if_false, hmake1, hmake, hset, bind, Except.bind, pure,
        Except.pure, Go.forLt, e, Go.lift, Int.toNat_natCast]
      refine Eq.trans (forLtAux_fill
        (fun i => (⟨c.x + radius * RNum.cos ((RNum.ofNat i : α) * (RNum.pi * RNum.ofNat 2 / (RNum.ofNat n : α))),
          c.y + radius * RNum.sin ((RNum.ofNat i : α) * (RNum.pi * RNum.ofNat 2 / (RNum.ofNat n : α)))⟩ : Pt α))
        _ ?_ n [] (List.replicate n (⟨RNum.ofNat 0, RNum.ofNat 0⟩ : Pt α)) (by simp)) ?_
      · intro row i hi
        simp [Go.setIdx2, Go.idx, Go.setIdx, hi, ofInt_nat, bind, Except.bind, pure, Except.pure]
      · simp [List.range_eq_range']

end Real

end GeomV.C03
