import GeomV.C03.ProofsTouch
import Mathlib.Algebra.BigOperators.Group.List.Basic
/-!
# C03 — the order in which the rings of a polygon are listed does not matter

The region a polygon denotes does not depend on the listing order of its rings (the library's own
clipper returns holes before the shell).  The theorems of `Proofs.lean`/`ProofsTouch.lean` are stated
for `shell :: holes`; here: `Polygon.Area`, the `MultiPolygon.Centroid` loop and the `Polygon.Centroid`
loop of the model return the same value for every permutation of the rings (all inputs, faults
included), hence the area and centroid clauses hold for valid polygons in ANY ring order
(the judge's classes `…-valid-holefirst-…`, so far a per-case verdict).
-/
namespace GeomV.C03
open Spec
set_option linter.unusedSimpArgs false

/-! ### `area(r, i, p, bounds)` only depends on the multiset of the other rings -/

theorem any_perm {α : Type} {l l' : List α} (h : l.Perm l') (f : α → Bool) : l.any f = l'.any f := by
  rw [Bool.eq_iff_iff]; simp only [List.any_eq_true]
  constructor
  · rintro ⟨e, he, h2⟩; exact ⟨e, h.mem_iff.mp he, h2⟩
  · rintro ⟨e, he, h2⟩; exact ⟨e, h.mem_iff.mpr he, h2⟩

theorem pip_perm {others others' : Poly} (h : others.Perm others') (v : P) : pip v others = pip v others' := by
  rw [pip_eq, pip_eq]
  unfold C02.ringsVerdict
  have hp : (others.flatMap C02.Spec.segments).Perm (others'.flatMap C02.Spec.segments) := h.flatMap_right _
  rw [any_perm hp, hp.countP_eq]

theorem firstDecisive_perm {others others' : Poly} (h : others.Perm others') (l : List P) :
    firstDecisive others l = firstDecisive others' l := by
  induction l with
  | nil => rfl
  | cons v t ih => unfold firstDecisive; rw [pip_perm h v, ih]

theorem ringArea_perm {others others' : Poly} (h : others.Perm others') (single : Bool) (r : Ring) :
    ringArea single r others = ringArea single r others' := by
  unfold ringArea
  rw [firstDecisive_perm h, (h.filter (pointsSimilar 0 r)).length_eq]

/-- rings with the weights `area` gives them, as the loops of `Polygon.Area` / `MultiPolygon.Centroid` see them -/
def weighed (single : Bool) (pre rest : Poly) : List (Ring × Rat) :=
  (withOthers pre rest).map fun ro => (ro.1, ringArea single ro.1 ro.2)

theorem weighed_cons (single : Bool) (pre : Poly) (x : Ring) (l : Poly) :
    weighed single pre (x :: l) = (x, ringArea single x (pre ++ l)) :: weighed single (pre ++ [x]) l := rfl

theorem weighed_pre (single : Bool) (l : Poly) : ∀ {pre pre' : Poly}, pre.Perm pre' →
    weighed single pre l = weighed single pre' l := by
  induction l with
  | nil => intro _ _ _; rfl
  | cons x t ih =>
    intro pre pre' h
    rw [weighed_cons, weighed_cons, ringArea_perm (h.append_right t), ih (h.append_right [x])]

theorem weighed_perm (single : Bool) {rest rest' : Poly} (h : rest.Perm rest') :
    ∀ pre : Poly, (weighed single pre rest).Perm (weighed single pre rest') := by
  induction h with
  | nil => intro pre; exact List.Perm.refl _
  | @cons x l l' hl ih =>
    intro pre
    rw [weighed_cons, weighed_cons, ringArea_perm (hl.append_left pre)]
    exact (ih (pre ++ [x])).cons _
  | swap x y l =>
    intro pre
    rw [weighed_cons, weighed_cons, weighed_cons, weighed_cons]
    have e1 : ringArea single y (pre ++ x :: l) = ringArea single y (pre ++ [x] ++ l) := by
      congr 1; simp
    have e2 : ringArea single x (pre ++ [y] ++ l) = ringArea single x (pre ++ y :: l) := by
      congr 1; simp
    have e3 : weighed single (pre ++ [y] ++ [x]) l = weighed single (pre ++ [x] ++ [y]) l := by
      apply weighed_pre
      rw [List.append_assoc, List.append_assoc]
      exact (List.Perm.swap x y []).append_left pre
    rw [e1, e2, e3]
    exact List.Perm.swap _ _ _
  | trans _ _ ih1 ih2 => intro pre; exact (ih1 pre).trans (ih2 pre)

theorem polygonArea_eq_weighed (p : Poly) :
    polygonArea p = ((weighed (p.length == 1) [] p).map (·.2)).sum := by
  unfold polygonArea weighed
  rw [List.map_map]; rfl

/-- **`Polygon.Area` does not depend on the order of the rings** — every input. -/
theorem C03_area_order {p p' : Poly} (h : p'.Perm p) : polygonArea p' = polygonArea p := by
  rw [polygonArea_eq_weighed, polygonArea_eq_weighed, h.length_eq]
  exact ((weighed_perm _ h []).map _).sum_eq

/-- **Area clause in any ring order** (`…-valid-holefirst-…`): `p'` lists the rings of a spelling of the
valid polygon `p` (rings apart or touching in single points) in any order. -/
theorem C03_area_anyorder (p : Poly) (ss : List Spell) (hlen : ss.length = p.length)
    (hv : ValidAny p = true) (p' : Poly) (hp : p'.Perm (respell ss p)) :
    polygonArea p' = Spec.area p := by
  rw [C03_area_order hp, C03_area_touch p ss hlen hv]

/-! ### the `MultiPolygon.Centroid` loop -/

theorem CAcc.add_comm' (s : CAcc) (c1 c2 d w c1' c2' d' w' : Rat) :
    (s.add c1 c2 d w).add c1' c2' d' w' = (s.add c1' c2' d' w').add c1 c2 d w := by
  unfold CAcc.add
  by_cases ha : d = 0 <;> by_cases hb : d' = 0 <;>
    simp only [ha, hb, if_true, if_false, CAcc.mk.injEq, and_true]
  · ring
  · ring
  · ring
  · refine ⟨by ring, by ring, by ring⟩

theorem stepGo_comm (s : CAcc) (a b : Ring × Rat) : stepGo (stepGo s a) b = stepGo (stepGo s b) a :=
  CAcc.add_comm' s _ _ _ _ _ _ _ _

theorem mpCentroidRings_perm {p p' : Poly} (h : p'.Perm p) (s : CAcc) :
    mpCentroidRings (p'.length == 1) (withOthers [] p') s = mpCentroidRings (p.length == 1) (withOthers [] p) s := by
  rw [mpCentroidRings_fold, mpCentroidRings_fold, h.length_eq]
  exact (weighed_perm _ h []).foldl_eq' (fun x _ y _ z => stepGo_comm z x y) s

theorem mpCentroidAcc_perm {mp mp' : MPoly} (h : List.Forall₂ List.Perm mp' mp) (s : CAcc) :
    mpCentroidAcc mp' s = mpCentroidAcc mp s := by
  induction h generalizing s with
  | nil => rfl
  | cons hp _ ih => simp only [mpCentroidAcc]; rw [mpCentroidRings_perm hp, ih]

/-- **Centroid clause (MultiPolygon) in any ring order**, for `MultiPolygon.Centroid` as it is now:
every member of `mp'` lists, in any order, the rings of a closed spelling of the corresponding valid
member of `mp` (rings apart or touching). -/
theorem C03_mcentroid_anyorder (mp : MPoly) (sss : List (List Spell))
    (hlen : List.Forall₂ (fun ss p => ss.length = p.length) sss mp)
    (hclosed : ∀ ss ∈ sss, ∀ s ∈ ss, s.closed = true)
    (hv : ∀ p ∈ mp, ValidAny p = true)
    (hW : ((mp.flatMap weights).map (·.1)).sum ≠ 0)
    (mp' : MPoly) (hp : List.Forall₂ List.Perm mp' (List.zipWith respell sss mp)) :
    multiPolygonCentroidScaled mp' = (.fin (mcentroid mp).x, .fin (mcentroid mp).y) := by
  rw [C03_mcentroid_guard]
  unfold multiPolygonCentroidCore
  rw [mpCentroidAcc_perm hp]
  exact C03_mcentroid_touch mp sss hlen hclosed hv hW

/-! ### the `Polygon.Centroid` loop -/

/-- the ring as the loop closes it (`closeIfOpen`, total: the empty ring is left alone) -/
def closeTot (r : Ring) : Ring :=
  match closeIfOpen r with
  | .ok rc => rc
  | .error _ => r

def stepP (s : CAcc) (r : Ring) : CAcc :=
  s.add (pairSum cxF (closeTot r)) (pairSum cyF (closeTot r)) (signedArea r) (signedArea r)

theorem closeIfOpen_nil : closeIfOpen [] = .error .indexOutOfRange := rfl

theorem closeIfOpen_cons (a : P) (t : List P) : closeIfOpen (a :: t) = .ok (closeTot (a :: t)) := by
  obtain ⟨rc, h⟩ := closeIfOpen_ok (r := a :: t) (by simp)
  unfold closeTot; rw [h]

/-- the loop of `Polygon.Centroid`: the index fault on an empty ring, else a fold -/
theorem polygonCentroidAcc_fold (p : Poly) (s : CAcc) :
    polygonCentroidAcc p s =
      if p.all (fun r => !r.isEmpty) then .ok (p.foldl stepP s) else .error .indexOutOfRange := by
  induction p generalizing s with
  | nil => rfl
  | cons r t ih =>
    unfold polygonCentroidAcc
    cases r with
    | nil => simp [closeIfOpen_nil, bind, Except.bind]
    | cons a u =>
      rw [closeIfOpen_cons]
      simp only [bind, Except.bind, List.all_cons, List.isEmpty_cons, Bool.not_false, Bool.true_and,
        List.foldl_cons]
      rw [ih]; rfl

theorem stepP_comm (s : CAcc) (a b : Ring) : stepP (stepP s a) b = stepP (stepP s b) a :=
  CAcc.add_comm' s _ _ _ _ _ _ _ _

/-- **`Polygon.Centroid` does not depend on the order of the rings** — every input, the index fault on
an empty ring included. -/
theorem C03_centroid_order {p p' : Poly} (h : p'.Perm p) : polygonCentroidScaled p' = polygonCentroidScaled p := by
  rw [C03_centroid_guard, C03_centroid_guard]
  unfold polygonCentroidCore
  rw [polygonCentroidAcc_fold, polygonCentroidAcc_fold, any_perm_all h,
    h.foldl_eq' (fun x _ y _ z => stepP_comm z x y) CAcc.zero]
where
  any_perm_all {l l' : Poly} (h : l.Perm l') : l.all (fun r => !r.isEmpty) = l'.all (fun r => !r.isEmpty) := by
    rw [Bool.eq_iff_iff]; simp only [List.all_eq_true]
    constructor
    · intro H r hr; exact H r (h.mem_iff.mpr hr)
    · intro H r hr; exact H r (h.mem_iff.mp hr)

/-- **Centroid clause (Polygon) in any ring order**, for `Polygon.Centroid` as it is now. -/
theorem C03_centroid_valid_anyorder (p : Poly) (ss : List Spell) (hlen : ss.length = p.length)
    (b : Bool) (hb : ∀ s ∈ ss, s.rev = b)
    (hv : ValidAny p = true) (halt : Alternating p = true)
    (hW : (p.map fun r => shoelace2 r / 2).sum ≠ 0) (p' : Poly) (hp : p'.Perm (respell ss p)) :
    polygonCentroidScaled p' = .ok (.fin (Spec.centroid p).x, .fin (Spec.centroid p).y) := by
  rw [C03_centroid_order hp]; exact C03_centroid_valid_touch p ss hlen b hb hv halt hW

/-! non-vacuity: the hole of `exPoly` listed before its shell -/
example : ([exPoly[1]!, exPoly[0]!] : Poly).Perm (respell [⟨0, false, false⟩, ⟨0, false, false⟩] exPoly) := by
  show List.Perm [_, _] [_, _]
  exact List.Perm.swap _ _ _
example : polygonArea [exPoly[1]!, exPoly[0]!] = 94 := by decide +kernel

/-! ### the judge's reading of a polygon given in any ring order (`Spec.shellFirst`) -/

theorem moveFront_perm (i : Nat) (p : Poly) : (moveFront i p).Perm p := by
  unfold moveFront
  cases h : p[i]? with
  | none => exact List.Perm.refl _
  | some r =>
    simp only []
    induction p generalizing i with
    | nil => simp at h
    | cons a t ih =>
      cases i with
      | zero => simp at h; subst h; exact List.Perm.refl _
      | succ j =>
        simp only [List.getElem?_cons_succ] at h
        simp only [List.eraseIdx_cons_succ]
        exact (List.Perm.swap a r _).trans ((ih j h).cons a)

theorem respell_id (p : Poly) : respell (List.replicate p.length ⟨0, false, false⟩) p = p := by
  induction p with
  | nil => rfl
  | cons r t ih =>
    simp only [List.length_cons, List.replicate_succ, respell, List.zipWith_cons_cons]
    congr 1

/-- **Area clause as the judge reads a polygon in any ring order**: when some ring of `p'` can play the
shell of a `ValidPoly` (`Spec.shellFirst p' = some q`, `q` = that ring moved to the front),
`Polygon.Area p'` is measure(shell) − Σ measure(holes) of `q`. -/
theorem C03_area_holefirst (p' q : Poly) (h : shellFirst p' = some q) :
    ValidPoly q = true ∧ polygonArea p' = Spec.area q := by
  unfold shellFirst at h
  cases hi : shellIndex p' with
  | none => rw [hi] at h; simp at h
  | some i =>
    rw [hi] at h
    simp only [Option.map_some, Option.some.injEq] at h
    unfold shellIndex at hi
    have hpred := List.find?_some hi
    have hq : ValidPoly q = true := by
      rw [← h]; unfold moveFront
      cases hr : p'[i]? with
      | none => rw [hr] at hpred; simp at hpred
      | some r => rw [hr] at hpred; exact hpred
    refine ⟨hq, ?_⟩
    have hperm : p'.Perm q := by rw [← h]; exact (moveFront_perm i p').symm
    have := C03_area_anyorder q (List.replicate q.length ⟨0, false, false⟩) (by simp)
      (by unfold ValidAny; rw [hq]; rfl) p' (by rw [respell_id]; exact hperm)
    exact this

example : shellFirst [exPoly[1]!, exPoly[0]!] = some exPoly := by decide +kernel

end GeomV.C03
