import GeomV.C03.ProofsMTranslate
/-!
# C03 — a closed spelling of a valid polygon hands `MultiPolygon.Centroid` / `op.Centroid` closed rings

`C03_mcentroid_anyorder_now` (ProofsMTranslate.lean) kept `hcl : ∀ p ∈ mp', AllClosed p` (the rings handed
to the function satisfy `closeIfOpen r = ok r`) as an explicit decidable hypothesis next to
`hclosed : every spelling has closed = true`.  Here `hclosed ⇒ hcl` is proved: a ring of a valid polygon
is simple, hence non-empty, a closed spelling of a non-empty ring ends with its first vertex, and the
property is kept by listing the rings in another order.  `C03_mcentroid_now` is the multi-polygon centroid
clause for the function as it is now without `hcl`; `C03_opCentroid_now` is the same for `op.Centroid`.
-/
namespace GeomV.C03
open Spec
set_option linter.unusedSimpArgs false

/-- `closeRing` of a non-empty ring is closed in the sense of the code (`r[len(r)-1] == r[0]`) -/
theorem closeIfOpen_closeRing (r : Ring) (h : r ≠ []) : closeIfOpen (closeRing r) = .ok (closeRing r) := by
  cases r with
  | nil => exact absurd rfl h
  | cons a t =>
    have hl : (closeRing (a :: t)).getLast? = some a := by
      show ((a :: t) ++ [a]).getLast? = some a
      rw [List.getLast?_append]; rfl
    have hh : (closeRing (a :: t)).head? = some a := rfl
    unfold closeIfOpen
    rw [hl, hh]
    simp

/-- a closed spelling of a non-empty ring is a closed ring -/
theorem closeIfOpen_ap (s : Spell) (hs : s.closed = true) (r : Ring) (h : r ≠ []) :
    closeIfOpen (s.ap r) = .ok (s.ap r) := by
  rw [Spec.Spell.ap_eq, if_pos hs]
  apply closeIfOpen_closeRing
  intro e
  have := (ap0_perm s r).length_eq
  rw [e] at this
  exact h (List.length_eq_zero_iff.mp this.symm)

theorem ne_nil_of_simple {r : Ring} (h : SimpleRing r = true) : r ≠ [] := by
  unfold SimpleRing at h
  simp only [Bool.and_eq_true, decide_eq_true_eq] at h
  intro e
  have h3 := h.1.1.1.1
  rw [e] at h3
  simp at h3

/-- **`hclosed ⇒ hcl`, one polygon**: all-closed spellings of a valid polygon (rings apart or touching),
its rings listed in any order, are `AllClosed`. -/
theorem C03_allClosed_of_spelling (p : Poly) (ss : List Spell) (hclosed : ∀ s ∈ ss, s.closed = true)
    (hv : ValidAny p = true) (p' : Poly) (hp : p'.Perm (respell ss p)) : AllClosed p' := by
  intro r' hr'
  obtain ⟨s, hs, r, hr, e⟩ := mem_respell (hp.mem_iff.mp hr')
  rw [e]
  exact closeIfOpen_ap s (hclosed s hs) r (ne_nil_of_simple (simple_of_validAny hv r hr))

/-- **`hclosed ⇒ hcl`, multi-polygon** -/
theorem C03_allClosed_of_spelling_multi (mp : MPoly) (sss : List (List Spell))
    (hclosed : ∀ ss ∈ sss, ∀ s ∈ ss, s.closed = true)
    (hv : ∀ p ∈ mp, ValidAny p = true)
    (mp' : MPoly) (hp : List.Forall₂ List.Perm mp' (List.zipWith respell sss mp)) :
    ∀ p ∈ mp', AllClosed p := by
  induction sss generalizing mp mp' with
  | nil =>
    simp only [List.zipWith_nil_left, List.forall₂_nil_right_iff] at hp
    subst hp; intro p h; simp at h
  | cons ss rest ih =>
    cases mp with
    | nil =>
      simp only [List.zipWith_nil_right, List.forall₂_nil_right_iff] at hp
      subst hp; intro p h; simp at h
    | cons q mrest =>
      simp only [List.zipWith_cons_cons] at hp
      cases hp with
      | cons h1 h2 =>
        intro p hpm
        simp only [List.mem_cons] at hpm
        rcases hpm with e | hm
        · subst e
          exact C03_allClosed_of_spelling q ss (hclosed ss (by simp)) (hv q (by simp)) _ h1
        · exact ih mrest (fun s hs => hclosed s (by simp [hs])) (fun x hx => hv x (by simp [hx])) _ h2 p hm

/-- **Centroid clause (MultiPolygon), final form** for `MultiPolygon.Centroid` AS IT IS NOW (origin guard,
range guard, loops): every member of `mp'` lists, in any order, the rings of a closed spelling (any
direction and start vertex per ring) of the corresponding valid member of `mp` (rings apart or touching
in single points); total weight non-zero → the area-weighted centroid of the base multi-polygon.  No
hypothesis about `closeIfOpen` any more. -/
theorem C03_mcentroid_now (mp : MPoly) (sss : List (List Spell))
    (hlen : List.Forall₂ (fun ss p => ss.length = p.length) sss mp)
    (hclosed : ∀ ss ∈ sss, ∀ s ∈ ss, s.closed = true)
    (hv : ∀ p ∈ mp, ValidAny p = true)
    (hW : ((mp.flatMap weights).map (·.1)).sum ≠ 0)
    (mp' : MPoly) (hp : List.Forall₂ List.Perm mp' (List.zipWith respell sss mp)) :
    multiPolygonCentroid mp' = (.fin (mcentroid mp).x, .fin (mcentroid mp).y) :=
  C03_mcentroid_anyorder_now mp sss hlen hclosed hv hW mp' hp
    (C03_allClosed_of_spelling_multi mp sss hclosed hv mp' hp)

/-- **op.Centroid = Polygon.Centroid on every closed spelling of a valid polygon**, for the two functions
as they are now (both origin guards, both range guards, loops), rings in any order. -/
theorem C03_opCentroid_now (p : Poly) (ss : List Spell) (hclosed : ∀ s ∈ ss, s.closed = true)
    (hv : ValidAny p = true) (p' : Poly) (hp : p'.Perm (respell ss p)) :
    polygonCentroid p' = .ok (opCentroid p') :=
  op_agrees_centroid_now p' (C03_allClosed_of_spelling p ss hclosed hv p' hp)

/-- non-vacuity: the two-member example of Proofs.lean (`exMP`, `exMSpell`: all spellings closed, members
valid) far from the origin satisfies the hypotheses -/
example : (∀ ss ∈ exMSpell, ∀ s ∈ ss, s.closed = true) ∧ (∀ p ∈ exMP, ValidAny p = true) := by
  decide +kernel

end GeomV.C03
