import GeomV.C03.ProofsSpecScale
/-!
# C03 — the second implementation's area (`op.Area`)

`op.Area` sums the SIGNED ring areas and takes the absolute value; its documentation assumes that
nested rings have alternating winding directions.  Under exactly that assumption it is the area of the
shells minus their holes, for every common direction, start vertices and closed/unclosed spelling.
(The judge demands `op.Area = shells − holes` for valid alternating polygons; this is the theorem.)
-/
namespace GeomV.C03
open Spec
set_option linter.unusedSimpArgs false

theorem sum_map_neg' (f : Ring → Rat) (l : Poly) : (l.map fun x => -f x).sum = -(l.map f).sum := by
  induction l with
  | nil => simp
  | cons a t ih => simp only [List.map_cons, List.sum_cons, ih]; ring

theorem map_measure (l : Poly) : l.map Spec.measure = l.map fun h => |shoelace2 h| / 2 := by
  apply List.map_congr_left; intro h _; unfold Spec.measure; rw [specAbsR_eq_abs]

/-- signed areas of an alternating polygon add up to ± (shell − holes) -/
theorem sum_signed_alternating (p : Poly) (halt : Alternating p = true) :
    |(p.map fun r => shoelace2 r / 2).sum| = |Spec.area p| := by
  cases p with
  | nil => simp [Spec.area]
  | cons shell holes =>
    simp only [Alternating, List.all_eq_true, decide_eq_true_eq] at halt
    simp only [List.map_cons, List.sum_cons, Spec.area, sumR_eq_sum, map_measure]
    simp only [Spec.measure, specAbsR_eq_abs]
    rcases lt_trichotomy (shoelace2 shell) 0 with hs | hs | hs
    · -- shell clockwise: holes counter-clockwise
      have hh : (holes.map fun r => shoelace2 r / 2).sum = (holes.map fun h => |shoelace2 h| / 2).sum := by
        congr 1; apply List.map_congr_left; intro g hg
        have : 0 < shoelace2 g := by have := halt g hg; nlinarith
        rw [abs_of_pos this]
      rw [hh, abs_of_neg hs]
      have : shoelace2 shell / 2 + (holes.map fun h => |shoelace2 h| / 2).sum
          = -(-shoelace2 shell / 2 - (holes.map fun h => |shoelace2 h| / 2).sum) := by ring
      rw [this, abs_neg]
    · -- degenerate shell: no hole can be wound against it
      cases holes with
      | nil => simp [hs]
      | cons g t => have := halt g (by simp); rw [hs] at this; simp at this
    · have hh : (holes.map fun r => shoelace2 r / 2).sum = -(holes.map fun h => |shoelace2 h| / 2).sum := by
        rw [← sum_map_neg']
        congr 1; apply List.map_congr_left; intro g hg
        have : shoelace2 g < 0 := by have := halt g hg; nlinarith
        rw [abs_of_neg this]; ring
      rw [hh, abs_of_pos hs]; congr 1; ring

/-- **op.Area clause.**  Under the assumption its documentation states (nested rings have alternating
winding directions) and for every common direction flag, start vertices and closed/unclosed spelling,
`op.Area` is measure(shell) − Σ measure(holes) — no validity needed beyond `HolesFit`. -/
theorem C03_opArea (p : Poly) (ss : List Spell) (hlen : ss.length = p.length)
    (b : Bool) (hb : ∀ s ∈ ss, s.rev = b)
    (halt : Alternating p = true) (hfit : HolesFit p = true) :
    opPolygonArea (respell ss p) = Spec.area p := by
  rw [op_agrees_area]
  let σ : Rat := if b then -1 else 1
  have e3 := sum_map_respell (fun r => shoelace2 r / 2) σ ss p hlen
    (by intro s hs r; simp only [shoelace2_ap, hb s hs, σ]; ring)
  rw [e3, abs_mul, sum_signed_alternating p halt]
  have hσ : |σ| = 1 := by simp only [σ]; split <;> simp
  rw [hσ, one_mul, abs_of_nonneg]
  unfold HolesFit at hfit; exact of_decide_eq_true hfit

example : Alternating exPolyAlt = true ∧ HolesFit exPolyAlt = true := by decide +kernel

/-- **op.Area clause, multi-polygons**: members with alternating winding (each in a common direction
of its own), `HolesFit` each → `op.Area` of the multi-polygon is the sum of shells minus holes. -/
theorem C03_opMArea (mp : MPoly) (sss : List (List Spell))
    (hlen : List.Forall₂ (fun ss p => ss.length = p.length) sss mp)
    (hb : ∀ ss ∈ sss, ∃ b : Bool, ∀ s ∈ ss, s.rev = b)
    (hv : ∀ p ∈ mp, Alternating p = true ∧ HolesFit p = true) :
    opMultiPolygonArea (List.zipWith respell sss mp) = Spec.marea mp := by
  have hmap : (List.zipWith respell sss mp).map opPolygonArea = mp.map Spec.area := by
    induction hlen with
    | nil => rfl
    | @cons ss p sst mpt hl _ ih =>
      simp only [List.zipWith_cons_cons, List.map_cons]
      obtain ⟨b, hbb⟩ := hb ss (by simp)
      rw [C03_opArea p ss hl b hbb (hv p (by simp)).1 (hv p (by simp)).2,
        ih (fun q hq => hb q (by simp [hq])) (fun q hq => hv q (by simp [hq]))]
  unfold opMultiPolygonArea Spec.marea
  rw [hmap, ← sumR_eq_sum, absR_eq_abs, abs_of_nonneg]
  rw [sumR_eq_sum]
  apply list_sum_nonneg
  intro x hx
  rw [List.mem_map] at hx
  obtain ⟨q, hq, rfl⟩ := hx
  have := (hv q hq).2
  unfold HolesFit at this
  exact of_decide_eq_true this

end GeomV.C03
