import GeomV.C03.ProofsScale
import GeomV.C03.ProofsAffine
import Mathlib.Tactic.FieldSimp
/-!
# C03 — the origin guard of the centroids is the identity on the exact model (closed rings)

`Polygon.Centroid`, `op.Centroid` (and `MultiPolygon.Centroid`, see `ProofsMTranslate.lean`) subtract the
first vertex of the first ring from every vertex, run the code below (range guard + loops) on the copy
and add the vertex back (fix "centroids form their moment sums relative to the first vertex": in
absolute coordinates the sums cancel catastrophically for polygons far from the origin relative to their
size).  Here: for EVERY translation `(tx, ty)` the loops are translation equivariant
(`core (p − t) + t = core p`, faults and non-finite results included) —
for `Polygon.Centroid` on every input (it closes unclosed rings itself), for `op.Centroid` on polygons
whose rings are closed (the property's centroid clause speaks of closed rings; on an unclosed ring
`op.Centroid` drops the closing term and what it returns then depends on the origin:
`op_centroid_unclosed_not_equivariant`).  Hence the functions as they are now equal their loops, and the
centroid clauses proved for the loops hold for the functions.
-/
namespace GeomV.C03
open Spec
set_option linter.unusedSimpArgs false

/-- the vertex minus `(tx, ty)` -/
def trPt (tx ty : Rat) (v : P) : P := ⟨v.x - tx, v.y - ty⟩

theorem translateRing_eq_map (tx ty : Rat) (r : Ring) : translateRing tx ty r = r.map (trPt tx ty) := rfl

/-- the translation as an affine map of `ProofsAffine.lean` -/
def trAff (tx ty : Rat) : Aff := ⟨1, 0, 0, 1, -tx, -ty⟩

theorem translateRing_eq_aff (tx ty : Rat) (r : Ring) : translateRing tx ty r = r.map (trAff tx ty).ap := by
  rw [translateRing_eq_map]
  apply List.map_congr_left
  intro v _
  unfold trPt trAff Aff.ap
  congr 1 <;> ring

/-! ### the cyclic sums under translation -/

theorem shoelace2_translate (tx ty : Rat) (r : Ring) : shoelace2 (translateRing tx ty r) = shoelace2 r := by
  rw [translateRing_eq_aff, shoelace2_aff]; simp [trAff, Aff.det]

theorem cyc_cx_translate (tx ty : Rat) (r : Ring) :
    cyc cxF (translateRing tx ty r) = cyc cxF r - 3 * tx * shoelace2 r := by
  rw [← momX_eq', ← momX_eq', translateRing_eq_aff, momX_aff]; simp [trAff, Aff.det]; ring

theorem cyc_cy_translate (tx ty : Rat) (r : Ring) :
    cyc cyF (translateRing tx ty r) = cyc cyF r - 3 * ty * shoelace2 r := by
  rw [← momY_eq', ← momY_eq', translateRing_eq_aff, momY_aff]; simp [trAff, Aff.det]; ring

theorem opRingArea_translate (tx ty : Rat) (r : Ring) : opRingArea (translateRing tx ty r) = opRingArea r := by
  rw [opRingArea_eq, opRingArea_eq, shoelace2_translate]

theorem signedArea_translate (tx ty : Rat) (r : Ring) : signedArea (translateRing tx ty r) = signedArea r := by
  rw [signedArea_eq_op, signedArea_eq_op, opRingArea_translate]

theorem trPt_inj (tx ty : Rat) (a b : P) : trPt tx ty a = trPt tx ty b ↔ a = b := by
  constructor
  · intro h
    have h1 : a.x - tx = b.x - tx := congrArg Pt.x h
    have h2 : a.y - ty = b.y - ty := congrArg Pt.y h
    have hx' : a.x = b.x := by linarith
    have hy' : a.y = b.y := by linarith
    cases a; cases b; simp_all
  · intro h; rw [h]

theorem closeIfOpen_translate (tx ty : Rat) (r : Ring) :
    closeIfOpen (translateRing tx ty r) = (closeIfOpen r).map (translateRing tx ty) := by
  unfold closeIfOpen
  rw [translateRing_eq_map, List.getLast?_map, List.head?_map]
  cases hL : r.getLast? with
  | none => simp [Except.map]
  | some l =>
    cases hH : r.head? with
    | none => simp [Except.map]
    | some h =>
      simp only [Option.map_some, Except.map]
      by_cases e : l = h
      · rw [if_pos e, if_pos ((trPt_inj tx ty l h).mpr e)]; rfl
      · rw [if_neg e, if_neg (fun c => e ((trPt_inj tx ty l h).mp c))]
        simp [translateRing, trPt]

/-- the sums of the loop over the closure `rc` of `r` (what `Polygon.Centroid` sums) shift by
`6 · t · signedarea(r)` -/
theorem pairSum_cx_translate_closed (tx ty : Rat) {r rc : Ring} (h : closeIfOpen r = .ok rc) :
    pairSum cxF (translateRing tx ty rc) = pairSum cxF rc - 6 * tx * signedArea r := by
  have h' : closeIfOpen (translateRing tx ty r) = .ok (translateRing tx ty rc) := by
    rw [closeIfOpen_translate, h]; rfl
  rw [pairSum_closeIfOpen cxF (fun a => by unfold cxF; ring) h',
    pairSum_closeIfOpen cxF (fun a => by unfold cxF; ring) h, cyc_cx_translate, signedArea_eq_op, opRingArea_eq]
  ring

theorem pairSum_cy_translate_closed (tx ty : Rat) {r rc : Ring} (h : closeIfOpen r = .ok rc) :
    pairSum cyF (translateRing tx ty rc) = pairSum cyF rc - 6 * ty * signedArea r := by
  have h' : closeIfOpen (translateRing tx ty r) = .ok (translateRing tx ty rc) := by
    rw [closeIfOpen_translate, h]; rfl
  rw [pairSum_closeIfOpen cyF (fun a => by unfold cyF; ring) h',
    pairSum_closeIfOpen cyF (fun a => by unfold cyF; ring) h, cyc_cy_translate, signedArea_eq_op, opRingArea_eq]
  ring

/-! ### the accumulator under translation -/

/-- the accumulator of the loops on the translated copy -/
def CAcc.tr (tx ty : Rat) (s : CAcc) : CAcc := ⟨s.A, s.xA - tx * s.A, s.yA - ty * s.A, s.nan⟩

/-- one ring: its sums shift by `6 · t · den`, its weight and divisor do not change.  (`w = 0` when
`den = 0` in every caller: the weight is the signed or the hole-signed absolute area, the divisor the
signed area.) -/
theorem CAcc.add_tr (tx ty : Rat) (s : CAcc) (cx cy den w : Rat) (hw : den = 0 → w = 0) :
    (s.tr tx ty).add (cx - 6 * tx * den) (cy - 6 * ty * den) den w = (s.add cx cy den w).tr tx ty := by
  unfold CAcc.add CAcc.tr
  by_cases h : den = 0
  · rw [if_pos h, if_pos h, hw h]
    simp
  · rw [if_neg h, if_neg h]
    simp only [CAcc.mk.injEq, and_true, true_and]
    refine ⟨?_, ?_⟩ <;> field_simp <;> ring

/-- `fdiv (x − t·a) a + t = fdiv x a` (infinities and NaN unchanged) -/
theorem fdiv_tr (x a t : Rat) : (fdiv (x - t * a) a).addFin t = fdiv x a := by
  unfold fdiv
  by_cases h : a = 0
  · rw [if_pos h, if_pos h, h]
    simp only [mul_zero, sub_zero]
    split
    · rfl
    · split <;> rfl
  · rw [if_neg h, if_neg h]
    simp only [FQ.addFin, FQ.fin.injEq]
    field_simp
    ring

theorem finish_tr (tx ty : Rat) (s : CAcc) : unshift tx ty (s.tr tx ty).finish = s.finish := by
  unfold CAcc.finish unshift
  by_cases hn : s.nan = true
  · have : (s.tr tx ty).nan = true := hn
    rw [if_pos hn, if_pos this]; rfl
  · have : ¬ (s.tr tx ty).nan = true := hn
    rw [if_neg hn, if_neg this]
    simp only [CAcc.tr, fdiv_tr]

/-! ### Polygon.Centroid: every input -/

theorem polygonCentroidAcc_translate (tx ty : Rat) (p : Poly) (s : CAcc) :
    polygonCentroidAcc (translatePoly tx ty p) (s.tr tx ty) = (polygonCentroidAcc p s).map (CAcc.tr tx ty) := by
  induction p generalizing s with
  | nil => rfl
  | cons r t ih =>
    have e : translatePoly tx ty (r :: t) = translateRing tx ty r :: translatePoly tx ty t := rfl
    rw [e]
    unfold polygonCentroidAcc
    rw [closeIfOpen_translate, signedArea_translate]
    cases hc : closeIfOpen r with
    | error f => rfl
    | ok rc =>
      simp only [Except.map, bind, Except.bind]
      rw [pairSum_cx_translate_closed tx ty hc, pairSum_cy_translate_closed tx ty hc,
        CAcc.add_tr tx ty s _ _ _ _ (fun h => h), ih]
      rfl

/-- **Translation equivariance of the `Polygon.Centroid` loop**: for every `(tx, ty)`, the loop on the copy
with `(tx, ty)` subtracted from every vertex, plus `(tx, ty)`, is the loop on the original — value,
non-finite outcome or fault; every input (the loop closes unclosed rings itself). -/
theorem polygonCentroidCore_translate (tx ty : Rat) (p : Poly) :
    (polygonCentroidCore (translatePoly tx ty p)).map (unshift tx ty) = polygonCentroidCore p := by
  unfold polygonCentroidCore
  have h0 : CAcc.zero = CAcc.zero.tr tx ty := by simp [CAcc.zero, CAcc.tr]
  rw [h0, polygonCentroidAcc_translate tx ty]
  rw [← h0]
  cases polygonCentroidAcc p CAcc.zero with
  | error f => rfl
  | ok s => simp only [Functor.map, Except.map, finish_tr tx ty]

/-- **`Polygon.Centroid` as it is now (origin guard, range guard, loops) is its loop**, on every input
(exact model). -/
theorem C03_centroid_origin_guard (p : Poly) : polygonCentroid p = polygonCentroidCore p := by
  unfold polygonCentroid
  cases h : centOrigin p with
  | none => exact C03_centroid_guard p
  | some o =>
    obtain ⟨ox, oy⟩ := o
    simp only [C03_centroid_guard]
    exact polygonCentroidCore_translate ox oy p

/-! ### op.Centroid: closed rings -/

/-- every ring is closed (non-empty, last vertex = first vertex): the rings the centroid clause speaks of -/
def AllClosed (p : Poly) : Prop := ∀ r ∈ p, closeIfOpen r = .ok r

instance (p : Poly) : Decidable (AllClosed p) := by unfold AllClosed; infer_instance

theorem opCentroidAcc_translate (tx ty : Rat) (p : Poly) (hc : AllClosed p) (s : CAcc) :
    opCentroidAcc (translatePoly tx ty p) (s.tr tx ty) = (opCentroidAcc p s).tr tx ty := by
  induction p generalizing s with
  | nil => rfl
  | cons r t ih =>
    have e : translatePoly tx ty (r :: t) = translateRing tx ty r :: translatePoly tx ty t := rfl
    rw [e]
    unfold opCentroidAcc
    simp only []
    have hr : closeIfOpen r = .ok r := hc r (by simp)
    rw [opRingArea_translate, pairSum_cx_translate_closed tx ty hr, pairSum_cy_translate_closed tx ty hr,
      signedArea_eq_op, CAcc.add_tr tx ty s _ _ _ _ (fun h => h), ih (fun g hg => hc g (by simp [hg]))]

/-- **Translation equivariance of the `op.Centroid` loop on closed rings.** -/
theorem opCentroidCore_translate (tx ty : Rat) (p : Poly) (hc : AllClosed p) :
    unshift tx ty (opCentroidCore (translatePoly tx ty p)) = opCentroidCore p := by
  unfold opCentroidCore
  have h0 : CAcc.zero = CAcc.zero.tr tx ty := by simp [CAcc.zero, CAcc.tr]
  rw [h0, opCentroidAcc_translate tx ty p hc, ← h0, finish_tr tx ty]

/-- **`op.Centroid` as it is now is its loop** on polygons whose rings are closed (exact model). -/
theorem C03_opCentroid_origin_guard (p : Poly) (hc : AllClosed p) : opCentroid p = opCentroidCore p := by
  unfold opCentroid
  cases h : centOrigin p with
  | none => exact C03_opCentroid_guard p
  | some o =>
    obtain ⟨ox, oy⟩ := o
    simp only [C03_opCentroid_guard]
    exact opCentroidCore_translate ox oy p hc

/-- On an UNCLOSED ring `op.Centroid`'s loop drops the closing term, and what is left depends on the
origin: the unclosed square (1,1)-(3,3) gives (20/9, 16/9), the same square with its first vertex in the
origin (0,0)-(2,2) gives (1, 1/2), not (20/9 − 1, 16/9 − 1).  Outside the statement (closed rings); the
model follows the code (translation first), tied by T1 and the correspondence run. -/
theorem op_centroid_unclosed_not_equivariant :
    opCentroidCore [[⟨1,1⟩, ⟨3,1⟩, ⟨3,3⟩, ⟨1,3⟩]] ≠
      unshift 1 1 (opCentroidCore (translatePoly 1 1 [[⟨1,1⟩, ⟨3,1⟩, ⟨3,3⟩, ⟨1,3⟩]])) ∧
    opCentroid [[⟨1,1⟩, ⟨3,1⟩, ⟨3,3⟩, ⟨1,3⟩]] =
      unshift 1 1 (opCentroidCore [[⟨0,0⟩, ⟨2,0⟩, ⟨2,2⟩, ⟨0,2⟩]]) := by decide +kernel

/-! ### the guard does not fire again on the translated copy -/

/-- the first vertex of the translated copy is the origin: the function's call of itself inside the origin
guard takes the branch below the guard (the reading of T1's extractor) -/
theorem firstVertex_translate (p : Poly) (ox oy : Rat) (h : firstVertex p = (ox, oy)) :
    firstVertex (translatePoly ox oy p) = (0, 0) := by
  match p, h with
  | [], _ => rfl
  | [] :: _, _ => rfl
  | (v :: t) :: rest, h =>
    simp only [firstVertex, Prod.mk.injEq] at h
    simp [translatePoly, translateRing, firstVertex, h.1, h.2]

theorem centOrigin_translate (p : Poly) (ox oy : Rat) (h : centOrigin p = some (ox, oy)) :
    centOrigin (translatePoly ox oy p) = none := by
  have hf : firstVertex p = (ox, oy) := by
    unfold centOrigin at h
    simp only [] at h
    by_cases c : (firstVertex p).1 ≠ 0 ∨ (firstVertex p).2 ≠ 0
    · rw [if_pos c] at h; exact Option.some.inj h
    · rw [if_neg c] at h; exact absurd h (by simp)
  unfold centOrigin
  simp [firstVertex_translate p ox oy hf]

/-! ### the clauses for the functions as they are now -/

/-- **Centroid clause for `Polygon.Centroid` as it is now** (origin guard and range guard included). -/
theorem C03_centroid_valid_now (p : Poly) (ss : List Spell) (hlen : ss.length = p.length)
    (b : Bool) (hb : ∀ s ∈ ss, s.rev = b)
    (hv : ValidPoly p = true) (halt : Alternating p = true)
    (hW : (p.map fun r => shoelace2 r / 2).sum ≠ 0) :
    polygonCentroid (respell ss p) = .ok (.fin (Spec.centroid p).x, .fin (Spec.centroid p).y) := by
  rw [C03_centroid_origin_guard]; exact C03_centroid_valid p ss hlen b hb hv halt hW

/-- `op.Centroid` = `Polygon.Centroid` on closed rings, for the functions as they are now. -/
theorem op_agrees_centroid_now (p : Poly) (hc : AllClosed p) :
    polygonCentroid p = .ok (opCentroid p) := by
  rw [C03_centroid_origin_guard, C03_opCentroid_origin_guard p hc]; exact op_agrees_centroid p hc

/-- non-vacuity: the failing input of finding 9 — the closed 10×10 square with the 2×3 hole translated by
(2^30, 2^30) — is closed, the origin guard fires with the first vertex (2^30, 2^30), and the functions
return the centroid (on the exact model the old sums did too: the defect was rounding) -/
example :
    let p : Poly := translatePoly (-(2:Rat)^30) (-(2:Rat)^30)
      [[⟨0,0⟩, ⟨10,0⟩, ⟨10,10⟩, ⟨0,10⟩, ⟨0,0⟩], [⟨4,4⟩, ⟨4,7⟩, ⟨6,7⟩, ⟨6,4⟩, ⟨4,4⟩]]
    AllClosed p ∧ centOrigin p = some ((2:Rat)^30, (2:Rat)^30) ∧
      polygonCentroid p = .ok (opCentroid p) := by
  decide +kernel

end GeomV.C03
