import GeomV.Common.Geom
/-!
# C03 — specification for `op.Area` / `op.Length` on arbitrary geometries (collections)

Independent of the model.  Core Lean only.  The line strings and the polygons a geometry consists of,
through any nesting of `GeometryCollection`s: `op.Length` must be the sum of the segment lengths of the
line strings (`lineLeaves`), `op.Area` the sum of shells minus holes of the polygons (`polyLeaves`).
-/
namespace GeomV.C03.SpecGC
variable {α : Type}

mutual
/-- the line strings of a geometry, in order (members of multi-line-strings and of collections at any depth) -/
def lineLeaves : Geom α → List (List (Pt α))
  | .lineString l => [l]
  | .multiLineString ls => ls
  | .collection gs => lineLeavesL gs
  | _ => []
def lineLeavesL : List (Geom α) → List (List (Pt α))
  | [] => []
  | g :: gs => lineLeaves g ++ lineLeavesL gs
end

mutual
/-- the polygons of a geometry, in order (members of multi-polygons and of collections at any depth) -/
def polyLeaves : Geom α → List (List (List (Pt α)))
  | .polygon p => [p]
  | .multiPolygon ps => ps
  | .collection gs => polyLeavesL gs
  | _ => []
def polyLeavesL : List (Geom α) → List (List (List (Pt α)))
  | [] => []
  | g :: gs => polyLeaves g ++ polyLeavesL gs
end

end GeomV.C03.SpecGC
