import GeomV.Common.Geom
/-!
# C03 — specification: what "the true measures of the shape" means

Independent of the model (does not import it).  Core Lean only.

Reading of the property (properties.jsonl, C03):
* a ring is a cyclic vertex list; its spelling may start anywhere (`rotN`), run either way
  (`reverse`) and may or may not repeat the first vertex at the end (`closeRing`);
* the measure of a simple ring is `|shoelace| / 2` with the textbook shoelace sum
  `Σ (x_i·y_{i+1} − x_{i+1}·y_i)` (the identification with Lebesgue area is classical and is part
  of the reading, DESIGN §3);
* a valid polygon is a simple shell and simple holes that lie strictly inside the shell, outside
  each other, no two rings touching (`ValidPoly`, decidable);
* Area = measure(shell) − Σ measure(holes); multi-polygon: sum over (disjoint) members;
* Centroid = (Σ w_r·c_r)/(Σ w_r) with `c_r` the ring centroid and `w_r = +measure` for shells and
  `−measure` for holes;
* Length = Σ segment lengths; Distance = minimum over segments of the distance to the segment
  (the minimum over `t ∈ [0,1]` of `|p − (a + t(b−a))|`); Buffer = regular n-gon on the circle.
-/
namespace GeomV.C03.Spec

abbrev P := Pt Rat
abbrev Ring := List P
abbrev Poly := List Ring
abbrev MPoly := List Poly

/-! ## Spellings of a ring -/

def rot1 : List P → List P
  | [] => []
  | a :: t => t ++ [a]

def rotN : Nat → List P → List P
  | 0, r => r
  | k+1, r => rotN k (rot1 r)

def closeRing : Ring → Ring
  | [] => []
  | a :: t => a :: t ++ [a]

/-- one ring's spelling: start vertex offset, direction, closing vertex repeated or not -/
structure Spell where
  rot : Nat
  rev : Bool
  closed : Bool
deriving Repr, DecidableEq

def Spell.ap (s : Spell) (r : Ring) : Ring :=
  let r1 := rotN s.rot r
  let r2 := if s.rev then r1.reverse else r1
  if s.closed then closeRing r2 else r2

/-- spell every ring of a polygon with its own spelling -/
def respell (ss : List Spell) (p : Poly) : Poly := List.zipWith Spell.ap ss p

/-- the ring with a repeated closing vertex removed -/
def openRing (r : Ring) : Ring :=
  if 2 ≤ r.length ∧ r.getLast? = r.head? then r.dropLast else r

/-- consecutive pairs `(v_i, v_{i+1})` -/
def pairs : List P → List (P × P)
  | a :: b :: t => (a, b) :: pairs (b :: t)
  | _ => []

/-- the edges of the closed curve through `r` (open spelling): consecutive pairs and the closing edge -/
def cycPairs : List P → List (P × P)
  | [] => []
  | a :: t => pairs (a :: t ++ [a])

def edges (r : Ring) : List (P × P) := cycPairs (openRing r)

def sumR (l : List Rat) : Rat := l.foldr (· + ·) 0

/-! ## Measure -/

/-- textbook shoelace sum (twice the signed area, positive when counter-clockwise) -/
def shoelace2 (r : Ring) : Rat := sumR ((edges r).map fun e => e.1.x * e.2.y - e.2.x * e.1.y)

def absR (q : Rat) : Rat := if q < 0 then -q else q

def measure (r : Ring) : Rat := absR (shoelace2 r) / 2

/-- area of a polygon given as shell :: holes -/
def area : Poly → Rat
  | [] => 0
  | shell :: holes => measure shell - sumR (holes.map measure)

def marea (mp : MPoly) : Rat := sumR (mp.map area)

/-! ## Centroid -/

/-- first moments of a ring times 6 (signed like `shoelace2`) -/
def momX (r : Ring) : Rat := sumR ((edges r).map fun e => (e.1.x + e.2.x) * (e.1.x * e.2.y - e.2.x * e.1.y))
def momY (r : Ring) : Rat := sumR ((edges r).map fun e => (e.1.y + e.2.y) * (e.1.x * e.2.y - e.2.x * e.1.y))

/-- centroid of the region enclosed by a simple ring (independent of direction and start) -/
def ringCentroid (r : Ring) : P := ⟨momX r / (3 * shoelace2 r), momY r / (3 * shoelace2 r)⟩

/-- weighted mean of ring centroids -/
def wmean (wr : List (Rat × Ring)) : P :=
  let W := sumR (wr.map (·.1))
  ⟨sumR (wr.map fun x => x.1 * (ringCentroid x.2).x) / W, sumR (wr.map fun x => x.1 * (ringCentroid x.2).y) / W⟩

/-- shells weigh `+measure`, holes `−measure` -/
def weights : Poly → List (Rat × Ring)
  | [] => []
  | shell :: holes => (measure shell, shell) :: holes.map fun h => (-(measure h), h)

/-- area-weighted centroid of a polygon with holes / of a multi-polygon -/
def centroid (p : Poly) : P := wmean (weights p)
def mcentroid (mp : MPoly) : P := wmean (mp.flatMap weights)

/-- `Polygon.Centroid` weighs by the *signed* ring areas (its documentation asks for closed,
consistently wound rings); this is the statement's "area-weighted centroid … unchanged by reversing
all rings together". It coincides with `centroid` when every hole is wound against the shell. -/
def centroidSigned (p : Poly) : P := wmean (p.map fun r => (shoelace2 r / 2, r))

/-! ## Point against ring, mathematically (crossing number with the half-open rule) -/

def cross (a b p : P) : Rat := (b.x - a.x) * (p.y - a.y) - (b.y - a.y) * (p.x - a.x)

/-- `p` lies on the closed segment `ab` -/
def onSeg (p a b : P) : Bool :=
  cross a b p == 0 && decide (min a.x b.x ≤ p.x) && decide (p.x ≤ max a.x b.x) &&
  decide (min a.y b.y ≤ p.y) && decide (p.y ≤ max a.y b.y)

/-- the horizontal ray from `p` towards +x crosses segment `ab`, half-open in `y` -/
def crossHO (p a b : P) : Bool :=
  let lo := if a.y ≤ b.y then a else b
  let hi := if a.y ≤ b.y then b else a
  decide (lo.y ≤ p.y) && decide (p.y < hi.y) && decide (0 < cross lo hi p)

inductive Side where
  | outside | inside | onEdge
deriving Repr, DecidableEq

def sideRing (p : P) (r : Ring) : Side :=
  let es := edges r
  if es.any (fun e => onSeg p e.1 e.2) then .onEdge
  else if (es.countP fun e => crossHO p e.1 e.2) % 2 = 1 then .inside else .outside

/-- against several rings: on any edge → `onEdge`, otherwise parity of the rings containing `p` -/
def sideRings (p : P) (rs : Poly) : Side :=
  if rs.any (fun r => sideRing p r == .onEdge) then .onEdge
  else if (rs.countP fun r => sideRing p r == .inside) % 2 = 1 then .inside else .outside

/-! ## Validity -/

/-- closed segments `ab` and `cd` have a common point -/
def segsMeet (a b c d : P) : Bool :=
  let s (q : Rat) : Int := if 0 < q then 1 else if q < 0 then -1 else 0
  (s (cross a b c) * s (cross a b d) < 0 && s (cross c d a) * s (cross c d b) < 0) ||
  onSeg c a b || onSeg d a b || onSeg a c d || onSeg b c d

/-- edges `e`, `f` that follow each other (`e.2 = f.1`) fold back onto each other -/
def foldsBack (e f : P × P) : Bool :=
  cross e.2 e.1 f.2 == 0 && decide (0 < (e.1.x - e.2.x) * (f.2.x - e.2.x) + (e.1.y - e.2.y) * (f.2.y - e.2.y))

/-- no edge meets a non-neighbouring edge; `es` is the cyclic edge list -/
def noCrossing (es : List (P × P)) : Bool :=
  let n := es.length
  (List.range n).all fun i => (List.range n).all fun j =>
    if i < j then
      match es[i]?, es[j]? with
      | some e, some f =>
        if j = i + 1 then !foldsBack e f
        else if i = 0 ∧ j = n - 1 then !foldsBack f e
        else !segsMeet e.1 e.2 f.1 f.2
      | _, _ => true
    else true

/-- simple ring in open spelling: ≥ 3 vertices, no zero-length edge, no self-contact, non-zero area -/
def SimpleRing (r : Ring) : Bool :=
  decide (3 ≤ r.length) && (cycPairs r).all (fun e => e.1 != e.2) && noCrossing (cycPairs r) &&
  shoelace2 r != 0 && decide (r.getLast? ≠ r.head?)

def ringsApart (r s : Ring) : Bool :=
  (cycPairs r).all fun e => (cycPairs s).all fun f => !segsMeet e.1 e.2 f.1 f.2

/-- every vertex of `h` is strictly inside `shell` and outside every ring of `others` -/
def holeOK (shell : Ring) (h : Ring) (others : Poly) : Bool :=
  h.all fun v => sideRing v shell == .inside && others.all fun g => sideRing v g == .outside

def holesOK (shell : Ring) : Poly → Poly → Bool
  | _, [] => true
  | pre, h :: rest => holeOK shell h (pre ++ rest) && holesOK shell (pre ++ [h]) rest

def pairwiseApart : Poly → Bool
  | [] => true
  | r :: rest => rest.all (ringsApart r) && pairwiseApart rest

/-- Valid polygon, written shell :: holes in open spelling. -/
def ValidPoly : Poly → Bool
  | [] => false
  | shell :: holes =>
    (shell :: holes).all SimpleRing && pairwiseApart (shell :: holes) &&
    shell.all (fun v => holes.all fun h => sideRing v h == .outside) &&
    holesOK shell [] holes

/-- The region a polygon denotes does not depend on the order in which its rings are listed (the
even-odd reading does not care; the library's own clipper returns holes before the shell).
`shellFirst p` lists the same rings with the shell first, when one of the rings can play the shell
of a `ValidPoly`. -/
def shellIndex (p : Poly) : Option Nat :=
  (List.range p.length).find? fun i =>
    match p[i]? with
    | some r => ValidPoly (r :: p.eraseIdx i)
    | none => false

/-- ring `i` moved to the front -/
def moveFront (i : Nat) (p : Poly) : Poly :=
  match p[i]? with
  | some r => r :: p.eraseIdx i
  | none => p

def shellFirst (p : Poly) : Option Poly := (shellIndex p).map fun i => moveFront i p

/-- valid polygon in any ring order -/
def ValidAnyOrder (p : Poly) : Bool := (shellFirst p).isSome

/-! ### Rings that touch in single points (valid in the OGC sense)

A hole may touch its shell, and two holes may touch each other, in a single point: the interior stays
connected and the measures are unchanged (a point has no area).  `ValidPolyT` is the decidable class:
simple rings; any two rings have at most ONE point in common and never run along each other; the
touching pairs form no cycle (a cycle of touching rings would enclose a piece of the interior); every
ring has a vertex or an edge middle that lies on no other ring, and those points of a hole are
inside-or-on the shell and outside-or-on the other holes.  (Two simple closed curves with at most one common point do not cross,
so one vertex strictly inside puts the whole hole in the closed shell region — Jordan.) -/

/-- the points two rings have in common, one entry per pair of edges that meet; `none` when two edges
that meet are parallel (they overlap or continue each other: not a single-point touch) -/
def contacts (r s : Ring) : Option (List P) :=
  (cycPairs r).foldl (fun acc e => (cycPairs s).foldl (fun acc f =>
    match acc with
    | none => none
    | some l =>
      if segsMeet e.1 e.2 f.1 f.2 then
        let den := (e.2.x - e.1.x) * (f.2.y - f.1.y) - (e.2.y - e.1.y) * (f.2.x - f.1.x)
        if den == 0 then none else
        let t := ((f.1.x - e.1.x) * (f.2.y - f.1.y) - (f.1.y - e.1.y) * (f.2.x - f.1.x)) / den
        some ((⟨e.1.x + t * (e.2.x - e.1.x), e.1.y + t * (e.2.y - e.1.y)⟩ : P) :: l)
      else some l) acc) (some [])

/-- 0 = apart, 1 = touch in exactly one point, 2 = anything else -/
def touchKind (r s : Ring) : Nat :=
  match contacts r s with
  | none => 2
  | some [] => 0
  | some (c :: t) => if t.all (· == c) then 1 else 2

/-- no pair of rings meets in more than one point, and the touching pairs form a forest
(`comp` = component label of every ring, merged along touching pairs) -/
def touchForest (p : Poly) : Bool :=
  let n := p.length
  let idx := List.range n
  let pairsIJ := idx.flatMap fun i => (idx.filter (i < ·)).map fun j => (i, j)
  let step (st : Option (List Nat)) (ij : Nat × Nat) : Option (List Nat) :=
    match st with
    | none => none
    | some comp =>
      match p[ij.1]?, p[ij.2]? with
      | some r, some s =>
        match touchKind r s with
        | 0 => some comp
        | 1 =>
          let ci := comp.getD ij.1 0; let cj := comp.getD ij.2 0
          if ci == cj then none else some (comp.map fun c => if c == cj then ci else c)
        | _ => none
      | _, _ => none
  (pairsIJ.foldl step (some idx)).isSome

/-- ring `r` against the shell-or-nothing `sh` and the holes `hs`: every vertex and every edge middle is
inside-or-on the shell and outside-or-on every hole, and one of these points strictly so -/
def ringPlacedT (r : Ring) (sh : Option Ring) (hs : Poly) : Bool :=
  let okW (v : P) := (match sh with | some s => sideRing v s != .outside | none => true) &&
    hs.all fun g => sideRing v g != .inside
  let okS (v : P) := (match sh with | some s => sideRing v s == .inside | none => true) &&
    hs.all fun g => sideRing v g == .outside
  -- the vertices and the middles of the edges
  let pts := r ++ (cycPairs r).map fun e => (⟨(e.1.x + e.2.x) / 2, (e.1.y + e.2.y) / 2⟩ : P)
  pts.all okW && pts.any okS

def holesPlacedT (shell : Ring) : Poly → Poly → Bool
  | _, [] => true
  | pre, h :: rest => ringPlacedT h (some shell) (pre ++ rest) && holesPlacedT shell (pre ++ [h]) rest

/-- Valid polygon whose rings may touch in single points, written shell :: holes in open spelling.
(The judge tries `ValidPoly` first and this class second.) -/
def ValidPolyT : Poly → Bool
  | [] => false
  | shell :: holes =>
    (shell :: holes).all SimpleRing && touchForest (shell :: holes) &&
    ringPlacedT shell none holes && holesPlacedT shell [] holes

def shellIndexT (p : Poly) : Option Nat :=
  (List.range p.length).find? fun i =>
    match p[i]? with
    | some r => ValidPolyT (r :: p.eraseIdx i)
    | none => false

/-- the holes do not outweigh the shell (true of every genuinely valid polygon; kept as an explicit
decidable side condition because its derivation from `ValidPoly` is the Jordan-measure argument
that is outside this development) -/
def HolesFit (p : Poly) : Bool := decide (0 ≤ area p)

/-- every hole is wound against the shell -/
def Alternating : Poly → Bool
  | [] => true
  | shell :: holes => holes.all fun h => decide (shoelace2 h * shoelace2 shell < 0)

/-- the polygon a (possibly closed, rotated, reversed) spelling denotes -/
def canon (p : Poly) : Poly := p.map openRing

/-- members do not touch: rings of different members are apart, and no member's shell vertex is on
another member's edge (containment in a hole is allowed) -/
def membersApart : MPoly → Bool
  | [] => true
  | p :: rest => rest.all (fun q => p.all fun r => q.all fun s => ringsApart r s) && membersApart rest

/-- at least one member (the centroid of nothing is undefined), every member valid, members apart -/
def ValidMPoly (mp : MPoly) : Bool := !mp.isEmpty && mp.all ValidPoly && membersApart mp

/-- multi-polygon of valid members, each in any ring order; `none` when some member is not valid -/
def shellFirstM (mp : MPoly) : Option MPoly :=
  match mp.mapM shellFirst with
  | some q => if ValidMPoly q then some q else none
  | none => none

/-! ## Lengths and distances (exact rational bounds; the real-valued statements are in Proofs) -/

def dist2 (a b : P) : Rat := (a.x - b.x) * (a.x - b.x) + (a.y - b.y) * (a.y - b.y)

/-- squared distance from `p` to the point of the line `ab` at parameter `t` -/
def q2 (p a b : P) (t : Rat) : Rat :=
  dist2 p ⟨a.x + t * (b.x - a.x), a.y + t * (b.y - a.y)⟩

/-- the minimiser over `[0,1]`: projection parameter clamped to the segment -/
def tStar (p a b : P) : Rat :=
  let c2 := dist2 a b
  if c2 = 0 then 0 else
    let t := ((p.x - a.x) * (b.x - a.x) + (p.y - a.y) * (b.y - a.y)) / c2
    max 0 (min 1 t)

/-- squared distance from `p` to segment `ab` -/
def segDist2 (p a b : P) : Rat := q2 p a b (tStar p a b)

/-- squared distance from `p` to a line string; `none` when it has no segment -/
def lineDist2 (p : P) (l : List P) : Option Rat :=
  (pairs l).foldl (fun m e => let d := segDist2 p e.1 e.2
                              match m with | none => some d | some x => some (min x d)) none

/-- rational bounds `lo ≤ √q ≤ hi` with `hi − lo ≤ 2^-k · max(1, √q)`-ish -/
def sqrtBounds (q : Rat) (k : Nat := 80) : Rat × Rat :=
  if q ≤ 0 then (0, 0) else
  let n := q.num.toNat * q.den * 4 ^ k
  let s := Nat.sqrt n
  let d : Rat := (q.den * 2 ^ k : Nat)
  ((s : Rat) / d, ((s + 1 : Nat) : Rat) / d)

/-- bounds for the length of a line string -/
def lengthBounds (l : List P) : Rat × Rat :=
  (pairs l).foldl (fun acc e => let b := sqrtBounds (dist2 e.1 e.2); (acc.1 + b.1, acc.2 + b.2)) (0, 0)

end GeomV.C03.Spec
