import GeomV.C03.ProofsScale
/-!
# C03 — homogeneity of `area()` and of the `MultiPolygon.Centroid` loop

The weights of the `MultiPolygon.Centroid` loop go through `area()`, whose hole sign is decided by
within.go's point-in-polygon test.  Here: C02's model of that test (`GeomV.C02.pointInPolygon` with the
bounds of the same rings, i.e. `Model.pip`) answers the same for a point and rings whose X coordinates
are all divided by the same positive `kx` and Y coordinates by the same positive `ky` (`pip_scale`: via
C02's theorem `pointInPolygon_spec`, segment by segment); hence `area()` is homogeneous
(`ringArea_scale`, `C03_area_scale`), the multi-polygon loop is homogeneous
(`multiPolygonCentroidCore_scale`), and the range guard is the identity on the exact model for
`MultiPolygon.Centroid` too (`C03_mcentroid_guard`) — on every input.
-/
namespace GeomV.C03
open Spec
set_option linter.unusedSimpArgs false

def scSeg (kx ky : Rat) (s : P × P) : P × P := (scPt kx ky s.1, scPt kx ky s.2)

/-! ### C02's specification of the point-in-polygon test under scaling -/

theorem c02_pairs_map (f : P → P) (l : List P) :
    C02.Spec.pairs (l.map f) = (C02.Spec.pairs l).map fun s => (f s.1, f s.2) := by
  induction l with
  | nil => rfl
  | cons a t ih =>
    cases t with
    | nil => rfl
    | cons b t' =>
      simp only [List.map_cons, C02.Spec.pairs] at ih ⊢
      rw [ih]

theorem c02_segments_scale (kx ky : Rat) (hx : kx ≠ 0) (hy : ky ≠ 0) (r : Ring) :
    C02.Spec.segments (scaleRing kx ky r) = (C02.Spec.segments r).map (scSeg kx ky) := by
  unfold C02.Spec.segments
  rw [scaleRing_length]
  by_cases h3 : r.length < 3
  · rw [if_pos h3, if_pos h3]; rfl
  · rw [if_neg h3, if_neg h3]
    rw [getLast?_scale, head?_scale]
    cases hH : r.head? with
    | none => rfl
    | some first =>
      cases hL : r.getLast? with
      | none => rfl
      | some last =>
        simp only [Option.map_some, List.map_append]
        rw [scaleRing_eq_map, c02_pairs_map]
        congr 1
        by_cases e : last = first
        · have e' : scPt kx ky last = scPt kx ky first := by rw [e]
          simp [e, e']
        · have e' : scPt kx ky last ≠ scPt kx ky first := fun c => e ((scPt_inj kx ky hx hy _ _).mp c)
          simp [e, e', scSeg]

theorem div_le_div_pos (k : Rat) (hk : 0 < k) (a b : Rat) : a / k ≤ b / k ↔ a ≤ b := by
  constructor
  · intro h
    have := mul_le_mul_of_nonneg_right h (le_of_lt hk)
    rwa [div_mul_cancel₀ _ (ne_of_gt hk), div_mul_cancel₀ _ (ne_of_gt hk)] at this
  · intro h; exact div_le_div_of_nonneg_right h (le_of_lt hk)

theorem div_lt_div_pos (k : Rat) (hk : 0 < k) (a b : Rat) : a / k < b / k ↔ a < b := by
  rw [← not_le, ← not_le, div_le_div_pos k hk]

theorem c02_between_scale (k : Rat) (hk : 0 < k) (u v w : Rat) :
    C02.Spec.between (u / k) (v / k) (w / k) = C02.Spec.between u v w := by
  unfold C02.Spec.between
  simp only [div_le_div_pos k hk]

theorem c02_onSeg_scale (kx ky : Rat) (hx : 0 < kx) (hy : 0 < ky) (p : P) (s : P × P) :
    C02.Spec.onSeg (scPt kx ky p) (scSeg kx ky s) = C02.Spec.onSeg p s := by
  have hxy : kx * ky ≠ 0 := mul_ne_zero (ne_of_gt hx) (ne_of_gt hy)
  unfold C02.Spec.onSeg scSeg scPt
  simp only [c02_between_scale kx hx, c02_between_scale ky hy]
  congr 1
  have e1 : (s.2.x / kx - s.1.x / kx) * (p.y / ky - s.1.y / ky) = (s.2.x - s.1.x) * (p.y - s.1.y) / (kx * ky) := by ring
  have e2 : (s.2.y / ky - s.1.y / ky) * (p.x / kx - s.1.x / kx) = (s.2.y - s.1.y) * (p.x - s.1.x) / (kx * ky) := by ring
  rw [e1, e2]
  simp only [div_left_inj' hxy]

theorem c02_crossHO_scale (kx ky : Rat) (hx : 0 < kx) (hy : 0 < ky) (p : P) (s : P × P) :
    C02.Spec.crossHO (scPt kx ky p) (scSeg kx ky s) = C02.Spec.crossHO p s := by
  have hx0 : kx ≠ 0 := ne_of_gt hx
  have hy0 : ky ≠ 0 := ne_of_gt hy
  unfold C02.Spec.crossHO
  have hlo : (if (scSeg kx ky s).1.y ≤ (scSeg kx ky s).2.y then (scSeg kx ky s).1 else (scSeg kx ky s).2)
      = scPt kx ky (if s.1.y ≤ s.2.y then s.1 else s.2) := by
    simp only [scSeg, scPt, div_le_div_pos ky hy]; split <;> rfl
  have hhi : (if (scSeg kx ky s).1.y ≤ (scSeg kx ky s).2.y then (scSeg kx ky s).2 else (scSeg kx ky s).1)
      = scPt kx ky (if s.1.y ≤ s.2.y then s.2 else s.1) := by
    simp only [scSeg, scPt, div_le_div_pos ky hy]; split <;> rfl
  simp only [hlo, hhi]
  generalize (if s.1.y ≤ s.2.y then s.1 else s.2) = lo
  generalize (if s.1.y ≤ s.2.y then s.2 else s.1) = hi
  simp only [scPt, div_le_div_pos ky hy, div_lt_div_pos ky hy]
  congr 2
  have e : lo.x / kx + (p.y / ky - lo.y / ky) * (hi.x / kx - lo.x / kx) / (hi.y / ky - lo.y / ky)
      = (lo.x + (p.y - lo.y) * (hi.x - lo.x) / (hi.y - lo.y)) / kx := by
    have e0 : hi.y / ky - lo.y / ky = (hi.y - lo.y) / ky := by ring
    rw [e0]
    by_cases hc : hi.y - lo.y = 0
    · rw [hc]; simp
    · field_simp
  rw [e, div_lt_div_pos kx hx]

theorem c02_flatMap_segments_scale (kx ky : Rat) (hx : kx ≠ 0) (hy : ky ≠ 0) (rings : Poly) :
    (scalePoly kx ky rings).flatMap C02.Spec.segments = (rings.flatMap C02.Spec.segments).map (scSeg kx ky) := by
  induction rings with
  | nil => rfl
  | cons r t ih =>
    have e : scalePoly kx ky (r :: t) = scaleRing kx ky r :: scalePoly kx ky t := rfl
    rw [e, List.flatMap_cons, List.flatMap_cons, List.map_append, ih, c02_segments_scale kx ky hx hy]

theorem ringsVerdict_scale (kx ky : Rat) (hx : 0 < kx) (hy : 0 < ky) (pt : P) (rings : Poly) (b : Bool) :
    C02.ringsVerdict (scPt kx ky pt) (scalePoly kx ky rings) b = C02.ringsVerdict pt rings b := by
  unfold C02.ringsVerdict
  rw [c02_flatMap_segments_scale kx ky (ne_of_gt hx) (ne_of_gt hy), List.any_map, List.countP_map]
  have h1 : (C02.Spec.onSeg (scPt kx ky pt) ∘ scSeg kx ky) = C02.Spec.onSeg pt := by
    funext s; exact c02_onSeg_scale kx ky hx hy pt s
  have h2 : (C02.Spec.crossHO (scPt kx ky pt) ∘ scSeg kx ky) = C02.Spec.crossHO pt := by
    funext s; exact c02_crossHO_scale kx ky hx hy pt s
  rw [h1, h2]

/-- **within.go's point-in-polygon test (C02's model) is invariant under positive scaling** of the
point and the rings together, each axis by its own factor — every point, every list of rings, every
`kx, ky > 0`. -/
theorem pip_scale (kx ky : Rat) (hx : 0 < kx) (hy : 0 < ky) (pt : P) (rings : Poly) :
    pip (scPt kx ky pt) (scalePoly kx ky rings) = pip pt rings := by
  rw [pip_eq, pip_eq, ringsVerdict_scale kx ky hx hy]

/-! ### `area()` under scaling -/

theorem mid_scale (kx ky : Rat) (a b : P) : mid (scPt kx ky a) (scPt kx ky b) = scPt kx ky (mid a b) := by
  unfold mid scPt
  congr 1 <;> ring

theorem midsAux_scale (kx ky : Rat) (f : P) (l : List P) :
    midsAux (scPt kx ky f) (l.map (scPt kx ky)) = (midsAux f l).map (scPt kx ky) := by
  induction l with
  | nil => rfl
  | cons x t ih =>
    cases t with
    | nil => simp [midsAux, mid_scale]
    | cons y t' =>
      simp only [List.map_cons, midsAux] at ih ⊢
      rw [ih, mid_scale]

theorem edgeMids_scale (kx ky : Rat) (r : Ring) :
    edgeMids (scaleRing kx ky r) = scaleRing kx ky (edgeMids r) := by
  cases r with
  | nil => rfl
  | cons a t =>
    rw [scaleRing_eq_map, scaleRing_eq_map]
    show midsAux (scPt kx ky a) ((a :: t).map (scPt kx ky)) = _
    rw [midsAux_scale]; rfl

theorem firstDecisive_scale (kx ky : Rat) (hx : 0 < kx) (hy : 0 < ky) (others : Poly) (l : List P) :
    firstDecisive (scalePoly kx ky others) (l.map (scPt kx ky)) = firstDecisive others l := by
  induction l with
  | nil => rfl
  | cons v t ih =>
    simp only [List.map_cons, firstDecisive]
    rw [pip_scale kx ky hx hy, ih]

theorem absR_nonneg (q : Rat) : 0 ≤ absR q := by rw [absR_eq_abs]; exact abs_nonneg q

theorem similar_zero (a b : Rat) : similar a b 0 = false := by
  unfold similar
  simp only [decide_eq_false_iff_not, not_lt]
  exact absR_nonneg _

theorem pointsSimilar_zero_scale (kx ky : Rat) (r g : Ring) :
    pointsSimilar 0 (scaleRing kx ky r) (scaleRing kx ky g) = pointsSimilar 0 r g := by
  cases r with
  | nil => cases g <;> rfl
  | cons a t =>
    cases g with
    | nil => rfl
    | cons b u =>
      simp [scaleRing, pointsSimilar, similar_zero]

theorem absR_div_pos (c : Rat) (hc : 0 < c) (q : Rat) : absR (q / c) = absR q / c := by
  rw [absR_eq_abs, absR_eq_abs, abs_div, abs_of_pos hc]

/-- **`area(r, i, p, bounds)` is homogeneous**: every ring, every list of other rings, every
`kx, ky > 0` — the hole decision (vertices, edge middles, identical-ring fallback) is the same on the
scaled copy, the value is divided by `kx · ky`. -/
theorem ringArea_scale (kx ky : Rat) (hx : 0 < kx) (hy : 0 < ky) (single : Bool) (r : Ring) (others : Poly) :
    ringArea single (scaleRing kx ky r) (scalePoly kx ky others) = ringArea single r others / (kx * ky) := by
  have hx0 : kx ≠ 0 := ne_of_gt hx
  have hy0 : ky ≠ 0 := ne_of_gt hy
  have hxy : 0 < kx * ky := by positivity
  unfold ringArea
  rw [scaleRing_length]
  by_cases hl : r.length < 2
  · rw [if_pos hl, if_pos hl]; simp
  · rw [if_neg hl, if_neg hl]
    simp only []
    rw [goCyc_shoeF_scale kx ky hx0 hy0]
    have hA : absR (goCyc shoeF r / (kx * ky) / 2) = absR (goCyc shoeF r / 2) / (kx * ky) := by
      rw [← absR_div_pos _ hxy]; congr 1; ring
    rw [hA]
    cases single with
    | true => simp
    | false =>
      simp only [Bool.false_eq_true, if_false]
      have hpts : scaleRing kx ky r ++ edgeMids (scaleRing kx ky r) = (r ++ edgeMids r).map (scPt kx ky) := by
        rw [edgeMids_scale, scaleRing_eq_map, scaleRing_eq_map, List.map_append]
      rw [hpts, firstDecisive_scale kx ky hx hy]
      have hm : ((scalePoly kx ky others).filter (pointsSimilar 0 (scaleRing kx ky r))).length
          = (others.filter (pointsSimilar 0 r)).length := by
        unfold scalePoly
        rw [List.filter_map, List.length_map]
        congr 2
        funext g
        exact pointsSimilar_zero_scale kx ky r g
      rw [hm]
      cases firstDecisive others (r ++ edgeMids r) with
      | none => simp only []; split <;> ring
      | some s => cases s <;> simp only [] <;> ring

theorem scalePoly_append (kx ky : Rat) (a b : Poly) :
    scalePoly kx ky (a ++ b) = scalePoly kx ky a ++ scalePoly kx ky b := by
  simp [scalePoly]

theorem withOthers_scale (kx ky : Rat) (rest : Poly) : ∀ pre : Poly,
    withOthers (scalePoly kx ky pre) (scalePoly kx ky rest)
      = (withOthers pre rest).map fun ro => (scaleRing kx ky ro.1, scalePoly kx ky ro.2) := by
  induction rest with
  | nil => intro pre; rfl
  | cons r t ih =>
    intro pre
    have e : scalePoly kx ky (r :: t) = scaleRing kx ky r :: scalePoly kx ky t := rfl
    rw [e]
    simp only [withOthers, List.map_cons]
    have e2 : scalePoly kx ky pre ++ [scaleRing kx ky r] = scalePoly kx ky (pre ++ [r]) := by
      rw [scalePoly_append]; rfl
    rw [e2, ih, scalePoly_append]

theorem scalePoly_length (kx ky : Rat) (p : Poly) : (scalePoly kx ky p).length = p.length := by
  simp [scalePoly]

theorem sum_div (l : List Rat) (c : Rat) : (l.map (· / c)).sum = l.sum / c := by
  induction l with
  | nil => simp
  | cons a t ih => simp only [List.map_cons, List.sum_cons, ih]; ring

/-- **`Polygon.Area` is homogeneous** on the exact model, every input, every `kx, ky > 0`. -/
theorem C03_area_scale (kx ky : Rat) (hx : 0 < kx) (hy : 0 < ky) (p : Poly) :
    polygonArea (scalePoly kx ky p) = polygonArea p / (kx * ky) := by
  unfold polygonArea
  have h0 : withOthers [] (scalePoly kx ky p) = withOthers (scalePoly kx ky []) (scalePoly kx ky p) := rfl
  rw [h0, withOthers_scale, List.map_map, scalePoly_length, ← sum_div, List.map_map]
  congr 1
  apply List.map_congr_left
  intro ro _
  simp only [Function.comp]
  exact ringArea_scale kx ky hx hy _ ro.1 ro.2

/-! ### the `MultiPolygon.Centroid` loop -/

theorem mpCentroidRings_scale (kx ky : Rat) (hx : 0 < kx) (hy : 0 < ky) (single : Bool)
    (l : List (Ring × Poly)) (s : CAcc) :
    mpCentroidRings single (l.map fun ro => (scaleRing kx ky ro.1, scalePoly kx ky ro.2)) (s.sc kx ky)
      = (mpCentroidRings single l s).sc kx ky := by
  have hx0 : kx ≠ 0 := ne_of_gt hx
  have hy0 : ky ≠ 0 := ne_of_gt hy
  induction l generalizing s with
  | nil => rfl
  | cons ro t ih =>
    obtain ⟨r, others⟩ := ro
    simp only [List.map_cons, mpCentroidRings]
    rw [pairSum_cx_scale kx ky hx0 hy0, pairSum_cy_scale kx ky hx0 hy0,
      signedArea_scale kx ky hx0 hy0, ringArea_scale kx ky hx hy, CAcc.add_sc kx ky hx0 hy0, ih]

theorem mpCentroidAcc_scale (kx ky : Rat) (hx : 0 < kx) (hy : 0 < ky) (mp : MPoly) (s : CAcc) :
    mpCentroidAcc (mp.map (scalePoly kx ky)) (s.sc kx ky) = (mpCentroidAcc mp s).sc kx ky := by
  induction mp generalizing s with
  | nil => rfl
  | cons p t ih =>
    simp only [List.map_cons, mpCentroidAcc]
    have h0 : withOthers [] (scalePoly kx ky p) = withOthers (scalePoly kx ky []) (scalePoly kx ky p) := rfl
    rw [h0, withOthers_scale, scalePoly_length, mpCentroidRings_scale kx ky hx hy, ih]

/-- **Homogeneity of the `MultiPolygon.Centroid` loop**: for every positive `kx`, `ky`, the loop on the
copy with X divided by `kx` and Y by `ky`, multiplied back, is the loop on the original — values and
non-finite outcomes alike; the weights `area(r, i, p, b)` included (their hole decision is scale
invariant, `pip_scale`). -/
theorem multiPolygonCentroidCore_scale (kx ky : Rat) (hx : 0 < kx) (hy : 0 < ky) (mp : MPoly) :
    unscale kx ky (multiPolygonCentroidCore (mp.map (scalePoly kx ky))) = multiPolygonCentroidCore mp := by
  unfold multiPolygonCentroidCore
  have h0 : CAcc.zero = CAcc.zero.sc kx ky := by simp [CAcc.zero, CAcc.sc]
  rw [h0, mpCentroidAcc_scale kx ky hx hy, ← h0, finish_sc kx ky hx hy]

/-- **`MultiPolygon.Centroid` with its range guard is its loop**, on every input (exact model). -/
theorem C03_mcentroid_guard (mp : MPoly) : multiPolygonCentroidScaled mp = multiPolygonCentroidCore mp := by
  unfold multiPolygonCentroidScaled
  cases h : centScale mp.flatten with
  | none => rfl
  | some k =>
    obtain ⟨kx, ky⟩ := k
    exact multiPolygonCentroidCore_scale kx ky (centScale_pos h).1 (centScale_pos h).2 mp

/-- **Centroid clause for `MultiPolygon.Centroid` as it is now** (range guard included, rescaled
branch too): `C03_mcentroid` for the guarded function, no in-range hypothesis. -/
theorem C03_mcentroid_guarded_all (mp : MPoly) (sss : List (List Spell))
    (hlen : List.Forall₂ (fun ss p => ss.length = p.length) sss mp)
    (hclosed : ∀ ss ∈ sss, ∀ s ∈ ss, s.closed = true)
    (hv : ∀ p ∈ mp, ValidPoly p = true)
    (hW : ((mp.flatMap weights).map (·.1)).sum ≠ 0) :
    multiPolygonCentroidScaled (List.zipWith respell sss mp) = (.fin (mcentroid mp).x, .fin (mcentroid mp).y) := by
  rw [C03_mcentroid_guard]; exact C03_mcentroid mp sss hlen hclosed hv hW

/-- non-vacuity: the guard fires on the two-member example with Y multiplied by 2^400 (all rings closed) -/
example : (centScale ((List.zipWith respell exMSpell exMP).map (scalePoly 1 (1 / 2 ^ 400))).flatten).isSome = true := by
  decide +kernel

end GeomV.C03
