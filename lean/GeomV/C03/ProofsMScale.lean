import GeomV.C03.ProofsScale
/-!
# C03 — homogeneity of `area()` and of the `MultiPolygon.Centroid` loop

The weights of the `MultiPolygon.Centroid` loop go through `area()`, whose hole sign is decided by
within.go's point-in-polygon test.  Here: C02's model of that test (`GeomV.C02.pointInPolygon` with the
bounds of the same rings, i.e. `Model.pip`) answers the same for a point and rings that are all divided
by the same positive `k` (`pip_scale`: via C02's theorem `pointInPolygon_spec`, segment by segment);
hence `area()` is homogeneous of degree 2 (`ringArea_scale`, `C03_area_scale`), the multi-polygon loop
is homogeneous (`multiPolygonCentroidCore_scale`), and the range guard of fix 4edcec2 is the identity on
the exact model for `MultiPolygon.Centroid` too (`C03_mcentroid_guard`) — on every input.
-/
namespace GeomV.C03
open Spec
set_option linter.unusedSimpArgs false

/-- a point divided by `k` -/
def scPt (k : Rat) (v : P) : P := ⟨v.x / k, v.y / k⟩
def scSeg (k : Rat) (s : P × P) : P × P := (scPt k s.1, scPt k s.2)

theorem scaleRing_eq_map (k : Rat) (r : Ring) : scaleRing k r = r.map (scPt k) := rfl

theorem scPt_inj (k : Rat) (hk : k ≠ 0) (a b : P) : scPt k a = scPt k b ↔ a = b :=
  scalePt_inj k hk a b

/-! ### C02's specification of the point-in-polygon test under scaling -/

theorem c02_pairs_map (f : P → P) (l : List P) :
    C02.Spec.pairs (l.map f) = (C02.Spec.pairs l).map fun s => (f s.1, f s.2) := by
  induction l with
  | nil => rfl
  | cons a t ih =>
    cases t with
    | nil => rfl
    | cons b t' =>
      simp only [List.map_cons, C02.Spec.pairs] at ih ⊢
      rw [ih]

theorem c02_segments_scale (k : Rat) (hk : k ≠ 0) (r : Ring) :
    C02.Spec.segments (scaleRing k r) = (C02.Spec.segments r).map (scSeg k) := by
  unfold C02.Spec.segments
  rw [scaleRing_length]
  by_cases h3 : r.length < 3
  · rw [if_pos h3, if_pos h3]; rfl
  · rw [if_neg h3, if_neg h3]
    have hl : (scaleRing k r).getLast? = r.getLast?.map (scPt k) := by
      rw [scaleRing_eq_map, List.getLast?_map]
    have hh : (scaleRing k r).head? = r.head?.map (scPt k) := by
      rw [scaleRing_eq_map, List.head?_map]
    rw [hl, hh]
    cases hH : r.head? with
    | none => rfl
    | some first =>
      cases hL : r.getLast? with
      | none => rfl
      | some last =>
        simp only [Option.map_some, List.map_append]
        rw [scaleRing_eq_map, c02_pairs_map]
        congr 1
        by_cases e : last = first
        · have e' : scPt k last = scPt k first := by rw [e]
          simp [e, e']
        · have e' : scPt k last ≠ scPt k first := fun c => e ((scPt_inj k hk _ _).mp c)
          simp [e, e', scSeg]

theorem div_le_div_pos (k : Rat) (hk : 0 < k) (a b : Rat) : a / k ≤ b / k ↔ a ≤ b := by
  constructor
  · intro h
    have := mul_le_mul_of_nonneg_right h (le_of_lt hk)
    rwa [div_mul_cancel₀ _ (ne_of_gt hk), div_mul_cancel₀ _ (ne_of_gt hk)] at this
  · intro h; exact div_le_div_of_nonneg_right h (le_of_lt hk)

theorem div_lt_div_pos (k : Rat) (hk : 0 < k) (a b : Rat) : a / k < b / k ↔ a < b := by
  rw [← not_le, ← not_le, div_le_div_pos k hk]

theorem c02_between_scale (k : Rat) (hk : 0 < k) (u v w : Rat) :
    C02.Spec.between (u / k) (v / k) (w / k) = C02.Spec.between u v w := by
  unfold C02.Spec.between
  simp only [div_le_div_pos k hk]

theorem c02_onSeg_scale (k : Rat) (hk : 0 < k) (p : P) (s : P × P) :
    C02.Spec.onSeg (scPt k p) (scSeg k s) = C02.Spec.onSeg p s := by
  have hk0 : k ≠ 0 := ne_of_gt hk
  have hk2 : k ^ 2 ≠ 0 := pow_ne_zero 2 hk0
  unfold C02.Spec.onSeg scSeg scPt
  simp only [c02_between_scale k hk]
  congr 1
  have e1 : (s.2.x / k - s.1.x / k) * (p.y / k - s.1.y / k) = (s.2.x - s.1.x) * (p.y - s.1.y) / k ^ 2 := by ring
  have e2 : (s.2.y / k - s.1.y / k) * (p.x / k - s.1.x / k) = (s.2.y - s.1.y) * (p.x - s.1.x) / k ^ 2 := by ring
  rw [e1, e2]
  simp only [div_left_inj' hk2]

theorem c02_crossHO_scale (k : Rat) (hk : 0 < k) (p : P) (s : P × P) :
    C02.Spec.crossHO (scPt k p) (scSeg k s) = C02.Spec.crossHO p s := by
  have hk0 : k ≠ 0 := ne_of_gt hk
  unfold C02.Spec.crossHO
  have hlo : (if (scSeg k s).1.y ≤ (scSeg k s).2.y then (scSeg k s).1 else (scSeg k s).2)
      = scPt k (if s.1.y ≤ s.2.y then s.1 else s.2) := by
    simp only [scSeg, scPt, div_le_div_pos k hk]; split <;> rfl
  have hhi : (if (scSeg k s).1.y ≤ (scSeg k s).2.y then (scSeg k s).2 else (scSeg k s).1)
      = scPt k (if s.1.y ≤ s.2.y then s.2 else s.1) := by
    simp only [scSeg, scPt, div_le_div_pos k hk]; split <;> rfl
  simp only [hlo, hhi]
  generalize (if s.1.y ≤ s.2.y then s.1 else s.2) = lo
  generalize (if s.1.y ≤ s.2.y then s.2 else s.1) = hi
  simp only [scPt, div_le_div_pos k hk, div_lt_div_pos k hk]
  congr 2
  have e : lo.x / k + (p.y / k - lo.y / k) * (hi.x / k - lo.x / k) / (hi.y / k - lo.y / k)
      = (lo.x + (p.y - lo.y) * (hi.x - lo.x) / (hi.y - lo.y)) / k := by
    have e0 : hi.y / k - lo.y / k = (hi.y - lo.y) / k := by ring
    rw [e0]
    by_cases hc : hi.y - lo.y = 0
    · rw [hc]; simp
    · field_simp
  rw [e, div_lt_div_pos k hk]

theorem c02_flatMap_segments_scale (k : Rat) (hk : k ≠ 0) (rings : Poly) :
    (scalePoly k rings).flatMap C02.Spec.segments = (rings.flatMap C02.Spec.segments).map (scSeg k) := by
  induction rings with
  | nil => rfl
  | cons r t ih =>
    have e : scalePoly k (r :: t) = scaleRing k r :: scalePoly k t := rfl
    rw [e, List.flatMap_cons, List.flatMap_cons, List.map_append, ih, c02_segments_scale k hk]

theorem ringsVerdict_scale (k : Rat) (hk : 0 < k) (pt : P) (rings : Poly) (b : Bool) :
    C02.ringsVerdict (scPt k pt) (scalePoly k rings) b = C02.ringsVerdict pt rings b := by
  unfold C02.ringsVerdict
  rw [c02_flatMap_segments_scale k (ne_of_gt hk), List.any_map, List.countP_map]
  have h1 : (C02.Spec.onSeg (scPt k pt) ∘ scSeg k) = C02.Spec.onSeg pt := by
    funext s; exact c02_onSeg_scale k hk pt s
  have h2 : (C02.Spec.crossHO (scPt k pt) ∘ scSeg k) = C02.Spec.crossHO pt := by
    funext s; exact c02_crossHO_scale k hk pt s
  rw [h1, h2]

/-- **within.go's point-in-polygon test (C02's model) is invariant under positive scaling** of the
point and the rings together — every point, every list of rings, every `k > 0`. -/
theorem pip_scale (k : Rat) (hk : 0 < k) (pt : P) (rings : Poly) :
    pip (scPt k pt) (scalePoly k rings) = pip pt rings := by
  rw [pip_eq, pip_eq, ringsVerdict_scale k hk]

/-! ### `area()` under scaling -/

theorem mid_scale (k : Rat) (a b : P) : mid (scPt k a) (scPt k b) = scPt k (mid a b) := by
  unfold mid scPt
  congr 1 <;> ring

theorem midsAux_scale (k : Rat) (f : P) (l : List P) :
    midsAux (scPt k f) (l.map (scPt k)) = (midsAux f l).map (scPt k) := by
  induction l with
  | nil => rfl
  | cons x t ih =>
    cases t with
    | nil => simp [midsAux, mid_scale]
    | cons y t' =>
      simp only [List.map_cons, midsAux] at ih ⊢
      rw [ih, mid_scale]

theorem edgeMids_scale (k : Rat) (r : Ring) : edgeMids (scaleRing k r) = scaleRing k (edgeMids r) := by
  cases r with
  | nil => rfl
  | cons a t =>
    rw [scaleRing_eq_map, scaleRing_eq_map]
    show midsAux (scPt k a) ((a :: t).map (scPt k)) = _
    rw [midsAux_scale]; rfl

theorem firstDecisive_scale (k : Rat) (hk : 0 < k) (others : Poly) (l : List P) :
    firstDecisive (scalePoly k others) (l.map (scPt k)) = firstDecisive others l := by
  induction l with
  | nil => rfl
  | cons v t ih =>
    simp only [List.map_cons, firstDecisive]
    rw [pip_scale k hk, ih]

theorem absR_nonneg (q : Rat) : 0 ≤ absR q := by rw [absR_eq_abs]; exact abs_nonneg q

theorem similar_zero (a b : Rat) : similar a b 0 = false := by
  unfold similar
  simp only [decide_eq_false_iff_not, not_lt]
  exact absR_nonneg _

theorem pointsSimilar_zero_scale (k : Rat) (r g : Ring) :
    pointsSimilar 0 (scaleRing k r) (scaleRing k g) = pointsSimilar 0 r g := by
  cases r with
  | nil => cases g <;> rfl
  | cons a t =>
    cases g with
    | nil => rfl
    | cons b u =>
      simp [scaleRing, pointsSimilar, similar_zero]

theorem absR_div_sq (k : Rat) (hk : k ≠ 0) (q : Rat) : absR (q / k ^ 2) = absR q / k ^ 2 := by
  have h2 : 0 < k ^ 2 := by positivity
  rw [absR_eq_abs, absR_eq_abs, abs_div, abs_of_pos h2]

/-- **`area(r, i, p, bounds)` is homogeneous of degree 2**: every ring, every list of other rings,
every `k > 0` — the hole decision (vertices, edge middles, identical-ring fallback) is the same on the
scaled copy. -/
theorem ringArea_scale (k : Rat) (hk : 0 < k) (single : Bool) (r : Ring) (others : Poly) :
    ringArea single (scaleRing k r) (scalePoly k others) = ringArea single r others / k ^ 2 := by
  have hk0 : k ≠ 0 := ne_of_gt hk
  unfold ringArea
  rw [scaleRing_length]
  by_cases hl : r.length < 2
  · rw [if_pos hl, if_pos hl]; simp
  · rw [if_neg hl, if_neg hl]
    simp only []
    rw [goCyc_shoeF_scale k hk0]
    have hA : absR (goCyc shoeF r / k ^ 2 / 2) = absR (goCyc shoeF r / 2) / k ^ 2 := by
      rw [← absR_div_sq k hk0]; congr 1; ring
    rw [hA]
    cases single with
    | true => simp
    | false =>
      simp only [Bool.false_eq_true, if_false]
      have hpts : scaleRing k r ++ edgeMids (scaleRing k r) = (r ++ edgeMids r).map (scPt k) := by
        rw [edgeMids_scale, scaleRing_eq_map, scaleRing_eq_map, List.map_append]
      rw [hpts, firstDecisive_scale k hk]
      have hm : ((scalePoly k others).filter (pointsSimilar 0 (scaleRing k r))).length
          = (others.filter (pointsSimilar 0 r)).length := by
        unfold scalePoly
        rw [List.filter_map, List.length_map]
        congr 2
        funext g
        exact pointsSimilar_zero_scale k r g
      rw [hm]
      cases firstDecisive others (r ++ edgeMids r) with
      | none => simp only []; split <;> ring
      | some s => cases s <;> simp only [] <;> ring

theorem scalePoly_append (k : Rat) (a b : Poly) : scalePoly k (a ++ b) = scalePoly k a ++ scalePoly k b := by
  simp [scalePoly]

theorem withOthers_scale (k : Rat) (rest : Poly) : ∀ pre : Poly,
    withOthers (scalePoly k pre) (scalePoly k rest)
      = (withOthers pre rest).map fun ro => (scaleRing k ro.1, scalePoly k ro.2) := by
  induction rest with
  | nil => intro pre; rfl
  | cons r t ih =>
    intro pre
    have e : scalePoly k (r :: t) = scaleRing k r :: scalePoly k t := rfl
    rw [e]
    simp only [withOthers, List.map_cons]
    have e2 : scalePoly k pre ++ [scaleRing k r] = scalePoly k (pre ++ [r]) := by
      rw [scalePoly_append]; rfl
    rw [e2, ih, scalePoly_append]

theorem scalePoly_length (k : Rat) (p : Poly) : (scalePoly k p).length = p.length := by
  simp [scalePoly]

theorem sum_div (l : List Rat) (c : Rat) : (l.map (· / c)).sum = l.sum / c := by
  induction l with
  | nil => simp
  | cons a t ih => simp only [List.map_cons, List.sum_cons, ih]; ring

/-- **`Polygon.Area` is homogeneous of degree 2** on the exact model, every input, every `k > 0`. -/
theorem C03_area_scale (k : Rat) (hk : 0 < k) (p : Poly) :
    polygonArea (scalePoly k p) = polygonArea p / k ^ 2 := by
  unfold polygonArea
  have h0 : withOthers [] (scalePoly k p) = withOthers (scalePoly k []) (scalePoly k p) := rfl
  rw [h0, withOthers_scale, List.map_map, scalePoly_length, ← sum_div, List.map_map]
  congr 1
  apply List.map_congr_left
  intro ro _
  simp only [Function.comp]
  exact ringArea_scale k hk _ ro.1 ro.2

/-! ### the `MultiPolygon.Centroid` loop -/

theorem pairSum_scale3' (f : P → P → Rat) (k : Rat)
    (hf : ∀ a b : P, f ⟨a.x / k, a.y / k⟩ ⟨b.x / k, b.y / k⟩ = f a b / k ^ 3) (l : List P) :
    pairSum f (scaleRing k l) = pairSum f l / k ^ 3 := pairSum_scale3 f k hf l

theorem mpCentroidRings_scale (k : Rat) (hk : 0 < k) (single : Bool) (l : List (Ring × Poly)) (s : CAcc) :
    mpCentroidRings single (l.map fun ro => (scaleRing k ro.1, scalePoly k ro.2)) (s.sc k)
      = (mpCentroidRings single l s).sc k := by
  have hk0 : k ≠ 0 := ne_of_gt hk
  induction l generalizing s with
  | nil => rfl
  | cons ro t ih =>
    obtain ⟨r, others⟩ := ro
    simp only [List.map_cons, mpCentroidRings]
    rw [pairSum_scale3 cxF k (cxF_scale k hk0), pairSum_scale3 cyF k (cyF_scale k hk0),
      signedArea_scale k hk0, ringArea_scale k hk, CAcc.add_sc k hk0, ih]

theorem mpCentroidAcc_scale (k : Rat) (hk : 0 < k) (mp : MPoly) (s : CAcc) :
    mpCentroidAcc (mp.map (scalePoly k)) (s.sc k) = (mpCentroidAcc mp s).sc k := by
  induction mp generalizing s with
  | nil => rfl
  | cons p t ih =>
    simp only [List.map_cons, mpCentroidAcc]
    have h0 : withOthers [] (scalePoly k p) = withOthers (scalePoly k []) (scalePoly k p) := rfl
    rw [h0, withOthers_scale, scalePoly_length, mpCentroidRings_scale k hk, ih]

/-- **Homogeneity of the `MultiPolygon.Centroid` loop**: for every positive `k`, the loop on the copy
divided by `k`, multiplied back, is the loop on the original — values and non-finite outcomes alike;
the weights `area(r, i, p, b)` included (their hole decision is scale invariant, `pip_scale`). -/
theorem multiPolygonCentroidCore_scale (k : Rat) (hk : 0 < k) (mp : MPoly) :
    unscale k (multiPolygonCentroidCore (mp.map (scalePoly k))) = multiPolygonCentroidCore mp := by
  unfold multiPolygonCentroidCore
  have h0 : CAcc.zero = CAcc.zero.sc k := by simp [CAcc.zero, CAcc.sc]
  rw [h0, mpCentroidAcc_scale k hk, ← h0, finish_sc k hk]

/-- **`MultiPolygon.Centroid` with its range guard is its loop**, on every input (exact model). -/
theorem C03_mcentroid_guard (mp : MPoly) : multiPolygonCentroid mp = multiPolygonCentroidCore mp := by
  unfold multiPolygonCentroid
  cases h : centScale mp.flatten with
  | none => rfl
  | some k => exact multiPolygonCentroidCore_scale k (centScale_pos h) mp

/-- **Centroid clause for `MultiPolygon.Centroid` as it is now** (range guard of fix 4edcec2 included,
rescaled branch too): `C03_mcentroid` for the guarded function, no in-range hypothesis. -/
theorem C03_mcentroid_guarded_all (mp : MPoly) (sss : List (List Spell))
    (hlen : List.Forall₂ (fun ss p => ss.length = p.length) sss mp)
    (hclosed : ∀ ss ∈ sss, ∀ s ∈ ss, s.closed = true)
    (hv : ∀ p ∈ mp, ValidPoly p = true)
    (hW : ((mp.flatMap weights).map (·.1)).sum ≠ 0) :
    multiPolygonCentroid (List.zipWith respell sss mp) = (.fin (mcentroid mp).x, .fin (mcentroid mp).y) := by
  rw [C03_mcentroid_guard]; exact C03_mcentroid mp sss hlen hclosed hv hW

/-- non-vacuity: the guard fires on the two-member example scaled by 2^400 (all rings closed) -/
example : (centScale ((List.zipWith respell exMSpell exMP).map (scalePoly (1 / 2 ^ 400))).flatten).isSome = true := by
  decide +kernel

end GeomV.C03
