import GeomV.C03.LemmasReal

/-!
# C03 — theorems about the real-valued code (`distPointToSegment`, `Length`, `Distance`, `Buffer`)

All statements are about the generic definitions of `Model.lean` instantiated at `ℝ`
(`instRNumReal` in `LemmasReal.lean`), i.e. about the Go code with exact real arithmetic in place
of float64.  "Consecutive pairs of `l`" is `l.zip l.tail`.
-/
namespace GeomV.C03

/-- the point `a + t • (b - a)` of the segment `a b` -/
abbrev lerp (a b : Pt ℝ) (t : ℝ) : Pt ℝ := ⟨a.x + t * (b.x - a.x), a.y + t * (b.y - a.y)⟩

private theorem dist_lerp (p a b : Pt ℝ) (t : ℝ) :
    dist p ⟨a.x + t * (b.x - a.x), a.y + t * (b.y - a.y)⟩ =
      Real.sqrt (((p.x - a.x) - t * (b.x - a.x)) ^ 2 + ((p.y - a.y) - t * (b.y - a.y)) ^ 2) := by
  rw [dist_real]; congr 1; ring

/-- **`distPointToSegment` is the distance from `p` to the segment `a b`.**
It is a lower bound for the distance from `p` to every point `a + t (b - a)`, `0 ≤ t ≤ 1`, of the
segment, and it is attained at one such point.  No side condition is needed: for a degenerate
segment (`a = b`) the code takes the first branch (`c1 = 0 ≤ 0`) and never divides. -/
theorem distPointToSegment_min (p a b : Pt ℝ) :
    (∀ t : ℝ, 0 ≤ t → t ≤ 1 →
      distPointToSegment p a b ≤ dist p ⟨a.x + t * (b.x - a.x), a.y + t * (b.y - a.y)⟩) ∧
    (∃ t : ℝ, 0 ≤ t ∧ t ≤ 1 ∧
      distPointToSegment p a b = dist p ⟨a.x + t * (b.x - a.x), a.y + t * (b.y - a.y)⟩) := by
  rw [distPointToSegment_real]
  split_ifs with h1 h2
  · refine ⟨fun t ht0 _ => ?_, 0, le_refl _, zero_le_one, ?_⟩
    · rw [dist_lerp, dist_real]
      exact Real.sqrt_le_sqrt (seg_case0 _ _ _ _ t ht0 h1)
    · rw [dist_lerp, dist_real]; congr 1; ring
  · refine ⟨fun t _ ht1 => ?_, 1, zero_le_one, le_refl _, ?_⟩
    · rw [dist_lerp, dist_real]
      refine Real.sqrt_le_sqrt ?_
      have := seg_case1 (p.x - a.x) (p.y - a.y) (b.x - a.x) (b.y - a.y) t ht1 h2
      calc (p.x - b.x) ^ 2 + (p.y - b.y) ^ 2
          = (p.x - a.x - (b.x - a.x)) ^ 2 + (p.y - a.y - (b.y - a.y)) ^ 2 := by ring
        _ ≤ _ := this
    · rw [dist_lerp, dist_real]; congr 1; ring
  · have hc1 : 0 < (p.x - a.x) * (b.x - a.x) + (p.y - a.y) * (b.y - a.y) := lt_of_not_ge h1
    have hlt := lt_of_not_ge h2
    have hc2 : 0 < (b.x - a.x) * (b.x - a.x) + (b.y - a.y) * (b.y - a.y) := lt_trans hc1 hlt
    refine ⟨fun t _ _ => ?_, _, div_nonneg hc1.le hc2.le, (div_le_one hc2).2 hlt.le, rfl⟩
    rw [dist_lerp, dist_lerp]
    exact Real.sqrt_le_sqrt (seg_case2 _ _ _ _ t hc2)

/-- **`LineString.Length`** is the sum of the Euclidean lengths of the consecutive segments. -/
theorem C03_length (l : List (Pt ℝ)) :
    lineStringLength l =
      ((l.zip l.tail).map fun s =>
        Real.sqrt ((s.2.x - s.1.x) ^ 2 + (s.2.y - s.1.y) ^ 2)).sum := by
  rw [← segs_eq_zip]
  unfold lineStringLength
  rw [lengthGo_real]
  simp

/-- **`MultiLineString.Length`** is the sum of the members' lengths. -/
theorem C03_length_multi (ls : List (List (Pt ℝ))) :
    multiLineStringLength ls = (ls.map lineStringLength).sum := by
  unfold multiLineStringLength
  rw [foldl_add_real]
  simp

/-- the running minimum over a list of segments is the distance to their union -/
private theorem minOverSegs_spec (p : Pt ℝ) (S : List (Pt ℝ × Pt ℝ)) (d : ℝ)
    (h : (S.map fun s => distPointToSegment p s.1 s.2).foldl ominL none = some d) :
    (∀ s ∈ S, ∀ t : ℝ, 0 ≤ t → t ≤ 1 → d ≤ dist p (lerp s.1 s.2 t)) ∧
    (∃ s ∈ S, ∃ t : ℝ, 0 ≤ t ∧ t ≤ 1 ∧ d = dist p (lerp s.1 s.2 t)) := by
  obtain ⟨hlb, _, hmem⟩ := (foldl_ominL_spec _ none).2 d h
  constructor
  · intro s hs t ht0 ht1
    exact le_trans (hlb _ (List.mem_map_of_mem hs))
      ((distPointToSegment_min p s.1 s.2).1 t ht0 ht1)
  · rcases hmem with hmem | hmem
    · obtain ⟨s, hs, rfl⟩ := List.mem_map.1 hmem
      obtain ⟨t, ht0, ht1, ht⟩ := (distPointToSegment_min p s.1 s.2).2
      exact ⟨s, hs, t, ht0, ht1, ht⟩
    · cases hmem

/-- **`LineString.Distance`.**  The result is `+Inf` (`none`) exactly when the line string has no
segment; otherwise it is the distance from `p` to the line string: a lower bound for the distance
to every point of every segment, attained at some point of some segment. -/
theorem C03_distance (l : List (Pt ℝ)) (p : Pt ℝ) :
    (lineStringDistance l p = none ↔ l.length < 2) ∧
    ∀ d, lineStringDistance l p = some d →
      (∀ s ∈ l.zip l.tail, ∀ t : ℝ, 0 ≤ t → t ≤ 1 → d ≤ dist p (lerp s.1 s.2 t)) ∧
      (∃ s ∈ l.zip l.tail, ∃ t : ℝ, 0 ≤ t ∧ t ≤ 1 ∧ d = dist p (lerp s.1 s.2 t)) := by
  unfold lineStringDistance
  rw [distanceGo_real, ← segs_eq_zip]
  constructor
  · rw [(foldl_ominL_spec _ none).1, ← segs_eq_nil_iff]
    simp [segDists]
  · intro d hd
    exact minOverSegs_spec p (segs l) d hd

/-- **`MultiLineString.Distance`.**  `+Inf` exactly when no member has a segment; otherwise the
distance from `p` to the union of all segments of all members. -/
theorem C03_distance_multi (ls : List (List (Pt ℝ))) (p : Pt ℝ) :
    (multiLineStringDistance ls p = none ↔ ∀ l ∈ ls, l.length < 2) ∧
    ∀ d, multiLineStringDistance ls p = some d →
      (∀ l ∈ ls, ∀ s ∈ l.zip l.tail, ∀ t : ℝ, 0 ≤ t → t ≤ 1 → d ≤ dist p (lerp s.1 s.2 t)) ∧
      (∃ l ∈ ls, ∃ s ∈ l.zip l.tail, ∃ t : ℝ, 0 ≤ t ∧ t ≤ 1 ∧ d = dist p (lerp s.1 s.2 t)) := by
  unfold multiLineStringDistance
  rw [multiDistance_real]
  constructor
  · rw [(foldl_ominL_spec _ none).1]
    simp only [true_and, List.flatMap_eq_nil_iff]
    refine forall₂_congr fun l _ => ?_
    rw [← segs_eq_nil_iff]; simp [segDists]
  · intro d hd
    have hflat : ls.flatMap (segDists p) =
        (ls.flatMap segs).map fun s => distPointToSegment p s.1 s.2 := by
      rw [List.map_flatMap]; rfl
    rw [hflat] at hd
    obtain ⟨h1, s, hs, h2⟩ := minOverSegs_spec p _ d hd
    constructor
    · intro l hl s hs
      rw [← segs_eq_zip] at hs
      exact h1 s (List.mem_flatMap.2 ⟨l, hl, hs⟩)
    · obtain ⟨l, hl, hs⟩ := List.mem_flatMap.1 hs
      rw [segs_eq_zip] at hs
      exact ⟨l, hl, s, hs, h2⟩

/-- **`Point.Buffer` returns a regular `n`-gon inscribed in the circle of radius `r` about `c`.**
For `r ≥ 0` and `n ≥ 3` the result is one ring `vs` of exactly `n` vertices; every vertex is at
distance `r` from `c`; vertex `i` sits at angle `i · 2π/n`; and every side, including the closing
side from the last vertex back to the first, has squared length `2 r² (1 - cos (2π/n))`. -/
theorem C03_buffer (c : Pt ℝ) (r : ℝ) (n : Int) (hr : 0 ≤ r) (hn : 3 ≤ n) :
    ∃ vs : List (Pt ℝ), buffer c r n = .ok [vs] ∧ vs.length = n.toNat ∧
      (∀ v ∈ vs, dist v c = r) ∧
      (∀ (i : Nat) (h : i < vs.length),
        vs[i] = ⟨c.x + r * Real.cos (i * (2 * Real.pi / n)),
                 c.y + r * Real.sin (i * (2 * Real.pi / n))⟩) ∧
      (∀ (i : Nat) (h : i < vs.length),
        ((vs[(i + 1) % vs.length]'(Nat.mod_lt _ (Nat.zero_lt_of_lt h))).x - vs[i].x) ^ 2 +
        ((vs[(i + 1) % vs.length]'(Nat.mod_lt _ (Nat.zero_lt_of_lt h))).y - vs[i].y) ^ 2 =
          2 * r ^ 2 * (1 - Real.cos (2 * Real.pi / n))) := by
  have hN : ((n.toNat : ℕ) : ℝ) = (n : ℝ) := by
    have : ((n.toNat : ℕ) : ℤ) = n := Int.toNat_of_nonneg (by omega)
    rw [← Int.cast_natCast, this]
  have hn0 : (n : ℝ) ≠ 0 := by
    have : (3 : ℝ) ≤ n := by exact_mod_cast hn
    linarith
  refine ⟨_, buffer_real c r n hn hr, by simp, ?_, ?_, ?_⟩
  · intro v hv
    obtain ⟨i, _, rfl⟩ := List.mem_map.1 hv
    rw [dist_real]
    have : (c.x + r * Real.cos (↑i * (Real.pi * 2 / ↑n.toNat)) - c.x) ^ 2 +
        (c.y + r * Real.sin (↑i * (Real.pi * 2 / ↑n.toNat)) - c.y) ^ 2 = r ^ 2 := by
      linear_combination circle_sq r (↑i * (Real.pi * 2 / ↑n.toNat))
    rw [this, Real.sqrt_sq hr]
  · intro i h
    simp only [List.getElem_map, List.getElem_range, hN, mul_comm Real.pi 2]
  · intro i h
    simp only [List.length_map, List.length_range] at h ⊢
    simp only [List.getElem_map, List.getElem_range, hN]
    rw [side_sq]
    congr 2
    have hi : i + 1 ≤ n.toNat := h
    rcases Nat.lt_or_eq_of_le hi with hlt | heq
    · rw [Nat.mod_eq_of_lt hlt]
      congr 1
      push_cast; ring
    · rw [heq, Nat.mod_self]
      have hi' : (i : ℝ) = (n : ℝ) - 1 := by
        rw [← hN, ← heq]; push_cast; ring
      rw [hi', ← Real.cos_sub_two_pi (2 * Real.pi / ↑n)]
      congr 1
      simp only [Nat.cast_zero]
      field_simp
      ring

/-- **`Point.Buffer` panics** on fewer than three segments or on a negative radius. -/
theorem C03_buffer_panics (c : Pt ℝ) (r : ℝ) (n : Int) (h : n < 3 ∨ r < 0) :
    buffer c r n = .error .explicitPanic := by
  unfold buffer
  rcases h with h | h
  · rw [if_pos h]
  · split_ifs
    · rfl
    · rfl
    · rename_i h' ; exact absurd ((lt_real _ _).2 (by simpa using h)) h'

/-! ## non-vacuity -/

/-- a two-point line string does have a distance (the hypothesis `= some d` of `C03_distance` is
satisfiable), and it is the expected one -/
example : lineStringDistance [⟨0, 0⟩, ⟨2, 0⟩] (⟨1, 1⟩ : Pt ℝ) = some 1 := by
  simp [lineStringDistance, distanceGo, ominL, distPointToSegment_real, dist_real]

/-- the hypotheses of `C03_buffer` are satisfiable: a 4-gon of radius 1 -/
example : ∃ vs : List (Pt ℝ), buffer ⟨0, 0⟩ 1 4 = .ok [vs] ∧ vs.length = 4 := by
  obtain ⟨vs, h1, h2, _⟩ := C03_buffer ⟨0, 0⟩ 1 4 zero_le_one (by norm_num)
  exact ⟨vs, h1, h2⟩

/-- and so are those of `C03_buffer_panics` -/
example : buffer (⟨0, 0⟩ : Pt ℝ) 1 2 = .error .explicitPanic :=
  C03_buffer_panics _ _ _ (Or.inl (by norm_num))

example : lineStringLength ([⟨0, 0⟩, ⟨3, 4⟩] : List (Pt ℝ)) = 5 := by
  rw [C03_length]
  simp
  rw [show (3:ℝ)^2 + 4^2 = 5^2 by norm_num, Real.sqrt_sq (by norm_num)]

end GeomV.C03
