import GeomV.C03.LemmasCentroid
/-! The fixed `MultiPolygon.Centroid` loop as a fold of weighted ring centroids. -/
namespace GeomV.C03
open Spec
set_option linter.unusedSimpArgs false

/-- list form of `holes_sum`: every hole of a valid polygon, however spelled, is weighed `−measure` -/
theorem holes_list {shell shell' : Ring} (hs : SameCurve shell shell') :
    ∀ (rest rest' : Poly), List.Forall₂ SameCurve rest rest' → ∀ (pre pre' : Poly), List.Forall₂ SameCurve pre pre' →
    holesOK shell pre rest = true →
    (∀ ro ∈ withOthers (shell' :: pre') rest', ∀ v ∈ ro.1, pip v ro.2 = sideOfSpec (sideRings v ro.2)) →
    (withOthers (shell' :: pre') rest').map (fun ro => (ro.1, ringArea false ro.1 ro.2))
      = rest'.map fun h' => (h', -(Spec.measure h')) := by
  intro rest rest' hrr
  induction hrr with
  | nil => intro pre pre' _ _ _; rfl
  | @cons h h' t t' hh ht ih =>
    intro pre pre' hpp hok hag
    simp only [holesOK, Bool.and_eq_true] at hok
    obtain ⟨hok1, hok2⟩ := hok
    simp only [holeOK, List.all_eq_true, Bool.and_eq_true, beq_iff_eq] at hok1
    have hw : withOthers (shell' :: pre') (h' :: t') =
        (h', shell' :: pre' ++ t') :: withOthers (shell' :: (pre' ++ [h'])) t' := rfl
    rw [hw, List.map_cons, List.map_cons]
    have hall : List.Forall₂ SameCurve (pre ++ t) (pre' ++ t') := List.rel_append hpp ht
    have hfirst : ∀ v ∈ h', pip v (shell' :: pre' ++ t') = .inside := by
      intro v hv
      have := hag (h', shell' :: pre' ++ t') (by rw [hw]; simp) v hv
      rw [this]
      have hvh := hok1 v (hh.mem v hv)
      have : sideRings v (shell' :: (pre' ++ t')) = .inside := by
        apply sideRings_inside
        · rw [hs.side]; exact hvh.1
        · intro g' hg'
          obtain ⟨g, hg, hR⟩ := forall₂_mem_right hall hg'
          rw [hR.side]; exact hvh.2 g hg
      simp only [List.cons_append] at this ⊢
      rw [this]; rfl
    rw [ringArea_inside hh.len hfirst]
    congr 1
    exact ih (pre ++ [h]) (pre' ++ [h']) (List.rel_append hpp (List.Forall₂.cons hh List.Forall₂.nil)) hok2
      (by intro ro hro; exact hag ro (by rw [hw]; exact List.mem_cons_of_mem _ hro))

/-- rings of a spelled valid polygon with the weights `area` gives them -/
theorem weights_list (shell : Ring) (holes : Poly) (s0 : Spell) (sh : List Spell)
    (hlen : sh.length = holes.length) (hv : ValidPoly (shell :: holes) = true)
    (hag : PipAgrees (respell (s0 :: sh) (shell :: holes)) = true) :
    (withOthers [] (respell (s0 :: sh) (shell :: holes))).map
        (fun ro => (ro.1, ringArea ((respell (s0 :: sh) (shell :: holes)).length == 1) ro.1 ro.2))
      = (weights (respell (s0 :: sh) (shell :: holes))).map fun x => (x.2, x.1) := by
  simp only [ValidPoly, Bool.and_eq_true, List.all_eq_true, beq_iff_eq] at hv
  obtain ⟨⟨⟨hsimple, _⟩, hshell⟩, hholes⟩ := hv
  have hS : SameCurve shell (s0.ap shell) := sameCurve_ap s0 (hsimple shell (by simp))
  have hH : List.Forall₂ SameCurve holes (respell sh holes) :=
    forall₂_respell hlen (fun h hh => hsimple h (by simp [hh]))
  rw [pipAgrees_iff] at hag
  have hp' : respell (s0 :: sh) (shell :: holes) = s0.ap shell :: respell sh holes := rfl
  rw [hp'] at hag ⊢
  have hw : withOthers [] (s0.ap shell :: respell sh holes) =
      (s0.ap shell, respell sh holes) :: withOthers [s0.ap shell] (respell sh holes) := rfl
  rw [hw, List.map_cons]
  simp only [weights, List.map_cons, List.map_map]
  generalize respell sh holes = holes' at hH hag hw ⊢
  cases hH with
  | nil =>
    simp only [List.length_cons, List.length_nil]
    rw [show ((0 + 1 == 1) = true) from rfl, ringArea_single hS.len]
    rfl
  | @cons h h' t t' hh ht =>
    have hH' : List.Forall₂ SameCurve (h :: t) (h' :: t') := List.Forall₂.cons hh ht
    have hsingle : ((s0.ap shell :: h' :: t').length == 1) = false := by simp
    rw [hsingle]
    have hout : ∀ v ∈ s0.ap shell, pip v (h' :: t') = .outside := by
      intro v hv
      rw [hag (s0.ap shell, h' :: t') (by rw [hw]; simp) v hv]
      have : sideRings v (h' :: t') = .outside := by
        apply sideRings_outside
        intro g' hg'
        obtain ⟨g, hg, hR⟩ := forall₂_mem_right hH' hg'
        rw [hR.side]; exact hshell v (hS.mem v hv) g hg
      rw [this]; rfl
    rw [ringArea_outside hS.len hout]
    congr 1
    rw [holes_list hS (h :: t) (h' :: t') hH' [] [] List.Forall₂.nil hholes
      (by intro ro hro; exact hag ro (by rw [hw]; exact List.mem_cons_of_mem _ hro))]
    apply List.map_congr_left; intro g _; rfl


def stepGo (acc : CAcc) (rw : Ring × Rat) : CAcc :=
  acc.add (pairSum cxF rw.1) (pairSum cyF rw.1) (signedArea rw.1) rw.2

def addW (acc : CAcc) (wr : Rat × Ring) : CAcc :=
  ⟨acc.A + wr.1, acc.xA + wr.1 * (ringCentroid wr.2).x, acc.yA + wr.1 * (ringCentroid wr.2).y, acc.nan⟩

theorem mpCentroidRings_fold (single : Bool) (l : List (Ring × Poly)) (s : CAcc) :
    mpCentroidRings single l s = (l.map fun ro => (ro.1, ringArea single ro.1 ro.2)).foldl stepGo s := by
  induction l generalizing s with
  | nil => rfl
  | cons ro t ih =>
    obtain ⟨r, others⟩ := ro
    simp only [mpCentroidRings, List.map_cons, List.foldl_cons]
    exact ih _

theorem pairSum_closeRing (f : P → P → Rat) (l : List P) : pairSum f (closeRing l) = cyc f l := by
  cases l with
  | nil => rfl
  | cons a t => rfl

/-- a ring on which the fixed loop adds `w · ringCentroid` -/
def ClosedGood (r' : Ring) : Prop := ∀ acc w, stepGo acc (r', w) = addW acc (w, r')

theorem closedGood_ap (s : Spell) (hs : s.closed = true) (r : Ring) (h : shoelace2 r ≠ 0) :
    ClosedGood (s.ap r) := by
  intro acc w
  have h' : shoelace2 (s.ap r) ≠ 0 := by
    rw [shoelace2_ap]; split <;> simpa using h
  have hx : pairSum cxF (s.ap r) = momX (s.ap r) := by
    rw [momX_eq', Spec.Spell.ap_eq, if_pos hs, pairSum_closeRing, cyc_close _ (fun a => by unfold cxF; ring)]
  have hy : pairSum cyF (s.ap r) = momY (s.ap r) := by
    rw [momY_eq', Spec.Spell.ap_eq, if_pos hs, pairSum_closeRing, cyc_close _ (fun a => by unfold cyF; ring)]
  unfold stepGo addW
  simp only
  rw [hx, hy, signedArea_eq h']
  unfold CAcc.add ringCentroid
  rw [if_neg (by intro e; apply h'; linarith)]
  congr 1 <;> field_simp <;> ring

theorem foldl_stepGo_eq (L : List (Rat × Ring)) (hg : ∀ x ∈ L, ClosedGood x.2) (s : CAcc) :
    (L.map fun x => (x.2, x.1)).foldl stepGo s = L.foldl addW s := by
  induction L generalizing s with
  | nil => rfl
  | cons x t ih =>
    simp only [List.map_cons, List.foldl_cons]
    rw [hg x (by simp) s x.1]
    exact ih (fun y hy => hg y (by simp [hy])) _

theorem foldl_addW (L : List (Rat × Ring)) (s : CAcc) :
    L.foldl addW s = ⟨s.A + (L.map (·.1)).sum, s.xA + (L.map fun x => x.1 * (ringCentroid x.2).x).sum,
      s.yA + (L.map fun x => x.1 * (ringCentroid x.2).y).sum, s.nan⟩ := by
  induction L generalizing s with
  | nil => simp
  | cons x t ih =>
    simp only [List.foldl_cons, ih, addW, List.map_cons, List.sum_cons]
    congr 1 <;> ring

theorem shoelace_ne_of_simple {r : Ring} (h : SimpleRing r = true) : shoelace2 r ≠ 0 := by
  unfold SimpleRing at h
  simp only [Bool.and_eq_true, decide_eq_true_eq, List.all_eq_true, bne_iff_ne, ne_eq] at h
  exact h.1.2

theorem weights_rings (p : Poly) : (weights p).map (·.2) = p := by
  cases p with
  | nil => rfl
  | cons shell holes =>
    simp only [weights, List.map_cons, List.map_map]
    congr 1
    induction holes with
    | nil => rfl
    | cons h t ih => simp only [List.map_cons, Function.comp]; rw [← ih]; simp

/-- one member of the multi-polygon -/
theorem mpCentroidRings_valid (p : Poly) (ss : List Spell) (hlen : ss.length = p.length)
    (hcl : ∀ s ∈ ss, s.closed = true) (hv : ValidPoly p = true) (hag : PipAgrees (respell ss p) = true)
    (s : CAcc) :
    mpCentroidRings ((respell ss p).length == 1) (withOthers [] (respell ss p)) s
      = (weights (respell ss p)).foldl addW s := by
  cases p with
  | nil => simp [ValidPoly] at hv
  | cons shell holes =>
    cases ss with
    | nil => simp at hlen
    | cons s0 sh =>
      rw [mpCentroidRings_fold, weights_list shell holes s0 sh (by simpa using hlen) hv hag]
      apply foldl_stepGo_eq
      intro x hx
      have hx2 : x.2 ∈ respell (s0 :: sh) (shell :: holes) := by
        rw [← weights_rings (respell (s0 :: sh) (shell :: holes))]
        exact List.mem_map_of_mem hx
      obtain ⟨s', hs', r, hr, e⟩ := mem_respell hx2
      rw [e]
      simp only [ValidPoly, Bool.and_eq_true, List.all_eq_true] at hv
      exact closedGood_ap s' (hcl s' hs') r (shoelace_ne_of_simple (hv.1.1.1 r hr))

theorem mpCentroidAcc_fold (mp' : MPoly)
    (h : ∀ p' ∈ mp', ∀ s, mpCentroidRings (p'.length == 1) (withOthers [] p') s = (weights p').foldl addW s)
    (s : CAcc) : mpCentroidAcc mp' s = (mp'.flatMap weights).foldl addW s := by
  induction mp' generalizing s with
  | nil => rfl
  | cons p' t ih =>
    simp only [mpCentroidAcc, List.flatMap_cons, List.foldl_append]
    rw [h p' (by simp)]
    exact ih (fun q hq => h q (by simp [hq])) _


/-- `x'` carries the same weight and the same ring centroid as `x` -/
def SameWR (x x' : Rat × Ring) : Prop := x'.1 = x.1 ∧ ringCentroid x'.2 = ringCentroid x.2

theorem wmean_congr {L L' : List (Rat × Ring)} (h : List.Forall₂ SameWR L L') : wmean L' = wmean L := by
  have key : ∀ (F : Rat → P → Rat), L'.map (fun x => F x.1 (ringCentroid x.2)) = L.map (fun x => F x.1 (ringCentroid x.2)) := by
    intro F
    induction h with
    | nil => rfl
    | cons hab _ ih => simp only [List.map_cons, hab.1, hab.2, ih]
  have k1 := key (fun w _ => w)
  have k2 := key (fun w c => w * c.x)
  have k3 := key (fun w c => w * c.y)
  beta_reduce at k1 k2 k3
  unfold wmean
  rw [k1, k2, k3]

theorem sumW_congr {L L' : List (Rat × Ring)} (h : List.Forall₂ SameWR L L') :
    (L'.map (·.1)).sum = (L.map (·.1)).sum := by
  induction h with
  | nil => rfl
  | cons hab _ ih => simp only [List.map_cons, List.sum_cons, hab.1, ih]

theorem weights_respell (p : Poly) (ss : List Spell) (hlen : ss.length = p.length) :
    List.Forall₂ SameWR (weights p) (weights (respell ss p)) := by
  cases p with
  | nil => cases ss <;> exact List.Forall₂.nil
  | cons shell holes =>
    cases ss with
    | nil => simp at hlen
    | cons s0 sh =>
      show List.Forall₂ SameWR _ (weights (s0.ap shell :: respell sh holes))
      simp only [weights]
      refine List.Forall₂.cons ⟨measure_ap s0 shell, ringCentroid_ap s0 shell⟩ ?_
      have hl : sh.length = holes.length := by simpa using hlen
      clear hlen
      induction holes generalizing sh with
      | nil => cases sh <;> exact List.Forall₂.nil
      | cons h t ih =>
        cases sh with
        | nil => simp at hl
        | cons s st =>
          simp only [respell, List.zipWith_cons_cons, List.map_cons]
          refine List.Forall₂.cons ⟨by simp [measure_ap], ringCentroid_ap s h⟩ ?_
          exact ih st (by simpa using hl)

theorem flatMap_weights_respell (mp : MPoly) (sss : List (List Spell))
    (hlen : List.Forall₂ (fun ss p => ss.length = p.length) sss mp) :
    List.Forall₂ SameWR (mp.flatMap weights) ((List.zipWith respell sss mp).flatMap weights) := by
  induction hlen with
  | nil => exact List.Forall₂.nil
  | @cons ss p sst mpt hl _ ih =>
    simp only [List.zipWith_cons_cons, List.flatMap_cons]
    exact List.rel_append (weights_respell p ss hl) ih

end GeomV.C03
