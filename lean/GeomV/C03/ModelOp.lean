import GeomV.C03.Model
/-!
# C03 — executable model of `op.Within` and `op.FixOrientation` (op/properties.go, op/geom.go)

Function by function, over core `Rat`, quirks included:
`isLeft`, `orientation`, `reversePolygon`, `floatEquals` / `tolerance`, `pointInPoly`, `polyInPoly`,
`pointInPolygon`, `Within`, `FixOrientation`.

* Go run-time panics (index out of range in `orientation` on rings with fewer than two points) are
  values of `OpFault`; returned `error`s are values of `OpErr`.
* `tolerance = 1.e-9` is the exact rational `1/10^9` (the float64 literal differs from it by a relative
  2^-53-ish amount; every generated case keeps its comparisons away from that gap: coordinates are
  dyadic with small numerators).
* `floatEquals` is the RELATIVE test `|f1-f2| / |f1+f2| < tolerance` of op/geom.go; `x/0` is `+Inf` in
  float64 (not `< tolerance`) and `0/0` cannot occur behind `f1 == f2`.

Core Lean only.
-/
namespace GeomV.C03

/-- Go run-time faults of the functions modelled in this file -/
inductive OpFault where
  | indexOutOfRange   -- `r[0]`, `r[1]`, `r[len(r)-2]` in `orientation`
deriving Repr, DecidableEq

/-- a value of the interface type `geom.Geom` as far as `Within`/`FixOrientation` look at it -/
inductive OpGeom where
  | nil
  | point (p : P)
  | polygon (p : Poly)
  | multiPolygon (mp : MPoly)
  | other (goType : String)   -- any other concrete type; `goType` = `reflect.TypeOf(g).String()`
deriving Repr

/-- the `error` values the two functions return -/
inductive OpErr where
  | nilGeometry                       -- `fmt.Errorf("Nil geometry")`
  | unsupported (goType : Option String) -- `UnsupportedGeometryError{g}`; `none` = nil interface
deriving Repr, DecidableEq

/-- `err.Error()` -/
def OpErr.msg : OpErr → String
  | .nilGeometry => "Nil geometry"
  | .unsupported none => "Geometry is nil."
  | .unsupported (some t) => "Unsupported geometry type: " ++ t

def OpGeom.goType : OpGeom → Option String
  | .nil => none
  | .point _ => some "geom.Point"
  | .polygon _ => some "geom.Polygon"
  | .multiPolygon _ => some "geom.MultiPolygon"
  | .other t => some t

/-- `newUnsupportedGeometryError(g)` -/
def opUnsupported (g : OpGeom) : OpErr := .unsupported g.goType

/-- `const tolerance = 1.e-9` -/
def opTol : Rat := 1 / 1000000000

/-- `floatEquals` (op/geom.go): `(f1 == f2) || (math.Abs(f1-f2)/math.Abs(f1+f2) < tolerance)` -/
def opFloatEquals (f1 f2 : Rat) : Bool :=
  f1 == f2 || (f1 + f2 != 0 && decide (absR (f1 - f2) / absR (f1 + f2) < opTol))

/-- `isLeft(P0, P1, P2)` -/
def opIsLeft (p0 p1 p2 : P) : Rat :=
  (p1.x - p0.x) * (p2.y - p0.y) - (p2.x - p0.x) * (p1.y - p0.y)

/-- `r[i]` with Go's bounds check -/
def opIdx (r : Ring) (i : Int) : Except OpFault P :=
  if i < 0 then .error .indexOutOfRange else
  match r[i.toNat]? with
  | some p => .ok p
  | none => .error .indexOutOfRange

/-- the scan `for i, p := range r` of `orientation`: state `(rmin, xmin, ymin)`; a vertex that is
higher, or just as low and strictly to the left, is skipped; every other vertex (ties included)
becomes the new rightmost-lowest one -/
def opScan : List P → Nat → Nat × Rat × Rat → Nat × Rat × Rat
  | [], _, s => s
  | p :: t, i, (rmin, xmin, ymin) =>
    if p.y > ymin then opScan t (i + 1) (rmin, xmin, ymin)
    else if p.y = ymin ∧ p.x < xmin then opScan t (i + 1) (rmin, xmin, ymin)
    else opScan t (i + 1) (i, p.x, p.y)

/-- one ring of `orientation`: `rmin == 0 || rmin == len(r)-1` assumes a closed ring (the neighbour
before `r[0]` is taken to be `r[len(r)-2]`) -/
def opOrientation1 (r : Ring) : Except OpFault Rat := do
  let r0 ← opIdx r 0
  let rmin := (opScan r 0 (0, r0.x, r0.y)).1
  let n : Int := r.length
  if rmin = 0 ∨ (rmin : Int) = n - 1 then
    let a ← opIdx r (n - 2)
    let b ← opIdx r 0
    let c ← opIdx r 1
    pure (opIsLeft a b c)
  else
    let a ← opIdx r ((rmin : Int) - 1)
    let b ← opIdx r rmin
    let c ← opIdx r ((rmin : Int) + 1)
    pure (opIsLeft a b c)

/-- `orientation(V)`: one number per ring (`> 0` counter-clockwise) -/
def opOrientation (p : Poly) : Except OpFault (List Rat) := p.mapM opOrientation1

/-- `reversePolygon`: the swap loop `for i, j := 0, len(s)-1; i < j; i, j = i+1, j-1 { s[i], s[j] = s[j], s[i] }`.
`Array.reverse` of core Lean is this very loop (`Array.reverse.loop as i j`: `if i < j then loop (as.swap i j) (i+1) (j-1) else as`,
started at `0, size-1`). -/
def opReversePolygon (s : Ring) : Ring := (Array.mk s).reverse.toList

/-- one step of the Hormann–Agathos loop of `pointInPoly`; `none` = `return -1` -/
def opPipStep (pt ip nx : P) (result : Int) : Option Int :=
  if opFloatEquals nx.y pt.y &&
      (opFloatEquals nx.x pt.x ||
        (opFloatEquals ip.y pt.y && (decide (nx.x - pt.x > -opTol) == decide (ip.x - pt.x < opTol)))) then none
  else if decide (ip.y - pt.y < opTol) != decide (nx.y - pt.y < opTol) then
    let d := (ip.x - pt.x) * (nx.y - pt.y) - (nx.x - pt.x) * (ip.y - pt.y)
    if ip.x - pt.x ≥ -opTol then
      if nx.x - pt.x > -opTol then some (1 - result)
      else if opFloatEquals d 0 then none
      else if decide (d > -opTol) == decide (nx.y - ip.y > -opTol) then some (1 - result)
      else some result
    else
      if nx.x - pt.x > -opTol then
        if opFloatEquals d 0 then none
        else if decide (d > -opTol) == decide (nx.y - ip.y > -opTol) then some (1 - result)
        else some result
      else some result
  else some result

/-- the loop `for i := 1; i <= cnt; i++` over `ipNext = path[1], …, path[cnt-1], path[0]` -/
def opPipLoop (pt : P) : List P → P → Int → Int
  | [], _, result => result
  | nx :: t, ip, result =>
    match opPipStep pt ip nx result with
    | none => -1
    | some r => opPipLoop pt t nx r

/-- `pointInPoly(pt, path)`: 0 outside, +1 inside, −1 on the boundary -/
def opPointInPoly (pt : P) (path : Ring) : Int :=
  if path.length < 3 then 0 else
  match path with
  | [] => 0
  | p0 :: t => opPipLoop pt (t ++ [p0]) p0 0

/-- `polyInPoly(outer, inner)`: no vertex of `inner` is outside `outer` -/
def opPolyInPoly (outer inner : Ring) : Bool := inner.all fun p => opPointInPoly p outer != 0

/-- `pointInPolygon(point, polygon)` for a `geom.Polygon`: orientation-signed count -/
def opPointInPolygonPoly (pt : P) (p : Poly) : Except OpFault Bool := do
  let o ← opOrientation p
  let inCount : Int := ((o.zip p).map fun (oi, r) =>
    if opPointInPoly pt r != 0 then (if oi > 0 then (1 : Int) else if oi < 0 then -1 else 0) else 0).sum
  pure (decide (inCount > 0))

/-- the `MultiPolygon` branch: first member that contains the point decides (`Within` never reaches
this branch: its own `switch outer.(type)` accepts `geom.Polygon` only) -/
def opPointInPolygonMulti (pt : P) : MPoly → Except OpFault Bool
  | [] => .ok false
  | pp :: rest => do
    if (← opPointInPolygonPoly pt pp) then pure true else opPointInPolygonMulti pt rest

/-- `pointInPolygon(point, polygon geom.Geom)` -/
def opPointInPolygon (pt : P) : OpGeom → Except OpFault (Except OpErr Bool)
  | .polygon p => (opPointInPolygonPoly pt p).map .ok
  | .multiPolygon mp => (opPointInPolygonMulti pt mp).map .ok
  | g => .ok (.error (opUnsupported g))

/-- the loops `for _, r := range ip { for _, p := range r {…} }` of `Within` -/
def opWithinPts (outer : Poly) : List P → Except OpFault Bool
  | [] => .ok true
  | p :: t => do
    if (← opPointInPolygonPoly p outer) then opWithinPts outer t else pure false

/-- `Within(inner, outer)` -/
def opWithin (inner outer : OpGeom) : Except OpFault (Except OpErr Bool) :=
  match outer with
  | .polygon op =>
    match inner with
    | .polygon ip => (opWithinPts op ip.flatten).map .ok
    | .point pt => opPointInPolygon pt outer
    | g => .ok (.error (opUnsupported g))
  | g => .ok (.error (opUnsupported g))

/-- the loop `for i, inner := range p` of `FixOrientation`: the rings are reversed IN PLACE, so the
rings before `i` are seen by `polyInPoly` as they are now (`pre`), the rings after `i` as given. -/
def opFixLoop : Poly → List (Rat × Ring) → Poly
  | pre, [] => pre
  | pre, (oi, inner) :: rest =>
    let numInside := (pre ++ rest.map (·.2)).countP fun outer => opPolyInPoly outer inner
    let inner' :=
      if numInside % 2 = 1 ∧ oi > 0 then opReversePolygon inner
      else if numInside % 2 = 0 ∧ oi < 0 then opReversePolygon inner
      else inner
    opFixLoop (pre ++ [inner']) rest

/-- `FixOrientation` on a `geom.Polygon`: the polygon as it is after the call -/
def opFixPolygon (p : Poly) : Except OpFault Poly := do
  let o ← opOrientation p
  pure (opFixLoop [] (o.zip p))

/-- `FixOrientation` on a `geom.MultiPolygon` (a member never returns an error) -/
def opFixMulti (mp : MPoly) : Except OpFault MPoly := mp.mapM opFixPolygon

/-- `FixOrientation(g)`: the geometry after the call, or the returned error -/
def opFixOrientation : OpGeom → Except OpFault (Except OpErr OpGeom)
  | .nil => .ok (.error .nilGeometry)
  | .polygon p => (opFixPolygon p).map fun q => .ok (.polygon q)
  | .multiPolygon mp => (opFixMulti mp).map fun q => .ok (.multiPolygon q)
  | g => .ok (.error (opUnsupported g))

end GeomV.C03
