import GeomV.C03.Proofs
import GeomV.C03.ModelOp
import GeomV.C03.SpecOp
import Mathlib.Data.List.Forall2
import Mathlib.Tactic.Ring
import Mathlib.Tactic.Linarith
import Mathlib.Algebra.Order.Field.Rat
/-!
# C03 — theorems about the model of `op.FixOrientation` / `op.Within` (ModelOp.lean)

All for ALL inputs (any rings: unclosed, self-crossing, nested, touching, any number of vertices).
-/
namespace GeomV.C03
open Spec

/-- ring `b` is ring `a` or `a` run backwards -/
def RevOr (a b : Ring) : Prop := b = a ∨ b = a.reverse

/-! ## (c) `isLeft` is the cross product of the specification -/

/-- `isLeft(P0, P1, P2)` is `Spec.cross P0 P1 P2` (twice the signed area of the triangle). -/
theorem C03_op_isLeft (p0 p1 p2 : P) : opIsLeft p0 p1 p2 = Spec.cross p0 p1 p2 := by
  unfold opIsLeft Spec.cross; ring

example : opIsLeft ⟨0, 0⟩ ⟨2, 0⟩ ⟨0, 3⟩ = 6 := by decide +kernel

/-! ## (b) the swap loop of `reversePolygon` reverses -/

/-- `reversePolygon` (the in-place swap loop `i, j := 0, len-1; i < j; i++, j--`, modelled by the
same loop on arrays) returns the list reversed. -/
theorem C03_op_reversePolygon (s : Ring) : opReversePolygon s = s.reverse := by
  simp [opReversePolygon]

example : opReversePolygon [⟨0, 0⟩, ⟨1, 0⟩, ⟨1, 1⟩] = [⟨1, 1⟩, ⟨1, 0⟩, ⟨0, 0⟩] := by decide +kernel

/-! ## `floatEquals(d, 0)` is `d == 0`: the relative tolerance never fires against zero -/

/-- `floatEquals(d, 0)` — used for "the point is ON the edge" — holds only for `d = 0`:
`|d − 0| / |d + 0| = 1`, which is not below `1e-9`. -/
theorem C03_op_floatEquals_zero (d : Rat) : opFloatEquals d 0 = decide (d = 0) := by
  unfold opFloatEquals
  by_cases h : d = 0
  · simp [h]
  · have habs : absR d ≠ 0 := by
      unfold absR; split
      · intro h0; exact h (by linarith)
      · exact h
    have : absR (d - 0) / absR (d + 0) = 1 := by
      rw [sub_zero, add_zero]; exact div_self habs
    simp only [this, h, decide_false, Bool.or_eq_false_iff, beq_eq_false_iff_ne, ne_eq, not_false_eq_true,
      Bool.and_eq_false_iff, true_and]
    right
    simp [opTol]
    norm_num

example : opFloatEquals (1 / 1000000000000) 0 = false := by decide +kernel

/-! ## (a) `FixOrientation` only ever reverses rings -/

theorem mapM_forall₂ {α β : Type} {R : α → β → Prop} {f : α → Except OpFault β}
    (hf : ∀ a b, f a = .ok b → R a b) :
    ∀ (l : List α) (l' : List β), l.mapM f = .ok l' → List.Forall₂ R l l'
  | [], l', h => by
    simp [List.mapM_nil, pure, Except.pure] at h; subst h; exact List.Forall₂.nil
  | a :: t, l', h => by
    rw [List.mapM_cons] at h
    cases hfa : f a with
    | error e => simp [hfa, bind, Except.bind] at h
    | ok b =>
      cases ht : t.mapM f with
      | error e => simp [hfa, ht, bind, Except.bind] at h
      | ok bs =>
        simp [hfa, ht, bind, Except.bind, pure, Except.pure] at h
        subst h
        exact List.Forall₂.cons (hf a b hfa) (mapM_forall₂ hf t bs ht)

theorem fixLoop_rings : ∀ (rest : List (Rat × Ring)) (pre0 pre : Poly), List.Forall₂ RevOr pre0 pre →
    List.Forall₂ RevOr (pre0 ++ rest.map (·.2)) (opFixLoop pre rest)
  | [], pre0, pre, h => by simpa [opFixLoop] using h
  | (oi, inner) :: rest, pre0, pre, h => by
    have step : ∀ inner' : Ring, RevOr inner inner' →
        List.Forall₂ RevOr (pre0 ++ ((oi, inner) :: rest).map (·.2)) (opFixLoop (pre ++ [inner']) rest) := by
      intro inner' hi
      have := fixLoop_rings rest (pre0 ++ [inner]) (pre ++ [inner'])
        (List.rel_append h (List.Forall₂.cons hi List.Forall₂.nil))
      simpa [List.append_assoc] using this
    unfold opFixLoop
    simp only
    split
    · exact step _ (Or.inr (C03_op_reversePolygon inner))
    · split
      · exact step _ (Or.inr (C03_op_reversePolygon inner))
      · exact step _ (Or.inl rfl)

/-- **FixOrientation keeps the rings** (clause "every ring is the input ring or its reversal"):
whenever the model of `FixOrientation` on a `geom.Polygon` does not fault, the polygon it leaves
has as many rings as the input and its i-th ring is the i-th input ring or that ring reversed —
for every input, valid or not. -/
theorem C03_op_fix_rings (p q : Poly) (h : opFixPolygon p = .ok q) : List.Forall₂ RevOr p q := by
  unfold opFixPolygon at h
  cases ho : opOrientation p with
  | error e => simp [ho, bind, Except.bind] at h
  | ok o =>
    simp [ho, bind, Except.bind, pure, Except.pure] at h
    subst h
    have hlen : p.length = o.length :=
      (mapM_forall₂ (R := fun _ _ => True) (fun _ _ _ => trivial) p o ho).length_eq
    have := fixLoop_rings (o.zip p) [] [] List.Forall₂.nil
    rwa [List.nil_append, List.map_snd_zip (by omega)] at this

/-- the same for a `geom.MultiPolygon`, member by member -/
theorem C03_op_fix_rings_multi (mp mq : MPoly) (h : opFixMulti mp = .ok mq) :
    List.Forall₂ (List.Forall₂ RevOr) mp mq :=
  mapM_forall₂ (fun a b hab => C03_op_fix_rings a b hab) mp mq h

/-- `FixOrientation(g)` as a whole: it either returns an error (and, in the model, no geometry), or
the geometry is a polygon / multi-polygon whose rings are the input rings or their reversals. -/
theorem C03_op_FixOrientation_rings (g g' : OpGeom) (h : opFixOrientation g = .ok (.ok g')) :
    (∃ p q, g = .polygon p ∧ g' = .polygon q ∧ List.Forall₂ RevOr p q) ∨
    (∃ mp mq, g = .multiPolygon mp ∧ g' = .multiPolygon mq ∧ List.Forall₂ (List.Forall₂ RevOr) mp mq) := by
  cases g with
  | nil => simp [opFixOrientation] at h
  | point _ => simp [opFixOrientation] at h
  | other _ => simp [opFixOrientation] at h
  | polygon p =>
    left
    cases hp : opFixPolygon p with
    | error e => simp [opFixOrientation, hp, Except.map] at h
    | ok q =>
      simp [opFixOrientation, hp, Except.map] at h
      exact ⟨p, q, rfl, h.symm, C03_op_fix_rings p q hp⟩
  | multiPolygon mp =>
    right
    cases hp : opFixMulti mp with
    | error e => simp [opFixOrientation, hp, Except.map] at h
    | ok q =>
      simp [opFixOrientation, hp, Except.map] at h
      exact ⟨mp, q, rfl, h.symm, C03_op_fix_rings_multi mp q hp⟩

theorem measure_reverse (r : Ring) : Spec.measure r.reverse = Spec.measure r := by
  have := measure_spelling ⟨0, true, false⟩ r
  simpa [Spell.ap, rotN] using this

theorem revOr_measures {p q : Poly} (h : List.Forall₂ RevOr p q) : q.map Spec.measure = p.map Spec.measure := by
  induction h with
  | nil => rfl
  | cons hab _ ih =>
    rcases hab with rfl | rfl
    · simp [ih]
    · simp [ih, measure_reverse]

/-- **same number of rings, same measure ring by ring** after `FixOrientation` -/
theorem C03_op_fix_measure (p q : Poly) (h : opFixPolygon p = .ok q) :
    q.length = p.length ∧ q.map Spec.measure = p.map Spec.measure :=
  ⟨(C03_op_fix_rings p q h).length_eq.symm, revOr_measures (C03_op_fix_rings p q h)⟩

/-- **`Spec.area` unchanged** by `FixOrientation` (shell-first reading: measure of the first ring
minus the measures of the others). -/
theorem C03_op_fix_area (p q : Poly) (h : opFixPolygon p = .ok q) : Spec.area q = Spec.area p := by
  have hm := (C03_op_fix_measure p q h).2
  cases p with
  | nil => cases q with
    | nil => rfl
    | cons b bs => simp at hm
  | cons a as => cases q with
    | nil => simp at hm
    | cons b bs =>
      simp only [List.map_cons, List.cons.injEq] at hm
      simp [Spec.area, hm.1, hm.2]

/-- the decidable clause of SpecOp the judge evaluates, proved of the model: `Spec.ringsKept` -/
theorem C03_op_fix_ringsKept (p q : Poly) (h : opFixPolygon p = .ok q) : Spec.ringsKept p q = true := by
  have := C03_op_fix_rings p q h
  clear h
  induction this with
  | nil => rfl
  | cons hab _ ih =>
    simp only [Spec.ringsKept, Spec.sameOrReversed, Bool.and_eq_true, Bool.or_eq_true, beq_iff_eq]
    exact ⟨hab, ih⟩

/-- non-vacuity: the clockwise closed square with a clockwise hole — the shell is reversed, the hole kept -/
example : opFixPolygon [[⟨0,0⟩, ⟨0,9⟩, ⟨9,9⟩, ⟨9,0⟩, ⟨0,0⟩], [⟨3,3⟩, ⟨3,6⟩, ⟨6,6⟩, ⟨6,3⟩, ⟨3,3⟩]] =
    .ok [[⟨0,0⟩, ⟨9,0⟩, ⟨9,9⟩, ⟨0,9⟩, ⟨0,0⟩], [⟨3,3⟩, ⟨3,6⟩, ⟨6,6⟩, ⟨6,3⟩, ⟨3,3⟩]] := by decide +kernel
/-- the fault is a value: an empty ring -/
example : opFixPolygon [[]] = .error .indexOutOfRange := by decide +kernel

/-! ## the three findings, proved of the model (witnesses; see notes) -/

/-- a point on the boundary of a hole is reported NOT within (the documentation says boundary points are) -/
theorem C03_op_within_hole_boundary_false :
    opWithin (.point ⟨5, 4⟩) (.polygon [[⟨0,0⟩, ⟨10,0⟩, ⟨10,10⟩, ⟨0,10⟩, ⟨0,0⟩], [⟨4,4⟩, ⟨4,7⟩, ⟨6,7⟩, ⟨6,4⟩, ⟨4,4⟩]]) = .ok (.ok false) ∧
    Spec.inClosedRegion ⟨5, 4⟩ [[⟨0,0⟩, ⟨10,0⟩, ⟨10,10⟩, ⟨0,10⟩, ⟨0,0⟩], [⟨4,4⟩, ⟨4,7⟩, ⟨6,7⟩, ⟨6,4⟩, ⟨4,4⟩]] = true := by
  decide +kernel

/-- a point strictly inside a vertical shell edge with the region on its right is reported NOT within,
the mirror point on the opposite edge is -/
theorem C03_op_within_left_edge_false :
    opWithin (.point ⟨0, 5⟩) (.polygon [[⟨0,0⟩, ⟨10,0⟩, ⟨10,10⟩, ⟨0,10⟩, ⟨0,0⟩]]) = .ok (.ok false) ∧
    opWithin (.point ⟨10, 5⟩) (.polygon [[⟨0,0⟩, ⟨10,0⟩, ⟨10,10⟩, ⟨0,10⟩, ⟨0,0⟩]]) = .ok (.ok true) ∧
    Spec.inClosedRegion ⟨0, 5⟩ [[⟨0,0⟩, ⟨10,0⟩, ⟨10,10⟩, ⟨0,10⟩, ⟨0,0⟩]] = true := by
  decide +kernel

/-- the ABSOLUTE tolerance `1e-9` is also applied to the cross product `d`, which is quadratic in the
coordinates: at coordinates of size 2⁻²⁰·40 a point clearly OUTSIDE (one grid unit below a slanted edge of
length 40 grid units) is reported within; the same shape on the integer grid is answered correctly. -/
theorem C03_op_within_tolerance_cross_wrong :
    let s : Rat := 1 / 2 ^ 20
    opWithin (.point ⟨22 * s, 1 * s⟩) (.polygon [[⟨0,0⟩, ⟨40*s,2*s⟩, ⟨42*s,44*s⟩, ⟨2*s,40*s⟩, ⟨0,0⟩]]) = .ok (.ok true) ∧
    Spec.inClosedRegion ⟨22 * s, 1 * s⟩ [[⟨0,0⟩, ⟨40*s,2*s⟩, ⟨42*s,44*s⟩, ⟨2*s,40*s⟩, ⟨0,0⟩]] = false ∧
    opWithin (.point ⟨22, 1⟩) (.polygon [[⟨0,0⟩, ⟨40,2⟩, ⟨42,44⟩, ⟨2,40⟩, ⟨0,0⟩]]) = .ok (.ok false) := by
  decide +kernel

/-- at coordinates of size 2⁻⁴⁰ every difference is below the absolute tolerance: an inside point is
reported not within, and `FixOrientation` leaves a hole wound like its shell (both counter-clockwise),
while on the integer grid it makes the hole clockwise. -/
theorem C03_op_tolerance_tiny_wrong :
    let t : Rat := 1 / 2 ^ 40
    opWithin (.point ⟨5 * t, 1 * t⟩) (.polygon [[⟨0,0⟩, ⟨10*t,0⟩, ⟨10*t,10*t⟩, ⟨0,10*t⟩, ⟨0,0⟩]]) = .ok (.ok false) ∧
    Spec.inClosedRegion ⟨5 * t, 1 * t⟩ [[⟨0,0⟩, ⟨10*t,0⟩, ⟨10*t,10*t⟩, ⟨0,10*t⟩, ⟨0,0⟩]] = true ∧
    (opFixPolygon [[⟨0,0⟩, ⟨10*t,0⟩, ⟨10*t,10*t⟩, ⟨0,10*t⟩, ⟨0,0⟩], [⟨4*t,4*t⟩, ⟨6*t,4*t⟩, ⟨6*t,7*t⟩, ⟨4*t,7*t⟩, ⟨4*t,4*t⟩]]).toOption.map
      (·.map fun r => decide (0 < Spec.shoelace2 r)) = some [true, true] ∧
    (opFixPolygon [[⟨0,0⟩, ⟨10,0⟩, ⟨10,10⟩, ⟨0,10⟩, ⟨0,0⟩], [⟨4,4⟩, ⟨6,4⟩, ⟨6,7⟩, ⟨4,7⟩, ⟨4,4⟩]]).toOption.map
      (·.map fun r => decide (0 < Spec.shoelace2 r)) = some [true, false] := by
  decide +kernel

/-- **negation of the composite on the model (known finding `SPEC opfix-…-tol:xy op.Area-after-FixOrientation`)**:
the closed 10×10 square with the 2×3 hole, scaled by 2⁻⁴⁰, both counter-clockwise: `FixOrientation` leaves the
hole counter-clockwise (`shoelace2 > 0`) and `op.Area` afterwards is shell + hole = 106·2⁻⁸⁰, not
`Spec.area` = 94·2⁻⁸⁰. -/
theorem C03_op_fix_tolerance_wrong :
    let t : Rat := 1 / 2 ^ 40
    let p : Poly := [[⟨0,0⟩, ⟨10*t,0⟩, ⟨10*t,10*t⟩, ⟨0,10*t⟩, ⟨0,0⟩], [⟨4*t,4*t⟩, ⟨6*t,4*t⟩, ⟨6*t,7*t⟩, ⟨4*t,7*t⟩, ⟨4*t,4*t⟩]]
    ∃ q, opFixPolygon p = .ok q ∧ (q.map fun r => decide (0 < Spec.shoelace2 r)) = [true, true] ∧
      opPolygonArea q = 106 / 2 ^ 80 ∧ Spec.area (Spec.canon q) = 94 / 2 ^ 80 ∧ opPolygonArea q ≠ Spec.area (Spec.canon q) := by
  refine ⟨[[⟨0,0⟩, ⟨10/2^40,0⟩, ⟨10/2^40,10/2^40⟩, ⟨0,10/2^40⟩, ⟨0,0⟩],
    [⟨4/2^40,4/2^40⟩, ⟨6/2^40,4/2^40⟩, ⟨6/2^40,7/2^40⟩, ⟨4/2^40,7/2^40⟩, ⟨4/2^40,4/2^40⟩]], ?_⟩
  decide +kernel

/-! ## (d) on an integer grid the tolerances of `pointInPoly` are exact comparisons -/

/-- `pointInPoly`'s loop body with every tolerance test replaced by the exact comparison it stands
for on a grid (`x > -tolerance` ↦ `x ≥ 0`, `x < tolerance` ↦ `x ≤ 0`, `floatEquals` ↦ `=`). -/
def opPipStepExact (pt ip nx : P) (result : Int) : Option Int :=
  if decide (nx.y = pt.y) &&
      (decide (nx.x = pt.x) ||
        (decide (ip.y = pt.y) && (decide (nx.x - pt.x ≥ 0) == decide (ip.x - pt.x ≤ 0)))) then none
  else if decide (ip.y - pt.y ≤ 0) != decide (nx.y - pt.y ≤ 0) then
    let d := (ip.x - pt.x) * (nx.y - pt.y) - (nx.x - pt.x) * (ip.y - pt.y)
    if ip.x - pt.x ≥ 0 then
      if nx.x - pt.x ≥ 0 then some (1 - result)
      else if decide (d = 0) then none
      else if decide (d ≥ 0) == decide (nx.y - ip.y ≥ 0) then some (1 - result)
      else some result
    else
      if nx.x - pt.x ≥ 0 then
        if decide (d = 0) then none
        else if decide (d ≥ 0) == decide (nx.y - ip.y ≥ 0) then some (1 - result)
        else some result
      else some result
  else some result

def opPipLoopExact (pt : P) : List P → P → Int → Int
  | [], _, result => result
  | nx :: t, ip, result =>
    match opPipStepExact pt ip nx result with
    | none => -1
    | some r => opPipLoopExact pt t nx r

def opPointInPolyExact (pt : P) (path : Ring) : Int :=
  if path.length < 3 then 0 else
  match path with
  | [] => 0
  | p0 :: t => opPipLoopExact pt (t ++ [p0]) p0 0

/-- integer coordinates of magnitude at most 5·10⁸ -/
def GridPt (p : P) : Prop := ∃ x y : Int, p = ⟨(x : Rat), (y : Rat)⟩ ∧ |x| ≤ 500000000 ∧ |y| ≤ 500000000

theorem int_gt_negTol (n : Int) : ((n : Rat) > -opTol) ↔ ((n : Rat) ≥ 0) := by
  unfold opTol
  constructor
  · intro h
    by_contra hn
    have h1 : (n : Rat) < 0 := not_le.mp hn
    have h2 : n < 0 := by exact_mod_cast h1
    have h3 : n ≤ -1 := by omega
    have h4 : (n : Rat) ≤ -1 := by exact_mod_cast h3
    linarith
  · intro h; linarith

theorem int_ge_negTol (n : Int) : ((n : Rat) ≥ -opTol) ↔ ((n : Rat) ≥ 0) := by
  unfold opTol
  constructor
  · intro h
    by_contra hn
    have h1 : (n : Rat) < 0 := not_le.mp hn
    have h2 : n < 0 := by exact_mod_cast h1
    have h3 : n ≤ -1 := by omega
    have h4 : (n : Rat) ≤ -1 := by exact_mod_cast h3
    linarith
  · intro h; linarith

theorem int_lt_tol (n : Int) : ((n : Rat) < opTol) ↔ ((n : Rat) ≤ 0) := by
  unfold opTol
  constructor
  · intro h
    by_contra hn
    have h1 : (0 : Rat) < n := not_le.mp hn
    have h2 : 0 < n := by exact_mod_cast h1
    have h3 : 1 ≤ n := by omega
    have h4 : (1 : Rat) ≤ n := by exact_mod_cast h3
    linarith
  · intro h; linarith

theorem floatEquals_int (a b : Int) (ha : |a| ≤ 500000000) (hb : |b| ≤ 500000000) :
    opFloatEquals (a : Rat) (b : Rat) = decide ((a : Rat) = b) := by
  unfold opFloatEquals
  by_cases h : (a : Rat) = b
  · simp [h]
  · have hab : a ≠ b := fun e => h (by exact_mod_cast e)
    have h1 : (1 : Rat) ≤ |(a : Rat) - b| := by
      have : (1 : Int) ≤ |a - b| := Int.one_le_abs (sub_ne_zero.mpr hab)
      exact_mod_cast this
    have h2 : |(a : Rat) + b| ≤ 1000000000 := by
      have : |a + b| ≤ 1000000000 := le_trans (abs_add_le a b) (by omega)
      exact_mod_cast this
    have hn : ((a : Rat) + b != 0 && decide (absR ((a : Rat) - b) / absR ((a : Rat) + b) < opTol)) = false := by
      by_cases h0 : (a : Rat) + b = 0
      · simp [h0]
      · have hpos : 0 < |(a : Rat) + b| := abs_pos.mpr h0
        have : ¬ (absR ((a : Rat) - b) / absR ((a : Rat) + b) < opTol) := by
          rw [absR_eq_abs, absR_eq_abs, not_lt, le_div_iff₀ hpos]
          unfold opTol
          nlinarith
        simp [this]
    simp [h, hn]


/-- one loop step of `pointInPoly` on grid points: every tolerance test is the exact comparison -/
theorem pipStep_grid (pt ip nx : P) (hpt : GridPt pt) (hip : GridPt ip) (hnx : GridPt nx) (result : Int) :
    opPipStep pt ip nx result = opPipStepExact pt ip nx result := by
  obtain ⟨px, py, rfl, hpx, hpy⟩ := hpt
  obtain ⟨ax, ay, rfl, hax, hay⟩ := hip
  obtain ⟨bx, by', rfl, hbx, hby⟩ := hnx
  have e1 := floatEquals_int by' py hby hpy
  have e2 := floatEquals_int bx px hbx hpx
  have e3 := floatEquals_int ay py hay hpy
  have p4 : ((bx : Rat) - px > -opTol) ↔ ((bx : Rat) - px ≥ 0) := by
    have := int_gt_negTol (bx - px); push_cast at this; exact this
  have p5 : ((ax : Rat) - px < opTol) ↔ ((ax : Rat) - px ≤ 0) := by
    have := int_lt_tol (ax - px); push_cast at this; exact this
  have p6 : ((ay : Rat) - py < opTol) ↔ ((ay : Rat) - py ≤ 0) := by
    have := int_lt_tol (ay - py); push_cast at this; exact this
  have p7 : ((by' : Rat) - py < opTol) ↔ ((by' : Rat) - py ≤ 0) := by
    have := int_lt_tol (by' - py); push_cast at this; exact this
  have p8 : ((ax : Rat) - px ≥ -opTol) ↔ ((ax : Rat) - px ≥ 0) := by
    have := int_ge_negTol (ax - px); push_cast at this; exact this
  have p11 : (((ax : Rat) - px) * ((by' : Rat) - py) - ((bx : Rat) - px) * ((ay : Rat) - py) > -opTol) ↔
      (((ax : Rat) - px) * ((by' : Rat) - py) - ((bx : Rat) - px) * ((ay : Rat) - py) ≥ 0) := by
    have := int_gt_negTol ((ax - px) * (by' - py) - (bx - px) * (ay - py)); push_cast at this; exact this
  have p12 : ((by' : Rat) - ay > -opTol) ↔ ((by' : Rat) - ay ≥ 0) := by
    have := int_gt_negTol (by' - ay); push_cast at this; exact this
  unfold opPipStep opPipStepExact
  simp only [e1, e2, e3, p4, p5, p6, p7, p8, p11, p12, C03_op_floatEquals_zero]

theorem pipLoop_grid (pt : P) (hpt : GridPt pt) : ∀ (l : List P) (ip : P) (result : Int),
    (∀ v ∈ l, GridPt v) → GridPt ip → opPipLoop pt l ip result = opPipLoopExact pt l ip result
  | [], _, _, _, _ => rfl
  | nx :: t, ip, result, hl, hip => by
    have hnx : GridPt nx := hl nx (List.mem_cons_self ..)
    unfold opPipLoop opPipLoopExact
    rw [pipStep_grid pt ip nx hpt hip hnx]
    cases opPipStepExact pt ip nx result with
    | none => rfl
    | some r => exact pipLoop_grid pt hpt t nx r (fun v hv => hl v (List.mem_cons_of_mem _ hv)) hnx

/-- **(d) `pointInPoly` on an integer grid is the tolerance-free Hormann–Agathos loop** — for every
query point and every path whose coordinates are integers of magnitude ≤ 5·10⁸ (closed or not, simple
or not).  On such inputs `floatEquals` is `=`, `x > -tolerance` is `x ≥ 0`, `x < tolerance` is `x ≤ 0`
(differences and the cross product `d` are integers, hence `0` or of magnitude ≥ 1 > 1e-9; the
relative test of `floatEquals` needs `|a+b| ≤ 10⁹`).  NOT proved: agreement of the exact loop with
`Spec.sideRing` — it is false on the boundary (`C03_op_within_left_edge_false`); off the boundary it
is a per-case Spec verdict of the judge. -/
theorem C03_op_pointInPoly_grid_exact (pt : P) (path : Ring) (hpt : GridPt pt) (hpath : ∀ v ∈ path, GridPt v) :
    opPointInPoly pt path = opPointInPolyExact pt path := by
  unfold opPointInPoly opPointInPolyExact
  split
  · rfl
  · cases path with
    | nil => rfl
    | cons p0 t =>
      have hp0 : GridPt p0 := hpath p0 (List.mem_cons_self ..)
      exact pipLoop_grid pt hpt (t ++ [p0]) p0 0 (by
        intro v hv
        rcases List.mem_append.mp hv with h | h
        · exact hpath v (List.mem_cons_of_mem _ h)
        · rw [List.mem_singleton.mp h]; exact hp0) hp0

/-- non-vacuity: a grid point and a grid ring; the exact loop finds the point inside -/
example : GridPt ⟨5, 5⟩ := ⟨5, 5, rfl, by decide, by decide⟩
example : opPointInPolyExact ⟨5, 5⟩ [⟨0,0⟩, ⟨10,0⟩, ⟨10,10⟩, ⟨0,10⟩, ⟨0,0⟩] = 1 := by decide +kernel

/-! ## the tolerance-free loop is the crossing-number test off the boundary -/

theorem op_offSeg (pt a b : P) (hoff : Spec.onSeg pt a b = false) :
    Spec.cross a b pt = 0 → (a.x ≤ pt.x ∨ b.x ≤ pt.x) → (pt.x ≤ a.x ∨ pt.x ≤ b.x) →
    (a.y ≤ pt.y ∨ b.y ≤ pt.y) → (pt.y ≤ a.y ∨ pt.y ≤ b.y) → False := by
  intro h0 h1 h2 h3 h4
  have : Spec.onSeg pt a b = true := by
    simp only [Spec.onSeg, Bool.and_eq_true, beq_iff_eq, decide_eq_true_eq, min_le_iff, le_max_iff]
    exact ⟨⟨⟨⟨h0, h1⟩, h2⟩, h3⟩, h4⟩
  rw [hoff] at this
  exact Bool.false_ne_true this

theorem op_cross_eq_d (pt a b : P) :
    Spec.cross a b pt = (a.x - pt.x) * (b.y - pt.y) - (b.x - pt.x) * (a.y - pt.y) := by
  unfold Spec.cross; ring

theorem op_cross_swap (pt a b : P) : Spec.cross b a pt = -Spec.cross a b pt := by
  unfold Spec.cross; ring

theorem op_cross_split (pt a b : P) :
    Spec.cross a b pt = (b.y - pt.y) * (a.x - pt.x) + (pt.y - a.y) * (b.x - pt.x) := by
  unfold Spec.cross; ring

theorem crossHO_up (pt a b : P) (h1 : a.y ≤ pt.y) (h2 : pt.y < b.y) :
    Spec.crossHO pt a b = decide (0 < Spec.cross a b pt) := by
  have hab : a.y ≤ b.y := le_of_lt (lt_of_le_of_lt h1 h2)
  simp [Spec.crossHO, hab, h1, h2]

theorem crossHO_down (pt a b : P) (h1 : b.y ≤ pt.y) (h2 : pt.y < a.y) :
    Spec.crossHO pt a b = decide (Spec.cross a b pt < 0) := by
  have hab : ¬ a.y ≤ b.y := not_le.mpr (lt_of_le_of_lt h1 h2)
  simp [Spec.crossHO, hab, h1, h2, op_cross_swap pt a b]

theorem crossHO_none (pt a b : P) (h : (a.y ≤ pt.y) ↔ (b.y ≤ pt.y)) : Spec.crossHO pt a b = false := by
  unfold Spec.crossHO
  by_cases hab : a.y ≤ b.y
  · simp only [hab, if_true]
    by_cases h1 : a.y ≤ pt.y
    · have h2 : b.y ≤ pt.y := h.mp h1
      simp [not_lt.mpr h2]
    · simp [h1]
  · simp only [hab, if_false]
    by_cases h1 : b.y ≤ pt.y
    · have h2 : a.y ≤ pt.y := h.mpr h1
      simp [not_lt.mpr h2]
    · simp [h1]

theorem pipStepExact_off (pt a b : P) (hoff : Spec.onSeg pt a b = false) (r : Int) :
    opPipStepExact pt a b r = some (if Spec.crossHO pt a b then 1 - r else r) := by
  have hseg := op_offSeg pt a b hoff
  have hd := op_cross_eq_d pt a b
  have hsp := op_cross_split pt a b
  -- the boundary test of the loop does not fire
  have hc1 : (decide (b.y = pt.y) && (decide (b.x = pt.x) ||
      (decide (a.y = pt.y) && (decide (b.x - pt.x ≥ 0) == decide (a.x - pt.x ≤ 0))))) = false := by
    rw [Bool.eq_false_iff]
    intro h
    simp only [Bool.and_eq_true, Bool.or_eq_true, decide_eq_true_eq, beq_iff_eq, decide_eq_decide,
      sub_nonneg, sub_nonpos] at h
    obtain ⟨hby, h | ⟨hay, hiff⟩⟩ := h
    · exact hseg (by rw [hd, hby, h]; ring) (Or.inr h.le) (Or.inr h.symm.le) (Or.inr hby.le) (Or.inr hby.symm.le)
    · have h0 : Spec.cross a b pt = 0 := by rw [hd, hby, hay]; ring
      by_cases hb : pt.x ≤ b.x
      · exact hseg h0 (Or.inl (hiff.mp hb)) (Or.inr hb) (Or.inr hby.le) (Or.inr hby.symm.le)
      · have ha : ¬ a.x ≤ pt.x := fun h => hb (hiff.mpr h)
        exact hseg h0 (Or.inr (not_le.mp hb).le) (Or.inl (not_le.mp ha).le) (Or.inr hby.le) (Or.inr hby.symm.le)
  unfold opPipStepExact
  rw [if_neg (by rw [hc1]; exact Bool.false_ne_true)]
  simp only [← hd, sub_nonneg, sub_nonpos]
  by_cases hay : a.y ≤ pt.y <;> by_cases hby : b.y ≤ pt.y
  · -- both at or below: no straddle
    simp [hay, hby, crossHO_none pt a b (by simp [hay, hby])]
  · -- upward edge
    have hby' : pt.y < b.y := not_le.mp hby
    have hab : a.y ≤ b.y := (lt_of_le_of_lt hay hby').le
    rw [crossHO_up pt a b hay hby']
    by_cases hax : pt.x ≤ a.x <;> by_cases hbx : pt.x ≤ b.x
    · have hpos : 0 < Spec.cross a b pt := by
        have h0 : 0 ≤ Spec.cross a b pt := by
          rw [hsp]; have := mul_nonneg (sub_nonneg.mpr hby'.le) (sub_nonneg.mpr hax)
          have := mul_nonneg (sub_nonneg.mpr hay) (sub_nonneg.mpr hbx); linarith
        rcases eq_or_lt_of_le h0 with h | h
        · exfalso
          have hz : (b.y - pt.y) * (a.x - pt.x) = 0 := by
            have h1 := mul_nonneg (sub_nonneg.mpr hby'.le) (sub_nonneg.mpr hax)
            have h2 := mul_nonneg (sub_nonneg.mpr hay) (sub_nonneg.mpr hbx)
            rw [hsp] at h; linarith
          have hax0 : a.x = pt.x := by
            rcases mul_eq_zero.mp hz with h1 | h1
            · linarith
            · linarith
          exact hseg h.symm (Or.inl hax0.le) (Or.inl hax0.symm.le) (Or.inl hay) (Or.inr hby'.le)
        · exact h
      simp [hay, hby, hax, hbx, hpos]
    · have hne : Spec.cross a b pt ≠ 0 := fun h0 =>
        hseg h0 (Or.inr (not_le.mp hbx).le) (Or.inl hax) (Or.inl hay) (Or.inr hby'.le)
      by_cases hpos : 0 < Spec.cross a b pt
      · simp [hay, hby, hax, hbx, hne, hpos, hpos.le, hab]
      · have : ¬ 0 ≤ Spec.cross a b pt := fun h => hpos (lt_of_le_of_ne h (Ne.symm hne))
        simp [hay, hby, hax, hbx, hne, hpos, this, hab]
    · have hne : Spec.cross a b pt ≠ 0 := fun h0 =>
        hseg h0 (Or.inl (not_le.mp hax).le) (Or.inr hbx) (Or.inl hay) (Or.inr hby'.le)
      by_cases hpos : 0 < Spec.cross a b pt
      · simp [hay, hby, hax, hbx, hne, hpos, hpos.le, hab]
      · have : ¬ 0 ≤ Spec.cross a b pt := fun h => hpos (lt_of_le_of_ne h (Ne.symm hne))
        simp [hay, hby, hax, hbx, hne, hpos, this, hab]
    · have hneg : ¬ 0 < Spec.cross a b pt := by
        rw [hsp]
        have := mul_nonneg (sub_nonneg.mpr hby'.le) (sub_nonneg.mpr (not_le.mp hax).le)
        have := mul_nonneg (sub_nonneg.mpr hay) (sub_nonneg.mpr (not_le.mp hbx).le)
        nlinarith
      simp [hay, hby, hax, hbx, hneg]
  · -- downward edge
    have hay' : pt.y < a.y := not_le.mp hay
    have hab : ¬ a.y ≤ b.y := not_le.mpr (lt_of_le_of_lt hby hay')
    rw [crossHO_down pt a b hby hay']
    by_cases hax : pt.x ≤ a.x <;> by_cases hbx : pt.x ≤ b.x
    · have hneg : Spec.cross a b pt < 0 := by
        have h0 : Spec.cross a b pt ≤ 0 := by
          rw [hsp]; have := mul_nonneg (sub_nonneg.mpr hby) (sub_nonneg.mpr hax)
          have := mul_nonneg (sub_nonneg.mpr hay'.le) (sub_nonneg.mpr hbx); nlinarith
        rcases eq_or_lt_of_le h0 with h | h
        · exfalso
          have hz : (pt.y - a.y) * (b.x - pt.x) = 0 := by
            have h1 := mul_nonneg (sub_nonneg.mpr hby) (sub_nonneg.mpr hax)
            have h2 := mul_nonneg (sub_nonneg.mpr hay'.le) (sub_nonneg.mpr hbx)
            rw [hsp] at h; nlinarith
          have hbx0 : b.x = pt.x := by
            rcases mul_eq_zero.mp hz with h1 | h1
            · linarith
            · linarith
          exact hseg h (Or.inr hbx0.le) (Or.inr hbx0.symm.le) (Or.inr hby) (Or.inl hay'.le)
        · exact h
      simp [hay, hby, hax, hbx, hneg]
    · have hne : Spec.cross a b pt ≠ 0 := fun h0 =>
        hseg h0 (Or.inr (not_le.mp hbx).le) (Or.inl hax) (Or.inr hby) (Or.inl hay'.le)
      by_cases hneg : Spec.cross a b pt < 0
      · simp [hay, hby, hax, hbx, hne, hneg, not_le.mpr hneg, hab]
      · simp [hay, hby, hax, hbx, hne, hneg, not_lt.mp hneg, hab]
    · have hne : Spec.cross a b pt ≠ 0 := fun h0 =>
        hseg h0 (Or.inl (not_le.mp hax).le) (Or.inr hbx) (Or.inr hby) (Or.inl hay'.le)
      by_cases hneg : Spec.cross a b pt < 0
      · simp [hay, hby, hax, hbx, hne, hneg, not_le.mpr hneg, hab]
      · simp [hay, hby, hax, hbx, hne, hneg, not_lt.mp hneg, hab]
    · have hnn : ¬ Spec.cross a b pt < 0 := by
        rw [hsp]
        have := mul_nonneg (sub_nonneg.mpr hby) (sub_nonneg.mpr (not_le.mp hax).le)
        have := mul_nonneg (sub_nonneg.mpr hay'.le) (sub_nonneg.mpr (not_le.mp hbx).le)
        nlinarith
      simp [hay, hby, hax, hbx, hnn]
  · -- both above: no straddle
    simp [hay, hby, crossHO_none pt a b (by simp [hay, hby])]

theorem pipLoopExact_off (pt : P) : ∀ (l : List P) (ip : P) (r : Int),
    (∀ e ∈ Spec.pairs (ip :: l), Spec.onSeg pt e.1 e.2 = false) → (r = 0 ∨ r = 1) →
    opPipLoopExact pt l ip r =
      if ((Spec.pairs (ip :: l)).countP fun e => Spec.crossHO pt e.1 e.2) % 2 = 1 then 1 - r else r
  | [], ip, r, _, _ => by simp [opPipLoopExact, Spec.pairs]
  | nx :: t, ip, r, hoff, hr => by
    have h1 : Spec.onSeg pt ip nx = false := hoff (ip, nx) (by simp [Spec.pairs])
    have ht : ∀ e ∈ Spec.pairs (nx :: t), Spec.onSeg pt e.1 e.2 = false := fun e he =>
      hoff e (by simp only [Spec.pairs, List.mem_cons]; exact Or.inr he)
    unfold opPipLoopExact
    rw [pipStepExact_off pt ip nx h1 r]
    simp only
    have hr' : ((if Spec.crossHO pt ip nx then 1 - r else r) = 0 ∨ (if Spec.crossHO pt ip nx then 1 - r else r) = 1) := by
      rcases hr with rfl | rfl <;> split <;> simp
    rw [pipLoopExact_off pt t nx _ ht hr']
    have hp : Spec.pairs (ip :: nx :: t) = (ip, nx) :: Spec.pairs (nx :: t) := by simp [Spec.pairs]
    rw [hp, List.countP_cons]
    generalize (List.countP (fun e => Spec.crossHO pt e.1 e.2) (Spec.pairs (nx :: t))) = n
    by_cases hc : Spec.crossHO pt ip nx = true
    · simp only [hc, if_true]
      rcases Nat.mod_two_eq_zero_or_one n with hn | hn
      · have : (n + 1) % 2 = 1 := by omega
        simp [hn, this]
      · have : (n + 1) % 2 = 0 := by omega
        simp [hn, this]
    · simp only [hc, Bool.false_eq_true, if_false, Nat.add_zero]

/-- **the tolerance-free `pointInPoly` loop is the crossing-number test off the boundary**: for every
query point that lies on no edge of the closed curve through `path` (≥ 3 vertices, any shape) the
loop returns 1 exactly when the half-open horizontal ray crosses an odd number of edges
(`Spec.crossHO`), else 0 — never −1. -/
theorem C03_op_pointInPolyExact_crossing (pt : P) (path : Ring) (h3 : 3 ≤ path.length)
    (hoff : ∀ e ∈ Spec.cycPairs path, Spec.onSeg pt e.1 e.2 = false) :
    opPointInPolyExact pt path =
      if ((Spec.cycPairs path).countP fun e => Spec.crossHO pt e.1 e.2) % 2 = 1 then 1 else 0 := by
  unfold opPointInPolyExact
  rw [if_neg (by omega)]
  cases path with
  | nil => simp at h3
  | cons p0 t =>
    have := pipLoopExact_off pt (t ++ [p0]) p0 0 (by simpa [Spec.cycPairs] using hoff) (Or.inl rfl)
    show opPipLoopExact pt (t ++ [p0]) p0 0 = _
    rw [this]
    simp only [Spec.cycPairs, sub_zero]
    rfl

/-- **`pointInPoly` on an integer grid, off the boundary, is the crossing-number classification of the
Spec**: grid point, open-spelled grid ring (≥ 3 vertices, last ≠ first), point on no edge →
`pointInPoly = 1` iff `Spec.sideRing = inside`, `= 0` iff `outside`. -/
theorem C03_op_pointInPoly_grid_sideRing (pt : P) (path : Ring) (hpt : GridPt pt) (hpath : ∀ v ∈ path, GridPt v)
    (h3 : 3 ≤ path.length) (hopen : path.getLast? ≠ path.head?)
    (hoff : ∀ e ∈ Spec.cycPairs path, Spec.onSeg pt e.1 e.2 = false) :
    opPointInPoly pt path = (match Spec.sideRing pt path with | .inside => 1 | .outside => 0 | .onEdge => -1) := by
  rw [C03_op_pointInPoly_grid_exact pt path hpt hpath, C03_op_pointInPolyExact_crossing pt path h3 hoff]
  have hedges : Spec.edges path = Spec.cycPairs path := by
    unfold Spec.edges Spec.openRing
    rw [if_neg (fun h => hopen h.2)]
  have hany : (Spec.cycPairs path).any (fun e => Spec.onSeg pt e.1 e.2) = false := by
    rw [List.any_eq_false]; intro e he; simp [hoff e he]
  unfold Spec.sideRing
  simp only [hedges, hany, Bool.false_eq_true, if_false]
  split <;> rfl

example : opPointInPoly ⟨5, 5⟩ [⟨0,0⟩, ⟨10,0⟩, ⟨10,10⟩, ⟨0,10⟩] = 1 ∧ Spec.sideRing ⟨5, 5⟩ [⟨0,0⟩, ⟨10,0⟩, ⟨10,10⟩, ⟨0,10⟩] = .inside := by
  decide +kernel


theorem op_pairs_snoc2 : ∀ (l : List P) (x y : P), Spec.pairs (l ++ [x, y]) = Spec.pairs (l ++ [x]) ++ [(x, y)]
  | [], x, y => by simp [Spec.pairs]
  | [c], x, y => by simp [Spec.pairs]
  | c :: d :: l, x, y => by
    have := op_pairs_snoc2 (d :: l) x y
    simp only [List.cons_append, Spec.pairs] at this ⊢
    rw [this]

theorem cycPairs_closed (a : P) (t : List P) :
    Spec.cycPairs (a :: t ++ [a]) = Spec.cycPairs (a :: t) ++ [(a, a)] := by
  have := op_pairs_snoc2 (a :: t) a a
  simpa [Spec.cycPairs] using this

theorem onSeg_self_left (a b : P) : Spec.onSeg a a b = true := by
  simp [Spec.onSeg, Spec.cross]

/-- the same for a ring given CLOSED (first vertex repeated at the end), as the documentation of
package `op` asks: the degenerate closing edge `(a, a)` neither toggles nor reports a boundary hit. -/
theorem C03_op_pointInPoly_grid_sideRing_closed (pt a : P) (t : List P) (hpt : GridPt pt)
    (hpath : ∀ v ∈ a :: t, GridPt v) (h2 : 2 ≤ t.length)
    (hoff : ∀ e ∈ Spec.cycPairs (a :: t), Spec.onSeg pt e.1 e.2 = false) :
    opPointInPoly pt (a :: t ++ [a]) =
      (match Spec.sideRing pt (a :: t ++ [a]) with | .inside => 1 | .outside => 0 | .onEdge => -1) := by
  have hne : Spec.onSeg pt a a = false := by
    cases t with
    | nil => simp at h2
    | cons b t' =>
      have h := hoff (a, b) (by simp [Spec.cycPairs, Spec.pairs])
      by_cases hpa : pt = a
      · subst hpa; rw [onSeg_self_left] at h; exact absurd h (by simp)
      · simp only [Spec.onSeg, Spec.cross, Bool.and_eq_false_iff, beq_eq_false_iff_ne, decide_eq_false_iff_not,
          min_self, max_self, not_le]
        by_contra hc
        push Not at hc
        apply hpa
        obtain ⟨⟨⟨⟨_, h1⟩, h2'⟩, h3⟩, h4⟩ := hc
        cases pt; cases a
        simp only [Pt.mk.injEq]
        exact ⟨le_antisymm h2' h1, le_antisymm h4 h3⟩
  have hgrid : ∀ v ∈ a :: t ++ [a], GridPt v := by
    intro v hv
    rcases List.mem_append.mp hv with h | h
    · exact hpath v h
    · rw [List.mem_singleton.mp h]; exact hpath a (List.mem_cons_self ..)
  have hoff' : ∀ e ∈ Spec.cycPairs (a :: t ++ [a]), Spec.onSeg pt e.1 e.2 = false := by
    intro e he
    rw [cycPairs_closed] at he
    rcases List.mem_append.mp he with h | h
    · exact hoff e h
    · rw [List.mem_singleton.mp h]; exact hne
  rw [C03_op_pointInPoly_grid_exact pt _ hpt hgrid,
    C03_op_pointInPolyExact_crossing pt _ (by simp; omega) hoff']
  have hopen : Spec.openRing (a :: t ++ [a]) = a :: t := by
    unfold Spec.openRing
    rw [if_pos ⟨by simp, by rw [show a :: t ++ [a] = (a :: t) ++ [a] from rfl, List.getLast?_concat]; rfl⟩]
    rw [show a :: t ++ [a] = (a :: t) ++ [a] from rfl, List.dropLast_concat]
  have hcnt : (Spec.cycPairs (a :: t ++ [a])).countP (fun e => Spec.crossHO pt e.1 e.2) =
      (Spec.cycPairs (a :: t)).countP (fun e => Spec.crossHO pt e.1 e.2) := by
    rw [cycPairs_closed, List.countP_append]
    simp [crossHO_none pt a a Iff.rfl]
  have hany : (Spec.cycPairs (a :: t)).any (fun e => Spec.onSeg pt e.1 e.2) = false := by
    rw [List.any_eq_false]; intro e he; simp [hoff e he]
  unfold Spec.sideRing Spec.edges
  simp only [hopen, hcnt, hany, Bool.false_eq_true, if_false]
  split <;> rfl

example : opPointInPoly ⟨5, 5⟩ [⟨0,0⟩, ⟨10,0⟩, ⟨10,10⟩, ⟨0,10⟩, ⟨0,0⟩] = 1 ∧
    Spec.sideRing ⟨5, 5⟩ [⟨0,0⟩, ⟨10,0⟩, ⟨10,10⟩, ⟨0,10⟩, ⟨0,0⟩] = .inside := by decide +kernel


/-- a ring as package `op` wants it: closed spelling `a :: t ++ [a]` of ≥ 3 distinct positions, on the
integer grid, with the query point on none of its edges -/
def ClosedGridOff (pt : P) (r : Ring) : Prop :=
  ∃ a t, r = a :: t ++ [a] ∧ 2 ≤ t.length ∧ (∀ v ∈ a :: t, GridPt v) ∧
    ∀ e ∈ Spec.cycPairs (a :: t), Spec.onSeg pt e.1 e.2 = false

theorem openRing_closed (a : P) (t : List P) : Spec.openRing (a :: t ++ [a]) = a :: t := by
  unfold Spec.openRing
  rw [if_pos ⟨by simp, by rw [show a :: t ++ [a] = (a :: t) ++ [a] from rfl, List.getLast?_concat]; rfl⟩]
  rw [show a :: t ++ [a] = (a :: t) ++ [a] from rfl, List.dropLast_concat]

theorem sideRing_closed_off (pt a : P) (t : List P)
    (hoff : ∀ e ∈ Spec.cycPairs (a :: t), Spec.onSeg pt e.1 e.2 = false) :
    Spec.sideRing pt (a :: t ++ [a]) ≠ .onEdge := by
  have hany : (Spec.cycPairs (a :: t)).any (fun e => Spec.onSeg pt e.1 e.2) = false := by
    rw [List.any_eq_false]; intro e he; simp [hoff e he]
  unfold Spec.sideRing Spec.edges
  simp only [openRing_closed, hany, Bool.false_eq_true, if_false]
  split <;> simp

theorem pointInPoly_ne_zero_iff (pt : P) (r : Ring) (hpt : GridPt pt) (h : ClosedGridOff pt r) :
    (opPointInPoly pt r != 0) = (Spec.sideRing pt r == .inside) := by
  obtain ⟨a, t, rfl, h2, hg, hoff⟩ := h
  rw [C03_op_pointInPoly_grid_sideRing_closed pt a t hpt hg h2 hoff]
  have hne := sideRing_closed_off pt a t hoff
  cases hs : Spec.sideRing pt (a :: t ++ [a]) <;> simp_all

/-- **`Within(point, polygon)` on an integer grid, point on no ring**: the answer is the sign test of the
orientation-weighted count of the rings that contain the point in the crossing-number sense of the Spec
(`+1` for a ring `orientation` finds counter-clockwise, `−1` clockwise).  No validity hypothesis. -/
theorem C03_op_within_point_grid (pt : P) (p : Poly) (o : List Rat) (hpt : GridPt pt)
    (hp : ∀ r ∈ p, ClosedGridOff pt r) (ho : opOrientation p = .ok o) :
    opWithin (.point pt) (.polygon p) = .ok (.ok (decide (((o.zip p).map fun (x : Rat × Ring) =>
      if Spec.sideRing pt x.2 == .inside then (if x.1 > 0 then (1 : Int) else if x.1 < 0 then -1 else 0) else 0).sum > 0))) := by
  have hmap : ((o.zip p).map fun (x : Rat × Ring) =>
        if opPointInPoly pt x.2 != 0 then (if x.1 > 0 then (1 : Int) else if x.1 < 0 then -1 else 0) else 0) =
      ((o.zip p).map fun (x : Rat × Ring) =>
        if Spec.sideRing pt x.2 == .inside then (if x.1 > 0 then (1 : Int) else if x.1 < 0 then -1 else 0) else 0) := by
    apply List.map_congr_left
    intro x hx
    rw [pointInPoly_ne_zero_iff pt x.2 hpt (hp x.2 (List.of_mem_zip hx).2)]
  simp only [opWithin, opPointInPolygon, opPointInPolygonPoly, ho, bind, Except.bind, pure, Except.pure, Except.map]
  rw [← hmap]

example : opWithin (.point ⟨5, 5⟩) (.polygon [[⟨0,0⟩, ⟨10,0⟩, ⟨10,10⟩, ⟨0,10⟩, ⟨0,0⟩]]) = .ok (.ok true) := by decide +kernel


end GeomV.C03
