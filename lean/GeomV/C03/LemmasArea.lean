import GeomV.C03.LemmasSide

/-! Evaluation of `area` on spellings of a valid polygon. -/
namespace GeomV.C03
open Spec
set_option linter.unusedSimpArgs false

theorem ringArea_A (r : Ring) : absR (goCyc shoeF r / 2) = Spec.measure r := by
  rw [goCyc_eq_cyc, cyc_shoeF_eq_crossF, ← shoelace2_eq', absR_eq_abs]
  unfold Spec.measure; rw [specAbsR_eq_abs]
  rcases le_total 0 (shoelace2 r) with h | h
  · rw [abs_of_nonneg h, abs_of_nonneg (by linarith)]
  · rw [abs_of_nonpos h, abs_of_nonpos (by linarith)]; ring

theorem firstDecisive_of {others : Poly} {r : Ring} (hne : r ≠ []) {s : Side} (hs : s ≠ .onEdge)
    (h : ∀ v ∈ r, pip v others = s) (l : List P) : firstDecisive others (r ++ l) = some s := by
  cases r with
  | nil => exact absurd rfl hne
  | cons v t =>
    have hv := h v (by simp)
    rw [List.cons_append]
    unfold firstDecisive
    rw [hv]
    cases s <;> simp_all

theorem ringArea_inside {r : Ring} {others : Poly} (hl : 2 ≤ r.length)
    (h : ∀ v ∈ r, pip v others = .inside) : ringArea false r others = -Spec.measure r := by
  have hne : r ≠ [] := by intro e; rw [e] at hl; simp at hl
  unfold ringArea
  rw [if_neg (by omega)]
  simp only [firstDecisive_of hne (by decide) h, ringArea_A]
  simp

theorem ringArea_outside {r : Ring} {others : Poly} (hl : 2 ≤ r.length)
    (h : ∀ v ∈ r, pip v others = .outside) : ringArea false r others = Spec.measure r := by
  have hne : r ≠ [] := by intro e; rw [e] at hl; simp at hl
  unfold ringArea
  rw [if_neg (by omega)]
  simp only [firstDecisive_of hne (by decide) h, ringArea_A]
  simp

theorem ringArea_single {r : Ring} {others : Poly} (hl : 2 ≤ r.length) :
    ringArea true r others = Spec.measure r := by
  unfold ringArea
  rw [if_neg (by omega)]
  simp [ringArea_A]

theorem sideRings_outside {v : P} {rs : Poly} (h : ∀ g ∈ rs, sideRing v g = .outside) :
    sideRings v rs = .outside := by
  unfold sideRings
  have h1 : rs.any (fun r => sideRing v r == .onEdge) = false := by
    rw [List.any_eq_false]; intro g hg; rw [h g hg]; decide
  have h2 : rs.countP (fun r => sideRing v r == .inside) = 0 := by
    rw [List.countP_eq_zero]; intro g hg; rw [h g hg]; decide
  rw [h1, h2]; simp

theorem sideRings_inside {v : P} {shell : Ring} {os : Poly} (h1 : sideRing v shell = .inside)
    (h : ∀ g ∈ os, sideRing v g = .outside) : sideRings v (shell :: os) = .inside := by
  unfold sideRings
  have h1' : (shell :: os).any (fun r => sideRing v r == .onEdge) = false := by
    rw [List.any_eq_false]; intro g hg
    rcases List.mem_cons.mp hg with e | e
    · rw [e, h1]; decide
    · rw [h g e]; decide
  have h2 : (shell :: os).countP (fun r => sideRing v r == .inside) = 1 := by
    rw [List.countP_cons, h1]
    have : os.countP (fun r => sideRing v r == .inside) = 0 := by
      rw [List.countP_eq_zero]; intro g hg; rw [h g hg]; decide
    rw [this]; rfl
  rw [h1', h2]; simp

theorem forall₂_mem_right {R : Ring → Ring → Prop} {l l' : Poly} (h : List.Forall₂ R l l') {g' : Ring}
    (hg : g' ∈ l') : ∃ g ∈ l, R g g' := by
  induction h with
  | nil => simp at hg
  | cons hab _ ih =>
    rcases List.mem_cons.mp hg with e | e
    · subst e; exact ⟨_, by simp, hab⟩
    · obtain ⟨g, hg1, hg2⟩ := ih e; exact ⟨g, by simp [hg1], hg2⟩

theorem forall₂_measure {l l' : Poly} (h : List.Forall₂ SameCurve l l') :
    sumR (l'.map Spec.measure) = sumR (l.map Spec.measure) := by
  induction h with
  | nil => rfl
  | cons hab _ ih => simp only [List.map_cons, sumR, List.foldr] at ih ⊢; rw [hab.meas, ih]

theorem holes_sum {shell shell' : Ring} (hs : SameCurve shell shell') :
    ∀ (rest rest' : Poly), List.Forall₂ SameCurve rest rest' → ∀ (pre pre' : Poly), List.Forall₂ SameCurve pre pre' →
    holesOK shell pre rest = true →
    (∀ ro ∈ withOthers (shell' :: pre') rest', ∀ v ∈ ro.1, pip v ro.2 = sideOfSpec (sideRings v ro.2)) →
    ((withOthers (shell' :: pre') rest').map fun ro => ringArea false ro.1 ro.2).sum
      = -(sumR (rest.map Spec.measure)) := by
  intro rest rest' hrr
  induction hrr with
  | nil => intro pre pre' _ _ _; simp [withOthers, sumR]
  | @cons h h' t t' hh ht ih =>
    intro pre pre' hpp hok hag
    simp only [holesOK, Bool.and_eq_true] at hok
    obtain ⟨hok1, hok2⟩ := hok
    simp only [holeOK, List.all_eq_true, Bool.and_eq_true, beq_iff_eq] at hok1
    have hw : withOthers (shell' :: pre') (h' :: t') =
        (h', shell' :: pre' ++ t') :: withOthers (shell' :: (pre' ++ [h'])) t' := rfl
    rw [hw, List.map_cons, List.sum_cons]
    have hall : List.Forall₂ SameCurve (pre ++ t) (pre' ++ t') := List.rel_append hpp ht
    have hfirst : ∀ v ∈ h', pip v (shell' :: pre' ++ t') = .inside := by
      intro v hv
      have := hag (h', shell' :: pre' ++ t') (by rw [hw]; simp) v hv
      rw [this]
      have hvh := hok1 v (hh.mem v hv)
      have : sideRings v (shell' :: (pre' ++ t')) = .inside := by
        apply sideRings_inside
        · rw [hs.side]; exact hvh.1
        · intro g' hg'
          obtain ⟨g, hg, hR⟩ := forall₂_mem_right hall hg'
          rw [hR.side]; exact hvh.2 g hg
      simp only [List.cons_append] at this ⊢
      rw [this]; rfl
    rw [ringArea_inside hh.len hfirst, hh.meas]
    have := ih (pre ++ [h]) (pre' ++ [h']) (List.rel_append hpp (List.Forall₂.cons hh List.Forall₂.nil)) hok2
      (by intro ro hro; exact hag ro (by rw [hw]; exact List.mem_cons_of_mem _ hro))
    rw [this]
    simp only [List.map_cons, sumR, List.foldr]; ring


theorem forall₂_respell {sh : List Spell} {holes : Poly} (hlen : sh.length = holes.length)
    (hs : ∀ h ∈ holes, SimpleRing h = true) : List.Forall₂ SameCurve holes (respell sh holes) := by
  induction holes generalizing sh with
  | nil => cases sh <;> simp [respell]
  | cons h t ih =>
    cases sh with
    | nil => simp at hlen
    | cons s sh' =>
      simp only [respell, List.zipWith_cons_cons]
      exact List.Forall₂.cons (sameCurve_ap s (hs h (by simp)))
        (ih (by simpa using hlen) (fun g hg => hs g (by simp [hg])))

theorem pipAgrees_iff (p : Poly) : PipAgrees p = true ↔
    ∀ ro ∈ withOthers [] p, ∀ v ∈ ro.1, pip v ro.2 = sideOfSpec (sideRings v ro.2) := by
  unfold PipAgrees; simp only [List.all_eq_true, beq_iff_eq]

/-- core of `C03_area`, with the facts it uses spelled out -/
theorem area_of_spelling (shell : Ring) (holes : Poly) (s0 : Spell) (sh : List Spell)
    (hlen : sh.length = holes.length) (hv : ValidPoly (shell :: holes) = true)
    (hag : PipAgrees (respell (s0 :: sh) (shell :: holes)) = true) :
    polygonArea (respell (s0 :: sh) (shell :: holes)) = Spec.area (shell :: holes) := by
  simp only [ValidPoly, Bool.and_eq_true, List.all_eq_true, beq_iff_eq] at hv
  obtain ⟨⟨⟨hsimple, _⟩, hshell⟩, hholes⟩ := hv
  have hS : SameCurve shell (s0.ap shell) := sameCurve_ap s0 (hsimple shell (by simp))
  have hH : List.Forall₂ SameCurve holes (respell sh holes) :=
    forall₂_respell hlen (fun h hh => hsimple h (by simp [hh]))
  rw [pipAgrees_iff] at hag
  have hp' : respell (s0 :: sh) (shell :: holes) = s0.ap shell :: respell sh holes := rfl
  rw [hp'] at hag ⊢
  have hw : withOthers [] (s0.ap shell :: respell sh holes) =
      (s0.ap shell, respell sh holes) :: withOthers [s0.ap shell] (respell sh holes) := rfl
  unfold polygonArea
  rw [hw, List.map_cons, List.sum_cons]
  show _ = Spec.measure shell - sumR (holes.map Spec.measure)
  generalize respell sh holes = holes' at hH hag hw ⊢
  cases hH with
  | nil =>
    -- no holes: `len(p) == 1`
    simp only [List.length_cons, List.length_nil]
    rw [show ((0 + 1 == 1) = true) from rfl, ringArea_single hS.len, hS.meas]
    simp [withOthers, sumR]
  | @cons h h' t t' hh ht =>
    have hH' : List.Forall₂ SameCurve (h :: t) (h' :: t') := List.Forall₂.cons hh ht
    have hsingle : ((s0.ap shell :: h' :: t').length == 1) = false := by simp
    rw [hsingle]
    have hout : ∀ v ∈ s0.ap shell, pip v (h' :: t') = .outside := by
      intro v hv
      rw [hag (s0.ap shell, h' :: t') (by rw [hw]; simp) v hv]
      have : sideRings v (h' :: t') = .outside := by
        apply sideRings_outside
        intro g' hg'
        obtain ⟨g, hg, hR⟩ := forall₂_mem_right hH' hg'
        rw [hR.side]; exact hshell v (hS.mem v hv) g hg
      rw [this]; rfl
    rw [ringArea_outside hS.len hout, hS.meas]
    have := holes_sum hS (h :: t) (h' :: t') hH' [] [] List.Forall₂.nil hholes
      (by intro ro hro; exact hag ro (by rw [hw]; exact List.mem_cons_of_mem _ hro))
    rw [this]; ring

end GeomV.C03
