import GeomV.C03.Model
/-!
# C03 — model of `op.Area` and `op.Length` (op/properties.go) on EVERY geometry

The type switches of `op.Area` / `op.Length`: the Polygon / MultiPolygon (LineString / MultiLineString)
cases are `opPolygonArea`, `opMultiPolygonArea` (`lineStringLength`, `multiLineStringLength`) of
Model.lean; here the `GeometryCollection` case (the function calls itself on every member, adding the
results from the left, `math.Abs` of the sum for `Area`) and the geometries no case lists (`a := 0.` /
`l := 0.` is returned).  Core Lean only.
-/
namespace GeomV.C03
open RNum

mutual
/-- `op.Area(g)` -/
def opAreaGeom : Geom Rat → Rat
  | .polygon rs => opPolygonArea rs
  | .multiPolygon ps => opMultiPolygonArea ps
  | .collection gs => absR (opAreaAcc gs 0)
  | _ => 0
/-- the loop `for _, g := range gc { a += Area(g) }` -/
def opAreaAcc : List (Geom Rat) → Rat → Rat
  | [], a => a
  | g :: gs, a => opAreaAcc gs (a + opAreaGeom g)
end

section
variable {α : Type} [RNum α]
mutual
/-- `op.Length(g)` -/
def opLengthGeom : Geom α → α
  | .lineString l => lineStringLength l
  | .multiLineString ls => multiLineStringLength ls
  | .collection gs => opLengthAcc gs (ofNat 0)
  | _ => ofNat 0
/-- the loop `for _, g := range gc { l += Length(g) }` -/
def opLengthAcc : List (Geom α) → α → α
  | [], a => a
  | g :: gs, a => opLengthAcc gs (a + opLengthGeom g)
end
end

end GeomV.C03
