import GeomV.C03.ModelOp
import GeomV.C03.SpecOp
/-!
Judge of the `opfix` / `opwithin` / `opfixwithin` lines (see harness/cmd/c03/op.go).

* `DIFF`: the implementation's answer differs from `ModelOp` (exact comparison: every coordinate is a
  dyadic rational, reversal moves vertices without arithmetic, `Within` answers a boolean).  `Within` and
  `FixOrientation` are tied by this correspondence ONLY: property C03 speaks of Area, Centroid, Length,
  Distance and Buffer, so their own answers are not judged by a Spec (see notes, observations F1–F3).
* `SPEC`: only for the composite that touches the property — on a valid polygon (closed rings,
  `Spec.ValidPoly` once opened, any ring order, any per-ring direction) `op.Area` and `op.Centroid`
  AFTER `FixOrientation` must be shell − holes and the area-weighted centroid, and `Polygon.Area` must be
  what it was before.  Computed from the Spec on the implementation's answers.
* The class of a `Within` line says whether the answer is the closed-region membership of `SpecOp`
  (suffix `-notclosedregion` when it is not): a histogram entry, not a verdict.

Class suffixes: `-tol:xy` when every |coordinate| ≤ 2⁻³¹ (every difference is below the ABSOLUTE tolerance
1e-9), `-tol:d` when the coordinate grid unit `u` has `u² ≤ 1e-9` (the cross product in `pointInPoly` can be
below it); `-onhole` / `-onshell:vleft` / `-onshell` when a query vertex lies on the boundary of a hole / strictly
inside a vertical shell edge with the region on its right / elsewhere on the shell.
Core Lean only.
-/
namespace GeomV.C03
open GeomV

def opRatPt (p : Pt UInt64) : Option P := do
  let x ← bitsToRat p.x; let y ← bitsToRat p.y; pure ⟨x, y⟩
def opRatPoly (p : List (List (Pt UInt64))) : Option Poly := p.mapM (·.mapM opRatPt)

def opGeomOf : BGeom → Option OpGeom
  | .nil => some .nil
  | .point p => (opRatPt p).map .point
  | .polygon rs => (opRatPoly rs).map .polygon
  | .multiPolygon ps => (ps.mapM opRatPoly).map .multiPolygon
  | .multiPoint _ => some (.other "geom.MultiPoint")
  | .lineString _ => some (.other "geom.LineString")
  | .multiLineString _ => some (.other "geom.MultiLineString")
  | .collection _ => some (.other "geom.GeometryCollection")
  | .bounds _ _ => some (.other "*geom.Bounds")

def opGeomEq : OpGeom → OpGeom → Bool
  | .nil, .nil => true
  | .point a, .point b => a == b
  | .polygon a, .polygon b => a == b
  | .multiPolygon a, .multiPolygon b => a == b
  | .other a, .other b => a == b
  | _, _ => false

def opRings : OpGeom → Poly
  | .point p => [[p]]
  | .polygon p => p
  | .multiPolygon mp => mp.flatten
  | _ => []

/-- `-tol:xy`: every coordinate on the line has magnitude ≤ 2⁻³¹, so EVERY coordinate difference is below
the absolute tolerance 1e-9 (only such tiny inputs get this tag: it is part of a known-finding signature);
`-tol:d`: otherwise, when the square of the grid unit `u` (1 / largest denominator) is ≤ 1e-9, so the cross
product in `pointInPoly` can be below the tolerance without being zero -/
def opTolTag (gs : List OpGeom) : String :=
  let vs : List P := gs.flatMap fun g => (opRings g).flatten
  let d : Nat := vs.foldl (fun d v => max d (max v.x.den v.y.den)) 1
  let m : Rat := vs.foldl (fun m v => max m (max (absR v.x) (absR v.y))) 0
  let u : Rat := 1 / (d : Nat)
  if 0 < m && m ≤ 1 / 2 ^ 31 then "-tol:xy" else if u * u > opTol then "" else "-tol:d"

def us (s : String) : String := s.replace " " "_"

/-- what the implementation printed for one call -/
inductive OpAns where
  | okGeom (g : OpGeom) | okBool (b : Bool) | err (m : String) | panic (m : String) | bad

def opAnsOf : Tok → OpAns
  | ["ok", "true"] => .okBool true
  | ["ok", "false"] => .okBool false
  | "ok" :: gt => match Proto.pGeom 2 gt with
    | some (g, []) => match opGeomOf g with | some g => .okGeom g | none => .bad
    | _ => .bad
  | ["err", m] => .err m
  | "panic" :: m => .panic (" ".intercalate m)
  | _ => .bad

def OpAns.show : OpAns → String
  | .okGeom _ => "ok <geometry>" | .okBool b => s!"ok {b}" | .err m => s!"err {m}" | .panic m => s!"panic {m}" | .bad => "unparsable"

def showModel {α : Type} (f : α → String) : Except OpFault (Except OpErr α) → String
  | .error e => s!"panic:{repr e}"
  | .ok (.error e) => s!"err {us e.msg}"
  | .ok (.ok a) => f a

/-- implementation answer = model answer (`pre` = the `fix:` mark of `opfixwithin`) -/
def opAgrees {α : Type} (eq : OpAns → α → Bool) (pre : String) (impl : OpAns) (m : Except OpFault (Except OpErr α)) : Bool :=
  match impl, m with
  | .panic s, .error .indexOutOfRange => s.startsWith (pre ++ "runtime_error:_index_out_of_range")
  | .err s, .ok (.error e) => s == pre ++ us e.msg
  | a, .ok (.ok x) => eq a x
  | _, _ => false

def eqGeom : OpAns → OpGeom → Bool
  | .okGeom a, b => opGeomEq a b
  | _, _ => false
def eqBool : OpAns → Bool → Bool
  | .okBool a, b => a == b
  | _, _ => false

def splitBar (t : Tok) : List Tok :=
  let rec go : Tok → Tok → List Tok → List Tok
    | [], cur, acc => (cur.reverse :: acc).reverse
    | "|" :: t, cur, acc => go t [] (cur.reverse :: acc)
    | x :: t, cur, acc => go t (x :: cur) acc
  go t [] []

def opValidTag (p : Poly) : String :=
  if !p.all Spec.isClosed then "invalid-unclosed"
  else match Spec.shellIndex (Spec.canon p) with
    | some 0 => "valid"
    | some _ => "valid-holefirst"
    | none => "invalid"

def fvRat (s : String) : Option Rat := (parseU64 s).bind bitsToRat

/-- `opfix`: `g` the input geometry, `rhs` the implementation's answer -/
def judgeOpFix (tag : String) (g : OpGeom) (rhs : Tok) : String :=
  let m1 := opFixOrientation g
  let parts := splitBar rhs
  let a1 := opAnsOf (parts.headD [])
  let tol := opTolTag [g]
  match g with
  | .polygon _ | .multiPolygon _ =>
    let members : MPoly := match g with | .polygon p => [p] | .multiPolygon mp => mp | _ => []
    let kindTag := match g with | .polygon _ => "PG" | _ => s!"MPG{min members.length 4}"
    let vtags := members.map opValidTag
    let valid := !members.isEmpty && vtags.all (·.startsWith "valid")
    let vtag := if valid then (if vtags.all (· == "valid") then "valid" else "valid-holefirst")
                else if vtags.any (· == "invalid-unclosed") then "invalid-unclosed" else "invalid"
    let cw := members.flatten.map fun r => decide (Spec.shoelace2 r < 0)
    let cls := s!"opfix-{tag}-{vtag}-{kindTag}-r{min members.flatten.length 6}-cw:{if cw.all id then "all" else if cw.any id then "mixed" else "none"}{tol}"
    let bad (k : String) (why : String) := s!"{k} {cls} {why}"
    let kind := "DIFF"
    -- Spec verdict on the composite FixOrientation ; op.Area / op.Centroid / Polygon.Area
    let spec : Option String :=
      if !valid then none else
      match (parts.getD 2 []).map fvRat with
      | [some _, some oa1, some ga0, some ga1] =>
        let want := Spec.sumR (members.map fun p => (Spec.areaAnyOrder p).getD 0)
        if oa1 != want then some s!"op.Area-after-FixOrientation={oa1} but shells-minus-holes={want}"
        else if ga0 != ga1 then some s!"Area-before-FixOrientation={ga0} after={ga1}"
        else if members.length == 1 && ga1 != want then some s!"Polygon.Area={ga1} but shell-minus-holes={want}"
        else match g, (parts.getD 3 []) with
          | .polygon p, "ok" :: hx :: hy :: _ =>
            match fvRat hx, fvRat hy, Spec.shellFirst (Spec.canon p) with
            | some x, some y, some c =>
              let w := Spec.centroid c
              let scale := p.foldl (fun m r => r.foldl (fun m v => max m (max (Spec.absR v.x) (Spec.absR v.y))) m) 0
              let close (a b : Rat) : Bool := decide (Spec.absR (a - b) ≤ opTol * max (Spec.absR b) scale)
              if close x w.x && close y w.y then none
              else some s!"op.Centroid-after-FixOrientation=({x},{y}) but area-weighted centroid=({w.x},{w.y})"
            | _, _, _ => some "op.Centroid-after-FixOrientation-is-not-finite"
          | .polygon _, t => some s!"op.Centroid-after-FixOrientation:{" ".intercalate t}"
          | _, _ => none
      | _ => none
    match spec with
    | some why => bad "SPEC" why
    | none =>
      if !opAgrees eqGeom "" a1 m1 then bad kind s!"FixOrientation impl={a1.show} model={showModel (fun _ => "ok <other geometry>") m1}"
      else match m1 with
        | .ok (.ok g1) =>
          let m2 := opFixOrientation g1
          let a2 := opAnsOf (parts.getD 1 [])
          if !opAgrees eqGeom "" a2 m2 then bad kind s!"second-FixOrientation impl={a2.show} differs-from-model"
          else
            -- op.Area before / after against the model of op.Area (exact)
            let oa (x : OpGeom) : Rat := match x with | .polygon p => opPolygonArea p | .multiPolygon mp => opMultiPolygonArea mp | _ => 0
            match (parts.getD 2 []).map fvRat with
            | [some a0, some a1', _, _] =>
              if a0 != oa g then bad kind s!"op.Area-before impl={a0} model={oa g}"
              else if a1' != (match m2 with | .ok (.ok g2) => oa g2 | _ => oa g1) then bad kind s!"op.Area-after impl={a1'} model-differs"
              else s!"OK {cls}"
            | _ => s!"OK {cls}"
        | _ => s!"OK {cls}-{match m1 with | .error _ => "fault" | _ => "err"}"
  | _ =>
    let cls := s!"opfix-{tag}-unsupported"
    if opAgrees eqGeom "" a1 m1 then s!"OK {cls}" else s!"DIFF {cls} impl={a1.show} model={showModel (fun _ => "ok") m1}"

/-- `opwithin` / `opfixwithin` -/
def judgeOpWithin (fixFirst : Bool) (tag : String) (inner outer : OpGeom) (rhs : Tok) : String :=
  let kindS := if fixFirst then "opfixwithin" else "opwithin"
  let a := opAnsOf rhs
  let tol := opTolTag [inner, outer]
  -- model: FixOrientation(outer) first when asked
  let outer1 : Except OpFault (Except OpErr OpGeom) := if fixFirst then opFixOrientation outer else .ok (.ok outer)
  let m : Except OpFault (Except OpErr Bool) × String := match outer1 with
    | .error f => (.error f, "fix:")
    | .ok (.error e) => (.ok (.error e), "fix:")
    | .ok (.ok o) => (opWithin inner o, "")
  let agrees := opAgrees eqBool m.2 a m.1
  match outer, inner with
  | .polygon op, .point _ | .polygon op, .polygon _ =>
    let vtag := opValidTag op
    let wound := fixFirst || Spec.windingOK op
    let inSpec := vtag.startsWith "valid" && wound
    let c := Spec.canon op
    let verts : List P := (opRings inner).flatten
    let shell := (Spec.shellIndex c).getD 0
    let onRing (v : P) (i : Nat) : Bool := Spec.sideRing v (c.getD i []) == .onEdge
    let onHole := inSpec && verts.any fun v => (List.range c.length).any fun i => i != shell && onRing v i
    -- strictly inside a vertical edge of the shell that has the region on its right
    let sh := c.getD shell []
    let ccw := decide (0 < Spec.shoelace2 sh)
    let vleft (v : P) : Bool := (Spec.edges sh).any fun e =>
      e.1.x == v.x && e.2.x == v.x && decide (min e.1.y e.2.y < v.y) && decide (v.y < max e.1.y e.2.y) &&
      (decide (e.2.y < e.1.y) == ccw)
    let onShellV := inSpec && verts.any fun v => onRing v shell && vleft v
    let onShell := inSpec && verts.any fun v => onRing v shell && !vleft v
    let innerTag := match inner with
      | .point pt => if !inSpec then "pt" else
          match Spec.sideRings pt c with
          | .inside => "pt-inside" | .outside => "pt-outside" | .onEdge => "pt"
      | _ => s!"pg{min verts.length 9}"
    let cls := s!"{kindS}-{tag}-{vtag}{if vtag.startsWith "valid" && !wound then "-unfixed" else ""}-{innerTag}{if onHole then "-onhole" else ""}{if onShellV then "-onshell:vleft" else ""}{if onShell then "-onshell" else ""}{tol}"
    -- closed-region membership of SpecOp: part of the class only (no verdict)
    let unlike := inSpec && (match a with
      | .okBool b => b != (match inner with
          | .point pt => Spec.inClosedRegion pt c
          | _ => Spec.verticesWithin (opRings inner) c)
      | _ => true)
    let cls := cls ++ (if unlike then "-notclosedregion" else "")
    if !agrees then s!"DIFF {cls} impl={a.show} model={showModel (fun b => s!"ok {b}") m.1}"
    else s!"OK {cls}{match m.1 with | .error _ => "-fault" | .ok (.error _) => "-err" | _ => ""}"
  | _, _ =>
    let cls := s!"{kindS}-{tag}-unsupported"
    if agrees then s!"OK {cls}" else s!"DIFF {cls} impl={a.show} model={showModel (fun b => s!"ok {b}") m.1}"

/-- verdict for an `op…` line, `none` for every other kind of line -/
def judgeOp (toks : Tok) : Option String :=
  let (lhs, rhs) := splitArrow toks
  match lhs with
  | kind :: tag :: rest =>
    if kind != "opfix" && kind != "opwithin" && kind != "opfixwithin" then none else
    if rhs.head? == some "harness-panic" then some s!"DIFF {kind} harness-panic" else
    let mods := rhs.filter (·.startsWith "modified:")
    if !mods.isEmpty then some s!"SPEC {kind}-{tag}-argument-modified {" ".intercalate mods}" else
    match kind with
    | "opfix" =>
      match Proto.pGeom 2 rest with
      | some (g, []) => match opGeomOf g with
        | some g => some (judgeOpFix tag g rhs)
        | none => some s!"OK {kind}-skipped"
      | _ => some "BAD parse"
    | _ =>
      match Proto.pGeom 2 rest with
      | some (gi, rest2) =>
        match Proto.pGeom 2 rest2 with
        | some (go, []) =>
          match opGeomOf gi, opGeomOf go with
          | some i, some o => some (judgeOpWithin (kind == "opfixwithin") tag i o rhs)
          | _, _ => some s!"OK {kind}-skipped"
        | _ => some "BAD parse"
      | none => some "BAD parse"
  | _ => none

end GeomV.C03
